//go:build verif

package probe

import (
	"context"
	"fmt"
	"testing"

	"verifharness/internal/sim"

	"github.com/yorkie-team/yorkie/client"
	"github.com/yorkie-team/yorkie/pkg/document"
	"github.com/yorkie-team/yorkie/pkg/document/json"
	"github.com/yorkie-team/yorkie/pkg/document/presence"
	"github.com/yorkie-team/yorkie/pkg/key"
)

func dumpTree(d *document.Document) string {
	t := d.Root().GetTree("x")
	s := ""
	for _, n := range t.Tree.Nodes() {
		rm := ""
		if n.IsRemoved() {
			rm = " REMOVED"
		}
		s += fmt.Sprintf("  %s %q%s\n", fmt.Sprintf("%s:%d", n.ID().CreatedAt.ToTestString(), n.ID().Offset), n.Value, rm)
	}
	return s
}

func TestTree95(t *testing.T) {
	ctx := context.Background()
	s, err := sim.Start(t.TempDir(), sim.Options{})
	if err != nil {
		t.Fatal(err)
	}
	defer s.Stop()
	p, _ := s.NewProject(ctx, 0, 0)
	mk := func() (*client.Client, *document.Document) {
		c, err := client.Dial(s.Addr, client.WithAPIKey(p.PublicKey))
		if err != nil {
			t.Fatal(err)
		}
		if err := c.Activate(ctx); err != nil {
			t.Fatal(err)
		}
		d := document.New(key.Key("tree95"))
		if err := c.Attach(ctx, d); err != nil {
			t.Fatal(err)
		}
		return c, d
	}
	c0, d0 := mk()
	_ = d0.Update(func(r *json.Object, pr *presence.Presence) error {
		r.SetNewTree("x", json.TreeNode{Type: "doc", Children: []json.TreeNode{
			{Type: "p", Children: []json.TreeNode{{Type: "text", Value: "ab"}}},
			{Type: "p", Children: []json.TreeNode{{Type: "text", Value: "cd"}}},
		}})
		return nil
	})
	if err := c0.Sync(ctx); err != nil {
		t.Fatal(err)
	}
	c1, d1 := mk()
	upd := func(d *document.Document, f func(tr *json.Tree)) {
		if err := d.Update(func(r *json.Object, pr *presence.Presence) error { f(r.GetTree("x")); return nil }); err != nil {
			t.Fatal(err)
		}
	}
	upd(d1, func(tr *json.Tree) { tr.Edit(6, 7, nil, 0) })
	upd(d0, func(tr *json.Tree) { tr.Edit(2, 2, &json.TreeNode{Type: "text", Value: "hij"}, 0) })
	t.Log("c0 sync", c0.Sync(ctx))
	t.Log("c1 sync", c1.Sync(ctx))
	upd(d0, func(tr *json.Tree) { tr.Edit(5, 5, &json.TreeNode{Type: "text", Value: "e"}, 0) })
	t.Log("d1 before:\n" + dumpTree(d1))
	t.Log("c1 sync", c1.Sync(ctx))
	t.Log("d1 after idle sync:\n" + dumpTree(d1))
	t.Log("d0:\n" + dumpTree(d0))
	t.Log("c0 sync", c0.Sync(ctx))
	t.Log("c1 sync", c1.Sync(ctx))
	t.Log(d0.Marshal())
	t.Log(d1.Marshal())
}
