//go:build verif

package probe

import (
	"context"
	"encoding/json"
	"testing"
	"time"

	"verifharness/internal/hist"
	"verifharness/internal/rng"
	"verifharness/internal/sim"
)

func TestHistMany(t *testing.T) {
	s, err := sim.Start(t.TempDir(), sim.Options{})
	if err != nil {
		t.Fatal(err)
	}
	defer s.Stop()
	s2, err := sim.Start(t.TempDir(), sim.Options{SnapshotDisableGC: true})
	if err != nil {
		t.Fatal("second server:", err)
	}
	defer s2.Stop()
	rn := &hist.Runner{S: s}
	r := rng.New(11)
	t0 := time.Now()
	stats := map[string]int{}
	shown := map[string]int{}
	for i := 0; i < 1200; i++ {
		fl := []string{"object", "array", "arraymove", "text", "counter", "mixed"}[i%6]
		h := hist.Generate(r.Fork(), hist.GenConfig{Flavor: fl, MinClients: 2, MaxClients: 4, MinSteps: 8, MaxSteps: 30, Inflight: i%2 == 0})
		out := rn.Run(context.Background(), h)
		kind := "ok"
		if out.Fatal != "" {
			kind = "fatal"
		} else if len(out.Problems) > 0 {
			kind = out.Problems[0].Kind
		} else {
			for j := 1; j < len(out.Final); j++ {
				if out.Final[j] != out.Final[0] {
					kind = "diverged"
				}
			}
		}
		stats[fl+"/"+kind]++
		if kind != "ok" && shown[fl+kind] < 1 {
			shown[fl+kind]++
			b, _ := json.Marshal(out.Problems)
			hb, _ := json.Marshal(h)
			t.Logf("%s %s: %s\n final=%v\n hist=%s", fl, kind, b, out.Final, hb)
		}
	}
	t.Logf("%v in %v", stats, time.Since(t0))
}
