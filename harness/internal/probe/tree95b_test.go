//go:build verif

package probe

import (
	"context"
	"encoding/json"
	"os"
	"testing"

	"verifharness/internal/hist"
	"verifharness/internal/sim"
)

func TestTree95b(t *testing.T) {
	ctx := context.Background()
	s, err := sim.Start(t.TempDir(), sim.Options{})
	if err != nil {
		t.Fatal(err)
	}
	defer s.Stop()
	b, _ := os.ReadFile("/verif/.work/t/tree95.json")
	var rp struct {
		Violation struct {
			Replay hist.History `json:"replay"`
		} `json:"violation"`
	}
	if err := json.Unmarshal(b, &rp); err != nil {
		t.Fatal(err)
	}
	h := rp.Violation.Replay
	h.Quiesce = 0
	rn := &hist.Runner{S: s, Hook: func(r *hist.Run, i int, st *hist.Step) {
		t.Logf("after step %d %s c%d", i, st.Op, st.C)
		for k, rep := range r.R {
			if rep.A != nil {
				t.Logf(" replica %d vv=%s\n%s", k, rep.A.Doc.VersionVector().Marshal(), dumpTree(rep.A.Doc))
			}
		}
	}}
	run, o := rn.RunFull(ctx, &h)
	t.Log(o.Problems, o.Fatal)
	_ = run
}
