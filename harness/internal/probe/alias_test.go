package probe

import (
	"testing"

	"github.com/yorkie-team/yorkie/pkg/document"
	"github.com/yorkie-team/yorkie/pkg/document/change"
	"github.com/yorkie-team/yorkie/pkg/document/json"
	"github.com/yorkie-team/yorkie/pkg/document/presence"
	"github.com/yorkie-team/yorkie/pkg/document/time"
)

func actorOf(n byte) time.ActorID { var a time.ActorID; a[11] = n; return a }

func TestAlias(t *testing.T) {
	d1 := document.New("k")
	d1.SetActor(actorOf(1))
	d2 := document.New("k")
	d2.SetActor(actorOf(2))
	go func() {
		for range d1.Events() {
		}
	}()
	go func() {
		for range d2.Events() {
		}
	}()
	_ = d2.Update(func(r *json.Object, p *presence.Presence) error { r.SetInteger("b", 1); return nil })
	_ = d1.Update(func(r *json.Object, p *presence.Presence) error { r.SetInteger("a", 1); return nil })
	p2 := d2.CreateChangePack()
	cB := p2.Changes[0]
	cB.SetServerSeq(1)
	p1 := d1.CreateChangePack()
	c1 := p1.Changes[0]
	t.Logf("before: c1 lamport=%d vv=%s", c1.ID().Lamport(), c1.ID().VersionVector().Marshal())
	pack := change.NewPack("k", change.NewCheckpoint(1, 0), []*change.Change{cB}, nil, nil)
	if err := d1.ApplyChangePack(pack); err != nil {
		t.Fatal(err)
	}
	p1b := d1.CreateChangePack()
	c1b := p1b.Changes[0]
	t.Logf("after : c1 lamport=%d vv=%s", c1b.ID().Lamport(), c1b.ID().VersionVector().Marshal())
	if x, _ := c1b.ID().VersionVector().Get(actorOf(1)); x != c1b.ID().Lamport() {
		t.Errorf("own entry %d != lamport %d", x, c1b.ID().Lamport())
	}
}
