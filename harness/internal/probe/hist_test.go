//go:build verif

package probe

import (
	"context"
	"encoding/json"
	"testing"
	"time"

	"verifharness/internal/hist"
	"verifharness/internal/rng"
	"verifharness/internal/sim"
)

func TestHistSmoke(t *testing.T) {
	s, err := sim.Start(t.TempDir(), sim.Options{})
	if err != nil {
		t.Fatal(err)
	}
	defer s.Stop()
	rn := &hist.Runner{S: s}
	r := rng.New(7)
	t0 := time.Now()
	bad := 0
	for i := 0; i < 40; i++ {
		fl := []string{"object", "array", "arraymove", "text", "counter", "mixed"}[i%6]
		h := hist.Generate(r.Fork(), hist.GenConfig{Flavor: fl, MinClients: 2, MaxClients: 3, MinSteps: 8, MaxSteps: 20})
		out := rn.Run(context.Background(), h)
		if out.Fatal != "" || len(out.Problems) > 0 {
			bad++
			b, _ := json.Marshal(out.Problems)
			t.Logf("hist %d (%s): fatal=%q problems=%s", i, fl, out.Fatal, b)
		}
		same := true
		for j := 1; j < len(out.Final); j++ {
			if out.Final[j] != out.Final[0] {
				same = false
			}
		}
		if !same {
			t.Logf("hist %d (%s) DIVERGED: %v", i, fl, out.Final)
		}
		if i < 3 {
			t.Logf("final: %v log=%d", out.Final[0], len(out.Log))
		}
	}
	t.Logf("40 histories in %v, bad=%d", time.Since(t0), bad)
}
