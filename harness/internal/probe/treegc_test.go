//go:build verif

package probe

import (
	"testing"

	"github.com/yorkie-team/yorkie/api/converter"
	"github.com/yorkie-team/yorkie/pkg/document"
	"github.com/yorkie-team/yorkie/pkg/document/json"
	"github.com/yorkie-team/yorkie/pkg/document/presence"
	"github.com/yorkie-team/yorkie/pkg/document/time"
	"github.com/yorkie-team/yorkie/pkg/key"
)

func TestTreeUnstyleGC(t *testing.T) {
	d := document.New(key.Key("g"))
	go func() {
		for range d.Events() {
		}
	}()
	_ = d.Update(func(r *json.Object, p *presence.Presence) error {
		r.SetNewTree("x", json.TreeNode{Type: "doc", Children: []json.TreeNode{
			{Type: "p", Children: []json.TreeNode{{Type: "text", Value: "ab"}}}}})
		return nil
	})
	show := func(what string) {
		b, _ := converter.SnapshotToBytes(d.RootObject(), d.AllPresences())
		nd, err := document.NewInternalDocumentFromSnapshot(key.Key("g"), 1, 1, time.NewVersionVector(), b)
		if err != nil {
			t.Fatal(err)
		}
		t.Logf("%s: live GarbageLen=%d reloaded=%d xml=%s", what, d.GarbageLen(), nd.GarbageLen(), d.Root().GetTree("x").ToXML())
	}
	show("initial")
	_ = d.Update(func(r *json.Object, p *presence.Presence) error {
		r.GetTree("x").RemoveStyle(0, 1, []string{"zz"})
		return nil
	})
	show("after RemoveStyle of an absent attribute")
	_ = d.Update(func(r *json.Object, p *presence.Presence) error {
		r.GetTree("x").Style(0, 1, map[string]string{"b": "1"})
		return nil
	})
	_ = d.Update(func(r *json.Object, p *presence.Presence) error {
		r.GetTree("x").RemoveStyle(0, 1, []string{"b"})
		return nil
	})
	show("after Style+RemoveStyle")
}
