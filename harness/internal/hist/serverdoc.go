package hist

import (
	"context"
	"fmt"

	"github.com/yorkie-team/yorkie/api/types"
	"github.com/yorkie-team/yorkie/pkg/document"
	"github.com/yorkie-team/yorkie/pkg/document/change"
	"github.com/yorkie-team/yorkie/pkg/document/crdt"
	"github.com/yorkie-team/yorkie/pkg/document/time"
	"github.com/yorkie-team/yorkie/pkg/key"
	"github.com/yorkie-team/yorkie/server/backend/database"
	"github.com/yorkie-team/yorkie/server/packs"
)

// RefReplica is the "applied every change one by one" replica of C02: an
// InternalDocument fed from the server's change log in serverSeq order, no
// snapshot, no cache, no garbage collection.
type RefReplica struct {
	doc   *document.InternalDocument
	upTo  int64
	AtSeq []string // AtSeq[s-1] = content after applying serverSeq s
}

func newRef(k string) *RefReplica {
	return &RefReplica{doc: document.NewInternalDocument(key.Key(k))}
}

func (r *Run) refAdvance(ctx context.Context, ref *RefReplica) error {
	id, ok := r.docID()
	if !ok {
		return nil
	}
	refKey := types.DocRefKey{ProjectID: r.Project.ID, DocID: id}
	info, err := r.S.Be.DB.FindDocInfoByRefKey(ctx, refKey)
	if err != nil {
		return err
	}
	for ref.upTo < info.ServerSeq {
		s := ref.upTo + 1
		cs, err := r.S.Be.DB.FindChangesBetweenServerSeqs(ctx, refKey, s, s)
		if err != nil {
			return err
		}
		if err := ref.doc.ApplyChangePack(change.NewPack(key.Key(r.DocKey), change.InitialCheckpoint.NextServerSeq(s), cs, nil, nil), true); err != nil {
			return fmt.Errorf("reference replay of serverSeq %d: %w", s, err)
		}
		ref.upTo = s
		ref.AtSeq = append(ref.AtSeq, ref.doc.Marshal())
	}
	return nil
}

// CheckServerDocNow builds the server-side document at the current head three
// times (whatever cache state the run has left; then warm; then after the
// caller mutated the returned copy) and compares with the reference replica.
func (r *Run) CheckServerDocNow(ctx context.Context, ref *RefReplica, step int) {
	id, ok := r.docID()
	if !ok {
		return
	}
	if err := r.refAdvance(ctx, ref); err != nil {
		r.problem("reference-replay-error", step, "%v", err)
		return
	}
	if ref.upTo == 0 {
		return
	}
	be := r.S.Be
	info, err := be.DB.FindDocInfoByRefKey(ctx, types.DocRefKey{ProjectID: r.Project.ID, DocID: id})
	if err != nil {
		return
	}
	if r.cacheOnly {
		r.checkCacheVsStore(ctx, info, step)
		return
	}
	want := ref.AtSeq[ref.upTo-1]
	for k, mode := range []string{"as-is", "warm", "after-caller-mutation"} {
		d, err := packs.BuildInternalDocForServerSeq(ctx, be, info, info.ServerSeq)
		if err != nil {
			r.problem("server-rebuild-error", step, "BuildInternalDocForServerSeq(%d) [%s]: %v", info.ServerSeq, mode, err)
			return
		}
		if got := d.Marshal(); got != want {
			r.problem("server-rebuild-differs", step, "BuildInternalDocForServerSeq(%d) [%s]: %s   replay of every change: %s", info.ServerSeq, mode, got, want)
			return
		}
		if k == 1 {
			p, _ := crdt.NewPrimitive("mutated-by-caller", time.MaxTicket)
			d.RootObject().Set("zz-mutated", p)
		}
	}
}

// checkCacheVsStore (C20): the document built from whatever the snapshot cache holds now, again
// from the warm cache, and again after the caller mutated its copy, must be the document built
// from the store alone (cache purged: closest stored snapshot + stored changes).
func (r *Run) checkCacheVsStore(ctx context.Context, info *database.DocInfo, step int) {
	be := r.S.Be
	var got []string
	modes := []string{"as-is", "warm", "after-caller-mutation"}
	for k := range modes {
		d, err := packs.BuildInternalDocForServerSeq(ctx, be, info, info.ServerSeq)
		if err != nil {
			r.problem("server-rebuild-error", step, "BuildInternalDocForServerSeq(%d) [%s]: %v", info.ServerSeq, modes[k], err)
			return
		}
		got = append(got, d.Marshal())
		if k == 1 {
			p, _ := crdt.NewPrimitive("mutated-by-caller", time.MaxTicket)
			d.RootObject().Set("zz-mutated", p)
		}
	}
	be.Cache.Snapshot.Purge()
	d, err := packs.BuildInternalDocForServerSeq(ctx, be, info, info.ServerSeq)
	if err != nil {
		r.problem("server-rebuild-error", step, "cold BuildInternalDocForServerSeq(%d): %v", info.ServerSeq, err)
		return
	}
	want := d.Marshal()
	for k := range modes {
		if got[k] != want {
			r.problem("cache-served-differs", step, "BuildInternalDocForServerSeq(%d) [%s]: %s   from the store alone (cache purged): %s", info.ServerSeq, modes[k], got[k], want)
			return
		}
	}
}

// CheckServerDocsCold rebuilds every historical serverSeq with a cold cache
// (closest stored snapshot + replay) and compares with the reference replica.
func (r *Run) CheckServerDocsCold(ctx context.Context, ref *RefReplica) {
	id, ok := r.docID()
	if !ok {
		return
	}
	if err := r.refAdvance(ctx, ref); err != nil {
		r.problem("reference-replay-error", -1, "%v", err)
		return
	}
	be := r.S.Be
	info, err := be.DB.FindDocInfoByRefKey(ctx, types.DocRefKey{ProjectID: r.Project.ID, DocID: id})
	if err != nil {
		return
	}
	for s := int64(1); s <= info.ServerSeq && s <= ref.upTo; s++ {
		be.Cache.Snapshot.Purge()
		d, err := packs.BuildInternalDocForServerSeq(ctx, be, info, s)
		if err != nil {
			r.problem("server-rebuild-error", -1, "cold BuildInternalDocForServerSeq(%d): %v", s, err)
			break
		}
		if got := d.Marshal(); got != ref.AtSeq[s-1] {
			r.problem("server-rebuild-differs", -1, "cold BuildInternalDocForServerSeq(%d): %s   replay of every change: %s", s, got, ref.AtSeq[s-1])
			break
		}
	}
	be.Cache.Snapshot.Purge()
}

// CheckAgainstRef: every attached client shows what the reference replica shows.
func (r *Run) CheckAgainstRef(ctx context.Context, ref *RefReplica) {
	if err := r.refAdvance(ctx, ref); err != nil {
		r.problem("reference-replay-error", -1, "%v", err)
		return
	}
	if ref.upTo == 0 {
		return
	}
	want := ref.AtSeq[ref.upTo-1]
	for i, rp := range r.R {
		if rp.A != nil && rp.A.Attached && rp.A.Doc.Marshal() != want {
			r.problem("snapshot-fed-differs", -1, "client %d (interval %d, threshold %d): %s   replica that applied every change one by one: %s", i, r.H.Interval, r.H.Threshold, rp.A.Doc.Marshal(), want)
			return
		}
	}
}
