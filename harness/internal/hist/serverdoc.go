package hist

import (
	"context"
	"fmt"

	"github.com/yorkie-team/yorkie/api/types"
	"github.com/yorkie-team/yorkie/pkg/document"
	"github.com/yorkie-team/yorkie/pkg/document/change"
	"github.com/yorkie-team/yorkie/pkg/document/crdt"
	"github.com/yorkie-team/yorkie/pkg/document/time"
	"github.com/yorkie-team/yorkie/pkg/key"
	"github.com/yorkie-team/yorkie/server/backend/database"
	"github.com/yorkie-team/yorkie/server/packs"
)

// RefReplica is the "applied every change one by one" replica of C02: an
// InternalDocument fed from the server's change log in serverSeq order, no
// snapshot, no cache, no garbage collection.
type RefReplica struct {
	doc   *document.InternalDocument
	upTo  int64
	AtSeq []string // AtSeq[s-1] = content after applying serverSeq s
}

func newRef(k string) *RefReplica {
	return &RefReplica{doc: document.NewInternalDocument(key.Key(k))}
}

func (r *Run) refAdvance(ctx context.Context, ref *RefReplica) error {
	id, ok := r.docID()
	if !ok {
		return nil
	}
	refKey := types.DocRefKey{ProjectID: r.Project.ID, DocID: id}
	info, err := r.S.Be.DB.FindDocInfoByRefKey(ctx, refKey)
	if err != nil {
		return err
	}
	for ref.upTo < info.ServerSeq {
		s := ref.upTo + 1
		cs, err := r.S.Be.DB.FindChangesBetweenServerSeqs(ctx, refKey, s, s)
		if err != nil {
			return err
		}
		if err := ref.doc.ApplyChangePack(change.NewPack(key.Key(r.DocKey), change.InitialCheckpoint.NextServerSeq(s), cs, nil, nil), true); err != nil {
			return fmt.Errorf("reference replay of serverSeq %d: %w", s, err)
		}
		ref.upTo = s
		ref.AtSeq = append(ref.AtSeq, ref.doc.Marshal())
	}
	return nil
}

// CheckServerDocNow builds the server-side document at the current head three
// times (whatever cache state the run has left; then warm; then after the
// caller mutated the returned copy) and compares with the reference replica.
func (r *Run) CheckServerDocNow(ctx context.Context, ref *RefReplica, step int) {
	id, ok := r.docID()
	if !ok {
		return
	}
	if err := r.refAdvance(ctx, ref); err != nil {
		r.problem("reference-replay-error", step, "%v", err)
		return
	}
	if ref.upTo == 0 {
		return
	}
	be := r.S.Be
	info, err := be.DB.FindDocInfoByRefKey(ctx, types.DocRefKey{ProjectID: r.Project.ID, DocID: id})
	if err != nil {
		return
	}
	if r.cacheOnly {
		r.checkCacheVsStore(ctx, info, step)
		return
	}
	want := ref.AtSeq[ref.upTo-1]
	for k, mode := range []string{"as-is", "warm", "after-caller-mutation"} {
		d, err := packs.BuildInternalDocForServerSeq(ctx, be, info, info.ServerSeq)
		if err != nil {
			r.problem("server-rebuild-error", step, "BuildInternalDocForServerSeq(%d) [%s]: %v", info.ServerSeq, mode, err)
			return
		}
		if got := d.Marshal(); got != want {
			r.problem("server-rebuild-differs", step, "BuildInternalDocForServerSeq(%d) [%s]: %s   replay of every change: %s", info.ServerSeq, mode, got, want)
			return
		}
		if k == 1 {
			p, _ := crdt.NewPrimitive("mutated-by-caller", time.MaxTicket)
			d.RootObject().Set("zz-mutated", p)
		}
	}
}

// snapRecDB records what one BuildInternalDocForServerSeq asks the storage layer: the answer of
// the closest-snapshot lookup (if it happens) and the range of changes it reads.
type snapRecDB struct {
	database.Database
	lookups []int64
	ranges  [][2]int64
}

func (d *snapRecDB) FindClosestSnapshotInfo(ctx context.Context, k types.DocRefKey, serverSeq int64, include bool) (*database.SnapshotInfo, error) {
	info, err := d.Database.FindClosestSnapshotInfo(ctx, k, serverSeq, include)
	if err == nil && info != nil {
		d.lookups = append(d.lookups, info.ServerSeq)
	}
	return info, err
}

func (d *snapRecDB) FindChangesBetweenServerSeqs(ctx context.Context, k types.DocRefKey, from, to int64) ([]*change.Change, error) {
	d.ranges = append(d.ranges, [2]int64{from, to})
	return d.Database.FindChangesBetweenServerSeqs(ctx, k, from, to)
}

func optNat(ok bool, v int64) string {
	if !ok {
		return "None"
	}
	return fmt.Sprintf("(Some %d)", v)
}

// recordedBuild runs BuildInternalDocForServerSeq with the storage calls recorded and exports
// the observation as a correspondence case for Cache/SnapCache.v's plan.
func (r *Run) recordedBuild(ctx context.Context, info *database.DocInfo, seq int64) (*document.InternalDocument, error) {
	be := r.S.Be
	var before int64
	cached, had := be.Cache.Snapshot.Peek(info.RefKey())
	if had {
		before = cached.Checkpoint().ServerSeq
	}
	rec := &snapRecDB{Database: be.DB}
	be.DB = rec
	d, err := packs.BuildInternalDocForServerSeq(ctx, be, info, seq)
	be.DB = rec.Database
	if err != nil {
		return nil, err
	}
	var after int64
	c2, has2 := be.Cache.Snapshot.Peek(info.RefKey())
	if has2 {
		after = c2.Checkpoint().ServerSeq
	}
	if len(rec.lookups) <= 1 && len(rec.ranges) == 1 && len(r.SnapCases) < 40 {
		var lk int64
		if len(rec.lookups) == 1 {
			lk = rec.lookups[0]
		}
		r.SnapCases = append(r.SnapCases, fmt.Sprintf("KSnapBuild %s %d %s %d %d %d %s",
			optNat(had, before), seq, optNat(len(rec.lookups) == 1, lk), rec.ranges[0][0], rec.ranges[0][1], info.ServerSeq, optNat(has2, after)))
	} else if len(rec.ranges) != 1 || len(rec.lookups) > 1 {
		r.problem("snapshot-build-plan", -1, "BuildInternalDocForServerSeq(%d): %d snapshot lookups, %d change reads (want <=1, 1)", seq, len(rec.lookups), len(rec.ranges))
	}
	return d, nil
}

// checkCacheVsStore (C20): the document built from whatever the snapshot cache holds now, again
// from the warm cache, again after the caller mutated its copy, and at an OLDER sequence while
// the cache holds the head (the guard on the cached entry's sequence), must be the document built
// from the store alone (cache purged: closest stored snapshot + stored changes).
func (r *Run) checkCacheVsStore(ctx context.Context, info *database.DocInfo, step int) {
	be := r.S.Be
	var got []string
	modes := []string{"as-is", "warm", "after-caller-mutation"}
	for k := range modes {
		d, err := r.recordedBuild(ctx, info, info.ServerSeq)
		if err != nil {
			r.problem("server-rebuild-error", step, "BuildInternalDocForServerSeq(%d) [%s]: %v", info.ServerSeq, modes[k], err)
			return
		}
		got = append(got, d.Marshal())
		if k == 1 {
			p, _ := crdt.NewPrimitive("mutated-by-caller", time.MaxTicket)
			d.RootObject().Set("zz-mutated", p)
		}
	}
	// an older sequence with the head in the cache, then the head again from the older entry
	older := int64(0)
	var gotOlder, gotBack string
	if info.ServerSeq >= 2 {
		older = 1 + int64((uint64(step)*2654435761+r.H.Seed*977)%uint64(info.ServerSeq-1))
		d, err := r.recordedBuild(ctx, info, older)
		if err != nil {
			r.problem("server-rebuild-error", step, "BuildInternalDocForServerSeq(%d) with the head cached: %v", older, err)
			return
		}
		gotOlder = d.Marshal()
		d, err = r.recordedBuild(ctx, info, info.ServerSeq)
		if err != nil {
			r.problem("server-rebuild-error", step, "BuildInternalDocForServerSeq(%d) with %d cached: %v", info.ServerSeq, older, err)
			return
		}
		gotBack = d.Marshal()
	}
	be.Cache.Snapshot.Purge()
	d, err := r.recordedBuild(ctx, info, info.ServerSeq)
	if err != nil {
		r.problem("server-rebuild-error", step, "cold BuildInternalDocForServerSeq(%d): %v", info.ServerSeq, err)
		return
	}
	want := d.Marshal()
	for k := range modes {
		if got[k] != want {
			r.problem("cache-served-differs", step, "BuildInternalDocForServerSeq(%d) [%s]: %s   from the store alone (cache purged): %s", info.ServerSeq, modes[k], got[k], want)
			return
		}
	}
	if older > 0 {
		if gotBack != want {
			r.problem("cache-served-differs", step, "BuildInternalDocForServerSeq(%d) [from the entry at %d]: %s   from the store alone (cache purged): %s", info.ServerSeq, older, gotBack, want)
			return
		}
		be.Cache.Snapshot.Purge()
		d, err := r.recordedBuild(ctx, info, older)
		if err != nil {
			r.problem("server-rebuild-error", step, "cold BuildInternalDocForServerSeq(%d): %v", older, err)
			return
		}
		if w := d.Marshal(); gotOlder != w {
			r.problem("cache-served-differs", step, "BuildInternalDocForServerSeq(%d) [older sequence, head cached]: %s   from the store alone (cache purged): %s", older, gotOlder, w)
			return
		}
		be.Cache.Snapshot.Purge()
	}
}

// CheckServerDocsCold rebuilds every historical serverSeq with a cold cache
// (closest stored snapshot + replay) and compares with the reference replica.
func (r *Run) CheckServerDocsCold(ctx context.Context, ref *RefReplica) {
	id, ok := r.docID()
	if !ok {
		return
	}
	if err := r.refAdvance(ctx, ref); err != nil {
		r.problem("reference-replay-error", -1, "%v", err)
		return
	}
	be := r.S.Be
	info, err := be.DB.FindDocInfoByRefKey(ctx, types.DocRefKey{ProjectID: r.Project.ID, DocID: id})
	if err != nil {
		return
	}
	for s := int64(1); s <= info.ServerSeq && s <= ref.upTo; s++ {
		be.Cache.Snapshot.Purge()
		d, err := packs.BuildInternalDocForServerSeq(ctx, be, info, s)
		if err != nil {
			r.problem("server-rebuild-error", -1, "cold BuildInternalDocForServerSeq(%d): %v", s, err)
			break
		}
		if got := d.Marshal(); got != ref.AtSeq[s-1] {
			r.problem("server-rebuild-differs", -1, "cold BuildInternalDocForServerSeq(%d): %s   replay of every change: %s", s, got, ref.AtSeq[s-1])
			break
		}
	}
	be.Cache.Snapshot.Purge()
}

// CheckAgainstRef: every attached client shows what the reference replica shows.
func (r *Run) CheckAgainstRef(ctx context.Context, ref *RefReplica) {
	if err := r.refAdvance(ctx, ref); err != nil {
		r.problem("reference-replay-error", -1, "%v", err)
		return
	}
	if ref.upTo == 0 {
		return
	}
	want := ref.AtSeq[ref.upTo-1]
	for i, rp := range r.R {
		if rp.A != nil && rp.A.Attached && rp.A.Doc.Marshal() != want {
			r.problem("snapshot-fed-differs", -1, "client %d (interval %d, threshold %d): %s   replica that applied every change one by one: %s", i, r.H.Interval, r.H.Threshold, rp.A.Doc.Marshal(), want)
			return
		}
	}
}
