package hist

import (
	"fmt"

	"verifharness/internal/rng"
)

// GenConfig steers the random history generator.
type GenConfig struct {
	Flavor     string // object | array | arraymove | text | counter | mixed
	MinClients int
	MaxClients int
	MinSteps   int
	MaxSteps   int
	Inflight   bool // allow Sb/Se (edits while a sync is in flight)
	SnapJobs   bool // allow Sh (another client pushes while the snapshot job of a push is held at its start)
	PushOnly   bool // allow Sp
	Retry      bool // allow Sr (lost response + retry)
	Detach     bool // allow D / re-A
	Undo       bool // allow Z / Y
	Racing     bool // allow Sc: the identical request sent several times concurrently
	FailUpd    bool // allow failing updaters
	Presence   bool // presence edits
	Interval   int64
	Threshold  int64
	Late       bool // some clients attach late (by an A step)
	Deactivate bool // allow X (deactivate) steps
	LostRetry  bool // allow Sl (response lost) ... Rt (retry later, after others acted)
	OptOut     bool // some clients attach WithDisableGC
	Compact    bool // allow K / Kf (compaction) steps
	// NoMovedSet: no array set-by-index once an element has been moved (finding P13 is judged by the
	// properties it belongs to; elsewhere such a set becomes an insert at the same index)
	NoMovedSet bool
	Park       bool // allow Sq/Sw: the server holds a sync at one of its storage calls while others go on
	Faults     bool // allow Sx: a storage call of the request fails (before or after taking effect), the client retries
}

var keys = []string{"k1", "k2", "k3"}
var strs = []string{"a", "bc", "def", "\U0001F600", "x"}
var strs2 = []string{"e", "fg", "hij", "k"}

func genEdit(r *rng.R, flavor string) Edit {
	f := flavor
	if f == "mixed" {
		f = []string{"object", "arraymove", "text", "counter"}[r.Intn(4)]
	}
	switch f {
	case "object":
		switch r.Pick(10, 6, 2, 2, 1, 1, 1, 1) {
		case 7:
			// a date given in some zone other than the process's, with nanoseconds
			return Edit{K: "odate", Key: keys[r.Intn(len(keys))], V: r.Intn(1000)}
		case 0:
			return Edit{K: "oset", Key: keys[r.Intn(len(keys))], V: r.Intn(100)}
		case 1:
			return Edit{K: "odel", Key: keys[r.Intn(len(keys))]}
		case 2:
			return Edit{K: "onew", Key: keys[r.Intn(len(keys))], V: r.Intn(100)}
		case 3:
			return Edit{K: "osets", Key: keys[r.Intn(len(keys))], S: strs[r.Intn(len(strs))]}
		case 4:
			// members that are containers with content of their own: deleting one and undoing the
			// deletion has to bring the content back on every replica
			return Edit{K: "otext", Key: keys[r.Intn(len(keys))], S: strs[r.Intn(len(strs))]}
		case 5:
			return Edit{K: "oarr", Key: keys[r.Intn(len(keys))], V: r.Intn(100)}
		default:
			return Edit{K: "ocnt", Key: keys[r.Intn(len(keys))], V: r.Intn(100)}
		}
	case "objnest":
		// two hot keys whose values are mostly containers: set, replace, delete (and, with undo in
		// the history, restore) nested objects, texts and arrays under the same key
		k := keys[r.Intn(2)]
		switch r.Pick(3, 3, 2, 1, 1) {
		case 0:
			return Edit{K: "onew", Key: k, V: r.Intn(100)}
		case 1:
			return Edit{K: "odel", Key: k}
		case 2:
			return Edit{K: "oset", Key: k, V: r.Intn(100)}
		case 3:
			return Edit{K: "otext", Key: k, S: strs[r.Intn(len(strs))]}
		default:
			return Edit{K: "oarr", Key: k, V: r.Intn(100)}
		}
	case "array":
		switch r.Pick(3, 4, 3, 1) {
		case 0:
			return Edit{K: "aadd", V: r.Intn(1000)}
		case 1:
			return Edit{K: "ains", I: r.Intn(8), V: r.Intn(1000)}
		case 2:
			return Edit{K: "adel", I: r.Intn(8)}
		default:
			return Edit{K: "aset", I: r.Intn(8), V: r.Intn(1000)}
		}
	case "arraymove":
		switch r.Pick(3, 4, 3, 3, 1, 1, 1) {
		case 0:
			return Edit{K: "aadd", V: r.Intn(1000)}
		case 1:
			return Edit{K: "ains", I: r.Intn(8), V: r.Intn(1000)}
		case 2:
			return Edit{K: "adel", I: r.Intn(8)}
		case 3:
			return Edit{K: "amov", I: r.Intn(8), J: r.Intn(8)}
		case 4:
			return Edit{K: "amovf", I: r.Intn(8)}
		case 5:
			return Edit{K: "amovl", I: r.Intn(8)}
		default:
			return Edit{K: "aset", I: r.Intn(8), V: r.Intn(1000)}
		}
	case "text":
		switch r.Pick(5, 3, 2) {
		case 0:
			return Edit{K: "tedit", I: r.Intn(12), J: 0, S: strs[r.Intn(len(strs))]}
		case 1:
			s := ""
			if r.Chance(1, 3) {
				s = strs[r.Intn(len(strs))]
			}
			return Edit{K: "tedit", I: r.Intn(12), J: r.Range(1, 4), S: s}
		default:
			return Edit{K: "tsty", I: r.Intn(12), J: r.Range(1, 5), Key: []string{"b", "i"}[r.Intn(2)], S: []string{"1", "2"}[r.Intn(2)]}
		}
	case "tree", "treex":
		// "tree": the structure-preserving domain (text inside one element, whole-element
		// insert/delete, styles); "treex" adds merges across a boundary and splits
		w := []int{5, 2, 3, 2, 2, 0, 0, 0, 0}
		if f == "treex" {
			w = []int{5, 2, 3, 2, 2, 2, 1, 2, 2}
		}
		switch r.Pick(w...) {
		case 7:
			return Edit{K: "xinl", I: r.Intn(16), S: strs2[r.Intn(len(strs2))]}
		case 8:
			return Edit{K: "xdin", I: r.Intn(4)}
		case 0:
			return Edit{K: "xtxt", I: r.Intn(16), S: strs2[r.Intn(len(strs2))]}
		case 1:
			return Edit{K: "xelm", I: r.Intn(8), S: strs2[r.Intn(len(strs2))]}
		case 2:
			return Edit{K: "xdel", I: r.Intn(16), J: r.Intn(3), V: r.Intn(3)}
		case 3:
			return Edit{K: "xsty", I: r.Intn(8), J: r.Intn(8), Key: []string{"b", "i"}[r.Intn(2)], S: []string{"1", "2"}[r.Intn(2)]}
		case 4:
			return Edit{K: "xuns", I: r.Intn(8), J: r.Intn(8), Key: []string{"b", "i"}[r.Intn(2)]}
		case 5:
			return Edit{K: "xmrg", I: r.Intn(4)}
		default:
			return Edit{K: "xspl", I: r.Intn(16)}
		}
	case "counter":
		if r.Bool() {
			return Edit{K: "cinc", V: r.Range(-5, 20)}
		}
		return Edit{K: "ninc", V: r.Range(-5, 20)}
	}
	return Edit{K: "oset", Key: "k1", V: 1}
}

func setupFor(flavor string) string {
	switch flavor {
	case "object", "objnest":
		return "o"
	case "array", "arraymove":
		return "a"
	case "text":
		return "t"
	case "counter":
		return "cn"
	case "tree", "treex":
		return "x"
	}
	return "oatcn"
}

// Generate builds a random history. Clients are biased towards staying
// offline for stretches and towards editing the same hot spots.
func Generate(r *rng.R, g GenConfig) *History {
	n := r.Range(g.MinClients, g.MaxClients)
	h := &History{N: n, Interval: g.Interval, Threshold: g.Threshold, Setup: setupFor(g.Flavor), Flavor: g.Flavor, Quiesce: 3}
	steps := r.Range(g.MinSteps, g.MaxSteps)
	lateAt := map[int]int{}
	if g.Late && n > 1 {
		for c := 1; c < n; c++ {
			if r.Chance(1, 2) {
				h.Late = append(h.Late, c)
				lateAt[r.Intn(steps)] = c
			}
		}
	}
	// per-client laziness: some clients sync rarely
	lazy := make([]int, n)
	for i := range lazy {
		lazy[i] = r.Pick(3, 1) // 1 = lazy
	}
	for i := 0; i < steps; i++ {
		if lc, ok := lateAt[i]; ok {
			// upstream's contract for WithDisableGC (docs/design/disable-gc-on-attach.md): the client
			// neither produces nor consumes tombstones; counters are the safe workload, so opt-out
			// attachments are generated for counter histories only
			oo := g.OptOut && r.Chance(1, 2) && g.Flavor == "counter"
			h.Steps = append(h.Steps, Step{Op: "A", C: lc, OptOut: oo})
		}
		c := r.Intn(n)
		wSync := 4
		if lazy[c] == 1 {
			wSync = 1
		}
		w := []int{10, wSync, 0, 0, 0, 0, 0, 0, 0, 0, 0, 0, 0}
		if g.SnapJobs {
			w[12] = 1
		}
		if g.Compact {
			w[11] = 2
		}
		if g.LostRetry {
			w[9] = 2
			w[10] = 2
		}
		if g.Deactivate {
			w[8] = 1
		}
		if g.Inflight {
			w[2] = 2 // Sb
			w[3] = 3 // Se
		}
		if g.PushOnly {
			w[4] = 1
		}
		if g.Retry {
			w[5] = 1
		}
		if g.Detach {
			w[6] = 1
		}
		if g.Undo {
			w[7] = 3
		}
		switch r.Pick(w...) {
		case 0:
			ne := r.Pick(6, 2, 1) + 1
			st := Step{Op: "U", C: c}
			for k := 0; k < ne; k++ {
				st.Edits = append(st.Edits, genEdit(r, g.Flavor))
			}
			if g.Presence && r.Chance(1, 4) {
				st.Edits = append(st.Edits, Edit{K: "pset", Key: "cur", S: fmt.Sprint(r.Intn(9))})
			}
			if g.FailUpd && r.Chance(1, 6) {
				st.Fail = []string{"err", "panic", "size", "sizep", "schema", "schemap", "errp", "panicp"}[r.Intn(8)]
			}
			h.Steps = append(h.Steps, st)
		case 1:
			h.Steps = append(h.Steps, Step{Op: "S", C: c})
		case 2:
			if g.Park && r.Chance(1, 2) {
				h.Steps = append(h.Steps, Step{Op: "Sq", C: c, Park: []string{"UpdateMinVersionVector", "UpdateClientInfoAfterPushPull", "FindChangeInfosBetweenServerSeqs"}[r.Intn(3)]})
			} else {
				h.Steps = append(h.Steps, Step{Op: "Sb", C: c})
			}
		case 3:
			if g.Park && r.Chance(1, 2) {
				h.Steps = append(h.Steps, Step{Op: "Sw", C: c})
			} else {
				h.Steps = append(h.Steps, Step{Op: "Se", C: c})
			}
		case 4:
			h.Steps = append(h.Steps, Step{Op: "Sp", C: c})
		case 5:
			if g.Racing && r.Chance(1, 2) {
				h.Steps = append(h.Steps, Step{Op: "Sc", C: c})
			} else {
				h.Steps = append(h.Steps, Step{Op: "Sr", C: c})
			}
		case 6:
			if r.Bool() {
				h.Steps = append(h.Steps, Step{Op: "D", C: c})
				if g.Presence && r.Bool() {
					// the same client attaches again right away (a fresh document instance): what its
					// earlier session pushed comes back to it
					h.Steps = append(h.Steps, Step{Op: "A", C: c})
				}
			} else {
				h.Steps = append(h.Steps, Step{Op: "A", C: c})
			}
		case 12:
			h.Steps = append(h.Steps, Step{Op: "Sh", C: c, Edits: []Edit{genEdit(r, g.Flavor)}})
		case 11:
			switch r.Pick(2, 2, 2) {
			case 0:
				h.Steps = append(h.Steps, Step{Op: "K", C: c})
			case 1:
				h.Steps = append(h.Steps, Step{Op: "Kf", C: c})
			default:
				// the sync of a Kq step has to push something: only a push starts a snapshot
				h.Steps = append(h.Steps, Step{Op: "Kq", C: c, Edits: []Edit{genEdit(r, g.Flavor)}})
			}
		case 9:
			if g.Faults && r.Chance(1, 2) {
				h.Steps = append(h.Steps, Step{Op: "Sx", C: c, FaultN: r.Range(1, 9), FaultAfter: r.Bool()})
			} else {
				h.Steps = append(h.Steps, Step{Op: "Sl", C: c})
			}
		case 10:
			if r.Chance(1, 2) {
				h.Steps = append(h.Steps, Step{Op: "Rf", C: c})
			} else {
				h.Steps = append(h.Steps, Step{Op: "Rt", C: c})
			}
		case 8:
			h.Steps = append(h.Steps, Step{Op: "X", C: c})
		case 7:
			if r.Chance(2, 3) {
				h.Steps = append(h.Steps, Step{Op: "Z", C: c})
			} else {
				h.Steps = append(h.Steps, Step{Op: "Y", C: c})
			}
			if g.FailUpd && r.Chance(1, 2) {
				// a failing update right after an undo/redo: the copy handed to callbacks is rebuilt
				// from the document as the undo/redo left it
				h.Steps = append(h.Steps, Step{Op: "U", C: c, Fail: "err"})
			}
		}
	}
	if g.NoMovedSet {
		moved := false
		for i := range h.Steps {
			for k := range h.Steps[i].Edits {
				switch e := &h.Steps[i].Edits[k]; e.K {
				case "amov", "amovf", "amovl":
					moved = true
				case "aset":
					if moved {
						e.K = "ains"
					}
				}
			}
		}
	}
	return h
}

// GenEdit draws one edit of the given flavor.
func GenEdit(r *rng.R, flavor string) Edit { return genEdit(r, flavor) }
