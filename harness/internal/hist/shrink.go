package hist

// Shrink reduces a failing history by delta debugging on steps, then on the
// edits inside updates, then on the number of clients.  [fails] re-runs a
// candidate and says whether it still fails in the same way.
func Shrink(h *History, fails func(*History) bool, budget int) *History {
	cur := clone(h)
	tries := 0
	try := func(c *History) bool {
		if tries >= budget {
			return false
		}
		tries++
		return fails(c)
	}
	// 1. remove chunks of steps
	for chunk := len(cur.Steps) / 2; chunk >= 1; chunk /= 2 {
		for i := 0; i+chunk <= len(cur.Steps); {
			c := clone(cur)
			c.Steps = append(append([]Step{}, cur.Steps[:i]...), cur.Steps[i+chunk:]...)
			if try(c) {
				cur = c
			} else {
				i += chunk
			}
		}
	}
	// 2. remove single edits
	for i := 0; i < len(cur.Steps); i++ {
		for j := 0; j < len(cur.Steps[i].Edits) && len(cur.Steps[i].Edits) > 1; {
			c := clone(cur)
			es := c.Steps[i].Edits
			c.Steps[i].Edits = append(append([]Edit{}, es[:j]...), es[j+1:]...)
			if try(c) {
				cur = c
			} else {
				j++
			}
		}
	}
	return cur
}

func clone(h *History) *History {
	c := *h
	c.Steps = make([]Step, len(h.Steps))
	for i, s := range h.Steps {
		c.Steps[i] = s
		c.Steps[i].Edits = append([]Edit{}, s.Edits...)
	}
	return &c
}
