package hist

import (
	"context"
	"errors"
	"fmt"
	"github.com/yorkie-team/yorkie/api/converter"
	"sort"
	"strings"
	"sync"
	gotime "time"
	"unicode/utf16"

	"verifharness/internal/sim"

	"github.com/yorkie-team/yorkie/api/types"
	"github.com/yorkie-team/yorkie/pkg/document"
	"github.com/yorkie-team/yorkie/pkg/document/change"
	"github.com/yorkie-team/yorkie/pkg/document/crdt"
	"github.com/yorkie-team/yorkie/pkg/document/json"
	"github.com/yorkie-team/yorkie/pkg/document/operations"
	"github.com/yorkie-team/yorkie/pkg/document/presence"
	"github.com/yorkie-team/yorkie/pkg/document/time"
	"github.com/yorkie-team/yorkie/pkg/key"
	"github.com/yorkie-team/yorkie/server/documents"
	"github.com/yorkie-team/yorkie/server/packs"
)

// Replica is the harness view of one client.
type Replica struct {
	C        *sim.MClient
	A        *sim.Att
	Inflight *sim.Inflight
	Lost     *sim.Inflight // a request whose response was lost; retried later by "Rt"
	Parked   *parkedSync   // a sync the server is holding at one of its storage calls (Sq ... Sw)
}

// Runner executes histories on one server.
type Runner struct {
	S               *sim.Server
	ServerDoc       bool // C02/C20: compare server-side rebuilds with a replica fed change by change
	ServerDocSparse bool // rebuild only after some of the steps
	CacheOnly       bool // C20: compare cache-served rebuilds with the rebuild from the store alone
	seq             int
	Hook            func(r *Run, stepIdx int, st *Step) // optional: called after each step
}

// Run is the state of one execution.
type Run struct {
	traceMu           sync.Mutex
	Concurrent        bool   // some requests were sent concurrently: the recorded trace is not a serial order
	Faulted           bool   // a storage fault fired inside some request: the protocol model (whole requests) does not replay it
	WindowFault       bool   // ... between "pushed changes stored" and "client checkpoint stored" (finding P8)
	Stale             []bool // client attached under an older epoch (a compaction happened since)
	Compactions       int
	SnapshotOvertaken int // Sh steps in which another client pushed while the snapshot job of a push was held at its start
	SnapshotHeld      int // Kq steps in which a background snapshot was actually held across the compaction
	ref               *RefReplica
	cacheOnly         bool
	Trace             []sim.CallRec
	SnapCases         []string // C20: observed rebuild plans (Corr/SnapCache.v)
	FirstNoPresence   bool
	H                 *History
	R                 []*Replica
	Out               *Outcome
	DocKey            string
	Project           *types.Project
	S                 *sim.Server
}

var errInjected = errors.New("injected updater failure")

type parkedSync struct {
	done    chan *sim.Inflight
	release func()
}

func mod(i, n int) int {
	if n <= 0 {
		return 0
	}
	i %= n
	if i < 0 {
		i += n
	}
	return i
}

// ApplyEdits performs the edits on the proxy objects inside an Update callback.
func ApplyEdits(root *json.Object, p *presence.Presence, edits []Edit) {
	for _, e := range edits {
		switch e.K {
		case "oset":
			if o := root.GetObject("o"); o != nil {
				o.SetInteger(e.Key, e.V)
			}
		case "osets":
			if o := root.GetObject("o"); o != nil {
				o.SetString(e.Key, e.S)
			}
		case "odel":
			if o := root.GetObject("o"); o != nil {
				o.Delete(e.Key)
			}
		case "onew":
			if o := root.GetObject("o"); o != nil {
				o.SetNewObject(e.Key).SetInteger("x", e.V)
			}
		case "odate":
			if o := root.GetObject("o"); o != nil {
				o.SetDate(e.Key, gotime.Date(2024, 1, 1+e.V%28, e.V%24, 4, 5, 123456789, gotime.FixedZone("X", (1+e.V%11)*3600)))
			}
		case "otext":
			if o := root.GetObject("o"); o != nil {
				o.SetNewText(e.Key).Edit(0, 0, e.S)
			}
		case "oarr":
			if o := root.GetObject("o"); o != nil {
				o.SetNewArray(e.Key).AddInteger(e.V, e.V+1)
			}
		case "ocnt":
			if o := root.GetObject("o"); o != nil {
				o.SetNewCounter(e.Key, int64(e.V)).Increase(1)
			}
		case "aadd":
			if a := root.GetArray("a"); a != nil {
				a.AddInteger(e.V)
			}
		case "ains":
			if a := root.GetArray("a"); a != nil {
				if a.Len() == 0 {
					a.AddInteger(e.V)
				} else {
					a.InsertIntegerAfter(mod(e.I, a.Len()), e.V)
				}
			}
		case "adel":
			if a := root.GetArray("a"); a != nil && a.Len() > 0 {
				a.Delete(mod(e.I, a.Len()))
			}
		case "amov":
			if a := root.GetArray("a"); a != nil && a.Len() > 1 {
				i, j := mod(e.I, a.Len()), mod(e.J, a.Len())
				if i != j {
					a.MoveAfterByIndex(i, j)
				}
			}
		case "amovf":
			if a := root.GetArray("a"); a != nil && a.Len() > 0 {
				a.MoveFront(a.Get(mod(e.I, a.Len())).CreatedAt())
			}
		case "amovl":
			if a := root.GetArray("a"); a != nil && a.Len() > 0 {
				a.MoveLast(a.Get(mod(e.I, a.Len())).CreatedAt())
			}
		case "aset":
			if a := root.GetArray("a"); a != nil && a.Len() > 0 {
				a.SetInteger(mod(e.I, a.Len()), e.V)
			}
		case "tedit":
			if t := root.GetText("t"); t != nil {
				n := textLen(t)
				from := mod(e.I, n+1)
				to := from + mod(e.J, n-from+1)
				t.Edit(from, to, e.S)
			}
		case "tsty":
			if t := root.GetText("t"); t != nil {
				n := textLen(t)
				from := mod(e.I, n+1)
				to := from + mod(e.J, n-from+1)
				if to > from {
					t.Style(from, to, map[string]string{e.Key: e.S})
				}
			}
		case "cinc":
			if c := root.GetCounter("c"); c != nil {
				c.Increase(int64(e.V))
			}
		case "ninc":
			if c := root.GetCounter("n"); c != nil {
				c.Increase(e.V)
			}
		case "pset":
			p.Set(e.Key, e.S)
		case "xtxt", "xelm", "xdel", "xmrg", "xsty", "xuns", "xspl", "xinl", "xdin":
			if t := root.GetTree("x"); t != nil {
				applyTreeEdit(t, e)
			}
		}
	}
}

// treeTokens splits the XML of a tree into one token per index unit: every tag
// and every character is one token (the tree of the histories holds ASCII text
// only). Token 0 is the root's opening tag; tree index k is the gap before token k+1.
func treeTokens(xml string) []string {
	var res []string
	for i := 0; i < len(xml); i++ {
		if xml[i] == '<' {
			j := i
			for j < len(xml) && xml[j] != '>' {
				j++
			}
			res = append(res, xml[i:j+1])
			i = j
		} else {
			res = append(res, xml[i:i+1])
		}
	}
	return res
}

func isOpen(tok string) bool  { return len(tok) > 1 && tok[0] == '<' && tok[1] != '/' }
func isClose(tok string) bool { return len(tok) > 1 && tok[0] == '<' && tok[1] == '/' }

// treeDepths returns, for every tree index 0..n, the nesting depth of the gap
// (1 = directly under the root) .
func treeDepths(toks []string) []int {
	n := len(toks) - 2 // indices 0..n
	if n < 0 {
		return nil
	}
	d := make([]int, n+1)
	depth := 1
	d[0] = 1
	for k := 1; k <= n; k++ {
		tok := toks[k]
		if isOpen(tok) {
			depth++
		} else if isClose(tok) {
			depth--
		}
		d[k] = depth
	}
	return d
}

func pickIdx(cands []int, sel int) (int, bool) {
	if len(cands) == 0 {
		return 0, false
	}
	return cands[mod(sel, len(cands))], true
}

// applyTreeEdit performs one tree edit; positions are chosen among the indices
// where the edit is well-formed (text only inside a paragraph, paragraphs only
// under the root, deletions within one parent, a merge across exactly one
// paragraph boundary), so that the call itself is valid upstream usage.
func applyTreeEdit(t *json.Tree, e Edit) {
	toks := treeTokens(t.ToXML())
	depths := treeDepths(toks)
	if depths == nil {
		return
	}
	n := len(depths) - 1
	var under1, under2 []int
	for k := 0; k <= n; k++ {
		switch depths[k] {
		case 1:
			under1 = append(under1, k)
		case 2:
			under2 = append(under2, k)
		}
	}
	switch e.K {
	case "xtxt":
		if k, ok := pickIdx(under2, e.I); ok {
			t.Edit(k, k, &json.TreeNode{Type: "text", Value: e.S}, 0)
		}
	case "xinl":
		// an inline element inside a paragraph
		if k, ok := pickIdx(under2, e.I); ok {
			t.Edit(k, k, &json.TreeNode{Type: "b", Children: []json.TreeNode{{Type: "text", Value: e.S}}}, 0)
		}
	case "xdin":
		// delete a whole inline element: from just before its opening tag to just after its closing tag
		var cands [][2]int
		for k := 0; k < n; k++ {
			if depths[k] == 2 && isOpen(toks[k+1]) {
				// find the matching close
				d := 0
				for j := k + 1; j < len(toks); j++ {
					if isOpen(toks[j]) {
						d++
					} else if isClose(toks[j]) {
						d--
						if d == 0 {
							cands = append(cands, [2]int{k, j})
							break
						}
					}
				}
			}
		}
		if len(cands) > 0 {
			c := cands[mod(e.I, len(cands))]
			t.Edit(c[0], c[1], nil, 0)
		}
	case "xelm":
		if k, ok := pickIdx(under1, e.I); ok {
			t.Edit(k, k, &json.TreeNode{Type: "p", Children: []json.TreeNode{{Type: "text", Value: e.S}}}, 0)
		}
	case "xdel":
		// a range inside one paragraph (characters), or whole paragraphs under the root
		if e.V%3 == 0 {
			// whole paragraphs: from a depth-1 gap to a later depth-1 gap, keeping at least one
			if len(under1) > 2 {
				a := mod(e.I, len(under1)-1)
				if !(a == 0 && len(under1) == 2) {
					t.Edit(under1[a], under1[a+1], nil, 0)
				}
			}
			return
		}
		if k, ok := pickIdx(under2, e.I); ok {
			// extend to the right while staying in the same paragraph (no tag crossed)
			to := k
			for to < n && to-k < 1+mod(e.J, 3) && !isOpen(toks[to+1]) && !isClose(toks[to+1]) {
				to++
			}
			if to > k {
				t.Edit(k, to, nil, 0)
			}
		}
	case "xmrg":
		// delete "</p><p>": from just before a closing tag at depth 2 to just after the next opening tag
		var cands []int
		for k := 0; k+2 <= n; k++ {
			if depths[k] == 2 && isClose(toks[k+1]) && k+2 < len(toks) && isOpen(toks[k+2]) {
				cands = append(cands, k)
			}
		}
		if k, ok := pickIdx(cands, e.I); ok {
			t.Edit(k, k+2, nil, 0)
		}
	case "xspl":
		if k, ok := pickIdx(under2, e.I); ok {
			t.Edit(k, k, nil, 1)
		}
	case "xsty", "xuns":
		// a range that starts just before a paragraph's opening tag
		var cands []int
		for _, k := range under1 {
			if k < n && isOpen(toks[k+1]) {
				cands = append(cands, k)
			}
		}
		if k, ok := pickIdx(cands, e.I); ok {
			to := k + 1
			if e.J%2 == 1 {
				// up to the end of a later paragraph
				if l, ok := pickIdx(under1, e.J); ok && l > k {
					to = l
				}
			}
			if e.K == "xsty" {
				t.Style(k, to, map[string]string{e.Key: e.S})
			} else {
				t.RemoveStyle(k, to, []string{e.Key})
			}
		}
	}
}

func textLen(t *json.Text) int {
	return len(utf16.Encode([]rune(t.String())))
}

func setupEdits(root *json.Object, what string) {
	for _, ch := range what {
		switch ch {
		case 'o':
			root.SetNewObject("o")
		case 'a':
			root.SetNewArray("a")
		case 't':
			root.SetNewText("t")
		case 'c':
			root.SetNewCounter("c", int64(0))
		case 'n':
			root.SetNewCounter("n", 0)
		case 'x':
			root.SetNewTree("x", json.TreeNode{Type: "doc", Children: []json.TreeNode{
				{Type: "p", Children: []json.TreeNode{{Type: "text", Value: "ab"}}},
				{Type: "p", Children: []json.TreeNode{{Type: "text", Value: "cd"}}},
			}})
		}
	}
}

// safeUpdate runs an Update whose callback may fail or panic.
func safeUpdate(d *document.Document, edits []Edit, fail string) (err error, panicked bool) {
	defer func() {
		if r := recover(); r != nil {
			panicked = true
			err = fmt.Errorf("panic: %v", r)
		}
	}()
	switch fail {
	case "size", "sizep":
		// the callback is fine, but the result exceeds the document's size limit
		old := d.MaxSizeLimit
		d.MaxSizeLimit = 1
		defer func() { d.MaxSizeLimit = old }()
	case "schema", "schemap":
		// the callback is fine, but the result breaks the attached schema
		old := d.SchemaRules
		d.SchemaRules = []types.Rule{{Path: "$", Type: "object"}, {Path: "$.verifmust", Type: "string"}}
		defer func() { d.SchemaRules = old }()
	}
	err = d.Update(func(root *json.Object, p *presence.Presence) error {
		ApplyEdits(root, p, edits)
		switch fail {
		case "err":
			return errInjected
		case "panic":
			panic("injected updater panic")
		case "errp":
			// the callback changed presence as well before it failed
			p.Set("verif", "x")
			p.Set("cur", "failed")
			return errInjected
		case "panicp":
			p.Set("verif", "x")
			p.Set("cur", "failed")
			panic("injected updater panic")
		case "sizep", "schemap":
			// the same callback also changes presence
			p.Set("verif", "x")
			root.SetInteger("verifextra", 1)
		case "size", "schema":
			root.SetInteger("verifextra", 1)
		}
		return nil
	})
	return err, false
}

// docFingerprint is everything C08 says a failed Update must leave unchanged.
func docFingerprint(d *document.Document) string {
	p := d.CreateChangePack()
	ids := ""
	for _, c := range p.Changes {
		ids += fmt.Sprintf("%d/%d", c.ClientSeq(), len(c.Operations()))
		if pc := c.PresenceChange(); pc != nil {
			// the presence a pending change carries is part of it
			ids += fmt.Sprintf("/%s%s", pc.ChangeType, presenceString(pc.Presence))
		}
		ids += ";"
	}
	return fmt.Sprintf("root=%s local=[%s] cp=%v vv=%s undo=%d presence=%s", d.Marshal(), ids, d.Checkpoint(), d.VersionVector().Marshal(), d.UndoStackLenForTest(), presenceString(d.MyPresence()))
}

func presenceString(m map[string]string) string {
	keys := make([]string, 0, len(m))
	for k := range m {
		keys = append(keys, k)
	}
	sort.Strings(keys)
	out := "{"
	for _, k := range keys {
		out += k + "=" + m[k] + ","
	}
	return out + "}"
}

func cloneMarshal(d *document.Document) (s string) {
	defer func() {
		if r := recover(); r != nil {
			s = fmt.Sprintf("<panic %v>", r)
		}
	}()
	return d.Root().Marshal()
}

// Start prepares the run: project, clients (activated), nothing attached yet.
func (rn *Runner) Start(ctx context.Context, h *History) (*Run, error) {
	rn.seq++
	p, err := rn.S.NewProject(ctx, h.Interval, h.Threshold)
	if err != nil {
		return nil, err
	}
	r := &Run{H: h, Stale: make([]bool, h.N), Out: &Outcome{}, DocKey: fmt.Sprintf("d%d-%d", gotime.Now().UnixNano()%1000000, rn.seq), Project: p, S: rn.S, cacheOnly: rn.CacheOnly}
	if err := key.Key(r.DocKey).Validate(); err != nil {
		return nil, err
	}
	for i := 0; i < h.N; i++ {
		c := rn.S.NewClient(p.PublicKey, fmt.Sprintf("c%d-%d", i, rn.seq))
		c.Rec = func(cr sim.CallRec) {
			r.traceMu.Lock()
			r.Trace = append(r.Trace, cr)
			r.traceMu.Unlock()
		}
		if err := c.Activate(ctx); err != nil {
			return nil, fmt.Errorf("activate: %w", err)
		}
		r.R = append(r.R, &Replica{C: c})
	}
	return r, nil
}

func (r *Run) problem(kind string, step int, format string, a ...any) {
	r.Out.Problems = append(r.Out.Problems, Problem{Kind: kind, Step: step, Detail: fmt.Sprintf(format, a...)})
}

// Exec executes one step and returns its observation. A panic inside the
// implementation is an observation (problem "impl-panic"), not a harness crash.
func (r *Run) Exec(ctx context.Context, idx int, st *Step) (obs StepObs) {
	defer func() {
		if p := recover(); p != nil {
			r.problem("impl-panic", idx, "%s by client %d: %v", st.Op, st.C, p)
			obs.Err = fmt.Sprintf("panic: %v", p)
			if st.C >= 0 && st.C < len(r.R) {
				r.R[st.C].Inflight = nil
			}
		}
	}()
	if st.C >= 0 && st.C < len(r.R) && r.R[st.C].Parked != nil {
		switch st.Op {
		case "Sw", "U", "Z", "Y": // the client can go on editing while its request is held
		default:
			return StepObs{Skipped: true}
		}
	}
	return r.exec(ctx, idx, st)
}

// compactStep runs a (forced) compaction through the cluster client, as housekeeping does.
func (r *Run) compactStep(ctx context.Context, idx int, force bool) StepObs {
	obs := StepObs{}
	id, ok := r.docID()
	if !ok {
		obs.Skipped = true
		return obs
	}
	be := r.S.Be
	ref := types.DocRefKey{ProjectID: r.Project.ID, DocID: id}
	info, err := be.DB.FindDocInfoByRefKey(ctx, ref)
	if err != nil {
		obs.Skipped = true
		return obs
	}
	anyAttached := false
	for _, rp := range r.R {
		if rp.A != nil && rp.A.Attached {
			anyAttached = true
		}
	}
	before, berr := packs.BuildInternalDocForServerSeq(ctx, be, info, info.ServerSeq)
	rowsBefore, _ := be.DB.FindChangeInfosBetweenServerSeqs(ctx, ref, 1, 1<<40)
	_, cerr := documents.CompactDocument(ctx, be, r.Project, info, force)
	be.WaitBackgroundIdleForVerif()
	after, _ := be.DB.FindDocInfoByRefKey(ctx, ref)
	rowsAfter, _ := be.DB.FindChangesBetweenServerSeqs(ctx, ref, 1, 1<<40)
	compacted := cerr == nil && after != nil && after.Epoch > info.Epoch
	rec := sim.CallRec{Kind: "compact", Force: force}
	if !compacted {
		rec.Err = fmt.Errorf("not compacted: %v", cerr)
		obs.Err = ""
	}
	if compacted && len(rowsAfter) == 1 {
		rec.Row = rowsAfter[0]
	}
	r.Trace = append(r.Trace, rec)
	// oracles of C10
	if !force && anyAttached && compacted {
		r.problem("compacted-while-attached", idx, "non-forced compaction went through although a client is attached")
	}
	if !compacted && after != nil && (after.Epoch != info.Epoch || len(rowsAfter) != len(rowsBefore)) {
		r.problem("refused-compaction-changed-state", idx, "epoch %d -> %d, rows %d -> %d", info.Epoch, after.Epoch, len(rowsBefore), len(rowsAfter))
	}
	if compacted {
		if after.Epoch <= info.Epoch {
			r.problem("epoch-not-increased", idx, "%d -> %d", info.Epoch, after.Epoch)
		}
		if len(rowsAfter) > 1 {
			r.problem("compacted-log-too-long", idx, "%d rows", len(rowsAfter))
		}
		if berr == nil {
			// what a later attacher receives = the compacted log applied to an empty document
			// (computed here from the stored rows only: a server-side rebuild would refresh the
			// snapshot cache and hide a stale entry)
			fresh := document.NewInternalDocument(key.Key(r.DocKey))
			ferr := fresh.ApplyChangePack(change.NewPack(key.Key(r.DocKey), change.InitialCheckpoint.NextServerSeq(after.ServerSeq), rowsAfter, nil, nil), true)
			if ferr != nil {
				r.problem("compacted-doc-unbuildable", idx, "%v", ferr)
			} else if fresh.Marshal() != before.Marshal() {
				r.problem("compaction-changed-content", idx, "before %s after %s", trunc(before.Marshal(), 300), trunc(fresh.Marshal(), 300))
			}
		}
		for i, rp := range r.R {
			if rp.A != nil && rp.A.Attached {
				r.Stale[i] = true
			}
		}
		r.Compactions++
		if r.ref != nil {
			// the log starts over: so does the replica that applies every change
			*r.ref = *newRef(r.DocKey)
		}
	}
	return obs
}

func (r *Run) exec(ctx context.Context, idx int, st *Step) StepObs {
	obs := StepObs{}
	if st.Op == "K" || st.Op == "Kf" {
		return r.compactStep(ctx, idx, st.Op == "Kf")
	}
	if st.C < 0 || st.C >= len(r.R) {
		obs.Skipped = true
		return obs
	}
	rp := r.R[st.C]
	attached := rp.A != nil && rp.A.Attached
	if st.Op == "Sh" {
		// client C pushes; the snapshot job that push starts in the background is held at its
		// first storage read; meanwhile the next client pushes as well; then the job goes on
		other := (st.C + 1) % len(r.R)
		rp2 := r.R[other]
		if !attached || rp.Inflight != nil || rp.Lost != nil || rp.Parked != nil || r.Stale[st.C] {
			obs.Skipped = true
			return obs
		}
		r.S.Be.WaitBackgroundIdleForVerif()
		fdb := r.S.InstallFaultDB()
		reached, release := fdb.ParkAtFrom("FindDocInfoByRefKey", "packs.storeSnapshot")
		if len(st.Edits) > 0 {
			_, _ = safeUpdate(rp.A.Doc, st.Edits, "")
		}
		err := rp.A.Sync(ctx)
		held := false
		if err == nil {
			select {
			case <-reached:
				held = true
			case <-gotime.After(60 * gotime.Millisecond):
			}
		}
		if held && other != st.C && rp2.A != nil && rp2.A.Attached && rp2.Inflight == nil && rp2.Lost == nil && rp2.Parked == nil && !r.Stale[other] {
			r.SnapshotOvertaken++
			if len(st.Edits) > 0 {
				_, _ = safeUpdate(rp2.A.Doc, st.Edits, "")
			}
			if err2 := rp2.A.Sync(ctx); err2 != nil && err == nil {
				err = err2
			}
		}
		release()
		r.S.Be.WaitBackgroundIdleForVerif()
		if err != nil {
			obs.Err = sim.ErrClass(err) + " | " + trunc(err.Error(), 160)
		}
		if rp.A != nil {
			obs.Root = rp.A.Doc.Marshal()
			obs.Clone = cloneMarshal(rp.A.Doc)
		}
		return obs
	}
	if st.Op == "Kq" {
		// a forced compaction while the snapshot that the previous sync started in the background
		// is still being stored: client C syncs, the snapshot (if one is due) is held right before
		// it is written, the compaction runs, then the snapshot is let go
		if !attached || rp.Inflight != nil || rp.Lost != nil || rp.Parked != nil || r.Stale[st.C] {
			obs.Skipped = true
			return obs
		}
		r.S.Be.WaitBackgroundIdleForVerif()
		fdb := r.S.InstallFaultDB()
		reached, release := fdb.ParkAt("CreateSnapshotInfo")
		if len(st.Edits) > 0 {
			_, _ = safeUpdate(rp.A.Doc, st.Edits, "")
		}
		if err := rp.A.Sync(ctx); err != nil {
			release()
			r.S.Be.WaitBackgroundIdleForVerif()
			obs.Err = sim.ErrClass(err) + " | " + trunc(err.Error(), 160)
			return obs
		}
		held := false
		select {
		case <-reached:
			held = true
		case <-gotime.After(60 * gotime.Millisecond):
			release()
		}
		done := make(chan StepObs, 1)
		go func() { done <- r.compactStep(ctx, idx, true) }()
		if held {
			r.SnapshotHeld++
			select {
			case obs = <-done: // cannot happen while the snapshot is held (compactStep waits for the background)
			case <-gotime.After(150 * gotime.Millisecond):
			}
			release()
		}
		select {
		case obs = <-done:
		case <-gotime.After(20 * gotime.Second):
			r.problem("compaction-hangs", idx, "forced compaction with a snapshot in flight did not return")
		}
		return obs
	}
	localBefore := 0
	if rp.A != nil {
		localBefore = len(rp.A.Doc.CreateChangePack().Changes)
	}
	var err error
	switch st.Op {
	case "A":
		if attached || !rp.C.Active || rp.Inflight != nil {
			obs.Skipped = true
			return obs
		}
		if rp.A != nil {
			rp.A.Close()
		}
		if len(r.Trace) == r.H.N {
			r.FirstNoPresence = st.NoPresence
		}
		nop := st.NoPresence || (r.H.NoPresenceDoc && !r.H.LateNoFlag)
		pres := st.Pres
		if pres == nil && !nop {
			pres = map[string]string{"name": fmt.Sprintf("c%d", st.C)}
		}
		a, e := rp.C.Attach(ctx, r.DocKey, sim.AttachOpts{DisableGC: st.OptOut || r.H.AllOptOut, DisablePresence: nop, Presence: pres})
		rp.A = a
		err = e
	case "D":
		if !attached || rp.Inflight != nil || rp.Lost != nil {
			obs.Skipped = true
			return obs
		}
		err = rp.A.Detach(ctx)
		if r.Stale[st.C] && err != nil {
			r.problem("stale-detach-refused", idx, "client %d: %v", st.C, err)
			err = nil
		}
		if err == nil {
			r.Stale[st.C] = false
		}
	case "R":
		if !attached || rp.Inflight != nil || rp.Lost != nil {
			obs.Skipped = true
			return obs
		}
		err = rp.A.Remove(ctx)
	case "X":
		if !rp.C.Active || rp.Inflight != nil || rp.Lost != nil {
			obs.Skipped = true
			return obs
		}
		err = rp.C.Deactivate(ctx)
		if err == nil && rp.A != nil {
			rp.A.Attached = false
		}
	case "S":
		if !attached || rp.Inflight != nil {
			obs.Skipped = true
			return obs
		}
		if rp.Lost != nil { // the pending retry comes first
			second := rp.A.Resend(ctx, rp.Lost.Req, false)
			rp.Lost = nil
			if err = second.Apply(); err != nil {
				break
			}
		}
		if r.Stale[st.C] {
			rows0 := r.logLen(ctx)
			err = rp.A.Sync(ctx)
			if err == nil || !strings.Contains(err.Error(), "epoch") {
				r.problem("stale-sync-not-refused", idx, "client %d of an older epoch synced: %v", st.C, err)
			}
			if rows1 := r.logLen(ctx); rows1 != rows0 {
				r.problem("stale-sync-stored-changes", idx, "client %d: log %d -> %d rows", st.C, rows0, rows1)
			}
			err = nil
			break
		}
		err = rp.A.Sync(ctx)
	case "Sp": // push-only sync
		if !attached || rp.Inflight != nil || rp.Lost != nil {
			obs.Skipped = true
			return obs
		}
		if r.Stale[st.C] {
			// a push-only request of an old-epoch client is answered (nothing is pulled, so
			// nothing can be compared), but whatever it carries must be discarded
			rows0 := r.logLen(ctx)
			f := rp.A.SyncBegin(ctx, true)
			if rows1 := r.logLen(ctx); rows1 != rows0 {
				r.problem("stale-sync-stored-changes", idx, "client %d (push-only): log %d -> %d rows", st.C, rows0, rows1)
			}
			if f.Err == nil {
				// the client believes its changes were accepted; they are lost with the old
				// generation anyway: the harness drops the response
				r.Trace[len(r.Trace)-1].Lost = true
			}
			break
		}
		err = rp.A.SyncBegin(ctx, true).Apply()
	case "Sb":
		if !attached || rp.Inflight != nil || rp.Lost != nil || r.Stale[st.C] {
			obs.Skipped = true
			return obs
		}
		rp.Inflight = rp.A.SyncBegin(ctx, false)
		err = rp.Inflight.Err
		if err != nil {
			rp.Inflight = nil
		}
	case "Se":
		if rp.Inflight == nil {
			obs.Skipped = true
			return obs
		}
		err = rp.Inflight.Apply()
		rp.Inflight = nil
	case "Sl": // the server handles the request, the response is lost; the client does not know
		if !attached || rp.Inflight != nil || rp.Lost != nil || r.Stale[st.C] {
			obs.Skipped = true
			return obs
		}
		f := rp.A.SyncBegin(ctx, false)
		if f.Err != nil {
			err = f.Err
			break
		}
		r.Trace[len(r.Trace)-1].Lost = true
		rp.Lost = f
	case "Sq": // the server parks this sync at one of its storage calls; other clients go on; Sw lets it finish
		if !attached || rp.Inflight != nil || rp.Lost != nil || rp.Parked != nil || r.Stale[st.C] {
			obs.Skipped = true
			return obs
		}
		pb, perr := converter.ToChangePack(rp.A.Doc.CreateChangePack())
		if perr != nil {
			err = perr
			break
		}
		r.S.Be.WaitBackgroundIdleForVerif()
		reached, release := r.S.InstallFaultDB().ParkAt(st.Park)
		done := make(chan *sim.Inflight, 1)
		a := rp.A
		go func() { done <- a.Resend(ctx, pb, false) }()
		r.Concurrent = true
		select {
		case <-reached:
			rp.Parked = &parkedSync{done: done, release: release}
		case f := <-done: // the request never got to that call
			release()
			rp.Inflight = f
			if f.Err != nil {
				err = f.Err
				rp.Inflight = nil
			}
		case <-gotime.After(10 * gotime.Second):
			release()
			err = errors.New("harness: parked sync neither reached its call nor finished")
		}
	case "Sw": // the parked sync is released and its response applied
		if rp.Parked == nil {
			obs.Skipped = true
			return obs
		}
		rp.Parked.release()
		select {
		case f := <-rp.Parked.done:
			rp.Parked = nil
			err = f.Apply()
		case <-gotime.After(10 * gotime.Second):
			rp.Parked = nil
			err = errors.New("harness: released sync did not finish")
		}
	case "Sx": // a storage call fails while the server handles this sync; the client gets an error and retries later (Rt)
		if !attached || rp.Inflight != nil || rp.Lost != nil || r.Stale[st.C] {
			obs.Skipped = true
			return obs
		}
		r.S.Be.WaitBackgroundIdleForVerif()
		fdb := r.S.InstallFaultDB()
		fdb.Arm(st.FaultN, st.FaultAfter)
		f := rp.A.SyncBegin(ctx, false)
		r.S.Be.WaitBackgroundIdleForVerif()
		if ft := fdb.Disarm(); ft != nil {
			obs.Fault = ft.Call + map[bool]string{false: "/before", true: "/after"}[ft.After]
			r.Faulted = true
			if ft.Window {
				obs.Fault += "/window"
				r.WindowFault = true
			}
		}
		if f.Req == nil {
			err = f.Err
			break
		}
		// with or without a fault the client has no response it acts on: it will retry the identical request
		if len(r.Trace) > 0 {
			r.Trace[len(r.Trace)-1].Lost = true
		}
		rp.Lost = f
	case "Rt": // retry of the identical request, response applied
		if rp.Lost == nil || !attached {
			obs.Skipped = true
			return obs
		}
		second := rp.A.Resend(ctx, rp.Lost.Req, false)
		rp.Lost = nil
		err = second.Apply()
	case "Rf": // the lost request is not resent as it was: the client builds a fresh pack (the unacknowledged changes plus whatever was edited since), as client.Sync does after a failed sync
		if rp.Lost == nil || !attached {
			obs.Skipped = true
			return obs
		}
		rp.Lost = nil
		err = rp.A.Sync(ctx)
	case "Sc": // the identical request sent three times at once (client-side timeout retries racing the original)
		if !attached || rp.Inflight != nil || rp.Lost != nil || r.Stale[st.C] {
			obs.Skipped = true
			return obs
		}
		pb, cerr := converter.ToChangePack(rp.A.Doc.CreateChangePack())
		if cerr != nil {
			err = cerr
			break
		}
		r.Concurrent = true
		var wg sync.WaitGroup
		results := make([]*sim.Inflight, 3)
		for k := range results {
			wg.Add(1)
			go func(k int) {
				defer wg.Done()
				results[k] = rp.A.Resend(ctx, pb, false)
			}(k)
		}
		wg.Wait()
		r.S.Be.WaitBackgroundIdleForVerif()
		// the client acts on the response that covers most (the others are treated as lost)
		var best *sim.Inflight
		for _, f := range results {
			if f.Err == nil && (best == nil || f.Resp.Checkpoint.ServerSeq > best.Resp.Checkpoint.ServerSeq) {
				best = f
			}
		}
		// the responses the client does not act on are lost as far as delivery is concerned
		for k := len(r.Trace) - 1; k >= 0 && k >= len(r.Trace)-len(results); k-- {
			if best == nil || r.Trace[k].Resp != best.Resp {
				r.Trace[k].Lost = true
			}
		}
		if best == nil {
			err = results[0].Err
			break
		}
		err = best.Apply()
	case "Sr": // response lost, identical request retried, second response applied
		if !attached || rp.Inflight != nil || rp.Lost != nil || r.Stale[st.C] {
			obs.Skipped = true
			return obs
		}
		first := rp.A.SyncBegin(ctx, false)
		if first.Err != nil {
			err = first.Err
			break
		}
		r.Trace[len(r.Trace)-1].Lost = true
		r.S.Be.WaitBackgroundIdleForVerif()
		second := rp.A.Resend(ctx, first.Req, false)
		err = second.Apply()
	case "U":
		if rp.A == nil || !attached {
			obs.Skipped = true
			return obs
		}
		var panicked bool
		before := docFingerprint(rp.A.Doc)
		err, panicked = safeUpdate(rp.A.Doc, st.Edits, st.Fail)
		if st.Fail != "" {
			if after := docFingerprint(rp.A.Doc); after != before {
				r.problem("failed-update-changed-state", idx, "before=%s after=%s", trunc(before, 400), trunc(after, 400))
			}
			// the failure is expected; what must hold afterwards is checked by the caller
			if err == nil {
				r.problem("failing-update-succeeded", idx, "updater with fail=%s returned nil", st.Fail)
			}
			err = nil
		} else if panicked {
			r.problem("update-panic", idx, "%v", err)
			err = nil
		}
	case "Z":
		if rp.A == nil || !attached {
			obs.Skipped = true
			return obs
		}
		err = rp.A.Doc.Undo()
	case "Y":
		if rp.A == nil || !attached {
			obs.Skipped = true
			return obs
		}
		err = rp.A.Doc.Redo()
	default:
		obs.Skipped = true
		return obs
	}
	r.S.Be.WaitBackgroundIdleForVerif()
	obs.Err = ""
	if err != nil {
		obs.Err = sim.ErrClass(err) + " | " + trunc(err.Error(), 160)
	}
	if rp.A != nil {
		obs.Root = rp.A.Doc.Marshal()
		obs.Clone = cloneMarshal(rp.A.Doc)
		obs.Pushed = len(rp.A.Doc.CreateChangePack().Changes) - localBefore
	}
	return obs
}

func (r *Run) logLen(ctx context.Context) int {
	id, ok := r.docID()
	if !ok {
		return 0
	}
	infos, err := r.S.Be.DB.FindChangeInfosBetweenServerSeqs(ctx, types.DocRefKey{ProjectID: r.Project.ID, DocID: id}, 1, 1<<40)
	if err != nil {
		return -1
	}
	return len(infos)
}

func trunc(s string, n int) string {
	s = strings.ReplaceAll(s, "\n", " ")
	if len(s) > n {
		return s[:n]
	}
	return s
}

// Run executes the whole history, then quiesces and collects the final state.
func (rn *Runner) Run(ctx context.Context, h *History) *Outcome {
	_, o := rn.RunFull(ctx, h)
	return o
}

// RunFull is Run that also returns the run state (trace, project, ...).
func (rn *Runner) RunFull(ctx context.Context, h *History) (*Run, *Outcome) {
	r, err := rn.Start(ctx, h)
	if err != nil {
		return nil, &Outcome{Fatal: "start: " + err.Error()}
	}
	defer r.Close()
	// setup: client 0 attaches and creates the containers, everybody attaches and syncs
	if h.Setup != "" || true {
		late := map[int]bool{}
		for _, c := range h.Late {
			late[c] = true
		}
		for i := range r.R {
			if late[i] && i != 0 {
				continue
			}
			o := r.Exec(ctx, -1, &Step{Op: "A", C: i, NoPresence: h.NoPresenceDoc && (i == 0 || !h.LateNoFlag), Pres: map[string]string{"name": fmt.Sprintf("c%d", i)}})
			if o.Err != "" {
				r.problem("setup-attach-error", -1, "client %d: %s", i, o.Err)
			}
			if i == 0 && h.Setup != "" {
				if err := r.R[0].A.Doc.Update(func(root *json.Object, p *presence.Presence) error {
					setupEdits(root, h.Setup)
					return nil
				}); err != nil {
					return r, &Outcome{Fatal: "setup update: " + err.Error()}
				}
				// as client.Attach does after its InitialRoot update: the setup is not undoable
				_ = r.R[0].A.Doc.ClearHistory()
				if o := r.Exec(ctx, -1, &Step{Op: "S", C: 0}); o.Err != "" {
					r.problem("setup-sync-error", -1, "%s", o.Err)
				}
			}
		}
	}
	if h.Pin {
		pc := rn.S.NewClient(r.Project.PublicKey, fmt.Sprintf("pin-%d", rn.seq))
		if err := pc.Activate(ctx); err != nil {
			return r, &Outcome{Fatal: "pin activate: " + err.Error()}
		}
		pa, err := pc.Attach(ctx, r.DocKey, sim.AttachOpts{})
		if err != nil {
			return r, &Outcome{Fatal: "pin attach: " + err.Error()}
		}
		defer pa.Close()
	}
	var ref *RefReplica
	if rn.ServerDoc {
		ref = newRef(r.DocKey)
		r.ref = ref
	}
	for i := range h.Steps {
		st := &h.Steps[i]
		o := r.Exec(ctx, i, st)
		r.Out.Steps = append(r.Out.Steps, o)
		// a rebuild refreshes the snapshot cache, so rebuilding after every step would hide a stale
		// entry: in sparse mode only about one eligible step in five is followed by a rebuild
		sparseOK := !rn.ServerDocSparse || (uint64(i)*2654435761+h.Seed*40503+uint64(len(h.Steps)))%5 == 0
		if ref != nil && sparseOK && (st.Op == "S" || st.Op == "Sb" || st.Op == "Sp" || st.Op == "Sr" || st.Op == "A" || st.Op == "D" || st.Op == "K" || st.Op == "Kf" || st.Op == "Kq" || st.Op == "Sh") && !o.Skipped {
			r.CheckServerDocNow(ctx, ref, i)
		}
		if rn.Hook != nil {
			rn.Hook(r, i, st)
		}
	}
	r.Finish(ctx)
	if ref != nil && rn.CacheOnly {
		r.CheckServerDocNow(ctx, ref, len(h.Steps))
	} else if ref != nil {
		r.CheckAgainstRef(ctx, ref)
		r.CheckServerDocNow(ctx, ref, len(h.Steps))
		r.CheckServerDocsCold(ctx, ref)
	}
	return r, r.Out
}

// Finish applies pending responses, runs the final sync rounds and collects the final state.
func (r *Run) Finish(ctx context.Context) {
	n := len(r.H.Steps)
	for i, rp := range r.R {
		if rp.Parked != nil {
			if o := r.Exec(ctx, n, &Step{Op: "Sw", C: i}); o.Err != "" {
				r.problem("sync-error", n, "client %d (released sync): %s", i, o.Err)
			}
		}
		if rp.Lost != nil {
			if o := r.Exec(ctx, n, &Step{Op: "Rt", C: i}); o.Err != "" {
				r.problem("sync-error", n, "client %d (retry of a lost request): %s", i, o.Err)
			}
		}
		if rp.Inflight != nil {
			if o := r.Exec(ctx, n, &Step{Op: "Se", C: i}); o.Err != "" {
				r.problem("sync-error", n, "client %d (pending response): %s", i, o.Err)
			}
		}
	}
	for i := range r.R {
		if r.Stale[i] && r.R[i].A != nil && r.R[i].A.Attached && r.R[i].Inflight == nil {
			// a stale client has to let go and attach again with a fresh document
			if o := r.Exec(ctx, n, &Step{Op: "D", C: i}); o.Err != "" {
				r.problem("stale-detach-refused", n, "client %d: %s", i, o.Err)
			}
			if o := r.Exec(ctx, n, &Step{Op: "A", C: i}); o.Err != "" {
				r.problem("sync-error", n, "client %d (re-attach after compaction): %s", i, o.Err)
			}
		}
	}
	rounds := r.H.Quiesce
	if rounds <= 0 {
		rounds = 3
	}
	for k := 0; k < rounds; k++ {
		for i, rp := range r.R {
			if rp.A != nil && rp.A.Attached {
				if o := r.Exec(ctx, n+1+k, &Step{Op: "S", C: i}); o.Err != "" {
					r.problem("sync-error", n+1+k, "client %d (quiescence round %d): %s", i, k, o.Err)
				}
			}
		}
	}
	out := r.Out
	for _, rp := range r.R {
		att := rp.A != nil && rp.A.Attached
		out.Attached = append(out.Attached, att)
		out.Actors = append(out.Actors, rp.C.ID.String())
		if rp.A != nil {
			out.Final = append(out.Final, rp.A.Doc.Marshal())
			out.FinalC = append(out.FinalC, cloneMarshal(rp.A.Doc))
			out.Garbage = append(out.Garbage, rp.A.Doc.GarbageLen())
			ps := map[string]map[string]string{}
			for k, v := range rp.A.Doc.AllPresences() {
				m := map[string]string{}
				for a, b := range v {
					m[a] = b
				}
				ps[k] = m
			}
			out.Pres = append(out.Pres, ps)
		} else {
			out.Final = append(out.Final, "")
			out.FinalC = append(out.FinalC, "")
			out.Garbage = append(out.Garbage, 0)
			out.Pres = append(out.Pres, nil)
		}
	}
	if r.H.ProbeLWW {
		for i, rp := range r.R {
			if rp.A != nil && rp.A.Attached {
				for _, msg := range probeLWW(rp.A.Doc) {
					r.problem("clone-probe-differs", -1, "client %d: %s", i, msg)
				}
			}
		}
	}
	r.collectLog(ctx)
}

// probeLWW sends the document one more remote change per object member that was positioned after
// it was created (a member restored by an undo): a Set of the same key by an unknown actor, made
// concurrently with that positioning and older than it (and newer than the member's creation).
// Such a Set loses against the member; it has to lose on the copy handed to callbacks exactly as
// on the document.  This is an ordinary remote change pack; what it exposes is a copy that lost
// the member's position ticket.
func probeLWW(d *document.Document) []string {
	var out []string
	obj, ok := d.InternalDocument().RootObject().Get("o").(*crdt.Object)
	if !ok || obj == nil {
		return nil
	}
	probeActor, err := time.ActorIDFromHex("0000000000000000000000ee")
	if err != nil {
		return nil
	}
	serverSeq := d.Checkpoint().ServerSeq
	n := 0
	keys := make([]string, 0)
	for k := range obj.Members() {
		keys = append(keys, k)
	}
	sort.Strings(keys)
	for _, k := range keys {
		el := obj.Get(k)
		if el == nil || el.MovedAt() == nil || !el.MovedAt().After(el.CreatedAt()) || el.MovedAt().Lamport() <= el.CreatedAt().Lamport()+1 {
			continue
		}
		n++
		tk := time.NewTicket(el.MovedAt().Lamport()-1, 0, probeActor)
		val, err := crdt.NewPrimitive("probe", tk)
		if err != nil {
			continue
		}
		op := operations.NewSet(obj.CreatedAt(), k, val, tk)
		vv := time.NewVersionVector()
		vv.Set(probeActor, tk.Lamport())
		serverSeq++
		c := change.New(change.NewID(uint32(n), serverSeq, tk.Lamport(), probeActor, vv), "", []operations.Operation{op}, nil)
		pack := change.NewPack(d.Key(), d.Checkpoint().NextServerSeq(serverSeq), []*change.Change{c}, nil, nil)
		pb, err := converter.ToChangePack(pack)
		if err != nil {
			continue
		}
		dec, err := converter.FromChangePack(pb)
		if err != nil {
			continue
		}
		before := d.Marshal()
		if err := d.ApplyChangePack(dec); err != nil {
			out = append(out, fmt.Sprintf("probe Set of %q: %v", k, err))
			continue
		}
		if root, clone := d.Marshal(), cloneMarshal(d); root != clone {
			out = append(out, fmt.Sprintf("after a remote Set of %q older than the member's position (%s, member created %s, positioned %s): document %s, copy handed to callbacks %s (before: %s)",
				k, tk.ToTestString(), el.CreatedAt().ToTestString(), el.MovedAt().ToTestString(), trunc(root, 200), trunc(clone, 200), trunc(before, 200)))
		}
	}
	return out
}

func (r *Run) docID() (types.ID, bool) {
	for _, rp := range r.R {
		if rp.A != nil && rp.A.DocID != "" {
			return types.ID(rp.A.DocID), true
		}
	}
	return "", false
}

func (r *Run) collectLog(ctx context.Context) {
	id, ok := r.docID()
	if !ok {
		return
	}
	ref := types.DocRefKey{ProjectID: r.Project.ID, DocID: id}
	infos, err := r.S.Be.DB.FindChangeInfosBetweenServerSeqs(ctx, ref, 1, 1<<40)
	if err != nil {
		r.Out.Fatal = "read log: " + err.Error()
		return
	}
	for _, ci := range infos {
		row := LogRow{ServerSeq: ci.ServerSeq, Actor: string(ci.ActorID), ClientSeq: ci.ClientSeq, Lamport: ci.Lamport, NOps: len(ci.Operations), VV: map[string]int64{}}
		for k, v := range ci.VersionVector {
			row.VV[k.String()] = v
		}
		if ci.PresenceChange != nil {
			row.Presence = string(ci.PresenceChange.ChangeType)
		}
		r.Out.Log = append(r.Out.Log, row)
	}
}

// Close releases the documents' event drainers.
func (r *Run) Close() {
	for _, rp := range r.R {
		if rp.A != nil {
			rp.A.Close()
		}
	}
}

// SetupEdits, GenEdit and SafeUpdate are the exported forms used by the in-process engines.
func SetupEdits(root *json.Object, what string) { setupEdits(root, what) }

// SafeUpdate runs an Update whose callback may fail or panic.
func SafeUpdate(d *document.Document, edits []Edit, fail string) (error, bool) {
	return safeUpdate(d, edits, fail)
}

// TreeTokens is the exported form of treeTokens.
func TreeTokens(xml string) []string { return treeTokens(xml) }
