package hist

import (
	"fmt"

	"github.com/yorkie-team/yorkie/api/converter"
	"sort"
	"strings"
)

// CheckConvergence: all replicas still attached at the end marshal identically.
func CheckConvergence(o *Outcome) []Problem {
	var ps []Problem
	ref := -1
	for i, att := range o.Attached {
		if !att {
			continue
		}
		if ref < 0 {
			ref = i
			continue
		}
		if o.Final[i] != o.Final[ref] {
			ps = append(ps, Problem{Kind: "diverged", Step: -1, Detail: fmt.Sprintf("client %d: %s  vs client %d: %s", ref, trunc(o.Final[ref], 300), i, trunc(o.Final[i], 300))})
			break
		}
	}
	return ps
}

// CheckCloneRoot: after every step (and at the end) Root() shows what Marshal() shows.
func CheckCloneRoot(o *Outcome) []Problem {
	var ps []Problem
	for i, s := range o.Steps {
		if s.Skipped || s.Root == "" {
			continue
		}
		if s.Root != s.Clone {
			ps = append(ps, Problem{Kind: "clone-differs", Step: i, Detail: fmt.Sprintf("root=%s clone=%s", trunc(s.Root, 300), trunc(s.Clone, 300))})
			return ps
		}
	}
	for i := range o.Final {
		if o.Final[i] != o.FinalC[i] {
			ps = append(ps, Problem{Kind: "clone-differs", Step: -1, Detail: fmt.Sprintf("final client %d root=%s clone=%s", i, trunc(o.Final[i], 300), trunc(o.FinalC[i], 300))})
			return ps
		}
	}
	return ps
}

// CheckLog: C04 (sequential part) and C06 (ids) on the stored change log.
func CheckLog(o *Outcome) []Problem {
	var ps []Problem
	seen := map[string]bool{}
	lastLam := map[string]int64{}
	// per-actor sessions: clientSeq restarts at 1 after a re-attach
	lastCseq := map[string]uint32{}
	for i, r := range o.Log {
		if r.ServerSeq != int64(i+1) {
			ps = append(ps, Problem{Kind: "log-not-dense", Step: -1, Detail: fmt.Sprintf("row %d has serverSeq %d", i, r.ServerSeq)})
			break
		}
		if prev, ok := lastCseq[r.Actor]; ok {
			if r.ClientSeq != prev+1 && r.ClientSeq != 1 {
				ps = append(ps, Problem{Kind: "clientseq-order", Step: -1, Detail: fmt.Sprintf("actor %s: clientSeq %d after %d at serverSeq %d", r.Actor, r.ClientSeq, prev, r.ServerSeq)})
			}
		}
		lastCseq[r.Actor] = r.ClientSeq
		if r.NOps > 0 || r.Lamport != 0 {
			if r.Lamport == 0 {
				continue
			}
			k := fmt.Sprintf("%d/%s", r.Lamport, r.Actor)
			if seen[k] {
				ps = append(ps, Problem{Kind: "duplicate-lamport-actor", Step: -1, Detail: k})
			}
			seen[k] = true
			if own, ok := r.VV[r.Actor]; !ok || own != r.Lamport {
				ps = append(ps, Problem{Kind: "own-entry", Step: -1, Detail: fmt.Sprintf("serverSeq %d actor %s lamport %d vv[actor]=%d vv=%v", r.ServerSeq, r.Actor, r.Lamport, own, r.VV)})
			}
			if l, ok := lastLam[r.Actor]; ok && r.Lamport <= l {
				ps = append(ps, Problem{Kind: "lamport-not-monotone", Step: -1, Detail: fmt.Sprintf("actor %s lamport %d after %d", r.Actor, r.Lamport, l)})
			}
			lastLam[r.Actor] = r.Lamport
			for a, x := range r.VV {
				if x > r.Lamport {
					ps = append(ps, Problem{Kind: "vv-entry-above-lamport", Step: -1, Detail: fmt.Sprintf("serverSeq %d vv[%s]=%d > lamport %d", r.ServerSeq, a, x, r.Lamport)})
				}
			}
		}
	}
	return ps
}

// Signature returns a canonical description of a problem list for distinct counting.
func Signature(ps []Problem) string {
	ks := map[string]bool{}
	for _, p := range ps {
		ks[p.Kind] = true
	}
	var l []string
	for k := range ks {
		l = append(l, k)
	}
	sort.Strings(l)
	return strings.Join(l, ",")
}

// CheckDelivery evaluates C04's delivery clauses on the recorded traffic:
// every successful non-snapshot pull returns exactly the log rows of other
// actors in (request checkpoint, response checkpoint], in order; a push-only
// call returns nothing; response checkpoints never exceed the log head and
// never go back within one attachment.
func CheckDelivery(r *Run) []Problem {
	var ps []Problem
	log := r.Out.Log
	head := int64(len(log))
	lastCp := map[string]int64{}
	sessionStart := map[string]int64{} // log head when the current attachment was established
	for i, t := range r.Trace {
		if t.Req == nil || t.Err != nil || t.Resp == nil {
			continue
		}
		me := t.Client.String()
		reqS := t.Req.Checkpoint.ServerSeq
		respS := t.Resp.Checkpoint.ServerSeq
		if t.Kind == "attach" {
			lastCp[me] = 0
			sessionStart[me] = respS
		}
		if respS > head {
			ps = append(ps, Problem{Kind: "checkpoint-beyond-head", Step: i, Detail: fmt.Sprintf("call %d (%s): response checkpoint %d, log head %d", i, t.Kind, respS, head)})
		}
		if respS < lastCp[me] && t.Kind == "sync" && !t.PushOnly {
			ps = append(ps, Problem{Kind: "checkpoint-went-back", Step: i, Detail: fmt.Sprintf("call %d: %d after %d", i, respS, lastCp[me])})
		}
		if respS > lastCp[me] {
			lastCp[me] = respS
		}
		if len(t.Resp.Snapshot) > 0 {
			continue
		}
		// rows of other actors must be delivered exactly; own rows stored during the
		// current attachment must never come back (echo); own rows of an earlier
		// attachment of the same client are needed by its fresh document and are
		// not judged here.
		var got []int64
		for _, c := range t.Resp.Changes {
			if c.ID().ActorID().String() == me {
				if c.ServerSeq() > sessionStart[me] {
					ps = append(ps, Problem{Kind: "echo", Step: i, Detail: fmt.Sprintf("call %d (%s) by %s returned its own change serverSeq %d clientSeq %d made in the current attachment", i, t.Kind, me, c.ServerSeq(), c.ClientSeq())})
				}
				continue
			}
			got = append(got, c.ServerSeq())
		}
		var want []int64
		if !t.PushOnly {
			for _, row := range log {
				if row.ServerSeq > reqS && row.ServerSeq <= respS && row.Actor != me {
					if r.FirstNoPresence && row.NOps == 0 {
						continue
					}
					want = append(want, row.ServerSeq)
				}
			}
		}
		if fmt.Sprint(got) != fmt.Sprint(want) {
			ps = append(ps, Problem{Kind: "delivery-mismatch", Step: i, Detail: fmt.Sprintf("call %d (%s) by %s: req cp %d resp cp %d delivered %v, log says %v", i, t.Kind, me, reqS, respS, got, want)})
		}
	}
	return ps
}

// CheckCumulativeDelivery is the client-centric form of exactly-once: within
// one attachment, once a client's checkpoint is at serverSeq n every change of
// another actor with serverSeq <= n has been delivered to it exactly once
// (unless a snapshot replaced the stream).
func CheckCumulativeDelivery(r *Run) []Problem {
	var ps []Problem
	type sess struct {
		cp        int64
		delivered map[int64]bool
		snap      bool
	}
	ss := map[string]*sess{}
	for i, t := range r.Trace {
		if t.Req == nil || t.Err != nil || t.Resp == nil || t.Lost {
			continue
		}
		me := t.Client.String()
		if t.Kind == "attach" {
			ss[me] = &sess{delivered: map[int64]bool{}}
		}
		s := ss[me]
		if s == nil {
			continue
		}
		if len(t.Resp.Snapshot) > 0 {
			s.snap = true
		}
		for _, c := range t.Resp.Changes {
			if c.ID().ActorID().String() == me {
				continue
			}
			if s.delivered[c.ServerSeq()] {
				ps = append(ps, Problem{Kind: "duplicate-delivery", Step: i, Detail: fmt.Sprintf("call %d (%s) by %s: serverSeq %d delivered twice", i, t.Kind, me, c.ServerSeq())})
			}
			s.delivered[c.ServerSeq()] = true
		}
		if t.Resp.Checkpoint.ServerSeq > s.cp {
			s.cp = t.Resp.Checkpoint.ServerSeq
		}
		if s.snap || t.Kind == "detach" || t.Kind == "remove" {
			continue
		}
		for _, row := range r.Out.Log {
			if row.ServerSeq <= s.cp && row.Actor != me && !s.delivered[row.ServerSeq] {
				if r.FirstNoPresence && row.NOps == 0 {
					continue
				}
				ps = append(ps, Problem{Kind: "lost-delivery", Step: i, Detail: fmt.Sprintf("after call %d (%s) client %s is at checkpoint %d but never received serverSeq %d of %s", i, t.Kind, me, s.cp, row.ServerSeq, row.Actor)})
				return ps
			}
		}
	}
	return ps
}

// CheckMinVV: the vector a response hands out for GC is, per actor, no greater
// than what every other attached GC-participating client last reported.
func CheckMinVV(r *Run) []Problem {
	var ps []Problem
	rows := map[string]map[string]int64{} // client -> last reported vector
	for i, t := range r.Trace {
		me := t.Client.String()
		switch t.Kind {
		case "deactivate":
			if t.Err == nil {
				delete(rows, me)
			}
			continue
		case "activate":
			continue
		}
		if t.Req == nil || t.Err != nil || t.Resp == nil {
			continue
		}
		if t.Kind == "detach" || t.Kind == "remove" {
			delete(rows, me)
			continue
		}
		if t.DisableGC {
			continue
		}
		p, err := fromPack(t)
		if err != nil {
			continue
		}
		rows[me] = p
		if len(t.Resp.Snapshot) > 0 || t.PushOnly || t.Resp.VersionVector == nil {
			continue
		}
		for a, x := range t.Resp.VersionVector {
			for cl, row := range rows {
				if x > row[a.String()] {
					ps = append(ps, Problem{Kind: "minvv-overstates", Step: i, Detail: fmt.Sprintf("call %d (%s) by %s: response vector has %s=%d but attached client %s last reported %d", i, t.Kind, me, a.String(), x, cl, row[a.String()])})
					return ps
				}
			}
		}
	}
	return ps
}

// CheckMinVVExact (C11: a detached or deactivated client no longer holds back
// garbage collection): the vector of every change-pull response equals the
// minimum over the requester's vector and the vectors last reported by the
// clients that are attached at that moment, by the harness's own bookkeeping.
func CheckMinVVExact(r *Run) []Problem {
	var ps []Problem
	rows := map[string]map[string]int64{}
	for i, t := range r.Trace {
		me := t.Client.String()
		switch t.Kind {
		case "deactivate":
			if t.Err == nil {
				delete(rows, me)
			}
			continue
		case "activate":
			continue
		}
		if t.Req == nil || t.Err != nil || t.Resp == nil {
			continue
		}
		if t.Kind == "detach" || t.Kind == "remove" {
			delete(rows, me)
			continue
		}
		if t.DisableGC {
			continue
		}
		p, err := fromPack(t)
		if err != nil {
			continue
		}
		rows[me] = p
		if len(t.Resp.Snapshot) > 0 || t.PushOnly {
			continue
		}
		// expected minimum
		keys := map[string]bool{}
		for _, row := range rows {
			for k := range row {
				keys[k] = true
			}
		}
		for k := range keys {
			min := int64(1) << 62
			for _, row := range rows {
				v, ok := row[k]
				if !ok {
					min = 0
					break
				}
				if v < min {
					min = v
				}
			}
			got := int64(0)
			for a, x := range t.Resp.VersionVector {
				if a.String() == k {
					got = x
				}
			}
			if got != min {
				ps = append(ps, Problem{Kind: "minvv-not-minimum", Step: i, Detail: fmt.Sprintf("call %d (%s) by %s: response vector has %s=%d, the minimum over the %d attached clients' reports is %d", i, t.Kind, me, k, got, len(rows), min)})
				return ps
			}
		}
	}
	return ps
}

// CheckLamportCausal (C06): every change a client pushes carries a lamport
// greater than that of every change it had applied when it made the change.
// Conservative reading of "had applied": everything up to the checkpoint of the
// response BEFORE the previous one of the same attachment (a change may be made
// while a sync is in flight), snapshots included (a snapshot contains every
// change up to its checkpoint).
func CheckLamportCausal(r *Run) []Problem {
	var ps []Problem
	log := r.Out.Log
	type sess struct{ cps []int64 }
	ss := map[string]*sess{}
	pushedSeen := map[string]bool{}
	for i, t := range r.Trace {
		if t.Req == nil {
			continue
		}
		me := t.Client.String()
		if t.Kind == "attach" {
			ss[me] = &sess{}
		}
		s := ss[me]
		if s == nil {
			continue
		}
		p, err := converter.FromChangePack(t.Req)
		if err == nil && len(s.cps) >= 2 {
			known := s.cps[len(s.cps)-2]
			var maxLam int64
			for _, row := range log {
				if row.ServerSeq <= known && row.Lamport > maxLam {
					maxLam = row.Lamport
				}
			}
			for _, c := range p.Changes {
				k := fmt.Sprintf("%s/%d/%d", me, len(s.cps), c.ClientSeq())
				if c.ID().Lamport() == 0 || pushedSeen[k] {
					continue
				}
				pushedSeen[k] = true
				if c.ID().Lamport() <= maxLam && int64(c.ClientSeq()) > 0 {
					// only changes made after that response: clientSeq beyond what the request before acknowledged
					ps = append(ps, Problem{Kind: "lamport-not-causal", Step: i, Detail: fmt.Sprintf("call %d: client %s pushes a change with lamport %d although it had applied changes up to serverSeq %d with lamport %d", i, me, c.ID().Lamport(), known, maxLam)})
					return ps
				}
			}
		}
		if t.Err == nil && t.Resp != nil && len(t.Resp.Snapshot) > 0 {
			// a snapshot receiver adopts the largest lamport of the vector that comes with the
			// snapshot: that vector must reach the lamport of every change the snapshot contains
			var maxLam, maxVV int64
			for _, row := range log {
				if row.ServerSeq <= t.Resp.Checkpoint.ServerSeq && row.Lamport > maxLam {
					maxLam = row.Lamport
				}
			}
			for _, x := range t.Resp.VersionVector {
				if x > maxVV {
					maxVV = x
				}
			}
			if maxVV < maxLam {
				ps = append(ps, Problem{Kind: "snapshot-vector-lags", Step: i, Detail: fmt.Sprintf("call %d (%s) by %s: snapshot up to serverSeq %d contains a change with lamport %d but the vector sent with it only reaches %d", i, t.Kind, me, t.Resp.Checkpoint.ServerSeq, maxLam, maxVV)})
				return ps
			}
		}
		if t.Err == nil && t.Resp != nil && !t.Lost {
			s.cps = append(s.cps, t.Resp.Checkpoint.ServerSeq)
		}
	}
	return ps
}

// CheckPresence (C12): after quiescence every attached replica shows the same
// presence map, containing exactly the attached clients (presence enabled), or
// an empty one (presenceless document); and a presenceless document has no
// presence anywhere in its log and in no response.
func CheckPresence(r *Run) []Problem {
	var ps []Problem
	o := r.Out
	attachedActors := map[string]bool{}
	for i, att := range o.Attached {
		if att {
			attachedActors[o.Actors[i]] = true
		}
	}
	if r.FirstNoPresence {
		for _, row := range o.Log {
			if row.Presence != "" {
				ps = append(ps, Problem{Kind: "presenceless-stored-presence", Step: -1, Detail: fmt.Sprintf("serverSeq %d of %s carries presence %q", row.ServerSeq, row.Actor, row.Presence)})
				break
			}
			if row.NOps == 0 {
				ps = append(ps, Problem{Kind: "presenceless-stored-presence", Step: -1, Detail: fmt.Sprintf("serverSeq %d of %s is a presence-only row", row.ServerSeq, row.Actor)})
				break
			}
		}
		for i, t := range r.Trace {
			if t.Resp == nil {
				continue
			}
			for _, c := range t.Resp.Changes {
				if c.PresenceChange() != nil {
					ps = append(ps, Problem{Kind: "presenceless-returned-presence", Step: i, Detail: fmt.Sprintf("call %d returned presence in serverSeq %d", i, c.ServerSeq())})
				}
			}
		}
		for i, att := range o.Attached {
			if att && len(o.Pres[i]) != 0 {
				ps = append(ps, Problem{Kind: "presenceless-shows-presence", Step: -1, Detail: fmt.Sprintf("client %d shows %v on a presenceless document", i, o.Pres[i])})
				break
			}
		}
		return ps
	}
	ref := -1
	for i, att := range o.Attached {
		if !att {
			continue
		}
		// exactly the attached actors
		for a := range o.Pres[i] {
			if !attachedActors[a] {
				ps = append(ps, Problem{Kind: "presence-of-detached-actor", Step: -1, Detail: fmt.Sprintf("client %d still sees %s, which is not attached", i, a)})
				return ps
			}
		}
		for a := range attachedActors {
			if _, ok := o.Pres[i][a]; !ok {
				ps = append(ps, Problem{Kind: "presence-missing", Step: -1, Detail: fmt.Sprintf("client %d does not see attached actor %s (sees %v)", i, a, o.Pres[i])})
				return ps
			}
		}
		if ref < 0 {
			ref = i
			continue
		}
		if fmt.Sprint(o.Pres[i]) != fmt.Sprint(o.Pres[ref]) {
			ps = append(ps, Problem{Kind: "presence-differs", Step: -1, Detail: fmt.Sprintf("client %d: %v  client %d: %v", ref, o.Pres[ref], i, o.Pres[i])})
			return ps
		}
	}
	return ps
}
