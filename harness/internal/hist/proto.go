package hist

import (
	"bytes"
	"sort"
	"strings"

	"verifharness/internal/coqfmt"
	"verifharness/internal/sim"

	"github.com/yorkie-team/yorkie/api/converter"
	"github.com/yorkie-team/yorkie/pkg/document/change"
	"github.com/yorkie-team/yorkie/pkg/document/time"
)

// actorRanks maps every actor id appearing in the run to its rank in byte
// order (rank 0 is reserved for the initial/server actor).
func (r *Run) actorRanks() map[string]uint64 {
	set := map[string][]byte{}
	add := func(a time.ActorID) { set[a.String()] = append([]byte{}, a[:]...) }
	for _, t := range r.Trace {
		add(t.Client)
		if t.Req != nil {
			if p, err := converter.FromChangePack(t.Req); err == nil {
				for _, c := range p.Changes {
					add(c.ID().ActorID())
					for k := range c.ID().VersionVector() {
						add(k)
					}
				}
				for k := range p.VersionVector {
					add(k)
				}
			}
		}
		if t.Row != nil {
			add(t.Row.ID().ActorID())
			for k := range t.Row.ID().VersionVector() {
				add(k)
			}
		}
		if t.Resp != nil {
			for _, c := range t.Resp.Changes {
				add(c.ID().ActorID())
			}
			for k := range t.Resp.VersionVector {
				add(k)
			}
		}
	}
	delete(set, time.InitialActorID.String())
	keys := make([]string, 0, len(set))
	for k := range set {
		keys = append(keys, k)
	}
	sort.Slice(keys, func(i, j int) bool { return bytes.Compare(set[keys[i]], set[keys[j]]) < 0 })
	ranks := map[string]uint64{time.InitialActorID.String(): 0}
	for i, k := range keys {
		ranks[k] = uint64(i + 1)
	}
	return ranks
}

func vvCoq(v time.VersionVector, ranks map[string]uint64) string {
	type kv struct {
		k uint64
		v int64
	}
	var l []kv
	for k, x := range v {
		l = append(l, kv{ranks[k.String()], x})
	}
	sort.Slice(l, func(i, j int) bool { return l[i].k < l[j].k })
	items := make([]string, len(l))
	for i, e := range l {
		items[i] = coqfmt.Pair(coqfmt.N(e.k), coqfmt.Z(e.v))
	}
	return coqfmt.List(items)
}

func presCode(c *change.Change) uint64 {
	pc := c.PresenceChange()
	if pc == nil {
		return 0
	}
	if pc.IsClear() {
		return 2
	}
	return 1
}

func chdrCoq(c *change.Change, ranks map[string]uint64) string {
	id := c.ID()
	return coqfmt.App("mkCh", coqfmt.N(ranks[id.ActorID().String()]), coqfmt.Z(int64(id.ClientSeq())), coqfmt.Z(id.Lamport()),
		vvCoq(id.VersionVector(), ranks), coqfmt.Z(int64(len(c.Operations()))), coqfmt.N(presCode(c)))
}

func storedCoq(c *change.Change, ranks map[string]uint64) string {
	return coqfmt.App("mkSt", coqfmt.Z(c.ServerSeq()), chdrCoq(c, ranks))
}

func errToCoq(err error) string {
	s := sim.ErrClass(err) + " " + err.Error()
	switch {
	case strings.Contains(s, "ErrInvalidClientSeq"):
		return "(OErr EInvalidClientSeq)"
	case strings.Contains(s, "ErrInvalidServerSeq"):
		return "(OErr EInvalidServerSeq)"
	case strings.Contains(s, "ErrEpochMismatch"), strings.Contains(s, "epoch mismatch"):
		return "(OErr EEpochMismatch)"
	case strings.Contains(s, "ErrDocumentNotAttached"):
		return "(OErr ENotAttached)"
	}
	return "OOther"
}

// ProtoCase renders the recorded request/response trace and the final change
// log as a protocase term for Corr/Proto.v.  ok=false when the trace contains
// something the protocol model does not cover (then no case is emitted).
func (r *Run) ProtoCase() (string, bool) {
	if r.Concurrent || r.Faulted {
		return "", false
	}
	ranks := r.actorRanks()
	var evs []string
	nopres := false
	first := true
	for _, t := range r.Trace {
		a := coqfmt.N(ranks[t.Client.String()])
		switch t.Kind {
		case "activate":
			evs = append(evs, coqfmt.App("PActivate", a))
			continue
		case "deactivate":
			if t.Err != nil {
				return "", false
			}
			evs = append(evs, coqfmt.App("PDeactivate", a))
			continue
		case "compact":
			row := "None"
			if t.Row != nil {
				row = coqfmt.Some(chdrCoq(t.Row, ranks))
			}
			evs = append(evs, coqfmt.App("PCompact", coqfmt.Bool(t.Force), row, coqfmt.Bool(t.Err == nil)))
			continue
		}
		if t.Req == nil {
			return "", false
		}
		p, err := converter.FromChangePack(t.Req)
		if err != nil {
			return "", false
		}
		var chs []string
		for _, c := range p.Changes {
			chs = append(chs, chdrCoq(c, ranks))
		}
		mode := "MPushPull"
		if t.PushOnly {
			mode = "MPushOnly"
		}
		status := "DAttached"
		switch t.Kind {
		case "detach":
			status = "DDetached"
		case "remove":
			status = "DRemoved"
		}
		q := coqfmt.App("mkReq", a, coqfmt.Z(p.Checkpoint.ServerSeq), coqfmt.Z(int64(p.Checkpoint.ClientSeq)), coqfmt.List(chs),
			vvCoq(p.VersionVector, ranks), coqfmt.Bool(t.Req.IsRemoved), mode, status, coqfmt.Bool(t.DisableGC))
		var o string
		if t.Err != nil {
			o = errToCoq(t.Err)
		} else {
			var rch []string
			for _, c := range t.Resp.Changes {
				rch = append(rch, storedCoq(c, ranks))
			}
			v := "None"
			if t.Resp.VersionVector != nil {
				v = coqfmt.Some(vvCoq(t.Resp.VersionVector, ranks))
			}
			o = coqfmt.App("OResp", coqfmt.Z(t.Resp.Checkpoint.ServerSeq), coqfmt.Z(int64(t.Resp.Checkpoint.ClientSeq)),
				coqfmt.List(rch), coqfmt.Bool(len(t.Resp.Snapshot) > 0), v)
		}
		if t.Kind == "attach" {
			if first && t.Err == nil {
				nopres = r.FirstNoPresence
			}
			first = false
			evs = append(evs, coqfmt.App("PAttach", q, o))
		} else {
			evs = append(evs, coqfmt.App("PCall", q, o))
		}
	}
	var rows []string
	for _, l := range r.Out.Log {
		rk, ok := ranks[l.Actor]
		if !ok {
			return "", false
		}
		type kv struct {
			k uint64
			v int64
		}
		var vl []kv
		for k, x := range l.VV {
			vl = append(vl, kv{ranks[k], x})
		}
		sort.Slice(vl, func(i, j int) bool { return vl[i].k < vl[j].k })
		items := make([]string, len(vl))
		for i, e := range vl {
			items[i] = coqfmt.Pair(coqfmt.N(e.k), coqfmt.Z(e.v))
		}
		pc := uint64(0)
		switch l.Presence {
		case "put":
			pc = 1
		case "clear":
			pc = 2
		}
		rows = append(rows, coqfmt.App("mkSt", coqfmt.Z(l.ServerSeq),
			coqfmt.App("mkCh", coqfmt.N(rk), coqfmt.Z(int64(l.ClientSeq)), coqfmt.Z(l.Lamport), coqfmt.List(items), coqfmt.Z(int64(l.NOps)), coqfmt.N(pc))))
	}
	th := r.Project.SnapshotThreshold
	return coqfmt.App("KProto", coqfmt.Bool(nopres), coqfmt.Z(th), coqfmt.List(evs), coqfmt.List(rows)), true
}

func fromPack(t sim.CallRec) (map[string]int64, error) {
	p, err := converter.FromChangePack(t.Req)
	if err != nil {
		return nil, err
	}
	m := map[string]int64{}
	for k, v := range p.VersionVector {
		m[k.String()] = v
	}
	return m, nil
}
