// Package hist defines multi-client histories (the step language of DESIGN
// Appendix A, as Go structs), executes them against a real in-process server
// with manual clients, and records what was observed.
package hist

// Edit is one call of the public editing API inside an Update callback.
// Indices are taken modulo the current visible size ("clamped"), so that any
// sub-sequence of a history is still a valid history (needed for shrinking).
type Edit struct {
	K   string `json:"k"`             // oset odel onew aadd ains adel amov amovf amovl aset tedit tsty cinc pset pclr
	Key string `json:"key,omitempty"` // object key / style key / presence key
	I   int    `json:"i,omitempty"`   // index / from
	J   int    `json:"j,omitempty"`   // second index / to (length for text)
	V   int    `json:"v,omitempty"`   // integer value / counter delta
	S   string `json:"s,omitempty"`   // string value
}

// Step is one action of one client (or of the environment).
type Step struct {
	Op string `json:"op"` // A attach, D detach, S sync, Sb sync-begin, Se sync-end, U update, Z undo, Y redo, X deactivate, R remove, K compaction, Kf forced compaction, Sr sync whose response is lost then retried
	C  int    `json:"c"`
	// U
	Edits []Edit `json:"edits,omitempty"`
	Fail  string `json:"fail,omitempty"` // "" | "err" | "panic": the callback fails after its edits
	// A
	OptOut     bool              `json:"optout,omitempty"`
	NoPresence bool              `json:"nopresence,omitempty"`
	Pres       map[string]string `json:"pres,omitempty"`
	// Sx: the FaultN-th storage call of the request fails, before or after it took effect
	Park       string `json:"park,omitempty"` // Sq: the storage call at which the server parks this sync until Sw
	FaultN     int    `json:"fn,omitempty"`
	FaultAfter bool   `json:"fa,omitempty"`
}

// History is a complete scenario.
type History struct {
	N             int    `json:"n"`         // number of clients
	Interval      int64  `json:"interval"`  // project snapshot interval (0 = default)
	Threshold     int64  `json:"threshold"` // project snapshot threshold (0 = default)
	Setup         string `json:"setup"`     // which containers client 0 creates first: any of "oatcn"
	Steps         []Step `json:"steps"`
	Seed          uint64 `json:"seed,omitempty"`
	Flavor        string `json:"flavor,omitempty"`
	AllOptOut     bool   `json:"alloptout,omitempty"`     // twin run: every client attaches WithDisableGC
	Quiesce       int    `json:"quiesce"`                 // number of final sync rounds
	NoPresenceDoc bool   `json:"nopresencedoc,omitempty"` // the first attacher creates the document with presence disabled
	LateNoFlag    bool   `json:"latenoflag,omitempty"`    // later attachers do not pass the presenceless flag themselves
	Late          []int  `json:"late,omitempty"`          // clients that are NOT attached during setup (they attach by an A step)
	ProbeLWW      bool   `json:"probe_lww,omitempty"`     // at the end every client gets, per restored object member, a remote Set older than the member's position (see probeLWW)
	Pin           bool   `json:"pin,omitempty"`           // twin run: an extra attached client that never syncs again keeps the minimum version vector at its start, so nothing is ever purged
}

// StepObs is what was observed after a step.
type StepObs struct {
	Err     string `json:"err,omitempty"`     // error class of the step ("" = ok)
	Root    string `json:"root,omitempty"`    // Marshal() of the acting client's root after the step
	Clone   string `json:"clone,omitempty"`   // Root().Marshal() of its clone
	Skipped bool   `json:"skipped,omitempty"` // the step was not applicable (client not attached, ...)
	Pushed  int    `json:"pushed,omitempty"`  // local changes produced by the step
	Fault   string `json:"fault,omitempty"`   // Sx: which storage call failed ("Call/before|after[/window]"), "" = the request had fewer calls
}

// LogRow is a row of the server's change log.
type LogRow struct {
	ServerSeq int64            `json:"sseq"`
	Actor     string           `json:"actor"`
	ClientSeq uint32           `json:"cseq"`
	Lamport   int64            `json:"lam"`
	VV        map[string]int64 `json:"vv"`
	NOps      int              `json:"nops"`
	Presence  string           `json:"pres,omitempty"` // "", "put", "clear"
}

// Outcome of running a history.
type Outcome struct {
	Steps    []StepObs                      `json:"steps"`
	Final    []string                       `json:"final"` // Marshal() per client after quiescence ("" = not attached)
	FinalC   []string                       `json:"final_clone"`
	Garbage  []int                          `json:"garbage"`
	Attached []bool                         `json:"attached"`
	Actors   []string                       `json:"actors"`
	Pres     []map[string]map[string]string `json:"presences"`
	Log      []LogRow                       `json:"log,omitempty"`
	Problems []Problem                      `json:"problems"`
	Fatal    string                         `json:"fatal,omitempty"` // harness-level failure (not a verdict)
}

// Problem is a failure of one of the property oracles on the implementation.
type Problem struct {
	Kind   string `json:"kind"`
	Step   int    `json:"step"`
	Detail string `json:"detail"`
}
