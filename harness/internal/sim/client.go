package sim

import (
	"context"
	"errors"
	"fmt"

	"connectrpc.com/connect"

	"github.com/yorkie-team/yorkie/api/converter"
	"github.com/yorkie-team/yorkie/api/types"
	api "github.com/yorkie-team/yorkie/api/yorkie/v1"
	"github.com/yorkie-team/yorkie/api/yorkie/v1/v1connect"
	"github.com/yorkie-team/yorkie/pkg/document"
	"github.com/yorkie-team/yorkie/pkg/document/change"
	"github.com/yorkie-team/yorkie/pkg/document/json"
	"github.com/yorkie-team/yorkie/pkg/document/presence"
	"github.com/yorkie-team/yorkie/pkg/document/time"
	"github.com/yorkie-team/yorkie/pkg/key"
)

// CallRec is one RPC as seen from the client side (for the protocol model).
type CallRec struct {
	Kind      string // attach | sync | detach | remove | activate | deactivate
	Client    time.ActorID
	Req       *api.ChangePack
	PushOnly  bool
	DisableGC bool
	Resp      *change.Pack
	Err       error
	Lost      bool           // the response was never applied by the client
	Force     bool           // compaction: forced
	Row       *change.Change // compaction: the single rebuilt change now in the log (nil = empty log)
}

// MClient performs, step by step, what client.Client does around a document.
type MClient struct {
	Rec    func(CallRec)
	S      *Server
	rpc    v1connect.YorkieServiceClient
	APIKey string
	Key    string
	ID     time.ActorID
	Active bool
}

// Att is one attachment of a document to a client.
type Att struct {
	C               *MClient
	Doc             *document.Document
	DocID           string
	DisableGC       bool
	DisablePresence bool
	Attached        bool
	stop            chan struct{}
}

// Inflight is a sync request that has been answered by the server but whose
// response has not been applied to the document yet.
type Inflight struct {
	A    *Att
	Req  *api.ChangePack
	Resp *change.Pack
	Err  error
	Kind string
}

func shard[T any](req *connect.Request[T], keys ...string) *connect.Request[T] {
	s := ""
	for i, k := range keys {
		if i > 0 {
			s += "/"
		}
		s += k
	}
	req.Header().Add(types.ShardKey, s)
	return req
}

// NewClient creates (but does not activate) a client.
func (s *Server) NewClient(apiKey, clientKey string) *MClient {
	return &MClient{S: s, rpc: s.RPC(apiKey), APIKey: apiKey, Key: clientKey}
}

// Activate activates the client.
func (c *MClient) Activate(ctx context.Context) error {
	res, err := c.rpc.ActivateClient(ctx, shard(connect.NewRequest(&api.ActivateClientRequest{ClientKey: c.Key}), c.APIKey, c.Key))
	if err != nil {
		return err
	}
	id, err := time.ActorIDFromHex(res.Msg.ClientId)
	if err != nil {
		return err
	}
	c.ID = id
	c.Active = true
	c.rec(CallRec{Kind: "activate", Client: id})
	return nil
}

func (c *MClient) rec(r CallRec) {
	if c.Rec != nil {
		c.Rec(r)
	}
}

// Deactivate deactivates the client (synchronously, as client.Client does by default).
func (c *MClient) Deactivate(ctx context.Context) error {
	_, err := c.rpc.DeactivateClient(ctx, shard(connect.NewRequest(&api.DeactivateClientRequest{
		ClientId: c.ID.String(), Synchronous: true,
	}), c.APIKey, c.Key))
	if err == nil {
		c.Active = false
	}
	c.rec(CallRec{Kind: "deactivate", Client: c.ID, Err: err})
	return err
}

// NewDoc creates a document whose event channel is drained.
func NewDoc(k string) (*document.Document, chan struct{}) {
	d := document.New(key.Key(k))
	stop := make(chan struct{})
	go func() {
		for {
			select {
			case <-d.Events():
			case <-stop:
				return
			}
		}
	}()
	return d, stop
}

// AttachOpts mirrors client.AttachOptions.
type AttachOpts struct {
	DisableGC       bool
	DisablePresence bool
	Presence        map[string]string
	Pre             func(d *document.Document) // local edits made before the attach request is built
	SchemaKey       string                     // schema to attach with ("name@version"); an unknown one makes the attach fail half-way
}

// AttachBegin performs steps 01-02 of client.attachDocument and returns the in-flight response.
func (c *MClient) AttachBegin(ctx context.Context, docKey string, o AttachOpts) (*Att, *Inflight) {
	d, stop := NewDoc(docKey)
	return c.AttachBeginWith(ctx, d, stop, o)
}

// AttachBeginWith attaches the given Document instance (a fresh one, or - which
// the lifecycle forbids - one that has been detached before).
func (c *MClient) AttachBeginWith(ctx context.Context, d *document.Document, stop chan struct{}, o AttachOpts) (*Att, *Inflight) {
	docKey := d.Key().String()
	a := &Att{C: c, Doc: d, DisableGC: o.DisableGC, stop: stop}
	d.SetActor(c.ID)
	if o.Pre != nil {
		o.Pre(d)
	}
	if !o.DisablePresence {
		if err := d.Update(func(r *json.Object, p *presence.Presence) error {
			p.Initialize(o.Presence)
			return nil
		}); err != nil {
			return a, &Inflight{A: a, Err: err, Kind: "attach"}
		}
	}
	pb, err := converter.ToChangePack(d.CreateChangePack())
	if err != nil {
		return a, &Inflight{A: a, Err: err, Kind: "attach"}
	}
	res, err := c.rpc.AttachDocument(ctx, shard(connect.NewRequest(&api.AttachDocumentRequest{
		ClientId: c.ID.String(), ChangePack: pb, DisableGc: o.DisableGC, DisablePresence: o.DisablePresence, SchemaKey: o.SchemaKey,
	}), c.APIKey, docKey))
	if err != nil {
		c.rec(CallRec{Kind: "attach", Client: c.ID, Req: pb, DisableGC: o.DisableGC, Err: err})
		return a, &Inflight{A: a, Req: pb, Err: err, Kind: "attach"}
	}
	pack, err := converter.FromChangePack(res.Msg.ChangePack)
	if err != nil {
		return a, &Inflight{A: a, Req: pb, Err: err, Kind: "attach"}
	}
	c.rec(CallRec{Kind: "attach", Client: c.ID, Req: pb, DisableGC: o.DisableGC, Resp: pack})
	a.DocID = res.Msg.DocumentId
	a.DisablePresence = res.Msg.DisablePresence
	// steps between response and ApplyChangePack
	d.MaxSizeLimit = int(res.Msg.MaxSizePerDocument)
	d.SetDisableGC(o.DisableGC)
	d.SetDisablePresence(res.Msg.DisablePresence)
	if res.Msg.DisablePresence && !o.DisablePresence {
		d.InternalDocument().ResetPresences()
	}
	return a, &Inflight{A: a, Req: pb, Resp: pack, Kind: "attach"}
}

// Apply applies the response of an in-flight request to the document.
func (f *Inflight) Apply() error {
	if f.Err != nil {
		return f.Err
	}
	a := f.A
	if err := a.Doc.ApplyChangePack(f.Resp); err != nil {
		return err
	}
	switch f.Kind {
	case "attach":
		if a.Doc.Status() == document.StatusRemoved {
			return nil
		}
		a.Doc.SetStatus(document.StatusAttached)
		a.Attached = true
		// step 05 (empty initial root) and 06 of attachDocument
		if err := a.Doc.Update(func(r *json.Object, p *presence.Presence) error { return nil }); err != nil {
			return err
		}
		return a.Doc.ClearHistory()
	case "detach":
		if a.Doc.Status() != document.StatusRemoved {
			a.Doc.SetStatus(document.StatusDetached)
		}
		a.Attached = false
	case "remove", "sync":
		if a.Doc.Status() == document.StatusRemoved {
			a.Attached = false
		}
	}
	return nil
}

// Attach = AttachBegin + Apply.
func (c *MClient) Attach(ctx context.Context, docKey string, o AttachOpts) (*Att, error) {
	a, f := c.AttachBegin(ctx, docKey, o)
	return a, f.Apply()
}

// SyncBegin builds the pack, sends PushPullChanges and returns the unapplied response.
func (a *Att) SyncBegin(ctx context.Context, pushOnly bool) *Inflight {
	pb, err := converter.ToChangePack(a.Doc.CreateChangePack())
	if err != nil {
		return &Inflight{A: a, Err: err, Kind: "sync"}
	}
	return a.Resend(ctx, pb, pushOnly)
}

// Resend sends an already built pack again (a retry of the identical request).
func (a *Att) Resend(ctx context.Context, pb *api.ChangePack, pushOnly bool) *Inflight {
	res, err := a.C.rpc.PushPullChanges(ctx, shard(connect.NewRequest(&api.PushPullChangesRequest{
		ClientId: a.C.ID.String(), DocumentId: a.DocID, ChangePack: pb, PushOnly: pushOnly, DisableGc: a.DisableGC,
	}), a.C.APIKey, a.Doc.Key().String()))
	if err != nil {
		a.C.rec(CallRec{Kind: "sync", Client: a.C.ID, Req: pb, PushOnly: pushOnly, DisableGC: a.DisableGC, Err: err})
		return &Inflight{A: a, Req: pb, Err: err, Kind: "sync"}
	}
	pack, err := converter.FromChangePack(res.Msg.ChangePack)
	if err != nil {
		return &Inflight{A: a, Req: pb, Err: err, Kind: "sync"}
	}
	a.C.rec(CallRec{Kind: "sync", Client: a.C.ID, Req: pb, PushOnly: pushOnly, DisableGC: a.DisableGC, Resp: pack})
	return &Inflight{A: a, Req: pb, Resp: pack, Kind: "sync"}
}

// Sync = SyncBegin + Apply.
func (a *Att) Sync(ctx context.Context) error { return a.SyncBegin(ctx, false).Apply() }

// DetachBegin performs the presence clear and the DetachDocument RPC.
func (a *Att) DetachBegin(ctx context.Context) *Inflight {
	if err := a.Doc.Update(func(r *json.Object, p *presence.Presence) error {
		p.Clear()
		return nil
	}); err != nil {
		return &Inflight{A: a, Err: err, Kind: "detach"}
	}
	pb, err := converter.ToChangePack(a.Doc.CreateChangePack())
	if err != nil {
		return &Inflight{A: a, Err: err, Kind: "detach"}
	}
	res, err := a.C.rpc.DetachDocument(ctx, shard(connect.NewRequest(&api.DetachDocumentRequest{
		ClientId: a.C.ID.String(), DocumentId: a.DocID, ChangePack: pb,
	}), a.C.APIKey, a.Doc.Key().String()))
	if err != nil {
		a.C.rec(CallRec{Kind: "detach", Client: a.C.ID, Req: pb, Err: err})
		return &Inflight{A: a, Req: pb, Err: err, Kind: "detach"}
	}
	pack, err := converter.FromChangePack(res.Msg.ChangePack)
	if err != nil {
		return &Inflight{A: a, Req: pb, Err: err, Kind: "detach"}
	}
	a.C.rec(CallRec{Kind: "detach", Client: a.C.ID, Req: pb, Resp: pack})
	return &Inflight{A: a, Req: pb, Resp: pack, Kind: "detach"}
}

// Detach = DetachBegin + Apply.
func (a *Att) Detach(ctx context.Context) error { return a.DetachBegin(ctx).Apply() }

// Remove performs client.Remove.
func (a *Att) Remove(ctx context.Context) error {
	pb, err := converter.ToChangePack(a.Doc.CreateChangePack())
	if err != nil {
		return err
	}
	pb.IsRemoved = true
	res, err := a.C.rpc.RemoveDocument(ctx, shard(connect.NewRequest(&api.RemoveDocumentRequest{
		ClientId: a.C.ID.String(), DocumentId: a.DocID, ChangePack: pb,
	}), a.C.APIKey, a.Doc.Key().String()))
	if err != nil {
		a.C.rec(CallRec{Kind: "remove", Client: a.C.ID, Req: pb, Err: err})
		return err
	}
	pack, err := converter.FromChangePack(res.Msg.ChangePack)
	if err != nil {
		return err
	}
	a.C.rec(CallRec{Kind: "remove", Client: a.C.ID, Req: pb, Resp: pack})
	f := &Inflight{A: a, Req: pb, Resp: pack, Kind: "remove"}
	return f.Apply()
}

// Close stops the event drainer of the attachment's document.
func (a *Att) Close() {
	select {
	case <-a.stop:
	default:
		close(a.stop)
	}
}

// ErrClass maps an error to a small enum (connect code + yorkie error code if any).
func ErrClass(err error) string {
	if err == nil {
		return "ok"
	}
	var ce *connect.Error
	if errors.As(err, &ce) {
		code := ce.Code().String()
		for _, d := range ce.Details() {
			if v, e := d.Value(); e == nil {
				if m, ok := v.(interface{ GetMetadata() map[string]string }); ok {
					if c, ok := m.GetMetadata()["code"]; ok {
						return code + ":" + c
					}
				}
			}
		}
		return code
	}
	return "local:" + fmt.Sprintf("%.60s", err.Error())
}

// NewRawAtt builds an attachment handle without attaching (for calls made in
// states where the client is not attached).
func NewRawAtt(c *MClient, d *document.Document, docID string, stop chan struct{}) *Att {
	return &Att{C: c, Doc: d, DocID: docID, stop: stop}
}

// DetachBeginNoClear is DetachBegin without the presence clear (documents
// attached with presence disabled).
func (a *Att) DetachBeginNoClear(ctx context.Context) *Inflight {
	pb, err := converter.ToChangePack(a.Doc.CreateChangePack())
	if err != nil {
		return &Inflight{A: a, Err: err, Kind: "detach"}
	}
	res, err := a.C.rpc.DetachDocument(ctx, shard(connect.NewRequest(&api.DetachDocumentRequest{
		ClientId: a.C.ID.String(), DocumentId: a.DocID, ChangePack: pb,
	}), a.C.APIKey, a.Doc.Key().String()))
	if err != nil {
		a.C.rec(CallRec{Kind: "detach", Client: a.C.ID, Req: pb, Err: err})
		return &Inflight{A: a, Req: pb, Err: err, Kind: "detach"}
	}
	pack, err := converter.FromChangePack(res.Msg.ChangePack)
	if err != nil {
		return &Inflight{A: a, Req: pb, Err: err, Kind: "detach"}
	}
	a.C.rec(CallRec{Kind: "detach", Client: a.C.ID, Req: pb, Resp: pack})
	return &Inflight{A: a, Req: pb, Resp: pack, Kind: "detach"}
}

// Stop returns the channel that stops the document's event drainer.
func (a *Att) Stop() chan struct{} { return a.stop }
