package sim

import (
	"fmt"
	"reflect"
	"sort"
	"strings"
	gotime "time"
)

var timeType = reflect.TypeOf(gotime.Time{})

// DeepDump renders any value structurally (pointers followed, maps sorted, no
// addresses), for byte-level before/after comparison of stored rows.
func DeepDump(x any) string {
	var b strings.Builder
	deepDump(&b, reflect.ValueOf(x), 0)
	return b.String()
}

func deepDump(b *strings.Builder, v reflect.Value, depth int) {
	if depth > 40 {
		b.WriteString("<deep>")
		return
	}
	if !v.IsValid() {
		b.WriteString("nil")
		return
	}
	if v.Type() == timeType {
		// wall clock reading and monotonic-free seconds
		fmt.Fprintf(b, "time(%d,%d)", v.Field(0).Uint()&((1<<30)-1), v.Field(1).Int())
		return
	}
	switch v.Kind() {
	case reflect.Ptr, reflect.Interface:
		if v.IsNil() {
			b.WriteString("nil")
			return
		}
		deepDump(b, v.Elem(), depth+1)
	case reflect.Struct:
		b.WriteString("{")
		for i := 0; i < v.NumField(); i++ {
			if i > 0 {
				b.WriteString(",")
			}
			b.WriteString(v.Type().Field(i).Name + ":")
			deepDump(b, v.Field(i), depth+1)
		}
		b.WriteString("}")
	case reflect.Map:
		var items []string
		it := v.MapRange()
		for it.Next() {
			var kb, vb strings.Builder
			deepDump(&kb, it.Key(), depth+1)
			deepDump(&vb, it.Value(), depth+1)
			items = append(items, kb.String()+"=>"+vb.String())
		}
		sort.Strings(items)
		b.WriteString("map[" + strings.Join(items, ",") + "]")
	case reflect.Slice, reflect.Array:
		if v.Kind() == reflect.Slice && v.Type().Elem().Kind() == reflect.Uint8 {
			fmt.Fprintf(b, "%x", v.Bytes())
			return
		}
		b.WriteString("[")
		for i := 0; i < v.Len(); i++ {
			if i > 0 {
				b.WriteString(",")
			}
			deepDump(b, v.Index(i), depth+1)
		}
		b.WriteString("]")
	case reflect.String:
		fmt.Fprintf(b, "%q", v.String())
	case reflect.Bool:
		fmt.Fprintf(b, "%v", v.Bool())
	case reflect.Int, reflect.Int8, reflect.Int16, reflect.Int32, reflect.Int64:
		fmt.Fprintf(b, "%d", v.Int())
	case reflect.Uint, reflect.Uint8, reflect.Uint16, reflect.Uint32, reflect.Uint64, reflect.Uintptr:
		fmt.Fprintf(b, "%d", v.Uint())
	case reflect.Float32, reflect.Float64:
		fmt.Fprintf(b, "%v", v.Float())
	default:
		fmt.Fprintf(b, "<%s>", v.Kind())
	}
}
