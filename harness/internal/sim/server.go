// Package sim runs a real Yorkie server in-process (in-memory database, real
// RPC stack on a loopback port) and provides a "manual client" that performs
// exactly the steps of client.Client (attach / sync / detach / remove /
// deactivate) but lets the harness stop between building a request, sending it
// and applying its response.
package sim

import (
	"context"
	"fmt"
	"net"
	"net/http"
	"os"
	"path/filepath"
	"sync/atomic"

	"connectrpc.com/connect"

	"github.com/yorkie-team/yorkie/api/types"
	"github.com/yorkie-team/yorkie/api/yorkie/v1/v1connect"
	"github.com/yorkie-team/yorkie/client"
	"github.com/yorkie-team/yorkie/server"
	"github.com/yorkie-team/yorkie/server/backend"
	"github.com/yorkie-team/yorkie/server/logging"
)

// Server is a running in-process Yorkie.
type Server struct {
	Y    *server.Yorkie
	Addr string
	Be   *backend.Backend
	nprj atomic.Int64
}

func freePort() (int, error) {
	l, err := net.Listen("tcp", "127.0.0.1:0")
	if err != nil {
		return 0, err
	}
	defer l.Close()
	return l.Addr().(*net.TCPAddr).Port, nil
}

// Options of the in-process server.
type Options struct {
	SnapshotCacheSize int // 0 keeps the default
	SnapshotDisableGC bool
	ClusterSecret     string
	UseDefaultProject *bool
}

// Start starts a server with the memory database.
func Start(workdir string, o Options) (*Server, error) {
	_ = logging.SetLogLevel("error")
	p1, err := freePort()
	if err != nil {
		return nil, err
	}
	p2, err := freePort()
	if err != nil {
		return nil, err
	}
	yaml := fmt.Sprintf(`RPC:
  Port: %d
Profiling:
  Port: %d
Housekeeping:
  Interval: "1h"
Backend:
  RPCAddr: "localhost:%d"
  GatewayAddr: "localhost:%d"
  SnapshotDisableGC: %v
  ClusterSecret: %q
`, p1, p2, p1, p1, o.SnapshotDisableGC, o.ClusterSecret)
	if o.SnapshotCacheSize > 0 {
		yaml += fmt.Sprintf("  SnapshotCacheSize: %d\n", o.SnapshotCacheSize)
	}
	if o.UseDefaultProject != nil {
		yaml += fmt.Sprintf("  UseDefaultProject: %v\n", *o.UseDefaultProject)
	}
	path := filepath.Join(workdir, fmt.Sprintf("yorkie-%d.yml", p1))
	if err := os.WriteFile(path, []byte(yaml), 0o644); err != nil {
		return nil, err
	}
	conf, err := server.NewConfigFromFile(path)
	if err != nil {
		return nil, err
	}
	conf.Mongo = nil
	y, err := server.New(conf)
	if err != nil {
		return nil, err
	}
	if err := y.Start(); err != nil {
		return nil, err
	}
	return &Server{Y: y, Addr: fmt.Sprintf("localhost:%d", p1), Be: y.Backend()}, nil
}

// Stop shuts the server down.
func (s *Server) Stop() { _ = s.Y.Shutdown(true) }

// NewProject creates a project with the given snapshot settings (0,0 keeps defaults).
func (s *Server) NewProject(ctx context.Context, interval, threshold int64) (*types.Project, error) {
	n := s.nprj.Add(1)
	p, err := s.Y.CreateProject(ctx, fmt.Sprintf("p%d", n))
	if err != nil {
		return nil, err
	}
	if interval > 0 || threshold > 0 {
		info, err := s.Be.DB.UpdateProjectInfo(ctx, p.ID, &types.UpdatableProjectFields{
			SnapshotInterval:  &interval,
			SnapshotThreshold: &threshold,
		})
		if err != nil {
			return nil, err
		}
		p = info.ToProject()
	}
	return p, nil
}

// RPC returns a connect client of the Yorkie service speaking with the given API key.
func (s *Server) RPC(apiKey string) v1connect.YorkieServiceClient {
	return v1connect.NewYorkieServiceClient(http.DefaultClient, "http://"+s.Addr,
		connect.WithInterceptors(client.NewAuthInterceptor(apiKey, "")))
}
