package sim

// FaultDB decorates the server's database with a one-shot fault: the n-th
// storage call made after arming returns an injected error, either before the
// call is forwarded (nothing took effect) or after it was forwarded (it took
// effect, the caller sees an error anyway).  Only the storage calls of the
// PushPull path are intercepted; everything else is forwarded untouched.

import (
	"context"
	"errors"
	"runtime"
	"strings"
	"sync"

	"github.com/yorkie-team/yorkie/api/types"
	"github.com/yorkie-team/yorkie/pkg/document"
	"github.com/yorkie-team/yorkie/pkg/document/change"
	"github.com/yorkie-team/yorkie/pkg/document/time"
	"github.com/yorkie-team/yorkie/server/backend/database"
)

// ErrInjected is what a faulted storage call returns.
var ErrInjected = errors.New("injected storage fault")

// Fault describes the fault that fired.
type Fault struct {
	Call   string // name of the storage call
	After  bool   // the call took effect before the error was returned
	Window bool   // between "CreateChangeInfos took effect" and "UpdateClientInfoAfterPushPull took effect"
}

type FaultDB struct {
	database.Database
	mu      sync.Mutex
	armed   bool
	nth     int
	after   bool
	count   int
	created bool // CreateChangeInfos took effect since arming
	fired   *Fault

	parkName string        // the next call of this name blocks ...
	parkFrom string        // ... if this function is on its call stack ("" = whoever calls) ...
	parkGo   chan struct{} // ... until this is closed
	parkAt   chan struct{} // closed when the call has been reached
}

// ParkAt makes the next intercepted call named name block until release is called; reached is
// closed when a handler has arrived there.
func (f *FaultDB) ParkAt(name string) (reached <-chan struct{}, release func()) {
	return f.ParkAtFrom(name, "")
}

// ParkAtFrom is ParkAt for the next call of that name made (directly or not) by the function whose
// qualified name contains from, e.g. "packs.storeSnapshot": the calls other code makes pass.
func (f *FaultDB) ParkAtFrom(name, from string) (reached <-chan struct{}, release func()) {
	f.mu.Lock()
	defer f.mu.Unlock()
	f.parkFrom = from
	f.parkName, f.parkGo, f.parkAt = name, make(chan struct{}), make(chan struct{})
	goCh := f.parkGo
	var once sync.Once
	return f.parkAt, func() {
		once.Do(func() {
			f.mu.Lock()
			if f.parkGo == goCh {
				f.parkName = ""
			}
			f.mu.Unlock()
			close(goCh)
		})
	}
}

func (f *FaultDB) maybePark(name string) {
	f.mu.Lock()
	if f.parkName != name {
		f.mu.Unlock()
		return
	}
	if f.parkFrom != "" && !calledFrom(f.parkFrom) {
		f.mu.Unlock()
		return
	}
	f.parkName = ""
	at, goCh := f.parkAt, f.parkGo
	f.mu.Unlock()
	close(at)
	<-goCh
}

// InstallFaultDB wraps the backend's database (idempotent).
func (s *Server) InstallFaultDB() *FaultDB {
	if f, ok := s.Be.DB.(*FaultDB); ok {
		return f
	}
	f := &FaultDB{Database: s.Be.DB}
	s.Be.DB = f
	return f
}

// Arm makes the nth intercepted call from now on fail (nth >= 1).
func (f *FaultDB) Arm(nth int, after bool) {
	f.mu.Lock()
	defer f.mu.Unlock()
	f.armed, f.nth, f.after, f.count, f.created, f.fired = true, nth, after, 0, false, nil
}

// Disarm switches the fault off and reports whether (and where) it fired.
func (f *FaultDB) Disarm() *Fault {
	f.mu.Lock()
	defer f.mu.Unlock()
	f.armed = false
	return f.fired
}

// hit decides what the current call does: fail before, fail after, or run normally.
func (f *FaultDB) hit(name string) (before, after bool) {
	f.mu.Lock()
	defer f.mu.Unlock()
	if !f.armed || f.fired != nil {
		return false, false
	}
	f.count++
	if f.count != f.nth {
		return false, false
	}
	window := (name == "CreateChangeInfos" && f.after) || (f.created && !(name == "UpdateClientInfoAfterPushPull" && f.after))
	f.fired = &Fault{Call: name, After: f.after, Window: window}
	return !f.after, f.after
}

func (f *FaultDB) tookEffect(name string) {
	if name == "CreateChangeInfos" {
		f.mu.Lock()
		f.created = true
		f.mu.Unlock()
	}
}

func (f *FaultDB) FindClientInfoByRefKey(ctx context.Context, refKey types.ClientRefKey, skipCache ...bool) (*database.ClientInfo, error) {
	b, a := f.hit("FindClientInfoByRefKey")
	if b {
		return nil, ErrInjected
	}
	r, err := f.Database.FindClientInfoByRefKey(ctx, refKey, skipCache...)
	if a && err == nil {
		return nil, ErrInjected
	}
	return r, err
}

func (f *FaultDB) FindDocInfoByRefKey(ctx context.Context, refKey types.DocRefKey) (*database.DocInfo, error) {
	f.maybePark("FindDocInfoByRefKey")
	b, a := f.hit("FindDocInfoByRefKey")
	if b {
		return nil, ErrInjected
	}
	r, err := f.Database.FindDocInfoByRefKey(ctx, refKey)
	if a && err == nil {
		return nil, ErrInjected
	}
	return r, err
}

func (f *FaultDB) CreateChangeInfos(ctx context.Context, docRefKey types.DocRefKey, cpBeforePush change.Checkpoint, changes []*database.ChangeInfo, isRemoved bool) (*database.DocInfo, change.Checkpoint, error) {
	b, a := f.hit("CreateChangeInfos")
	if b {
		return nil, change.InitialCheckpoint, ErrInjected
	}
	d, cp, err := f.Database.CreateChangeInfos(ctx, docRefKey, cpBeforePush, changes, isRemoved)
	if err == nil {
		f.tookEffect("CreateChangeInfos")
	}
	if a && err == nil {
		return nil, change.InitialCheckpoint, ErrInjected
	}
	return d, cp, err
}

func (f *FaultDB) UpdateMinVersionVector(ctx context.Context, clientInfo *database.ClientInfo, docRefKey types.DocRefKey, vector time.VersionVector) (time.VersionVector, error) {
	f.maybePark("UpdateMinVersionVector")
	b, a := f.hit("UpdateMinVersionVector")
	if b {
		return nil, ErrInjected
	}
	r, err := f.Database.UpdateMinVersionVector(ctx, clientInfo, docRefKey, vector)
	if a && err == nil {
		return nil, ErrInjected
	}
	return r, err
}

func (f *FaultDB) GetMinVersionVector(ctx context.Context, docRefKey types.DocRefKey, vector time.VersionVector) (time.VersionVector, error) {
	b, a := f.hit("GetMinVersionVector")
	if b {
		return nil, ErrInjected
	}
	r, err := f.Database.GetMinVersionVector(ctx, docRefKey, vector)
	if a && err == nil {
		return nil, ErrInjected
	}
	return r, err
}

func (f *FaultDB) UpdateClientInfoAfterPushPull(ctx context.Context, clientInfo *database.ClientInfo, docInfo *database.DocInfo) error {
	f.maybePark("UpdateClientInfoAfterPushPull")
	b, a := f.hit("UpdateClientInfoAfterPushPull")
	if b {
		return ErrInjected
	}
	err := f.Database.UpdateClientInfoAfterPushPull(ctx, clientInfo, docInfo)
	if a && err == nil {
		return ErrInjected
	}
	return err
}

func (f *FaultDB) FindChangeInfosBetweenServerSeqs(ctx context.Context, docRefKey types.DocRefKey, from int64, to int64) ([]*database.ChangeInfo, error) {
	f.maybePark("FindChangeInfosBetweenServerSeqs")
	b, a := f.hit("FindChangeInfosBetweenServerSeqs")
	if b {
		return nil, ErrInjected
	}
	r, err := f.Database.FindChangeInfosBetweenServerSeqs(ctx, docRefKey, from, to)
	if a && err == nil {
		return nil, ErrInjected
	}
	return r, err
}

func (f *FaultDB) FindChangesBetweenServerSeqs(ctx context.Context, docRefKey types.DocRefKey, from int64, to int64) ([]*change.Change, error) {
	b, a := f.hit("FindChangesBetweenServerSeqs")
	if b {
		return nil, ErrInjected
	}
	r, err := f.Database.FindChangesBetweenServerSeqs(ctx, docRefKey, from, to)
	if a && err == nil {
		return nil, ErrInjected
	}
	return r, err
}

func (f *FaultDB) FindClosestSnapshotInfo(ctx context.Context, docRefKey types.DocRefKey, serverSeq int64, includeSnapshot bool) (*database.SnapshotInfo, error) {
	b, a := f.hit("FindClosestSnapshotInfo")
	if b {
		return nil, ErrInjected
	}
	r, err := f.Database.FindClosestSnapshotInfo(ctx, docRefKey, serverSeq, includeSnapshot)
	if a && err == nil {
		return nil, ErrInjected
	}
	return r, err
}

func (f *FaultDB) CreateSnapshotInfo(ctx context.Context, docRefKey types.DocRefKey, doc *document.InternalDocument) error {
	f.maybePark("CreateSnapshotInfo")
	b, a := f.hit("CreateSnapshotInfo")
	if b {
		return ErrInjected
	}
	err := f.Database.CreateSnapshotInfo(ctx, docRefKey, doc)
	if a && err == nil {
		return ErrInjected
	}
	return err
}

// calledFrom reports whether a function whose qualified name contains name is on the call stack.
func calledFrom(name string) bool {
	pcs := make([]uintptr, 48)
	n := runtime.Callers(3, pcs)
	frames := runtime.CallersFrames(pcs[:n])
	for {
		fr, more := frames.Next()
		if strings.Contains(fr.Function, name) {
			return true
		}
		if !more {
			return false
		}
	}
}
