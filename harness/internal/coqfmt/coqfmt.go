// Package coqfmt prints Go values as Coq (Gallina) terms for cases.v files.
package coqfmt

import (
	"fmt"
	"strings"
)

func Z(x int64) string {
	if x < 0 {
		return fmt.Sprintf("(%d)%%Z", x)
	}
	return fmt.Sprintf("%d%%Z", x)
}

func N(x uint64) string { return fmt.Sprintf("%d%%N", x) }

func Nat(x int) string { return fmt.Sprintf("%d%%nat", x) }

func Bool(b bool) string {
	if b {
		return "true"
	}
	return "false"
}

func List(items []string) string {
	if len(items) == 0 {
		return "[]"
	}
	return "[" + strings.Join(items, "; ") + "]"
}

func Pair(a, b string) string { return "(" + a + ", " + b + ")" }

func Some(a string) string { return "(Some " + a + ")" }

func App(f string, args ...string) string {
	return "(" + f + " " + strings.Join(args, " ") + ")"
}

// File renders a cases file: imports, a list definition split into chunks
// (so the parser never sees one enormous term), and the mismatch evaluation.
func File(imports []string, caseType, checker string, cases []string) string {
	var b strings.Builder
	for _, im := range imports {
		b.WriteString(im + "\n")
	}
	b.WriteString("Open Scope Z_scope.\n")
	const chunk = 50
	nchunks := 0
	for i := 0; i < len(cases); i += chunk {
		j := i + chunk
		if j > len(cases) {
			j = len(cases)
		}
		fmt.Fprintf(&b, "Definition cases_%d : list %s := [\n  %s\n].\n", nchunks, caseType, strings.Join(cases[i:j], ";\n  "))
		nchunks++
	}
	parts := make([]string, nchunks)
	for i := range parts {
		parts[i] = fmt.Sprintf("cases_%d", i)
	}
	fmt.Fprintf(&b, "Definition cases : list %s := %s.\n", caseType, strings.Join(append(parts, "[]"), " ++ "))
	fmt.Fprintf(&b, "Definition M := Eval vm_compute in (%s cases).\nPrint M.\n", checker)
	return b.String()
}
