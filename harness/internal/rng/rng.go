// Package rng is the single PRNG of the harness: one splitmix64 state derived
// from VERIF_SEED; every random choice of every engine comes from it, so a
// disagreement replays exactly.
package rng

type R struct{ s uint64 }

func New(seed uint64) *R { return &R{s: seed*0x9E3779B97F4A7C15 + 0x1234567} }

func (r *R) U64() uint64 {
	r.s += 0x9E3779B97F4A7C15
	z := r.s
	z = (z ^ (z >> 30)) * 0xBF58476D1CE4E5B9
	z = (z ^ (z >> 27)) * 0x94D049BB133111EB
	return z ^ (z >> 31)
}

// Intn returns a value in [0,n).
func (r *R) Intn(n int) int {
	if n <= 0 {
		return 0
	}
	return int(r.U64() % uint64(n))
}

// Range returns a value in [lo,hi].
func (r *R) Range(lo, hi int) int { return lo + r.Intn(hi-lo+1) }

func (r *R) Bool() bool { return r.U64()&1 == 1 }

// Chance returns true with probability num/den.
func (r *R) Chance(num, den int) bool { return r.Intn(den) < num }

// Fork derives an independent stream (for per-case replay).
func (r *R) Fork() *R { return New(r.U64()) }

// Pick chooses an index according to integer weights.
func (r *R) Pick(weights ...int) int {
	t := 0
	for _, w := range weights {
		t += w
	}
	x := r.Intn(t)
	for i, w := range weights {
		if x < w {
			return i
		}
		x -= w
	}
	return len(weights) - 1
}
