package main

import (
	"encoding/json"
	"os"
	"path/filepath"
	"sort"
)

// Violation is a failure of the property's own oracle on the implementation.
type Violation struct {
	Kind   string         `json:"kind"`             // short class, used for known-finding matching
	Detail string         `json:"detail"`           // human-readable
	Replay any            `json:"replay,omitempty"` // the input/history that fails
	Sig    map[string]any `json:"sig,omitempty"`    // decidable facts about the (shrunk) failing input, for known-finding attribution
}

// Result is what every engine writes to <out>/result.json.
type Result struct {
	Engine      string         `json:"engine"`
	Seed        uint64         `json:"seed"`
	Evaluations int            `json:"evaluations"`
	Nontrivial  int            `json:"distinct_nontrivial"`
	Rule        string         `json:"rule"`
	Samples     []any          `json:"samples"`
	Dist        map[string]int `json:"distribution"`
	CaseFiles   []string       `json:"case_files"`
	CaseIndex   []any          `json:"case_index,omitempty"` // per-case replay info, same order as cases
	CaseShard   int            `json:"case_shard,omitempty"` // cases per file (file k holds cases k*shard ...)
	Violations  []Violation    `json:"violations"`
	Notes       []string       `json:"notes,omitempty"`
}

func newResult(engine string, seed uint64) *Result {
	return &Result{Engine: engine, Seed: seed, Dist: map[string]int{}, Violations: []Violation{}, Samples: []any{}}
}

func (r *Result) count(k string) { r.Dist[k]++ }

func (r *Result) write(dir string) error {
	b, err := json.MarshalIndent(r, "", " ")
	if err != nil {
		return err
	}
	return os.WriteFile(filepath.Join(dir, "result.json"), b, 0o644)
}

// distinct counts distinct strings.
type distinct map[string]struct{}

func (d distinct) add(s string) { d[s] = struct{}{} }

func sortedKeys(m map[string]int) []string {
	ks := make([]string, 0, len(m))
	for k := range m {
		ks = append(ks, k)
	}
	sort.Strings(ks)
	return ks
}
