package main

// Engine codec (property C09).
//
// Round-trip stream.  Two author documents edit concurrently (all flavors incl.
// trees, styles, moves, undo/redo — which emit restore spans, re-used identities
// and split tickets) and exchange their changes "through a server".  Every pack
// is delivered to four passive replicas:
//   D  the change objects themselves,
//   W  ToChangePack -> proto.Marshal -> proto.Unmarshal -> FromChangePack,
//   S  database.NewFromChange -> ChangeInfo (DeepCopy) -> ToChange   (storage encoding),
//   R  like D, but at random points R is replaced by
//      BytesToSnapshot(Decompress(Compress(SnapshotToBytes(R)))) and carries on.
// All four must marshal identically, hold the same amount of garbage after the
// same GC, and encode (deterministically) to the same snapshot bytes.  Version
// vectors go through Bytes/FromBytes and To/FromVersionVector.
//
// Hostile stream.  Valid packs and snapshots are mutated structurally (a field
// cleared, an integer set to an extreme, a byte string truncated/extended, a
// oneof body swapped, list elements dropped or duplicated) or replaced by
// random/truncated bytes; every pack the decoder accepts is *executed* on a
// replica positioned just before that pack, the way the server's document
// rebuild does.  A panic or a hang is a violation.  Byte-level decoders with
// attacker-chosen lengths run in a child process with a memory limit.
//
// Cases for the Coq side: version-vector byte strings with the decoder's verdict
// (Corr/Codec.v vvcheck), and operations reduced to (kind, which tickets are
// present) with the decoder's verdict (opcheck).

import (
	"bufio"
	"bytes"
	"encoding/hex"
	"fmt"
	"math"
	"os"
	"os/exec"
	"path/filepath"
	"runtime/debug"
	"sort"
	"strings"
	gotime "time"

	"google.golang.org/protobuf/encoding/prototext"
	"google.golang.org/protobuf/proto"
	"google.golang.org/protobuf/reflect/protoreflect"

	"verifharness/internal/coqfmt"
	"verifharness/internal/hist"
	"verifharness/internal/rng"

	"github.com/yorkie-team/yorkie/api/converter"
	"github.com/yorkie-team/yorkie/api/types"
	api "github.com/yorkie-team/yorkie/api/yorkie/v1"
	"github.com/yorkie-team/yorkie/pkg/document"
	"github.com/yorkie-team/yorkie/pkg/document/change"
	"github.com/yorkie-team/yorkie/pkg/document/crdt"
	"github.com/yorkie-team/yorkie/pkg/document/json"
	"github.com/yorkie-team/yorkie/pkg/document/presence"
	"github.com/yorkie-team/yorkie/pkg/document/time"
	"github.com/yorkie-team/yorkie/pkg/key"
	"github.com/yorkie-team/yorkie/server/backend/database"
)

func init() {
	register("codec", runCodec)
	register("codecchild", runCodecChild)
}

func detSnapshot(d *document.InternalDocument) (string, error) {
	b, err := converter.SnapshotToBytes(d.RootObject(), d.AllPresences())
	if err != nil {
		return "", err
	}
	var s api.Snapshot
	if err := proto.Unmarshal(b, &s); err != nil {
		return "", err
	}
	canonSnapshot(s.ProtoReflect())
	out, err := proto.MarshalOptions{Deterministic: true}.Marshal(&s)
	return string(out), err
}

// canonSnapshot sorts the member lists of objects: ElementRHT.Nodes() iterates a
// Go map, so the encoder emits RHTNode lists in random order (the decoder does
// not depend on it).
func canonSnapshot(m protoreflect.Message) {
	// moved_at == created_at means the same as no moved_at (PositionedAt falls back to
	// createdAt); which of the two a member carries depends on whether it won or lost
	// on arrival, and replaying Set in another order legitimately flips it
	if cf, mf := m.Descriptor().Fields().ByName("created_at"), m.Descriptor().Fields().ByName("moved_at"); cf != nil && mf != nil &&
		m.Has(cf) && m.Has(mf) && proto.Equal(m.Get(cf).Message().Interface(), m.Get(mf).Message().Interface()) {
		m.Clear(mf)
	}
	m.Range(func(fd protoreflect.FieldDescriptor, v protoreflect.Value) bool {
		switch {
		case fd.IsMap():
			if fd.MapValue().Kind() == protoreflect.MessageKind {
				v.Map().Range(func(k protoreflect.MapKey, mv protoreflect.Value) bool {
					canonSnapshot(mv.Message())
					return true
				})
			}
		case fd.IsList() && fd.Kind() == protoreflect.MessageKind:
			l := v.List()
			for i := 0; i < l.Len(); i++ {
				canonSnapshot(l.Get(i).Message())
			}
			if string(fd.Message().Name()) == "RHTNode" {
				type item struct {
					k string
					m protoreflect.Message
				}
				items := make([]item, l.Len())
				for i := 0; i < l.Len(); i++ {
					b, _ := proto.MarshalOptions{Deterministic: true}.Marshal(l.Get(i).Message().Interface())
					items[i] = item{string(b), l.Get(i).Message()}
				}
				sort.Slice(items, func(i, j int) bool { return items[i].k < items[j].k })
				for i := range items {
					l.Set(i, protoreflect.ValueOfMessage(items[i].m))
				}
			}
		case fd.Kind() == protoreflect.MessageKind:
			canonSnapshot(v.Message())
		}
		return true
	})
}

func throughWire(p *change.Pack) (*change.Pack, *api.ChangePack, error) {
	pb, err := converter.ToChangePack(p)
	if err != nil {
		return nil, nil, err
	}
	b, err := proto.Marshal(pb)
	if err != nil {
		return nil, nil, err
	}
	var back api.ChangePack
	if err := proto.Unmarshal(b, &back); err != nil {
		return nil, nil, err
	}
	q, err := converter.FromChangePack(&back)
	return q, &back, err
}

func throughStorage(p *change.Pack) (*change.Pack, error) {
	var cs []*change.Change
	for _, c := range p.Changes {
		info, err := database.NewFromChange(types.DocRefKey{ProjectID: "000000000000000000000001", DocID: "000000000000000000000002"}, c)
		if err != nil {
			return nil, err
		}
		info.ServerSeq = c.ServerSeq()
		c2, err := info.DeepCopy().ToChange()
		if err != nil {
			return nil, err
		}
		cs = append(cs, c2)
	}
	return change.NewPack(p.DocumentKey, p.Checkpoint, cs, p.VersionVector, nil), nil
}

func reloadFromSnapshot(d *document.InternalDocument) (*document.InternalDocument, error) {
	b, err := converter.SnapshotToBytes(d.RootObject(), d.AllPresences())
	if err != nil {
		return nil, err
	}
	c, err := database.CompressSnapshot(b)
	if err != nil {
		return nil, err
	}
	b2, err := database.DecompressSnapshot(c)
	if err != nil {
		return nil, err
	}
	if !bytes.Equal(b, b2) {
		return nil, fmt.Errorf("compress/decompress changed the snapshot bytes")
	}
	return document.NewInternalDocumentFromSnapshot(d.Key(), d.Checkpoint().ServerSeq, d.Lamport(), d.VersionVector(), b2)
}

type codecProg struct {
	Seed    uint64   `json:"seed"`
	Program int      `json:"program"`
	Flavor  string   `json:"flavor"`
	Steps   []string `json:"steps"`
}

// safely runs f under recover and a timeout.
func safely(f func() error) (err error, panicked bool, hung bool) {
	done := make(chan struct{})
	go func() {
		defer func() {
			if r := recover(); r != nil {
				panicked = true
				st := string(debug.Stack())
				if os.Getenv("VH_DEBUG") == "stack" {
					fmt.Fprintln(os.Stderr, st)
				}
				err = fmt.Errorf("panic: %v at %s", r, panicSite(st))
			}
			close(done)
		}()
		err = f()
	}()
	select {
	case <-done:
		return err, panicked, false
	case <-gotime.After(10 * gotime.Second):
		return fmt.Errorf("timeout"), false, true
	}
}

// panicSite returns the first yorkie frame below the panic in a stack trace.
func panicSite(stack string) string {
	lines := strings.Split(stack, "\n")
	seenPanic := false
	for i, l := range lines {
		if strings.HasPrefix(l, "panic(") {
			seenPanic = true
			continue
		}
		if seenPanic && strings.Contains(l, "github.com/yorkie-team/yorkie/") && i+1 < len(lines) {
			fn := l
			if k := strings.LastIndex(fn, "/"); k >= 0 {
				fn = fn[k+1:]
			}
			if k := strings.Index(fn, "("); k > 0 && !strings.HasPrefix(fn, "(") {
				fn = fn[:k]
			}
			loc := strings.TrimSpace(lines[i+1])
			if k := strings.LastIndex(loc, "/"); k >= 0 {
				loc = loc[k+1:]
			}
			if k := strings.Index(loc, " "); k > 0 {
				loc = loc[:k]
			}
			return fn + " " + loc
		}
	}
	return "?"
}

func runCodec(cfg *config) error {
	r := rng.New(cfg.seed)
	res := newResult("codec", cfg.seed)
	res.Rule = "one evaluation = one pack/snapshot/vector pushed through an encoding and compared, or one mutated input decoded and executed; non-trivial = distinct (flavor, step list) programs and distinct mutated inputs"
	seen := distinct{}
	xopts := parseX(cfg.extra)
	if f := xopts["flavor"]; f != "" {
		defer func() {}()
	}
	noUndo := strings.Contains(cfg.extra, "noundo")
	noAset := strings.Contains(cfg.extra, "noaset")
	flavors := []string{"object", "arraymove", "text", "counter", "tree", "treex", "mixed", "array"}
	var validPacks []packAt
	var vvCases, opCases []string
	perKind := map[string]int{}
	viol := func(kind, detail string, replay any, sig map[string]any) {
		res.count("fail." + kind)
		if k := strings.Index(detail, " at "); strings.Contains(kind, "panics") && k > 0 {
			res.count("panic-site." + detail[k+4:])
		}
		pk := fmt.Sprintf("%s|%v|%v|%v|%v", kind, sig["flavor"], sig["uses_aset"], sig["undo_used"], sig["stage"])
		if perKind[pk] < 2 && len(res.Violations) < 40 {
			perKind[pk]++
			res.Violations = append(res.Violations, Violation{Kind: kind, Detail: detail, Replay: replay, Sig: sig})
		}
	}
	for i := 0; i < cfg.n; i++ {
		cr := r.Fork()
		flavor := flavors[i%len(flavors)]
		if f := xopts["flavor"]; f != "" {
			fl := strings.Split(f, "+")
			flavor = fl[i%len(fl)]
		}
		prog := codecProg{Seed: cfg.seed, Program: i, Flavor: flavor}
		res.count("flavor." + flavor)
		authors := []*document.Document{newDrained("codec", 1), newDrained("codec", 2)}
		mkPassive := func() *document.InternalDocument { return document.NewInternalDocument(key.Key("codec")) }
		D, W, S, R := mkPassive(), mkPassive(), mkPassive(), mkPassive()
		var sseq int64
		bad := false
		usesAset := false
		undoUsed := false
		fail := func(kind, detail string) {
			bad = true
			res.count("failflavor." + kind + "." + flavor)
			viol(kind, fmt.Sprintf("program %d (%s): %s", i, flavor, detail), prog, map[string]any{"flavor": flavor, "uses_aset": usesAset, "undo_used": undoUsed, "tree_flavor": flavor == "tree" || flavor == "treex"})
		}
		setup := "oatcnx"
		_ = authors[0].Update(func(root *json.Object, p *presence.Presence) error {
			hist.SetupEdits(root, setup)
			p.Set("who", "a0")
			return nil
		})
		deliver := func(src int) {
			p := authors[src].CreateChangePack()
			if len(p.Changes) == 0 {
				return
			}
			var cs []*change.Change
			for _, c := range p.Changes {
				sseq++
				c.SetServerSeq(sseq)
				cs = append(cs, c)
			}
			if err := authors[src].ApplyChangePack(change.NewPack(p.DocumentKey, change.NewCheckpoint(sseq, p.Checkpoint.ClientSeq), nil, nil, nil)); err != nil {
				fail("harness", "ack: "+err.Error())
				return
			}
			other := authors[1-src]
			pk := change.NewPack(p.DocumentKey, change.NewCheckpoint(sseq, 0), cs, nil, nil)
			// remember the state just before this pack, for the hostile stream
			if snap, err := converter.SnapshotToBytes(D.RootObject(), D.AllPresences()); err == nil && len(validPacks) < 400 {
				if pb, err := converter.ToChangePack(pk); err == nil {
					validPacks = append(validPacks, packAt{before: snap, sseq: D.Checkpoint().ServerSeq, lamport: D.Lamport(), vv: D.VersionVector().DeepCopy(), pack: pb})
				}
			}
			if err := other.ApplyChangePack(change.NewPack(p.DocumentKey, change.NewCheckpoint(sseq, other.Checkpoint().ClientSeq), cs, nil, nil)); err != nil {
				// the authors themselves disagree (undo identity reuse and the like): not a codec matter
				res.count("abandoned.author-apply-error")
				bad = true
				return
			}
			res.Evaluations += 3
			if err := D.ApplyChangePack(pk, false); err != nil {
				// the change objects themselves cannot be replayed (undo identity reuse and the
				// like: properties C14/C15): no baseline to compare the encodings with
				res.count("abandoned.direct-apply-error")
				bad = true
				return
			}
			if err := R.ApplyChangePack(pk, false); err != nil {
				fail("snapshot-fed-apply-error", "replica rebuilt from its snapshot cannot apply the next pack: "+err.Error())
				return
			}
			wp, _, err := throughWire(pk)
			if err != nil {
				fail("wire-roundtrip-error", "FromChangePack(ToChangePack(p)): "+err.Error())
				return
			}
			if err := W.ApplyChangePack(wp, false); err != nil {
				fail("wire-apply-error", "decoded pack cannot be applied: "+err.Error())
				return
			}
			sp, err := throughStorage(pk)
			if err != nil {
				fail("storage-roundtrip-error", "ChangeInfo round trip: "+err.Error())
				return
			}
			if err := S.ApplyChangePack(sp, false); err != nil {
				fail("storage-apply-error", "stored change cannot be applied: "+err.Error())
				return
			}
			// version vectors of the changes
			for _, c := range cs {
				vv := c.ID().VersionVector()
				b, err := vv.Bytes()
				if err != nil {
					fail("vv-bytes-error", err.Error())
					return
				}
				back, err := time.VersionVectorFromBytes(b)
				if err != nil || !back.Equal(vv) {
					fail("vv-bytes-roundtrip", fmt.Sprintf("%s -> %x -> %v (%v)", vv.Marshal(), b, back, err))
					return
				}
				pbv, err := converter.ToVersionVector(vv)
				if err == nil {
					back2, err2 := converter.FromVersionVector(pbv)
					if err2 != nil || !back2.Equal(vv) {
						fail("vv-pb-roundtrip", vv.Marshal())
						return
					}
				}
				if len(vvCases) < 300 && cr.Chance(1, 4) {
					vvCases = append(vvCases, vvCase(b, true, vv))
				}
				res.Evaluations++
			}
		}
		compare := func(where string) {
			if bad {
				return
			}
			dm := D.Marshal()
			for name, x := range map[string]*document.InternalDocument{"wire": W, "storage": S, "snapshot": R} {
				if m := x.Marshal(); m != dm {
					fail(name+"-differs", fmt.Sprintf("%s: content via %s = %s, direct = %s", where, name, trunc(m, 300), trunc(dm, 300)))
					return
				}
				if x.GarbageLen() != D.GarbageLen() {
					fail(name+"-garbage-differs", fmt.Sprintf("%s: GarbageLen via %s = %d, direct = %d", where, name, x.GarbageLen(), D.GarbageLen()))
					return
				}
			}
			ds, err := detSnapshot(D)
			if err != nil {
				fail("snapshot-encode-error", err.Error())
				return
			}
			for name, x := range map[string]*document.InternalDocument{"wire": W, "storage": S, "snapshot": R} {
				xs, err := detSnapshot(x)
				if err != nil {
					fail("snapshot-encode-error", err.Error())
					return
				}
				if xs != ds {
					fail(name+"-structure-differs", fmt.Sprintf("%s: the replica fed via %s encodes to a different snapshot (tickets/tombstones differ) although content is equal: %s", where, name, snapDiff(ds, xs)))
					return
				}
			}
			res.Evaluations += 3
		}
		deliver(0)
		undoW := 2
		if noUndo {
			undoW = 0
		}
		nsteps := cr.Range(6, 28)
		if ms := xopts["maxsteps"]; ms != "" {
			var m int
			fmt.Sscanf(ms, "%d", &m)
			nsteps = cr.Range(2, m)
		}
		for j := 0; j < nsteps && !bad; j++ {
			a := cr.Intn(2)
			switch cr.Pick(10, 4, undoW, undoW/2, 2) {
			case 0:
				ne := cr.Range(1, 3)
				var edits []hist.Edit
				for k := 0; k < ne; k++ {
					e := hist.GenEdit(cr, flavor)
					if e.K == "aset" {
						if noAset {
							e = hist.Edit{K: "aadd", V: e.V}
						} else {
							usesAset = true
						}
					}
					edits = append(edits, e)
				}
				prog.Steps = append(prog.Steps, fmt.Sprintf("U%d %v", a, edits))
				if err, _ := hist.SafeUpdate(authors[a], edits, ""); err != nil {
					res.count("update-rejected")
				}
			case 1:
				prog.Steps = append(prog.Steps, fmt.Sprintf("S%d", a))
				deliver(a)
				compare(fmt.Sprintf("after step %d", j))
			case 2:
				if authors[a].CanUndo() {
					prog.Steps = append(prog.Steps, fmt.Sprintf("Z%d", a))
					undoUsed = true
					if err, p, _ := safely(func() error { return authors[a].Undo() }); err != nil {
						res.count("undo-failed")
						if p {
							res.count("undo-panicked")
						}
					}
				}
			case 3:
				if authors[a].CanRedo() {
					prog.Steps = append(prog.Steps, fmt.Sprintf("Y%d", a))
					undoUsed = true
					if err, _, _ := safely(func() error { return authors[a].Redo() }); err != nil {
						res.count("redo-failed")
					}
				}
			case 4:
				// R is rebuilt from its own snapshot
				prog.Steps = append(prog.Steps, "reload")
				nr, err := reloadFromSnapshot(R)
				if err != nil {
					fail("snapshot-roundtrip-error", err.Error())
					break
				}
				// codec only: a registry built by walking a deep copy of the same structure
				if cp, err := R.RootObject().DeepCopy(); err == nil {
					if w := crdt.NewRoot(cp.(*crdt.Object)).GarbageLen(); w != nr.GarbageLen() {
						fail("snapshot-loses-garbage", fmt.Sprintf("walking the structure finds %d removed nodes, walking BytesToSnapshot(SnapshotToBytes(it)) finds %d", w, nr.GarbageLen()))
						break
					}
				}
				if nr.GarbageLen() != R.GarbageLen() {
					fail("snapshot-garbage-differs", fmt.Sprintf("GarbageLen before = %d, after BytesToSnapshot = %d", R.GarbageLen(), nr.GarbageLen()))
					break
				}
				R = nr
				res.Evaluations++
				compare("after reload")
			}
		}
		if !bad {
			deliver(0)
			deliver(1)
			compare("at the end")
		}
		if !bad {
			// everybody has seen everything: collect all garbage on the passive replicas
			vec := time.MinVersionVector(authors[0].VersionVector(), authors[1].VersionVector())
			for _, x := range []*document.InternalDocument{D, W, S, R} {
				if _, err := x.GarbageCollect(vec); err != nil {
					fail("gc-error", err.Error())
				}
			}
			compare("after the final gc")
		}
		if len(prog.Steps) >= 3 {
			seen.add(flavor + strings.Join(prog.Steps, ";"))
		}
		if len(res.Samples) < 2 {
			res.Samples = append(res.Samples, prog)
		}
	}

	// ---------- hostile stream ----------
	nmut := cfg.n * 12
	opShapeStream(validPacks, res, &opCases)
	hostile(r.Fork(), res, validPacks, nmut, &opCases, viol, seen)
	hostileBytes(r.Fork(), res, &vvCases, viol, cfg)

	res.Nontrivial = len(seen)
	var files []string
	p1 := filepath.Join(cfg.out, "cases_codecvv_0.v")
	if err := os.WriteFile(p1, []byte(coqfmt.File([]string{"From YV Require Import Codec.VVBytes Corr.Common Corr.Codec."}, "vvcase", "mismatches vvcheck", vvCases)), 0o644); err != nil {
		return err
	}
	files = append(files, p1)
	p2 := filepath.Join(cfg.out, "cases_codecop_0.v")
	if err := os.WriteFile(p2, []byte(coqfmt.File([]string{"From Coq Require Import String.", "From YV Require Import Codec.OpShape Corr.Common Corr.Codec."}, "opcase", "mismatches opcheck", opCases)), 0o644); err != nil {
		return err
	}
	files = append(files, p2)
	res.CaseFiles = files
	res.Dist["cases.vv"] = len(vvCases)
	res.Dist["cases.op"] = len(opCases)
	return res.write(cfg.out)
}

func vvCase(b []byte, ok bool, vv time.VersionVector) string {
	bs := make([]string, len(b))
	for i, x := range b {
		bs[i] = fmt.Sprintf("%d", x)
	}
	var ents []string
	if ok {
		type ent struct {
			a string
			v int64
		}
		var es []ent
		for a, v := range vv {
			es = append(es, ent{hex.EncodeToString(a[:]), v})
		}
		sort.Slice(es, func(i, j int) bool { return es[i].a < es[j].a })
		for _, e := range es {
			ab, _ := hex.DecodeString(e.a)
			as := make([]string, len(ab))
			for i, x := range ab {
				as[i] = fmt.Sprintf("%d", x)
			}
			ents = append(ents, fmt.Sprintf("(%s, %s)", coqfmt.List(as), coqfmt.Z(e.v)))
		}
	}
	return fmt.Sprintf("(VvCase %s %s %s)", coqfmt.List(bs), coqfmt.Bool(ok), coqfmt.List(ents))
}

func snapDiff(a, b string) string {
	var sa, sb api.Snapshot
	_ = proto.Unmarshal([]byte(a), &sa)
	_ = proto.Unmarshal([]byte(b), &sb)
	ta := strings.Split(prototext.MarshalOptions{Multiline: true}.Format(&sa), "\n")
	tb := strings.Split(prototext.MarshalOptions{Multiline: true}.Format(&sb), "\n")
	for i := 0; i < len(ta) && i < len(tb); i++ {
		if strings.TrimSpace(ta[i]) != strings.TrimSpace(tb[i]) {
			lo := i - 6
			if lo < 0 {
				lo = 0
			}
			if os.Getenv("VH_DEBUG") != "" {
				hi := i + 14
				if hi > len(ta) {
					hi = len(ta)
				}
				hib := i + 14
				if hib > len(tb) {
					hib = len(tb)
				}
				lo2 := i - 40
				if lo2 < 0 {
					lo2 = 0
				}
				fmt.Fprintf(os.Stderr, "---- direct\n%s\n---- other\n%s\n", strings.Join(ta[lo2:hi], "\n"), strings.Join(tb[lo2:hib], "\n"))
			}
			return fmt.Sprintf("line %d: direct %q vs %q (context %q)", i, strings.TrimSpace(ta[i]), strings.TrimSpace(tb[i]), strings.Join(trimAll(ta[lo:i]), " "))
		}
	}
	return fmt.Sprintf("lengths %d vs %d", len(ta), len(tb))
}

func trimAll(xs []string) []string {
	out := make([]string, len(xs))
	for i, x := range xs {
		out[i] = strings.TrimSpace(x)
	}
	return out
}

type packAt struct {
	before  []byte
	sseq    int64
	lamport int64
	vv      time.VersionVector
	pack    *api.ChangePack
}

// opShapeStream clears, one at a time, every ticket-valued field of every operation of
// the valid packs and records the decoders' verdicts for Corr/Codec.v.
func opShapeStream(packs []packAt, res *Result, opCases *[]string) {
	seen := map[string]bool{}
	emit := func(op *api.Operation, id *api.ChangeID) {
		kind, present, ok := opShape(op)
		if !ok {
			return
		}
		key := kind + "|" + strings.Join(present, ",")
		if seen[key] {
			return
		}
		seen[key] = true
		_, e1 := converter.FromOperations([]*api.Operation{op})
		_, e2 := converter.FromChanges([]*api.Change{{Id: id, Operations: []*api.Operation{op}}})
		res.Evaluations += 2
		res.count("opshape." + kind)
		*opCases = append(*opCases, fmt.Sprintf("(OpCase %q%%string %s %s)", kind, coqfmt.List(quoteAll(present)), coqfmt.Bool(e1 == nil)))
		*opCases = append(*opCases, fmt.Sprintf("(ChgCase %q%%string %s %s)", kind, coqfmt.List(quoteAll(present)), coqfmt.Bool(e2 == nil)))
	}
	for _, pa := range packs {
		for _, ch := range pa.pack.Changes {
			for _, op := range ch.Operations {
				emit(op, ch.Id)
				m := op.ProtoReflect()
				fd := m.WhichOneof(m.Descriptor().Oneofs().ByName("body"))
				if fd == nil {
					continue
				}
				fs := m.Get(fd).Message().Descriptor().Fields()
				for i := 0; i < fs.Len(); i++ {
					f := fs.Get(i)
					if f.Kind() != protoreflect.MessageKind || f.IsList() || f.IsMap() {
						continue
					}
					mn := string(f.Message().Name())
					if mn != "TimeTicket" && mn != "TextNodePos" && mn != "TreePos" && mn != "JSONElementSimple" {
						continue
					}
					// variant 1: the field is absent
					c1 := proto.Clone(op).(*api.Operation)
					b1 := c1.ProtoReflect().Get(fd).Message()
					if !b1.Has(f) {
						continue
					}
					b1.Clear(f)
					emit(c1, ch.Id)
					// variant 2: the field is there but the ticket inside it is not
					c2 := proto.Clone(op).(*api.Operation)
					sub := c2.ProtoReflect().Get(fd).Message().Mutable(f).Message()
					switch mn {
					case "TextNodePos", "JSONElementSimple":
						sub.Clear(sub.Descriptor().Fields().ByName("created_at"))
						emit(c2, ch.Id)
					case "TreePos":
						if pid := sub.Descriptor().Fields().ByName("left_sibling_id"); pid != nil && sub.Has(pid) {
							id := sub.Mutable(pid).Message()
							id.Clear(id.Descriptor().Fields().ByName("created_at"))
							emit(c2, ch.Id)
						}
					}
					// variant 3: two fields absent
					if i+1 < fs.Len() {
						c3 := proto.Clone(c1).(*api.Operation)
						b3 := c3.ProtoReflect().Get(fd).Message()
						for j := i + 1; j < fs.Len(); j++ {
							g := fs.Get(j)
							if g.Kind() == protoreflect.MessageKind && !g.IsList() && !g.IsMap() && string(g.Message().Name()) == "TimeTicket" && b3.Has(g) {
								b3.Clear(g)
								emit(c3, ch.Id)
								break
							}
						}
					}
				}
			}
		}
	}
}

// ---------- structural mutation of protobuf messages ----------

// allMessages lists the message and every message reachable from it.
func allMessages(m protoreflect.Message, out *[]protoreflect.Message) {
	*out = append(*out, m)
	m.Range(func(fd protoreflect.FieldDescriptor, v protoreflect.Value) bool {
		switch {
		case fd.IsMap():
			if fd.MapValue().Kind() == protoreflect.MessageKind {
				v.Map().Range(func(k protoreflect.MapKey, mv protoreflect.Value) bool {
					allMessages(mv.Message(), out)
					return true
				})
			}
		case fd.IsList():
			if fd.Kind() == protoreflect.MessageKind {
				l := v.List()
				for i := 0; i < l.Len(); i++ {
					allMessages(l.Get(i).Message(), out)
				}
			}
		case fd.Kind() == protoreflect.MessageKind:
			allMessages(v.Message(), out)
		}
		return true
	})
}

// mutate changes one thing in a random message of the tree; returns a description.
func mutate(r *rng.R, root protoreflect.Message) string {
	var ms []protoreflect.Message
	allMessages(root, &ms)
	m := ms[r.Intn(len(ms))]
	var set []protoreflect.FieldDescriptor
	m.Range(func(fd protoreflect.FieldDescriptor, v protoreflect.Value) bool {
		set = append(set, fd)
		return true
	})
	sort.Slice(set, func(i, j int) bool { return set[i].Number() < set[j].Number() })
	fields := m.Descriptor().Fields()
	name := string(m.Descriptor().Name())
	if len(set) == 0 || r.Chance(1, 8) {
		// set an unset scalar field to an extreme
		fd := fields.Get(r.Intn(fields.Len()))
		return name + "." + string(fd.Name()) + ":" + setExtreme(r, m, fd)
	}
	fd := set[r.Intn(len(set))]
	what := name + "." + string(fd.Name())
	switch {
	case fd.IsList():
		l := m.Mutable(fd).List()
		switch r.Intn(3) {
		case 0:
			if l.Len() > 0 {
				l.Truncate(r.Intn(l.Len()))
				return what + ":truncate-list"
			}
		case 1:
			if l.Len() > 0 && fd.Kind() != protoreflect.MessageKind {
				l.Append(l.Get(r.Intn(l.Len())))
				return what + ":dup-elem"
			}
			if l.Len() > 0 {
				l.Append(protoreflect.ValueOfMessage(proto.Clone(l.Get(r.Intn(l.Len())).Message().Interface()).ProtoReflect()))
				return what + ":dup-elem"
			}
		}
		m.Clear(fd)
		return what + ":clear-list"
	case fd.IsMap():
		m.Clear(fd)
		return what + ":clear-map"
	case fd.Kind() == protoreflect.MessageKind:
		if od := fd.ContainingOneof(); od != nil && r.Bool() {
			// swap the oneof body for another kind's empty body
			alt := od.Fields().Get(r.Intn(od.Fields().Len()))
			if alt.Kind() == protoreflect.MessageKind {
				m.Set(alt, protoreflect.ValueOfMessage(m.NewField(alt).Message()))
				return what + ":swap-oneof->" + string(alt.Name())
			}
		}
		if r.Chance(1, 4) {
			// keep the field but empty the message
			m.Set(fd, protoreflect.ValueOfMessage(m.NewField(fd).Message()))
			return what + ":empty-message"
		}
		m.Clear(fd)
		return what + ":clear"
	default:
		if r.Bool() {
			m.Clear(fd)
			return what + ":clear"
		}
		return what + ":" + setExtreme(r, m, fd)
	}
}

func setExtreme(r *rng.R, m protoreflect.Message, fd protoreflect.FieldDescriptor) string {
	if fd.IsList() || fd.IsMap() {
		return "skip"
	}
	switch fd.Kind() {
	case protoreflect.Int32Kind, protoreflect.Sint32Kind, protoreflect.Sfixed32Kind:
		v := []int32{-1, -2147483648, 2147483647, 1 << 20, 0}[r.Intn(5)]
		m.Set(fd, protoreflect.ValueOfInt32(v))
		return fmt.Sprintf("=%d", v)
	case protoreflect.Int64Kind, protoreflect.Sint64Kind, protoreflect.Sfixed64Kind:
		v := []int64{-1, -9223372036854775808, 9223372036854775807, 1 << 40, 0}[r.Intn(5)]
		m.Set(fd, protoreflect.ValueOfInt64(v))
		return fmt.Sprintf("=%d", v)
	case protoreflect.Uint32Kind, protoreflect.Fixed32Kind:
		v := []uint32{0, 4294967295, 1 << 20}[r.Intn(3)]
		m.Set(fd, protoreflect.ValueOfUint32(v))
		return fmt.Sprintf("=%d", v)
	case protoreflect.Uint64Kind, protoreflect.Fixed64Kind:
		v := []uint64{0, 18446744073709551615, 1 << 40}[r.Intn(3)]
		m.Set(fd, protoreflect.ValueOfUint64(v))
		return fmt.Sprintf("=%d", v)
	case protoreflect.BytesKind:
		n := []int{0, 1, 11, 13, 64}[r.Intn(5)]
		b := make([]byte, n)
		for i := range b {
			b[i] = byte(r.Intn(256))
		}
		m.Set(fd, protoreflect.ValueOfBytes(b))
		return fmt.Sprintf("=bytes[%d]", n)
	case protoreflect.StringKind:
		s := []string{"", "\x00", strings.Repeat("z", 300), "\xff\xfe"}[r.Intn(4)]
		m.Set(fd, protoreflect.ValueOfString(s))
		return "=string"
	case protoreflect.EnumKind:
		v := []int32{-1, 99, 0}[r.Intn(3)]
		m.Set(fd, protoreflect.ValueOfEnum(protoreflect.EnumNumber(v)))
		return fmt.Sprintf("=enum %d", v)
	case protoreflect.BoolKind:
		m.Set(fd, protoreflect.ValueOfBool(r.Bool()))
		return "=bool"
	}
	return "skip"
}

// opShape reduces an operation to its kind and the presence of its ticket-valued fields.
func opShape(op *api.Operation) (string, []string, bool) {
	if op == nil || op.Body == nil {
		return "", nil, false
	}
	m := op.ProtoReflect()
	od := m.Descriptor().Oneofs().ByName("body")
	fd := m.WhichOneof(od)
	if fd == nil {
		return "", nil, false
	}
	body := m.Get(fd).Message()
	kind := string(fd.Name())
	var present []string
	fs := body.Descriptor().Fields()
	for i := 0; i < fs.Len(); i++ {
		f := fs.Get(i)
		if f.Kind() != protoreflect.MessageKind || f.IsList() || f.IsMap() {
			continue
		}
		mn := string(f.Message().Name())
		if mn != "TimeTicket" && mn != "TextNodePos" && mn != "TreePos" && mn != "JSONElementSimple" {
			continue
		}
		if !body.Has(f) {
			continue
		}
		ok := true
		sub := body.Get(f).Message()
		switch mn {
		case "JSONElementSimple":
			// a tree element carries its identity inside the encoded value
			tf := sub.Descriptor().Fields().ByName("type")
			isTree := tf != nil && sub.Get(tf).Enum() == protoreflect.EnumNumber(api.ValueType_VALUE_TYPE_TREE)
			hasBody := sub.Has(sub.Descriptor().Fields().ByName("value")) &&
				(sub.Get(tf).Enum() == protoreflect.EnumNumber(api.ValueType_VALUE_TYPE_JSON_OBJECT) || sub.Get(tf).Enum() == protoreflect.EnumNumber(api.ValueType_VALUE_TYPE_JSON_ARRAY))
			ok = isTree || hasBody || sub.Has(sub.Descriptor().Fields().ByName("created_at"))
		case "TextNodePos":
			ok = sub.Has(sub.Descriptor().Fields().ByName("created_at"))
		case "TreePos":
			for _, n := range []string{"parent_id", "left_sibling_id"} {
				idf := sub.Descriptor().Fields().ByName(protoreflect.Name(n))
				if idf == nil || !sub.Has(idf) {
					ok = false
				} else {
					id := sub.Get(idf).Message()
					if cf := id.Descriptor().Fields().ByName("created_at"); cf == nil || !id.Has(cf) {
						ok = false
					}
				}
			}
		}
		if ok {
			present = append(present, string(f.Name()))
		}
	}
	return kind, present, true
}

func hostile(r *rng.R, res *Result, packs []packAt, n int, opCases *[]string, viol func(string, string, any, map[string]any), seen distinct) {
	if len(packs) == 0 {
		return
	}
	for i := 0; i < n; i++ {
		pa := packs[r.Intn(len(packs))]
		pb := proto.Clone(pa.pack).(*api.ChangePack)
		nm := 1 + r.Intn(2)
		var desc []string
		for k := 0; k < nm; k++ {
			desc = append(desc, mutate(r, pb.ProtoReflect()))
		}
		raw, _ := proto.Marshal(pb)
		replay := map[string]any{"mutations": desc, "pack_hex": hex.EncodeToString(raw), "before_snapshot_hex": hex.EncodeToString(pa.before), "server_seq": pa.sseq, "lamport": pa.lamport}
		seen.add("mut:" + hex.EncodeToString(raw))
		res.Evaluations++
		var pack *change.Pack
		err, panicked, hung := safely(func() error {
			var e error
			pack, e = converter.FromChangePack(pb)
			return e
		})
		site := func(e error) string { return trunc(fmt.Sprint(e), 160) }
		if panicked || hung {
			viol("decoder-panics", fmt.Sprintf("FromChangePack panics/hangs on a mutated pack (%v): %s", desc, site(err)), replay, map[string]any{"stage": "decode"})
			continue
		}
		if err != nil {
			res.count("hostile.rejected-at-decode")
			continue
		}
		doc, derr := document.NewInternalDocumentFromSnapshot(key.Key("codec"), pa.sseq, pa.lamport, pa.vv, pa.before)
		if derr != nil {
			continue
		}
		err, panicked, hung = safely(func() error {
			if e := doc.ApplyChangePack(pack, false); e != nil {
				return e
			}
			_ = doc.Marshal()
			if _, e := converter.SnapshotToBytes(doc.RootObject(), doc.AllPresences()); e != nil {
				return e
			}
			vec := doc.VersionVector().DeepCopy()
			for k := range vec {
				vec[k] = math.MaxInt64
			}
			_, e := doc.GarbageCollect(vec)
			return e
		})
		switch {
		case panicked || hung:
			for _, d := range desc {
				res.count("panic-mutation." + d)
			}
			viol("accepted-pack-panics", fmt.Sprintf("a pack the decoder accepted crashes the document rebuild (%v): %s", desc, site(err)), replay, map[string]any{"stage": "execute"})
		case err != nil:
			res.count("hostile.rejected-at-apply")
		default:
			res.count("hostile.applied")
		}
	}
	// mutated and random snapshot bytes
	for i := 0; i < n/3; i++ {
		pa := packs[r.Intn(len(packs))]
		var s api.Snapshot
		if err := proto.Unmarshal(pa.before, &s); err != nil {
			continue
		}
		var raw []byte
		var desc []string
		switch r.Intn(4) {
		case 0:
			raw = append([]byte{}, pa.before[:r.Intn(len(pa.before)+1)]...)
			desc = []string{"truncate"}
		case 1:
			raw = append([]byte{}, pa.before...)
			if len(raw) > 0 {
				for k := 0; k < 1+r.Intn(3); k++ {
					raw[r.Intn(len(raw))] ^= byte(1 << r.Intn(8))
				}
			}
			desc = []string{"bitflip"}
		default:
			desc = []string{mutate(r, s.ProtoReflect())}
			raw, _ = proto.Marshal(&s)
		}
		seen.add("snap:" + hex.EncodeToString(raw))
		res.Evaluations++
		err, panicked, hung := safely(func() error {
			d, e := document.NewInternalDocumentFromSnapshot(key.Key("codec"), 1, 1, time.NewVersionVector(), raw)
			if e != nil {
				return e
			}
			_ = d.Marshal()
			_ = d.GarbageLen()
			if _, e := d.DeepCopy(); e != nil {
				return e
			}
			_, e = converter.SnapshotToBytes(d.RootObject(), d.AllPresences())
			return e
		})
		switch {
		case panicked || hung:
			viol("snapshot-decoder-panics", fmt.Sprintf("BytesToSnapshot (or using its result) panics on %v: %s", desc, trunc(fmt.Sprint(err), 160)),
				map[string]any{"mutations": desc, "snapshot_hex": hex.EncodeToString(raw)}, map[string]any{"stage": "snapshot"})
		case err != nil:
			res.count("hostile.snapshot-rejected")
		default:
			res.count("hostile.snapshot-accepted")
		}
	}
}

func quoteAll(xs []string) []string {
	out := make([]string, len(xs))
	for i, x := range xs {
		out[i] = fmt.Sprintf("%q%%string", x)
	}
	return out
}

// hostileBytes feeds byte-level decoders with attacker-chosen lengths to a child
// process that has a memory limit; a dead child is a violation.
func hostileBytes(r *rng.R, res *Result, vvCases *[]string, viol func(string, string, any, map[string]any), cfg *config) {
	var inputs [][]byte
	be := func(v uint64) []byte {
		b := make([]byte, 8)
		for i := 0; i < 8; i++ {
			b[i] = byte(v >> (56 - 8*i))
		}
		return b
	}
	ent := func(a byte, v uint64) []byte {
		x := make([]byte, 12)
		x[11] = a
		return append(x, be(v)...)
	}
	for _, n := range []uint64{0, 1, 2, 3, 1 << 20, 1 << 31, 1 << 33, 1 << 40, 1 << 62, 1<<63 - 1, 1 << 63, 1<<64 - 1} {
		inputs = append(inputs, be(n))
		inputs = append(inputs, append(be(n), ent(1, 5)...))
		inputs = append(inputs, append(append(be(n), ent(1, 5)...), ent(2, 1<<63)...))
	}
	// truncations of a valid two-entry vector at every length
	valid := append(append(be(2), ent(1, 7)...), ent(2, 9)...)
	for k := 0; k <= len(valid); k++ {
		inputs = append(inputs, valid[:k])
	}
	for i := 0; i < 40; i++ {
		b := make([]byte, r.Intn(60))
		for j := range b {
			b[j] = byte(r.Intn(256))
		}
		if len(b) >= 8 && r.Bool() {
			copy(b, be(uint64(r.Intn(4))))
		}
		inputs = append(inputs, b)
	}
	self, err := os.Executable()
	if err != nil {
		return
	}
	cmd := exec.Command("/bin/sh", "-c", "ulimit -v 6000000; exec "+self+" codecchild")
	var in bytes.Buffer
	for _, b := range inputs {
		in.WriteString(hex.EncodeToString(b) + "\n")
	}
	cmd.Stdin = &in
	var out bytes.Buffer
	cmd.Stdout = &out
	var errb bytes.Buffer
	cmd.Stderr = &errb
	runErr := cmd.Run()
	lines := strings.Split(strings.TrimSpace(out.String()), "\n")
	if out.Len() == 0 {
		lines = nil
	}
	for i, b := range inputs {
		res.Evaluations++
		if i >= len(lines) {
			viol("vv-decoder-crashes", fmt.Sprintf("VersionVectorFromBytes killed the process on input %x (%v; %s)", b, runErr, trunc(errb.String(), 200)),
				map[string]any{"vv_hex": hex.EncodeToString(b)}, map[string]any{"stage": "vv-bytes"})
			break
		}
		ok := strings.HasPrefix(lines[i], "ok")
		res.count("hostile.vv." + strings.Fields(lines[i])[0])
		if len(b) <= 80 {
			var vv time.VersionVector
			if ok {
				vv, _ = time.VersionVectorFromBytes(b)
			}
			*vvCases = append(*vvCases, vvCase(b, ok, vv))
		}
	}
}

// runCodecChild decodes hex lines from stdin with VersionVectorFromBytes.
func runCodecChild(cfg *config) error {
	sc := bufio.NewScanner(os.Stdin)
	sc.Buffer(make([]byte, 1<<20), 1<<20)
	w := bufio.NewWriter(os.Stdout)
	defer w.Flush()
	for sc.Scan() {
		b, err := hex.DecodeString(strings.TrimSpace(sc.Text()))
		if err != nil {
			fmt.Fprintln(w, "badhex")
			w.Flush()
			continue
		}
		func() {
			defer func() {
				if r := recover(); r != nil {
					fmt.Fprintln(w, "panic", r)
				}
			}()
			vv, err := time.VersionVectorFromBytes(b)
			if err != nil {
				fmt.Fprintln(w, "err")
			} else {
				fmt.Fprintln(w, "ok", len(vv))
			}
		}()
		w.Flush()
	}
	return nil
}
