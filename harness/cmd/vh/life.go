package main

// Engine life: call sequences over 2 client slots x 2 document keys (valid and
// invalid calls alike) on the real RPC server; after every call the verdict,
// the caller's stored status and the length of the named document's change log
// are recorded for the lifecycle specification (Corr/Life.v) to judge.

import (
	"context"
	"fmt"
	"os"
	"path/filepath"
	"strings"

	"verifharness/internal/coqfmt"
	"verifharness/internal/rng"
	"verifharness/internal/sim"

	"github.com/yorkie-team/yorkie/api/types"
	"github.com/yorkie-team/yorkie/pkg/document"
	"github.com/yorkie-team/yorkie/pkg/document/json"
	"github.com/yorkie-team/yorkie/pkg/document/presence"
	"github.com/yorkie-team/yorkie/pkg/key"
	"github.com/yorkie-team/yorkie/server/backend/database"
)

func init() { register("life", runLife) }

type lcall struct {
	k    string // act deact att pp det rem
	c, d int
}

func (c lcall) String() string { return fmt.Sprintf("%s(%d,%d)", c.k, c.c, c.d) }

var lifeAlphabet = func() []lcall {
	var a []lcall
	for c := 0; c < 2; c++ {
		a = append(a, lcall{"act", c, 0}, lcall{"deact", c, 0})
		for d := 0; d < 2; d++ {
			a = append(a, lcall{"att", c, d}, lcall{"pp", c, d}, lcall{"det", c, d}, lcall{"rem", c, d}, lcall{"atts", c, d}, lcall{"attf", c, d}, lcall{"rem0", c, d}, lcall{"det0", c, d})
		}
	}
	return a
}()

type lifeSlot struct {
	c    *sim.MClient
	atts [2]*sim.Att
	ever [2]bool // the Document instance kept in atts was attached successfully at least once
}

const dummyDocID = "000000000000000000000000"

func statusCoq(s string) string {
	switch s {
	case database.DocumentAttached:
		return "DAttached"
	case database.DocumentAttaching:
		return "DAttaching"
	case database.DocumentDetached:
		return "DDetached"
	case database.DocumentRemoved:
		return "DRemoved"
	}
	return "DNone"
}

// lifePre makes one local edit before attaching, so that every successful attach
// stores a change and leaves the instance with a non-zero checkpoint (a detached
// instance is then recognisable by the server, as with real clients that carry an
// initial presence).
func lifePre(i int) func(d *document.Document) {
	return func(d *document.Document) {
		_ = d.Update(func(root *json.Object, pr *presence.Presence) error {
			root.SetInteger("init", i)
			return nil
		})
	}
}

func runLifeSeq(ctx context.Context, srv *sim.Server, seqNo int, calls []lcall, res *Result) (string, []Violation) {
	var viol []Violation
	p, err := srv.NewProject(ctx, 0, 0)
	if err != nil {
		return "", []Violation{{Kind: "harness-fatal", Detail: err.Error()}}
	}
	keys := [2]string{fmt.Sprintf("l%d-a", seqNo), fmt.Sprintf("l%d-b", seqNo)}
	var slots [2]*lifeSlot
	knownDocID := [2]string{dummyDocID, dummyDocID}
	var items []string
	for i, call := range calls {
		sl := slots[call.c]
		var err error
		nch := 0
		skipped := false
		freshAtts := false
		switch call.k {
		case "act":
			if sl != nil {
				// the slot gets a new identity; the one it abandons is deactivated behind the scenes
				// (not a call of the sequence: the specification forgets an abandoned identity, and
				// since attaches can depend on who else holds a document, it must not linger attached)
				_ = sl.c.Deactivate(ctx)
				for _, a := range sl.atts {
					if a != nil {
						a.Close()
					}
				}
			}
			c := srv.NewClient(p.PublicKey, fmt.Sprintf("lc%d-%d-%d", seqNo, call.c, i))
			err = c.Activate(ctx)
			if err == nil {
				slots[call.c] = &lifeSlot{c: c}
				sl = slots[call.c]
			}
		case "deact":
			if sl == nil {
				skipped = true
				break
			}
			err = sl.c.Deactivate(ctx)
		case "att":
			if sl == nil {
				skipped = true
				break
			}
			nch = 1
			a, e := sl.c.Attach(ctx, keys[call.d], sim.AttachOpts{DisablePresence: true, Pre: lifePre(i)})
			err = e
			if e == nil {
				if old := sl.atts[call.d]; old != nil {
					old.Close()
				}
				sl.atts[call.d] = a
				sl.ever[call.d] = true
				knownDocID[call.d] = a.DocID
			} else {
				a.Close()
			}
		case "attf": // an attach naming a schema that does not exist: it fails half-way (the server has recorded "attaching" by then) unless somebody else has the document attached, in which case the schema key is ignored
			if sl == nil {
				skipped = true
				break
			}
			nch = 1
			a, e := sl.c.Attach(ctx, keys[call.d], sim.AttachOpts{DisablePresence: true, Pre: lifePre(i), SchemaKey: "no-such-schema@1"})
			err = e
			if e == nil {
				if old := sl.atts[call.d]; old != nil {
					old.Close()
				}
				sl.atts[call.d] = a
				sl.ever[call.d] = true
				knownDocID[call.d] = a.DocID
				break
			}
			a.Close()
			if di, derr := srv.Be.DB.FindDocInfoByKey(ctx, p.ID, key.Key(keys[call.d])); derr == nil && di != nil {
				knownDocID[call.d] = di.ID.String()
				// if the failure left the "attaching" residue, what the slot holds from now on is the
				// instance of the failed attach (never attached); a refusal that changed nothing (the
				// document was attached already) leaves the slot's instance alone
				residue := false
				if ci, e := srv.Be.DB.FindClientInfoByRefKey(ctx, types.ClientRefKey{ProjectID: p.ID, ClientID: types.IDFromActorID(sl.c.ID)}); e == nil {
					if dinfo, ok := ci.Documents[di.ID]; ok && dinfo.Status == database.DocumentAttaching {
						residue = true
					}
				}
				if residue {
					if old := sl.atts[call.d]; old != nil {
						old.Close()
					}
					d, stop := sim.NewDoc(keys[call.d])
					d.SetActor(sl.c.ID)
					sl.atts[call.d] = sim.NewRawAtt(sl.c, d, di.ID.String(), stop)
					sl.ever[call.d] = false
				}
			}
		case "atts": // attach again with the SAME Document instance (not a fresh one)
			if sl == nil {
				skipped = true
				break
			}
			if old := sl.atts[call.d]; old != nil && old.DocID != dummyDocID && sl.ever[call.d] {
				nch = len(old.Doc.CreateChangePack().Changes)
				if st := old.Doc.Status(); st != document.StatusDetached {
					// client.Attach refuses an instance that is not detached (attached or removed)
					// before it talks to the server
					err = fmt.Errorf("document is not detached (status %v)", st)
					break
				}
				a, f := sl.c.AttachBeginWith(ctx, old.Doc, old.Stop(), sim.AttachOpts{DisablePresence: true})
				err = f.Apply()
				if err == nil {
					sl.atts[call.d] = a
					knownDocID[call.d] = a.DocID
				}
			} else {
				// no instance of this slot was ever attached to the key: this is an ordinary attach
				freshAtts = true
				nch = 1
				a, e := sl.c.Attach(ctx, keys[call.d], sim.AttachOpts{DisablePresence: true, Pre: lifePre(i)})
				err = e
				if e == nil {
					if old := sl.atts[call.d]; old != nil {
						old.Close()
					}
					sl.atts[call.d] = a
					sl.ever[call.d] = true
					knownDocID[call.d] = a.DocID
				} else {
					a.Close()
				}
			}
		case "pp", "det", "rem", "rem0", "det0":
			if sl == nil {
				skipped = true
				break
			}
			a := sl.atts[call.d]
			if a == nil {
				// never attached by this identity: use a fresh local document and the
				// id of the key's document if anybody created it
				d, stop := sim.NewDoc(keys[call.d])
				d.SetActor(sl.c.ID)
				a = sim.NewRawAtt(sl.c, d, knownDocID[call.d], stop)
				sl.atts[call.d] = a
			}
			// one local edit rides in the request (rem0/det0: only if one is pending anyway - a
			// request whose pack may be empty)
			if call.k != "rem0" && call.k != "det0" {
				_ = a.Doc.Update(func(root *json.Object, pr *presence.Presence) error {
					root.SetInteger("k", i)
					return nil
				})
			}
			nch = len(a.Doc.CreateChangePack().Changes)
			switch call.k {
			case "pp":
				err = a.SyncBegin(ctx, false).Apply()
			case "det", "det0":
				f := a.DetachBeginNoClear(ctx)
				err = f.Apply()
			case "rem", "rem0":
				err = a.Remove(ctx)
			}
		}
		srv.Be.WaitBackgroundIdleForVerif()
		if skipped {
			// a call by a slot that never activated: modelled as a rejected call on the nil client
			err = fmt.Errorf("no client")
		}
		// observe
		active := false
		status := ""
		rows := int64(0)
		if sl != nil {
			if ci, e := srv.Be.DB.FindClientInfoByRefKey(ctx, types.ClientRefKey{ProjectID: p.ID, ClientID: types.IDFromActorID(sl.c.ID)}); e == nil {
				active = ci.Status == database.ClientActivated
				if a := sl.atts[call.d]; a != nil && a.DocID != dummyDocID && (call.k != "act" && call.k != "deact") {
					if di, ok := ci.Documents[types.ID(a.DocID)]; ok {
						status = di.Status
					}
					if infos, e := srv.Be.DB.FindChangeInfosBetweenServerSeqs(ctx, types.DocRefKey{ProjectID: p.ID, DocID: types.ID(a.DocID)}, 1, 1<<40); e == nil {
						rows = int64(len(infos))
					}
				}
			}
		}
		var cc string
		switch call.k {
		case "act":
			cc = coqfmt.App("LActivate", coqfmt.N(uint64(call.c)))
		case "deact":
			cc = coqfmt.App("LDeactivate", coqfmt.N(uint64(call.c)))
		case "att":
			cc = coqfmt.App("LAttach", coqfmt.N(uint64(call.c)), coqfmt.N(uint64(call.d)), coqfmt.Z(int64(nch)))
		case "atts":
			if freshAtts {
				cc = coqfmt.App("LAttach", coqfmt.N(uint64(call.c)), coqfmt.N(uint64(call.d)), coqfmt.Z(int64(nch)))
				break
			}
			cc = coqfmt.App("LAttachSame", coqfmt.N(uint64(call.c)), coqfmt.N(uint64(call.d)), coqfmt.Z(int64(nch)))
		case "pp":
			cc = coqfmt.App("LPushPull", coqfmt.N(uint64(call.c)), coqfmt.N(uint64(call.d)), coqfmt.Z(int64(nch)))
		case "det", "det0":
			cc = coqfmt.App("LDetach", coqfmt.N(uint64(call.c)), coqfmt.N(uint64(call.d)), coqfmt.Z(int64(nch)))
		case "rem", "rem0":
			cc = coqfmt.App("LRemove", coqfmt.N(uint64(call.c)), coqfmt.N(uint64(call.d)), coqfmt.Z(int64(nch)))
		case "attf":
			cc = coqfmt.App("LAttachFail", coqfmt.N(uint64(call.c)), coqfmt.N(uint64(call.d)), coqfmt.Z(int64(nch)))
		}
		items = append(items, coqfmt.Pair(cc, coqfmt.App("mkLobs", coqfmt.Bool(err == nil), coqfmt.Bool(active), statusCoq(status), coqfmt.Z(rows))))
		if err != nil {
			res.count("verdict.reject." + call.k)
			cls := sim.ErrClass(err)
			if strings.HasPrefix(cls, "internal") || strings.HasPrefix(cls, "unknown") || strings.HasPrefix(cls, "local:panic") {
				viol = append(viol, Violation{Kind: "internal-error", Detail: fmt.Sprintf("call %d %s answered %s: %.200s", i, call, cls, err.Error())})
			}
		} else {
			res.count("verdict.ok." + call.k)
		}
	}
	for _, sl := range slots {
		if sl != nil {
			for _, a := range sl.atts {
				if a != nil {
					a.Close()
				}
			}
		}
	}
	return coqfmt.App("KLife", coqfmt.List(items)), viol
}

func runLife(cfg *config) error {
	ctx := context.Background()
	srv, err := sim.Start(cfg.out, sim.Options{})
	if err != nil {
		return err
	}
	defer srv.Stop()
	r := rng.New(cfg.seed)
	res := newResult("life", cfg.seed)
	var seqs [][]lcall
	// exhaustive up to length maxExh, then a seeded sample of longer ones
	maxExh := 2
	if cfg.tier == "thorough" {
		maxExh = 3
	}
	var rec func(prefix []lcall, depth int)
	rec = func(prefix []lcall, depth int) {
		if len(prefix) > 0 {
			seqs = append(seqs, append([]lcall{}, prefix...))
		}
		if depth == 0 {
			return
		}
		for _, c := range lifeAlphabet {
			rec(append(prefix, c), depth-1)
		}
	}
	rec(nil, maxExh)
	nexh := len(seqs)
	for len(seqs) < nexh+cfg.n {
		n := r.Range(4, 8)
		var s []lcall
		// mostly-valid sequences: a small abstract state steers the choice towards
		// calls that are allowed (3 of 4), the rest is arbitrary
		active := [2]bool{}
		att := [2][2]bool{}
		was := [2][2]bool{} // the slot's instance for this document was attached at some point
		for j := 0; j < n; j++ {
			if r.Chance(1, 4) {
				s = append(s, lifeAlphabet[r.Intn(len(lifeAlphabet))])
			} else {
				c, d := r.Intn(2), r.Intn(2)
				switch {
				case !active[c]:
					s = append(s, lcall{"act", c, 0})
				case !att[c][d]:
					if was[c][d] && r.Chance(1, 3) {
						// attach again with the instance that was attached before (to be refused)
						s = append(s, lcall{"atts", c, d})
					} else {
						s = append(s, lcall{"att", c, d})
					}
				default:
					s = append(s, lcall{[]string{"pp", "pp", "det", "rem", "deact", "att", "atts", "attf", "rem0", "det0"}[r.Intn(10)], c, d})
				}
			}
			last := s[len(s)-1]
			switch last.k {
			case "act":
				active[last.c] = true
				att[last.c] = [2]bool{}
			case "deact":
				active[last.c] = false
				att[last.c] = [2]bool{}
			case "att", "atts":
				if active[last.c] {
					att[last.c][last.d] = true
					was[last.c][last.d] = true
				}
			case "det", "rem", "det0", "rem0":
				att[last.c][last.d] = false
			}
		}
		seqs = append(seqs, s)
	}
	var cases []string
	seen := distinct{}
	for i, s := range seqs {
		c, viol := runLifeSeq(ctx, srv, i, s, res)
		cases = append(cases, c)
		res.CaseIndex = append(res.CaseIndex, fmt.Sprint(s))
		for _, v := range viol {
			if len(res.Violations) < 6 {
				v.Replay = fmt.Sprint(s)
				res.Violations = append(res.Violations, v)
			}
			res.count("fail." + v.Kind)
		}
		seen.add(fmt.Sprint(s))
		if len(res.Samples) < 3 && len(s) >= 4 {
			res.Samples = append(res.Samples, fmt.Sprint(s))
		}
	}
	res.Evaluations = len(cases)
	res.Nontrivial = len(seen)
	res.Rule = fmt.Sprintf("all call sequences up to length %d over {Activate, Deactivate, Attach, PushPull(with one edit), Detach(with one edit), Remove(with one edit)} x 2 client slots x 2 document keys (%d sequences) plus %d seeded sequences of length 3-6, on the real RPC server; distinct = distinct sequences", maxExh, nexh, cfg.n)
	const shard = 400
	res.CaseShard = shard
	for k := 0; k*shard < len(cases); k++ {
		hi := (k + 1) * shard
		if hi > len(cases) {
			hi = len(cases)
		}
		f := filepath.Join(cfg.out, fmt.Sprintf("cases_life_%d.v", k))
		src := coqfmt.File([]string{"From YV Require Import Corr.Life."}, "lifecase", "mismatches lifecheck", cases[k*shard:hi])
		if err := os.WriteFile(f, []byte(src), 0o644); err != nil {
			return err
		}
		res.CaseFiles = append(res.CaseFiles, f)
	}
	return res.write(cfg.out)
}
