package main

// Engine c20: the real mongo.ChangeStore against a ground-truth change table
// with holes.  Two streams: "disciplined" sequences that respect the caller
// obligations of mongo/client.go (inserted items agree with the table; a range
// is expanded only after its table rows were inserted) where the transparency
// oracle is evaluated, and "free" sequences (arbitrary inserts/expands) that
// only tie model and implementation together.

import (
	"fmt"
	"os"
	"path/filepath"
	"sort"

	"verifharness/internal/coqfmt"
	"verifharness/internal/rng"

	"github.com/yorkie-team/yorkie/api/types"
	presence "github.com/yorkie-team/yorkie/pkg/document/presence/inner"
	"github.com/yorkie-team/yorkie/server/backend/database"
	"github.com/yorkie-team/yorkie/server/backend/database/mongo"
)

func init() { register("c20", runC20) }

type tchg struct {
	seq   int64
	actor uint64
	clear bool
	pay   int64
}

func (c tchg) info() *database.ChangeInfo {
	ct := presence.Put
	if c.clear {
		ct = presence.Clear
	}
	return &database.ChangeInfo{
		ServerSeq:      c.seq,
		ActorID:        types.ID(fmt.Sprintf("%024x", c.actor)),
		Lamport:        c.pay,
		PresenceChange: &presence.Change{ChangeType: ct},
	}
}

func fromInfo(i *database.ChangeInfo) tchg {
	var a uint64
	_, _ = fmt.Sscanf(string(i.ActorID), "%x", &a)
	return tchg{seq: i.ServerSeq, actor: a, clear: i.PresenceChange != nil && i.PresenceChange.IsClear(), pay: i.Lamport}
}

func (c tchg) coq() string {
	return coqfmt.App("mkChg", coqfmt.Z(c.seq), coqfmt.N(c.actor), coqfmt.Bool(c.clear), coqfmt.Z(c.pay))
}

func chgsCoq(l []tchg) string {
	it := make([]string, len(l))
	for i, c := range l {
		it[i] = c.coq()
	}
	return coqfmt.List(it)
}

func infosToT(l []*database.ChangeInfo) []tchg {
	r := make([]tchg, len(l))
	for i, x := range l {
		r[i] = fromInfo(x)
	}
	return r
}

func rangesCoq(l [][2]int64) string {
	it := make([]string, len(l))
	for i, r := range l {
		it[i] = coqfmt.Pair(coqfmt.Z(r[0]), coqfmt.Z(r[1]))
	}
	return coqfmt.List(it)
}

func runC20(cfg *config) error {
	r := rng.New(cfg.seed)
	res := newResult("c20", cfg.seed)
	var cases []string
	seen := distinct{}

	for i := 0; i < cfg.n; i++ {
		disciplined := r.Chance(2, 3)
		cr := r.Fork()
		c, nontriv, viol := c20Case(cr, disciplined, res)
		cases = append(cases, c)
		res.CaseIndex = append(res.CaseIndex, map[string]any{"case": i, "disciplined": disciplined})
		for _, v := range viol {
			v.Detail = fmt.Sprintf("case %d: %s", i, v.Detail)
			v.Replay = c
			res.Violations = append(res.Violations, v)
		}
		if nontriv {
			seen.add(c)
		}
		if len(res.Samples) < 2 {
			res.Samples = append(res.Samples, c)
		}
	}
	res.Evaluations = len(cases)
	res.Nontrivial = len(seen)
	res.Rule = "random op sequences (EnsureChanges incl. invalid ranges and, one in five, a fetcher that fails on its 1st-3rd call, ExpandRange, ReplaceOrInsert, RemoveChangesByActor, ChangesInRange) against the real mongo.ChangeStore over a ground-truth table with holes; 2/3 disciplined (caller obligations of mongo/client.go respected; transparency and no-refetch oracles evaluated), 1/3 free (model/implementation tie only); non-trivial = at least one Ensure answered partly from cache over a hole or a previously fetched range; distinct = distinct rendered case"
	var files []string
	const shard = 400
	res.CaseShard = shard
	for k := 0; k*shard < len(cases); k++ {
		hi := (k + 1) * shard
		if hi > len(cases) {
			hi = len(cases)
		}
		f := filepath.Join(cfg.out, fmt.Sprintf("cases_c20_%d.v", k))
		src := coqfmt.File([]string{"From YV Require Import Corr.C20."}, "c20case", "mismatches c20check", cases[k*shard:hi])
		if err := os.WriteFile(f, []byte(src), 0o644); err != nil {
			return err
		}
		files = append(files, f)
	}
	res.CaseFiles = files
	return res.write(cfg.out)
}

func c20Case(r *rng.R, disciplined bool, res *Result) (string, bool, []Violation) {
	var viol []Violation
	// ground truth: rows of the changes collection; holes = presence-only seqs
	head := int64(r.Range(0, 25))
	table := map[int64]tchg{}
	for q := int64(1); q <= head; q++ {
		if r.Chance(3, 4) {
			table[q] = tchg{seq: q, actor: uint64(r.Range(1, 3)), clear: r.Chance(1, 5), pay: int64(r.Intn(1000))}
		}
	}
	var tl []tchg
	for _, c := range table {
		tl = append(tl, c)
	}
	sort.Slice(tl, func(i, j int) bool { return tl[i].seq < tl[j].seq })
	// the table is handed to the model in a scrambled (but deterministic) order
	for x := len(tl) - 1; x > 0; x-- {
		y := r.Intn(x + 1)
		tl[x], tl[y] = tl[y], tl[x]
	}
	st := mongo.NewChangeStore()
	covered := map[int64]bool{} // what the store has been told is fetched (asked or expanded)
	present := map[int64]bool{}
	var ops []string
	nontriv := false
	nops := r.Range(1, 14)
	removed := false
	for j := 0; j < nops; j++ {
		k := r.Pick(6, 3, 2, 4, 1)
		if disciplined && k == 4 {
			k = 0
		}
		switch k {
		case 0: // EnsureChanges
			f := int64(r.Range(0, int(head)+3))
			t := f + int64(r.Range(-2, 12))
			if disciplined && t > head {
				// callers never ask beyond the head they read from the document row
				t = head
			}
			var asked [][2]int64
			// one Ensure in five runs with a fetcher whose (failAt+1)-th call fails (a storage error
			// in the middle of EnsureChanges); what was fetched before the failure stays, the
			// failing range and those after it must not count as fetched
			failAt := -1
			if r.Chance(1, 5) {
				failAt = r.Pick(4, 2, 1)
			}
			failed := false
			err := st.EnsureChanges(f, t, func(a, b int64) ([]*database.ChangeInfo, error) {
				asked = append(asked, [2]int64{a, b})
				if len(asked)-1 == failAt {
					failed = true
					return nil, fmt.Errorf("injected fetch failure")
				}
				var out []*database.ChangeInfo
				for q := a; q <= b; q++ {
					if c, ok := table[q]; ok {
						out = append(out, c.info())
					}
				}
				return out, nil
			})
			if failAt >= 0 {
				ops = append(ops, coqfmt.App("OEnsureFail", coqfmt.Z(f), coqfmt.Z(t), fmt.Sprint(failAt), coqfmt.Bool(err != nil), rangesCoq(asked)))
				res.count("op.ensure.failing-fetcher")
			} else {
				ops = append(ops, coqfmt.App("OEnsure", coqfmt.Z(f), coqfmt.Z(t), coqfmt.Bool(err != nil), rangesCoq(asked)))
			}
			res.count("op.ensure")
			if failed {
				res.count("op.ensure.fetch-failed")
				// only what was fetched before the failure is known to the store
				for _, a := range asked[:len(asked)-1] {
					for q := a[0]; q <= a[1]; q++ {
						covered[q] = true
						if _, ok := table[q]; ok {
							present[q] = true
						}
					}
				}
				break
			}
			if err != nil {
				res.count("op.ensure.invalid")
				break
			}
			if disciplined && !removed {
				hitCache := false
				for _, a := range asked {
					for q := a[0]; q <= a[1]; q++ {
						if covered[q] || present[q] {
							viol = append(viol, Violation{Kind: "refetch", Detail: fmt.Sprintf("fetcher asked for seq %d in [%d,%d] which was already covered", q, a[0], a[1])})
						}
					}
				}
				for q := f; q <= t; q++ {
					if covered[q] || present[q] {
						hitCache = true
					}
				}
				if hitCache {
					nontriv = true
					res.count("ensure.cache-hit")
				}
				got := infosToT(st.ChangesInRange(f, t))
				var want []tchg
				for q := f; q <= t; q++ {
					if c, ok := table[q]; ok {
						want = append(want, c)
					}
				}
				if fmt.Sprint(got) != fmt.Sprint(want) {
					viol = append(viol, Violation{Kind: "not-transparent", Detail: fmt.Sprintf("ChangesInRange(%d,%d) after Ensure = %v, table says %v", f, t, got, want)})
				}
			}
			for _, a := range asked {
				for q := a[0]; q <= a[1]; q++ {
					covered[q] = true
					if _, ok := table[q]; ok {
						present[q] = true
					}
				}
			}
		case 1: // push: new rows, insert then expand (CreateChangeInfos)
			if disciplined {
				k := int64(r.Range(1, 4))
				var ins []tchg
				for q := head + 1; q <= head+k; q++ {
					if r.Chance(2, 3) {
						c := tchg{seq: q, actor: uint64(r.Range(1, 3)), clear: r.Chance(1, 5), pay: int64(r.Intn(1000))}
						table[q] = c
						ins = append(ins, c)
						present[q] = true
					}
					covered[q] = true
				}
				infos := make([]*database.ChangeInfo, len(ins))
				for x, c := range ins {
					infos[x] = c.info()
				}
				st.ReplaceOrInsert(infos)
				st.ExpandRange(mongo.ChangeRange{From: head + 1, To: head + k})
				ops = append(ops, coqfmt.App("OGrow", chgsCoq(ins)), coqfmt.App("OInsert", chgsCoq(ins)), coqfmt.App("OExpand", coqfmt.Z(head+1), coqfmt.Z(head+k)))
				head += k
				res.count("op.push")
			} else {
				f := int64(r.Range(0, int(head)+3))
				t := f + int64(r.Range(-2, 8))
				st.ExpandRange(mongo.ChangeRange{From: f, To: t})
				ops = append(ops, coqfmt.App("OExpand", coqfmt.Z(f), coqfmt.Z(t)))
				res.count("op.expand")
			}
		case 2: // ReplaceOrInsert
			var ins []tchg
			n := r.Range(0, 4)
			for x := 0; x < n; x++ {
				q := int64(r.Range(1, int(head)+2))
				if disciplined {
					if c, ok := table[q]; ok {
						ins = append(ins, c)
						present[q] = true
					}
				} else {
					ins = append(ins, tchg{seq: q, actor: uint64(r.Range(1, 3)), clear: r.Bool(), pay: int64(r.Intn(1000))})
				}
			}
			infos := make([]*database.ChangeInfo, len(ins))
			for x, c := range ins {
				infos[x] = c.info()
			}
			st.ReplaceOrInsert(infos)
			ops = append(ops, coqfmt.App("OInsert", chgsCoq(ins)))
			res.count("op.insert")
		case 3: // ChangesInRange
			f := int64(r.Range(0, int(head)+3))
			t := f + int64(r.Range(-2, 12))
			got := infosToT(st.ChangesInRange(f, t))
			ops = append(ops, coqfmt.App("OQuery", coqfmt.Z(f), coqfmt.Z(t), chgsCoq(got)))
			res.count("op.query")
		case 4: // RemoveChangesByActor (presence store usage)
			a := uint64(r.Range(1, 3))
			st.RemoveChangesByActor(types.ID(fmt.Sprintf("%024x", a)))
			removed = true
			ops = append(ops, coqfmt.App("ORemoveActor", coqfmt.N(a)))
			res.count("op.remove-actor")
			for _, c := range infosToT(st.ChangesInRange(0, head+100)) {
				if c.actor == a && !c.clear {
					viol = append(viol, Violation{Kind: "remove-actor-left-item", Detail: fmt.Sprintf("seq %d of actor %d still present", c.seq, a)})
				}
			}
		}
	}
	final := infosToT(st.ChangesInRange(-5, head+100))
	return coqfmt.App("KStore", chgsCoq(tl), coqfmt.List(ops), chgsCoq(final)), nontriv, viol
}
