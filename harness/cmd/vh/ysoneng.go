package main

// Engine yson (property C18).
//
// Stream 1, reachable documents: two author documents edit all element types
// (objects with nested containers, arrays with moves, styled text, counters incl.
// dedup counters as object members and as direct array elements, trees with
// attributes) and exchange their changes.  For each final document d:
//   value path   y = FromCRDT(d); d' = SetYSON(y) on an empty Document;
//                FromCRDT(d') must marshal like y            (what packs.Compact does)
//   text path    s = y.Marshal(); Unmarshal(s) = y'; y'.Marshal() must equal s and
//                SetYSON(y') must reproduce y                (what revision restore does)
//   stability    the rebuilt document's own YSON rebuilds to itself again.
// Stream 2, generated literals: random YSON values (every primitive kind with
// extreme values, counters, texts with attributes, trees, nesting); strings are
// drawn from a benign alphabet or, in a separate stream, contain the constructor
// tokens and parentheses that the text parser rewrites (signature
// text_path_unsafe) — the value path must hold for all of them.
// Stream 3, revisions on a real server: create a revision, edit on, restore it:
// the document must show the content present at revision creation.
//
// Cases for Corr/Yson.v: plain strings with what Unmarshal made of them, and Long
// values with what came back through the float64 parse.

import (
	"context"
	"fmt"
	"math"
	"os"
	"path/filepath"
	"sort"
	"strings"
	gotime "time"

	"connectrpc.com/connect"

	"verifharness/internal/coqfmt"
	"verifharness/internal/hist"
	"verifharness/internal/rng"
	"verifharness/internal/sim"

	"github.com/yorkie-team/yorkie/api/types"
	api "github.com/yorkie-team/yorkie/api/yorkie/v1"
	"github.com/yorkie-team/yorkie/client"
	"github.com/yorkie-team/yorkie/pkg/document"
	"github.com/yorkie-team/yorkie/pkg/document/crdt"
	"github.com/yorkie-team/yorkie/pkg/document/json"
	"github.com/yorkie-team/yorkie/pkg/document/presence"
	"github.com/yorkie-team/yorkie/pkg/document/yson"
	"github.com/yorkie-team/yorkie/pkg/key"
	"github.com/yorkie-team/yorkie/server/packs"
)

func init() { register("yson", runYson) }

func ysonOf(d *document.Document) (yson.Object, string, error) {
	v, err := yson.FromCRDT(d.RootObject())
	if err != nil {
		return nil, "", err
	}
	y, ok := v.(yson.Object)
	if !ok {
		return nil, "", fmt.Errorf("root is %T", v)
	}
	s, err := y.Marshal()
	return y, s, err
}

func rebuild(y yson.Object) (d *document.Document, err error) {
	defer func() {
		if r := recover(); r != nil {
			err = fmt.Errorf("SetYSON panics: %v", r)
		}
	}()
	d = newDrained("rebuilt", 9)
	err = d.Update(func(r *json.Object, p *presence.Presence) error {
		r.SetYSON(y)
		return nil
	})
	return d, err
}

// checkValue runs the value path, the text path and the stability check on a YSON object.
func checkValue(y yson.Object, s string, fail func(kind, detail string)) bool {
	// value path
	d2, err := rebuild(y)
	if err != nil {
		fail("value-path-error", err.Error())
		return false
	}
	_, s2, err := ysonOf(d2)
	if err != nil {
		fail("value-path-error", err.Error())
		return false
	}
	if s2 != s {
		fail("value-roundtrip-differs", fmt.Sprintf("FromCRDT(SetYSON(y)) = %s but y = %s", trunc(s2, 400), trunc(s, 400)))
		return false
	}
	// text path
	var y3 yson.Object
	if err := func() (e error) {
		defer func() {
			if r := recover(); r != nil {
				e = fmt.Errorf("Unmarshal panics: %v", r)
			}
		}()
		return yson.Unmarshal(s, &y3)
	}(); err != nil {
		fail("text-roundtrip-differs", fmt.Sprintf("Unmarshal(Marshal(y)) fails: %v for %s", err, trunc(s, 300)))
		return false
	}
	s3, err := y3.Marshal()
	if err != nil || s3 != s {
		fail("text-roundtrip-differs", fmt.Sprintf("Marshal(Unmarshal(s)) = %s but s = %s (%v)", trunc(s3, 400), trunc(s, 400), err))
		return false
	}
	d4, err := rebuild(y3)
	if err != nil {
		fail("text-roundtrip-differs", "SetYSON of the parsed text: "+err.Error())
		return false
	}
	if _, s4, err := ysonOf(d4); err != nil || s4 != s {
		fail("text-roundtrip-differs", fmt.Sprintf("FromCRDT(SetYSON(Unmarshal(s))) = %s but s = %s", trunc(s4, 400), trunc(s, 400)))
		return false
	}
	return true
}

var benign = []string{"a", "bc", "hello world", "x y", "", "\U0001F600", "éè", "tab\tnew\nline", "q\"uote", "back\\slash", "Int", "Text", "(open"}
var unsafeStrs = []string{"a)", "Int(", "f(x)", "Text()", "Tree()", "Long(5)", "Counter(", "Date(\"", ")", "see (1)", "BinData(\""}

func genLiteral(r *rng.R, depth int, unsafeText *bool, noTypeKey bool) interface{} {
	str := func() string {
		if r.Chance(1, 12) {
			*unsafeText = true
			return unsafeStrs[r.Intn(len(unsafeStrs))]
		}
		return benign[r.Intn(len(benign))]
	}
	w := []int{3, 2, 2, 2, 3, 1, 1, 2, 2, 2, 1}
	if depth <= 0 {
		w[8], w[9] = 0, 0
	}
	switch r.Pick(w...) {
	case 0:
		return []int32{0, 1, -1, math.MaxInt32, math.MinInt32, 42}[r.Intn(6)]
	case 1:
		v := []int64{0, -1, 1 << 40, 1 << 53, (1 << 53) + 1, math.MaxInt64, math.MinInt64, -(1 << 53) - 1, 123456789012}[r.Intn(9)]
		if v > 1<<53 || v < -(1<<53) {
			*unsafeText = true
		}
		return v
	case 2:
		return []float64{0, 1.5, -2.25, 1e21, 1e-7, 3}[r.Intn(6)]
	case 3:
		return r.Bool()
	case 4:
		return str()
	case 5:
		return nil
	case 6:
		b := make([]byte, r.Intn(5))
		for i := range b {
			b[i] = byte(r.Intn(256))
		}
		return b
	case 7:
		switch r.Intn(2) {
		case 0:
			return yson.Counter{Type: crdt.IntegerCnt, Value: int32(r.Range(-5, 500))}
		default:
			return yson.Counter{Type: crdt.LongCnt, Value: int64(r.Range(-5, 500)) << 20}
		}
	case 8:
		n := r.Intn(4)
		o := yson.Object{}
		for i := 0; i < n; i++ {
			k := []string{"k1", "k2", "name", "a b", "ü", "type", "value", "val"}[r.Intn(8)]
			if k == "type" {
				if noTypeKey {
					k = "kind"
				} else {
					*unsafeText = true
				}
			}
			o[k] = genLiteral(r, depth-1, unsafeText, noTypeKey)
		}
		return o
	case 9:
		n := r.Intn(4)
		a := yson.Array{}
		for i := 0; i < n; i++ {
			a = append(a, genLiteral(r, depth-1, unsafeText, noTypeKey))
		}
		if len(a) == 0 {
			return yson.Array(nil)
		}
		return a
	default:
		if r.Bool() {
			n := 1 + r.Intn(3)
			t := yson.Text{}
			for i := 0; i < n; i++ {
				node := yson.TextNode{Value: []string{"ab", "c", "\U0001F600", "x y"}[r.Intn(4)]}
				if r.Bool() {
					node.Attributes = map[string]string{"b": "1"}
					if r.Bool() {
						node.Attributes["i"] = str()
					}
				}
				t.Nodes = append(t.Nodes, node)
			}
			return t
		}
		p := func(txt string, attrs map[string]string) yson.TreeNode {
			return yson.TreeNode{Type: "p", Attributes: attrs, Children: []yson.TreeNode{{Type: "text", Value: txt}}}
		}
		root := yson.TreeNode{Type: "doc", Children: []yson.TreeNode{p("ab", nil)}}
		if r.Bool() {
			root.Children = append(root.Children, p("cd", map[string]string{"b": str()}))
		}
		return yson.Tree{Root: root}
	}
}

func runYson(cfg *config) error {
	r := rng.New(cfg.seed)
	res := newResult("yson", cfg.seed)
	res.Rule = "one evaluation = one document or literal taken through the value path, the text path and the stability check, or one revision create/restore; non-trivial = distinct YSON texts"
	seen := distinct{}
	perKind := map[string]int{}
	viol := func(kind, detail string, replay any, sig map[string]any) {
		res.count("fail." + kind)
		pk := fmt.Sprintf("%s|%v|%v|%v", kind, sig["text_path_unsafe"], sig["flavor"], sig["dedup_counted"])
		if perKind[pk] < 2 && len(res.Violations) < 24 {
			perKind[pk]++
			res.Violations = append(res.Violations, Violation{Kind: kind, Detail: detail, Replay: replay, Sig: sig})
		}
	}
	flavors := []string{"object", "arraymove", "text", "counter", "tree", "treex", "mixed", "array"}
	// ---- stream 1: reachable documents ----
	nprog := cfg.n
	for i := 0; i < nprog; i++ {
		cr := r.Fork()
		flavor := flavors[i%len(flavors)]
		res.count("flavor." + flavor)
		authors := []*document.Document{newDrained("ysondoc", 1), newDrained("ysondoc", 2)}
		var sseq int64
		var steps []string
		_ = authors[0].Update(func(root *json.Object, p *presence.Presence) error {
			hist.SetupEdits(root, "oatcnx")
			root.SetNewDedupCounter("u")
			a := root.GetArray("a")
			a.AddNewCounter(crdt.IntegerDedupCnt, 0)
			a.AddNewObject().SetNewDedupCounter("uv")
			return nil
		})
		if err := ship(authors[0], authors[1], &sseq); err != nil {
			return err
		}
		nsteps := cr.Range(4, 24)
		abandoned := false
		for j := 0; j < nsteps && !abandoned; j++ {
			a := cr.Intn(2)
			switch cr.Pick(8, 3, 2) {
			case 0:
				var edits []hist.Edit
				for k := cr.Range(1, 3); k > 0; k-- {
					edits = append(edits, hist.GenEdit(cr, flavor))
				}
				steps = append(steps, fmt.Sprintf("U%d %v", a, edits))
				_, _ = hist.SafeUpdate(authors[a], edits, "")
			case 1:
				steps = append(steps, fmt.Sprintf("S%d", a))
				if err := ship(authors[a], authors[1-a], &sseq); err != nil {
					abandoned = true
				}
			case 2:
				who := fmt.Sprintf("user-%d", cr.Intn(6))
				steps = append(steps, fmt.Sprintf("dedup%d %s", a, who))
				_ = authors[a].Update(func(root *json.Object, p *presence.Presence) error {
					if c := root.GetCounter("u"); c != nil {
						c.Add(who)
					}
					if arr := root.GetArray("a"); arr != nil {
						for k := 0; k < arr.Len(); k++ {
							if c, ok := arr.Get(k).(*crdt.Counter); ok && c.IsDedup() && cr.Bool() {
								arr.GetCounter(k).Add(who)
								break
							}
						}
					}
					return nil
				})
			}
		}
		if abandoned {
			res.count("abandoned.author-apply-error")
			continue
		}
		for ai, d := range authors {
			y, s, err := ysonOf(d)
			res.Evaluations++
			replay := map[string]any{"seed": cfg.seed, "program": i, "flavor": flavor, "steps": steps, "author": ai, "yson": trunc(s, 2000)}
			sig := map[string]any{"flavor": flavor, "text_path_unsafe": false, "reachable": true}
			if err != nil {
				viol("export-error", fmt.Sprintf("program %d: FromCRDT/Marshal: %v", i, err), replay, sig)
				continue
			}
			seen.add(s)
			if checkValue(y, s, func(kind, detail string) {
				viol(kind, fmt.Sprintf("program %d (%s), author %d: %s", i, flavor, ai, detail), replay, sig)
			}) {
				res.count("reachable.ok")
			}
		}
		if len(res.Samples) < 2 {
			_, s, _ := ysonOf(authors[0])
			res.Samples = append(res.Samples, map[string]any{"flavor": flavor, "steps": steps, "yson": trunc(s, 600)})
		}
	}
	// ---- stream 2: generated literals ----
	var strCases, longCases []string
	for i := 0; i < cfg.n*4; i++ {
		cr := r.Fork()
		unsafeText := false
		o := yson.Object{}
		for k := cr.Range(1, 4); k > 0; k-- {
			o[fmt.Sprintf("m%d", k)] = genLiteral(cr, 3, &unsafeText, i%2 == 0)
		}
		s, err := o.Marshal()
		res.Evaluations++
		if err != nil {
			continue
		}
		seen.add(s)
		sig := map[string]any{"text_path_unsafe": unsafeText, "reachable": false}
		if checkValue(o, s, func(kind, detail string) {
			viol(kind, fmt.Sprintf("literal %d: %s", i, detail), map[string]any{"seed": cfg.seed, "literal": i, "yson": trunc(s, 2000)}, sig)
		}) {
			res.count(fmt.Sprintf("literal.ok.unsafe=%v", unsafeText))
		} else {
			res.count(fmt.Sprintf("literal.fail.unsafe=%v", unsafeText))
		}
	}
	// model cases: plain strings through the text parser
	alphabet := []string{"a", "b", ")", "}", " ", "c"}
	for i := 0; i < 120; i++ {
		n := r.Intn(7)
		var sb strings.Builder
		for k := 0; k < n; k++ {
			sb.WriteString(alphabet[r.Intn(len(alphabet))])
		}
		in := sb.String()
		var o yson.Object
		err := yson.Unmarshal(`{"k":"`+in+`"}`, &o)
		out, _ := o["k"].(string)
		res.Evaluations++
		strCases = append(strCases, fmt.Sprintf("(YStr %q%%string %s %q%%string)", in, coqfmt.Bool(err == nil), out))
	}
	for _, v := range []int64{0, 1, -1, 1 << 52, 1 << 53, 1<<53 + 1, 1<<53 + 2, 1<<53 + 3, 1<<54 + 1, 1<<54 + 2, 1<<54 + 3, 1<<60 + 1, 1<<60 + 129, 1<<61 + 255, 1<<61 + 256, 1<<61 + 257,
		-(1 << 53) - 1, -(1 << 53) - 3, -(1 << 60) - 129, 123456789012345678, 999999999999999999, 4611686018427387903, -4611686018427387903} {
		var o yson.Object
		err := yson.Unmarshal(fmt.Sprintf(`{"k":Long(%d)}`, v), &o)
		back, _ := o["k"].(int64)
		res.Evaluations++
		longCases = append(longCases, fmt.Sprintf("(YLong %s %s %s)", coqfmt.Z(v), coqfmt.Bool(err == nil), coqfmt.Z(back)))
	}
	for i := 0; i < 60; i++ {
		v := int64(r.U64()>>2) - (1 << 61)
		var o yson.Object
		err := yson.Unmarshal(fmt.Sprintf(`{"k":Long(%d)}`, v), &o)
		back, _ := o["k"].(int64)
		res.Evaluations++
		longCases = append(longCases, fmt.Sprintf("(YLong %s %s %s)", coqfmt.Z(v), coqfmt.Bool(err == nil), coqfmt.Z(back)))
	}
	// ---- stream 3: revisions on a real server ----
	if err := ysonRevisions(cfg, r.Fork(), res, viol, flavors); err != nil {
		return err
	}
	res.Nontrivial = len(seen)
	p1 := filepath.Join(cfg.out, "cases_yson_0.v")
	all := append(append([]string{}, strCases...), longCases...)
	if err := os.WriteFile(p1, []byte(coqfmt.File([]string{"From Coq Require Import String.", "From YV Require Import Codec.YsonText Corr.Common Corr.Yson."}, "ycase", "mismatches ycheck", all)), 0o644); err != nil {
		return err
	}
	res.CaseFiles = []string{p1}
	return res.write(cfg.out)
}

func ysonRevisions(cfg *config, r *rng.R, res *Result, viol func(string, string, any, map[string]any), flavors []string) error {
	ctx := context.Background()
	srv, err := sim.Start(cfg.out, sim.Options{})
	if err != nil {
		return err
	}
	defer srv.Stop()
	p, err := srv.NewProject(ctx, 0, 0)
	if err != nil {
		return err
	}
	ycl := yorkieCl(srv.Addr, hdr(types.APIKeyKey, p.PublicKey))
	n := cfg.n / 8
	if n < 6 {
		n = 6
	}
	for i := 0; i < n; i++ {
		cr := r.Fork()
		flavor := flavors[i%len(flavors)]
		if flavor == "treex" {
			flavor = "tree"
		}
		cli, err := client.Dial(srv.Addr, client.WithAPIKey(p.PublicKey))
		if err != nil {
			return err
		}
		if err := cli.Activate(ctx); err != nil {
			return err
		}
		dk := fmt.Sprintf("rev-%d-%d", cfg.seed, i)
		d := document.New(key.Key(dk))
		if err := cli.Attach(ctx, d); err != nil {
			return err
		}
		var steps []string
		edit := func(k int) {
			for ; k > 0; k-- {
				var edits []hist.Edit
				for m := cr.Range(1, 3); m > 0; m-- {
					edits = append(edits, hist.GenEdit(cr, flavor))
				}
				steps = append(steps, fmt.Sprint(edits))
				_, _ = hist.SafeUpdate(d, edits, "")
			}
		}
		counted := i%2 == 0 // dedup counters that have counted somebody
		_ = d.Update(func(root *json.Object, pr *presence.Presence) error {
			hist.SetupEdits(root, "oatcnx")
			u := root.SetNewDedupCounter("u")
			ac := root.GetArray("a").AddNewCounter(crdt.IntegerDedupCnt, 0)
			if counted {
				u.Add("u1").Add("u2")
				ac.Add("u1")
			}
			return nil
		})
		edit(cr.Range(2, 8))
		if err := cli.Sync(ctx); err != nil {
			return err
		}
		_, want, err := ysonOf(d)
		if err != nil {
			return err
		}
		info, err := srv.Be.DB.FindDocInfoByKey(ctx, p.ID, key.Key(dk))
		if err != nil {
			return err
		}
		res.Evaluations++
		replay := map[string]any{"seed": cfg.seed, "revision_program": i, "flavor": flavor, "steps": steps, "content_at_revision": trunc(want, 1500)}
		sig := map[string]any{"flavor": flavor, "text_path_unsafe": false, "reachable": true, "revision": true, "dedup_counted": counted}
		rev, err := ycl.CreateRevision(ctx, connect.NewRequest(&api.CreateRevisionRequest{ClientId: cli.ID().String(), DocumentId: info.ID.String(), Label: fmt.Sprintf("r%d", i)}))
		if err != nil {
			viol("revision-create-error", fmt.Sprintf("revision program %d (%s): %v", i, flavor, err), replay, sig)
			_ = cli.Close()
			continue
		}
		steps = append(steps, "-- revision --")
		edit(cr.Range(1, 5))
		if err := cli.Sync(ctx); err != nil {
			return err
		}
		if _, err := ycl.RestoreRevision(ctx, connect.NewRequest(&api.RestoreRevisionRequest{ClientId: cli.ID().String(), DocumentId: info.ID.String(), RevisionId: rev.Msg.Revision.Id})); err != nil {
			viol("revision-restore-error", fmt.Sprintf("revision program %d (%s): %v", i, flavor, err), replay, sig)
			_ = cli.Close()
			continue
		}
		srv.Be.WaitBackgroundIdleForVerif()
		gotime.Sleep(5 * gotime.Millisecond)
		if err := cli.Sync(ctx); err != nil {
			viol("revision-restore-error", fmt.Sprintf("revision program %d (%s): sync after restore: %v", i, flavor, err), replay, sig)
			_ = cli.Close()
			continue
		}
		_, got, _ := ysonOf(d)
		if got != want {
			viol("revision-restore-differs", fmt.Sprintf("revision program %d (%s): after RestoreRevision the document shows %s but held %s when the revision was created", i, flavor, trunc(got, 400), trunc(want, 400)), replay, sig)
		} else {
			res.count("revision.ok")
		}
		// compaction: more edits, detach, compact, rebuild from the compacted log
		edit(cr.Range(1, 4))
		if counted {
			_ = d.Update(func(root *json.Object, pr *presence.Presence) error {
				if c := root.GetCounter("u"); c != nil {
					c.Add("u7").Add("u8")
				}
				return nil
			})
		}
		if err := cli.Sync(ctx); err != nil {
			_ = cli.Close()
			continue
		}
		_, before, _ := ysonOf(d)
		if err := cli.Detach(ctx, d); err != nil {
			_ = cli.Close()
			continue
		}
		res.Evaluations++
		info, err = srv.Be.DB.FindDocInfoByKey(ctx, p.ID, key.Key(dk))
		if err == nil {
			cerr := packs.Compact(ctx, srv.Be, p.ID, info, false)
			if cerr != nil {
				viol("compaction-error", fmt.Sprintf("revision program %d (%s): packs.Compact: %v", i, flavor, cerr), replay, sig)
			} else if info2, err := srv.Be.DB.FindDocInfoByKey(ctx, p.ID, key.Key(dk)); err == nil {
				if idoc, err := packs.BuildInternalDocForServerSeq(ctx, srv.Be, info2, info2.ServerSeq); err == nil {
					v, _ := yson.FromCRDT(idoc.RootObject())
					after, _ := v.(yson.Object).Marshal()
					if after != before {
						viol("compaction-changes-content", fmt.Sprintf("revision program %d (%s): the document rebuilt from the compacted log shows %s but showed %s before compaction", i, flavor, trunc(after, 400), trunc(before, 400)), replay, sig)
					} else {
						res.count("compaction.ok")
					}
				}
			}
		}
		_ = cli.Close()
	}
	return nil
}

var _ = sort.Strings
