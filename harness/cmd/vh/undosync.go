package main

// Engine undosync (property C15): exhaustive small-scope histories of two clients
// with undo/redo, executed on real Documents that talk to a minimal in-process
// server (dense log, per-client checkpoints, own changes filtered out of the
// pull, minimum version vector of the clients' last reported vectors sent back so
// that the clients garbage-collect exactly as with a real server).
//
// A history is a sequence over {edit e by c, undo by c, redo by c, sync c} with at
// most 3 edits per client, at most 2 undo/redo calls in total, at least one undo,
// and length <= L; every such sequence is run (the first step is always client
// 0's, the two clients being symmetric), followed by quiescent sync rounds; all
// replicas must then marshal identically, clone == root on both, and no call may
// fail.  Larger random histories with undo/redo run on the real server through
// the hist engine (mode C15).

import (
	"google.golang.org/protobuf/proto"
	"sort"

	"fmt"
	"github.com/yorkie-team/yorkie/api/converter"
	api "github.com/yorkie-team/yorkie/api/yorkie/v1"
	"runtime/debug"
	"strings"

	"verifharness/internal/hist"

	"github.com/yorkie-team/yorkie/pkg/document"
	"github.com/yorkie-team/yorkie/pkg/document/change"
	"github.com/yorkie-team/yorkie/pkg/document/crdt"
	"github.com/yorkie-team/yorkie/pkg/document/json"
	"github.com/yorkie-team/yorkie/pkg/document/operations"
	"github.com/yorkie-team/yorkie/pkg/document/presence"
	"github.com/yorkie-team/yorkie/pkg/document/time"
)

func init() { register("undosync", runUndoSync) }

type miniServer struct {
	log   []*change.Change
	wire  [][]byte // the same changes as encoded when they were pushed
	vvs   map[int]time.VersionVector
	reuse bool // some pushed change re-uses an identity (Set restoring an old createdAt, restore edits)
	noGC  bool // never tell the clients a minimum vector (nothing is ever purged)
}

func (m *miniServer) sync(i int, d *document.Document) error {
	p := d.CreateChangePack()
	for _, c := range p.Changes {
		c.SetServerSeq(int64(len(m.log) + 1))
		m.log = append(m.log, c)
		pbs, err := converter.ToChanges([]*change.Change{c})
		if err != nil {
			return fmt.Errorf("mini server: encode: %w", err)
		}
		raw, err := proto.Marshal(pbs[0])
		if err != nil {
			return fmt.Errorf("mini server: marshal: %w", err)
		}
		m.wire = append(m.wire, raw)
		for _, op := range c.Operations() {
			switch o := op.(type) {
			case *operations.Set:
				if o.Value() != nil && o.Value().CreatedAt() != nil && o.ExecutedAt() != nil && o.Value().CreatedAt().Compare(o.ExecutedAt()) != 0 {
					m.reuse = true
				}
			case *operations.Edit:
				if o.RestoreMode() != crdt.RestoreModeNone {
					m.reuse = true
				}
			case *operations.TreeEdit:
				if o.RestoreMode() != crdt.RestoreModeNone {
					m.reuse = true
				}
			}
		}
	}
	if p.VersionVector != nil {
		m.vvs[i] = p.VersionVector.DeepCopy()
	} else {
		m.vvs[i] = d.VersionVector().DeepCopy()
	}
	// every receiver gets its own decoded copy of what was pushed, as over the wire: the author's
	// change objects (and the elements inside their operations) are not shared between replicas
	var pulled []*change.Change
	from := d.Checkpoint().ServerSeq
	var bs []*api.Change
	var seqs []int64
	for k, c := range m.log {
		if c.ServerSeq() > from && c.ID().ActorID() != d.ActorID() {
			cp := &api.Change{}
			if err := proto.Unmarshal(m.wire[k], cp); err != nil {
				return fmt.Errorf("mini server: unmarshal: %w", err)
			}
			bs = append(bs, cp)
			seqs = append(seqs, c.ServerSeq())
		}
	}
	if len(bs) > 0 {
		var err error
		if pulled, err = converter.FromChanges(bs); err != nil {
			return fmt.Errorf("mini server: decode: %w", err)
		}
		for k, c := range pulled {
			c.SetServerSeq(seqs[k])
		}
	}
	var vs []time.VersionVector
	for _, v := range m.vvs {
		vs = append(vs, v)
	}
	minVV := time.MinVersionVector(vs...)
	if m.noGC {
		minVV = nil
	}
	resp := change.NewPack(d.Key(), change.NewCheckpoint(int64(len(m.log)), p.Checkpoint.ClientSeq), pulled, minVV, nil)
	return d.ApplyChangePack(resp)
}

type usStep struct {
	k string // e z y s
	c int
	e int
}

func (s usStep) String() string {
	switch s.k {
	case "e":
		return fmt.Sprintf("U%d#%d", s.c, s.e)
	case "z":
		return fmt.Sprintf("Z%d", s.c)
	case "y":
		return fmt.Sprintf("Y%d", s.c)
	case "q":
		return "Q"
	}
	return fmt.Sprintf("S%d", s.c)
}

var usEdits = map[string][][]hist.Edit{
	"object":    {{{K: "oset", Key: "k1", V: 7}}, {{K: "odel", Key: "k1"}}, {{K: "oset", Key: "k2", V: 9}}},
	"array":     {{{K: "ains", I: 0, V: 5}}, {{K: "adel", I: 0}}, {{K: "aadd", V: 8}}},
	"text":      {{{K: "tedit", I: 1, J: 0, S: "x"}}, {{K: "tedit", I: 0, J: 1, S: ""}}, {{K: "tedit", I: 1, J: 1, S: "yz"}}, {{K: "tedit", I: 0, J: 2, S: ""}}},
	"counter":   {{{K: "cinc", V: 3}}, {{K: "ninc", V: -2}}},
	"tree":      {{{K: "xtxt", I: 1, S: "e"}}, {{K: "xdel", I: 1, J: 1, V: 1}}, {{K: "xelm", I: 1, S: "k"}}},
	"arraymove": {{{K: "amov", I: 0, J: 1}}, {{K: "adel", I: 1}}, {{K: "ains", I: 1, V: 4}}},
	// object members that are containers with content of their own: deleting one and undoing the
	// deletion has to bring the content back on every replica
	"members": {{{K: "otext", Key: "k1", S: "ab"}}, {{K: "odel", Key: "k1"}}, {{K: "oarr", Key: "k1", V: 5}}},
	// one update with a text edit and an object edit (a history entry of two operations), and the
	// deletion of what that text edit typed; histories of this flavor are one step longer in the quick
	// tier: type + set, quiescence, the peer deletes, two syncs, undo
	"mixed2": {{{K: "tedit", I: 1, J: 0, S: "x"}, {K: "oset", Key: "k2", V: 9}}, {{K: "tedit", I: 1, J: 1, S: ""}}},
}

func runUSHistory(flavor string, steps []usStep) (kind, detail string, reuse bool) {
	kind, detail, reuse, _ = runUSHistoryGC(flavor, steps, false)
	return
}

func usSig(flavor string, steps []usStep, finals [2]string, reuse bool) map[string]any {
	g, o := usSignature(flavor, append([]usStep{}, steps...), finals)
	// did both clients edit (or undo/redo)?  Finding P20 needs another client that names the
	// re-used identity; a history in which one client does everything and the other only syncs
	// is not an instance of it
	acted := map[int]bool{}
	for _, st := range steps {
		if st.k == "e" || st.k == "z" || st.k == "y" {
			acted[st.c] = true
		}
	}
	return map[string]any{"flavor": flavor, "reuses_identity": reuse, "gc_only": g, "order_only": o, "concurrent_editor": len(acted) > 1}
}

// usSignature: does the failure need garbage collection at all, and do the replicas hold the same
// pieces in a different order? (the facts finding P4 is recognised by)
func usSignature(flavor string, steps []usStep, finals [2]string) (gcOnly, orderOnly bool) {
	k2, _, _, _ := runUSHistoryGC(flavor, steps, true)
	gcOnly = k2 == ""
	canon := func(s string) string {
		b := []byte(s)
		sort.Slice(b, func(i, j int) bool { return b[i] < b[j] })
		return string(b)
	}
	orderOnly = finals[0] != finals[1] && canon(finals[0]) == canon(finals[1])
	return
}

func runUSHistoryGC(flavor string, steps []usStep, noGC bool) (kind, detail string, reuse bool, finals [2]string) {
	srv := &miniServer{vvs: map[int]time.VersionVector{}, noGC: noGC}
	// a panic inside the SDK (Document.GarbageCollect panics on a failed purge) is a verdict on the
	// history, not the end of the enumeration
	defer func() {
		if p := recover(); p != nil {
			kind, detail, reuse = "client-panic", fmt.Sprintf("%v at %s", p, panicSite(string(debug.Stack()))), srv.reuse
		}
	}()
	docs := []*document.Document{newDrained("us", 1), newDrained("us", 2)}
	_ = docs[0].Update(func(root *json.Object, p *presence.Presence) error {
		hist.SetupEdits(root, "oatcnx")
		o := root.GetObject("o")
		o.SetInteger("k1", 1)
		a := root.GetArray("a")
		a.AddInteger(1)
		a.AddInteger(2)
		root.GetText("t").Edit(0, 0, "ab")
		return nil
	})
	_ = docs[0].ClearHistory()
	if err := srv.sync(0, docs[0]); err != nil {
		return "harness", err.Error(), false, finals
	}
	if err := srv.sync(1, docs[1]); err != nil {
		return "harness", err.Error(), false, finals
	}
	if err := srv.sync(0, docs[0]); err != nil {
		return "harness", err.Error(), false, finals
	}
	for i, st := range steps {
		d := docs[st.c]
		switch st.k {
		case "e":
			if err, _ := hist.SafeUpdate(d, usEdits[flavor][st.e], ""); err != nil {
				return "update-error", fmt.Sprintf("step %d %v: %v", i, st, err), srv.reuse, finals
			}
		case "z":
			if !d.CanUndo() {
				return "skip", "", false, finals
			}
			if err, p, _ := safely(func() error { return d.Undo() }); err != nil {
				return "undo-failed", fmt.Sprintf("step %d %v: %v (panic=%v)", i, st, err, p), srv.reuse, finals
			}
		case "y":
			if !d.CanRedo() {
				return "skip", "", false, finals
			}
			if err, p, _ := safely(func() error { return d.Redo() }); err != nil {
				return "redo-failed", fmt.Sprintf("step %d %v: %v (panic=%v)", i, st, err, p), srv.reuse, finals
			}
		case "s":
			if err := srv.sync(st.c, d); err != nil {
				return "sync-error", fmt.Sprintf("step %d %v: %v", i, st, err), srv.reuse, finals
			}
		case "q":
			// everybody syncs until nothing moves: all garbage that can be collected is collected
			for round := 0; round < 3; round++ {
				for c := 0; c < 2; c++ {
					if err := srv.sync(c, docs[c]); err != nil {
						return "sync-error", fmt.Sprintf("step %d quiescence, client %d: %v", i, c, err), srv.reuse, finals
					}
				}
			}
		}
		if d.Root().Marshal() != d.Marshal() {
			return "clone-differs", fmt.Sprintf("after step %d %v: Root() = %s, Marshal() = %s", i, st, trunc(d.Root().Marshal(), 200), trunc(d.Marshal(), 200)), srv.reuse, finals
		}
	}
	for round := 0; round < 3; round++ {
		for c := 0; c < 2; c++ {
			if err := srv.sync(c, docs[c]); err != nil {
				return "sync-error", fmt.Sprintf("quiescent round %d client %d: %v", round, c, err), srv.reuse, finals
			}
		}
	}
	for c := 0; c < 2; c++ {
		if docs[c].Root().Marshal() != docs[c].Marshal() {
			return "clone-differs", fmt.Sprintf("client %d at the end: Root() = %s, Marshal() = %s", c, trunc(docs[c].Root().Marshal(), 200), trunc(docs[c].Marshal(), 200)), srv.reuse, finals
		}
	}
	finals = [2]string{docs[0].Marshal(), docs[1].Marshal()}
	if docs[0].Marshal() != docs[1].Marshal() {
		return "diverged", fmt.Sprintf("client 0: %s  vs client 1: %s", trunc(docs[0].Marshal(), 300), trunc(docs[1].Marshal(), 300)), srv.reuse, finals
	}
	if docs[0].GarbageLen() != docs[1].GarbageLen() {
		return "garbage-differs", fmt.Sprintf("GarbageLen %d vs %d after quiescence", docs[0].GarbageLen(), docs[1].GarbageLen()), srv.reuse, finals
	}
	return "", "", srv.reuse, finals
}

func runUndoSync(cfg *config) error {
	res := newResult("undosync", cfg.seed)
	x := parseX(cfg.extra)
	maxLen := 5
	if cfg.tier == "thorough" {
		maxLen = 6
	}
	if v := x["len"]; v != "" {
		fmt.Sscanf(v, "%d", &maxLen)
	}
	flavors := []string{"object", "array", "text", "counter", "tree", "arraymove", "members", "mixed2"}
	if f := x["flavor"]; f != "" {
		flavors = strings.Split(f, "+")
	}
	res.Rule = fmt.Sprintf("one evaluation = one history run to quiescence; exhaustive: every sequence over {edit, undo, redo, sync} x 2 clients (plus at most one full quiescence step) of length <= %d with <= 3 edits per client, <= 2 undo/redo, >= 1 undo, first step by client 0, per flavor", maxLen)
	perKind := map[string]int{}
	globalMaxLen := maxLen
	for _, flavor := range flavors {
		ne := len(usEdits[flavor])
		maxLen := globalMaxLen
		if flavor == "mixed2" && maxLen < 6 {
			maxLen = 6
		}
		var cur []usStep
		usedQ := false
		var rec func(edits [2]int, ur int, hasUndo bool)
		rec = func(edits [2]int, ur int, hasUndo bool) {
			if len(cur) > 0 && hasUndo {
				kind, detail, reuse, finals := runUSHistoryGC(flavor, cur, false)
				if kind != "skip" {
					res.Evaluations++
					res.count("flavor." + flavor)
					if kind != "" {
						res.count("fail." + kind + "." + flavor)
						pk := kind + "|" + flavor + fmt.Sprint(reuse)
						if perKind[pk] < 2 && len(res.Violations) < 24 {
							perKind[pk]++
							var ss []string
							for _, s := range cur {
								ss = append(ss, s.String())
							}
							res.Violations = append(res.Violations, Violation{Kind: kind,
								Detail: fmt.Sprintf("%s history %s: %s", flavor, strings.Join(ss, " "), detail),
								Replay: map[string]any{"flavor": flavor, "steps": ss},
								Sig:    usSig(flavor, cur, finals, reuse)})
						}
					}
				} else {
					return // an undo/redo that cannot be called: no extension of this prefix is valid either
				}
			}
			if len(cur) >= maxLen {
				return
			}
			if !usedQ && len(cur) > 0 && cur[len(cur)-1].k != "s" {
				usedQ = true
				cur = append(cur, usStep{"q", 0, 0})
				rec(edits, ur, hasUndo)
				cur = cur[:len(cur)-1]
				usedQ = false
			}
			for c := 0; c < 2; c++ {
				if len(cur) == 0 && c == 1 {
					continue
				}
				if edits[c] < 3 {
					for e := 0; e < ne; e++ {
						cur = append(cur, usStep{"e", c, e})
						ed := edits
						ed[c]++
						rec(ed, ur, hasUndo)
						cur = cur[:len(cur)-1]
					}
				}
				if ur < 2 && edits[c] > 0 {
					cur = append(cur, usStep{"z", c, 0})
					rec(edits, ur+1, true)
					cur = cur[:len(cur)-1]
					if hasUndo {
						cur = append(cur, usStep{"y", c, 0})
						rec(edits, ur+1, hasUndo)
						cur = cur[:len(cur)-1]
					}
				}
				if len(cur) > 0 && !(cur[len(cur)-1].k == "s" && cur[len(cur)-1].c == c) {
					cur = append(cur, usStep{"s", c, 0})
					rec(edits, ur, hasUndo)
					cur = cur[:len(cur)-1]
				}
			}
		}
		rec([2]int{}, 0, false)
	}
	res.Nontrivial = res.Evaluations
	return res.write(cfg.out)
}
