package main

// Engine locks (property C16).
//
// Part 1, translator: lockscan extracts the lock-acquisition sequence of every RPC
// handler and background task from /repo's sources; every sequence becomes a
// case for Corr/Locks.v, which checks the premise of the deadlock-freedom theorem
// (strictly increasing class ranks doc < pull < attachment < push < snapshot <
// watch among the blocking acquisitions).
// Part 2, workload (in a child process built with the race detector): N real SDK
// clients x M documents on a real in-process server with tiny snapshot settings,
// every client in its own goroutine doing attach / edit / sync / watch / detach /
// deactivate / re-activate in random order, while other goroutines run
// compaction and the housekeeping passes (deactivation of inactive clients,
// compaction candidates).  Oracles: every call returns within a bound (else the
// goroutine dump is the evidence), no error that is not an expected refusal, the
// race detector stays silent, and after the workload every document converges on
// the clients still attached and its change log is dense and totally ordered.

import (
	"bytes"
	"context"
	"encoding/json"
	"fmt"
	"os"
	"os/exec"
	"path/filepath"
	"runtime"
	"strings"
	"sync"
	"sync/atomic"
	gotime "time"

	"verifharness/internal/coqfmt"
	"verifharness/internal/hist"
	"verifharness/internal/rng"
	"verifharness/internal/sim"

	"github.com/yorkie-team/yorkie/api/types"
	"github.com/yorkie-team/yorkie/client"
	"github.com/yorkie-team/yorkie/pkg/document"
	yjson2 "github.com/yorkie-team/yorkie/pkg/document/json"
	"github.com/yorkie-team/yorkie/pkg/document/presence"
	"github.com/yorkie-team/yorkie/pkg/key"
	"github.com/yorkie-team/yorkie/server/backend/database"
	"github.com/yorkie-team/yorkie/server/clients"
	"github.com/yorkie-team/yorkie/server/documents"
	"github.com/yorkie-team/yorkie/server/logging"
	"github.com/yorkie-team/yorkie/server/packs"
)

func init() {
	register("lockscan", runLockScanOnly)
	register("locks", runLocks)
	register("locksworker", runLocksWorker)
}

func repoOf(cfg *config) string {
	if r := parseX(cfg.extra)["repo"]; r != "" {
		return r
	}
	return "/repo"
}

func runLockScanOnly(cfg *config) error {
	seqs, err := lockSequences(repoOf(cfg))
	if err != nil {
		return err
	}
	b, _ := json.MarshalIndent(seqs, "", " ")
	fmt.Println(string(b))
	return nil
}

type workerReport struct {
	Ops       int            `json:"ops"`
	Dist      map[string]int `json:"dist"`
	Problems  []string       `json:"problems"`
	Converged int            `json:"converged_docs"`
}

func runLocks(cfg *config) error {
	res := newResult("locks", cfg.seed)
	res.Rule = "one evaluation = one handler's extracted lock sequence, or one client call of the parallel workload; non-trivial = distinct handlers with at least one lock, plus workload calls"
	seqs, err := lockSequences(repoOf(cfg))
	if err != nil {
		return err
	}
	var cases []string
	for _, s := range seqs {
		var items []string
		for _, e := range s.Seq {
			cm := strings.SplitN(strings.SplitN(e, "@", 2)[0], "/", 2)
			mode := map[string]string{"W": "LW", "R": "LR", "T": "LT"}[cm[1]]
			items = append(items, fmt.Sprintf("(%s, %s)", cm[0], mode))
		}
		cases = append(cases, fmt.Sprintf("(LockSeq %q%%string %s)", s.Entry, coqfmt.List(items)))
		res.CaseIndex = append(res.CaseIndex, s)
		res.Evaluations++
		res.count("handlers-with-locks")
	}
	if len(seqs) < 8 {
		res.Violations = append(res.Violations, Violation{Kind: "translator", Detail: fmt.Sprintf("lockscan found only %d entry points with locks: the sources no longer look the way the translator expects", len(seqs))})
	}
	res.Samples = append(res.Samples, seqs)
	// workload in a race-enabled child
	self, err := os.Executable()
	if err != nil {
		return err
	}
	dur := 12
	if cfg.tier == "thorough" {
		dur = 120
	}
	if v := parseX(cfg.extra)["dur"]; v != "" {
		fmt.Sscanf(v, "%d", &dur)
	}
	outDir := filepath.Join(cfg.out, "worker")
	_ = os.MkdirAll(outDir, 0o755)
	cmd := exec.Command(self, "locksworker", "-seed", fmt.Sprint(cfg.seed), "-n", fmt.Sprint(dur), "-out", outDir)
	var stderr bytes.Buffer
	cmd.Stderr = &stderr
	cmd.Stdout = &stderr
	cmd.Env = append(os.Environ(), "GORACE=halt_on_error=0 exitcode=66 history_size=3")
	runErr := cmd.Run()
	se := stderr.String()
	var rep workerReport
	if b, err := os.ReadFile(filepath.Join(outDir, "worker.json")); err == nil {
		_ = json.Unmarshal(b, &rep)
	}
	res.Evaluations += rep.Ops
	for k, v := range rep.Dist {
		res.Dist["workload."+k] = v
	}
	res.Dist["workload.converged-docs"] = rep.Converged
	if i := strings.Index(se, "WARNING: DATA RACE"); i >= 0 {
		rpt := se[i:]
		if j := strings.Index(rpt, "=================="); j > 0 {
			rpt = rpt[:j]
		}
		res.Violations = append(res.Violations, Violation{Kind: "data-race", Detail: "the race detector reported: " + trunc(strings.Join(strings.Fields(raceSummary(rpt)), " "), 700),
			Replay: map[string]any{"seed": cfg.seed, "duration_s": dur, "report": trunc(rpt, 6000)}, Sig: map[string]any{"site": raceSite(rpt)}})
		res.Dist["workload.race-reports"] = strings.Count(se, "WARNING: DATA RACE")
	}
	for _, p := range rep.Problems {
		if len(res.Violations) < 10 {
			res.Violations = append(res.Violations, Violation{Kind: "workload", Detail: p, Replay: map[string]any{"seed": cfg.seed, "duration_s": dur}})
		}
	}
	if rep.Ops == 0 {
		res.Violations = append(res.Violations, Violation{Kind: "workload", Detail: fmt.Sprintf("the workload child did not report (exit: %v): %s", runErr, trunc(se, 1500)), Replay: map[string]any{"seed": cfg.seed}})
	}
	res.Nontrivial = len(seqs) + rep.Ops
	p1 := filepath.Join(cfg.out, "cases_locks_0.v")
	if err := os.WriteFile(p1, []byte(coqfmt.File([]string{"From Coq Require Import String.", "From YV Require Import Corr.Locks."}, "lockcase", "mismatches lockcheck", cases)), 0o644); err != nil {
		return err
	}
	res.CaseFiles = []string{p1}
	return res.write(cfg.out)
}

// raceSummary keeps the two conflicting accesses of a race report.
func raceSummary(rpt string) string {
	var keep []string
	lines := strings.Split(rpt, "\n")
	for i, l := range lines {
		t := strings.TrimSpace(l)
		if strings.HasPrefix(t, "Write at") || strings.HasPrefix(t, "Read at") || strings.HasPrefix(t, "Previous write at") || strings.HasPrefix(t, "Previous read at") {
			keep = append(keep, t)
			if i+2 < len(lines) {
				keep = append(keep, strings.TrimSpace(lines[i+1]), strings.TrimSpace(lines[i+2]))
			}
		}
	}
	return strings.Join(keep, " | ")
}

func raceSite(rpt string) string {
	for _, l := range strings.Split(rpt, "\n") {
		t := strings.TrimSpace(l)
		if strings.Contains(t, "github.com/yorkie-team/yorkie/") && strings.Contains(t, "(") {
			if k := strings.LastIndex(t, "/"); k >= 0 {
				t = t[k+1:]
			}
			if k := strings.Index(t, "("); k > 0 {
				t = t[:k]
			}
			return t
		}
	}
	return "?"
}

// ---------------------------------------------------------------- worker

func runLocksWorker(cfg *config) error {
	_ = logging.SetLogLevel("error")
	dur := gotime.Duration(cfg.n) * gotime.Second
	ctx := context.Background()
	srv, err := sim.Start(cfg.out, sim.Options{})
	if err != nil {
		return err
	}
	defer srv.Stop()
	p, err := srv.NewProject(ctx, 3, 4)
	if err != nil {
		return err
	}
	rep := workerReport{Dist: map[string]int{}}
	var mu sync.Mutex
	count := func(k string) { mu.Lock(); rep.Dist[k]++; rep.Ops++; mu.Unlock() }
	problem := func(s string) {
		mu.Lock()
		if len(rep.Problems) < 8 || strings.HasPrefix(s, "document ") {
			rep.Problems = append(rep.Problems, s)
		}
		mu.Unlock()
	}
	// an unexpected server error: look at the document's stored state right away
	var diagnosed atomic.Bool
	diagnose := func(d int, what string) {
		if !diagnosed.CompareAndSwap(false, true) {
			return
		}
		info, err := srv.Be.DB.FindDocInfoByKey(ctx, p.ID, key.Key(fmt.Sprintf("locks-%d-%d", cfg.seed, d)))
		if err != nil || info == nil {
			return
		}
		_, berr := packs.BuildInternalDocForServerSeq(ctx, srv.Be, info, info.ServerSeq)
		problem(fmt.Sprintf("document %d right after %s: rebuild at head %d (epoch %d): %v; %s", d, what, info.ServerSeq, info.Epoch, berr, rebuildDiagnosis(ctx, srv, info)))
	}
	const nClients, nDocs = 8, 3
	stop := make(chan struct{})
	var stopped atomic.Bool
	// a call that does not return within the bound is a hang: dump the goroutines once
	var dumped atomic.Bool
	guarded := func(what string, f func(ctx context.Context) error) error {
		done := make(chan error, 1)
		cctx, cancel := context.WithTimeout(ctx, 40*gotime.Second)
		defer cancel()
		go func() { done <- f(cctx) }()
		select {
		case err := <-done:
			return err
		case <-gotime.After(30 * gotime.Second):
			if dumped.CompareAndSwap(false, true) {
				buf := make([]byte, 1<<20)
				n := runtime.Stack(buf, true)
				_ = os.WriteFile(filepath.Join(cfg.out, "goroutines.txt"), buf[:n], 0o644)
			}
			problem(fmt.Sprintf("%s did not return within 30 s (goroutine dump in goroutines.txt): request hangs", what))
			return fmt.Errorf("hang")
		}
	}
	expected := func(err error) bool {
		if err == nil {
			return true
		}
		s := err.Error()
		for _, ok := range []string{"not attached", "already attached", "not activated", "client not activated", "document not attached", "context canceled",
			"already connected", "not found", "removed", "hang", "mismatch", "deactivated"} {
			if strings.Contains(s, ok) {
				return true
			}
		}
		return false
	}
	var wg sync.WaitGroup
	type slot struct {
		cli  *client.Client
		docs [nDocs]*document.Document
	}
	slots := make([]*slot, nClients)
	newClient := func(i int) (*client.Client, error) {
		c, err := client.Dial(srv.Addr, client.WithAPIKey(p.PublicKey))
		if err != nil {
			return nil, err
		}
		return c, guarded("Activate", func(ctx context.Context) error { return c.Activate(ctx) })
	}
	for i := 0; i < nClients; i++ {
		wg.Add(1)
		go func(i int) {
			defer wg.Done()
			defer func() {
				if r := recover(); r != nil {
					problem(fmt.Sprintf("client goroutine %d panicked: %v", i, r))
				}
			}()
			r := rng.New(cfg.seed*101 + uint64(i))
			c, err := newClient(i)
			if err != nil {
				problem("activate: " + err.Error())
				return
			}
			s := &slot{cli: c}
			slots[i] = s
			for !stopped.Load() {
				d := r.Intn(nDocs)
				switch r.Pick(3, 8, 6, 2, 1, 1) {
				case 0: // attach
					if s.docs[d] == nil {
						doc := document.New(key.Key(fmt.Sprintf("locks-%d-%d", cfg.seed, d)))
						go func() { // an application that never reads Events() blocks its own document
							for range doc.Events() {
							}
						}()
						opts := []interface{}{}
						if r.Bool() {
							opts = append(opts, client.WithRealtimeSync())
						}
						err := guarded("Attach", func(ctx context.Context) error { return s.cli.Attach(ctx, doc, opts...) })
						count("attach")
						if err == nil {
							s.docs[d] = doc
						} else if !expected(err) {
							problem("Attach: " + err.Error())
							diagnose(d, "Attach: "+err.Error())
						}
					}
				case 1: // edit
					if doc := s.docs[d]; doc != nil {
						_ = doc.Update(func(root *yjson2.Object, pr *presence.Presence) error {
							if root.GetCounter("n") == nil {
								hist.SetupEdits(root, "cn")
							}
							root.GetCounter("n").Increase(1)
							if r.Chance(1, 3) {
								if root.GetArray("a") == nil {
									root.SetNewArray("a")
								}
								root.GetArray("a").AddInteger(i)
							}
							return nil
						})
						count("edit")
					}
				case 2: // sync
					if doc := s.docs[d]; doc != nil {
						err := guarded("Sync", func(ctx context.Context) error { return s.cli.Sync(ctx, client.WithKey(doc.Key())) })
						count("sync")
						if !expected(err) {
							problem("Sync: " + err.Error())
							diagnose(d, "Sync: "+err.Error())
						}
					}
				case 3: // detach
					if doc := s.docs[d]; doc != nil {
						err := guarded("Detach", func(ctx context.Context) error { return s.cli.Detach(ctx, doc) })
						count("detach")
						if !expected(err) {
							problem("Detach: " + err.Error())
							diagnose(d, "Detach: "+err.Error())
						}
						s.docs[d] = nil
					}
				case 4: // deactivate and come back as a new client
					err := guarded("Deactivate", func(ctx context.Context) error { return s.cli.Deactivate(ctx) })
					count("deactivate")
					if !expected(err) {
						problem("Deactivate: " + err.Error())
					}
					_ = s.cli.Close()
					s.docs = [nDocs]*document.Document{}
					nc, err := newClient(i)
					if err != nil {
						problem("re-activate: " + err.Error())
						return
					}
					s.cli = nc
				case 5:
					gotime.Sleep(gotime.Duration(r.Intn(20)) * gotime.Millisecond)
				}
			}
		}(i)
	}
	// background: compaction and housekeeping passes
	wg.Add(1)
	go func() {
		defer wg.Done()
		defer func() {
			if r := recover(); r != nil {
				problem(fmt.Sprintf("background goroutine panicked: %v", r))
			}
		}()
		r := rng.New(cfg.seed * 977)
		for !stopped.Load() {
			gotime.Sleep(gotime.Duration(50+r.Intn(150)) * gotime.Millisecond)
			switch r.Intn(3) {
			case 0:
				d := r.Intn(nDocs)
				info, err := srv.Be.DB.FindDocInfoByKey(ctx, p.ID, key.Key(fmt.Sprintf("locks-%d-%d", cfg.seed, d)))
				if err == nil && info != nil {
					_ = guarded("CompactDocument", func(ctx context.Context) error {
						_, err := documents.CompactDocument(ctx, srv.Be, p, info, r.Chance(1, 4))
						return err
					})
					count("compaction")
				}
			case 1:
				_ = guarded("DeactivateInactives", func(ctx context.Context) error {
					_, _, _, err := clients.DeactivateInactives(ctx, srv.Be, 50, 2, types.ID("000000000000000000000000"))
					return err
				})
				count("housekeeping-deactivate")
			case 2:
				_ = guarded("CompactDocuments", func(ctx context.Context) error {
					_, _, _, _, err := documents.CompactDocuments(ctx, srv.Be, 20, 5, 0, types.ID("000000000000000000000000"))
					return err
				})
				count("housekeeping-compact")
			}
		}
	}()
	gotime.Sleep(dur)
	stopped.Store(true)
	close(stop)
	wg.Wait()
	// quiescence: whoever is still attached syncs a few rounds; then compare per document
	// a client attached before a forced compaction is stale (refused by design, property C10):
	// only replicas whose final syncs all succeed take part in the comparison
	failedFinal := map[*document.Document]bool{}
	for round := 0; round < 4; round++ {
		for _, s := range slots {
			if s == nil {
				continue
			}
			for _, doc := range s.docs {
				if doc != nil {
					if err := guarded("Sync", func(ctx context.Context) error { return s.cli.Sync(ctx, client.WithKey(doc.Key())) }); err != nil {
						failedFinal[doc] = true
					}
				}
			}
		}
		srv.Be.WaitBackgroundIdleForVerif()
	}
	for d := 0; d < nDocs; d++ {
		var contents []string
		for _, s := range slots {
			if s != nil && s.docs[d] != nil && s.docs[d].IsAttached() && !failedFinal[s.docs[d]] {
				contents = append(contents, s.docs[d].Marshal())
			}
		}
		same := true
		for _, c := range contents {
			if c != contents[0] {
				same = false
			}
		}
		if !same {
			problem(fmt.Sprintf("document %d: replicas differ after quiescence: %s", d, trunc(strings.Join(contents, "  |  "), 600)))
		} else if len(contents) > 1 {
			rep.Converged++
		}
		// the log is dense and ordered
		info, err := srv.Be.DB.FindDocInfoByKey(ctx, p.ID, key.Key(fmt.Sprintf("locks-%d-%d", cfg.seed, d)))
		if err == nil && info != nil {
			infos, err := srv.Be.DB.FindChangeInfosBetweenServerSeqs(ctx, info.RefKey(), 1, info.ServerSeq)
			if err == nil {
				for k, ci := range infos {
					if ci.ServerSeq != infos[0].ServerSeq+int64(k) {
						problem(fmt.Sprintf("document %d: change log has a gap or disorder at position %d (serverSeq %d)", d, k, ci.ServerSeq))
						break
					}
				}
			}
		}
	}
	// the server can still rebuild every document from its store; if not, say which stored change fails
	for d := 0; d < nDocs; d++ {
		info, err := srv.Be.DB.FindDocInfoByKey(ctx, p.ID, key.Key(fmt.Sprintf("locks-%d-%d", cfg.seed, d)))
		if err != nil || info == nil {
			continue
		}
		if _, err := packs.BuildInternalDocForServerSeq(ctx, srv.Be, info, info.ServerSeq); err != nil {
			problem(fmt.Sprintf("document %d cannot be rebuilt from the store at serverSeq %d: %v; %s", d, info.ServerSeq, err, rebuildDiagnosis(ctx, srv, info)))
		}
	}
	for _, s := range slots {
		if s != nil {
			_ = s.cli.Close()
		}
	}
	b, _ := json.MarshalIndent(rep, "", " ")
	return os.WriteFile(filepath.Join(cfg.out, "worker.json"), b, 0o644)
}

// rebuildDiagnosis replays the stored changes on top of the closest stored snapshot one at a time and
// names the first one that fails.
func rebuildDiagnosis(ctx context.Context, srv *sim.Server, info *database.DocInfo) string {
	snap, err := srv.Be.DB.FindClosestSnapshotInfo(ctx, info.RefKey(), info.ServerSeq, true)
	if err != nil {
		return "closest snapshot: " + err.Error()
	}
	doc, err := document.NewInternalDocumentFromSnapshot(info.Key, snap.ServerSeq, snap.Lamport, snap.VersionVector, snap.Snapshot)
	if err != nil {
		return fmt.Sprintf("snapshot at %d does not decode: %v", snap.ServerSeq, err)
	}
	chs, err := srv.Be.DB.FindChangesBetweenServerSeqs(ctx, info.RefKey(), snap.ServerSeq+1, info.ServerSeq)
	if err != nil {
		return "read changes: " + err.Error()
	}
	for _, c := range chs {
		if _, _, err := doc.ApplyChangesForReplay(c); err != nil {
			var ops []string
			for _, op := range c.Operations() {
				ops = append(ops, fmt.Sprintf("%T(parent %s, at %s)", op, op.ParentCreatedAt().ToTestString(), op.ExecutedAt().ToTestString()))
			}
			return fmt.Sprintf("stored snapshot at serverSeq %d (vector %s), change at serverSeq %d by %s (lamport %d, vector %s) fails: %v; operations %v; document before it: %s",
				snap.ServerSeq, snap.VersionVector.Marshal(), c.ServerSeq(), c.ID().ActorID().String(), c.ID().Lamport(), c.ID().VersionVector().Marshal(), err, ops, trunc(doc.Marshal(), 300))
		}
	}
	return "replaying the changes one by one on the stored snapshot succeeds"
}
