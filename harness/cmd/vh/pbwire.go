package main

// Engine pbwire: the protobuf encoding of api.TimeTicket.  proto.Marshal of
// tickets (ordinary and extreme) and proto.Unmarshal of arbitrary, mutated and
// hostile byte strings go to the wire-format model (Codec/PbWire.v through
// Corr/PbWire.v): same bytes out, same fields or the same refusal in.

import (
	"fmt"
	"os"
	"path/filepath"

	"google.golang.org/protobuf/proto"

	"verifharness/internal/coqfmt"
	"verifharness/internal/rng"

	"github.com/yorkie-team/yorkie/api/converter"
	api "github.com/yorkie-team/yorkie/api/yorkie/v1"
	"github.com/yorkie-team/yorkie/pkg/document/time"
)

func init() { register("pbwire", runPbWire) }

func bytesCoq(b []byte) string {
	items := make([]string, len(b))
	for i, x := range b {
		items[i] = coqfmt.N(uint64(x))
	}
	return coqfmt.List(items)
}

func ptkCoq(lam int64, delim uint32, actor []byte) string {
	return coqfmt.App("mkPT", coqfmt.Z(lam), coqfmt.N(uint64(delim)), bytesCoq(actor))
}

func runPbWire(cfg *config) error {
	r := rng.New(cfg.seed)
	res := newResult("pbwire", cfg.seed)
	var cases []string
	seen := distinct{}
	add := func(c string, nontrivial bool) {
		cases = append(cases, c)
		if nontrivial {
			seen.add(c)
		}
		if len(res.Samples) < 3 {
			res.Samples = append(res.Samples, c)
		}
	}
	extremeLam := []int64{0, 1, 127, 128, 16383, 16384, -1, -128, 1<<31 - 1, 1 << 31, 1<<62 + 5, 1<<63 - 1, -1 << 63}
	extremeDel := []uint32{0, 1, 127, 128, 1<<32 - 1, 1 << 31}
	for i := 0; i < cfg.n; i++ {
		switch i % 3 {
		case 0: // encoding
			var lam int64
			var del uint32
			if r.Chance(1, 3) {
				lam, del = extremeLam[r.Intn(len(extremeLam))], extremeDel[r.Intn(len(extremeDel))]
			} else {
				lam, del = int64(r.U64()>>uint(r.Intn(64))), uint32(r.U64()>>uint(32+r.Intn(32)))
				if r.Chance(1, 6) {
					lam = -lam
				}
			}
			var actor []byte
			switch r.Pick(6, 1, 1) {
			case 0:
				a := actorOf(r.U64())
				actor = a[:]
			case 1:
				actor = nil
			default:
				actor = make([]byte, r.Intn(200))
				for k := range actor {
					actor[k] = byte(r.U64())
				}
			}
			pb := &api.TimeTicket{Lamport: lam, Delimiter: del, ActorId: actor}
			if len(actor) == 12 && r.Bool() {
				var a time.ActorID
				copy(a[:], actor)
				pb = converter.ToTimeTicket(time.NewTicket(lam, del, a))
			}
			bs, err := proto.MarshalOptions{Deterministic: true}.Marshal(pb)
			if err != nil {
				return err
			}
			add(coqfmt.App("PbEnc", ptkCoq(lam, del, actor), bytesCoq(bs)), lam != 0 || del != 0)
			res.count("case.encode")
		default: // decoding: random bytes, mutated encodings, crafted wire constructs
			var bs []byte
			switch r.Pick(3, 4, 3) {
			case 0:
				bs = make([]byte, r.Intn(14))
				for k := range bs {
					bs[k] = byte(r.U64())
				}
				res.count("decode.random-bytes")
			case 1:
				a := actorOf(r.U64())
				base, _ := proto.Marshal(&api.TimeTicket{Lamport: int64(r.U64() >> uint(r.Intn(64))), Delimiter: uint32(r.Intn(300)), ActorId: a[:]})
				bs = append([]byte{}, base...)
				for m, nm := 0, r.Range(1, 3); m < nm && len(bs) > 0; m++ {
					switch r.Intn(4) {
					case 0:
						bs[r.Intn(len(bs))] = byte(r.U64())
					case 1:
						bs = bs[:r.Intn(len(bs)+1)]
					case 2:
						k := r.Intn(len(bs) + 1)
						bs = append(bs[:k], append([]byte{byte(r.U64())}, bs[k:]...)...)
					default:
						bs = append(bs, base[:r.Intn(len(base)+1)]...)
					}
				}
				res.count("decode.mutated")
			default:
				// hand-made constructs: unknown fields of every wire type, groups, overlong varints,
				// wrong wire types for known fields, repeated fields
				pieces := [][]byte{
					{0x08, 0x05}, {0x10, 0x07}, {0x1a, 0x02, 0xaa, 0xbb}, {0x08, 0x80, 0x00}, {0x08, 0xff, 0xff, 0xff, 0xff, 0xff, 0xff, 0xff, 0xff, 0xff, 0x01},
					{0x08, 0xff, 0xff, 0xff, 0xff, 0xff, 0xff, 0xff, 0xff, 0xff, 0x02}, {0x0d, 1, 2, 3, 4}, {0x09, 1, 2, 3, 4, 5, 6, 7, 8}, {0x12, 0x01, 0x09},
					{0x23, 0x28, 0x01, 0x24}, {0x23, 0x2b, 0x2c, 0x24}, {0x23, 0x28, 0x01, 0x2c}, {0x24}, {0x0e}, {0x0f}, {0x00}, {0x20, 0x01}, {0x2a, 0x00},
					{0x10, 0xff, 0xff, 0xff, 0xff, 0x1f}, {0xf8, 0xff, 0xff, 0xff, 0x0f, 0x01}, {0x80, 0x80, 0x80, 0x80, 0x10, 0x01}, {0x1a, 0x05, 0x01},
				}
				for m, nm := 0, r.Range(1, 4); m < nm; m++ {
					bs = append(bs, pieces[r.Intn(len(pieces))]...)
				}
				res.count("decode.constructs")
			}
			pb := &api.TimeTicket{}
			err := proto.Unmarshal(bs, pb)
			obs := "None"
			if err == nil {
				obs = coqfmt.Some(ptkCoq(pb.Lamport, pb.Delimiter, pb.ActorId))
				res.count("decode.accepted")
			} else {
				res.count("decode.rejected")
			}
			add(coqfmt.App("PbDec", bytesCoq(bs), obs), len(bs) > 0)
		}
	}
	res.Evaluations = len(cases)
	res.Nontrivial = len(seen)
	res.Rule = "one third: proto.Marshal of api.TimeTicket values (extreme and random lamports incl. negative, delimiters, actor ids of 12 bytes, none, or up to 200 random bytes; partly through converter.ToTimeTicket) compared byte for byte with the model's encoding; two thirds: proto.Unmarshal of random bytes, mutated encodings and hand-made wire constructs (unknown fields of every wire type, groups, overlong and overflowing varints, wrong wire types, reserved types, truncations) compared with the model's decoder: the same fields or the same refusal; non-trivial = non-empty input / non-zero ticket; distinct = distinct rendered case"
	f := filepath.Join(cfg.out, "cases_pbwire.v")
	src := coqfmt.File([]string{"From YV Require Import Corr.PbWire."}, "pbcase", "mismatches pbcheck", cases)
	if err := os.WriteFile(f, []byte(src), 0o644); err != nil {
		return err
	}
	res.CaseFiles = []string{f}
	_ = fmt.Sprint
	return res.write(cfg.out)
}
