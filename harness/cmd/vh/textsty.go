package main

// Engine textsty: like textrga, with Text.Style / Text.RemoveStyle among the
// operations; the observation after every execution is the complete node list
// with every run's attribute nodes (key, value, updatedAt, removed), expanded
// into characters.  Model: Crdt/TextStyle.v through Corr/TextSty.v.

import (
	"fmt"
	"os"
	"path/filepath"
	"sort"

	"verifharness/internal/coqfmt"
	"verifharness/internal/rng"

	"github.com/yorkie-team/yorkie/pkg/document/crdt"
	"github.com/yorkie-team/yorkie/pkg/document/time"
)

func init() { register("textsty", runTextSty) }

var styKeys = []string{"b", "i", "c"}

type styOp struct {
	author   int
	from, to *crdt.RGATreeSplitNodePos
	content  string            // edit
	set      map[string]string // style
	unset    []string          // remove style
	kind     string            // edit | style | unstyle
	tk       *time.Ticket
	vv       time.VersionVector
}

func styCharsWithAttrs(t *crdt.Text) []string {
	var out []string
	for _, nd := range t.Nodes() {
		v := nd.Value().Value()
		var tbl []string
		for _, an := range nd.Value().Attrs().Nodes() {
			ki := 0
			for i, k := range styKeys {
				if k == an.Key() {
					ki = i + 1
				}
			}
			var val int64
			fmt.Sscan(an.Value(), &val)
			tbl = append(tbl, coqfmt.App("mkAN", coqfmt.N(uint64(ki)), coqfmt.Z(val), ticketCoq(an.UpdatedAt()), coqfmt.Bool(an.IsRemoved())))
		}
		sort.Strings(tbl)
		for i := 0; i < len(v); i++ {
			ch := coqfmt.App("mkCh", ticketCoq(nd.ID().CreatedAt()), coqfmt.N(uint64(nd.ID().Offset()+i)), coqfmt.N(uint64(v[i])), optTk(nd.RemovedAt()))
			out = append(out, coqfmt.Pair(ch, coqfmt.List(tbl)))
		}
	}
	return out
}

func (o *styOp) aops() string {
	var ops []string
	switch o.kind {
	case "style":
		var ks []string
		for k := range o.set {
			ks = append(ks, k)
		}
		sort.Strings(ks)
		for _, k := range ks {
			ki := 0
			for i, kk := range styKeys {
				if kk == k {
					ki = i + 1
				}
			}
			var val int64
			fmt.Sscan(o.set[k], &val)
			ops = append(ops, coqfmt.App("APut", coqfmt.N(uint64(ki)), coqfmt.Z(val), ticketCoq(o.tk)))
		}
	case "unstyle":
		for _, k := range o.unset {
			ki := 0
			for i, kk := range styKeys {
				if kk == k {
					ki = i + 1
				}
			}
			ops = append(ops, coqfmt.App("ARemove", coqfmt.N(uint64(ki)), ticketCoq(o.tk)))
		}
	}
	return coqfmt.List(ops)
}

func textStyCase(r *rng.R, res *Result) (string, bool, []Violation) {
	var viol []Violation
	nrep := r.Range(2, 3)
	reps := make([]*textReplica, nrep)
	for i := range reps {
		reps[i] = &textReplica{txt: crdt.NewText(crdt.NewRGATreeSplit(crdt.InitialTextNode()), time.InitialTicket), vv: time.NewVersionVector(), delivered: make([]int, nrep)}
	}
	actor := func(i int) time.ActorID { return actorOf(uint64(i + 1)) }
	byAuthor := make([][]*styOp, nrep)
	var steps []string
	concurrent, styled := 0, 0

	exec := func(i int, op *styOp, local bool) {
		rp := reps[i]
		var vv time.VersionVector
		if !local {
			vv = op.vv
		}
		var err error
		switch op.kind {
		case "edit":
			_, _, _, _, _, err = rp.txt.Edit(op.from, op.to, op.content, nil, op.tk, vv)
		case "style":
			_, _, _, err = rp.txt.Style(op.from, op.to, op.set, op.tk, vv)
		case "unstyle":
			_, _, _, err = rp.txt.RemoveStyle(op.from, op.to, op.unset, op.tk, vv)
		}
		pf, ok1 := posCoq(op.from)
		pt, ok2 := posCoq(op.to)
		if !ok1 || !ok2 {
			res.count("skipped.position-at-offset-0-of-a-run")
			return
		}
		var sop string
		if op.kind == "edit" {
			var vals []string
			for k := 0; k < len(op.content); k++ {
				vals = append(vals, coqfmt.N(uint64(op.content[k])))
			}
			sop = coqfmt.App("SEdit", coqfmt.App("TEdit", pf, pt, coqfmt.List(vals), ticketCoq(op.tk), textVVCoq(vv)))
		} else {
			sop = coqfmt.App("SStyle", pf, pt, op.aops(), ticketCoq(op.tk), textVVCoq(vv))
		}
		steps = append(steps, coqfmt.Pair(coqfmt.Pair(coqfmt.Pair(coqfmt.Nat(i), sop), coqfmt.Bool(err != nil)), coqfmt.List(styCharsWithAttrs(rp.txt))))
	}
	deliverable := func(j int) []*styOp {
		var out []*styOp
		rp := reps[j]
		for a := 0; a < nrep; a++ {
			if a == j || rp.delivered[a] >= len(byAuthor[a]) {
				continue
			}
			op := byAuthor[a][rp.delivered[a]]
			ok := true
			for act, l := range op.vv {
				if act == actor(a) {
					continue
				}
				if have, _ := rp.vv.Get(act); have < l {
					ok = false
				}
			}
			if ok {
				out = append(out, op)
			}
		}
		return out
	}
	deliver := func(j int, op *styOp) {
		rp := reps[j]
		for act, l := range rp.vv {
			if have, _ := op.vv.Get(act); have < l {
				concurrent++
				break
			}
		}
		exec(j, op, false)
		rp.delivered[op.author]++
		for act, l := range op.vv {
			if have, _ := rp.vv.Get(act); have < l {
				rp.vv.Set(act, l)
			}
		}
		if op.tk.Lamport() > rp.lamport {
			rp.lamport = op.tk.Lamport()
		}
	}

	n := r.Range(5, 16)
	for s := 0; s < n; s++ {
		i := r.Intn(nrep)
		if r.Chance(2, 5) {
			if cand := deliverable(i); len(cand) > 0 {
				deliver(i, cand[r.Intn(len(cand))])
				res.count("step.deliver")
				continue
			}
		}
		rp := reps[i]
		ln := len(rp.txt.String())
		from := r.Intn(ln + 1)
		to := from
		op := &styOp{author: i}
		switch {
		case ln >= 1 && r.Chance(2, 5):
			from = r.Intn(ln)
			to = from + r.Range(1, min(4, ln-from))
			if r.Chance(2, 3) {
				op.kind = "style"
				op.set = map[string]string{styKeys[r.Intn(len(styKeys))]: fmt.Sprint(r.Intn(9))}
				if r.Chance(1, 3) {
					op.set[styKeys[r.Intn(len(styKeys))]] = fmt.Sprint(r.Intn(9))
				}
			} else {
				op.kind = "unstyle"
				op.unset = []string{styKeys[r.Intn(len(styKeys))]}
			}
			styled++
		default:
			op.kind = "edit"
			if ln > from && r.Chance(1, 2) {
				to = from + r.Range(1, min(4, ln-from))
			}
			if to == from || r.Chance(1, 2) {
				for k, m := 0, r.Range(1, 3); k < m; k++ {
					op.content += string(rune('a' + r.Intn(26)))
				}
			}
		}
		fp, tp, err := rp.txt.CreateRange(from, to)
		if err != nil {
			continue
		}
		rp.lamport++
		op.from, op.to = fp, tp
		op.tk = time.NewTicket(rp.lamport, 0, actor(i))
		rp.vv.Set(actor(i), rp.lamport)
		op.vv = rp.vv.DeepCopy()
		byAuthor[i] = append(byAuthor[i], op)
		exec(i, op, true)
		rp.delivered[i]++
		res.count("step.local-" + op.kind)
	}
	for progress := true; progress; {
		progress = false
		for j := 0; j < nrep; j++ {
			if cand := deliverable(j); len(cand) > 0 {
				deliver(j, cand[r.Intn(len(cand))])
				res.count("step.deliver")
				progress = true
			}
		}
	}
	for j := 1; j < nrep; j++ {
		if reps[j].txt.Marshal() != reps[0].txt.Marshal() {
			viol = append(viol, Violation{Kind: "text-diverged", Detail: fmt.Sprintf("after every operation reached every replica: replica 0 shows %s, replica %d shows %s", reps[0].txt.Marshal(), j, reps[j].txt.Marshal())})
			break
		}
	}
	nontriv := concurrent > 0 && styled > 0
	if nontriv {
		res.count("case.concurrent-with-styles")
	}
	return coqfmt.App("KTextS", coqfmt.Nat(nrep), coqfmt.List(steps)), nontriv, viol
}

func runTextSty(cfg *config) error {
	r := rng.New(cfg.seed)
	res := newResult("textsty", cfg.seed)
	var cases []string
	seen := distinct{}
	for i := 0; i < cfg.n; i++ {
		c, nontriv, viol := textStyCase(r.Fork(), res)
		cases = append(cases, c)
		if len(viol) > 0 && len(res.Violations) < 5 {
			v := viol[0]
			v.Detail = fmt.Sprintf("case %d: %s", i, v.Detail)
			v.Replay = c
			res.Violations = append(res.Violations, v)
		}
		if nontriv {
			seen.add(c)
		}
		if len(res.Samples) < 2 {
			res.Samples = append(res.Samples, c)
		}
	}
	res.Evaluations = len(cases)
	res.Nontrivial = len(seen)
	res.Rule = "2-3 replicas of the real crdt.Text; random local edits, Style (1-2 attributes) and RemoveStyle over 1-4 characters, random causal delivery with the author's version vector, then quiescence; after every execution the complete node list with every run's attribute nodes is compared with the model; the marshalled texts (content + attributes) of the replicas must agree at the end; non-trivial = some operation met operations its author had not seen and the case contains styles; distinct = distinct rendered case"
	f := filepath.Join(cfg.out, "cases_textsty.v")
	src := coqfmt.File([]string{"From YV Require Import Corr.TextSty."}, "stylecase", "mismatches stylecheck", cases)
	if err := os.WriteFile(f, []byte(src), 0o644); err != nil {
		return err
	}
	res.CaseFiles = []string{f}
	return res.write(cfg.out)
}
