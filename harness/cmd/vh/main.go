// vh — the implementation-side engine of the verification harness.  Every
// sub-command drives real packages of /repo (via the replace directive in
// go.mod) on generated inputs and writes, into -out, cases_*.v files for the
// Coq model to judge plus a result.json with the engine's own oracle verdicts
// and coverage counters.
package main

import (
	"flag"
	"fmt"
	"os"
)

type engine func(cfg *config) error

type config struct {
	seed   uint64
	n      int
	out    string
	tier   string
	replay string
	extra  string
}

var engines = map[string]engine{}

func register(name string, e engine) { engines[name] = e }

func main() {
	if len(os.Args) < 2 {
		fmt.Fprintln(os.Stderr, "usage: vh <engine> [flags]")
		os.Exit(2)
	}
	name := os.Args[1]
	e, ok := engines[name]
	if !ok {
		fmt.Fprintf(os.Stderr, "unknown engine %q\n", name)
		os.Exit(2)
	}
	fs := flag.NewFlagSet(name, flag.ExitOnError)
	cfg := &config{}
	fs.Uint64Var(&cfg.seed, "seed", 1, "PRNG seed")
	fs.IntVar(&cfg.n, "n", 100, "number of cases")
	fs.StringVar(&cfg.out, "out", ".", "output directory")
	fs.StringVar(&cfg.tier, "tier", "quick", "quick|thorough")
	fs.StringVar(&cfg.replay, "replay", "", "replay file")
	fs.StringVar(&cfg.extra, "x", "", "engine-specific option")
	_ = fs.Parse(os.Args[2:])
	if err := os.MkdirAll(cfg.out, 0o755); err != nil {
		fmt.Fprintln(os.Stderr, err)
		os.Exit(2)
	}
	if err := e(cfg); err != nil {
		fmt.Fprintln(os.Stderr, "engine error:", err)
		os.Exit(3)
	}
}
