package main

// Engine c06: function-level correspondence for property C06.  Random event
// sequences are run through the real change.ID / change.Context /
// time.VersionVector code and written as KClock / KMinVV / KVOps cases.

import (
	"fmt"
	"os"
	"path/filepath"
	"sort"

	"verifharness/internal/coqfmt"
	"verifharness/internal/rng"

	"github.com/yorkie-team/yorkie/pkg/document/change"
	"github.com/yorkie-team/yorkie/pkg/document/operations"
	"github.com/yorkie-team/yorkie/pkg/document/time"
)

func init() { register("c06", runC06) }

// actorOf builds an ActorID whose byte order equals the numeric order of n.
func actorOf(n uint64) time.ActorID {
	var a time.ActorID
	for i := 0; i < 8; i++ {
		a[len(a)-1-i] = byte(n >> (8 * i))
	}
	return a
}

func actorRank(a time.ActorID) uint64 {
	var n uint64
	for i := 0; i < 8; i++ {
		n |= uint64(a[len(a)-1-i]) << (8 * i)
	}
	return n
}

func vvCoq(v time.VersionVector) string {
	type kv struct {
		k uint64
		v int64
	}
	var l []kv
	for k, x := range v {
		l = append(l, kv{actorRank(k), x})
	}
	sort.Slice(l, func(i, j int) bool { return l[i].k < l[j].k })
	items := make([]string, len(l))
	for i, e := range l {
		items[i] = coqfmt.Pair(coqfmt.N(e.k), coqfmt.Z(e.v))
	}
	return coqfmt.List(items)
}

func idCoq(id change.ID) string {
	return coqfmt.App("mkID", coqfmt.Z(int64(id.ClientSeq())), coqfmt.Z(id.ServerSeq()), coqfmt.Z(id.Lamport()),
		coqfmt.N(actorRank(id.ActorID())), vvCoq(id.VersionVector()))
}

func randVV(r *rng.R, maxActors int, maxLam int) time.VersionVector {
	v := time.NewVersionVector()
	n := r.Intn(maxActors + 1)
	for i := 0; i < n; i++ {
		v.Set(actorOf(uint64(r.Range(1, maxActors))), int64(r.Intn(maxLam+1)))
	}
	return v
}

func runC06(cfg *config) error {
	r := rng.New(cfg.seed)
	res := newResult("c06", cfg.seed)
	var cases []string
	seen := distinct{}
	dummyOp := operations.NewRemove(time.InitialTicket, time.InitialTicket, time.InitialTicket)

	for i := 0; i < cfg.n; i++ {
		switch r.Pick(6, 2, 2) {
		case 0: // clock life of a replica
			optout := r.Chance(1, 4)
			me := actorOf(uint64(r.Range(1, 5)))
			id := change.InitialID().SetActor(me)
			start := idCoq(id)
			var evs []string
			var made []string
			nev := r.Range(1, 12)
			nontrivial := false
			for j := 0; j < nev; j++ {
				switch r.Pick(5, 5, 1, 1) {
				case 0:
					hasOps := r.Chance(3, 4)
					ctx := change.NewContext(id, "", nil)
					if hasOps {
						ctx.Push(dummyOp)
					}
					c := ctx.ToChange()
					made = append(made, idCoq(c.ID().DeepCopy()))
					id = ctx.NextID()
					evs = append(evs, coqfmt.App("EvLocal", coqfmt.Bool(hasOps)))
					res.count("ev.local")
					// property oracle on the implementation (own entry)
					if hasOps {
						if x, ok := c.ID().VersionVector().Get(c.ID().ActorID()); !ok || x != c.ID().Lamport() {
							res.Violations = append(res.Violations, Violation{Kind: "own-entry", Detail: fmt.Sprintf("case %d: vv[actor]=%d lamport=%d", i, x, c.ID().Lamport())})
						}
					}
				case 1:
					other := actorOf(uint64(r.Range(1, 5)))
					lam := int64(r.Intn(30))
					ovv := randVV(r, 5, 30)
					if r.Chance(4, 5) && lam > 0 {
						// well-formed remote id: entries bounded by its lamport, own entry present
						for k, x := range ovv {
							if x > lam {
								ovv[k] = lam
							}
						}
						ovv.Set(other, lam)
					}
					o := change.NewID(uint32(r.Intn(9)), int64(r.Intn(9)), lam, other, ovv)
					evs = append(evs, coqfmt.App("EvRemote", idCoq(o.DeepCopy())))
					before := id.Lamport()
					if optout {
						id = id.SyncLamport(o)
					} else {
						id = id.SyncClocks(o)
					}
					if o.HasClocks() {
						nontrivial = true
						if !(id.Lamport() > before && id.Lamport() > o.Lamport()) {
							res.Violations = append(res.Violations, Violation{Kind: "lamport-not-advanced", Detail: fmt.Sprintf("case %d", i)})
						}
					}
					res.count("ev.remote")
				case 2:
					v := randVV(r, 5, 30)
					evs = append(evs, coqfmt.App("EvSnapshot", vvCoq(v)))
					id = id.SetClocks(v.MaxLamport(), v.DeepCopy())
					res.count("ev.snapshot")
				case 3:
					a := actorOf(uint64(r.Range(1, 5)))
					evs = append(evs, coqfmt.App("EvSetActor", coqfmt.N(actorRank(a))))
					id = id.SetActor(a)
					res.count("ev.setactor")
				}
			}
			c := coqfmt.App("KClock", coqfmt.Bool(optout), start, coqfmt.List(evs), idCoq(id), coqfmt.List(made))
			cases = append(cases, c)
			if nontrivial {
				seen.add(c)
			}
			if len(res.Samples) < 3 {
				res.Samples = append(res.Samples, c)
			}
			res.count("case.clock")
		case 1: // MinVersionVector
			nv := r.Range(0, 5)
			vs := make([]time.VersionVector, nv)
			items := make([]string, nv)
			for j := range vs {
				vs[j] = randVV(r, 5, 30)
				items[j] = vvCoq(vs[j])
			}
			m := time.MinVersionVector(vs...)
			c := coqfmt.App("KMinVV", coqfmt.List(items), vvCoq(m))
			cases = append(cases, c)
			if nv >= 2 {
				seen.add(c)
			}
			// property oracle: never overstates
			for _, v := range vs {
				for k, x := range m {
					if x > v[k] {
						res.Violations = append(res.Violations, Violation{Kind: "minvv-overstates", Detail: fmt.Sprintf("case %d: min[%d]=%d > %d", i, actorRank(k), x, v[k])})
					}
				}
			}
			res.count("case.minvv")
		case 2: // Max / Min / MaxLamport / AfterOrEqual / EqualToOrAfter
			v, w := randVV(r, 5, 30), randVV(r, 5, 30)
			mx := v.DeepCopy()
			mx.Max(&w)
			mn := v.DeepCopy()
			mn.Min(&w)
			t := time.NewTicket(int64(r.Intn(31)), uint32(r.Intn(3)), actorOf(uint64(r.Range(1, 5))))
			c := coqfmt.App("KVOps", vvCoq(v), vvCoq(w), vvCoq(mx), vvCoq(mn), coqfmt.Z(v.MaxLamport()),
				coqfmt.Bool(v.AfterOrEqual(w)), ticketCoq(t), coqfmt.Bool(v.EqualToOrAfter(t)))
			cases = append(cases, c)
			seen.add(c)
			res.count("case.vops")
		}
	}
	res.Evaluations = len(cases)
	res.Nontrivial = len(seen)
	res.Rule = "random event sequences (local change with/without operations, remote change with well-formed or arbitrary id, snapshot vector, set-actor; opt-in and opt-out replicas) through the real change.ID/change.Context, and random vectors through MinVersionVector/Max/Min/MaxLamport/AfterOrEqual/EqualToOrAfter; non-trivial = clock case that applies at least one clocked remote change, min case over >= 2 vectors, any vops case; distinct = distinct rendered case"
	f := filepath.Join(cfg.out, "cases_c06.v")
	src := coqfmt.File([]string{"From YV Require Import Corr.C06."}, "c06case", "mismatches c06check", cases)
	if err := os.WriteFile(f, []byte(src), 0o644); err != nil {
		return err
	}
	res.CaseFiles = []string{f}
	return res.write(cfg.out)
}

func ticketCoq(t *time.Ticket) string {
	return coqfmt.App("mkT", coqfmt.Z(t.Lamport()), coqfmt.N(actorRank(t.ActorID())), coqfmt.N(uint64(t.Delimiter())))
}
