package main

// Engine c07: one real Document edited through the public json API, compared
// after every call with plain reference types (Go slice / map / UTF-16 unit
// slice / integers).  Before and between the local programs, remote changes
// from a second document and garbage collection leave tombstones, split nodes
// and dead array slots inside the structures.

import (
	"fmt"
	"sort"
	"strings"
	"unicode/utf16"

	"verifharness/internal/rng"

	"github.com/yorkie-team/yorkie/pkg/document"
	"github.com/yorkie-team/yorkie/pkg/document/change"
	"github.com/yorkie-team/yorkie/pkg/document/json"
	"github.com/yorkie-team/yorkie/pkg/document/presence"
	"github.com/yorkie-team/yorkie/pkg/document/time"
	"github.com/yorkie-team/yorkie/pkg/key"
)

func init() { register("c07", runC07) }

type refDoc struct {
	arr []int
	txt []uint16
	obj map[string]int
	c32 int32
	c64 int64
}

func (r *refDoc) marshalArr() string {
	s := make([]string, len(r.arr))
	for i, x := range r.arr {
		s[i] = fmt.Sprint(x)
	}
	return "[" + strings.Join(s, ",") + "]"
}

func newDrained(k string, actor byte) *document.Document {
	d := document.New(key.Key(k))
	var a time.ActorID
	a[11] = actor
	d.SetActor(a)
	go func() {
		for range d.Events() {
		}
	}()
	return d
}

// ship moves the unpushed local changes of src to dst as if through a server.
func ship(src, dst *document.Document, sseq *int64) error {
	p := src.CreateChangePack()
	if len(p.Changes) == 0 {
		return nil
	}
	var cs []*change.Change
	for _, c := range p.Changes {
		*sseq++
		c.SetServerSeq(*sseq)
		cs = append(cs, c)
	}
	// acknowledge on the source
	if err := src.ApplyChangePack(change.NewPack(src.Key(), change.NewCheckpoint(*sseq, p.Checkpoint.ClientSeq), nil, nil, nil)); err != nil {
		return err
	}
	return dst.ApplyChangePack(change.NewPack(dst.Key(), change.NewCheckpoint(*sseq, dst.Checkpoint().ClientSeq), cs, nil, nil))
}

func runC07(cfg *config) error {
	r := rng.New(cfg.seed)
	res := newResult("c07", cfg.seed)
	seen := distinct{}
	strs := []string{"a", "bc", "def", "\U0001F600", "xy\U0001F600z", ""}
	for i := 0; i < cfg.n; i++ {
		cr := r.Fork()
		allowSplit := cr.Chance(1, 25) // a small separate stream: indices inside a surrogate pair
		splitSurrogate := false
		d := newDrained("d", 1)
		peer := newDrained("d", 2)
		var sseq int64
		ref := &refDoc{obj: map[string]int{}}
		var prog []string
		fail := func(kind, detail string) {
			if len(res.Violations) < 6 {
				res.Violations = append(res.Violations, Violation{Kind: kind, Detail: fmt.Sprintf("program %d: %s", i, detail), Replay: map[string]any{"seed": cfg.seed, "program": i, "calls": prog},
					Sig: map[string]any{"splits_surrogate_pair": splitSurrogate}})
			}
			res.count("fail." + kind)
		}
		_ = d.Update(func(root *json.Object, p *presence.Presence) error {
			root.SetNewArray("a")
			root.SetNewText("t")
			root.SetNewObject("o")
			root.SetNewCounter("c", int64(0))
			root.SetNewCounter("n", 0)
			return nil
		})
		if err := ship(d, peer, &sseq); err != nil {
			return err
		}
		ncalls := cr.Range(5, 30)
		bad := false
		for j := 0; j < ncalls && !bad; j++ {
			// occasionally: the peer edits concurrently-then-delivered content and everything is GC'd
			if cr.Chance(1, 6) {
				_ = peer.Update(func(root *json.Object, p *presence.Presence) error {
					a := root.GetArray("a")
					if a.Len() > 0 && cr.Bool() {
						a.Delete(cr.Intn(a.Len()))
					} else {
						a.AddInteger(cr.Intn(1000))
					}
					t := root.GetText("t")
					n := len(utf16.Encode([]rune(t.String())))
					if n > 0 {
						f := cr.Intn(n)
						t.Edit(f, f+cr.Intn(n-f+1), strs[cr.Intn(len(strs))])
					}
					return nil
				})
				if err := ship(peer, d, &sseq); err != nil {
					fail("remote-apply-error", err.Error())
					bad = true
					break
				}
				if err := ship(d, peer, &sseq); err != nil {
					fail("remote-apply-error", err.Error())
					bad = true
					break
				}
				if cr.Bool() {
					vv := d.VersionVector().DeepCopy()
					d.GarbageCollect(vv)
				}
				// resynchronise the reference with what the document shows now (remote
				// edits are not part of the sequential specification)
				ref.arr = ref.arr[:0]
				root := d.Root()
				a := root.GetArray("a")
				for x := 0; x < a.Len(); x++ {
					ref.arr = append(ref.arr, int(a.Get(x).(interface{ Value() interface{} }).Value().(int32)))
				}
				ref.txt = utf16.Encode([]rune(root.GetText("t").String()))
				prog = append(prog, "remote+gc")
				res.count("call.remote")
				continue
			}
			var call string
			var upErr error
			func() {
				defer func() {
					if p := recover(); p != nil {
						upErr = fmt.Errorf("panic: %v", p)
					}
				}()
				upErr = d.Update(func(root *json.Object, p *presence.Presence) error {
					switch cr.Pick(3, 3, 2, 2, 1, 4, 2, 2, 1, 1) {
					case 0:
						v := cr.Intn(1000)
						root.GetArray("a").AddInteger(v)
						ref.arr = append(ref.arr, v)
						call = fmt.Sprintf("a.Add(%d)", v)
					case 1:
						if len(ref.arr) == 0 {
							call = "noop"
							return nil
						}
						idx, v := cr.Intn(len(ref.arr)), cr.Intn(1000)
						root.GetArray("a").InsertIntegerAfter(idx, v)
						ref.arr = append(ref.arr[:idx+1], append([]int{v}, ref.arr[idx+1:]...)...)
						call = fmt.Sprintf("a.InsertAfter(%d,%d)", idx, v)
					case 2:
						if len(ref.arr) == 0 {
							call = "noop"
							return nil
						}
						idx := cr.Intn(len(ref.arr))
						root.GetArray("a").Delete(idx)
						ref.arr = append(ref.arr[:idx], ref.arr[idx+1:]...)
						call = fmt.Sprintf("a.Delete(%d)", idx)
					case 3:
						if len(ref.arr) < 2 {
							call = "noop"
							return nil
						}
						prev, idx := cr.Intn(len(ref.arr)), cr.Intn(len(ref.arr))
						if prev == idx {
							call = "noop"
							return nil
						}
						root.GetArray("a").MoveAfterByIndex(prev, idx)
						v := ref.arr[idx]
						pv := prev
						rest := append([]int{}, ref.arr[:idx]...)
						rest = append(rest, ref.arr[idx+1:]...)
						if idx < prev {
							pv--
						}
						ref.arr = append(rest[:pv+1], append([]int{v}, rest[pv+1:]...)...)
						call = fmt.Sprintf("a.MoveAfterByIndex(%d,%d)", prev, idx)
					case 4:
						// set-by-index on an element that was never moved in this program is the
						// only form with a sequential meaning (known finding P13 otherwise): skip
						call = "noop"
					case 5:
						n := len(ref.txt)
						f := cr.Intn(n + 1)
						to := f + cr.Intn(n-f+1)
						inPair := func(i int) bool {
							return i > 0 && i < n && utf16.IsSurrogate(rune(ref.txt[i-1])) && utf16.IsSurrogate(rune(ref.txt[i])) && ref.txt[i-1] < 0xDC00
						}
						if !allowSplit {
							if inPair(f) {
								f--
							}
							if inPair(to) {
								to++
							}
						} else if inPair(f) || inPair(to) {
							splitSurrogate = true
						}
						s := strs[cr.Intn(len(strs))]
						root.GetText("t").Edit(f, to, s)
						u := utf16.Encode([]rune(s))
						ref.txt = append(append(append([]uint16{}, ref.txt[:f]...), u...), ref.txt[to:]...)
						call = fmt.Sprintf("t.Edit(%d,%d,%q)", f, to, s)
					case 6:
						k := []string{"k1", "k2", "k3"}[cr.Intn(3)]
						v := cr.Intn(100)
						root.GetObject("o").SetInteger(k, v)
						ref.obj[k] = v
						call = fmt.Sprintf("o.Set(%s,%d)", k, v)
					case 7:
						k := []string{"k1", "k2", "k3"}[cr.Intn(3)]
						root.GetObject("o").Delete(k)
						delete(ref.obj, k)
						call = fmt.Sprintf("o.Delete(%s)", k)
					case 8:
						dl := int64(cr.U64())
						if cr.Chance(2, 3) {
							dl = int64(cr.Range(-100, 100))
						}
						root.GetCounter("c").Increase(dl)
						ref.c64 += dl
						call = fmt.Sprintf("c.Increase(%d)", dl)
					case 9:
						dl := int32(cr.U64())
						if cr.Chance(2, 3) {
							dl = int32(cr.Range(-100, 100))
						}
						root.GetCounter("n").Increase(int(dl))
						ref.c32 += dl
						call = fmt.Sprintf("n.Increase(%d)", dl)
					}
					return nil
				})
			}()
			prog = append(prog, call)
			res.count("call.local")
			if upErr != nil {
				fail("update-error", call+": "+upErr.Error())
				bad = true
				break
			}
			// compare with the reference
			keys := make([]string, 0, len(ref.obj))
			for k := range ref.obj {
				keys = append(keys, k)
			}
			sort.Strings(keys)
			var os []string
			for _, k := range keys {
				os = append(os, fmt.Sprintf("%q:%d", k, ref.obj[k]))
			}
			root := d.Root()
			gotArr := root.GetArray("a").Marshal()
			if gotArr != ref.marshalArr() {
				fail("array-differs", fmt.Sprintf("after %s: document %s reference %s", call, gotArr, ref.marshalArr()))
				bad = true
			}
			if root.GetArray("a").Len() != len(ref.arr) {
				fail("array-len", fmt.Sprintf("after %s: Len %d reference %d", call, root.GetArray("a").Len(), len(ref.arr)))
				bad = true
			}
			gt := utf16.Encode([]rune(root.GetText("t").String()))
			if string(utf16.Decode(gt)) != string(utf16.Decode(ref.txt)) {
				fail("text-differs", fmt.Sprintf("after %s: document %q reference %q", call, string(utf16.Decode(gt)), string(utf16.Decode(ref.txt))))
				bad = true
			}
			if got := root.GetObject("o").Marshal(); got != "{"+strings.Join(os, ",")+"}" {
				fail("object-differs", fmt.Sprintf("after %s: document %s reference {%s}", call, got, strings.Join(os, ",")))
				bad = true
			}
			if got := root.GetCounter("c").Marshal(); got != fmt.Sprint(ref.c64) {
				fail("counter64-differs", fmt.Sprintf("after %s: %s vs %d", call, got, ref.c64))
				bad = true
			}
			if got := root.GetCounter("n").Marshal(); got != fmt.Sprint(ref.c32) {
				fail("counter32-differs", fmt.Sprintf("after %s: %s vs %d", call, got, ref.c32))
				bad = true
			}
			if d.Marshal() != d.Root().Marshal() {
				fail("clone-differs", "after "+call)
				bad = true
			}
		}
		res.Evaluations++
		seen.add(strings.Join(prog, ";"))
		if len(res.Samples) < 2 {
			res.Samples = append(res.Samples, prog)
		}
	}
	res.Nontrivial = len(seen)
	res.Rule = "random programs of json API calls (array add/insert-after/delete/move-after, text edit incl. surrogate pairs, object set/delete, 32/64-bit counter increase incl. extreme deltas) on one real Document, interleaved with remote changes from a peer and garbage collection; after every call the document is compared with Go slice/map/UTF-16/integer references; distinct = distinct call lists"
	return res.write(cfg.out)
}
