package main

// Engine hist: multi-client histories on a real in-process server.  The mode
// (-x prop=Cxx) selects generator configuration and oracles.

import (
	"context"
	"encoding/json"
	"fmt"
	"os"
	"path/filepath"
	"sort"
	"strings"
	gotime "time"

	"verifharness/internal/coqfmt"
	"verifharness/internal/hist"
	"verifharness/internal/rng"
	"verifharness/internal/sim"
)

func init() { register("hist", runHist) }

type histMode struct {
	flavors    []string
	gen        hist.GenConfig
	oracle     func(h *hist.History, o *hist.Outcome) []hist.Problem
	roracle    func(r *hist.Run) []hist.Problem // oracle that needs the recorded traffic
	presence   bool                             // a third of the histories run on a presenceless document
	serverDoc  bool                             // compare server-side rebuilds with the change-by-change replica
	cacheOnly  bool                             // ... with the rebuild from the store alone instead (C20)
	optOutSome bool                             // one history in seven runs with opt-out attachments only
	probeLWW   bool                             // end every history with the remote-Set probe of restored object members (hist.probeLWW)
	smallSnap  bool                             // half of the histories run on projects with tiny snapshot interval/threshold
	proto      bool                             // emit protocol-model cases
	twin       string                           // "", "nogc"
}

func baseOracle(h *hist.History, o *hist.Outcome) []hist.Problem {
	ps := append([]hist.Problem{}, o.Problems...)
	for i, s := range o.Steps {
		if s.Err != "" {
			ps = append(ps, hist.Problem{Kind: "step-error", Step: i, Detail: h.Steps[i].Op + ": " + s.Err})
		}
	}
	return ps
}

func modeFor(prop string) (*histMode, error) {
	all := []string{"object", "array", "arraymove", "text", "counter", "mixed"}
	switch prop {
	case "C01":
		return &histMode{flavors: append(append([]string{}, all...), "tree"),
			gen: hist.GenConfig{MinClients: 2, MaxClients: 5, MinSteps: 6, MaxSteps: 40, PushOnly: true},
			oracle: func(h *hist.History, o *hist.Outcome) []hist.Problem {
				return append(baseOracle(h, o), hist.CheckConvergence(o)...)
			}}, nil
	case "C02":
		return &histMode{flavors: []string{"object", "array", "arraymove", "text", "counter", "mixed", "tree"}, twin: "nosnap",
			gen: hist.GenConfig{MinClients: 2, MaxClients: 4, MinSteps: 10, MaxSteps: 40, Late: true, Detach: true, Inflight: true, SnapJobs: true},
			oracle: func(h *hist.History, o *hist.Outcome) []hist.Problem {
				return append(baseOracle(h, o), hist.CheckConvergence(o)...)
			}}, nil
	case "C20":
		// the snapshot cache: what BuildInternalDocForServerSeq answers from whatever cache state the
		// history has left must be what it answers from the store alone (cache purged); whether the
		// store's snapshot + changes equal a replay of every change is C02's question, not this one
		return &histMode{flavors: []string{"object", "array", "arraymove", "text", "counter", "mixed", "tree"}, smallSnap: true, serverDoc: true, cacheOnly: true,
			gen:    hist.GenConfig{MinClients: 2, MaxClients: 4, MinSteps: 10, MaxSteps: 40, Late: true, Detach: true, Inflight: true, SnapJobs: true},
			oracle: baseOracle}, nil
	case "C03":
		return &histMode{flavors: []string{"array", "arraymove", "text", "object", "mixed", "tree"}, twin: "nogc",
			gen: hist.GenConfig{Park: true, MinClients: 2, MaxClients: 4, MinSteps: 8, MaxSteps: 40, PushOnly: true, Inflight: true},
			oracle: func(h *hist.History, o *hist.Outcome) []hist.Problem {
				return append(baseOracle(h, o), hist.CheckConvergence(o)...)
			}}, nil
	case "C10":
		return &histMode{flavors: []string{"object", "array", "arraymove", "text", "counter", "mixed"}, proto: true,
			gen:       hist.GenConfig{NoMovedSet: true, MinClients: 2, MaxClients: 4, MinSteps: 8, MaxSteps: 35, Detach: true, Compact: true, PushOnly: true, Late: true},
			smallSnap: true, serverDoc: true,
			oracle: func(h *hist.History, o *hist.Outcome) []hist.Problem {
				return append(baseOracle(h, o), hist.CheckConvergence(o)...)
			}}, nil
	case "C12":
		return &histMode{flavors: []string{"counter", "object", "text"}, proto: true, smallSnap: true, presence: true,
			gen: hist.GenConfig{MinClients: 2, MaxClients: 4, MinSteps: 8, MaxSteps: 30, Presence: true, Late: true, Deactivate: true, Detach: true},
			oracle: func(h *hist.History, o *hist.Outcome) []hist.Problem {
				return append(baseOracle(h, o), hist.CheckConvergence(o)...)
			},
			roracle: hist.CheckPresence}, nil
	case "C11":
		return &histMode{flavors: []string{"counter", "object", "array"}, proto: true, smallSnap: true, presence: true,
			gen:     hist.GenConfig{MinClients: 2, MaxClients: 4, MinSteps: 8, MaxSteps: 30, Detach: true, Deactivate: true, Late: true},
			oracle:  func(h *hist.History, o *hist.Outcome) []hist.Problem { return nil },
			roracle: hist.CheckMinVVExact}, nil
	case "C04":
		return &histMode{flavors: []string{"counter", "object", "array", "mixed"}, proto: true,
			gen: hist.GenConfig{NoMovedSet: true, MinClients: 2, MaxClients: 5, MinSteps: 6, MaxSteps: 40, Inflight: true, PushOnly: true, Retry: true, LostRetry: true, Racing: true, Detach: true, Presence: true},
			oracle: func(h *hist.History, o *hist.Outcome) []hist.Problem {
				var ps []hist.Problem
				for _, p := range hist.CheckLog(o) {
					if p.Kind == "log-not-dense" || p.Kind == "clientseq-order" {
						ps = append(ps, p)
					}
				}
				return ps
			},
			roracle: func(r *hist.Run) []hist.Problem {
				return append(hist.CheckDelivery(r), hist.CheckCumulativeDelivery(r)...)
			}}, nil
	case "C05":
		return &histMode{flavors: []string{"counter", "array", "text", "mixed"}, proto: true, smallSnap: true,
			gen: hist.GenConfig{NoMovedSet: true, MinClients: 2, MaxClients: 4, MinSteps: 6, MaxSteps: 30, Retry: true, Racing: true, Inflight: true, LostRetry: true, Faults: true},
			oracle: func(h *hist.History, o *hist.Outcome) []hist.Problem {
				ps := baseOracle(h, o)
				seen := map[string]bool{}
				for _, r := range o.Log {
					k := fmt.Sprintf("%s/%d", r.Actor, r.ClientSeq)
					if seen[k] {
						ps = append(ps, hist.Problem{Kind: "duplicate-actor-clientseq", Step: -1, Detail: fmt.Sprintf("(actor %s, clientSeq %d) stored twice (second at serverSeq %d)", r.Actor, r.ClientSeq, r.ServerSeq)})
					}
					seen[k] = true
				}
				return append(ps, hist.CheckConvergence(o)...)
			},
			roracle: func(r *hist.Run) []hist.Problem {
				return append(hist.CheckDelivery(r), hist.CheckCumulativeDelivery(r)...)
			}}, nil
	case "C06":
		return &histMode{flavors: append(append([]string{}, all...), "counter", "counter"),
			gen: hist.GenConfig{NoMovedSet: true, MinClients: 2, MaxClients: 4, MinSteps: 6, MaxSteps: 30, Inflight: true, Detach: true, Late: true, OptOut: true},
			oracle: func(h *hist.History, o *hist.Outcome) []hist.Problem {
				var ps []hist.Problem
				for _, p := range o.Problems {
					if strings.HasPrefix(p.Kind, "minvv") {
						ps = append(ps, p)
					}
				}
				return append(ps, hist.CheckLog(o)...)
			},
			roracle: func(r *hist.Run) []hist.Problem { return append(hist.CheckMinVV(r), hist.CheckLamportCausal(r)...) }, proto: true, smallSnap: true}, nil
	case "C15":
		return &histMode{flavors: []string{"object", "array", "arraymove", "text", "counter", "tree", "mixed", "objnest"}, smallSnap: true, serverDoc: true,
			gen: hist.GenConfig{NoMovedSet: true, MinClients: 2, MaxClients: 3, MinSteps: 8, MaxSteps: 30, Undo: true, Late: true, Inflight: true},
			oracle: func(h *hist.History, o *hist.Outcome) []hist.Problem {
				return append(append(baseOracle(h, o), hist.CheckConvergence(o)...), hist.CheckCloneRoot(o)...)
			}}, nil
	case "C08":
		return &histMode{optOutSome: true, probeLWW: true, smallSnap: true, flavors: append(append([]string{}, all...), "tree", "treex", "objnest"),
			gen: hist.GenConfig{MinClients: 1, MaxClients: 3, MinSteps: 6, MaxSteps: 30, FailUpd: true, Undo: true, Presence: true, Late: true},
			oracle: func(h *hist.History, o *hist.Outcome) []hist.Problem {
				var ps []hist.Problem
				for _, p := range o.Problems {
					if strings.HasPrefix(p.Kind, "failed-update") || p.Kind == "failing-update-succeeded" || p.Kind == "clone-probe-differs" {
						ps = append(ps, p)
					}
				}
				return append(ps, hist.CheckCloneRoot(o)...)
			}}, nil
	}
	return nil, fmt.Errorf("no hist mode for %q", prop)
}

func parseX(x string) map[string]string {
	m := map[string]string{}
	for _, kv := range strings.Split(x, ",") {
		if i := strings.Index(kv, "="); i > 0 {
			m[kv[:i]] = kv[i+1:]
		}
	}
	return m
}

func runHist(cfg *config) error {
	x := parseX(cfg.extra)
	prop := x["prop"]
	mode, err := modeFor(prop)
	if err != nil {
		return err
	}
	if f := x["flavor"]; f != "" {
		mode.flavors = strings.Split(f, "+")
	}
	if x["compact"] == "1" { // C20: histories with compactions (the cache entry must not survive the log reset)
		mode.gen.Compact = true
		mode.gen.Detach = true
	}
	ctx := context.Background()
	srv, err := sim.Start(cfg.out, sim.Options{})
	if err != nil {
		return err
	}
	defer srv.Stop()
	srvNoGC, err := sim.Start(cfg.out, sim.Options{SnapshotDisableGC: true})
	if err != nil {
		return err
	}
	defer srvNoGC.Stop()
	rn := &hist.Runner{S: srv, ServerDoc: mode.twin == "nosnap" || mode.serverDoc, ServerDocSparse: mode.serverDoc, CacheOnly: mode.cacheOnly}
	// the twin without garbage collection evaluates the same server-side oracles: "the failure needs GC"
	// must mean that the oracle that failed passes there
	rnNoGC := &hist.Runner{S: srvNoGC, ServerDoc: rn.ServerDoc, ServerDocSparse: rn.ServerDocSparse, CacheOnly: rn.CacheOnly}
	res := newResult("hist", cfg.seed)
	r := rng.New(cfg.seed)
	seen := distinct{}
	failSigs := map[string]int{}

	var lastRun *hist.Run
	// a history that does not come back (a request that blocks for good) ends the engine: the server
	// it ran on is stuck, so the history is reported as it is and nothing further is run
	var hung *hist.History
	runFull := func(h *hist.History) (*hist.Run, *hist.Outcome) {
		type ret struct {
			run *hist.Run
			o   *hist.Outcome
		}
		ch := make(chan ret, 1)
		go func() {
			run, o := rn.RunFull(ctx, h)
			ch <- ret{run, o}
		}()
		select {
		case x := <-ch:
			return x.run, x.o
		case <-gotime.After(90 * gotime.Second):
			hung = h
			return nil, &hist.Outcome{Fatal: "the history did not finish within 90 s: a request hangs"}
		}
	}
	runOne := func(h *hist.History) (*hist.Outcome, []hist.Problem) {
		run, o := runFull(h)
		lastRun = run
		if hung != nil {
			return o, []hist.Problem{{Kind: "history-hangs", Step: -1, Detail: "the history did not finish within 90 s: some request never returns"}}
		}
		if o.Fatal != "" {
			return o, []hist.Problem{{Kind: "harness-fatal", Detail: o.Fatal}}
		}
		ps := mode.oracle(h, o)
		if mode.roracle != nil && run != nil {
			ps = append(ps, mode.roracle(run)...)
		}
		if mode.twin == "nogc" {
			// the same history with garbage collection switched off everywhere
			h2 := *h
			h2.Pin = true
			o2 := rnNoGC.Run(ctx, &h2)
			if o2.Fatal != "" {
				return o, []hist.Problem{{Kind: "harness-fatal", Detail: o2.Fatal}}
			}
			for i := range o.Final {
				if o.Attached[i] && i < len(o2.Final) && o2.Attached[i] && o.Final[i] != o2.Final[i] {
					ps = append(ps, hist.Problem{Kind: "gc-changes-content", Step: -1, Detail: fmt.Sprintf("client %d with GC: %s  without GC: %s", i, o.Final[i], o2.Final[i])})
					break
				}
			}
		}
		return o, ps
	}
	signature := func(small *hist.History, kind string, detail string) map[string]any {
		sig := map[string]any{}
		moved, asetAfterMove := false, false
		for _, st := range small.Steps {
			for _, e := range st.Edits {
				switch e.K {
				case "amov", "amovf", "amovl":
					moved = true
				case "aset":
					if moved {
						asetAfterMove = true
					}
				}
			}
		}
		sig["aset_after_move"] = asetAfterMove
		undo := false
		for _, st := range small.Steps {
			if st.Op == "Z" || st.Op == "Y" {
				undo = true
			}
		}
		sig["undo_needed"] = undo
		// does a client undo/redo after it split a tree element? (upstream: a split has no proper reverse)
		splitBy, splitUndo := map[int]bool{}, false
		for _, st := range small.Steps {
			switch st.Op {
			case "U":
				for _, e := range st.Edits {
					if e.K == "xspl" {
						splitBy[st.C] = true
					}
				}
			case "Z", "Y":
				if splitBy[st.C] {
					splitUndo = true
				}
			}
		}
		sig["tree_split_undo"] = splitUndo
		sig["all_optout"] = small.AllOptOut
		sig["presenceless_late_noflag"] = small.NoPresenceDoc && small.LateNoFlag
		parked := false
		for _, st := range small.Steps {
			if st.Op == "Sq" {
				parked = true
			}
		}
		// ... and is the held sync what makes the history fail? (the same history with plain syncs passes)
		parkNeeded := false
		if parked {
			plain := *small
			plain.Steps = nil
			for _, st := range small.Steps {
				switch st.Op {
				case "Sq":
					st.Op, st.Park = "S", ""
					plain.Steps = append(plain.Steps, st)
				case "Sw":
				default:
					plain.Steps = append(plain.Steps, st)
				}
			}
			if _, ps5 := runOne(&plain); len(ps5) == 0 {
				parkNeeded = true
			}
		}
		sig["parked_sync"] = parkNeeded
		// did a storage fault fire after the pushed changes were stored and before the client's
		// checkpoint was (finding P8)?
		window := false
		if _, o4 := rn.RunFull(ctx, small); o4 != nil {
			for _, so := range o4.Steps {
				if strings.HasSuffix(so.Fault, "/window") {
					window = true
				}
			}
		}
		if window {
			// is the fault what makes the history fail? (the same history with the response merely lost passes)
			plain := *small
			plain.Steps = nil
			for _, st := range small.Steps {
				if st.Op == "Sx" {
					st.Op, st.FaultN, st.FaultAfter = "Sl", 0, false
				}
				plain.Steps = append(plain.Steps, st)
			}
			if _, ps6 := runOne(&plain); len(ps6) > 0 {
				window = false
			}
		}
		sig["push_window_fault"] = window
		// is somebody else editing in a history where one client undoes/redoes?
		undoers, editors := map[int]bool{}, map[int]bool{}
		for _, st := range small.Steps {
			switch st.Op {
			case "Z", "Y":
				undoers[st.C] = true
			case "U":
				editors[st.C] = true
			}
		}
		concurrent := false
		for u := range undoers {
			for e := range editors {
				if e != u {
					concurrent = true
				}
			}
		}
		sig["concurrent_editor"] = concurrent
		// does the failure need garbage collection at all?
		h2 := *small
		h2.Pin = true
		o2 := rnNoGC.Run(ctx, &h2)
		p2 := append(baseOracle(&h2, o2), hist.CheckConvergence(o2)...)
		sig["gc_only"] = o2.Fatal == "" && len(p2) == 0
		// do the replicas hold the same pieces in a different order?
		o3 := rn.Run(ctx, small)
		orderOnly := false
		if o3.Fatal == "" && len(o3.Final) > 1 {
			canon := func(s string) string {
				b := []byte(s)
				sort.Slice(b, func(i, j int) bool { return b[i] < b[j] })
				return string(b)
			}
			differ, sameBag := false, true
			for _, f := range o3.Final[1:] {
				if f != o3.Final[0] {
					differ = true
				}
				if canon(f) != canon(o3.Final[0]) {
					sameBag = false
				}
			}
			orderOnly = differ && sameBag
		}
		// a server-side rebuild (or a snapshot-fed replica) against the replica that applied every
		// change: the two contents are in the problem's text
		for _, sep := range []string{"   replay of every change: ", "   replica that applied every change one by one: "} {
			if i := strings.Index(detail, sep); i >= 0 && !orderOnly {
				left, right := detail[:i], detail[i+len(sep):]
				if j := strings.Index(left, "{"); j >= 0 {
					left = left[j:]
					canon := func(s string) string {
						b := []byte(strings.TrimSpace(s))
						sort.Slice(b, func(i, j int) bool { return b[i] < b[j] })
						return string(b)
					}
					orderOnly = left != right && canon(left) == canon(right)
				}
			}
		}
		sig["order_only"] = orderOnly
		return sig
	}
	var protoCases []string
	var snapCases []string

	if cfg.replay != "" {
		b, err := os.ReadFile(cfg.replay)
		if err != nil {
			return err
		}
		var rp struct {
			Violation struct {
				Replay hist.History `json:"replay"`
			} `json:"violation"`
		}
		if err := json.Unmarshal(b, &rp); err != nil {
			return err
		}
		o, ps := runOne(&rp.Violation.Replay)
		var tr []string
		if lastRun != nil {
			for i, t := range lastRun.Trace {
				line := fmt.Sprintf("%d %s %s", i, t.Kind, t.Client.String()[18:])
				if t.Req != nil {
					line += fmt.Sprintf(" req cp=(%d,%d) nchanges=%d", t.Req.Checkpoint.ServerSeq, t.Req.Checkpoint.ClientSeq, len(t.Req.Changes))
					for _, c := range t.Req.Changes {
						line += fmt.Sprintf(" [cseq %d lam %d]", c.Id.ClientSeq, c.Id.Lamport)
					}
				}
				if t.Resp != nil {
					line += fmt.Sprintf(" -> cp=(%d,%d) nchanges=%d snap=%d", t.Resp.Checkpoint.ServerSeq, t.Resp.Checkpoint.ClientSeq, len(t.Resp.Changes), len(t.Resp.Snapshot))
				}
				if t.Err != nil {
					line += " ERR " + t.Err.Error()
				}
				if t.Lost {
					line += " LOST"
				}
				tr = append(tr, line)
			}
		}
		ob, _ := json.MarshalIndent(map[string]any{"problems": ps, "final": o.Final, "steps": o.Steps, "trace": tr, "log": o.Log}, "", " ")
		fmt.Println(string(ob))
		if len(ps) > 0 {
			os.Exit(1)
		}
		return nil
	}

	for i := 0; i < cfg.n; i++ {
		g := mode.gen
		g.Flavor = mode.flavors[i%len(mode.flavors)]
		if mode.twin == "nosnap" || mode.cacheOnly || (mode.smallSnap && (i/len(mode.flavors))%2 == 1) {
			iv := []int64{1, 2, 3, 5, 10}
			g.Interval, g.Threshold = iv[r.Intn(len(iv))], iv[r.Intn(len(iv))]
		}
		hr := r.Fork()
		h := hist.Generate(hr, g)
		if mode.presence && hr.Chance(1, 3) {
			// drawn from the history's own generator: tied to i, these flags never met the small snapshot
			// settings above (parity), and finding P16 needs all three
			h.NoPresenceDoc = true
			h.LateNoFlag = hr.Bool()
		}
		if mode.probeLWW {
			h.ProbeLWW = true
		}
		if mode.optOutSome && i%7 == 6 {
			// every client of this history attaches WithDisableGC (an opt-out attachment: its changes
			// carry a vector with the author's entry only)
			h.AllOptOut = true
		}
		h.Seed = cfg.seed
		o, ps := runOne(h)
		if hung != nil {
			res.Evaluations++
			res.count("fail.history-hangs")
			res.Violations = append(res.Violations, Violation{Kind: "history-hangs", Detail: fmt.Sprintf("history %d (%s, %d clients, %d steps, not shrunk: the server it ran on is stuck): some request never returns", i, g.Flavor, h.N, len(h.Steps)),
				Replay: h, Sig: map[string]any{}})
			// no orderly shutdown: it would wait for the request that hangs
			res.Nontrivial = len(seen)
			res.Rule = "random multi-client histories executed on a real in-process server; the run was cut short by a history that did not finish"
			_ = res.write(cfg.out)
			os.Exit(0)
		}
		res.Evaluations++
		res.count("flavor." + g.Flavor)
		res.count(fmt.Sprintf("clients.%d", h.N))
		nsync, nupd := 0, 0
		for _, s := range h.Steps {
			res.count("step." + s.Op)
			if s.Op == "U" {
				nupd++
			} else {
				nsync++
			}
		}
		if nupd >= 2 && h.N >= 2 {
			hb, _ := json.Marshal(h.Steps)
			seen.add(string(hb))
		}
		if len(res.Samples) < 2 {
			res.Samples = append(res.Samples, map[string]any{"history": h, "final": o.Final})
		}
		if lastRun != nil && lastRun.SnapshotOvertaken > 0 {
			res.Dist["pushes.overtaking-a-held-snapshot-job"] += lastRun.SnapshotOvertaken
		}
		if lastRun != nil && lastRun.SnapshotHeld > 0 {
			res.Dist["compactions.with-a-snapshot-in-flight"] += lastRun.SnapshotHeld
		}
		if lastRun != nil && lastRun.Compactions > 0 {
			res.Dist["compactions.done"] += lastRun.Compactions
		}
		if lastRun != nil && len(snapCases) < 4000 {
			snapCases = append(snapCases, lastRun.SnapCases...)
		}
		if mode.proto && lastRun != nil {
			if c, ok := lastRun.ProtoCase(); ok {
				protoCases = append(protoCases, c)
				res.CaseIndex = append(res.CaseIndex, map[string]any{"history": i, "steps": h.Steps, "n": h.N})
			} else {
				res.count("proto.not-modelled")
			}
		}
		if len(ps) == 0 {
			continue
		}
		kind := ps[0].Kind
		res.count("fail." + kind)
		// enough examples of this kind with this signature; keep counting only.  The cap is per
		// (kind, signature of the unshrunk history), not per kind: a recorded finding that produces
		// many failures of one kind (P8: duplicate rows after a fault in the push window) must not
		// use up the examples and hide another cause of the same kind
		pre, _ := json.Marshal(signature(h, kind, ps[0].Detail))
		capKey := kind + "|" + string(pre)
		failSigs[capKey]++
		if failSigs[capKey] > 3 {
			continue
		}
		// shrink, keeping the same first problem kind
		small := hist.Shrink(h, func(c *hist.History) bool {
			_, p2 := runOne(c)
			return len(p2) > 0 && p2[0].Kind == kind
		}, 200)
		_, ps2 := runOne(small)
		detail := ps[0].Detail
		if len(ps2) > 0 {
			detail = ps2[0].Detail
		}
		res.Violations = append(res.Violations, Violation{Kind: kind, Detail: fmt.Sprintf("history %d (%s, %d clients, %d steps after shrinking): %s", i, g.Flavor, small.N, len(small.Steps), detail),
			Replay: small, Sig: signature(small, kind, detail)})
	}
	res.Nontrivial = len(seen)
	res.Rule = "random multi-client histories (flavors " + strings.Join(mode.flavors, "/") + ") executed on a real in-process server (memory DB, real RPC stack) with manual clients that follow client.Client step by step; non-trivial = at least 2 clients and 2 updates; distinct = distinct step lists; failing histories are shrunk by delta debugging"
	const shard = 100
	res.CaseShard = shard
	for k := 0; k*shard < len(protoCases); k++ {
		hi := (k + 1) * shard
		if hi > len(protoCases) {
			hi = len(protoCases)
		}
		f := filepath.Join(cfg.out, fmt.Sprintf("cases_proto_%d.v", k))
		src := coqfmt.File([]string{"From YV Require Import Corr.Proto."}, "protocase", "mismatches protocheck", protoCases[k*shard:hi])
		if err := os.WriteFile(f, []byte(src), 0o644); err != nil {
			return err
		}
		res.CaseFiles = append(res.CaseFiles, f)
	}
	for k := 0; k*1000 < len(snapCases); k++ {
		hi := (k + 1) * 1000
		if hi > len(snapCases) {
			hi = len(snapCases)
		}
		f := filepath.Join(cfg.out, fmt.Sprintf("cases_snap_%d.v", k))
		src := coqfmt.File([]string{"From YV Require Import Corr.SnapCache."}, "snapcase", "mismatches snapcheck", snapCases[k*1000:hi])
		if err := os.WriteFile(f, []byte(src), 0o644); err != nil {
			return err
		}
		res.CaseFiles = append(res.CaseFiles, f)
	}
	if len(snapCases) > 0 {
		res.Dist["rebuild-plans.compared-with-model"] += len(snapCases)
	}
	return res.write(cfg.out)
}
