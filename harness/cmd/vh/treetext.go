package main

// Engine treetext (property C19, the one-level fragments): the real crdt.Tree
// on several replicas holding <r><p>…</p></r>, edited inside the paragraph
// only (insert a run of characters, delete or replace a range of characters;
// no element is inserted, split or merged) - and, every third case, <r>…</r>
// whose children are empty elements (insert a run of elements, delete or
// replace a range of whole elements).  Local edits go
// through FindPos + Edit, the others' edits are delivered in a causal order
// with the author's version vector.  After every execution the paragraph's
// complete child list (text pieces with ids, characters, removedAt) is
// expanded into characters and compared with the character-level model
// (Crdt/TreeText.v through Corr/TreeText.v).
//
// One renaming is applied when rendering: json.Tree issues the ticket of an
// inserted text node right before the ticket of the edit itself (same actor,
// same lamport, neighbouring delimiters).  The model has one ticket per edit;
// the harness renders a content ticket as the edit's ticket.  Every comparison
// the implementation makes between tickets of different edits is decided by
// lamport and actor (different actors or different changes) or by the order
// of the delimiters, which is the same for the two tickets of one edit.

import (
	"fmt"
	"os"
	"path/filepath"

	"verifharness/internal/coqfmt"
	"verifharness/internal/rng"

	"github.com/yorkie-team/yorkie/pkg/document/crdt"
	"github.com/yorkie-team/yorkie/pkg/document/time"
)

func init() { register("treetext", runTreeText) }

type ttOp struct {
	author   int
	from, to *crdt.TreePos
	content  string
	ctks     []*time.Ticket // tickets of the inserted nodes (one text node, or one per element)
	tk       *time.Ticket   // ticket of the edit
	vv       time.VersionVector
}

// ttName is what a node ticket is rendered as: the edit's ticket and the node's place in the edit.
type ttName struct {
	tk  *time.Ticket
	off int
}

type ttReplica struct {
	tree      *crdt.Tree
	p         *crdt.TreeNode
	lamport   int64
	vv        time.VersionVector
	delivered []int
}

var (
	ttRootTk = time.NewTicket(0, 1, time.InitialActorID)
	ttParaTk = time.NewTicket(0, 2, time.InitialActorID)
)

// newTTReplica: <r><p></p></r> with p as the edited parent, or (elems) <r></r> with the root as the
// edited parent whose children are empty elements.
func newTTReplica(n int, elems bool) *ttReplica {
	root := crdt.NewTreeNode(crdt.NewTreeNodeID(ttRootTk, 0), "r", nil)
	if elems {
		return &ttReplica{tree: crdt.NewTree(root, time.InitialTicket), p: root, vv: time.NewVersionVector(), delivered: make([]int, n)}
	}
	p := crdt.NewTreeNode(crdt.NewTreeNodeID(ttParaTk, 0), "p", nil)
	if err := root.Append(p); err != nil {
		panic(err)
	}
	return &ttReplica{tree: crdt.NewTree(root, time.InitialTicket), p: p, vv: time.NewVersionVector(), delivered: make([]int, n)}
}

// ttChars expands the parent's children (tombstones included) into characters: a text piece
// into its characters, an empty element into one character (its type letter).
func ttChars(rp *ttReplica, rename map[string]ttName, elems bool) ([]string, bool) {
	var out []string
	for _, ch := range rp.p.Index.Children(true) {
		nd := ch.Value
		if nd.IsText() == elems {
			return nil, false
		}
		tk, base := nd.ID().CreatedAt, 0
		if r, ok := rename[tk.Key()]; ok {
			tk, base = r.tk, r.off
		}
		if elems {
			if len(nd.Index.Children(true)) != 0 {
				return nil, false
			}
			out = append(out, coqfmt.App("mkCh", ticketCoq(tk), coqfmt.N(uint64(base)), coqfmt.N(uint64(nd.Type()[0])), optTk(nd.RemovedAt())))
			continue
		}
		v := nd.Value
		for i := 0; i < len(v); i++ {
			out = append(out, coqfmt.App("mkCh", ticketCoq(tk), coqfmt.N(uint64(nd.ID().Offset+i)), coqfmt.N(uint64(v[i])), optTk(nd.RemovedAt())))
		}
	}
	return out, true
}

// ttLive is the number of visible characters (elements) under the parent.
func ttLive(rp *ttReplica, elems bool) int {
	if !elems {
		return len(ttText(rp))
	}
	n := 0
	for _, ch := range rp.p.Index.Children(true) {
		if !ch.Value.IsRemoved() {
			n++
		}
	}
	return n
}

func ttText(rp *ttReplica) string {
	s := ""
	for _, ch := range rp.p.Index.Children(true) {
		if !ch.Value.IsRemoved() {
			s += ch.Value.Value
		}
	}
	return s
}

// ttPos renders a TreePos under the edited parent: the head, or "after character (ticket, k)".
// For an element sibling the offset FindPos writes (the child index) carries no information.
func ttPos(rp *ttReplica, pos *crdt.TreePos, rename map[string]ttName, elems bool) (string, bool) {
	if pos.ParentID.CreatedAt.Compare(rp.p.ID().CreatedAt) != 0 {
		return "", false
	}
	l := pos.LeftSiblingID
	if l.CreatedAt.Compare(rp.p.ID().CreatedAt) == 0 {
		return "PHead", true
	}
	tk, base := l.CreatedAt, 0
	if r, ok := rename[tk.Key()]; ok {
		tk, base = r.tk, r.off
	}
	if elems {
		return coqfmt.App("PAfter", ticketCoq(tk), coqfmt.N(uint64(base))), true
	}
	if l.Offset == 0 {
		return "", false
	}
	return coqfmt.App("PAfter", ticketCoq(tk), coqfmt.N(uint64(l.Offset-1))), true
}

func treeTextCase(r *rng.R, res *Result, elems bool) (string, bool, []Violation) {
	var viol []Violation
	nrep := r.Range(2, 3)
	reps := make([]*ttReplica, nrep)
	for i := range reps {
		reps[i] = newTTReplica(nrep, elems)
	}
	actor := func(i int) time.ActorID { return actorOf(uint64(i + 1)) }
	byAuthor := make([][]*ttOp, nrep)
	rename := map[string]ttName{}
	var steps []string
	nontriv := false
	concurrent := 0
	unsupported := false

	exec := func(i int, op *ttOp, local bool, idx ...int) {
		rp := reps[i]
		var vv time.VersionVector
		if !local {
			vv = op.vv
		}
		var contents []*crdt.TreeNode
		if op.content != "" && !elems {
			contents = []*crdt.TreeNode{crdt.NewTreeNode(crdt.NewTreeNodeID(op.ctks[0], 0), "text", nil, op.content)}
		}
		if elems {
			for k := range op.content {
				contents = append(contents, crdt.NewTreeNode(crdt.NewTreeNodeID(op.ctks[k], 0), string(op.content[k]), nil))
			}
		}
		d := int64(len(op.ctks) + 2)
		issue := func() *time.Ticket { d++; return time.NewTicket(op.tk.Lamport(), uint32(d), op.tk.ActorID()) }
		_, _, _, err := rp.tree.Edit(op.from, op.to, contents, 0, op.tk, issue, vv, local)
		pf, ok1 := ttPos(rp, op.from, rename, elems)
		pt, ok2 := ttPos(rp, op.to, rename, elems)
		chars, ok3 := ttChars(rp, rename, elems)
		if !ok1 || !ok2 || !ok3 {
			unsupported = true
			res.count("skipped.position-or-content-outside-the-fragment")
			return
		}
		var vals []string
		for k := 0; k < len(op.content); k++ {
			vals = append(vals, coqfmt.N(uint64(op.content[k])))
		}
		top := coqfmt.App("TTEdit", pf, pt, coqfmt.List(vals), ticketCoq(op.tk), textVVCoq(vv))
		if local && len(idx) == 2 {
			// the model computes the positions from the indices itself (FindPos)
			top = coqfmt.App("TTLocal", coqfmt.Nat(idx[0]), coqfmt.Nat(idx[1]), coqfmt.List(vals), ticketCoq(op.tk))
		}
		steps = append(steps, coqfmt.Pair(coqfmt.Pair(coqfmt.Pair(coqfmt.Nat(i), top), coqfmt.Bool(err != nil)), coqfmt.List(chars)))
	}
	deliverable := func(j int) []*ttOp {
		var out []*ttOp
		rp := reps[j]
		for a := 0; a < nrep; a++ {
			if a == j || rp.delivered[a] >= len(byAuthor[a]) {
				continue
			}
			op := byAuthor[a][rp.delivered[a]]
			ok := true
			for act, l := range op.vv {
				if act == actor(a) {
					continue
				}
				if have, _ := rp.vv.Get(act); have < l {
					ok = false
				}
			}
			if ok {
				out = append(out, op)
			}
		}
		return out
	}
	deliver := func(j int, op *ttOp) {
		rp := reps[j]
		for act, l := range rp.vv {
			if have, _ := op.vv.Get(act); have < l {
				concurrent++
				break
			}
		}
		exec(j, op, false)
		rp.delivered[op.author]++
		for act, l := range op.vv {
			if have, _ := rp.vv.Get(act); have < l {
				rp.vv.Set(act, l)
			}
		}
		if op.tk.Lamport() > rp.lamport {
			rp.lamport = op.tk.Lamport()
		}
	}

	n := r.Range(4, 16)
	for s := 0; s < n && !unsupported; s++ {
		i := r.Intn(nrep)
		if r.Chance(2, 5) {
			if cand := deliverable(i); len(cand) > 0 {
				deliver(i, cand[r.Intn(len(cand))])
				res.count("step.deliver")
				continue
			}
		}
		rp := reps[i]
		ln := ttLive(rp, elems)
		from := r.Intn(ln + 1)
		to := from
		if ln > from && r.Chance(1, 2) {
			to = from + r.Range(1, min(4, ln-from))
		}
		content := ""
		if to == from || r.Chance(1, 2) {
			for k, m := 0, r.Range(1, 3); k < m; k++ {
				content += string(rune('a' + r.Intn(26)))
			}
		}
		// tree indexes: 0 is in front of <p>, 1 is the start of the paragraph; an empty element
		// under the root takes two index positions
		fi, ti := 1+from, 1+to
		if elems {
			fi, ti = 2*from, 2*to
		}
		fp, err1 := rp.tree.FindPos(fi)
		tp, err2 := rp.tree.FindPos(ti)
		if err1 != nil || err2 != nil {
			continue
		}
		rp.lamport++
		nnodes := 1
		if elems {
			nnodes = len(content)
		}
		var ctks []*time.Ticket
		tk := time.NewTicket(rp.lamport, uint32(nnodes+1), actor(i))
		for k := 0; k < nnodes; k++ {
			ctk := time.NewTicket(rp.lamport, uint32(k+1), actor(i))
			ctks = append(ctks, ctk)
			rename[ctk.Key()] = ttName{tk, k}
		}
		rp.vv.Set(actor(i), rp.lamport)
		op := &ttOp{author: i, from: fp, to: tp, content: content, ctks: ctks, tk: tk, vv: rp.vv.DeepCopy()}
		byAuthor[i] = append(byAuthor[i], op)
		exec(i, op, true, from, to)
		rp.delivered[i]++
		if to > from {
			res.count("step.local-delete")
		} else {
			res.count("step.local-insert")
		}
	}
	for progress := true; progress && !unsupported; {
		progress = false
		for j := 0; j < nrep; j++ {
			if cand := deliverable(j); len(cand) > 0 {
				deliver(j, cand[r.Intn(len(cand))])
				res.count("step.deliver")
				progress = true
			}
		}
	}
	if !unsupported {
		for j := 1; j < nrep; j++ {
			if reps[j].tree.ToXML() != reps[0].tree.ToXML() {
				viol = append(viol, Violation{Kind: "tree-text-diverged", Detail: fmt.Sprintf("after every edit reached every replica: replica 0 shows %s, replica %d shows %s", reps[0].tree.ToXML(), j, reps[j].tree.ToXML())})
				break
			}
		}
	}
	if concurrent > 0 {
		nontriv = true
		res.count("case.with-concurrent-edits")
	}
	return coqfmt.App("KTreeText", coqfmt.Nat(nrep), coqfmt.List(steps)), nontriv, viol
}

func runTreeText(cfg *config) error {
	r := rng.New(cfg.seed)
	res := newResult("treetext", cfg.seed)
	var cases []string
	seen := distinct{}
	for i := 0; i < cfg.n; i++ {
		elems := i%3 == 2
		if elems {
			res.count("case.element-siblings")
		} else {
			res.count("case.text-in-one-element")
		}
		c, nontriv, viol := treeTextCase(r.Fork(), res, elems)
		cases = append(cases, c)
		if len(viol) > 0 && len(res.Violations) < 5 {
			v := viol[0]
			v.Detail = fmt.Sprintf("case %d: %s", i, v.Detail)
			v.Replay = c
			res.Violations = append(res.Violations, v)
		}
		if nontriv {
			seen.add(c)
		}
		if len(res.Samples) < 2 {
			res.Samples = append(res.Samples, c)
		}
	}
	res.Evaluations = len(cases)
	res.Nontrivial = len(seen)
	res.Rule = "2-3 replicas of the real crdt.Tree holding <r><p>text</p></r> (two thirds; random local edits inside the paragraph: insert 1-3 characters, delete or replace 1-4) or <r>empty elements</r> (one third; insert 1-3 elements, delete or replace 1-4 whole elements) through FindPos+Edit, random causal delivery of the others' edits with the author's version vector, then quiescence; after every execution the paragraph's complete child list (ids, characters, removedAt) is compared with the model; non-trivial = some edit was executed on a replica that held edits its author had not seen; distinct = distinct rendered case"
	f := filepath.Join(cfg.out, "cases_treetext.v")
	src := coqfmt.File([]string{"From YV Require Import Corr.TreeText."}, "treetextcase", "mismatches treetextcheck", cases)
	if err := os.WriteFile(f, []byte(src), 0o644); err != nil {
		return err
	}
	res.CaseFiles = []string{f}
	return res.write(cfg.out)
}
