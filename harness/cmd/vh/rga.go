package main

// Engine rga: the real crdt.Array / RGATreeList driven directly with random
// low-level calls (insert-after, move-after, delete, set, purge) whose tickets
// imitate concurrent replicas; every call's outcome and the final position
// list are handed to the model (Corr/RGA.v).  Index queries (Len/Get) are
// checked against the visible list on the implementation itself (C07).

import (
	"fmt"
	"os"
	"path/filepath"

	"verifharness/internal/coqfmt"
	"verifharness/internal/rng"

	"github.com/yorkie-team/yorkie/pkg/document/crdt"
	"github.com/yorkie-team/yorkie/pkg/document/time"
)

func init() { register("rga", runRga) }

func tkCoq(t *time.Ticket) string {
	if t == nil {
		return "None"
	}
	return ticketCoq(t)
}

func optTk(t *time.Ticket) string {
	if t == nil {
		return "None"
	}
	return coqfmt.Some(ticketCoq(t))
}

func rgaCase(r *rng.R, res *Result) (string, bool, []Violation) {
	var viol []Violation
	arr := crdt.NewArray(crdt.NewRGATreeList(), time.InitialTicket)
	lam := int64(1)
	newTicket := func() *time.Ticket {
		// mostly increasing lamports, sometimes an "old" one (a concurrent op arriving late)
		l := lam
		if r.Chance(1, 3) && lam > 2 {
			l = int64(r.Range(1, int(lam)))
		}
		lam++
		return time.NewTicket(l, uint32(r.Intn(3)), actorOf(uint64(r.Range(1, 4))))
	}
	used := map[string]bool{}
	fresh := func() *time.Ticket {
		for {
			t := newTicket()
			if !used[t.Key()] {
				used[t.Key()] = true
				return t
			}
		}
	}
	var elemIDs []*time.Ticket
	var ops []string
	nontriv := false
	nops := r.Range(3, 25)
	visible := func() []int64 {
		var v []int64
		for _, e := range arr.Elements() {
			if p, ok := e.(*crdt.Primitive); ok {
				if x, ok := p.Value().(int32); ok {
					v = append(v, int64(x))
				}
			}
		}
		return v
	}
	pickSlot := func() *time.Ticket {
		nodes := arr.AllRGANodes()
		if len(nodes) == 0 || r.Chance(1, 5) {
			return time.InitialTicket
		}
		return nodes[r.Intn(len(nodes))].PositionCreatedAt()
	}
	pickElem := func() *time.Ticket {
		if len(elemIDs) == 0 || r.Chance(1, 12) {
			return time.NewTicket(999, 0, actorOf(9)) // unknown id
		}
		return elemIDs[r.Intn(len(elemIDs))]
	}
	for j := 0; j < nops; j++ {
		var op string
		var err error
		switch r.Pick(6, 4, 4, 2, 2, 2) {
		case 0:
			t := fresh()
			var prev *time.Ticket
			if r.Chance(1, 4) && len(elemIDs) > 0 {
				prev = pickElem() // element identity as anchor (backward-compatible lookup)
			} else {
				prev = pickSlot()
			}
			val := int32(r.Intn(1000))
			p, _ := crdt.NewPrimitive(val, t)
			err = arr.InsertAfter(prev, p, t)
			if err == nil {
				elemIDs = append(elemIDs, t)
			}
			op = coqfmt.App("RInsert", ticketCoq(prev), ticketCoq(t), coqfmt.Z(int64(val)), ticketCoq(t))
			res.count("op.insert")
		case 1:
			t := fresh()
			prev, id := pickSlot(), pickElem()
			_, err = arr.MoveAfter(prev, id, t)
			op = coqfmt.App("RMove", ticketCoq(prev), ticketCoq(id), ticketCoq(t))
			res.count("op.move")
			nontriv = true
		case 2:
			t := fresh()
			id := pickElem()
			_, err = arr.DeleteByCreatedAt(id, t)
			op = coqfmt.App("RDelete", ticketCoq(id), ticketCoq(t))
			res.count("op.delete")
		case 3:
			t := fresh()
			id := pickElem()
			val := int32(r.Intn(1000))
			p, _ := crdt.NewPrimitive(val, t)
			_, err = arr.Set(id, p, t)
			if err == nil {
				elemIDs = append(elemIDs, t)
			}
			op = coqfmt.App("RSet", ticketCoq(id), ticketCoq(t), coqfmt.Z(int64(val)), ticketCoq(t))
			res.count("op.set")
		case 4: // purge a removed element, as GC does
			var cand []crdt.Element
			for _, n := range arr.AllRGANodes() {
				if e := n.Element(); e != nil && e.RemovedAt() != nil {
					cand = append(cand, e)
				}
			}
			if len(cand) == 0 {
				continue
			}
			e := cand[r.Intn(len(cand))]
			err = arr.Purge(e)
			op = coqfmt.App("RPurgeElem", ticketCoq(e.CreatedAt()))
			res.count("op.purge-elem")
			nontriv = true
		case 5: // purge a dead position
			var cand []*crdt.RGATreeListNode
			for _, n := range arr.AllRGANodes() {
				if n.Element() == nil {
					cand = append(cand, n)
				}
			}
			if len(cand) == 0 {
				continue
			}
			n := cand[r.Intn(len(cand))]
			pos := n.PositionCreatedAt()
			err = arr.RGATreeList().Purge(n)
			op = coqfmt.App("RPurgeSlot", ticketCoq(pos))
			res.count("op.purge-slot")
		}
		if err != nil {
			res.count("op.error")
		}
		vis := visible()
		vs := make([]string, len(vis))
		for i, x := range vis {
			vs[i] = coqfmt.Z(x)
		}
		ob := coqfmt.App("mkRobs", coqfmt.Bool(err != nil), coqfmt.List(vs), ticketCoq(arr.LastCreatedAt()))
		ops = append(ops, coqfmt.Pair(op, ob))
		// C07 on the implementation: Len/Get agree with the visible list
		if arr.Len() != len(vis) {
			viol = append(viol, Violation{Kind: "len-mismatch", Detail: fmt.Sprintf("Len()=%d but %d visible elements", arr.Len(), len(vis))})
		}
		for i := range vis {
			e, gerr := arr.Get(i)
			if gerr != nil || e == nil {
				viol = append(viol, Violation{Kind: "get-mismatch", Detail: fmt.Sprintf("Get(%d) = nil/%v, visible %v", i, gerr, vis)})
				break
			}
			if p, ok := e.(*crdt.Primitive); !ok || int64(p.Value().(int32)) != vis[i] {
				viol = append(viol, Violation{Kind: "get-mismatch", Detail: fmt.Sprintf("Get(%d) differs from visible[%d]=%d", i, i, vis[i])})
				break
			}
		}
	}
	var slots []string
	for _, n := range arr.AllRGANodes() {
		var el *time.Ticket
		if e := n.Element(); e != nil {
			el = e.CreatedAt()
		}
		slots = append(slots, coqfmt.App("mkSlot", ticketCoq(n.PositionCreatedAt()), optTk(n.RemovedAt()), optTk(el)))
	}
	return coqfmt.App("KRga", coqfmt.List(ops), coqfmt.List(slots)), nontriv, viol
}

func runRga(cfg *config) error {
	r := rng.New(cfg.seed)
	res := newResult("rga", cfg.seed)
	var cases []string
	seen := distinct{}
	for i := 0; i < cfg.n; i++ {
		c, nontriv, viol := rgaCase(r.Fork(), res)
		cases = append(cases, c)
		for _, v := range viol {
			v.Detail = fmt.Sprintf("case %d: %s", i, v.Detail)
			v.Replay = c
			res.Violations = append(res.Violations, v)
		}
		if nontriv {
			seen.add(c)
		}
		if len(res.Samples) < 2 {
			res.Samples = append(res.Samples, c)
		}
	}
	res.Evaluations = len(cases)
	res.Nontrivial = len(seen)
	// finding P13 replayed on the real structures (Proofs/ArrayWitness.v)
	if st, api := p13Witness(); true {
		res.Notes = append(res.Notes, "finding P13 (Proofs/ArrayWitness.v set_after_move_lands_at_the_old_slot) on the real code: crdt.Array after insert 10, insert 20, move 10 behind 20, Set(10 := 99) shows "+st+"; through Document.Update: "+api)
	}
	res.Rule = "random call sequences (InsertAfter with position or element anchors, MoveAfter, DeleteByCreatedAt, Set, purge of removed elements and dead positions; tickets from 4 actors with partly out-of-order lamports; some unknown ids) on the real crdt.Array; non-trivial = contains a move or a purge; distinct = distinct rendered case"
	const shard = 250
	res.CaseShard = shard
	for k := 0; k*shard < len(cases); k++ {
		hi := (k + 1) * shard
		if hi > len(cases) {
			hi = len(cases)
		}
		f := filepath.Join(cfg.out, fmt.Sprintf("cases_rga_%d.v", k))
		src := coqfmt.File([]string{"From YV Require Import Corr.RGA2."}, "rgacase", "mismatches rgacheck_both", cases[k*shard:hi])
		if err := os.WriteFile(f, []byte(src), 0o644); err != nil {
			return err
		}
		res.CaseFiles = append(res.CaseFiles, f)
	}
	return res.write(cfg.out)
}
