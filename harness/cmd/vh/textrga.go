package main

// Engine textrga: the real crdt.Text on several replicas, driven directly
// (local edits, causal delivery of the others' edits with the author's
// version vector); every execution goes to the character-level model
// (Crdt/TextRGA.v through Corr/Text.v) with the replica's complete node list
// afterwards, expanded into characters.

import (
	"fmt"
	"os"
	"path/filepath"
	"sort"

	"verifharness/internal/coqfmt"
	"verifharness/internal/rng"

	"github.com/yorkie-team/yorkie/pkg/document/crdt"
	"github.com/yorkie-team/yorkie/pkg/document/time"
)

func init() { register("textrga", runTextRGA) }

type textOp struct {
	author   int
	seq      int // per-author sequence number, 1..
	from, to *crdt.RGATreeSplitNodePos
	content  string
	tk       *time.Ticket
	vv       time.VersionVector // the author's vector when the edit was made (own entry included)
}

type textReplica struct {
	txt       *crdt.Text
	lamport   int64
	vv        time.VersionVector
	delivered []int // per author: how many of its ops were executed here
}

func posCoq(p *crdt.RGATreeSplitNodePos) (string, bool) {
	abs := p.ID().Offset() + p.RelativeOffset()
	if abs == 0 {
		if p.ID().CreatedAt().Compare(time.InitialTicket) != 0 {
			return "", false
		}
		return "PHead", true
	}
	return coqfmt.App("PAfter", ticketCoq(p.ID().CreatedAt()), coqfmt.N(uint64(abs-1))), true
}

func textVVCoq(vv time.VersionVector) string {
	if len(vv) == 0 {
		return "None"
	}
	var es []string
	for a, l := range vv {
		es = append(es, coqfmt.Pair(coqfmt.N(actorRank(a)), coqfmt.Z(l)))
	}
	sort.Strings(es)
	return coqfmt.Some(coqfmt.List(es))
}

func textChars(t *crdt.Text) []string {
	var out []string
	for _, nd := range t.Nodes() {
		v := nd.Value().Value()
		for i := 0; i < len(v); i++ {
			out = append(out, coqfmt.App("mkCh", ticketCoq(nd.ID().CreatedAt()), coqfmt.N(uint64(nd.ID().Offset()+i)), coqfmt.N(uint64(v[i])), optTk(nd.RemovedAt())))
		}
	}
	return out
}

func textCase(r *rng.R, res *Result) (string, bool, []Violation) {
	var viol []Violation
	nrep := r.Range(2, 3)
	reps := make([]*textReplica, nrep)
	for i := range reps {
		reps[i] = &textReplica{txt: crdt.NewText(crdt.NewRGATreeSplit(crdt.InitialTextNode()), time.InitialTicket), vv: time.NewVersionVector(), delivered: make([]int, nrep)}
	}
	actor := func(i int) time.ActorID { return actorOf(uint64(i + 1)) }
	var ops []*textOp
	byAuthor := make([][]*textOp, nrep)
	var steps []string
	nontriv := false
	concurrent := 0

	exec := func(i int, op *textOp, local bool, idx ...int) {
		rp := reps[i]
		var vv time.VersionVector
		if !local {
			vv = op.vv
		}
		_, _, _, _, _, err := rp.txt.Edit(op.from, op.to, op.content, nil, op.tk, vv)
		pf, ok1 := posCoq(op.from)
		pt, ok2 := posCoq(op.to)
		if !ok1 || !ok2 {
			res.count("skipped.position-at-offset-0-of-a-run")
			return
		}
		var vals []string
		for k := 0; k < len(op.content); k++ {
			vals = append(vals, coqfmt.N(uint64(op.content[k])))
		}
		top := coqfmt.App("TEdit", pf, pt, coqfmt.List(vals), ticketCoq(op.tk), textVVCoq(vv))
		if local && len(idx) == 2 {
			// the model computes the positions from the indices itself (findNodePos)
			top = coqfmt.App("TLocal", coqfmt.Nat(idx[0]), coqfmt.Nat(idx[1]), coqfmt.List(vals), ticketCoq(op.tk))
		}
		steps = append(steps, coqfmt.Pair(coqfmt.Pair(coqfmt.Pair(coqfmt.Nat(i), top), coqfmt.Bool(err != nil)), coqfmt.List(textChars(rp.txt))))
		if !rp.txt.CheckWeight() {
			viol = append(viol, Violation{Kind: "text-index-weight", Detail: fmt.Sprintf("replica %d: index tree weights are inconsistent after %s", i, top)})
		}
	}
	deliverable := func(j int) []*textOp {
		var out []*textOp
		rp := reps[j]
		for a := 0; a < nrep; a++ {
			if a == j || rp.delivered[a] >= len(byAuthor[a]) {
				continue
			}
			op := byAuthor[a][rp.delivered[a]]
			ok := true
			for act, l := range op.vv {
				if act == actor(a) {
					continue
				}
				if have, _ := rp.vv.Get(act); have < l {
					ok = false
				}
			}
			if ok {
				out = append(out, op)
			}
		}
		return out
	}
	deliver := func(j int, op *textOp) {
		rp := reps[j]
		// was anything executed here that the author had not seen (or the other way round)?
		for act, l := range rp.vv {
			if have, _ := op.vv.Get(act); have < l {
				concurrent++
				break
			}
		}
		exec(j, op, false)
		rp.delivered[op.author]++
		for act, l := range op.vv {
			if have, _ := rp.vv.Get(act); have < l {
				rp.vv.Set(act, l)
			}
		}
		if op.tk.Lamport() > rp.lamport {
			rp.lamport = op.tk.Lamport()
		}
	}

	n := r.Range(4, 16)
	for s := 0; s < n; s++ {
		i := r.Intn(nrep)
		if r.Chance(2, 5) {
			if cand := deliverable(i); len(cand) > 0 {
				deliver(i, cand[r.Intn(len(cand))])
				res.count("step.deliver")
				continue
			}
		}
		rp := reps[i]
		ln := len(rp.txt.String())
		from := r.Intn(ln + 1)
		to := from
		if ln > from && r.Chance(1, 2) {
			to = from + r.Range(1, min(4, ln-from))
		}
		content := ""
		if to == from || r.Chance(1, 2) {
			for k, m := 0, r.Range(1, 3); k < m; k++ {
				content += string(rune('a' + r.Intn(26)))
			}
		}
		fp, tp, err := rp.txt.CreateRange(from, to)
		if err != nil {
			continue
		}
		rp.lamport++
		tk := time.NewTicket(rp.lamport, 0, actor(i))
		rp.vv.Set(actor(i), rp.lamport)
		op := &textOp{author: i, seq: len(byAuthor[i]) + 1, from: fp, to: tp, content: content, tk: tk, vv: rp.vv.DeepCopy()}
		ops = append(ops, op)
		byAuthor[i] = append(byAuthor[i], op)
		exec(i, op, true, from, to)
		rp.delivered[i]++
		if to > from {
			res.count("step.local-delete")
		} else {
			res.count("step.local-insert")
		}
	}
	// quiescence: everything reaches everybody, in a causal order the engine picks
	for progress := true; progress; {
		progress = false
		for j := 0; j < nrep; j++ {
			if cand := deliverable(j); len(cand) > 0 {
				deliver(j, cand[r.Intn(len(cand))])
				res.count("step.deliver")
				progress = true
			}
		}
	}
	for j := 1; j < nrep; j++ {
		if reps[j].txt.String() != reps[0].txt.String() {
			viol = append(viol, Violation{Kind: "text-diverged", Detail: fmt.Sprintf("after every edit reached every replica: replica 0 shows %q, replica %d shows %q", reps[0].txt.String(), j, reps[j].txt.String())})
			break
		}
	}
	if concurrent > 0 {
		nontriv = true
		res.count("case.with-concurrent-edits")
	}
	return coqfmt.App("KText", coqfmt.Nat(nrep), coqfmt.List(steps)), nontriv, viol
}

// textWitness runs the scenario of Proofs/TextProofs.v del_time_order_dependent on the real
// crdt.Text in both orders: the case goes to the model like any other, and the tombstone times of
// the character both edits delete are reported in the notes.
func textWitness(res *Result) string {
	a1, a2, a3 := actorOf(1), actorOf(2), actorOf(3)
	base := time.NewTicket(1, 0, a1)
	pos := func(off int) *crdt.RGATreeSplitNodePos {
		if off == 0 {
			return crdt.NewRGATreeSplitNodePos(crdt.NewRGATreeSplitNodeID(time.InitialTicket, 0), 0)
		}
		return crdt.NewRGATreeSplitNodePos(crdt.NewRGATreeSplitNodeID(base, 0), off)
	}
	vv := func(m map[time.ActorID]int64) time.VersionVector {
		v := time.NewVersionVector()
		for a, l := range m {
			v.Set(a, l)
		}
		return v
	}
	type ed struct {
		from, to int
		content  string
		tk       *time.Ticket
		vv       time.VersionVector
	}
	ins := ed{0, 0, "abc", base, vv(map[time.ActorID]int64{a1: 1})}
	rm := ed{1, 2, "", time.NewTicket(2, 0, a2), vv(map[time.ActorID]int64{a1: 1, a2: 2})}
	ea := ed{1, 3, "x", time.NewTicket(5, 0, a1), vv(map[time.ActorID]int64{a1: 5, a2: 2})}
	eb := ed{0, 2, "yz", time.NewTicket(3, 0, a3), vv(map[time.ActorID]int64{a1: 1, a3: 3})}
	var steps []string
	var times []string
	for i, order := range [][]ed{{ins, rm, ea, eb}, {ins, rm, eb, ea}} {
		txt := crdt.NewText(crdt.NewRGATreeSplit(crdt.InitialTextNode()), time.InitialTicket)
		for _, e := range order {
			_, _, _, _, _, err := txt.Edit(pos(e.from), pos(e.to), e.content, nil, e.tk, e.vv)
			pf, _ := posCoq(pos(e.from))
			pt, _ := posCoq(pos(e.to))
			var vals []string
			for k := 0; k < len(e.content); k++ {
				vals = append(vals, coqfmt.N(uint64(e.content[k])))
			}
			top := coqfmt.App("TEdit", pf, pt, coqfmt.List(vals), ticketCoq(e.tk), textVVCoq(e.vv))
			steps = append(steps, coqfmt.Pair(coqfmt.Pair(coqfmt.Pair(coqfmt.Nat(i), top), coqfmt.Bool(err != nil)), coqfmt.List(textChars(txt))))
		}
		for _, nd := range txt.Nodes() {
			if nd.Value().Value() == "b" && nd.RemovedAt() != nil {
				times = append(times, fmt.Sprintf("order %d: %q shown, 'b' removedAt %s", i, txt.String(), nd.RemovedAt().ToTestString()))
			}
		}
	}
	res.Notes = append(res.Notes, "two concurrent deletions of a character whose earlier tombstone only one author knew (Proofs/TextProofs.v del_time_order_dependent), real crdt.Text: "+fmt.Sprint(times))
	return coqfmt.App("KText", coqfmt.Nat(2), coqfmt.List(steps))
}

// textWitnessGC runs the scenario of Proofs/GCWitness.v text_purged_stopper_changes_order (finding
// P4 in the text structure) on the real crdt.Text, once keeping the tombstone and once purging it.
func textWitnessGC(res *Result) string {
	a1, a7, a8, a9 := actorOf(1), actorOf(7), actorOf(8), actorOf(9)
	ta, tb, tc := time.NewTicket(1, 0, a1), time.NewTicket(2, 0, a1), time.NewTicket(3, 0, a1)
	head := crdt.NewRGATreeSplitNodePos(crdt.NewRGATreeSplitNodeID(time.InitialTicket, 0), 0)
	after := func(t *time.Ticket) *crdt.RGATreeSplitNodePos {
		return crdt.NewRGATreeSplitNodePos(crdt.NewRGATreeSplitNodeID(t, 0), 1)
	}
	vv := func(m map[time.ActorID]int64) time.VersionVector {
		v := time.NewVersionVector()
		for a, l := range m {
			v.Set(a, l)
		}
		return v
	}
	type ed struct {
		from, to *crdt.RGATreeSplitNodePos
		content  string
		tk       *time.Ticket
		vv       time.VersionVector
		purge    *time.Ticket
	}
	base := []ed{
		{head, head, "a", ta, nil, nil},
		{after(ta), after(ta), "b", tb, nil, nil},
		{after(tb), after(tb), "c", tc, nil, nil},
		{after(tb), after(tb), "x", time.NewTicket(10, 0, a9), vv(map[time.ActorID]int64{a1: 3, a9: 10}), nil},
		{after(ta), after(tb), "", time.NewTicket(5, 0, a7), vv(map[time.ActorID]int64{a1: 3, a7: 5}), nil},
	}
	m := ed{after(ta), after(ta), "m", time.NewTicket(6, 0, a8), vv(map[time.ActorID]int64{a1: 3, a7: 5, a8: 6}), nil}
	var steps []string
	var shown []string
	for i, order := range [][]ed{append(append([]ed{}, base...), m), append(append([]ed{}, base...), ed{purge: tb}, m)} {
		txt := crdt.NewText(crdt.NewRGATreeSplit(crdt.InitialTextNode()), time.InitialTicket)
		for _, e := range order {
			var top string
			var err error
			if e.purge != nil {
				for _, nd := range txt.Nodes() {
					if nd.ID().CreatedAt().Compare(e.purge) == 0 && nd.RemovedAt() != nil {
						top = coqfmt.App("TPurge", ticketCoq(e.purge), coqfmt.N(uint64(nd.ID().Offset())), coqfmt.N(uint64(len(nd.Value().Value()))))
						err = txt.RGATreeSplit().Purge(nd)
						break
					}
				}
				if top == "" {
					continue
				}
			} else {
				_, _, _, _, _, err = txt.Edit(e.from, e.to, e.content, nil, e.tk, e.vv)
				pf, _ := posCoq(e.from)
				pt, _ := posCoq(e.to)
				var vals []string
				for k := 0; k < len(e.content); k++ {
					vals = append(vals, coqfmt.N(uint64(e.content[k])))
				}
				top = coqfmt.App("TEdit", pf, pt, coqfmt.List(vals), ticketCoq(e.tk), textVVCoq(e.vv))
			}
			steps = append(steps, coqfmt.Pair(coqfmt.Pair(coqfmt.Pair(coqfmt.Nat(i), top), coqfmt.Bool(err != nil)), coqfmt.List(textChars(txt))))
		}
		shown = append(shown, txt.String())
	}
	res.Notes = append(res.Notes, fmt.Sprintf("finding P4 in crdt.Text (Proofs/GCWitness.v text_purged_stopper_changes_order): the late insert lands at %q with the tombstone kept and at %q with the tombstone purged", shown[0], shown[1]))
	return coqfmt.App("KText", coqfmt.Nat(2), coqfmt.List(steps))
}

func runTextRGA(cfg *config) error {
	r := rng.New(cfg.seed)
	res := newResult("textrga", cfg.seed)
	var cases []string
	seen := distinct{}
	cases = append(cases, textWitness(res), textWitnessGC(res))
	for i := 0; i < cfg.n; i++ {
		c, nontriv, viol := textCase(r.Fork(), res)
		cases = append(cases, c)
		if len(viol) > 0 && len(res.Violations) < 5 {
			v := viol[0]
			v.Detail = fmt.Sprintf("case %d: %s", i, v.Detail)
			v.Replay = c
			res.Violations = append(res.Violations, v)
		}
		if nontriv {
			seen.add(c)
		}
		if len(res.Samples) < 2 {
			res.Samples = append(res.Samples, c)
		}
	}
	res.Evaluations = len(cases)
	res.Nontrivial = len(seen)
	res.Rule = "2-3 replicas of the real crdt.Text; random local edits (insert 1-3 characters, delete or replace 1-4) through CreateRange+Edit, random causal delivery of the others' edits with the author's version vector, then quiescence; after every execution the replica's complete node list (ids, characters, removedAt) is compared with the model; non-trivial = some edit was executed on a replica that held edits its author had not seen; distinct = distinct rendered case"
	f := filepath.Join(cfg.out, "cases_textrga.v")
	src := coqfmt.File([]string{"From YV Require Import Corr.Text."}, "textcase", "mismatches textcheck", cases)
	if err := os.WriteFile(f, []byte(src), 0o644); err != nil {
		return err
	}
	res.CaseFiles = []string{f}
	return res.write(cfg.out)
}
