package main

import (
	"fmt"

	"github.com/yorkie-team/yorkie/pkg/document/crdt"
	"github.com/yorkie-team/yorkie/pkg/document/json"
	"github.com/yorkie-team/yorkie/pkg/document/presence"
	"github.com/yorkie-team/yorkie/pkg/document/time"
)

func init() { register("rgawit", runRGAWit) }

// p13Witness replays Proofs/ArrayWitness.v set_after_move_lands_at_the_old_slot on the real
// crdt.Array, and the same three calls through the Document API (which a user would make).
func p13Witness() (structure string, api string) {
	a1 := actorOf(1)
	tA, tB := time.NewTicket(1, 0, a1), time.NewTicket(2, 0, a1)
	arr := crdt.NewArray(crdt.NewRGATreeList(), time.InitialTicket)
	pA, _ := crdt.NewPrimitive(int32(10), tA)
	pB, _ := crdt.NewPrimitive(int32(20), tB)
	_ = arr.InsertAfter(time.InitialTicket, pA, tA)
	_ = arr.InsertAfter(tA, pB, tB)
	_, _ = arr.MoveAfter(tB, tA, time.NewTicket(3, 0, a1))
	p99, _ := crdt.NewPrimitive(int32(99), time.NewTicket(4, 0, a1))
	_, _ = arr.Set(tA, p99, time.NewTicket(4, 0, a1))
	structure = arr.Marshal()

	d := newDrained("p13", 1)
	_ = d.Update(func(root *json.Object, p *presence.Presence) error {
		a := root.SetNewArray("a")
		a.AddInteger(10)
		a.AddInteger(20)
		return nil
	})
	_ = d.Update(func(root *json.Object, p *presence.Presence) error {
		a := root.GetArray("a")
		a.MoveAfterByIndex(1, 0)
		return nil
	})
	afterMove := d.Marshal()
	_ = d.Update(func(root *json.Object, p *presence.Presence) error {
		root.GetArray("a").SetInteger(1, 99)
		return nil
	})
	api = fmt.Sprintf("%s -> SetInteger(1, 99) -> %s", afterMove, d.Marshal())
	return
}

func runRGAWit(cfg *config) error {
	s, a := p13Witness()
	fmt.Println("crdt.Array:", s)
	fmt.Println("Document  :", a)
	return nil
}
