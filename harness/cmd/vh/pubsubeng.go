package main

// Engine pubsub (property C17) on the real server/backend/pubsub.PubSub.
//
// Stream 1, sequential schedules: random sequences of whole calls (Subscribe,
// Unsubscribe, Publish by a non-subscribing actor, wait one publisher tick) on one
// document key with up to 4 subscribers; after every call PubSub.ClientIDs and
// what every subscriber has received are recorded; the sessions are replayed on
// the model (Corr/PubSub.v).  Engine-side oracle as well: a subscriber that was
// subscribed when Publish was called and is still subscribed after the tick has
// the event; after everybody unsubscribed ClientIDs is empty.
// Stream 2, concurrent stress (meant to run in the race-detector build): up to 4
// subscriber goroutines subscribing/unsubscribing in a loop and 3 publishers on
// one key, some consumers stalled; every publish records which subscriptions were
// established before the call; if such a subscription's Unsubscribe starts only
// after the delivery bound, it must have received the event or found its channel
// closed.  No panic (send on closed channel), no leak (ClientIDs empty at the end).

import (
	"context"
	"fmt"
	"net/http"
	"net/http/httptest"
	"os"
	"path/filepath"
	"sort"
	"strings"
	"sync"
	"sync/atomic"
	gotime "time"

	"verifharness/internal/coqfmt"
	"verifharness/internal/rng"
	"verifharness/internal/sim"

	"github.com/yorkie-team/yorkie/api/types"
	"github.com/yorkie-team/yorkie/api/types/events"
	"github.com/yorkie-team/yorkie/client"
	"github.com/yorkie-team/yorkie/pkg/document"
	yjson "github.com/yorkie-team/yorkie/pkg/document/json"
	"github.com/yorkie-team/yorkie/pkg/document/presence"
	"github.com/yorkie-team/yorkie/pkg/document/time"
	"github.com/yorkie-team/yorkie/pkg/key"
	"github.com/yorkie-team/yorkie/server/backend/pubsub"
	"github.com/yorkie-team/yorkie/server/logging"
)

func init() { register("pubsub", runPubSub) }

func psActor(n int) time.ActorID {
	var a time.ActorID
	a[10] = byte(n >> 8)
	a[11] = byte(n)
	return a
}

type liveSub struct {
	sid  int
	sub  *pubsub.DocSubscription
	mu   sync.Mutex
	recv []int
	done chan struct{}
}

func (l *liveSub) drain() {
	for e := range l.sub.Events() {
		l.mu.Lock()
		l.recv = append(l.recv, int(e.Actor[10])<<8|int(e.Actor[11]))
		l.mu.Unlock()
	}
	close(l.done)
}

func (l *liveSub) got() []int {
	l.mu.Lock()
	defer l.mu.Unlock()
	return append([]int(nil), l.recv...)
}

func runPubSubSession(seed uint64, idx int) (string, []string, string) {
	r := rng.New(seed*7919 + uint64(idx))
	ps := pubsub.New()
	ctx := context.Background()
	key := types.DocRefKey{ProjectID: "000000000000000000000001", DocID: types.ID(fmt.Sprintf("%024x", idx+1))}
	subs := map[int]*liveSub{}
	all := map[int]*liveSub{}
	nextSid, nextEv := 1, 1000
	var steps, log []string
	problem := ""
	observe := func() string {
		ids := ps.ClientIDs(key)
		var xs []int
		for _, a := range ids {
			xs = append(xs, int(a[10])<<8|int(a[11]))
		}
		sort.Ints(xs)
		idStrs := make([]string, len(xs))
		for i, x := range xs {
			idStrs[i] = coqfmt.Nat(x)
		}
		var sids []int
		for s := range all {
			sids = append(sids, s)
		}
		sort.Ints(sids)
		var recv []string
		for _, s := range sids {
			g := all[s].got()
			gs := make([]string, len(g))
			for i, e := range g {
				gs[i] = coqfmt.Nat(e)
			}
			recv = append(recv, fmt.Sprintf("(%s, %s)", coqfmt.Nat(s), coqfmt.List(gs)))
		}
		return fmt.Sprintf("(mkPobs %s %s)", coqfmt.List(idStrs), coqfmt.List(recv))
	}
	pendingEvents := map[int][]int{} // event -> subscribers that must receive it if still subscribed after the tick
	n := r.Range(4, 14)
	for j := 0; j < n; j++ {
		switch r.Pick(3, 2, 4, 3) {
		case 0:
			if len(subs) >= 4 {
				continue
			}
			sid := nextSid
			nextSid++
			sub, _, err := ps.Subscribe(ctx, psActor(sid), key, 0)
			if err != nil {
				problem = "Subscribe: " + err.Error()
				break
			}
			ls := &liveSub{sid: sid, sub: sub, done: make(chan struct{})}
			go ls.drain()
			subs[sid] = ls
			all[sid] = ls
			steps = append(steps, fmt.Sprintf("(PSub %s, %s)", coqfmt.Nat(sid), observe()))
			log = append(log, fmt.Sprintf("sub %d", sid))
		case 1:
			if len(subs) == 0 {
				continue
			}
			var ks []int
			for s := range subs {
				ks = append(ks, s)
			}
			sort.Ints(ks)
			sid := ks[r.Intn(len(ks))]
			ps.Unsubscribe(ctx, key, subs[sid].sub)
			<-subs[sid].done
			delete(subs, sid)
			steps = append(steps, fmt.Sprintf("(PUnsub %s, %s)", coqfmt.Nat(sid), observe()))
			log = append(log, fmt.Sprintf("unsub %d", sid))
		case 2:
			e := nextEv
			nextEv++
			var must []int
			for s := range subs {
				must = append(must, s)
			}
			pendingEvents[e] = must
			ps.Publish(ctx, psActor(e), events.DocEvent{Type: events.DocChanged, Key: key, Actor: psActor(e)})
			steps = append(steps, fmt.Sprintf("(PPub %s, %s)", coqfmt.Nat(e), observe()))
			log = append(log, fmt.Sprintf("pub %d", e))
		case 3:
			// at least two publisher windows, then until nothing has moved for two more (bounded)
			gotime.Sleep(230 * gotime.Millisecond)
			last := observe()
			for k := 0; k < 20; k++ {
				gotime.Sleep(120 * gotime.Millisecond)
				cur := observe()
				if cur == last {
					break
				}
				last = cur
			}
			steps = append(steps, fmt.Sprintf("(PTick, %s)", observe()))
			log = append(log, "tick")
			for e, must := range pendingEvents {
				for _, s := range must {
					if ls, ok := subs[s]; ok {
						found := false
						for _, g := range ls.got() {
							if g == e {
								found = true
							}
						}
						if !found && problem == "" {
							problem = fmt.Sprintf("subscriber %d was subscribed before event %d was published and is still subscribed two ticks later, but has not received it", s, e)
						}
					}
				}
				delete(pendingEvents, e)
			}
		}
		if problem != "" {
			break
		}
	}
	for sid, ls := range subs {
		ps.Unsubscribe(ctx, key, ls.sub)
		<-ls.done
		steps = append(steps, fmt.Sprintf("(PUnsub %s, %s)", coqfmt.Nat(sid), observe()))
		log = append(log, fmt.Sprintf("unsub %d", sid))
		delete(subs, sid)
	}
	if problem == "" && len(ps.ClientIDs(key)) != 0 {
		problem = "ClientIDs is not empty after every subscriber unsubscribed (leaked subscription)"
	}
	return fmt.Sprintf("(PCase %s)", coqfmt.List(steps)), log, problem
}

type stressReport struct {
	publishes, checked, delivered, closedInstead int
	problems                                     []string
}

func pubsubStress(seed uint64, dur gotime.Duration, withStalls bool) stressReport {
	ps := pubsub.New()
	ctx := context.Background()
	key := types.DocRefKey{ProjectID: "000000000000000000000001", DocID: "0000000000000000000000aa"}
	var rep stressReport
	var mu sync.Mutex
	addProblem := func(s string) {
		mu.Lock()
		if len(rep.problems) < 5 {
			rep.problems = append(rep.problems, s)
		}
		mu.Unlock()
	}
	type estab struct {
		ls        *liveSub
		closed    atomic.Bool
		unsubAt   atomic.Int64 // unix nano when Unsubscribe was called (0 = not yet)
		stalled   bool
		closedSaw atomic.Bool
	}
	var estMu sync.Mutex
	established := map[*estab]bool{}
	type pubRec struct {
		ev   int
		at   int64
		subs []*estab
	}
	var pubMu sync.Mutex
	var pubs []pubRec
	stop := make(chan struct{})
	var wg sync.WaitGroup
	var evCounter atomic.Int64
	evCounter.Store(2000)
	// subscribers
	for w := 0; w < 4; w++ {
		wg.Add(1)
		go func(w int) {
			defer wg.Done()
			defer func() {
				if r := recover(); r != nil {
					addProblem(fmt.Sprintf("subscriber goroutine panicked: %v", r))
				}
			}()
			r := rng.New(seed*31 + uint64(w))
			for round := 0; ; round++ {
				select {
				case <-stop:
					return
				default:
				}
				sub, _, err := ps.Subscribe(ctx, psActor(w+1), key, 0)
				if err != nil {
					addProblem("Subscribe: " + err.Error())
					return
				}
				e := &estab{ls: &liveSub{sid: w + 1, sub: sub, done: make(chan struct{})}, stalled: withStalls && r.Chance(1, 8)}
				if !e.stalled {
					go e.ls.drain()
				} else {
					close(e.ls.done)
				}
				estMu.Lock()
				established[e] = true
				estMu.Unlock()
				gotime.Sleep(gotime.Duration(r.Range(200, 2500)) * gotime.Millisecond)
				estMu.Lock()
				delete(established, e)
				estMu.Unlock()
				e.unsubAt.Store(gotime.Now().UnixNano())
				ps.Unsubscribe(ctx, key, sub)
				if !e.stalled {
					<-e.ls.done
				}
				if r.Chance(1, 3) {
					gotime.Sleep(gotime.Duration(r.Range(0, 30)) * gotime.Millisecond)
				}
			}
		}(w)
	}
	// publishers
	for p := 0; p < 3; p++ {
		wg.Add(1)
		go func(p int) {
			defer wg.Done()
			defer func() {
				if r := recover(); r != nil {
					addProblem(fmt.Sprintf("publisher goroutine panicked: %v", r))
				}
			}()
			r := rng.New(seed*77 + uint64(p))
			for {
				select {
				case <-stop:
					return
				default:
				}
				ev := int(evCounter.Add(1))
				estMu.Lock()
				var before []*estab
				for e := range established {
					before = append(before, e)
				}
				estMu.Unlock()
				at := gotime.Now().UnixNano()
				ps.Publish(ctx, psActor(ev), events.DocEvent{Type: events.DocChanged, Key: key, Actor: psActor(ev)})
				pubMu.Lock()
				pubs = append(pubs, pubRec{ev, at, before})
				pubMu.Unlock()
				gotime.Sleep(gotime.Duration(r.Range(1, 25)) * gotime.Millisecond)
			}
		}(p)
	}
	gotime.Sleep(dur)
	close(stop)
	wg.Wait()
	gotime.Sleep(1500 * gotime.Millisecond)
	// judge: a subscription established before Publish was called whose Unsubscribe started
	// later than the bound after the call must have the event (stalled consumers excepted: closed or not read)
	const bound = int64(1200 * gotime.Millisecond)
	for _, pr := range pubs {
		rep.publishes++
		if withStalls {
			// a stalled consumer holds the publisher's delivery loop for 100 ms per event until it is
			// declared dead: delivery times are unbounded in this phase; only the safety oracles apply
			continue
		}
		for _, e := range pr.subs {
			if e.stalled {
				continue
			}
			ua := e.unsubAt.Load()
			if ua != 0 && ua-pr.at < bound {
				continue
			}
			rep.checked++
			found := false
			for _, g := range e.ls.got() {
				if g == pr.ev {
					found = true
				}
			}
			if found {
				rep.delivered++
			} else {
				addProblem(fmt.Sprintf("event %d was published while subscription of actor %d was established (and stayed so for the delivery bound) but was never delivered", pr.ev, e.ls.sid))
			}
		}
	}
	if ids := ps.ClientIDs(key); len(ids) != 0 {
		addProblem(fmt.Sprintf("%d subscriptions left in the map after every subscriber unsubscribed", len(ids)))
	}
	return rep
}

// pubsubChurn: subscribers that come and go as fast as they can, so that the map entry is
// created and dropped all the time.  Between Subscribe returning and Unsubscribe being called a
// subscription must be listed by ClientIDs (the model's Member invariant); at the end nothing is left.
func pubsubChurn(seed uint64, dur gotime.Duration) (int, []string) {
	ps := pubsub.New()
	ctx := context.Background()
	key := types.DocRefKey{ProjectID: "000000000000000000000001", DocID: "0000000000000000000000bb"}
	var mu sync.Mutex
	var problems []string
	add := func(s string) {
		mu.Lock()
		if len(problems) < 4 {
			problems = append(problems, s)
		}
		mu.Unlock()
	}
	var checks atomic.Int64
	stop := make(chan struct{})
	var wg sync.WaitGroup
	for w := 0; w < 3; w++ {
		wg.Add(1)
		go func(w int) {
			defer wg.Done()
			defer func() {
				if r := recover(); r != nil {
					add(fmt.Sprintf("churn goroutine panicked: %v", r))
				}
			}()
			r := rng.New(seed*131 + uint64(w))
			me := psActor(w + 1)
			for {
				select {
				case <-stop:
					return
				default:
				}
				sub, _, err := ps.Subscribe(ctx, me, key, 0)
				if err != nil {
					add("Subscribe: " + err.Error())
					return
				}
				go func() {
					for range sub.Events() {
					}
				}()
				if r.Chance(1, 2) {
					gotime.Sleep(gotime.Duration(r.Intn(200)) * gotime.Microsecond)
				}
				listed := false
				for _, id := range ps.ClientIDs(key) {
					if id == me {
						listed = true
					}
				}
				checks.Add(1)
				if !listed {
					add(fmt.Sprintf("actor %d: Subscribe returned, Unsubscribe not yet called, but ClientIDs does not list the subscription (it lives in a Subscriptions object that is no longer in the map: it will never receive an event)", w+1))
				}
				ps.Unsubscribe(ctx, key, sub)
			}
		}(w)
	}
	wg.Add(1)
	go func() {
		defer wg.Done()
		n := 5000
		for {
			select {
			case <-stop:
				return
			default:
			}
			n++
			ps.Publish(ctx, psActor(n%60000), events.DocEvent{Type: events.DocChanged, Key: key, Actor: psActor(n % 60000)})
			gotime.Sleep(200 * gotime.Microsecond)
		}
	}()
	gotime.Sleep(dur)
	close(stop)
	wg.Wait()
	gotime.Sleep(250 * gotime.Millisecond)
	if ids := ps.ClientIDs(key); len(ids) != 0 {
		add(fmt.Sprintf("%d subscriptions left in the map after every subscriber unsubscribed", len(ids)))
	}
	return int(checks.Load()), problems
}

func runPubSub(cfg *config) error {
	_ = logging.SetLogLevel("error")
	res := newResult("pubsub", cfg.seed)
	res.Rule = "one evaluation = one call of a sequential session, or one (publish, established subscription) pair of the stress run; non-trivial = distinct sessions"
	x := parseX(cfg.extra)
	seen := distinct{}
	var cases []string
	// end to end first (the server sets the global log level when it starts: nothing else may be
	// running then): a real server, a client that watches, another that pushes - on a plain project
	// and on one whose event webhook endpoint is down
	if srv, err := sim.Start(cfg.out, sim.Options{}); err != nil {
		res.Violations = append(res.Violations, Violation{Kind: "harness-fatal", Detail: err.Error()})
	} else {
		for _, failingHook := range []bool{false, true} {
			n, probs := pubsubEndToEnd(cfg, srv, failingHook)
			res.Evaluations += n
			res.Dist[fmt.Sprintf("e2e.pushes-checked.failing-webhook=%v", failingHook)] = n
			for _, p := range probs {
				res.Violations = append(res.Violations, Violation{Kind: "watcher-not-told", Detail: p, Replay: map[string]any{"seed": cfg.seed, "failing_webhook": failingHook}})
			}
		}
		srv.Stop()
	}
	type out struct {
		c   string
		log []string
		p   string
	}
	nsess := cfg.n
	outs := make([]out, nsess)
	var wg sync.WaitGroup
	sem := make(chan struct{}, 24)
	for i := 0; i < nsess; i++ {
		wg.Add(1)
		sem <- struct{}{}
		go func(i int) {
			defer wg.Done()
			defer func() { <-sem }()
			defer func() {
				if r := recover(); r != nil {
					outs[i] = out{p: fmt.Sprintf("panic: %v", r)}
				}
			}()
			c, log, p := runPubSubSession(cfg.seed, i)
			outs[i] = out{c, log, p}
		}(i)
	}
	wg.Wait()
	for i, o := range outs {
		res.Evaluations += len(o.log)
		seen.add(strings.Join(o.log, ";"))
		if o.c != "" {
			cases = append(cases, o.c)
			res.CaseIndex = append(res.CaseIndex, map[string]any{"session": i, "calls": o.log})
		}
		if o.p != "" && len(res.Violations) < 6 {
			res.Violations = append(res.Violations, Violation{Kind: "lost-or-leaked", Detail: fmt.Sprintf("session %d: %s", i, o.p),
				Replay: map[string]any{"seed": cfg.seed, "session": i, "calls": o.log}})
		}
		if len(res.Samples) < 2 {
			res.Samples = append(res.Samples, map[string]any{"session": i, "calls": o.log})
		}
	}
	// stress
	dur := 4 * gotime.Second
	if cfg.tier == "thorough" {
		dur = 40 * gotime.Second
	}
	if v := x["stress"]; v != "" {
		var s int
		fmt.Sscanf(v, "%d", &s)
		dur = gotime.Duration(s) * gotime.Second
	}
	nstress := 4
	var swg sync.WaitGroup
	reps := make([]stressReport, nstress)
	for k := 0; k < nstress; k++ {
		swg.Add(1)
		go func(k int) {
			defer swg.Done()
			reps[k] = pubsubStress(cfg.seed+uint64(k)*1000, dur, k >= 2)
		}(k)
	}
	swg.Wait()
	for k, rep := range reps {
		res.Evaluations += rep.checked
		res.Dist["stress.publishes"] += rep.publishes
		res.Dist["stress.pairs-checked"] += rep.checked
		res.Dist["stress.delivered"] += rep.delivered
		for _, p := range rep.problems {
			if len(res.Violations) < 10 {
				res.Violations = append(res.Violations, Violation{Kind: "stress", Detail: fmt.Sprintf("stress run %d: %s", k, p),
					Replay: map[string]any{"seed": cfg.seed + uint64(k)*1000, "duration": dur.String()}})
			}
		}
	}
	nchecks, cprobs := pubsubChurn(cfg.seed, dur/2)
	res.Evaluations += nchecks
	res.Dist["churn.membership-checks"] = nchecks
	for _, p := range cprobs {
		res.Violations = append(res.Violations, Violation{Kind: "churn", Detail: p, Replay: map[string]any{"seed": cfg.seed, "duration": (dur / 2).String()}})
	}
	res.Nontrivial = len(seen)
	p1 := filepath.Join(cfg.out, "cases_pubsub_0.v")
	if err := os.WriteFile(p1, []byte(coqfmt.File([]string{"From YV Require Import Corr.PubSub."}, "pcase", "mismatches pcheck", cases)), 0o644); err != nil {
		return err
	}
	res.CaseFiles = []string{p1}
	return res.write(cfg.out)
}

// pubsubEndToEnd: PushPull step 04 publishes after every stored push.  One SDK client watches a
// document through the real RPC stack, another pushes changes one at a time; every push has to
// reach the watcher as a DocumentChanged event within the bound - also when the project has an
// event webhook whose endpoint answers 500.
func pubsubEndToEnd(cfg *config, srv *sim.Server, failingHook bool) (int, []string) {
	ctx := context.Background()
	var probs []string
	p, err := srv.NewProject(ctx, 0, 0)
	if err != nil {
		return 0, []string{"harness: " + err.Error()}
	}
	if failingHook {
		hook := httptest.NewServer(http.HandlerFunc(func(w http.ResponseWriter, r *http.Request) { w.WriteHeader(http.StatusInternalServerError) }))
		defer hook.Close()
		retries := uint64(0)
		evs := []string{string(types.DocRootChanged)}
		if _, err := srv.Be.DB.UpdateProjectInfo(ctx, p.ID, &types.UpdatableProjectFields{EventWebhookURL: &hook.URL, EventWebhookEvents: &evs, EventWebhookMaxRetries: &retries}); err != nil {
			return 0, []string{"harness: " + err.Error()}
		}
	}
	dial := func() (*client.Client, error) {
		c, err := client.Dial(srv.Addr, client.WithAPIKey(p.PublicKey))
		if err != nil {
			return nil, err
		}
		return c, c.Activate(ctx)
	}
	c1, err := dial()
	if err != nil {
		return 0, []string{"harness: " + err.Error()}
	}
	c2, err := dial()
	if err != nil {
		return 0, []string{"harness: " + err.Error()}
	}
	defer func() { _ = c1.Close(); _ = c2.Close() }()
	k := key.Key(fmt.Sprintf("e2e-%d-%v", cfg.seed, failingHook))
	d1, d2 := document.New(k), document.New(k)
	for _, d := range []*document.Document{d1, d2} {
		d := d
		go func() {
			for range d.Events() {
			}
		}()
	}
	if err := c1.Attach(ctx, d1, client.WithRealtimeSync()); err != nil {
		return 0, []string{"harness: " + err.Error()}
	}
	rch, cancel, err := c1.WatchStream(d1)
	if err != nil {
		return 0, []string{"harness: " + err.Error()}
	}
	defer cancel()
	changed := make(chan struct{}, 256)
	go func() {
		for resp := range rch {
			if resp.Err != nil {
				return
			}
			if resp.Type == client.DocumentChanged {
				changed <- struct{}{}
			}
		}
	}()
	if err := c2.Attach(ctx, d2); err != nil {
		return 0, []string{"harness: " + err.Error()}
	}
	drain := func(quiet gotime.Duration) {
		t := gotime.NewTimer(quiet)
		for {
			select {
			case <-changed:
				t.Reset(quiet)
			case <-t.C:
				return
			}
		}
	}
	drain(500 * gotime.Millisecond)
	n := 0
	for i := 0; i < 5; i++ {
		_ = d2.Update(func(root *yjson.Object, pr *presence.Presence) error { root.SetInteger("k", i); return nil })
		if err := c2.Sync(ctx); err != nil {
			probs = append(probs, fmt.Sprintf("push %d failed: %v", i, err))
			break
		}
		n++
		select {
		case <-changed:
		case <-gotime.After(4 * gotime.Second):
			probs = append(probs, fmt.Sprintf("failing webhook=%v: push %d of the other client was stored (the sync succeeded), the watcher got no DocumentChanged within 4 s", failingHook, i))
		}
		if len(probs) > 0 {
			break
		}
		drain(150 * gotime.Millisecond)
	}
	return n, probs
}
