package main

// Engine tree: the five pairwise concurrency matrices of
// test/complex/tree_concurrency_test.go (edit-edit 9x10x10, split-split 5x8x8,
// split-edit 9x2x8, style-style 4x6x6, edit-style 7x6x2 = 1592 pairs),
// transcribed; every pair is run on real Documents in both delivery orders and
// with both actor orders, with a third replica fed by a snapshot, and clone ==
// root is checked on every replica.  Unlike upstream's runner a divergent
// pair is a failure, not a skip.

import (
	"crypto/sha256"
	"fmt"
	"os"
	"strings"

	"github.com/yorkie-team/yorkie/api/converter"
	"github.com/yorkie-team/yorkie/pkg/document"
	"github.com/yorkie-team/yorkie/pkg/document/change"
	"github.com/yorkie-team/yorkie/pkg/document/json"
	"github.com/yorkie-team/yorkie/pkg/document/presence"
	"github.com/yorkie-team/yorkie/pkg/document/time"
	"github.com/yorkie-team/yorkie/pkg/key"
)

func init() { register("tree", runTree) }

type tsel int

const (
	selFront tsel = iota
	selMiddle
	selBack
	selAll
	selOneQuarter
	selThreeQuarter
)

type trange struct{ from, mid, to int }
type tranges struct {
	r    [2]trange
	desc string
}

func mk2(f1, m1, t1, f2, m2, t2 int, desc string) tranges {
	return tranges{[2]trange{{f1, m1, t1}, {f2, m2, t2}}, desc}
}

func pick(rs tranges, sel tsel, user int) (int, int) {
	iv := rs.r[user]
	switch sel {
	case selFront:
		return iv.from, iv.from
	case selMiddle:
		return iv.mid, iv.mid
	case selBack:
		return iv.to, iv.to
	case selAll:
		return iv.from, iv.to
	case selOneQuarter:
		p := (iv.from + iv.mid + 1) / 2
		return p, p
	case selThreeQuarter:
		p := (iv.mid + iv.to) / 2
		return p, p
	}
	return -1, -1
}

type topKind int

const (
	opEdit topKind = iota
	opMerge
	opSplit
	opStyleSet
	opStyleRemove
)

type top struct {
	sel        tsel
	kind       topKind
	content    *json.TreeNode
	splitLevel int
	key, value string
	desc       string
}

func parseSimpleXML(s string) []string {
	var res []string
	for i := 0; i < len(s); i++ {
		cur := ""
		if s[i] == '<' {
			for i < len(s) && s[i] != '>' {
				cur += string(s[i])
				i++
			}
			cur += string(s[i])
		} else {
			cur += string(s[i])
		}
		res = append(res, cur)
	}
	return res
}

func mergeRange(xml string, from, to int) (int, int) {
	content := parseSimpleXML(xml)
	st, ed := -1, -1
	for i := from + 1; i <= to && i < len(content); i++ {
		if st == -1 && len(content[i]) >= 2 && content[i][0] == '<' && content[i][1] == '/' {
			st = i - 1
		}
		if len(content[i]) >= 2 && content[i][0] == '<' && content[i][1] != '/' {
			ed = i
		}
	}
	return st, ed
}

func (o top) run(doc *document.Document, user int, rs tranges) error {
	from, to := pick(rs, o.sel, user)
	return doc.Update(func(root *json.Object, p *presence.Presence) error {
		t := root.GetTree("t")
		switch o.kind {
		case opStyleRemove:
			t.RemoveStyle(from, to, []string{o.key})
		case opStyleSet:
			t.Style(from, to, map[string]string{o.key: o.value})
		case opEdit, opSplit:
			t.Edit(from, to, o.content, o.splitLevel)
		case opMerge:
			f, e := mergeRange(t.ToXML(), from, to)
			if f != -1 && e != -1 && f < e {
				t.Edit(f, e, o.content, o.splitLevel)
			}
		}
		return nil
	})
}

type tmatrix struct {
	name    string
	initial json.TreeNode
	xml     string
	ranges  []tranges
	ops1    []top
	ops2    []top
}

func txt(v string) json.TreeNode { return json.TreeNode{Type: "text", Value: v} }
func el(t string, attrs map[string]string, ch ...json.TreeNode) json.TreeNode {
	return json.TreeNode{Type: t, Attributes: attrs, Children: ch}
}

func treeMatrices() []tmatrix {
	var ms []tmatrix
	// --- edit-edit
	{
		textA, textB := &json.TreeNode{Type: "text", Value: "A"}, &json.TreeNode{Type: "text", Value: "B"}
		elB, elI := &json.TreeNode{Type: "b", Children: []json.TreeNode{}}, &json.TreeNode{Type: "i", Children: []json.TreeNode{}}
		mkops := func(tn, en *json.TreeNode) []top {
			return []top{
				{selFront, opEdit, tn, 0, "", "", "insertTextFront"}, {selMiddle, opEdit, tn, 0, "", "", "insertTextMiddle"},
				{selBack, opEdit, tn, 0, "", "", "insertTextBack"}, {selAll, opEdit, tn, 0, "", "", "replaceText"},
				{selFront, opEdit, en, 0, "", "", "insertElementFront"}, {selMiddle, opEdit, en, 0, "", "", "insertElementMiddle"},
				{selBack, opEdit, en, 0, "", "", "insertElementBack"}, {selAll, opEdit, en, 0, "", "", "replaceElement"},
				{selAll, opEdit, nil, 0, "", "", "delete"}, {selAll, opMerge, nil, 0, "", "", "merge"},
			}
		}
		ms = append(ms, tmatrix{"edit-edit",
			el("root", nil, el("p", nil, txt("abc")), el("p", nil, txt("def")), el("p", nil, txt("ghi"))),
			`<root><p>abc</p><p>def</p><p>ghi</p></root>`,
			[]tranges{
				mk2(0, 5, 10, 5, 10, 15, "intersect-element"), mk2(1, 2, 3, 2, 3, 4, "intersect-text"),
				mk2(0, 5, 15, 5, 5, 10, "contain-element"), mk2(1, 2, 4, 2, 2, 3, "contain-text"),
				mk2(0, 5, 15, 6, 7, 9, "contain-mixed-type"), mk2(0, 5, 5, 5, 5, 10, "side-by-side-element"),
				mk2(1, 1, 2, 2, 3, 4, "side-by-side-text"), mk2(0, 5, 10, 0, 5, 10, "equal-element"),
				mk2(1, 2, 4, 1, 2, 4, "equal-text"),
			}, mkops(textA, elB), mkops(textB, elI)})
	}
	// --- split-split
	{
		splits := []top{
			{selFront, opSplit, nil, 1, "", "", "split-front-1"}, {selOneQuarter, opSplit, nil, 1, "", "", "split-one-quarter-1"},
			{selThreeQuarter, opSplit, nil, 1, "", "", "split-three-quarter-1"}, {selBack, opSplit, nil, 1, "", "", "split-back-1"},
			{selFront, opSplit, nil, 2, "", "", "split-front-2"}, {selOneQuarter, opSplit, nil, 2, "", "", "split-one-quarter-2"},
			{selThreeQuarter, opSplit, nil, 2, "", "", "split-three-quarter-2"}, {selBack, opSplit, nil, 2, "", "", "split-back-2"},
		}
		ms = append(ms, tmatrix{"split-split",
			el("root", nil, el("p", nil, el("p", nil, el("p", nil, el("p", nil, txt("abcd")), el("p", nil, txt("efgh"))), el("p", nil, txt("ijkl"))))),
			`<root><p><p><p><p>abcd</p><p>efgh</p></p><p>ijkl</p></p></p></root>`,
			[]tranges{
				mk2(3, 6, 9, 3, 6, 9, "equal-single"), mk2(3, 9, 15, 3, 9, 15, "equal-multiple"),
				mk2(3, 9, 15, 9, 12, 15, "A contains B same level"), mk2(2, 16, 22, 9, 12, 15, "A contains B multiple level"),
				mk2(3, 6, 9, 9, 12, 15, "B is next to A"),
			}, splits, splits})
	}
	// --- split-edit
	{
		it := map[string]string{"italic": "true"}
		content := &json.TreeNode{Type: "i", Children: []json.TreeNode{}}
		ms = append(ms, tmatrix{"split-edit",
			el("root", nil, el("p", nil,
				el("p", it, el("p", it, txt("abcd")), el("p", it, txt("efgh"))),
				el("p", it, txt("ijkl")))),
			`<root><p><p italic="true"><p italic="true">abcd</p><p italic="true">efgh</p></p><p italic="true">ijkl</p></p></root>`,
			[]tranges{
				mk2(2, 5, 8, 2, 5, 8, "equal"), mk2(2, 5, 8, 4, 5, 6, "A contains B"), mk2(2, 5, 8, 2, 8, 14, "B contains A"),
				mk2(2, 5, 8, 3, 4, 5, "left node(text)"), mk2(2, 5, 8, 5, 6, 7, "right node(text)"),
				mk2(2, 8, 14, 2, 5, 8, "left node(element)"), mk2(2, 8, 14, 8, 11, 14, "right node(element)"),
				mk2(2, 5, 8, 8, 11, 14, "A -> B"), mk2(8, 11, 14, 2, 5, 8, "B -> A"),
			},
			[]top{{selMiddle, opSplit, nil, 1, "", "", "split-1"}, {selMiddle, opSplit, nil, 2, "", "", "split-2"}},
			[]top{
				{selFront, opEdit, content, 0, "", "", "insertFront"}, {selMiddle, opEdit, content, 0, "", "", "insertMiddle"},
				{selBack, opEdit, content, 0, "", "", "insertBack"}, {selAll, opEdit, content, 0, "", "", "replace"},
				{selAll, opEdit, nil, 0, "", "", "delete"}, {selAll, opMerge, nil, 0, "", "", "merge"},
				{selAll, opStyleSet, nil, 0, "bold", "aa", "style"}, {selAll, opStyleRemove, nil, 0, "italic", "", "remove-style"},
			}})
	}
	// --- style-style
	{
		styles := []top{
			{selAll, opStyleRemove, nil, 0, "bold", "", "remove-bold"}, {selAll, opStyleSet, nil, 0, "bold", "aa", "set-bold-aa"},
			{selAll, opStyleSet, nil, 0, "bold", "bb", "set-bold-bb"}, {selAll, opStyleRemove, nil, 0, "italic", "", "remove-italic"},
			{selAll, opStyleSet, nil, 0, "italic", "aa", "set-italic-aa"}, {selAll, opStyleSet, nil, 0, "italic", "bb", "set-italic-bb"},
		}
		ms = append(ms, tmatrix{"style-style",
			el("root", nil, el("p", nil, txt("a")), el("p", nil, txt("b")), el("p", nil, txt("c"))),
			`<root><p>a</p><p>b</p><p>c</p></root>`,
			[]tranges{mk2(3, -1, 6, 3, -1, 6, "equal"), mk2(0, -1, 9, 3, -1, 6, "contain"), mk2(0, -1, 6, 3, -1, 9, "intersect"), mk2(0, -1, 3, 3, -1, 6, "side-by-side")},
			styles, styles})
	}
	// --- edit-style
	{
		red := map[string]string{"color": "red"}
		content := &json.TreeNode{Type: "p", Attributes: map[string]string{"italic": "true", "color": "blue"}, Children: []json.TreeNode{{Type: "text", Value: "d"}}}
		ms = append(ms, tmatrix{"edit-style",
			el("root", nil, el("p", red, txt("a")), el("p", red, txt("b")), el("p", red, txt("c"))),
			`<root><p color="red">a</p><p color="red">b</p><p color="red">c</p></root>`,
			[]tranges{
				mk2(3, 3, 6, 3, -1, 6, "equal"), mk2(0, 3, 9, 0, 3, 9, "equal multiple"), mk2(0, 3, 9, 3, -1, 6, "A contains B"),
				mk2(3, 3, 6, 0, -1, 9, "B contains A"), mk2(0, 3, 6, 3, -1, 9, "intersect"), mk2(0, 3, 3, 3, -1, 6, "A -> B"),
				mk2(3, 3, 6, 0, -1, 3, "B -> A"),
			},
			[]top{
				{selFront, opEdit, content, 0, "", "", "insertFront"}, {selMiddle, opEdit, content, 0, "", "", "insertMiddle"},
				{selBack, opEdit, content, 0, "", "", "insertBack"}, {selAll, opEdit, nil, 0, "", "", "delete"},
				{selAll, opEdit, content, 0, "", "", "replace"}, {selAll, opMerge, nil, 0, "", "", "merge"},
			},
			[]top{{selAll, opStyleRemove, nil, 0, "color", "", "remove-color"}, {selAll, opStyleSet, nil, 0, "bold", "aa", "set-bold-aa"}}})
	}
	return ms
}

func newTreeDoc(actor byte) *document.Document {
	d := document.New(key.Key("tree"))
	var a time.ActorID
	a[11] = actor
	d.SetActor(a)
	go func() {
		for range d.Events() {
		}
	}()
	return d
}

// serverLog is a minimal in-process change log: it assigns server sequences and
// hands every replica the changes of the others in log order.
type serverLog struct {
	changes []*change.Change
}

func roundTrip(c *change.Change) (*change.Change, error) {
	pb, err := converter.ToChangePack(change.NewPack(key.Key("tree"), change.InitialCheckpoint, []*change.Change{c}, nil, nil))
	if err != nil {
		return nil, err
	}
	p, err := converter.FromChangePack(pb)
	if err != nil {
		return nil, err
	}
	return p.Changes[0], nil
}

func (s *serverLog) push(d *document.Document) error {
	p := d.CreateChangePack()
	for _, c := range p.Changes {
		rc, err := roundTrip(c)
		if err != nil {
			return err
		}
		rc.SetServerSeq(int64(len(s.changes) + 1))
		s.changes = append(s.changes, rc)
	}
	return d.ApplyChangePack(change.NewPack(d.Key(), change.NewCheckpoint(d.Checkpoint().ServerSeq, p.Checkpoint.ClientSeq), nil, nil, nil))
}

func (s *serverLog) pull(d *document.Document) error {
	from := d.Checkpoint().ServerSeq
	var cs []*change.Change
	for _, c := range s.changes[from:] {
		if c.ID().ActorID() != d.ActorID() {
			rc, err := roundTrip(c)
			if err != nil {
				return err
			}
			rc.SetServerSeq(c.ServerSeq())
			cs = append(cs, rc)
		}
	}
	return d.ApplyChangePack(change.NewPack(d.Key(), change.NewCheckpoint(int64(len(s.changes)), d.Checkpoint().ClientSeq), cs, nil, nil))
}

func treeXML(d *document.Document) (root, clone string) {
	defer func() {
		if r := recover(); r != nil {
			clone = fmt.Sprintf("<panic %v>", r)
		}
	}()
	if t := d.RootObject().Get("t"); t != nil {
		root = t.Marshal()
	}
	clone = d.Root().GetTree("t").Marshal()
	return
}

type treeCaseResult struct {
	ok     bool
	detail string
}

// runTreePair runs one cell of a matrix in one configuration.
//
//	swapActors: replica 1 gets the larger actor id instead of the smaller
//	order2first: replica 2's change reaches the log first
func runTreePair(m *tmatrix, rs tranges, o1, o2 top, swapActors, order2first bool) (res treeCaseResult) {
	defer func() {
		if r := recover(); r != nil {
			res = treeCaseResult{false, fmt.Sprintf("panic: %v", r)}
		}
	}()
	a1, a2 := byte(1), byte(2)
	if swapActors {
		a1, a2 = 2, 1
	}
	d1, d2 := newTreeDoc(a1), newTreeDoc(a2)
	log := &serverLog{}
	if err := d1.Update(func(root *json.Object, p *presence.Presence) error {
		root.SetNewTree("t", m.initial)
		return nil
	}); err != nil {
		return treeCaseResult{false, "setup: " + err.Error()}
	}
	if err := log.push(d1); err != nil {
		return treeCaseResult{false, "setup push: " + err.Error()}
	}
	if err := log.pull(d2); err != nil {
		return treeCaseResult{false, "setup pull: " + err.Error()}
	}
	if got := d2.Root().GetTree("t").ToXML(); got != m.xml {
		return treeCaseResult{false, "initial xml " + got}
	}
	if err := o1.run(d1, 0, rs); err != nil {
		return treeCaseResult{false, "op1: " + err.Error()}
	}
	if err := o2.run(d2, 1, rs); err != nil {
		return treeCaseResult{false, "op2: " + err.Error()}
	}
	first, second := d1, d2
	if order2first {
		first, second = d2, d1
	}
	for _, step := range []func() error{
		func() error { return log.push(first) }, func() error { return log.push(second) },
		func() error { return log.pull(second) }, func() error { return log.pull(first) },
	} {
		if err := step(); err != nil {
			return treeCaseResult{false, "sync: " + err.Error()}
		}
	}
	x1, x2 := d1.Root().GetTree("t").ToXML(), d2.Root().GetTree("t").ToXML()
	if x1 != x2 || d1.Marshal() != d2.Marshal() {
		return treeCaseResult{false, fmt.Sprintf("diverged: d1 %s  d2 %s", x1, x2)}
	}
	for i, d := range []*document.Document{d1, d2} {
		r, c := treeXML(d)
		if r != c {
			return treeCaseResult{false, fmt.Sprintf("clone differs on replica %d: root %s clone %s", i+1, r, c)}
		}
	}
	// third, passive replica fed by a snapshot of the replayed log
	srvDoc := document.NewInternalDocument(key.Key("tree"))
	if err := srvDoc.ApplyChangePack(change.NewPack(key.Key("tree"), change.InitialCheckpoint.NextServerSeq(int64(len(log.changes))), log.changes, nil, nil), true); err != nil {
		return treeCaseResult{false, "server replay: " + err.Error()}
	}
	snap, err := converter.SnapshotToBytes(srvDoc.RootObject(), srvDoc.AllPresences())
	if err != nil {
		return treeCaseResult{false, "snapshot encode: " + err.Error()}
	}
	d3 := newTreeDoc(3)
	if err := d3.ApplyChangePack(change.NewPack(key.Key("tree"), change.NewCheckpoint(int64(len(log.changes)), 0), nil, srvDoc.VersionVector(), snap)); err != nil {
		return treeCaseResult{false, "snapshot apply: " + err.Error()}
	}
	if x3 := d3.Root().GetTree("t").ToXML(); x3 != x1 {
		return treeCaseResult{false, fmt.Sprintf("snapshot-fed replica differs: %s vs %s", x3, x1)}
	}
	return treeCaseResult{true, x1}
}

func runTree(cfg *config) error {
	res := newResult("tree", cfg.seed)
	ms := treeMatrices()
	total := 0
	for _, m := range ms {
		total += len(m.ranges) * len(m.ops1) * len(m.ops2)
	}
	if total != 1592 {
		return fmt.Errorf("transcribed matrix has %d pairs, upstream has 1592", total)
	}
	// drift check against the upstream table this was transcribed from
	if b, err := os.ReadFile("/repo/test/complex/tree_concurrency_test.go"); err == nil {
		sum := fmt.Sprintf("%x", sha256.Sum256(b))
		res.Notes = append(res.Notes, "sha256 of test/complex/tree_concurrency_test.go: "+sum)
		for _, want := range []string{"makeTwoRanges(0, 5, 10, 5, 10, 15", "makeTwoRanges(2, 16, 22, 9, 12, 15", "makeTwoRanges(8, 11, 14, 2, 5, 8", "makeTwoRanges(0, -1, 6, 3, -1, 9", "makeTwoRanges(3, 3, 6, 0, -1, 3"} {
			if !strings.Contains(string(b), want) {
				res.Notes = append(res.Notes, "upstream matrix changed: "+want+" not found")
			}
		}
	}
	configs := [][2]bool{{false, false}, {false, true}, {true, false}, {true, true}}
	seen := distinct{}
	for _, m := range ms {
		m := m
		for _, rs := range m.ranges {
			for _, o1 := range m.ops1 {
				for _, o2 := range m.ops2 {
					name := fmt.Sprintf("%s/%s(%s,%s)", m.name, rs.desc, o1.desc, o2.desc)
					for _, c := range configs {
						r := runTreePair(&m, rs, o1, o2, c[0], c[1])
						res.Evaluations++
						if !r.ok {
							res.count("fail." + m.name)
							if len(res.Violations) < 40 {
								res.Violations = append(res.Violations, Violation{Kind: "tree-pair", Detail: fmt.Sprintf("%s [swapActors=%v second-first=%v]: %s", name, c[0], c[1], r.detail),
									Replay: map[string]any{"pair": name, "swapActors": c[0], "order2first": c[1]}, Sig: map[string]any{"pair": name}})
							}
						} else {
							seen.add(name + r.detail)
						}
					}
					res.count("pairs." + m.name)
				}
			}
		}
	}
	res.Nontrivial = len(seen)
	res.Rule = "exhaustive: the 1592 pairs of upstream's five tree concurrency matrices x {2 actor orders} x {2 delivery orders}, each with a snapshot-fed third replica and clone==root on every replica; distinct = distinct (pair, resulting XML)"
	res.Samples = append(res.Samples, "edit-edit/intersect-element(insertTextFront,merge)", "split-split/A contains B multiple level(split-one-quarter-2,split-back-1)")
	return res.write(cfg.out)
}
