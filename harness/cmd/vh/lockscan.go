package main

// lockscan: a translator from /repo's server sources to the lock-acquisition
// sequences of every RPC handler and background task (property C16).
//
// For every function of server/rpc, server/packs, server/documents,
// server/clients, server/projects, server/revisions and server/server.go the
// body is walked in source order; a call of Lockers.Locker / LockerWithRLock /
// LockerWithTryLock is an acquisition whose class is the key constructor in its
// argument; a call of another scanned function (pkg.Func, receiver.Method, or a
// ClusterService procedure through the cluster client) is inlined.  Function
// literals started asynchronously (go, Background.AttachGoroutine, be.Go) are
// separate entry points.  Handlers release their locks with defer, so every
// acquisition is taken to be held until the entry point returns (conservative).

import (
	"fmt"
	"go/ast"
	"go/parser"
	"go/token"
	"os"
	"path/filepath"
	"sort"
	"strings"
)

type lockEv struct {
	acquire bool
	class   string
	mode    string // W R T(ry)
	callee  string
	pos     string
}

type scannedFn struct {
	name   string
	events []lockEv
	entry  bool
}

var lockClasses = map[string]string{
	"DocKey": "CDoc", "DocPullKey": "CPull", "DocAttachmentKey": "CAttach", "DocPushKey": "CPush",
	"SnapshotKey": "CSnapshot", "DocWatchStreamKey": "CWatch",
}

func scanLocks(repo string) (map[string]*scannedFn, []string, error) {
	fset := token.NewFileSet()
	dirs := []string{"server/rpc", "server/packs", "server/documents", "server/clients", "server/projects", "server/revisions", "server"}
	fns := map[string]*scannedFn{}
	var notes []string
	clusterMethods := map[string]bool{}
	type pending struct {
		pkg  string
		decl *ast.FuncDecl
	}
	var decls []pending
	for _, d := range dirs {
		ents, err := os.ReadDir(filepath.Join(repo, d))
		if err != nil {
			return nil, nil, err
		}
		for _, e := range ents {
			if e.IsDir() || !strings.HasSuffix(e.Name(), ".go") || strings.HasSuffix(e.Name(), "_test.go") {
				continue
			}
			f, err := parser.ParseFile(fset, filepath.Join(repo, d, e.Name()), nil, 0)
			if err != nil {
				return nil, nil, err
			}
			for _, dd := range f.Decls {
				if fd, ok := dd.(*ast.FuncDecl); ok && fd.Body != nil {
					decls = append(decls, pending{f.Name.Name, fd})
					if fd.Recv != nil && recvName(fd) == "clusterServer" && fd.Name.IsExported() {
						clusterMethods[fd.Name.Name] = true
					}
				}
			}
		}
	}
	for _, p := range decls {
		name := p.pkg + "." + p.decl.Name.Name
		if p.decl.Recv != nil {
			name = recvName(p.decl) + "." + p.decl.Name.Name
		}
		fn := &scannedFn{name: name}
		rn := ""
		if p.decl.Recv != nil {
			rn = recvName(p.decl)
		}
		if (rn == "yorkieServer" || rn == "adminServer" || rn == "clusterServer") && p.decl.Name.IsExported() {
			fn.entry = true
		}
		asyncN := 0
		var walk func(n ast.Node, into *scannedFn)
		walk = func(n ast.Node, into *scannedFn) {
			ast.Inspect(n, func(x ast.Node) bool {
				switch v := x.(type) {
				case *ast.GoStmt:
					asyncN++
					af := &scannedFn{name: fmt.Sprintf("%s$go%d", name, asyncN), entry: true}
					fns[af.name] = af
					walk(v.Call, af)
					return false
				case *ast.CallExpr:
					if id, ok := v.Fun.(*ast.Ident); ok {
						// a function of the same package
						into.events = append(into.events, lockEv{callee: p.pkg + "." + id.Name})
						return true
					}
					sel, ok := v.Fun.(*ast.SelectorExpr)
					if !ok {
						return true
					}
					m := sel.Sel.Name
					if m == "Locker" || m == "LockerWithRLock" || m == "LockerWithTryLock" {
						if xs, ok := sel.X.(*ast.SelectorExpr); ok && xs.Sel.Name == "Lockers" || isIdent(sel.X, "Lockers") {
							mode := map[string]string{"Locker": "W", "LockerWithRLock": "R", "LockerWithTryLock": "T"}[m]
							class := "C?"
							if len(v.Args) > 0 {
								switch a := v.Args[0].(type) {
								case *ast.CallExpr:
									switch f := a.Fun.(type) {
									case *ast.SelectorExpr:
										class = f.Sel.Name
									case *ast.Ident:
										class = f.Name
									}
								case *ast.Ident:
									class = a.Name
								}
							}
							if c, ok := lockClasses[class]; ok {
								class = c
							} else {
								class = "CTask"
							}
							into.events = append(into.events, lockEv{acquire: true, class: class, mode: mode, pos: fset.Position(v.Pos()).String()})
							return true
						}
					}
					if m == "AttachGoroutine" || m == "Go" {
						for _, a := range v.Args {
							if fl, ok := a.(*ast.FuncLit); ok {
								asyncN++
								af := &scannedFn{name: fmt.Sprintf("%s$async%d", name, asyncN), entry: true}
								fns[af.name] = af
								walk(fl.Body, af)
							}
						}
						return false
					}
					// calls of scanned functions
					if id, ok := sel.X.(*ast.Ident); ok {
						switch {
						case clusterMethods[m] && (strings.Contains(strings.ToLower(id.Name), "cluster") || id.Name == "cli"):
							into.events = append(into.events, lockEv{callee: "clusterServer." + m})
						case id.Name == "s" && rn != "":
							into.events = append(into.events, lockEv{callee: rn + "." + m})
						default:
							into.events = append(into.events, lockEv{callee: id.Name + "." + m})
						}
					}
				}
				return true
			})
		}
		walk(p.decl.Body, fn)
		fns[name] = fn
	}
	// background tasks: functions that start with a try-lock of a task key
	for _, fn := range fns {
		for _, e := range fn.events {
			if e.acquire && e.class == "CTask" {
				fn.entry = true
			}
			break
		}
	}
	return fns, notes, nil
}

func recvName(fd *ast.FuncDecl) string {
	if fd.Recv == nil || len(fd.Recv.List) == 0 {
		return ""
	}
	t := fd.Recv.List[0].Type
	if s, ok := t.(*ast.StarExpr); ok {
		t = s.X
	}
	if id, ok := t.(*ast.Ident); ok {
		return id.Name
	}
	return ""
}

func isIdent(e ast.Expr, name string) bool {
	id, ok := e.(*ast.Ident)
	return ok && id.Name == name
}

// flatten inlines callees (depth-limited, cycles cut).
func flatten(fns map[string]*scannedFn, name string, depth int, stack map[string]bool) []lockEv {
	fn := fns[name]
	if fn == nil || depth > 8 || stack[name] {
		return nil
	}
	stack[name] = true
	defer delete(stack, name)
	var out []lockEv
	for _, e := range fn.events {
		if e.acquire {
			out = append(out, e)
		} else {
			out = append(out, flatten(fns, e.callee, depth+1, stack)...)
		}
	}
	return out
}

type lockSeq struct {
	Entry string   `json:"entry"`
	Seq   []string `json:"seq"` // "CDoc/R@file:line"
}

func lockSequences(repo string) ([]lockSeq, error) {
	fns, _, err := scanLocks(repo)
	if err != nil {
		return nil, err
	}
	var names []string
	for n, f := range fns {
		if f.entry {
			names = append(names, n)
		}
	}
	sort.Strings(names)
	var out []lockSeq
	for _, n := range names {
		evs := flatten(fns, n, 0, map[string]bool{})
		if len(evs) == 0 {
			continue
		}
		ls := lockSeq{Entry: n}
		for _, e := range evs {
			p := e.pos
			if i := strings.Index(p, "/server/"); i >= 0 {
				p = p[i+1:]
			}
			ls.Seq = append(ls.Seq, fmt.Sprintf("%s/%s@%s", e.class, e.mode, p))
		}
		out = append(out, ls)
	}
	return out, nil
}
