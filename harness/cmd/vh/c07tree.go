package main

// Engine c07tree (property C07), two streams the plain c07 engine does not have.
//
// Tree paths and indices.  One Document with a tree is edited with the full tree
// alphabet (text, paragraphs, inline elements, deletions, merges, splits,
// styles), with remote edits from a peer and garbage collection in between, so
// that tombstones of text, of inline elements and of whole paragraphs sit inside
// the structure.  After every step a second tree is built from nothing but the
// visible XML; for every index 0..Len the live tree's index -> path conversion
// must equal the fresh tree's, for every such path the path -> index conversion
// too, and Len must equal the XML's token count: deleted content never
// influences visible indices, lengths or lookups.
//
// Rebuilt arrays.  One Document with an array edited by index (insert, delete,
// move, move first/last) with remote changes and GC; after every step the array
// is rebuilt by DeepCopy (what re-creating the clone does) and by
// BytesToArray(ArrayToBytes(a)) (what loading a snapshot does): Len and Get(i)
// for every i must agree with the live array and with its Marshal order.

import (
	"fmt"
	"regexp"
	"strings"

	"verifharness/internal/hist"
	"verifharness/internal/rng"

	"github.com/yorkie-team/yorkie/api/converter"
	"github.com/yorkie-team/yorkie/pkg/document"
	"github.com/yorkie-team/yorkie/pkg/document/crdt"
	"github.com/yorkie-team/yorkie/pkg/document/json"
	"github.com/yorkie-team/yorkie/pkg/document/presence"
)

func init() { register("c07tree", runC07Tree) }

var attrRe = regexp.MustCompile(`([A-Za-z0-9_]+)="([^"]*)"`)

// parseXMLTree parses the XML the histories' trees print (ASCII text, attributes in double quotes).
func parseXMLTree(xml string) (*json.TreeNode, error) {
	type frame struct{ n *json.TreeNode }
	var stack []*json.TreeNode
	var root *json.TreeNode
	i := 0
	for i < len(xml) {
		if xml[i] == '<' {
			j := strings.IndexByte(xml[i:], '>')
			if j < 0 {
				return nil, fmt.Errorf("unterminated tag")
			}
			tag := xml[i+1 : i+j]
			i += j + 1
			if strings.HasPrefix(tag, "/") {
				if len(stack) == 0 {
					return nil, fmt.Errorf("unbalanced")
				}
				done := stack[len(stack)-1]
				stack = stack[:len(stack)-1]
				if len(stack) == 0 {
					root = done
				} else {
					p := stack[len(stack)-1]
					p.Children = append(p.Children, *done)
				}
				continue
			}
			name := tag
			attrs := map[string]string{}
			if k := strings.IndexByte(tag, ' '); k >= 0 {
				name = tag[:k]
				for _, m := range attrRe.FindAllStringSubmatch(tag[k:], -1) {
					attrs[m[1]] = m[2]
				}
			}
			n := &json.TreeNode{Type: name}
			if len(attrs) > 0 {
				n.Attributes = attrs
			}
			stack = append(stack, n)
			continue
		}
		j := strings.IndexByte(xml[i:], '<')
		if j < 0 {
			j = len(xml) - i
		}
		if len(stack) == 0 {
			return nil, fmt.Errorf("text outside the root")
		}
		p := stack[len(stack)-1]
		p.Children = append(p.Children, json.TreeNode{Type: "text", Value: xml[i : i+j]})
		i += j
	}
	if root == nil {
		return nil, fmt.Errorf("no root")
	}
	return root, nil
}

// mixedPositions marks the indices whose path passes through an element with both text and
// element children.
func mixedPositions(root *json.TreeNode) map[int]bool {
	out := map[int]bool{}
	var walk func(n *json.TreeNode, start int, tainted bool) int
	walk = func(n *json.TreeNode, start int, tainted bool) int {
		hasText, hasElem := false, false
		for _, c := range n.Children {
			if c.Type == "text" {
				hasText = true
			} else {
				hasElem = true
			}
		}
		t := tainted || (hasText && hasElem)
		pos := start
		if t {
			out[pos] = true
		}
		for i := range n.Children {
			c := &n.Children[i]
			if c.Type == "text" {
				for k := 0; k < len(c.Value); k++ {
					pos++
					if t {
						out[pos] = true
					}
				}
			} else {
				end := walk(c, pos+1, t)
				pos = end + 1
				if t {
					out[pos] = true
				}
			}
		}
		return pos
	}
	walk(root, 0, false)
	return out
}

func pathsOf(t *crdt.Tree, n int) (out []string, err error) {
	defer func() {
		if r := recover(); r != nil {
			err = fmt.Errorf("panic: %v", r)
		}
	}()
	out = make([]string, n+1)
	for idx := 0; idx <= n; idx++ {
		pos, err := t.IndexTree.FindTreePos(idx)
		if err != nil {
			return nil, fmt.Errorf("FindTreePos(%d): %w", idx, err)
		}
		path, err := t.IndexTree.TreePosToPath(pos)
		if err != nil {
			return nil, fmt.Errorf("TreePosToPath(index %d): %w", idx, err)
		}
		out[idx] = fmt.Sprint(path)
	}
	return out, nil
}

func runC07Tree(cfg *config) error {
	r := rng.New(cfg.seed)
	res := newResult("c07tree", cfg.seed)
	res.Rule = "one evaluation = one index<->path conversion or one Len/Get compared; non-trivial = distinct (program, step) states"
	seen := distinct{}
	perKind := map[string]int{}
	viol := func(kind, detail string, replay any) {
		res.count("fail." + kind)
		if perKind[kind] < 3 && len(res.Violations) < 12 {
			perKind[kind]++
			res.Violations = append(res.Violations, Violation{Kind: kind, Detail: detail, Replay: replay})
		}
	}
	// ---------- tree paths ----------
	for i := 0; i < cfg.n; i++ {
		cr := r.Fork()
		d := newDrained("c07tree", 1)
		peer := newDrained("c07tree", 2)
		var sseq int64
		var steps []string
		_ = d.Update(func(root *json.Object, p *presence.Presence) error { hist.SetupEdits(root, "x"); return nil })
		if err := ship(d, peer, &sseq); err != nil {
			return err
		}
		bad := false
		for j, n := 0, cr.Range(4, 22); j < n && !bad; j++ {
			who := d
			if cr.Chance(1, 5) {
				who = peer
			}
			var edits []hist.Edit
			for k := cr.Range(1, 2); k > 0; k-- {
				e := hist.GenEdit(cr, "treex")
				if who == peer && (e.K == "xmrg" || e.K == "xspl") {
					// concurrent merges and splits beyond one pair are outside every property (C19 is pairwise)
					e = hist.Edit{K: "xdin", I: e.I}
				}
				edits = append(edits, e)
			}
			_, _ = hist.SafeUpdate(who, edits, "")
			steps = append(steps, fmt.Sprintf("%s %v", map[bool]string{true: "local", false: "peer"}[who == d], edits))
			if who == peer || cr.Chance(1, 4) {
				if err := ship(peer, d, &sseq); err != nil {
					break
				}
				if err := ship(d, peer, &sseq); err != nil {
					break
				}
				if cr.Bool() {
					d.GarbageCollect(d.VersionVector().DeepCopy())
					steps = append(steps, "gc")
				}
			}
			tr := d.Root().GetTree("x")
			xml := tr.ToXML()
			seen.add(xml + fmt.Sprint(i, j))
			replay := map[string]any{"seed": cfg.seed, "tree_program": i, "steps": steps, "xml": xml}
			ntok := len(hist.TreeTokens(xml)) - 2
			res.Evaluations++
			if tr.Len() != ntok {
				viol("tree-len-differs", fmt.Sprintf("tree program %d step %d: Len() = %d but the XML %s has %d index positions", i, j, tr.Len(), xml, ntok), replay)
				bad = true
				break
			}
			node, err := parseXMLTree(xml)
			if err != nil {
				viol("harness", "cannot parse "+xml+": "+err.Error(), replay)
				break
			}
			fresh := newDrained("fresh", 3)
			if err := fresh.Update(func(root *json.Object, p *presence.Presence) error { root.SetNewTree("x", *node); return nil }); err != nil {
				res.count("fresh-tree-rejected")
				continue
			}
			ft := fresh.Root().GetTree("x")
			if ft.ToXML() != xml {
				res.count("fresh-tree-differs")
				continue
			}
			live, err1 := pathsOf(tr.Tree, ntok)
			ref, err2 := pathsOf(ft.Tree, ntok)
			if err2 != nil {
				res.count("fresh-paths-error")
				continue
			}
			if err1 != nil {
				viol("tree-path-error", fmt.Sprintf("tree program %d step %d on %s: %v (a tree built from the same XML converts every index)", i, j, xml, err1), replay)
				bad = true
				break
			}
			mixed := mixedPositions(node)
			for idx := 0; idx <= ntok; idx++ {
				if mixed[idx] {
					// a path through a parent with both text and element children counts text chunks:
					// it depends on the internal chunking (upstream documents mixed content as unsupported by paths)
					res.count("skipped.mixed-content-position")
					continue
				}
				res.Evaluations += 2
				if live[idx] != ref[idx] {
					viol("tree-index-to-path-differs", fmt.Sprintf("tree program %d step %d on %s: index %d -> path %s, but %s on a tree built from the same XML without tombstones", i, j, xml, idx, live[idx], ref[idx]), replay)
					bad = true
					break
				}
				var path []int
				fmt.Sscan(strings.Trim(ref[idx], "[]"), &path)
				pos, _ := ft.Tree.IndexTree.FindTreePos(idx)
				p, _ := ft.Tree.IndexTree.TreePosToPath(pos)
				li, lerr := tr.Tree.IndexTree.PathToIndex(p)
				fi, ferr := ft.Tree.IndexTree.PathToIndex(p)
				if ferr != nil {
					continue
				}
				if lerr != nil || li != fi {
					viol("tree-path-to-index-differs", fmt.Sprintf("tree program %d step %d on %s: path %v -> index %d (%v), but %d on a tree built from the same XML without tombstones", i, j, xml, p, li, lerr, fi), replay)
					bad = true
					break
				}
			}
		}
	}
	// ---------- rebuilt arrays ----------
	for i := 0; i < cfg.n; i++ {
		cr := r.Fork()
		d := newDrained("c07arr", 1)
		peer := newDrained("c07arr", 2)
		var sseq int64
		var steps []string
		_ = d.Update(func(root *json.Object, p *presence.Presence) error { hist.SetupEdits(root, "a"); return nil })
		if err := ship(d, peer, &sseq); err != nil {
			return err
		}
		bad := false
		for j, n := 0, cr.Range(4, 26); j < n && !bad; j++ {
			who := d
			if cr.Chance(1, 5) {
				who = peer
			}
			var edits []hist.Edit
			for k := cr.Range(1, 2); k > 0; k-- {
				e := hist.GenEdit(cr, "arraymove")
				if e.K == "aset" {
					e = hist.Edit{K: "ains", I: e.I, V: e.V}
				}
				edits = append(edits, e)
			}
			_, _ = hist.SafeUpdate(who, edits, "")
			steps = append(steps, fmt.Sprintf("%s %v", map[bool]string{true: "local", false: "peer"}[who == d], edits))
			if who == peer || cr.Chance(1, 4) {
				if err := ship(peer, d, &sseq); err != nil {
					break
				}
				if err := ship(d, peer, &sseq); err != nil {
					break
				}
				if cr.Bool() {
					d.GarbageCollect(d.VersionVector().DeepCopy())
					steps = append(steps, "gc")
				}
			}
			arr, ok := d.RootObject().Get("a").(*crdt.Array)
			if !ok {
				break
			}
			live := arr.Marshal()
			replay := map[string]any{"seed": cfg.seed, "array_program": i, "steps": steps, "array": live}
			seen.add(live + fmt.Sprint(i, j))
			rebuilt := map[string]*crdt.Array{}
			if cp, err := arr.DeepCopy(); err == nil {
				rebuilt["DeepCopy"] = cp.(*crdt.Array)
			} else {
				viol("array-rebuild-error", "DeepCopy: "+err.Error(), replay)
			}
			if b, err := converter.ArrayToBytes(arr); err == nil {
				if back, err := converter.BytesToArray(b); err == nil {
					rebuilt["snapshot"] = back
				} else {
					viol("array-rebuild-error", "BytesToArray: "+err.Error(), replay)
				}
			}
			for how, ra := range rebuilt {
				res.Evaluations++
				if ra.Marshal() != live {
					viol("array-rebuilt-differs", fmt.Sprintf("array program %d step %d: rebuilt by %s shows %s, live %s", i, j, how, ra.Marshal(), live), replay)
					bad = true
					break
				}
				if ra.Len() != arr.Len() {
					viol("array-rebuilt-len-differs", fmt.Sprintf("array program %d step %d: Len() of the array rebuilt by %s = %d, live = %d, content %s", i, j, how, ra.Len(), arr.Len(), live), replay)
					bad = true
					break
				}
				for k := 0; k < arr.Len(); k++ {
					res.Evaluations++
					a, errA := arr.Get(k)
					b, errB := ra.Get(k)
					if errA != nil || errB != nil || a == nil || b == nil || a.Marshal() != b.Marshal() {
						viol("array-rebuilt-get-differs", fmt.Sprintf("array program %d step %d: Get(%d) of the array rebuilt by %s differs from the live array %s (%v, %v)", i, j, k, how, live, errA, errB), replay)
						bad = true
						break
					}
				}
				if bad {
					break
				}
			}
		}
	}
	res.Nontrivial = len(seen)
	return res.write(cfg.out)
}

var _ = document.New
