package main

// Engine undo (property C14).
//
// Stream 1, content edits (object set/delete, array insert/delete, text
// insert/delete/replace, counter increase on both widths): one Document, no
// remote changes.  Every Update is one step; the visible content is recorded
// after it.  Then a random walk of Undo / Redo / further Updates (which cut the
// redo branch off): after every Undo the content must equal the recorded content
// one step back, after every Redo one step forward, as far as the stacks reach
// (50 entries); CanUndo/CanRedo must agree with the walk.  The whole session is
// also written as a case for the history model (Corr/Hist.v).
// Stream 1b, the same with tree content edits (text and whole elements inside a
// tree, no splits), judged by the recorded XML only.
// Stream 2, approximate kinds (text/tree styles, array move and set-by-index,
// merges, splits): every Undo/Redo must return nil without panicking,
// Root().Marshal() must equal Marshal() afterwards, and a peer that receives all
// changes must end up with the author's content.

import (
	"fmt"
	"os"
	"path/filepath"
	"sort"
	"strings"
	"unicode/utf16"

	"verifharness/internal/coqfmt"
	"verifharness/internal/hist"
	"verifharness/internal/rng"

	"github.com/yorkie-team/yorkie/pkg/document"
	"github.com/yorkie-team/yorkie/pkg/document/crdt"
	"github.com/yorkie-team/yorkie/pkg/document/json"
	"github.com/yorkie-team/yorkie/pkg/document/presence"
)

func init() { register("undo", runUndo) }

type mop struct {
	k    string // inc32 inc64 set del ains adel text
	key  int
	i, n int
	v    int64
	s    string
}

func (m mop) coq() string {
	switch m.k {
	case "inc32":
		return fmt.Sprintf("(CInc32 %s)", coqfmt.Z(m.v))
	case "inc64":
		return fmt.Sprintf("(CInc64 %s)", coqfmt.Z(m.v))
	case "set":
		return fmt.Sprintf("(CAssign %s (Some %s))", coqfmt.Z(int64(m.key)), coqfmt.Z(m.v))
	case "del":
		return fmt.Sprintf("(CAssign %s None)", coqfmt.Z(int64(m.key)))
	case "ains":
		return fmt.Sprintf("(CArrIns %s %s)", coqfmt.Nat(m.i), coqfmt.Z(m.v))
	case "adel":
		return fmt.Sprintf("(CArrDel %s)", coqfmt.Nat(m.i))
	case "text":
		us := utf16.Encode([]rune(m.s))
		xs := make([]string, len(us))
		for i, u := range us {
			xs[i] = fmt.Sprint(u)
		}
		return fmt.Sprintf("(CText %s %s %s)", coqfmt.Nat(m.i), coqfmt.Nat(m.n), coqfmt.List(xs))
	}
	return "CNop"
}

func (m mop) String() string {
	return fmt.Sprintf("%s(key=%d i=%d n=%d v=%d s=%q)", m.k, m.key, m.i, m.n, m.v, m.s)
}

var undoStrs = []string{"a", "bc", "def", "\U0001F600", "x\U0001F600", "yz"}

// genMop draws an operation that is valid on the current document.
func genMop(r *rng.R, d *document.Document) mop { return genMopOn(r, d.Root()) }

// genMopOn draws an operation that is valid on the given (proxy) root.
func genMopOn(r *rng.R, root *json.Object) mop {
	alen := root.GetArray("a").Len()
	tlen := len(utf16.Encode([]rune(root.GetText("t").String())))
	for {
		switch r.Pick(2, 2, 4, 2, 4, 3, 6) {
		case 0:
			return mop{k: "inc32", v: []int64{1, -1, 7, 2147483647, -2147483648, 1000000}[r.Intn(6)]}
		case 1:
			return mop{k: "inc64", v: []int64{1, -3, 1 << 40, 9223372036854775807, -9223372036854775808}[r.Intn(5)]}
		case 2:
			return mop{k: "set", key: 1 + r.Intn(3), v: int64(r.Intn(100))}
		case 3:
			return mop{k: "del", key: 1 + r.Intn(3)}
		case 4:
			if alen == 0 {
				return mop{k: "ains", i: 0, v: int64(r.Intn(1000))}
			}
			return mop{k: "ains", i: 1 + r.Intn(alen), v: int64(r.Intn(1000))}
		case 5:
			if alen > 0 {
				return mop{k: "adel", i: r.Intn(alen)}
			}
		default:
			from := r.Intn(tlen + 1)
			n := 0
			if tlen > from && r.Bool() {
				n = 1 + r.Intn(min(3, tlen-from))
			}
			s := ""
			if n == 0 || r.Bool() {
				s = undoStrs[r.Intn(len(undoStrs))]
			}
			// never cut a surrogate pair (known finding P26, property C07)
			us := utf16.Encode([]rune(root.GetText("t").String()))
			bad := func(p int) bool { return p > 0 && p < len(us) && us[p] >= 0xDC00 && us[p] <= 0xDFFF }
			if bad(from) || bad(from+n) {
				continue
			}
			return mop{k: "text", i: from, n: n, s: s}
		}
	}
}

var keyNames = map[int]string{1: "k1", 2: "k2", 3: "k3"}

func applyMops(root *json.Object, ms []mop) {
	for _, m := range ms {
		switch m.k {
		case "inc32":
			root.GetCounter("n").Increase(int(int32(m.v)))
		case "inc64":
			root.GetCounter("c").Increase(m.v)
		case "set":
			root.GetObject("o").SetInteger(keyNames[m.key], int(m.v))
		case "del":
			root.GetObject("o").Delete(keyNames[m.key])
		case "ains":
			a := root.GetArray("a")
			if a.Len() == 0 {
				a.AddInteger(int(m.v))
			} else {
				a.InsertIntegerAfter(m.i-1, int(m.v))
			}
		case "adel":
			root.GetArray("a").Delete(m.i)
		case "text":
			root.GetText("t").Edit(m.i, m.i+m.n, m.s)
		}
	}
}

// observe reads the visible content the way the model records it.
func observe(d *document.Document) (string, string) {
	root := d.Root()
	var c32, c64 int64
	if c := root.GetCounter("n"); c != nil {
		switch v := c.Value().(type) {
		case int32:
			c32 = int64(v)
		case int64:
			c32 = v
		}
	}
	if c := root.GetCounter("c"); c != nil {
		switch v := c.Value().(type) {
		case int32:
			c64 = int64(v)
		case int64:
			c64 = v
		}
	}
	var pairs []string
	o := root.GetObject("o")
	prim := func(e any) int64 {
		if p, ok := e.(*crdt.Primitive); ok {
			switch v := p.Value().(type) {
			case int32:
				return int64(v)
			case int64:
				return v
			}
		}
		return -999999
	}
	var ks []int
	for k, name := range keyNames {
		if o.Object.Has(name) {
			ks = append(ks, k)
		}
	}
	sort.Ints(ks)
	for _, k := range ks {
		pairs = append(pairs, fmt.Sprintf("(%s, %s)", coqfmt.Z(int64(k)), coqfmt.Z(prim(o.Object.Get(keyNames[k])))))
	}
	var arr []string
	a := root.GetArray("a")
	for i := 0; i < a.Len(); i++ {
		arr = append(arr, fmt.Sprint(prim(a.Get(i))))
	}
	var txt []string
	for _, u := range utf16.Encode([]rune(root.GetText("t").String())) {
		txt = append(txt, fmt.Sprint(u))
	}
	coq := fmt.Sprintf("(mkObs %s %s %s %s %s)", coqfmt.Z(c32), coqfmt.Z(c64), coqfmt.List(pairs), coqfmt.List(arr), coqfmt.List(txt))
	return coq, coq
}

func pendingChanges(d *document.Document) int { return len(d.CreateChangePack().Changes) }

func runUndo(cfg *config) error {
	r := rng.New(cfg.seed)
	res := newResult("undo", cfg.seed)
	res.Rule = "one evaluation = one Undo or Redo call checked against the recorded content (or, for approximate kinds, against the no-failure / clone==root / peer oracles); non-trivial = distinct sessions"
	seen := distinct{}
	var cases []string
	perKind := map[string]int{}
	viol := func(kind, detail string, replay any, sig map[string]any) {
		res.count("fail." + kind)
		pk := fmt.Sprintf("%s|%v", kind, sig) // per kind and signature: a known finding must not use up the examples of a kind
		if perKind[pk] < 2 && len(res.Violations) < 20 {
			perKind[pk]++
			res.Violations = append(res.Violations, Violation{Kind: kind, Detail: detail, Replay: replay, Sig: sig})
		}
	}
	// ---------- stream 1: content edits with the model ----------
	type sessionOut struct {
		bad          bool
		kind, detail string
		steps, log   []string
		usedGC       bool
	}
	// one session of stream 1; quiet = a re-run for the signature of a failure (no counting);
	// noGC = the same program without its garbage-collection steps
	session := func(cr *rng.R, i int, noGC, quiet bool) sessionOut {
		d := newDrained("undo", 1)
		_ = d.Update(func(root *json.Object, p *presence.Presence) error {
			hist.SetupEdits(root, "oatcn")
			return nil
		})
		// the setup must not be undoable
		_ = d.ClearHistory()
		var steps []string // Coq
		var log []string   // human
		_, first := observe(d)
		recorded := []string{first} // contents along the current timeline
		pos := 0                    // index into recorded
		floor := 0                  // oldest index still reachable (stack capacity)
		bad := false
		long := i%10 == 9 // some sessions exceed the stack capacity
		nsteps := cr.Range(6, 40)
		if long {
			nsteps = cr.Range(60, 90)
		}
		fkind, fdetail := "", ""
		usedGC := false
		fail := func(kind, detail string) {
			if !bad {
				fkind, fdetail = kind, fmt.Sprintf("session %d: %s", i, detail)
			}
			bad = true
		}
		doUndo := func(j int) bool {
			can := d.CanUndo()
			wantCan := pos > floor
			log = append(log, fmt.Sprintf("Z can=%v", can))
			if !quiet {
				res.Evaluations++
			}
			if can != wantCan {
				fail("can-undo-wrong", fmt.Sprintf("CanUndo = %v after step %d, expected %v (position %d, oldest reachable %d)", can, j, wantCan, pos, floor))
				return false
			}
			if can {
				if err, p, _ := safely(func() error { return d.Undo() }); err != nil {
					fail("undo-failed", fmt.Sprintf("Undo: %v (panic=%v)", err, p))
					return false
				}
				pos--
			}
			coq, cur := observe(d)
			steps = append(steps, fmt.Sprintf("(UUndo %s %s)", coqfmt.Bool(can), coq))
			if cur != recorded[pos] {
				fail("undo-does-not-restore", fmt.Sprintf("after Undo the content is %s but was %s before the undone step", cur, recorded[pos]))
			}
			return can
		}
		doRedo := func(j int) bool {
			can := d.CanRedo()
			wantCan := pos < len(recorded)-1
			log = append(log, fmt.Sprintf("Y can=%v", can))
			if !quiet {
				res.Evaluations++
			}
			if can != wantCan {
				fail("can-redo-wrong", fmt.Sprintf("CanRedo = %v after step %d, expected %v", can, j, wantCan))
				return false
			}
			if can {
				if err, p, _ := safely(func() error { return d.Redo() }); err != nil {
					fail("redo-failed", fmt.Sprintf("Redo: %v (panic=%v)", err, p))
					return false
				}
				pos++
			}
			coq, cur := observe(d)
			steps = append(steps, fmt.Sprintf("(URedo %s %s)", coqfmt.Bool(can), coq))
			if cur != recorded[pos] {
				fail("redo-does-not-restore", fmt.Sprintf("after Redo the content is %s but was %s after the redone step", cur, recorded[pos]))
			}
			return can
		}
		for j := 0; j < nsteps && !bad; j++ {
			w := []int{6, 3, 2, 1, 1, 1}
			if long && j < 56 {
				w = []int{1, 0, 0, 0, 0, 0}
			}
			switch cr.Pick(w...) {
			case 0:
				var ms []mop
				nops := cr.Pick(5, 3, 2) + 1
				before := pendingChanges(d)
				if err := d.Update(func(root *json.Object, p *presence.Presence) error {
					for k := 0; k < nops; k++ {
						m := genMopOn(cr, root)
						ms = append(ms, m)
						applyMops(root, []mop{m})
					}
					return nil
				}); err != nil {
					fail("update-error", err.Error())
					break
				}
				pushed := pendingChanges(d) > before
				coq, cur := observe(d)
				var ops []string
				for _, m := range ms {
					ops = append(ops, m.coq())
				}
				steps = append(steps, fmt.Sprintf("(UDo %s %s %s)", coqfmt.List(ops), coqfmt.Bool(pushed), coq))
				log = append(log, fmt.Sprintf("U %v pushed=%v", ms, pushed))
				if pushed {
					recorded = append(recorded[:pos+1], cur)
					pos++
					if pos-floor > document.MaxUndoRedoStackDepth {
						floor = pos - document.MaxUndoRedoStackDepth
					}
				} else if cur != recorded[pos] {
					fail("noop-update-changed-content", "an update that produced no change altered the content")
				}
			case 1:
				doUndo(j)
			case 2:
				doRedo(j)
			case 3: // drain: undo as far as it goes (the undo stack empty, everything on the redo stack)
				for k := 0; k < 60 && !bad && doUndo(j); k++ {
				}
			case 5: // everything so far has been acknowledged by everybody: tombstones are purged (what a
				// synced client does on its own; an undo afterwards has to re-create what it restores)
				if noGC {
					break
				}
				n := d.GarbageCollect(d.VersionVector().DeepCopy())
				log = append(log, fmt.Sprintf("G purged=%d", n))
				if n > 0 {
					usedGC = true
				}
				if !quiet {
					res.count("gc-steps")
				}
				if _, cur := observe(d); cur != recorded[pos] {
					fail("gc-changed-content", fmt.Sprintf("garbage collection changed the content to %s", cur))
				}
			case 4: // and redo as far as it goes
				for k := 0; k < 60 && !bad && doRedo(j); k++ {
				}
			}
			if !bad && d.Root().Marshal() != d.Marshal() {
				fail("clone-differs", "Root().Marshal() != Marshal() after step "+fmt.Sprint(j))
			}
		}
		return sessionOut{bad, fkind, fdetail, steps, log, usedGC}
	}
	sameChars := func(detail string) bool {
		// "... the content is X but was Y ...": do X and Y hold the same characters?
		i1, i2 := strings.Index(detail, "the content is "), strings.Index(detail, " but was ")
		if i1 < 0 || i2 < 0 {
			return false
		}
		x := detail[i1+len("the content is ") : i2]
		y := detail[i2+len(" but was "):]
		if k := strings.Index(y, ")"); k >= 0 && strings.Count(x, ")") > 0 {
			y = y[:strings.LastIndex(y, ")")+1]
		}
		canon := func(s string) string {
			f := strings.FieldsFunc(s, func(r rune) bool { return r == ' ' || r == ';' || r == '[' || r == ']' || r == '(' || r == ')' })
			sort.Strings(f)
			return strings.Join(f, ",")
		}
		return canon(x) == canon(y)
	}
	n1 := cfg.n
	for i := 0; i < n1; i++ {
		cr := r.Fork()
		saved := *cr
		out := session(cr, i, false, false)
		steps, log := out.steps, out.log
		if out.bad {
			sig := map[string]any{"flavor": "content", "gc_needed": false, "deterministic": true, "same_characters": sameChars(out.detail)}
			if out.usedGC {
				c2 := saved
				sig["gc_needed"] = !session(&c2, i, true, true).bad
			}
			for k := 0; k < 5; k++ {
				c3 := saved
				if o3 := session(&c3, i, false, true); !o3.bad || o3.detail != out.detail {
					sig["deterministic"] = false
				}
			}
			viol(out.kind, out.detail, map[string]any{"seed": cfg.seed, "session": i, "steps": log}, sig)
		}
		seen.add(strings.Join(log, ";"))
		// a session that failed an oracle is reported with its own failing input above; only the
		// sessions that passed go to the model as well
		if out.bad {
			res.count("sessions.failed-not-replayed-through-the-model")
		} else if len(cases) < 400 {
			cases = append(cases, fmt.Sprintf("(UCase %s)", coqfmt.List(steps)))
			res.CaseIndex = append(res.CaseIndex, map[string]any{"session": i, "steps": log})
		}
		if len(res.Samples) < 2 {
			res.Samples = append(res.Samples, map[string]any{"session": i, "steps": log})
		}
	}
	// ---------- streams 1b and 2: history alphabet (trees, approximate kinds) ----------
	flavors := []string{"tree", "text", "arraymove", "array", "treex", "mixed", "object"}
	for i := 0; i < cfg.n; i++ {
		cr := r.Fork()
		flavor := flavors[i%len(flavors)]
		exact := flavor == "tree" // structure-preserving tree edits without styles: exact restoration
		d := newDrained("undo2", 1)
		peer := newDrained("undo2", 2)
		var sseq int64
		_ = d.Update(func(root *json.Object, p *presence.Presence) error {
			hist.SetupEdits(root, "oatcnx")
			return nil
		})
		_ = d.ClearHistory()
		var log []string
		content := func() string {
			if exact {
				return d.Root().GetTree("x").ToXML()
			}
			return d.Marshal()
		}
		recorded := []string{content()}
		pos := 0
		bad := false
		usesStyle := false
		fail := func(kind, detail string) {
			bad = true
			viol(kind, fmt.Sprintf("session %d (%s): %s", i, flavor, detail), map[string]any{"seed": cfg.seed, "session2": i, "flavor": flavor, "steps": log},
				map[string]any{"flavor": flavor, "approximate": !exact || usesStyle})
		}
		for j, nsteps := 0, cr.Range(5, 30); j < nsteps && !bad; j++ {
			switch cr.Pick(6, 3, 2) {
			case 0:
				var edits []hist.Edit
				for k := cr.Range(1, 2); k > 0; k-- {
					e := hist.GenEdit(cr, flavor)
					if exact && (e.K == "xsty" || e.K == "xuns") {
						e = hist.Edit{K: "xtxt", I: e.I, S: "q"}
					}
					edits = append(edits, e)
				}
				before := pendingChanges(d)
				if err, _ := hist.SafeUpdate(d, edits, ""); err != nil {
					log = append(log, fmt.Sprintf("U %v rejected", edits))
					continue
				}
				log = append(log, fmt.Sprintf("U %v", edits))
				if pendingChanges(d) > before {
					recorded = append(recorded[:pos+1], content())
					pos++
				}
			case 1:
				if !d.CanUndo() {
					continue
				}
				log = append(log, "Z")
				res.Evaluations++
				if err, p, _ := safely(func() error { return d.Undo() }); err != nil {
					fail("undo-failed", fmt.Sprintf("Undo: %v (panic=%v)", err, p))
					break
				}
				if pos > 0 {
					pos--
				}
				if exact && content() != recorded[pos] {
					fail("undo-does-not-restore", fmt.Sprintf("after Undo the tree is %s but was %s", content(), recorded[pos]))
				}
			case 2:
				if !d.CanRedo() {
					continue
				}
				log = append(log, "Y")
				res.Evaluations++
				if err, p, _ := safely(func() error { return d.Redo() }); err != nil {
					fail("redo-failed", fmt.Sprintf("Redo: %v (panic=%v)", err, p))
					break
				}
				if pos < len(recorded)-1 {
					pos++
				}
				if exact && content() != recorded[pos] {
					fail("redo-does-not-restore", fmt.Sprintf("after Redo the tree is %s but was %s", content(), recorded[pos]))
				}
			}
			if !bad && d.Root().Marshal() != d.Marshal() {
				fail("clone-differs", "Root().Marshal() != Marshal()")
			}
		}
		if !bad {
			res.Evaluations++
			if err := ship(d, peer, &sseq); err != nil {
				fail("peer-apply-error", "the peer cannot apply the author's changes: "+err.Error())
			} else if peer.Marshal() != d.Marshal() {
				fail("peer-differs", fmt.Sprintf("peer shows %s, author %s", trunc(peer.Marshal(), 300), trunc(d.Marshal(), 300)))
			}
		}
		seen.add(flavor + strings.Join(log, ";"))
		res.count("flavor2." + flavor)
	}
	res.Nontrivial = len(seen)
	p1 := filepath.Join(cfg.out, "cases_undo_0.v")
	if err := os.WriteFile(p1, []byte(coqfmt.File([]string{"From YV Require Import Corr.Hist."}, "ucase", "mismatches ucheck", cases)), 0o644); err != nil {
		return err
	}
	res.CaseFiles = []string{p1}
	return res.write(cfg.out)
}
