package main

import (
	"fmt"
	"strings"

	"verifharness/internal/hist"

	"github.com/yorkie-team/yorkie/pkg/document"
	"github.com/yorkie-team/yorkie/pkg/document/crdt"
	"github.com/yorkie-team/yorkie/pkg/document/json"
	"github.com/yorkie-team/yorkie/pkg/document/presence"
	"github.com/yorkie-team/yorkie/pkg/document/time"
)

func init() { register("usdbg", runUSDbg) }

// usdbg: -x "flavor=array,steps=U0#1 S0 U1#0 S1 Z0 S1" prints the array structure after every step
func runUSDbg(cfg *config) error {
	x := parseX(strings.ReplaceAll(cfg.extra, " ", "_"))
	flavor := x["flavor"]
	srv := &miniServer{vvs: map[int]time.VersionVector{}}
	docs := []*document.Document{newDrained("us", 1), newDrained("us", 2)}
	_ = docs[0].Update(func(root *json.Object, p *presence.Presence) error {
		hist.SetupEdits(root, "oatcnx")
		root.GetObject("o").SetInteger("k1", 1)
		a := root.GetArray("a")
		a.AddInteger(1)
		a.AddInteger(2)
		root.GetText("t").Edit(0, 0, "ab")
		return nil
	})
	_ = docs[0].ClearHistory()
	_ = srv.sync(0, docs[0])
	_ = srv.sync(1, docs[1])
	_ = srv.sync(0, docs[0])
	dump := func(tag string) {
		for c, d := range docs {
			arr := d.RootObject().Get("a").(*crdt.Array)
			fmt.Printf("%-8s c%d %s | %s | vv=%s\n", tag, c, arr.Marshal(), arr.ToTestString(), d.VersionVector().Marshal())
		}
	}
	dump("init")
	for _, tok := range strings.Split(x["steps"], "_") {
		var c, e int
		switch {
		case strings.HasPrefix(tok, "U"):
			fmt.Sscanf(tok, "U%d#%d", &c, &e)
			err, _ := hist.SafeUpdate(docs[c], usEdits[flavor][e], "")
			fmt.Println(tok, "err:", err)
		case strings.HasPrefix(tok, "Z"):
			fmt.Sscanf(tok, "Z%d", &c)
			fmt.Println(tok, "err:", docs[c].Undo())
		case strings.HasPrefix(tok, "Y"):
			fmt.Sscanf(tok, "Y%d", &c)
			fmt.Println(tok, "err:", docs[c].Redo())
		case strings.HasPrefix(tok, "S"):
			fmt.Sscanf(tok, "S%d", &c)
			fmt.Println(tok, "err:", srv.sync(c, docs[c]))
		case tok == "Q":
			for r := 0; r < 3; r++ {
				for c := 0; c < 2; c++ {
					fmt.Println("Q sync", c, srv.sync(c, docs[c]))
				}
			}
		}
		dump(tok)
	}
	for r := 0; r < 3; r++ {
		for c := 0; c < 2; c++ {
			fmt.Println("final sync", c, srv.sync(c, docs[c]))
		}
		dump(fmt.Sprint("final", r))
	}
	for _, c := range srv.log {
		var ops []string
		for _, op := range c.Operations() {
			ops = append(ops, fmt.Sprintf("%T", op))
		}
		fmt.Println("log", c.ServerSeq(), c.ID().ActorID().String()[20:], "lam", c.ID().Lamport(), ops)
	}
	return nil
}
