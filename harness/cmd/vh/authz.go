package main

// Engine authz (property C13): a real server with three projects — attacker A,
// victim B, control C (same shape as B) — each with its own user, client,
// documents, revision, schema and channel session.  Every procedure of the
// Yorkie, Admin and Cluster services is enumerated from the generated service
// descriptors; its request is built field by field from an identity bundle,
// so that every id-typed field (client_id, document_id, revision_id,
// session_id, project id) can be own, foreign (the victim's) or nonexistent.
//
// Oracles, per request that carries the attacker's (or no) credential:
//   unchanged   the victim project's rows in every memdb table, and its channel
//               sessions, are byte-identical before and after;
//   blind       the verdict (connect code, message with ids masked) is the same
//               as for the request in which every foreign id is replaced by a
//               nonexistent one — the caller cannot tell "exists in another
//               project" from "does not exist";
//   no-leak     no response byte sequence contains a victim marker;
//   credential  without a valid credential the call is refused before the handler.
// Liveness of the request shapes: the same request with the control project's own
// credential and ids must get past authentication (counted in the evidence).
//
// The observed verdicts are also written as cases for Corr/Authz.v, which runs
// the handler programs of the Coq model on the abstract database of the scenario.

import (
	"bytes"
	"context"
	"errors"
	"fmt"
	"io"
	"log"
	"net/http"
	"os"
	"path/filepath"
	"reflect"
	"regexp"
	"sort"
	"strings"
	gotime "time"
	"unsafe"

	"connectrpc.com/connect"
	memdb "github.com/hashicorp/go-memdb"
	"google.golang.org/protobuf/proto"
	"google.golang.org/protobuf/reflect/protoreflect"
	"google.golang.org/protobuf/types/dynamicpb"

	"verifharness/internal/coqfmt"
	"verifharness/internal/sim"

	"github.com/yorkie-team/yorkie/api/converter"
	"github.com/yorkie-team/yorkie/api/types"
	api "github.com/yorkie-team/yorkie/api/yorkie/v1"
	"github.com/yorkie-team/yorkie/api/yorkie/v1/v1connect"
	"github.com/yorkie-team/yorkie/client"
	"github.com/yorkie-team/yorkie/pkg/document"
	yjson "github.com/yorkie-team/yorkie/pkg/document/json"
	"github.com/yorkie-team/yorkie/pkg/document/presence"
	"github.com/yorkie-team/yorkie/pkg/key"
	"github.com/yorkie-team/yorkie/server/backend/database"
)

func init() { register("authz", runAuthz) }

// ---------- raw codec: requests and responses are passed as bytes ----------

type rawMsg struct{ B []byte }

type rawCodec struct{}

func (rawCodec) Name() string { return "proto" }
func (rawCodec) Marshal(v any) ([]byte, error) {
	if m, ok := v.(*rawMsg); ok {
		return m.B, nil
	}
	return nil, fmt.Errorf("rawCodec: %T", v)
}
func (rawCodec) Unmarshal(b []byte, v any) error {
	if m, ok := v.(*rawMsg); ok {
		m.B = append([]byte(nil), b...)
		return nil
	}
	return fmt.Errorf("rawCodec: %T", v)
}

type cred struct {
	name   string
	header map[string]string
}

type callResult struct {
	Code string
	Msg  string
	Body []byte
}

var hexID = regexp.MustCompile(`[0-9a-f]{24}`)

func maskIDs(s string) string { return hexID.ReplaceAllString(s, "<id>") }

func rawCall(addr string, m protoreflect.MethodDescriptor, cr cred, body []byte) callResult {
	proc := "/" + string(m.Parent().FullName()) + "/" + string(m.Name())
	cl := connect.NewClient[rawMsg, rawMsg](http.DefaultClient, "http://"+addr+proc, connect.WithCodec(rawCodec{}))
	ctx, cancel := context.WithTimeout(context.Background(), 3*gotime.Second)
	defer cancel()
	req := connect.NewRequest(&rawMsg{B: body})
	for k, v := range cr.header {
		req.Header().Set(k, v)
	}
	fail := func(err error) callResult {
		var ce *connect.Error
		if errors.As(err, &ce) {
			return callResult{Code: ce.Code().String(), Msg: maskIDs(ce.Message())}
		}
		return callResult{Code: "transport", Msg: maskIDs(err.Error())}
	}
	if m.IsStreamingServer() {
		sctx, scancel := context.WithTimeout(ctx, 400*gotime.Millisecond)
		defer scancel()
		st, err := cl.CallServerStream(sctx, req)
		if err != nil {
			return fail(err)
		}
		defer st.Close()
		if st.Receive() {
			return callResult{Code: "ok", Body: st.Msg().B}
		}
		if err := st.Err(); err != nil {
			if errors.Is(err, context.DeadlineExceeded) || connect.CodeOf(err) == connect.CodeDeadlineExceeded {
				return callResult{Code: "ok-open"}
			}
			return fail(err)
		}
		return callResult{Code: "ok-closed"}
	}
	res, err := cl.CallUnary(ctx, req)
	if err != nil {
		return fail(err)
	}
	return callResult{Code: "ok", Body: res.Msg.B}
}

// ---------- tenants ----------

type bundle struct {
	ClientID, ClientKey, DocID, DocKey, RevisionID string
	ProjectName, ProjectID, SchemaName, ChannelKey string
	SessionID, Username, Password                  string
	Pack                                           []byte
	FreshPack                                      []byte // a pack for a document key that is not attached yet
}

type tenant struct {
	name       string
	marker     string
	user, pass string
	token      string
	project    *types.Project
	secretKey  string
	cli        *client.Client
	doc        *document.Document
	bundle     bundle
}

func hdr(kv ...string) map[string]string {
	m := map[string]string{}
	for i := 0; i+1 < len(kv); i += 2 {
		m[kv[i]] = kv[i+1]
	}
	return m
}

type hdrInterceptor struct{ h map[string]string }

func (i hdrInterceptor) WrapUnary(next connect.UnaryFunc) connect.UnaryFunc {
	return func(ctx context.Context, req connect.AnyRequest) (connect.AnyResponse, error) {
		for k, v := range i.h {
			req.Header().Set(k, v)
		}
		return next(ctx, req)
	}
}
func (i hdrInterceptor) WrapStreamingClient(next connect.StreamingClientFunc) connect.StreamingClientFunc {
	return func(ctx context.Context, spec connect.Spec) connect.StreamingClientConn {
		c := next(ctx, spec)
		for k, v := range i.h {
			c.RequestHeader().Set(k, v)
		}
		return c
	}
}
func (i hdrInterceptor) WrapStreamingHandler(next connect.StreamingHandlerFunc) connect.StreamingHandlerFunc {
	return next
}

func adminCl(addr string, h map[string]string) v1connect.AdminServiceClient {
	return v1connect.NewAdminServiceClient(http.DefaultClient, "http://"+addr, connect.WithInterceptors(hdrInterceptor{h}))
}
func yorkieCl(addr string, h map[string]string) v1connect.YorkieServiceClient {
	return v1connect.NewYorkieServiceClient(http.DefaultClient, "http://"+addr, connect.WithInterceptors(hdrInterceptor{h}))
}

// own creates, inside the tenant's project, a fresh activated client with an attached
// document holding the tenant's marker, a revision, and a channel session.
func (t *tenant) own(ctx context.Context, srv *sim.Server, tag string) (bundle, *client.Client, error) {
	b := bundle{ProjectName: t.project.Name, ProjectID: t.project.ID.String(), Username: t.user, Password: t.pass}
	ckey := fmt.Sprintf("%s-client-%s", t.marker, tag)
	cli, err := client.Dial(srv.Addr, client.WithAPIKey(t.project.PublicKey), func(o *client.Options) { o.Key = ckey })
	if err != nil {
		return b, nil, err
	}
	if err := cli.Activate(ctx); err != nil {
		return b, nil, err
	}
	b.ClientID, b.ClientKey = cli.ID().String(), ckey
	b.DocKey = strings.ToLower(fmt.Sprintf("%s-doc-%s", t.marker, tag))
	doc := document.New(key.Key(b.DocKey))
	if err := cli.Attach(ctx, doc); err != nil {
		return b, nil, fmt.Errorf("attach: %w", err)
	}
	if err := doc.Update(func(r *yjson.Object, p *presence.Presence) error {
		r.SetString("secret", t.marker+"-content")
		return nil
	}); err != nil {
		return b, nil, err
	}
	if err := cli.Sync(ctx); err != nil {
		return b, nil, err
	}
	info, err := srv.Be.DB.FindDocInfoByKey(ctx, t.project.ID, key.Key(b.DocKey))
	if err != nil {
		return b, nil, err
	}
	b.DocID = info.ID.String()
	ycl := yorkieCl(srv.Addr, hdr(types.APIKeyKey, t.project.PublicKey))
	rev, err := ycl.CreateRevision(ctx, connect.NewRequest(&api.CreateRevisionRequest{
		ClientId: b.ClientID, DocumentId: b.DocID, Label: t.marker + "-label-" + tag, Description: t.marker + "-desc"}))
	if err != nil {
		return b, nil, fmt.Errorf("create revision: %w", err)
	}
	b.RevisionID = rev.Msg.Revision.Id
	b.ChannelKey = strings.ToLower(fmt.Sprintf("%s-room-%s", t.marker, tag))
	ch, err := ycl.AttachChannel(ctx, connect.NewRequest(&api.AttachChannelRequest{ClientId: b.ClientID, ChannelKey: b.ChannelKey}))
	if err != nil {
		return b, nil, fmt.Errorf("attach channel: %w", err)
	}
	b.SessionID = ch.Msg.SessionId
	b.SchemaName = t.bundle.SchemaName
	// a change pack for the document carrying one unsent change
	if err := doc.Update(func(r *yjson.Object, p *presence.Presence) error {
		r.SetString("probe", "written-by-"+t.marker)
		return nil
	}); err != nil {
		return b, nil, err
	}
	pbPack, err := converter.ToChangePack(doc.CreateChangePack())
	if err != nil {
		return b, nil, err
	}
	b.Pack, err = proto.Marshal(pbPack)
	if err != nil {
		return b, nil, err
	}
	fresh := document.New(key.Key(b.DocKey + "-fresh"))
	if err := fresh.Update(func(r *yjson.Object, p *presence.Presence) error {
		r.SetString("probe", "written-by-"+t.marker)
		return nil
	}); err != nil {
		return b, nil, err
	}
	pbFresh, err := converter.ToChangePack(fresh.CreateChangePack())
	if err != nil {
		return b, nil, err
	}
	if b.FreshPack, err = proto.Marshal(pbFresh); err != nil {
		return b, nil, err
	}
	t.doc = doc
	return b, cli, nil
}

func newTenant(ctx context.Context, srv *sim.Server, name string) (*tenant, error) {
	t := &tenant{name: name, marker: strings.ToUpper(name) + "SECRET", user: name + "-user", pass: "Passw0rd!" + name}
	anon := adminCl(srv.Addr, nil)
	if _, err := anon.SignUp(ctx, connect.NewRequest(&api.SignUpRequest{Username: t.user, Password: t.pass})); err != nil {
		return nil, fmt.Errorf("signup: %w", err)
	}
	li, err := anon.LogIn(ctx, connect.NewRequest(&api.LogInRequest{Username: t.user, Password: t.pass}))
	if err != nil {
		return nil, fmt.Errorf("login: %w", err)
	}
	t.token = li.Msg.Token
	adm := adminCl(srv.Addr, hdr(types.AuthorizationKey, types.AuthSchemeBearer+" "+t.token))
	pr, err := adm.CreateProject(ctx, connect.NewRequest(&api.CreateProjectRequest{Name: name + "-project"}))
	if err != nil {
		return nil, fmt.Errorf("create project: %w", err)
	}
	t.project = converter.FromProject(pr.Msg.Project)
	t.secretKey = t.project.SecretKey
	// schema through the secret key
	sadm := adminCl(srv.Addr, hdr(types.AuthorizationKey, types.AuthSchemeAPIKey+" "+t.secretKey))
	t.bundle.SchemaName = strings.ToLower(t.marker + "-schema")
	if _, err := sadm.CreateSchema(ctx, connect.NewRequest(&api.CreateSchemaRequest{
		SchemaName: t.bundle.SchemaName, SchemaVersion: 1, SchemaBody: "type Document = {secret: string;};",
		Rules: []*api.Rule{{Path: "$.secret", Type: "string"}},
	})); err != nil {
		return nil, fmt.Errorf("create schema: %w", err)
	}
	b, cli, err := t.own(ctx, srv, "main")
	if err != nil {
		return nil, err
	}
	t.bundle, t.cli = b, cli
	return t, nil
}

// ---------- victim state dump ----------

var memTables = []string{"clusternodes", "users", "projects", "members", "invites", "clients", "documents", "schemas",
	"changes", "snapshots", "versionvectors", "snapshot_bodies", "revisions"}

func memOf(db database.Database) *memdb.MemDB {
	v := reflect.ValueOf(db)
	for v.Kind() == reflect.Interface || v.Kind() == reflect.Ptr {
		if v.Kind() == reflect.Ptr && v.Elem().Kind() == reflect.Struct {
			break
		}
		v = v.Elem()
	}
	f := v.Elem().FieldByName("db")
	return (*memdb.MemDB)(unsafe.Pointer(f.Pointer()))
}

// dumpProject serialises every row of every table that belongs to the project
// (ProjectID field, or the project row itself, or rows of its owner user).
func dumpProject(srv *sim.Server, t *tenant) (string, map[string]int, error) {
	mdb := memOf(srv.Be.DB)
	txn := mdb.Txn(false)
	defer txn.Abort()
	var out []string
	counts := map[string]int{}
	for _, tbl := range memTables {
		it, err := txn.Get(tbl, "id")
		if err != nil {
			return "", nil, fmt.Errorf("table %s: %w", tbl, err)
		}
		for raw := it.Next(); raw != nil; raw = it.Next() {
			v := reflect.ValueOf(raw)
			if v.Kind() == reflect.Ptr {
				v = v.Elem()
			}
			mine := false
			if f := v.FieldByName("ProjectID"); f.IsValid() && f.Kind() == reflect.String && f.String() == t.project.ID.String() {
				mine = true
			}
			if tbl == "projects" {
				if f := v.FieldByName("ID"); f.IsValid() && f.String() == t.project.ID.String() {
					mine = true
				}
			}
			if tbl == "users" {
				if f := v.FieldByName("Username"); f.IsValid() && f.String() == t.user {
					mine = true
				}
			}
			if !mine {
				continue
			}
			out = append(out, tbl+":"+sim.DeepDump(raw))
			counts[tbl]++
		}
	}
	sort.Strings(out)
	// channel sessions (in memory, not in the database)
	ck := types.ChannelRefKey{ProjectID: t.project.ID, ChannelKey: key.Key(t.bundle.ChannelKey)}
	out = append(out, fmt.Sprintf("channel-sessions:%d", srv.Be.Channel.SessionCount(ck, false)))
	out = append(out, fmt.Sprintf("channel-count:%d", srv.Be.Channel.Count(t.project.ID)))
	return strings.Join(out, "\n"), counts, nil
}

// ---------- request construction ----------

// fill sets the fields of a request message from a bundle; returns names of fields it did not know.
func fill(msg *dynamicpb.Message, b bundle, unknown map[string]int) {
	fields := msg.Descriptor().Fields()
	for i := 0; i < fields.Len(); i++ {
		f := fields.Get(i)
		name := string(f.Name())
		setS := func(s string) {
			if f.Kind() == protoreflect.StringKind && !f.IsList() && !f.IsMap() {
				msg.Set(f, protoreflect.ValueOfString(s))
			} else if f.Kind() == protoreflect.StringKind && f.IsList() {
				l := msg.Mutable(f).List()
				l.Append(protoreflect.ValueOfString(s))
			}
		}
		switch name {
		case "client_id":
			setS(b.ClientID)
		case "client_key":
			setS(b.ClientKey)
		case "document_id":
			setS(b.DocID)
		case "document_key", "document_keys":
			setS(b.DocKey)
		case "revision_id":
			setS(b.RevisionID)
		case "project_name":
			setS(b.ProjectName)
		case "project_id":
			setS(b.ProjectID)
		case "name":
			setS(b.ProjectName)
		case "id":
			setS(b.ProjectID)
		case "schema_name":
			setS(b.SchemaName)
		case "schema_key":
			// left empty: attaching without a schema
		case "channel_key", "channel_keys":
			setS(b.ChannelKey)
		case "session_id":
			setS(b.SessionID)
		case "username":
			setS(b.Username)
		case "password", "current_password":
			setS(b.Password)
		case "new_password":
			setS(b.Password)
		case "label":
			setS("probe-label")
		case "topic":
			setS("probe-topic")
		case "query":
			setS(strings.ToLower(b.DocKey[:4]))
		case "key":
			setS(b.DocKey)
		case "token":
			setS("no-such-invite-token")
		case "role":
			setS("member")
		case "version", "schema_version":
			if f.Kind() == protoreflect.Int32Kind {
				msg.Set(f, protoreflect.ValueOfInt32(1))
			}
		case "page_size", "limit":
			if f.Kind() == protoreflect.Int32Kind {
				msg.Set(f, protoreflect.ValueOfInt32(10))
			}
		case "include_root", "include_presences", "is_forward", "include_sub_path", "synchronous":
			if f.Kind() == protoreflect.BoolKind {
				msg.Set(f, protoreflect.ValueOfBool(true))
			}
		case "change_pack":
			if f.Kind() == protoreflect.MessageKind && len(b.Pack) > 0 {
				sub := msg.Mutable(f).Message()
				_ = proto.Unmarshal(b.Pack, sub.Interface())
			}
		case "project":
			if f.Kind() == protoreflect.MessageKind {
				sub := msg.Mutable(f).Message()
				if idf := sub.Descriptor().Fields().ByName("id"); idf != nil {
					sub.Set(idf, protoreflect.ValueOfString(b.ProjectID))
				}
				if nf := sub.Descriptor().Fields().ByName("name"); nf != nil {
					sub.Set(nf, protoreflect.ValueOfString(b.ProjectName))
				}
			}
		case "resources":
			if f.Kind() == protoreflect.MessageKind && f.IsList() {
				// one document resource
				l := msg.Mutable(f).List()
				el := l.NewElement().Message()
				if df := el.Descriptor().Fields().ByName("document"); df != nil {
					d := el.Mutable(df).Message()
					if idf := d.Descriptor().Fields().ByName("document_id"); idf != nil {
						d.Set(idf, protoreflect.ValueOfString(b.DocID))
					}
				}
				l.Append(protoreflect.ValueOfMessage(el))
			}
		default:
			unknown[name]++
		}
	}
}

// idFields lists which id-typed fields a request message has (the ones that can be own/foreign).
func idFields(md protoreflect.MessageDescriptor) []string {
	var out []string
	fs := md.Fields()
	for i := 0; i < fs.Len(); i++ {
		switch string(fs.Get(i).Name()) {
		case "client_id", "document_id", "revision_id", "session_id", "id", "project_id", "project_name", "project", "resources":
			out = append(out, string(fs.Get(i).Name()))
		}
	}
	return out
}

// mix builds a bundle whose id-typed fields in `foreign` come from f, the others from own.
func mix(own, f bundle, foreign map[string]bool) bundle {
	b := own
	if foreign["client_id"] {
		b.ClientID = f.ClientID
	}
	if foreign["document_id"] || foreign["resources"] {
		b.DocID = f.DocID
	}
	if foreign["revision_id"] {
		b.RevisionID = f.RevisionID
	}
	if foreign["session_id"] {
		b.SessionID = f.SessionID
	}
	if foreign["id"] || foreign["project_id"] || foreign["project"] {
		b.ProjectID = f.ProjectID
	}
	if foreign["project_name"] || foreign["project"] {
		b.ProjectName = f.ProjectName
	}
	return b
}

func nonexistent(seed int) bundle {
	id := func(k int) string { return fmt.Sprintf("%024x", uint64(0xabc000000000)+uint64(seed*16+k)) }
	return bundle{ClientID: id(1), DocID: id(2), RevisionID: id(3), SessionID: id(4), ProjectID: id(5),
		ProjectName: fmt.Sprintf("nonexistent-project-%d", seed)}
}

type azCase struct {
	Proc     string          `json:"proc"`
	Cred     string          `json:"cred"`
	Foreign  []string        `json:"foreign"`
	Got      callResult      `json:"got"`
	Control  *callResult     `json:"control,omitempty"`
	Baseline *callResult     `json:"baseline,omitempty"`
	Fields   map[string]bool `json:"-"`
}

func subsets(xs []string) [][]string {
	var out [][]string
	for m := 1; m < 1<<len(xs); m++ {
		var s []string
		for i, x := range xs {
			if m&(1<<i) != 0 {
				s = append(s, x)
			}
		}
		out = append(out, s)
	}
	return out
}

func refused(code string) bool {
	switch code {
	case "unauthenticated", "not_found", "permission_denied":
		return true
	}
	return false
}

func runAuthz(cfg *config) error {
	log.SetOutput(io.Discard) // net/http logs recovered handler panics
	res := newResult("authz", cfg.seed)
	res.Rule = "one evaluation = one request sent to the real RPC server; non-trivial = distinct (procedure, credential, set of foreign id fields)"
	work, err := os.MkdirTemp(cfg.out, "srv")
	if err != nil {
		return err
	}
	ctx := context.Background()
	var coqCases []string
	dist := distinct{}
	unknown := map[string]int{}
	for _, useDefault := range []bool{false, true} {
		ud := useDefault
		srv, err := sim.Start(work, sim.Options{ClusterSecret: "s3cret-cluster", UseDefaultProject: &ud})
		if err != nil {
			return err
		}
		err = authzRun(ctx, cfg, srv, ud, res, dist, unknown, &coqCases)
		srv.Stop()
		if err != nil {
			return err
		}
	}
	for k, v := range unknown {
		res.Dist["unfilled-field:"+k] = v
	}
	res.Nontrivial = len(dist)
	path := filepath.Join(cfg.out, "cases_authz_0.v")
	src := coqfmt.File([]string{"From Coq Require Import String.", "From YV Require Import Authz.Store Authz.Handlers Corr.Common Corr.Authz."},
		"azcase", "mismatches azcheck", coqCases)
	if err := os.WriteFile(path, []byte(src), 0o644); err != nil {
		return err
	}
	res.CaseFiles = []string{path}
	_ = os.RemoveAll(work)
	return res.write(cfg.out)
}

func methodsOf() []protoreflect.MethodDescriptor {
	var ms []protoreflect.MethodDescriptor
	for _, fd := range []protoreflect.FileDescriptor{api.File_yorkie_v1_yorkie_proto, api.File_yorkie_v1_admin_proto, api.File_yorkie_v1_cluster_proto} {
		svcs := fd.Services()
		for i := 0; i < svcs.Len(); i++ {
			m := svcs.Get(i).Methods()
			for j := 0; j < m.Len(); j++ {
				ms = append(ms, m.Get(j))
			}
		}
	}
	return ms
}

func authzRun(ctx context.Context, cfg *config, srv *sim.Server, useDefault bool, res *Result, dist distinct, unknown map[string]int, coqCases *[]string) error {
	A, err := newTenant(ctx, srv, "attacker")
	if err != nil {
		return fmt.Errorf("attacker: %w", err)
	}
	B, err := newTenant(ctx, srv, "victim")
	if err != nil {
		return fmt.Errorf("victim: %w", err)
	}
	C, err := newTenant(ctx, srv, "control")
	if err != nil {
		return fmt.Errorf("control: %w", err)
	}
	defer func() { _ = A.cli.Close(); _ = B.cli.Close(); _ = C.cli.Close() }()
	// identical document key in two projects: different documents
	sameKey := "same-key-in-both"
	for _, t := range []*tenant{A, B} {
		d := document.New(key.Key(sameKey))
		if err := t.cli.Attach(ctx, d); err != nil {
			return err
		}
		m := t.marker
		_ = d.Update(func(r *yjson.Object, p *presence.Presence) error { r.SetString("who", m); return nil })
		if err := t.cli.Sync(ctx); err != nil {
			return err
		}
	}
	ia, _ := srv.Be.DB.FindDocInfoByKey(ctx, A.project.ID, key.Key(sameKey))
	ib, _ := srv.Be.DB.FindDocInfoByKey(ctx, B.project.ID, key.Key(sameKey))
	res.Evaluations++
	if ia == nil || ib == nil || ia.ID == ib.ID {
		res.Violations = append(res.Violations, Violation{Kind: "same-key-shared", Detail: "identical document keys in two projects resolve to one document"})
	}

	before, counts, err := dumpProject(srv, B)
	if err != nil {
		return err
	}
	for k, v := range counts {
		res.Dist["victim-rows:"+k] = v
	}
	checkVictim := func(c azCase) {
		srv.Be.WaitBackgroundIdleForVerif()
		after, _, err := dumpProject(srv, B)
		if err != nil || after != before {
			d := firstDiff(before, after)
			res.Violations = append(res.Violations, Violation{Kind: "victim-changed",
				Detail: fmt.Sprintf("%s cred=%s foreign=%v: victim project's stored state changed: %s", c.Proc, c.Cred, c.Foreign, d),
				Replay: c, Sig: map[string]any{"proc": c.Proc}})
			before = after
		}
	}
	leak := func(c azCase, r callResult) {
		if bytes.Contains(r.Body, []byte(B.marker)) || strings.Contains(r.Msg, B.marker) {
			res.Violations = append(res.Violations, Violation{Kind: "victim-leak",
				Detail: fmt.Sprintf("%s cred=%s foreign=%v: response contains victim data", c.Proc, c.Cred, c.Foreign),
				Replay: c, Sig: map[string]any{"proc": c.Proc}})
		}
	}
	seq := 0
	build := func(m protoreflect.MethodDescriptor, b bundle) []byte {
		msg := dynamicpb.NewMessage(m.Input())
		fill(msg, b, unknown)
		body, _ := proto.Marshal(msg)
		return body
	}
	for _, m := range methodsOf() {
		svc := string(m.Parent().Name())
		proc := svc + "/" + string(m.Name())
		ids := idFields(m.Input())
		var creds []cred
		switch svc {
		case "YorkieService":
			creds = []cred{
				{"none", nil},
				{"garbage-key", hdr(types.APIKeyKey, "no-such-api-key")},
				{"attacker-key", hdr(types.APIKeyKey, A.project.PublicKey)},
			}
		case "AdminService":
			creds = []cred{
				{"none", nil},
				{"garbage-token", hdr(types.AuthorizationKey, types.AuthSchemeBearer+" not.a.token")},
				{"garbage-secret", hdr(types.AuthorizationKey, types.AuthSchemeAPIKey+" no-such-secret")},
				{"attacker-token", hdr(types.AuthorizationKey, types.AuthSchemeBearer+" "+A.token)},
				{"attacker-secret", hdr(types.AuthorizationKey, types.AuthSchemeAPIKey+" "+A.secretKey)},
				{"attacker-public-as-secret", hdr(types.AuthorizationKey, types.AuthSchemeAPIKey+" "+A.project.PublicKey)},
			}
		case "ClusterService":
			creds = []cred{
				{"none", nil},
				{"wrong-secret", hdr("x-cluster-secret", "wrong")},
				{"attacker-key", hdr(types.APIKeyKey, A.project.PublicKey, types.AuthorizationKey, types.AuthSchemeBearer+" "+A.token)},
			}
		}
		// baseline: the control tenant's own credential and ids
		{
			seq++
			ob, ocl, err := C.own(ctx, srv, fmt.Sprintf("b%d", seq))
			if err != nil {
				return fmt.Errorf("control own: %w", err)
			}
			var cr cred
			switch svc {
			case "YorkieService":
				cr = cred{"own-key", hdr(types.APIKeyKey, C.project.PublicKey)}
			case "AdminService":
				if strings.HasSuffix(proc, "ByAdmin") && strings.Contains(proc, "Revision") ||
					strings.Contains(proc, "Project") && !strings.Contains(proc, "Stats") || strings.Contains(proc, "Member") || strings.Contains(proc, "Invite") {
					cr = cred{"own-token", hdr(types.AuthorizationKey, types.AuthSchemeBearer+" "+C.token)}
				} else {
					cr = cred{"own-secret", hdr(types.AuthorizationKey, types.AuthSchemeAPIKey+" "+C.secretKey)}
				}
			case "ClusterService":
				cr = cred{"cluster-secret", hdr("x-cluster-secret", "s3cret-cluster")}
			}
			name := string(m.Name())
			if name == "AttachDocument" {
				ob.Pack = ob.FreshPack
			}
			if name != "DeleteAccount" && name != "ChangePassword" && name != "RotateProjectKeys" && name != "PurgeDocument" {
				r := rawCall(srv.Addr, m, cr, build(m, ob))
				if (r.Code == "ok" || r.Code == "ok-open" || r.Code == "ok-closed") && !useDefault {
					z := map[string]string{"own-key": "ZAttackerKey", "own-token": "ZAttackerToken", "own-secret": "ZAttackerSecret", "cluster-secret": "ZClusterSecret"}[cr.name]
					*coqCases = append(*coqCases, fmt.Sprintf("(AzGate %s %q %s false)", zsvc(svc), name, z))
				}
				res.Evaluations++
				res.count("baseline:" + r.Code)
				if r.Code == "ok" || r.Code == "ok-open" || r.Code == "ok-closed" {
					res.count("baseline-live")
				} else {
					res.count("baseline-not-ok:" + proc + ":" + r.Code)
				}
			}
			_ = ocl.Close()
		}
		if !useDefault {
			*coqCases = append(*coqCases, fmt.Sprintf("(AzProc %s %q)", zsvc(svc), string(m.Name())))
		}
		for _, cr := range creds {
			valid := cr.name == "attacker-key" && svc == "YorkieService" ||
				(cr.name == "attacker-token" || cr.name == "attacker-secret") && svc == "AdminService"
			combos := [][]string{ids}
			if valid {
				// every non-empty set of foreign id fields, and the all-own request
				combos = subsets(ids)
				if svc == "YorkieService" {
					combos = append(combos, []string{})
				}
			}
			for _, fset := range combos {
				foreign := map[string]bool{}
				for _, f := range fset {
					foreign[f] = true
				}
				name := string(m.Name())
				// account procedures act on the user named in the request with that user's password:
				// the attacker does not know the victim's password.
				seq++
				own, ocl, err := A.own(ctx, srv, fmt.Sprintf("f%d", seq))
				if err != nil {
					return fmt.Errorf("attacker own: %w", err)
				}
				seq++
				own2, ocl2, err := A.own(ctx, srv, fmt.Sprintf("c%d", seq))
				if err != nil {
					return fmt.Errorf("attacker own: %w", err)
				}
				fb := mix(own, B.bundle, foreign)
				cb := mix(own2, nonexistent(seq), foreign)
				if name == "SignUp" || name == "LogIn" || name == "DeleteAccount" || name == "ChangePassword" {
					fb.Username, fb.Password = B.user, "wrong-"+A.pass
					cb.Username, cb.Password = "nonexistent-user", "wrong-"+A.pass
				}
				if foreign["document_id"] {
					// the pack names the victim's key as well
					fb.DocKey, fb.Pack = B.bundle.DocKey, B.bundle.Pack
				}
				c := azCase{Proc: proc, Cred: cr.name, Foreign: fset}
				c.Got = rawCall(srv.Addr, m, cr, build(m, fb))
				ctl := rawCall(srv.Addr, m, cr, build(m, cb))
				c.Control = &ctl
				res.Evaluations += 2
				dist.add(proc + "|" + cr.name + "|" + strings.Join(fset, ","))
				res.count("verdict:" + c.Got.Code)
				checkVictim(c)
				leak(c, c.Got)
				if !valid && !useDefault && (svc != "AdminService" || adminNeedsAuth(name)) {
					z := map[string]string{"none": "ZNone", "garbage-key": "ZGarbage", "garbage-token": "ZGarbage", "garbage-secret": "ZGarbage",
						"attacker-public-as-secret": "ZGarbage", "wrong-secret": "ZWrongSecret", "attacker-key": "ZAttackerKey"}[cr.name]
					*coqCases = append(*coqCases, fmt.Sprintf("(AzGate %s %q %s %s)", zsvc(svc), name, z, coqfmt.Bool(refused(c.Got.Code))))
				}
				if !valid {
					// no valid credential: refused before the handler runs
					if !refused(c.Got.Code) && !(svc == "AdminService" && !adminNeedsAuth(name)) &&
						!(useDefault && svc == "YorkieService" && cr.name == "none") {
						res.Violations = append(res.Violations, Violation{Kind: "credential-not-required",
							Detail: fmt.Sprintf("%s with credential %q answered %s (%s)", proc, cr.name, c.Got.Code, c.Got.Msg),
							Replay: c, Sig: map[string]any{"proc": proc}})
					}
				}
				if len(fset) > 0 && c.Got.Code == ctl.Code && c.Got.Msg != ctl.Msg {
					res.count("same-code-different-message")
				}
				if len(fset) > 0 && c.Got.Code != ctl.Code {
					res.Violations = append(res.Violations, Violation{Kind: "foreign-distinguishable",
						Detail: fmt.Sprintf("%s cred=%s foreign=%v: foreign ids answered %s (%s) but nonexistent ids %s (%s)",
							proc, cr.name, fset, c.Got.Code, c.Got.Msg, ctl.Code, ctl.Msg),
						Replay: c, Sig: map[string]any{"proc": proc}})
				}
				if valid && svc == "YorkieService" && !useDefault {
					*coqCases = append(*coqCases, azCoqCase(string(m.Name()), foreign, c.Got.Code))
				}
				if len(res.Samples) < 12 && len(fset) > 0 && valid {
					res.Samples = append(res.Samples, c)
				}
				_ = ocl.Close()
				_ = ocl2.Close()
			}
		}
	}
	// listings through the RPC layer: the attacker lists and searches its own project with its own
	// credentials, without page limit, in both directions: nothing of the victim may come back
	for _, m := range methodsOf() {
		name := string(m.Name())
		if string(m.Parent().Name()) != "AdminService" || !(strings.HasPrefix(name, "List") || strings.HasPrefix(name, "Search")) {
			continue
		}
		for _, cr := range []cred{
			{"attacker-token", hdr(types.AuthorizationKey, types.AuthSchemeBearer+" "+A.token)},
			{"attacker-secret", hdr(types.AuthorizationKey, types.AuthSchemeAPIKey+" "+A.secretKey)},
		} {
			for _, fwd := range []bool{true, false} {
				for _, size := range []int32{0, 100000} {
					msg := dynamicpb.NewMessage(m.Input())
					fill(msg, A.bundle, unknown)
					fs := msg.Descriptor().Fields()
					if f := fs.ByName("page_size"); f != nil && f.Kind() == protoreflect.Int32Kind {
						msg.Set(f, protoreflect.ValueOfInt32(size))
					}
					if f := fs.ByName("is_forward"); f != nil && f.Kind() == protoreflect.BoolKind {
						msg.Set(f, protoreflect.ValueOfBool(fwd))
					}
					if f := fs.ByName("query"); f != nil && f.Kind() == protoreflect.StringKind {
						msg.Set(f, protoreflect.ValueOfString(strings.ToLower(B.bundle.DocKey[:3])))
					}
					body, _ := proto.Marshal(msg)
					c := azCase{Proc: "AdminService/" + name, Cred: cr.name, Foreign: []string{fmt.Sprintf("own-listing forward=%v pageSize=%d", fwd, size)}}
					c.Got = rawCall(srv.Addr, m, cr, body)
					res.Evaluations++
					res.count("own-listing:" + c.Got.Code)
					if c.Got.Code != "ok" {
						res.count("own-listing-not-ok:" + name + ":" + cr.name + ":" + c.Got.Code)
					}
					checkVictim(c)
					leak(c, c.Got)
				}
			}
		}
	}
	// database layer: scoped lookups, (project, id) matrix
	authzDBMatrix(ctx, srv, A, B, res, coqCases, useDefault)
	return nil
}

func zsvc(svc string) string {
	switch svc {
	case "YorkieService":
		return "ZYorkie"
	case "AdminService":
		return "ZAdmin"
	}
	return "ZCluster"
}

func adminNeedsAuth(name string) bool {
	switch name {
	case "LogIn", "SignUp", "ChangePassword", "DeleteAccount":
		return false
	}
	return true
}

func firstDiff(a, b string) string {
	la, lb := strings.Split(a, "\n"), strings.Split(b, "\n")
	sa := map[string]bool{}
	for _, l := range la {
		sa[l] = true
	}
	sb := map[string]bool{}
	for _, l := range lb {
		sb[l] = true
	}
	var d []string
	for _, l := range la {
		if !sb[l] {
			d = append(d, "- "+trunc(l, 160))
		}
	}
	for _, l := range lb {
		if !sa[l] {
			d = append(d, "+ "+trunc(l, 160))
		}
	}
	if len(d) > 4 {
		d = d[:4]
	}
	return strings.Join(d, " | ")
}

func trunc(s string, n int) string {
	if len(s) > n {
		return s[:n] + "…"
	}
	return s
}

// azCoqCase renders one observed verdict for Corr/Authz.v: procedure, which id fields
// were foreign (client, doc, rev, session), and whether the call was accepted.
func azCoqCase(name string, foreign map[string]bool, code string) string {
	ok := code == "ok" || code == "ok-open" || code == "ok-closed"
	return fmt.Sprintf("(AzRpc %q%%string %s %s %s %s %s)", name,
		coqfmt.Bool(foreign["client_id"]), coqfmt.Bool(foreign["document_id"] || foreign["resources"]),
		coqfmt.Bool(foreign["revision_id"]), coqfmt.Bool(foreign["session_id"]), coqfmt.Bool(ok))
}

// authzDBMatrix calls the project-scoped lookups of the database layer with every
// (project, object) combination and records found / not found.
func authzDBMatrix(ctx context.Context, srv *sim.Server, A, B *tenant, res *Result, coqCases *[]string, skipCoq bool) {
	db := srv.Be.DB
	projs := []struct {
		n  int
		id types.ID
	}{{1, A.project.ID}, {2, B.project.ID}, {3, types.ID("0000000000000000000000ff")}}
	objs := []struct {
		owner int
		b     bundle
	}{{1, A.bundle}, {2, B.bundle}, {0, nonexistent(7)}}
	rec := func(fn string, p, owner int, found bool) {
		res.Evaluations++
		res.count("db:" + fn)
		want := owner == p && owner != 0
		if fn == "FindRevisionInfoByID" {
			want = owner != 0 // unscoped by design: callers check
		}
		if found != want {
			res.Violations = append(res.Violations, Violation{Kind: "db-scope",
				Detail: fmt.Sprintf("database.%s(project %d, object of project %d) found=%v", fn, p, owner, found),
				Replay: map[string]any{"fn": fn, "project": p, "owner": owner}, Sig: map[string]any{"fn": fn}})
		}
		if !skipCoq {
			*coqCases = append(*coqCases, fmt.Sprintf("(AzDb %q%%string %s %s %s)", fn, coqfmt.N(uint64(p)), coqfmt.N(uint64(owner)), coqfmt.Bool(found)))
		}
	}
	for _, p := range projs {
		for _, o := range objs {
			ci, err := db.FindClientInfoByRefKey(ctx, types.ClientRefKey{ProjectID: p.id, ClientID: types.ID(o.b.ClientID)})
			rec("FindClientInfoByRefKey", p.n, o.owner, err == nil && ci != nil)
			ci, err = db.FindClientInfoByRefKey(ctx, types.ClientRefKey{ProjectID: p.id, ClientID: types.ID(o.b.ClientID)}, true)
			rec("FindClientInfoByRefKey/skipCache", p.n, o.owner, err == nil && ci != nil)
			di, err := db.FindDocInfoByRefKey(ctx, types.DocRefKey{ProjectID: p.id, DocID: types.ID(o.b.DocID)})
			rec("FindDocInfoByRefKey", p.n, o.owner, err == nil && di != nil)
			dis, err := db.FindDocInfosByIDs(ctx, p.id, []types.ID{types.ID(o.b.DocID)})
			rec("FindDocInfosByIDs", p.n, o.owner, err == nil && len(dis) > 0)
			if o.owner != 0 {
				di, err = db.FindDocInfoByKey(ctx, p.id, key.Key(o.b.DocKey))
				rec("FindDocInfoByKey", p.n, o.owner, err == nil && di != nil)
				dis, err = db.FindDocInfosByKeys(ctx, p.id, []key.Key{key.Key(o.b.DocKey)})
				rec("FindDocInfosByKeys", p.n, o.owner, err == nil && len(dis) > 0)
			}
			att, err := db.IsDocumentAttachedOrAttaching(ctx, types.DocRefKey{ProjectID: p.id, DocID: types.ID(o.b.DocID)}, "")
			rec("IsDocumentAttachedOrAttaching", p.n, o.owner, err == nil && att)
			cis, err := db.FindAttachedClientInfosByRefKey(ctx, types.DocRefKey{ProjectID: p.id, DocID: types.ID(o.b.DocID)})
			rec("FindAttachedClientInfosByRefKey", p.n, o.owner, err == nil && len(cis) > 0)
			if p.n == 1 {
				ri, err := db.FindRevisionInfoByID(ctx, types.ID(o.b.RevisionID))
				rec("FindRevisionInfoByID", p.n, o.owner, err == nil && ri != nil)
			}
			ris, err := db.FindRevisionInfosByPaging(ctx, types.DocRefKey{ProjectID: p.id, DocID: types.ID(o.b.DocID)}, types.Paging[int]{PageSize: 10}, false)
			rec("FindRevisionInfosByPaging", p.n, o.owner, err == nil && len(ris) > 0)
		}
	}
	// listings: whatever the page size, direction and starting point (none, an own id, a foreign id,
	// the extremes), a listing for project p returns rows of project p only - walking an index
	// past the project boundary is the defect class here - and both directions see the same rows
	lrec := func(fn, variant string, p int, pid types.ID, got []types.ID) {
		res.Evaluations++
		res.count("dblist:" + fn)
		foreign := 0
		for _, g := range got {
			if g != pid {
				foreign++
			}
		}
		if foreign > 0 {
			res.Violations = append(res.Violations, Violation{Kind: "db-list-scope",
				Detail: fmt.Sprintf("database.%s(project %d, %s) returned %d row(s) of other projects among %d", fn, p, variant, foreign, len(got)),
				Replay: map[string]any{"fn": fn, "project": p, "variant": variant}, Sig: map[string]any{"fn": fn}})
		}
		if !skipCoq {
			*coqCases = append(*coqCases, fmt.Sprintf("(AzList %q%%string %s %s)", fn, coqfmt.N(uint64(p)), coqfmt.N(uint64(foreign))))
		}
	}
	for _, p := range projs[:2] {
		offsets := []struct {
			n  string
			id types.ID
		}{{"start", ""}, {"attacker-doc", types.ID(A.bundle.DocID)}, {"victim-doc", types.ID(B.bundle.DocID)},
			{"lowest", types.ID("000000000000000000000000")}, {"highest", types.ID("ffffffffffffffffffffffff")}}
		total := map[bool]int{}
		for _, fwd := range []bool{true, false} {
			for _, size := range []int{0, 1, 3, 100000} {
				for _, off := range offsets {
					dis, err := db.FindDocInfosByPaging(ctx, p.id, types.Paging[types.ID]{Offset: off.id, PageSize: size, IsForward: fwd})
					var got []types.ID
					for _, d := range dis {
						got = append(got, d.ProjectID)
					}
					lrec("FindDocInfosByPaging", fmt.Sprintf("forward=%v pageSize=%d offset=%s", fwd, size, off.n), p.n, p.id, got)
					if err == nil && size == 0 && off.n == "start" {
						total[fwd] = len(dis)
					}
				}
			}
		}
		res.Evaluations++
		if total[true] != total[false] || total[true] == 0 {
			res.Violations = append(res.Violations, Violation{Kind: "db-list-incomplete",
				Detail: fmt.Sprintf("database.FindDocInfosByPaging(project %d) without limit: %d rows forward, %d backward", p.n, total[true], total[false]),
				Replay: map[string]any{"fn": "FindDocInfosByPaging", "project": p.n}, Sig: map[string]any{"fn": "FindDocInfosByPaging"}})
		}
		for _, q := range []string{"", "a", strings.ToLower(A.bundle.DocKey[:3]), strings.ToLower(B.bundle.DocKey[:3])} {
			for _, size := range []int{0, 2, 100000} {
				sr, err := db.FindDocInfosByQuery(ctx, p.id, q, size)
				var got []types.ID
				if err == nil && sr != nil {
					for _, d := range sr.Elements {
						got = append(got, d.ProjectID)
					}
				}
				lrec("FindDocInfosByQuery", fmt.Sprintf("query=%q pageSize=%d", q, size), p.n, p.id, got)
			}
		}
		if sis, err := db.ListSchemaInfos(ctx, p.id); err == nil {
			var got []types.ID
			for _, x := range sis {
				got = append(got, x.ProjectID)
			}
			lrec("ListSchemaInfos", "", p.n, p.id, got)
		}
		for _, nm := range []string{A.bundle.SchemaName, B.bundle.SchemaName} {
			if sis, err := db.GetSchemaInfos(ctx, p.id, nm); err == nil {
				var got []types.ID
				for _, x := range sis {
					got = append(got, x.ProjectID)
				}
				lrec("GetSchemaInfos", "name="+nm, p.n, p.id, got)
			}
		}
		if cnt, err := db.FindAttachedClientCountsByDocIDs(ctx, p.id, []types.ID{types.ID(A.bundle.DocID), types.ID(B.bundle.DocID)}); err == nil {
			var got []types.ID
			for id, n := range cnt {
				owner := A.project.ID
				if string(id) == B.bundle.DocID {
					owner = B.project.ID
				}
				if n > 0 {
					got = append(got, owner)
				}
			}
			lrec("FindAttachedClientCountsByDocIDs", "both documents", p.n, p.id, got)
		}
	}
}
