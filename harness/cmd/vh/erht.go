package main

// Engine erht: the real crdt.Object (ElementRHT) and crdt.Counter driven
// directly; outcomes go to the model (Corr/ERHT.v).

import (
	"fmt"
	"os"
	"path/filepath"
	"reflect"
	"sort"
	"unsafe"

	"google.golang.org/protobuf/proto"

	"github.com/yorkie-team/yorkie/api/converter"
	api "github.com/yorkie-team/yorkie/api/yorkie/v1"

	"verifharness/internal/coqfmt"
	"verifharness/internal/rng"

	"github.com/yorkie-team/yorkie/pkg/document/crdt"
	"github.com/yorkie-team/yorkie/pkg/document/time"
)

func init() { register("erht", runErht) }

// rhtLinks reads nodeMapByKey (key -> createdAt of the linked member, tombstoned or not).
func rhtLinks(obj *crdt.Object) map[string]*time.Ticket {
	f := reflect.ValueOf(obj).Elem().FieldByName("memberNodes")
	rht := reflect.NewAt(f.Type(), unsafe.Pointer(f.UnsafeAddr())).Elem().Elem()
	m := rht.FieldByName("nodeMapByKey")
	m = reflect.NewAt(m.Type(), unsafe.Pointer(m.UnsafeAddr())).Elem()
	out := map[string]*time.Ticket{}
	it := m.MapRange()
	for it.Next() {
		out[it.Key().String()] = it.Value().Interface().(*crdt.ElementRHTNode).Element().CreatedAt()
	}
	return out
}

// rhtDump renders every member (id, key, value, movedAt, removedAt), sorted, and the links.
func rhtDump(obj *crdt.Object, keyIdx map[string]int) (string, string) {
	var nodes []string
	for _, nd := range obj.RHTNodes() {
		e := nd.Element()
		nodes = append(nodes, coqfmt.Pair(ticketCoq(e.CreatedAt()),
			coqfmt.Pair(coqfmt.Pair(coqfmt.Pair(coqfmt.N(uint64(keyIdx[nd.Key()])), coqfmt.Z(int64(e.(*crdt.Primitive).Value().(int32)))), optTk(e.MovedAt())), optTk(e.RemovedAt()))))
	}
	sort.Strings(nodes)
	var links []string
	for k, id := range rhtLinks(obj) {
		links = append(links, coqfmt.Pair(coqfmt.N(uint64(keyIdx[k])), ticketCoq(id)))
	}
	sort.Strings(links)
	return coqfmt.List(nodes), coqfmt.List(links)
}

func erhtCase(r *rng.R, res *Result) (string, bool, []Violation) {
	var viol []Violation
	obj := crdt.NewObject(crdt.NewElementRHT(), time.InitialTicket)
	lam := int64(1)
	used := map[string]bool{}
	fresh := func() *time.Ticket {
		for {
			l := lam
			if r.Chance(1, 3) && lam > 2 {
				l = int64(r.Range(1, int(lam)))
			}
			lam++
			t := time.NewTicket(l, uint32(r.Intn(3)), actorOf(uint64(r.Range(1, 4))))
			if !used[t.Key()] {
				used[t.Key()] = true
				return t
			}
		}
	}
	keys := []string{"k1", "k2", "k3"}
	var ids []*time.Ticket
	var ops []string
	nontriv, purged := false, false
	n := r.Range(3, 20)
	for j := 0; j < n; j++ {
		var op string
		var err error
		switch r.Pick(6, 3, 2, 2) {
		case 0:
			t := fresh()
			k := r.Intn(len(keys))
			val := int32(r.Intn(1000))
			p, _ := crdt.NewPrimitive(val, t)
			obj.SetWithExecutedAt(keys[k], p, t)
			ids = append(ids, t)
			op = coqfmt.App("ESet", coqfmt.N(uint64(k+1)), ticketCoq(t), coqfmt.Z(int64(val)), ticketCoq(t))
			res.count("op.set")
		case 1:
			t := fresh()
			k := r.Intn(len(keys))
			obj.Delete(keys[k], t)
			op = coqfmt.App("EDelete", coqfmt.N(uint64(k+1)), ticketCoq(t))
			res.count("op.delete")
		case 2:
			if len(ids) == 0 {
				continue
			}
			t := fresh()
			id := ids[r.Intn(len(ids))]
			_, err = obj.DeleteByCreatedAt(id, t)
			op = coqfmt.App("EDeleteByCreated", ticketCoq(id), ticketCoq(t))
			res.count("op.delete-by-created")
		case 3:
			var cand []crdt.Element
			for _, nd := range obj.RHTNodes() {
				if nd.Element().RemovedAt() != nil {
					cand = append(cand, nd.Element())
				}
			}
			if len(cand) == 0 {
				continue
			}
			sort.Slice(cand, func(a, b int) bool { return cand[a].CreatedAt().Compare(cand[b].CreatedAt()) < 0 })
			e := cand[r.Intn(len(cand))]
			err = obj.Purge(e)
			op = coqfmt.App("EPurge", ticketCoq(e.CreatedAt()))
			res.count("op.purge")
			nontriv = true
			purged = true
		}
		var vis []string
		ms := obj.Members()
		for ki, k := range keys {
			if e, ok := ms[k]; ok {
				vis = append(vis, coqfmt.Pair(coqfmt.N(uint64(ki+1)), coqfmt.Z(int64(e.(*crdt.Primitive).Value().(int32)))))
			}
		}
		ops = append(ops, coqfmt.Pair(op, coqfmt.Pair(coqfmt.Bool(err != nil), coqfmt.List(vis))))
		// what snapshots and clones rely on (C02): a member that is not tombstoned is
		// the one linked under its key; a live but unlinked member is invisible here
		// but comes back on every replica rebuilt from a snapshot
		for _, nd := range obj.RHTNodes() {
			if nd.Element().RemovedAt() == nil && obj.Get(nd.Key()) != nd.Element() {
				viol = append(viol, Violation{Kind: "live-unlinked-member", Detail: fmt.Sprintf("after op %d: member %s of key %s is live but not linked (a snapshot-built replica would show it)", j, nd.Element().CreatedAt().ToTestString(), nd.Key())})
				break
			}
		}
	}
	var nodes []string
	for _, nd := range obj.RHTNodes() {
		nodes = append(nodes, coqfmt.Pair(ticketCoq(nd.Element().CreatedAt()), optTk(nd.Element().RemovedAt())))
	}
	sort.Strings(nodes)
	// the snapshot round trip (C02): members listed in an order the engine picks (the encoder
	// ranges over a Go map), decoded by the real converter, and dumped in full
	keyIdx := map[string]int{}
	for i, k := range keys {
		keyIdx[k] = i + 1
	}
	fullNodes, links := rhtDump(obj, keyIdx)
	snap := "None"
	if bs, err := converter.ObjectToBytes(obj); err == nil {
		pb := &api.JSONElement{}
		if err := proto.Unmarshal(bs, pb); err == nil && pb.GetJsonObject() != nil {
			ns := pb.GetJsonObject().Nodes
			tkKey := func(n *api.RHTNode) string {
				pt := n.Element.GetPrimitive().CreatedAt
				return fmt.Sprintf("%020d:%x:%010d", pt.Lamport, pt.ActorId, pt.Delimiter)
			}
			sort.Slice(ns, func(a, b int) bool { return tkKey(ns[a]) < tkKey(ns[b]) })
			for i := len(ns) - 1; i > 0; i-- {
				j := r.Intn(i + 1)
				ns[i], ns[j] = ns[j], ns[i]
			}
			var order []string
			for _, n := range ns {
				pt := n.Element.GetPrimitive().CreatedAt
				aid, err := time.ActorIDFromBytes(pt.ActorId)
				if err != nil {
					order = nil
					break
				}
				order = append(order, ticketCoq(time.NewTicket(pt.Lamport, pt.Delimiter, aid)))
			}
			if bs2, err := proto.Marshal(pb); err == nil {
				dec, err := converter.BytesToObject(bs2)
				if err != nil {
					viol = append(viol, Violation{Kind: "snapshot-decode-error", Detail: fmt.Sprintf("BytesToObject(ObjectToBytes(obj)): %v", err)})
				} else {
					dn, dl := rhtDump(dec, keyIdx)
					snap = coqfmt.Some(coqfmt.Pair(coqfmt.List(order), coqfmt.Pair(dn, dl)))
					// tables the engine purged by hand (in any order, then written to with old tickets) need not
					// be tables a garbage-collected replica can hold; the direct oracle judges the others
					if !purged && dec.Marshal() != obj.Marshal() {
						viol = append(viol, Violation{Kind: "snapshot-roundtrip-differs", Detail: fmt.Sprintf("object %s decodes to %s", obj.Marshal(), dec.Marshal())})
					}
					res.count("case.snapshot-roundtrip")
					if len(ns) >= 3 {
						nontriv = true
					}
				}
			}
		}
	}
	return coqfmt.App("KErht", coqfmt.List(ops), coqfmt.List(nodes), fullNodes, links, snap), nontriv, viol
}

func counterCase(r *rng.R, res *Result) string {
	long := r.Bool()
	var c *crdt.Counter
	var start int64
	if long {
		start = int64(r.U64())
		if r.Chance(2, 3) {
			start = int64(r.Range(-100, 100))
		}
		c, _ = crdt.NewCounter(crdt.LongCnt, start, time.InitialTicket)
	} else {
		s32 := int32(r.U64())
		if r.Chance(2, 3) {
			s32 = int32(r.Range(-100, 100))
		}
		start = int64(s32)
		c, _ = crdt.NewCounter(crdt.IntegerCnt, s32, time.InitialTicket)
	}
	var ds []string
	for i, n := 0, r.Range(1, 8); i < n; i++ {
		var d int64
		switch r.Pick(3, 2, 1) {
		case 0:
			d = int64(r.Range(-50, 50))
		case 1:
			d = int64(int32(r.U64()))
		default:
			d = int64(r.U64())
		}
		var p *crdt.Primitive
		if long || r.Bool() {
			p, _ = crdt.NewPrimitive(d, time.InitialTicket)
		} else {
			d = int64(int32(d))
			p, _ = crdt.NewPrimitive(int32(d), time.InitialTicket)
		}
		if _, err := c.Increase(p); err != nil {
			continue
		}
		ds = append(ds, coqfmt.Z(d))
	}
	var got int64
	switch v := c.Value().(type) {
	case int32:
		got = int64(v)
	case int64:
		got = v
	}
	res.count("case.counter")
	return coqfmt.App("KCounter", coqfmt.Bool(long), coqfmt.Z(start), coqfmt.List(ds), coqfmt.Z(got))
}

func rhtCase(r *rng.R, res *Result) string {
	h := crdt.NewRHT()
	lam := int64(1)
	used := map[string]bool{}
	fresh := func() *time.Ticket {
		for {
			l := lam
			if r.Chance(1, 3) && lam > 2 {
				l = int64(r.Range(1, int(lam)))
			}
			lam++
			t := time.NewTicket(l, uint32(r.Intn(3)), actorOf(uint64(r.Range(1, 4))))
			if !used[t.Key()] {
				used[t.Key()] = true
				return t
			}
		}
	}
	keys := []string{"bold", "color", "italic"}
	var ops []string
	for j, n := 0, r.Range(2, 14); j < n; j++ {
		t := fresh()
		k := r.Intn(len(keys))
		var op string
		if r.Chance(2, 3) {
			v := r.Intn(50)
			h.Set(keys[k], fmt.Sprint(v), t)
			op = coqfmt.App("APut", coqfmt.N(uint64(k+1)), coqfmt.Z(int64(v)), ticketCoq(t))
			res.count("op.attr-set")
		} else {
			h.Remove(keys[k], t)
			op = coqfmt.App("ARemove", coqfmt.N(uint64(k+1)), ticketCoq(t))
			res.count("op.attr-remove")
		}
		var live []string
		els := h.Elements()
		for ki, kk := range keys {
			if v, ok := els[kk]; ok {
				var x int64
				fmt.Sscan(v, &x)
				live = append(live, coqfmt.Pair(coqfmt.N(uint64(ki+1)), coqfmt.Z(x)))
			}
		}
		ops = append(ops, coqfmt.Pair(op, coqfmt.List(live)))
	}
	return coqfmt.App("KRht", coqfmt.List(ops))
}

func runErht(cfg *config) error {
	r := rng.New(cfg.seed)
	res := newResult("erht", cfg.seed)
	var cases []string
	seen := distinct{}
	for i := 0; i < cfg.n; i++ {
		if i%4 == 2 {
			c := rhtCase(r.Fork(), res)
			cases = append(cases, c)
			seen.add(c)
			continue
		}
		if i%4 == 3 {
			c := counterCase(r.Fork(), res)
			cases = append(cases, c)
			seen.add(c)
			continue
		}
		c, nontriv, viol := erhtCase(r.Fork(), res)
		cases = append(cases, c)
		if len(viol) > 0 && len(res.Violations) < 5 {
			v := viol[0]
			v.Detail = fmt.Sprintf("case %d: %s", i, v.Detail)
			v.Replay = c
			res.Violations = append(res.Violations, v)
		}
		if nontriv {
			seen.add(c)
		}
		if len(res.Samples) < 2 {
			res.Samples = append(res.Samples, c)
		}
	}
	res.Evaluations = len(cases)
	res.Nontrivial = len(seen)
	res.Rule = "random call sequences (SetWithExecutedAt with partly out-of-order tickets on 3 hot keys, Delete, DeleteByCreatedAt, purge of removed members) on the real crdt.Object, and random Increase sequences incl. extreme values on crdt.Counter (32/64 bit); non-trivial = contains a purge, or a counter case; distinct = distinct rendered case"
	f := filepath.Join(cfg.out, "cases_erht.v")
	src := coqfmt.File([]string{"From YV Require Import Corr.ERHT."}, "erhtcase", "mismatches erhtcheck", cases)
	if err := os.WriteFile(f, []byte(src), 0o644); err != nil {
		return err
	}
	res.CaseFiles = []string{f}
	_ = fmt.Sprint
	return res.write(cfg.out)
}
