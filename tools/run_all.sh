#!/bin/bash
# run_all.sh [quick|thorough] [ids...] : run the registered checks one after another, print one line each
cd /verif
tier=${1:-quick}; shift
ids=${@:-$(python3 -c "import json;print(' '.join(c['property_id'] for c in json.load(open('MANIFEST.json'))['checks']))")}
for id in $ids; do
  out=$(./check $id $tier 2>&1); rc=$?
  echo "$id rc=$rc $(echo "$out" | grep -c '^KNOWN-FINDING') known | $(echo "$out" | grep '^OK\|^VIOLATION' | head -2 | tr '\n' ' ')"
done
