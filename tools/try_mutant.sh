#!/bin/bash
# try_mutant.sh <seeded-id|patchfile> <check ids...>: apply to /repo, run quick checks, undo.
P=$1; shift
[ -f "$P" ] || P=/verif/seeded/$P/patch.diff
cd /repo && git apply "$P" || { echo "patch does not apply"; exit 2; }
cd /verif
for c in "$@"; do echo "--- $c"; ./check $c quick 2>&1 | grep -E "^VIOLATION|^OK|^KNOWN|  --" | cut -c1-260 | head -6; done
cd /repo && git checkout -- . && git status --short | grep -v "^??" | head -2
