#!/bin/bash
# confirm_mutant.sh <mutant-dir> <seeded-id> <demo-dest-relative-dir> [go test pkg pattern]
# Confirms in a scratch worktree of /repo: patch applies; full suite passes with it;
# demo fails with it and passes without it.  Then stores it under /verif/seeded/<id>/.
set -u
M=$1; ID=$2; DEST=$3; PKG=${4:-./$DEST/...}
export GOFLAGS=-mod=mod GOPROXY=off
WT=/tmp/wt/confirm-$ID
git -C /repo worktree remove --force $WT 2>/dev/null
git -C /repo worktree add -q --detach $WT HEAD || exit 2
cd $WT
mkdir -p $DEST && find $M/demo -name '*.go' -exec cp {} $DEST/ \;
RUN=$(grep -rhoE '^func (Test[A-Za-z0-9_]+)' $M/demo | sed 's/func //' | sort -u | paste -sd'|')
echo "tests: $RUN"
echo "== demo without mutant"; go test -count=1 $PKG -run "^($RUN)\$" > /tmp/wt/confirm-$ID.clean.log 2>&1; CLEAN=$?
tail -3 /tmp/wt/confirm-$ID.clean.log
git apply $M/patch.diff || { echo "PATCH DOES NOT APPLY"; exit 3; }
echo "== demo with mutant"; go test -count=1 $PKG -run "^($RUN)\$" > /tmp/wt/confirm-$ID.mut.log 2>&1; MUT=$?
tail -3 /tmp/wt/confirm-$ID.mut.log
rm -rf $DEST/zz_demo* ; [ "$DEST" = "verifdemo" ] || true
# remove demo files before the suite run (suite must be the unedited one)
git stash -q --include-untracked 2>/dev/null; git stash pop -q 2>/dev/null
for f in $(git status --short | grep '^??' | awk '{print $2}'); do rm -rf "$f"; done
echo "== suite with mutant"; go test -vet=off -count=1 ./... > /tmp/wt/confirm-$ID.suite.log 2>&1; SUITE=$?
grep -c "^ok" /tmp/wt/confirm-$ID.suite.log; grep "^FAIL\|^---" /tmp/wt/confirm-$ID.suite.log | head -5
echo "RESULT clean=$CLEAN mutant=$MUT suite=$SUITE  (want 0, non-0, 0)"
if [ $CLEAN = 0 ] && [ $MUT != 0 ] && [ $SUITE = 0 ]; then
  mkdir -p /verif/seeded/$ID && cp $M/patch.diff /verif/seeded/$ID/ && rm -rf /verif/seeded/$ID/demo && cp -r $M/demo /verif/seeded/$ID/demo && cp $M/README.md /verif/seeded/$ID/README.md
  echo "{\"confirmed\": true, \"demo_dest\": \"$DEST\", \"ran\": \"tools/confirm_mutant.sh: demo clean=pass, demo with patch=fail, full suite with patch=pass\"}" > /verif/seeded/$ID/confirm.json
  echo CONFIRMED
fi
cd /; git -C /repo worktree remove --force $WT
