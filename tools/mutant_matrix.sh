#!/bin/bash
# mutant_matrix.sh "<mutant>:<check>,<check> ..." : apply each seeded mutant to /repo, run the quick checks, undo.
cd /verif
for spec in "$@"; do
  m=${spec%%:*}; cs=${spec#*:}
  [ -f seeded/$m/patch.diff ] || { echo "$m: not confirmed/available"; continue; }
  (cd /repo && git apply /verif/seeded/$m/patch.diff) || { echo "$m: patch does not apply on current tree"; continue; }
  line="$m:"
  for c in ${cs//,/ }; do
    out=$(./check $c quick 2>&1)
    if echo "$out" | grep -q "^VIOLATION"; then
      if echo "$out" | grep "^VIOLATION" | grep -qv "no-failing-input-found"; then r="CAUGHT(input)"; else r="CAUGHT(corr-only)"; fi
    else r="missed"; fi
    line="$line $c=$r"
  done
  echo "$line"
  (cd /repo && git checkout -- .)
done
