(* Crdt/RHT.v — model of pkg/document/crdt/rht.go: the last-writer-wins
   attribute table of text and tree nodes.  Definitions only. *)
From YV Require Export Base.Ticket.

Record anode := mkAN { an_key : N; an_val : Z; an_at : ticket; an_removed : bool }.

Definition rht := list anode.     (* at most one node per key *)

Fixpoint aget_node (h : rht) (k : N) : option anode :=
  match h with [] => None | n :: r => if N.eqb (an_key n) k then Some n else aget_node r k end.

Fixpoint aput (h : rht) (n : anode) : rht :=
  match h with
  | [] => [n]
  | x :: r => if N.eqb (an_key x) (an_key n) then n :: r else x :: aput r n
  end.

(* RHT.Set *)
Definition rht_put (h : rht) (k : N) (v : Z) (t : ticket) : rht :=
  match aget_node h k with
  | None => aput h (mkAN k v t false)
  | Some n => if tafter t (an_at n) then aput h (mkAN k v t false) else h
  end.

(* RHT.Remove: an absent key gets a removed node; the value of the previous node is kept *)
Definition rht_remove (h : rht) (k : N) (t : ticket) : rht :=
  match aget_node h k with
  | None => aput h (mkAN k 0 t true)
  | Some n => if tafter t (an_at n) then aput h (mkAN k (an_val n) t true) else h
  end.

(* Elements(): live attributes *)
Definition rht_elements (h : rht) : list (N * Z) :=
  flat_map (fun n => if an_removed n then [] else [(an_key n, an_val n)]) h.

Inductive aop := APut (k : N) (v : Z) (t : ticket) | ARemove (k : N) (t : ticket).

Definition aop_ticket (o : aop) : ticket := match o with APut _ _ t => t | ARemove _ t => t end.

Definition rht_apply (h : rht) (o : aop) : rht :=
  match o with APut k v t => rht_put h k v t | ARemove k t => rht_remove h k t end.
