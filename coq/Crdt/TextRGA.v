(* Crdt/TextRGA.v — model of the editing core of pkg/document/crdt/rga_tree_split.go as used by
   crdt.Text (edit: findNodeWithSplit for both ends, deleteNodes over the nodes between them,
   InsertAfter of the new content), at the granularity of single characters.

   The implementation stores runs of characters that were typed together and splits them on
   demand; a run (createdAt, offset, "abc") stands for the characters (createdAt, offset),
   (createdAt, offset+1), (createdAt, offset+2), all with the run's removedAt.  Splitting is
   therefore invisible here, and the harness expands the real nodes into characters before
   comparing.  Not modelled: styles (attribute tables: Crdt/RHT.v), undo/redo restore spans,
   garbage collection, the index trees (treeByIndex/treeByID are lookup structures).
   Definitions only; proofs live in Proofs/. *)
From YV Require Export Base.Ticket.

Record tch := mkCh { c_tk : ticket; c_off : N; c_val : N; c_rm : option ticket }.

(* a position names the character it follows; the head of the text has no character *)
Inductive tpos := PHead | PAfter (tk : ticket) (off : N).

Definition is_at (p : tpos) (c : tch) : bool :=
  match p with
  | PHead => false
  | PAfter tk off => teqb (c_tk c) tk && N.eqb (c_off c) off
  end.

(* the characters up to and including the one the position names, and the rest *)
Fixpoint split_after_ch (tk : ticket) (off : N) (l : list tch) : option (list tch * list tch) :=
  match l with
  | [] => None
  | c :: r => if teqb (c_tk c) tk && N.eqb (c_off c) off then Some ([c], r)
              else match split_after_ch tk off r with
                   | Some (a, b) => Some (c :: a, b)
                   | None => None
                   end
  end.

Definition split_after (p : tpos) (l : list tch) : option (list tch * list tch) :=
  match p with
  | PHead => Some ([], l)
  | PAfter tk off => split_after_ch tk off l
  end.

(* findNodeWithSplit's loop: characters typed after the position by operations newer than t stay
   on the left *)
Fixpoint skip_newer (t : ticket) (l : list tch) : list tch * list tch :=
  match l with
  | c :: r => if tafter (c_tk c) t then let '(a, b) := skip_newer t r in (c :: a, b) else ([], l)
  | [] => ([], [])
  end.

Definition find_pos (p : tpos) (t : ticket) (l : list tch) : option (list tch * list tch) :=
  match split_after p l with
  | Some (a, r) => let '(s, r') := skip_newer t r in Some (a ++ s, r')
  | None => None
  end.

(* version vectors: actor rank -> lamport; None stands for a local edit (everything is known) *)
Definition vvec := list (N * Z).
Fixpoint vv_get (v : vvec) (a : N) : option Z :=
  match v with [] => None | (a', l) :: r => if N.eqb a' a then Some l else vv_get r a end.

Definition known (v : option vvec) (t : ticket) : bool :=
  match v with
  | None => true
  | Some v => match vv_get v (act t) with Some l => Z.leb (lam t) l | None => false end
  end.

(* RGATreeSplitNode.Remove as called by deleteNodes *)
Definition del_ch (t : ticket) (v : option vvec) (c : tch) : tch :=
  if known v (c_tk c) then
    match c_rm c with
    | None => mkCh (c_tk c) (c_off c) (c_val c) (Some t)
    | Some r => if negb (known v r) && tafter t r then mkCh (c_tk c) (c_off c) (c_val c) (Some t) else c
    end
  else c.

Fixpoint mkblock (t : ticket) (off : N) (vals : list N) : list tch :=
  match vals with
  | [] => []
  | x :: r => mkCh t off x None :: mkblock t (N.succ off) r
  end.

(* RGATreeSplit.edit *)
Definition edit (pf pt : tpos) (vals : list N) (t : ticket) (v : option vvec) (l : list tch) : option (list tch) :=
  match find_pos pt t l, find_pos pf t l with
  | Some (tl, tr), Some (fl, fr) =>
      (* findBetween(fromRight, toRight): up to toRight, or to the end when toRight is not ahead *)
      let cand := if Nat.leb (length fl) (length tl) then firstn (length tl - length fl) fr else fr in
      let rest := if Nat.leb (length fl) (length tl) then tr else [] in
      Some (fl ++ mkblock t 0 vals ++ map (del_ch t v) cand ++ rest)
  | _, _ => None
  end.

(* findNodePos (treeByIndex.FindForText): the position right after the i-th visible character,
   the head for 0 *)
Definition live (c : tch) : bool := match c_rm c with None => true | Some _ => false end.

Fixpoint pos_after_nth (l : list tch) (i : nat) : option tpos :=
  match l with
  | [] => None
  | c :: r => if live c then
                match i with
                | O => None
                | S O => Some (PAfter (c_tk c) (c_off c))
                | S j => pos_after_nth r j
                end
              else pos_after_nth r i
  end.

Definition pos_of_index (l : list tch) (i : nat) : option tpos :=
  match i with O => Some PHead | _ => pos_after_nth l i end.

(* a local edit by visible indices: CreateRange(i, j) and Edit with no version vector *)
Definition local_edit (i j : nat) (vals : list N) (t : ticket) (l : list tch) : option (list tch) :=
  match pos_of_index l i, pos_of_index l j with
  | Some pf, Some pt => edit pf pt vals t None l
  | _, _ => None
  end.

(* RGATreeSplit.Purge of a run: its characters leave the list *)
Definition purge_run (tk : ticket) (off len : N) (l : list tch) : list tch :=
  filter (fun c => negb (teqb (c_tk c) tk && N.leb off (c_off c) && N.ltb (c_off c) (off + len))) l.

Definition visible (l : list tch) : list N :=
  flat_map (fun c => match c_rm c with None => [c_val c] | Some _ => [] end) l.
