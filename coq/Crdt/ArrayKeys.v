(* Crdt/ArrayKeys.v — the array (crdt.RGATreeList) as two independent replicated structures:
     - the list of position identities in RGA order (every insert and every move adds one, with
       the skip rule; nothing but garbage collection ever takes one out), and
     - per element a last-writer-wins register "which position holds me" (moves) and a
       last-writer-wins tombstone (deletes), plus the reverse map position -> element.
   Everything is read through lookups, so two states are the same as soon as their position
   lists are equal and their lookups agree.  This is a second model of the same code as
   Crdt/RGAList.v (slots with indices); Corr/RGA.v runs the two in lockstep on every case the rga
   engine records from the real structure and compares them with each other and with the
   implementation.  Definitions only. *)
From YV Require Export Crdt.RGAList.

Record arr := mkArr {
  akeys : list ticket;                     (* position ids in order, the head (initial ticket) first *)
  aents : list entry;                      (* elements by creation ticket *)
  aheld : list (ticket * option ticket)    (* position id -> the element living there, if any *)
}.

Definition empty_arr : arr := mkArr [initial_ticket] [] [].

Fixpoint hget (h : list (ticket * option ticket)) (k : ticket) : option ticket :=
  match h with [] => None | (k', v) :: r => if teqb k' k then v else hget r k end.

Fixpoint hset (h : list (ticket * option ticket)) (k : ticket) (v : option ticket) : list (ticket * option ticket) :=
  match h with
  | [] => [(k, v)]
  | (k', v') :: r => if teqb k' k then (k, v) :: r else (k', v') :: hset r k v
  end.

(* the skip rule on position ids *)
Fixpoint kplace (t : ticket) (l : list ticket) : list ticket :=
  match l with
  | x :: r => if tafter x t then x :: kplace t r else t :: l
  | [] => [t]
  end.

Fixpoint kinsert (anchor t : ticket) (l : list ticket) : option (list ticket) :=
  match l with
  | [] => None
  | x :: r => if teqb x anchor then Some (x :: kplace t r) else option_map (cons x) (kinsert anchor t r)
  end.

Definition is_key (a : arr) (p : ticket) : bool := existsb (teqb p) (akeys a).

(* insertAfter resolves its anchor among position ids first, among element ids second *)
Definition a_anchor (a : arr) (prev : ticket) : option ticket :=
  if is_key a prev then Some prev else option_map en_pos (find_entry (aents a) prev).

Definition a_insert (a : arr) (prev id : ticket) (val : Z) : option arr :=
  match a_anchor a prev with
  | None => None
  | Some p =>
      option_map (fun ks => mkArr ks (set_entry (aents a) (mkEnt id val None None id)) (hset (aheld a) id (Some id)))
                 (kinsert p id (akeys a))
  end.

Definition a_move (a : arr) (prev id t : ticket) : option arr :=
  if negb (is_key a prev) then None else
  match find_entry (aents a) id with
  | None => None
  | Some e =>
      let loses := match en_moved e with Some m => negb (tafter t m) | None => false end in
      if loses then
        if is_key a t then Some a
        else option_map (fun ks => mkArr ks (aents a) (hset (aheld a) t None)) (kinsert prev t (akeys a))
      else
        option_map (fun ks => mkArr ks (set_entry (aents a) (mkEnt id (en_val e) (en_removed e) (Some t) t))
                                    (hset (hset (aheld a) (en_pos e) None) t (Some id)))
                   (kinsert prev t (akeys a))
  end.

Definition a_delete (a : arr) (id t : ticket) : option arr :=
  match find_entry (aents a) id with
  | None => None
  | Some e => Some (mkArr (akeys a) (set_entry (aents a) (elem_remove e t)) (aheld a))
  end.

Definition a_set (a : arr) (id newid : ticket) (val : Z) (t : ticket) : option arr :=
  match find_entry (aents a) id with
  | None => None
  | Some _ => match a_insert a id newid val with
              | None => Some a
              | Some a1 => a_delete a1 id t
              end
  end.

Definition a_purge_slot (a : arr) (p : ticket) : arr :=
  mkArr (filter (fun k => negb (teqb k p)) (akeys a)) (aents a) (hset (aheld a) p None).

Definition a_purge_elem (a : arr) (id : ticket) : option arr :=
  match find_entry (aents a) id with
  | None => None
  | Some e => Some (mkArr (filter (fun k => negb (teqb k (en_pos e))) (akeys a)) (del_entry (aents a) id) (hset (aheld a) (en_pos e) None))
  end.

Definition a_live (a : arr) (k : ticket) : option entry :=
  match hget (aheld a) k with
  | Some id => match find_entry (aents a) id with
               | Some e => match en_removed e with None => Some e | Some _ => None end
               | None => None
               end
  | None => None
  end.

Definition a_visible (a : arr) : list Z :=
  flat_map (fun k => match a_live a k with Some e => [en_val e] | None => [] end) (akeys a).
