(* Crdt/RGAList.v — model of pkg/document/crdt/rga_tree_list.go: a list of
   position slots (the dummy head is implicit, identified by the initial
   ticket), and the element entries that live in them.  The balancing tree
   (pkg/treelist) is not modelled: it only answers index queries, which here
   are linear scans over live slots.  Definitions only. *)
From YV Require Export Base.Ticket.

Record slot := mkSlot {
  sl_pos : ticket;                  (* position node's own createdAt *)
  sl_removed : option ticket;       (* removedAt of a dead position *)
  sl_elem : option ticket           (* createdAt of the element living here *)
}.

Record entry := mkEnt {
  en_id : ticket;                   (* element createdAt *)
  en_val : Z;
  en_removed : option ticket;       (* element removedAt *)
  en_moved : option ticket;         (* posMovedAt *)
  en_pos : ticket                   (* position node currently holding the element *)
}.

Record rga := mkRga { slots : list slot; entries : list entry }.

Definition empty_rga : rga := mkRga [] [].

Fixpoint find_entry (l : list entry) (id : ticket) : option entry :=
  match l with
  | [] => None
  | e :: r => if teqb (en_id e) id then Some e else find_entry r id
  end.

Fixpoint set_entry (l : list entry) (e' : entry) : list entry :=
  match l with
  | [] => [e']
  | e :: r => if teqb (en_id e) (en_id e') then e' :: r else e :: set_entry r e'
  end.

Fixpoint del_entry (l : list entry) (id : ticket) : list entry :=
  match l with
  | [] => []
  | e :: r => if teqb (en_id e) id then r else e :: del_entry r id
  end.

(* index of the slot whose position id is [p]; the dummy head is index 0 and
   real slots start at 1 *)
Fixpoint slot_index (l : list slot) (p : ticket) (i : nat) : option nat :=
  match l with
  | [] => None
  | s :: r => if teqb (sl_pos s) p then Some i else slot_index r p (S i)
  end.

Definition find_pos (g : rga) (p : ticket) : option nat :=
  if teqb p initial_ticket then Some 0%nat else slot_index (slots g) p 1.

(* RGATreeListNode.PositionedAt *)
Definition positioned_at (g : rga) (s : slot) : ticket :=
  match sl_elem s with
  | Some id => match find_entry (entries g) id with
               | Some e => match en_moved e with Some m => m | None => en_id e end
               | None => sl_pos s
               end
  | None => sl_pos s
  end.

(* findNextBeforeExecutedAt: from the node at index [i] (0 = head), the number
   of following slots whose PositionedAt is after executedAt *)
Fixpoint skip_count (g : rga) (rest : list slot) (t : ticket) : nat :=
  match rest with
  | [] => 0
  | s :: r => if tafter (positioned_at g s) t then S (skip_count g r t) else 0
  end.

Fixpoint insert_at {A} (l : list A) (i : nat) (x : A) : list A :=
  match i, l with
  | O, _ => x :: l
  | S k, [] => [x]
  | S k, y :: r => y :: insert_at r k x
  end.

(* index (0 = head) after which a node executed at [t] and anchored at index [i] lands *)
Definition landing (g : rga) (i : nat) (t : ticket) : nat :=
  (i + skip_count g (skipn i (slots g)) t)%nat.

Inductive rerr := RChildNotFound.

(* insertAfter: the anchor is looked up among position ids first, among
   element ids second *)
Definition anchor_index (g : rga) (prev : ticket) : option nat :=
  match find_pos g prev with
  | Some i => Some i
  | None => match find_entry (entries g) prev with
            | Some e => find_pos g (en_pos e)
            | None => None
            end
  end.

Definition insert_after (g : rga) (prev : ticket) (id : ticket) (val : Z) (t : ticket) : option rga :=
  match anchor_index g prev with
  | None => None
  | Some i =>
      let j := landing g i t in
      Some (mkRga (insert_at (slots g) j (mkSlot id None (Some id)))
                  (set_entry (entries g) (mkEnt id val None None id)))
  end.

(* insertPositionAfter: anchors through the position map only *)
Definition insert_position_after (g : rga) (prev : ticket) (t : ticket) (s : slot) : option rga :=
  match find_pos g prev with
  | None => None
  | Some i => Some (mkRga (insert_at (slots g) (landing g i t) s) (entries g))
  end.

Definition kill_slot (l : list slot) (p : ticket) (t : ticket) : list slot :=
  map (fun s => if teqb (sl_pos s) p then mkSlot (sl_pos s) (Some t) None else s) l.

(* MoveAfter *)
Definition move_after (g : rga) (prev id t : ticket) : option rga :=
  match find_pos g prev, find_entry (entries g) id with
  | Some _, Some e =>
      let loses := match en_moved e with Some m => negb (tafter t m) | None => false end in
      if loses then
        match find_pos g t with
        | Some _ => Some g
        | None => (* dead on arrival, because of the newer move: it carries that move's ticket *)
                  insert_position_after g prev t (mkSlot t (en_moved e) None)
        end
      else
        match insert_position_after g prev t (mkSlot t None (Some id)) with
        | None => None
        | Some g1 =>
            Some (mkRga (kill_slot (slots g1) (en_pos e) t)
                        (set_entry (entries g1) (mkEnt id (en_val e) (en_removed e) (Some t) t)))
        end
  | _, _ => None
  end.

(* Primitive.Remove *)
Definition elem_remove (e : entry) (t : ticket) : entry :=
  if tafter t (en_id e) && match en_removed e with None => true | Some r => tafter t r end
  then mkEnt (en_id e) (en_val e) (Some t) (en_moved e) (en_pos e) else e.

(* DeleteByCreatedAt *)
Definition delete_by_created (g : rga) (id t : ticket) : option rga :=
  match find_entry (entries g) id with
  | None => None
  | Some e => Some (mkRga (slots g) (set_entry (entries g) (elem_remove e t)))
  end.

(* Set: insert the new value after the element's createdAt (resolved like any
   anchor: position map first), then delete the old element; an insert error is
   swallowed *)
Definition set_elem (g : rga) (id : ticket) (newid : ticket) (val : Z) (t : ticket) : option rga :=
  match find_entry (entries g) id with
  | None => None
  | Some _ =>
      match insert_after g id newid val t with
      | None => Some g
      | Some g1 => delete_by_created g1 id t
      end
  end.

Definition release (l : list slot) (p : ticket) : list slot :=
  filter (fun s => negb (teqb (sl_pos s) p)) l.

(* purge(elem) *)
Definition purge_elem (g : rga) (id : ticket) : option rga :=
  match find_entry (entries g) id with
  | None => None
  | Some e => Some (mkRga (release (slots g) (en_pos e)) (del_entry (entries g) id))
  end.

(* Purge(child GCChild) of a dead position *)
Definition purge_slot (g : rga) (p : ticket) : rga := mkRga (release (slots g) p) (entries g).

Definition slot_live (g : rga) (s : slot) : option entry :=
  match sl_elem s with
  | Some id => match find_entry (entries g) id with
               | Some e => match en_removed e with None => Some e | Some _ => None end
               | None => None
               end
  | None => None
  end.

(* Marshal: values of live slots in list order *)
Definition visible (g : rga) : list Z :=
  flat_map (fun s => match slot_live g s with Some e => [en_val e] | None => [] end) (slots g).

(* LastCreatedAt (after the fix): position id of the last live node, else the head *)
Definition last_created (g : rga) : ticket :=
  match filter (fun s => match slot_live g s with Some _ => true | None => false end) (rev (slots g)) with
  | s :: _ => sl_pos s
  | [] => initial_ticket
  end.

(* PosCreatedAt *)
Definition pos_created (g : rga) (id : ticket) : option ticket :=
  match find_entry (entries g) id with Some e => Some (en_pos e) | None => None end.

(* FindPrevCreatedAt: walk back over dead positions and removed elements *)
Fixpoint take_until_pos (l : list slot) (p : ticket) : list slot :=
  match l with
  | [] => []
  | s :: r => if teqb (sl_pos s) p then [] else s :: take_until_pos r p
  end.

Definition find_prev_created (g : rga) (id : ticket) : option ticket :=
  match find_entry (entries g) id with
  | None => None
  | Some e =>
      let before := rev (take_until_pos (slots g) (en_pos e)) in
      Some match filter (fun s => match slot_live g s with Some _ => true | None => false end) before with
           | s :: _ => sl_pos s
           | [] => initial_ticket
           end
  end.

(* Get(idx): the idx-th live slot *)
Definition get_index (g : rga) (idx : nat) : option entry :=
  nth_error (flat_map (fun s => match slot_live g s with Some e => [e] | None => [] end) (slots g)) idx.
