(* Crdt/ElemRHT.v — model of pkg/document/crdt/element_rht.go (object members,
   last-writer-wins by position ticket) and of the numeric part of
   crdt/counter.go (32/64-bit wraparound).  Definitions only. *)
From YV Require Export Base.Ticket.

Record rnode := mkRN {
  rn_key : N; rn_id : ticket; rn_val : Z;
  rn_moved : option ticket; rn_removed : option ticket
}.

Record erht := mkERHT {
  by_key : list (N * ticket);        (* nodeMapByKey: key -> id of the linked node *)
  nodes : list rnode                 (* nodeMapByCreatedAt *)
}.

Definition empty_erht : erht := mkERHT [] [].

Fixpoint nget (l : list rnode) (id : ticket) : option rnode :=
  match l with [] => None | n :: r => if teqb (rn_id n) id then Some n else nget r id end.

Fixpoint nset (l : list rnode) (n' : rnode) : list rnode :=
  match l with
  | [] => [n']
  | n :: r => if teqb (rn_id n) (rn_id n') then n' :: r else n :: nset r n'
  end.

Fixpoint ndel (l : list rnode) (id : ticket) : list rnode :=
  match l with [] => [] | n :: r => if teqb (rn_id n) id then r else n :: ndel r id end.

Fixpoint kget (l : list (N * ticket)) (k : N) : option ticket :=
  match l with [] => None | (k', t) :: r => if N.eqb k' k then Some t else kget r k end.

Fixpoint kset (l : list (N * ticket)) (k : N) (t : ticket) : list (N * ticket) :=
  match l with
  | [] => [(k, t)]
  | (k', t') :: r => if N.eqb k' k then (k, t) :: r
                     else if N.ltb k k' then (k, t) :: (k', t') :: r
                     else (k', t') :: kset r k t
  end.

Fixpoint kdel (l : list (N * ticket)) (k : N) : list (N * ticket) :=
  match l with [] => [] | (k', t') :: r => if N.eqb k' k then r else (k', t') :: kdel r k end.

(* PositionedAt *)
Definition rn_positioned (n : rnode) : ticket :=
  match rn_moved n with Some m => m | None => rn_id n end.

(* ElementRHTNode.Remove / Primitive.Remove *)
Definition rn_remove (n : rnode) (t : ticket) : rnode * bool :=
  if tafter t (rn_id n) && match rn_removed n with None => true | Some r => tafter t r end
  then (mkRN (rn_key n) (rn_id n) (rn_val n) (rn_moved n) (Some t), true) else (n, false).

Definition linked (h : erht) (k : N) : option rnode :=
  match kget (by_key h) k with Some id => nget (nodes h) id | None => None end.

(* SetWithExecutedAt (with the repaired losing branch: the loser is always tombstoned) *)
Definition rht_set (h : erht) (k : N) (id : ticket) (val : Z) (t : ticket) : erht :=
  let newn := mkRN k id val None None in
  match linked h k with
  | None => mkERHT (kset (by_key h) k id) (nset (nodes h) (mkRN k id val (Some t) None))
  | Some old =>
      if tafter t (rn_positioned old) then
        let old' := match rn_removed old with
                    | None => fst (rn_remove old t)
                    | Some _ => old
                    end in
        mkERHT (kset (by_key h) k id) (nset (nset (nodes h) old') (mkRN k id val (Some t) None))
      else
        mkERHT (by_key h) (nset (nodes h) (fst (rn_remove newn (rn_positioned old))))
  end.

(* Delete(key) *)
Definition rht_delete (h : erht) (k : N) (t : ticket) : erht :=
  match linked h k with
  | None => h
  | Some n => mkERHT (by_key h) (nset (nodes h) (fst (rn_remove n t)))
  end.

(* DeleteByCreatedAt *)
Definition rht_delete_by_created (h : erht) (id t : ticket) : option erht :=
  match nget (nodes h) id with
  | None => None
  | Some n => Some (mkERHT (by_key h) (nset (nodes h) (fst (rn_remove n t))))
  end.

(* purge *)
Definition rht_purge (h : erht) (id : ticket) : option erht :=
  match nget (nodes h) id with
  | None => None
  | Some n =>
      let bk := match kget (by_key h) (rn_key n) with
                | Some lid => if teqb lid id then kdel (by_key h) (rn_key n) else by_key h
                | None => by_key h
                end in
      Some (mkERHT bk (ndel (nodes h) id))
  end.

(* api/converter/from_bytes.go fromJSONObject, one member: the decoded element (with its own
   movedAt/removedAt) is put back with SetWithExecutedAt(key, elem, PositionedAt(elem)); a tombstone
   the element already carried is restored afterwards (SetRemovedAt) *)
Definition decode_step (h : erht) (n : rnode) : erht :=
  let t := rn_positioned n in
  let k := rn_key n in
  let won := mkRN k (rn_id n) (rn_val n) (Some t) (rn_removed n) in
  match linked h k with
  | None => mkERHT (kset (by_key h) k (rn_id n)) (nset (nodes h) won)
  | Some old =>
      if tafter t (rn_positioned old) then
        let old' := match rn_removed old with
                    | None => fst (rn_remove old t)
                    | Some _ => old
                    end in
        mkERHT (kset (by_key h) k (rn_id n)) (nset (nset (nodes h) old') won)
      else
        let n' := match rn_removed n with
                  | Some _ => n
                  | None => fst (rn_remove n (rn_positioned old))
                  end in
        mkERHT (by_key h) (nset (nodes h) n')
  end.

(* BytesToObject over the members in the order the encoder listed them (map order: arbitrary) *)
Definition rht_decode (members : list rnode) : erht := fold_left decode_step members empty_erht.

(* Elements()/Marshal(): live linked members, ascending key *)
Definition rht_visible (h : erht) : list (N * Z) :=
  flat_map (fun kt => match nget (nodes h) (snd kt) with
                      | Some n => match rn_removed n with None => [(fst kt, rn_val n)] | Some _ => [] end
                      | None => []
                      end) (by_key h).

(* Counter.Increase: two's complement wraparound *)
Definition wrap (bits : Z) (x : Z) : Z :=
  let m := 2 ^ bits in
  let y := x mod m in
  if y <? 2 ^ (bits - 1) then y else y - m.

Definition counter_increase (is_long : bool) (cur delta : Z) : Z :=
  if is_long then wrap 64 (cur + delta) else wrap 32 (cur + wrap 32 delta).
