(* Crdt/TextStyle.v — Text.Style / Text.RemoveStyle on the character-level text model: the
   attribute tables (Crdt/RHT.v) are kept beside the character list, keyed by character id (a run's
   table stands for the table of each of its characters; splitting a run copies it).  A style
   operation reads the list (range, canStyle) and writes tables only; an edit never touches them
   (new characters start with the empty table: the harness types without attributes).
   Definitions only. *)
From YV Require Export Crdt.TextRGA Crdt.RHT.

Definition attrs := list (ticket * N * rht).

Fixpoint attr_get (A : attrs) (tk : ticket) (off : N) : rht :=
  match A with
  | [] => []
  | (tk', off', h) :: r => if teqb tk' tk && N.eqb off' off then h else attr_get r tk off
  end.

Fixpoint attr_set (A : attrs) (tk : ticket) (off : N) (h : rht) : attrs :=
  match A with
  | [] => [(tk, off, h)]
  | (tk', off', h') :: r => if teqb tk' tk && N.eqb off' off then (tk, off, h) :: r
                            else (tk', off', h') :: attr_set r tk off h
  end.

(* RGATreeSplitNode.canStyle *)
Definition can_style (t : ticket) (v : option vvec) (c : tch) : bool :=
  known v (c_tk c) && match c_rm c with None => true | Some r => tafter t r end.

Definition style_ch (ops : list aop) (t : ticket) (v : option vvec) (A : attrs) (c : tch) : attrs :=
  if can_style t v c
  then attr_set A (c_tk c) (c_off c) (fold_left rht_apply ops (attr_get A (c_tk c) (c_off c)))
  else A.

(* the nodes between fromRight and toRight, exactly as in edit *)
Definition candidates (pf pt : tpos) (t : ticket) (l : list tch) : option (list tch) :=
  match find_pos pt t l, find_pos pf t l with
  | Some (tl, tr), Some (fl, fr) =>
      Some (if Nat.leb (length fl) (length tl) then firstn (length tl - length fl) fr else fr)
  | _, _ => None
  end.

(* Style: ops = [APut k v t ...]; RemoveStyle: ops = [ARemove k t ...] *)
Definition style (pf pt : tpos) (ops : list aop) (t : ticket) (v : option vvec) (l : list tch) (A : attrs) : option attrs :=
  option_map (fun cand => fold_left (style_ch ops t v) cand A) (candidates pf pt t l).
