(* Crdt/TreeText.v — model of crdt.Tree.Edit restricted to the children of one element that are
   either all text or all empty elements (an empty element is one character: its ticket, place 0,
   its type letter; a run of elements inserted by one edit is rendered like a run of characters).
   First case: the text inside one element
   (pkg/document/crdt/tree.go: FindTreeNodesWithSplitText for both ends, collectBetween over the
   text pieces between them, tombstoneCollected, insertion of one text node), at the granularity
   of single characters: the children of the element are text pieces (createdAt, offset, "abc")
   that stand for the characters (createdAt, offset) .. (createdAt, offset+2), split on demand.

   It is the character list of Crdt/TextRGA.v with the same position resolution
   (split, then step over the pieces newer than the edit), the same deletion rule (canDelete with
   the author's version vector, latest tombstone wins among unknown ones) and the same insertion.
   A range whose from-position resolves behind its to-position is outside the model ([None]):
   RGATreeSplit.edit deletes to the end of the list there; crdt.Tree.Edit deletes nothing and
   inserts either at the from- or at the to-position depending on how the characters happen to
   be chunked into pieces on that replica (the to-split can shrink the piece the from-position
   was resolved to).  json.Tree refuses such ranges; the harness generates none.

   The inserted text node's own ticket is issued right before the edit's ticket (json.Tree);
   the harness renders it as the edit's ticket (see harness/cmd/vh/treetext.go).
   Not modelled: element children, splits, merges, styles, index arithmetic (FindPos), GC. *)
From YV Require Export Crdt.TextRGA.

Definition tree_edit (pf pt : tpos) (vals : list N) (t : ticket) (v : option vvec) (l : list tch) : option (list tch) :=
  match find_pos pt t l, find_pos pf t l with
  | Some (tl, tr), Some (fl, fr) =>
      if Nat.leb (length fl) (length tl)
      then Some (fl ++ mkblock t 0 vals ++ map (del_ch t v) (firstn (length tl - length fl) fr) ++ tr)
      else None
  | _, _ => None
  end.

(* a local edit by visible indices inside the element: FindPos for both ends, then Edit *)
Definition local_tree_edit (i j : nat) (vals : list N) (t : ticket) (l : list tch) : option (list tch) :=
  match pos_of_index l i, pos_of_index l j with
  | Some pf, Some pt => tree_edit pf pt vals t None l
  | _, _ => None
  end.
