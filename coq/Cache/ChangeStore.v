(* ChangeStore.v — model of server/backend/database/mongo/changestore.go and of
   the way mongo/client.go composes the two stores in
   FindChangeInfosBetweenServerSeqs.  Definitions only. *)
From Coq Require Export List ZArith NArith Bool Lia.
Export ListNotations.
Open Scope Z_scope.

(* what the cache needs to know about a stored change *)
Record chg := mkChg { c_seq : Z; c_actor : N; c_clear : bool; c_pay : Z }.

Definition chg_eqb (a b : chg) : bool :=
  Z.eqb (c_seq a) (c_seq b) && N.eqb (c_actor a) (c_actor b) &&
  Bool.eqb (c_clear a) (c_clear b) && Z.eqb (c_pay a) (c_pay b).

Definition range := (Z * Z)%type.

Record store := mkStore { ranges : list range; items : list chg (* ascending c_seq, unique *) }.

Definition empty_store : store := mkStore [] [].

(* btree.ReplaceOrInsert keyed by ServerSeq *)
Fixpoint insert_item (l : list chg) (c : chg) : list chg :=
  match l with
  | [] => [c]
  | x :: r =>
      if c_seq c <? c_seq x then c :: x :: r
      else if c_seq c =? c_seq x then c :: r
      else x :: insert_item r c
  end.

Definition insert_all (l : list chg) (cs : list chg) : list chg := fold_left insert_item cs l.

Definition in_rng (f t q : Z) : bool := (f <=? q) && (q <=? t).

(* ChangesInRange *)
Definition changes_in_range (s : store) (f t : Z) : list chg :=
  if t <? f then [] else filter (fun c => in_rng f t (c_seq c)) (items s).

(* sort.Slice by From (insertion sort; the merge below does not depend on the
   order among equal From) *)
Fixpoint insert_range (l : list range) (r : range) : list range :=
  match l with
  | [] => [r]
  | x :: rest => if fst r <=? fst x then r :: x :: rest else x :: insert_range rest r
  end.

Definition sort_ranges (l : list range) : list range := fold_left insert_range l [].

Fixpoint merge_sorted (cur : range) (l : list range) : list range :=
  match l with
  | [] => [cur]
  | x :: rest =>
      if fst x <=? snd cur + 1 then merge_sorted (fst cur, Z.max (snd cur) (snd x)) rest
      else cur :: merge_sorted x rest
  end.

(* mergeAdjacentRanges *)
Definition merge_adjacent (l : list range) : list range :=
  match l with
  | [] => []
  | [r] => [r]
  | _ => match sort_ranges l with
         | [] => []
         | c :: rest => merge_sorted c rest
         end
  end.

Definition covered (rs : list range) (q : Z) : bool :=
  existsb (fun r => in_rng (fst r) (snd r) q) rs.

Definition has_seq (l : list chg) (q : Z) : bool := existsb (fun c => c_seq c =? q) l.

(* the per-sequence scan of calcMissingRanges *)
Fixpoint scan (found : Z -> bool) (q : Z) (n : nat) (cur : option Z) : list range :=
  match n with
  | O => match cur with Some s => [(s, q - 1)] | None => [] end
  | S n' =>
      if found q then
        match cur with
        | Some s => (s, q - 1) :: scan found (q + 1) n' None
        | None => scan found (q + 1) n' None
        end
      else scan found (q + 1) n' (match cur with Some s => Some s | None => Some q end)
  end.

Definition calc_missing (s : store) (f t : Z) : list range :=
  match items s, ranges s with
  | [], [] => [(f, t)]
  | _, _ =>
      let found q := has_seq (items s) q || covered (ranges s) q in
      let m := scan found f (Z.to_nat (t - f + 1)) None in
      match m with
      | _ :: _ :: _ => merge_adjacent m
      | _ => m
      end
  end.

Definition ensure_step (fetch : Z -> Z -> list chg) (s : store) (r : range) : store :=
  mkStore (merge_adjacent (ranges s ++ [r])) (insert_all (items s) (fetch (fst r) (snd r))).

(* EnsureChanges: returns the new store and the list of ranges the fetcher was
   asked for; [None] is the ErrInvalidServerSeq branch. *)
Definition ensure (fetch : Z -> Z -> list chg) (s : store) (f t : Z) : option (store * list range) :=
  if t <? f then None
  else let miss := calc_missing s f t in
       Some (fold_left (ensure_step fetch) miss s, miss).

(* EnsureChanges with a fetcher that fails on its (k+1)-th call: the missing ranges before the
   failing one were fetched, stored and marked; the failing one and those after it were not
   (the loop returns the error).  Returns the store, the ranges asked for (the failing one
   included) and whether the failure was reached. *)
Definition ensure_failing (fetch : Z -> Z -> list chg) (s : store) (f t : Z) (k : nat)
  : option (store * list range * bool) :=
  if t <? f then None
  else let miss := calc_missing s f t in
       if (k <? length miss)%nat
       then Some (fold_left (ensure_step fetch) (firstn k miss) s, firstn (S k) miss, true)
       else Some (fold_left (ensure_step fetch) miss s, miss, false).

Definition expand (s : store) (r : range) : store :=
  if snd r <? fst r then s else mkStore (merge_adjacent (ranges s ++ [r])) (items s).

Definition replace_or_insert (s : store) (cs : list chg) : store :=
  mkStore (ranges s) (insert_all (items s) cs).

(* RemoveChangesByActor: drops the actor's non-Clear items, keeps ranges *)
Definition remove_by_actor (s : store) (a : N) : store :=
  mkStore (ranges s) (filter (fun c => negb (N.eqb (c_actor c) a && negb (c_clear c))) (items s)).

(* the ground truth behind the operation store: the rows of the changes
   collection (unique ServerSeq), in any order *)
Definition table := list chg.

Definition tfetch (tb : table) (f t : Z) : list chg :=
  filter (fun c => in_rng f t (c_seq c)) tb.

Fixpoint tget (tb : table) (q : Z) : option chg :=
  match tb with
  | [] => None
  | c :: r => if c_seq c =? q then Some c else tget r q
  end.

(* FindChangeInfosBetweenServerSeqs: presence store (authoritative, in memory)
   + operation store (cache over the table) merged into a temporary store *)
Definition find_between (tb : table) (pr op : store) (f t : Z) : list chg * store * list range :=
  if t <? f then ([], op, [])
  else
    match ensure (tfetch tb) op f t with
    | None => ([], op, [])
    | Some (op', asked) =>
        let tmp := replace_or_insert empty_store (changes_in_range pr f t) in
        let tmp := replace_or_insert tmp (changes_in_range op' f t) in
        (changes_in_range tmp f t, op', asked)
    end.
