(* Cache/SnapGC.v — why only a document built at the head may be cached: the rebuild of
   packs.BuildInternalDocForServerSeq with its garbage collection, over time.

   Time is the length of the log.  [hz T] is how far the minimum version vector reaches when the
   log has T rows (everything up to row hz T is known to every attached client); [dep j] is what
   the author of row j knew when it made that change: the change may refer to tombstones of
   removals after row [dep j], so it can only be applied to a document whose purge level is at
   most [dep j].  The garbage collection at the end of a rebuild at sequence n, run at time T,
   raises the purge level to min (hz T) n (minimum vector met with the document's own vector).
   Stored snapshots are never collected (storeSnapshot applies the pack without a vector). *)
From Coq Require Export List Arith Lia Bool.
Export ListNotations.

Section SnapGC.
  Variable dep : nat -> nat.
  Variable hz : nat -> nat.

  Record gdoc := mkG { gseq : nat; gpurged : nat }.

  (* rows k+1 .. n can be applied to a document purged up to p *)
  Definition replayable (b : gdoc) (n : nat) : bool :=
    forallb (fun j => gpurged b <=? dep j) (seq (S (gseq b)) (n - gseq b)).

  Definition gbase (snap : nat) (cache : option gdoc) (n : nat) : gdoc :=
    match cache with
    | Some e => if n <? gseq e then mkG snap 0 else e
    | None => mkG snap 0
    end.

  Definition collected (T : nat) (b : gdoc) (n : nat) : gdoc :=
    mkG n (Nat.max (gpurged b) (Nat.min (hz T) n)).

  (* the repaired rule and the rule of the pinned tree *)
  Definition keep_fixed (T : nat) (cache : option gdoc) (n : nat) (r : gdoc) : option gdoc :=
    if T <=? n then Some r else cache.
  Definition keep_always (T : nat) (cache : option gdoc) (n : nat) (r : gdoc) : option gdoc := Some r.

  Inductive gop :=
  | GPush                       (* the log grows by one row *)
  | GPurge                      (* the cache entry is evicted *)
  | GBuild (n snap : nat).      (* rebuild at n; snap = sequence of the closest stored snapshot *)

  Record gsys := mkGS { g_T : nat; g_cache : option gdoc; g_failed : bool }.

  Definition gstep (keep : nat -> option gdoc -> nat -> gdoc -> option gdoc) (s : gsys) (o : gop) : gsys :=
    match o with
    | GPush => mkGS (S (g_T s)) (g_cache s) (g_failed s)
    | GPurge => mkGS (g_T s) None (g_failed s)
    | GBuild n snap =>
        if (n <=? g_T s) && (snap <=? n) then
          let b := gbase snap (g_cache s) n in
          if replayable b n
          then mkGS (g_T s) (keep (g_T s) (g_cache s) n (collected (g_T s) b n)) (g_failed s)
          else mkGS (g_T s) (g_cache s) true
        else s
    end.

  Definition gsys0 : gsys := mkGS 0 None false.
End SnapGC.
