(* Cache/SnapCache.v — model of packs.BuildInternalDocForServerSeq (server/packs/snapshot.go):
   the decision which base document a rebuild starts from (the snapshot cache's entry, or the
   closest stored snapshot), which range of the change log it then reads, and what it leaves
   in the cache.  Documents and changes are abstract ([doc], [chg], [apply]); the garbage
   collection the real function runs after replaying is content-neutral (C03) and is not
   modelled.  Definitions only; proofs are in Proofs/SnapCacheProofs.v. *)
From Coq Require Export List Arith Lia Bool.
Export ListNotations.

Section SnapCache.
  Variables doc chg : Type.
  Variable apply : doc -> chg -> doc.
  Variable init : doc.

  (* the document a replica that applied the first n stored changes one by one holds *)
  Definition replay (log : list chg) (n : nat) : doc := fold_left apply (firstn n log) init.

  Record entry := mkEntry { eseq : nat; edoc : doc }.

  (* FindClosestSnapshotInfo: the stored snapshot with the greatest serverSeq <= n,
     the empty document at 0 when there is none *)
  Fixpoint closest (snaps : list entry) (n : nat) (best : entry) : entry :=
    match snaps with
    | [] => best
    | e :: r =>
        if (eseq e <=? n) && (eseq best <=? eseq e) then closest r n e else closest r n best
    end.

  Definition zero : entry := mkEntry 0 init.

  (* `if doc == nil || serverSeq < doc.Checkpoint().ServerSeq` *)
  Definition needs_lookup (cache : option entry) (n : nat) : bool :=
    match cache with
    | None => true
    | Some e => n <? eseq e
    end.

  Definition base (snaps : list entry) (cache : option entry) (n : nat) : entry :=
    match cache with
    | Some e => if n <? eseq e then closest snaps n zero else e
    | None => closest snaps n zero
    end.

  (* the variant without the guard on the cached entry's sequence *)
  Definition base_unguarded (snaps : list entry) (cache : option entry) (n : nat) : entry :=
    match cache with
    | Some e => e
    | None => closest snaps n zero
    end.

  (* FindChangesBetweenServerSeqs(base+1, n): rows base+1 .. n of the log *)
  Definition rows (log : list chg) (from_excl to_incl : nat) : list chg :=
    firstn (to_incl - from_excl) (skipn from_excl log).

  Definition build_from (log : list chg) (b : entry) (n : nat) : entry :=
    mkEntry n (fold_left apply (rows log (eseq b) n) (edoc b)).

  (* result handed to the caller (a deep copy) and the new cache content: only a document
     built at the head of the log is cached (`if serverSeq >= docInfo.ServerSeq`); a document
     built at an older sequence has been garbage-collected with the present minimum vector and
     is not a sound base for the changes after it (finding P55) *)
  Definition cache_after (head : nat) (cache : option entry) (n : nat) (r : entry) : option entry :=
    if head <=? n then Some r else cache.

  Definition build (log : list chg) (snaps : list entry) (cache : option entry) (n : nat)
    : entry * option entry :=
    let r := build_from log (base snaps cache n) n in (r, cache_after (length log) cache n r).

  Definition build_unguarded (log : list chg) (snaps : list entry) (cache : option entry) (n : nat)
    : entry * option entry :=
    let r := build_from log (base_unguarded snaps cache n) n in (r, Some r).

  (* what the storage layer is asked: Some s = the closest-snapshot lookup happened and
     answered s; then the range (from, to) of FindChangesBetweenServerSeqs *)
  Definition plan (snaps : list entry) (cache : option entry) (n : nat) : bool * nat * nat :=
    (needs_lookup cache n, S (eseq (base snaps cache n)), n).

  (* the system around it: the log grows, snapshots are stored, the cache is purged or an
     entry evicted, documents are rebuilt at any sequence up to the head *)
  Inductive sop :=
  | SPush (c : chg)
  | SStoreSnap (n : nat)      (* storeSnapshot at a sequence: stores the rebuilt document *)
  | SPurge
  | SBuild (n : nat).

  Record sys := mkSys { s_log : list chg; s_snaps : list entry; s_cache : option entry;
                        s_out : list (nat * doc) }.

  Definition sstep (s : sys) (o : sop) : sys :=
    match o with
    | SPush c => mkSys (s_log s ++ [c]) (s_snaps s) (s_cache s) (s_out s)
    | SStoreSnap n =>
        if n <=? length (s_log s) then
          let '(r, c) := build (s_log s) (s_snaps s) (s_cache s) n in
          mkSys (s_log s) (r :: s_snaps s) c (s_out s)
        else s
    | SPurge => mkSys (s_log s) (s_snaps s) None (s_out s)
    | SBuild n =>
        if n <=? length (s_log s) then
          let '(r, c) := build (s_log s) (s_snaps s) (s_cache s) n in
          mkSys (s_log s) (s_snaps s) c ((n, edoc r) :: s_out s)
        else s
    end.

  Definition sys0 : sys := mkSys [] [] None [].
End SnapCache.

Arguments mkEntry {doc}.
Arguments eseq {doc}.
Arguments edoc {doc}.
