(* Ticket.v — model of pkg/document/time/ticket.go (Compare/After) and actor ids.
   Definitions only; proofs live in Proofs/.
   Actors are N: the harness maps each 12-byte ActorID to its rank in byte
   order, so the actor comparison below is bytes.Compare on the real ids. *)
From Coq Require Export List ZArith NArith Bool Lia.
Export ListNotations.
Open Scope Z_scope.

Definition actor := N.

Record ticket := mkT { lam : Z; act : actor; dlm : N }.

(* Ticket.Compare: lamport, then actor id, then delimiter. *)
Definition tcmp (a b : ticket) : comparison :=
  match Z.compare (lam a) (lam b) with
  | Eq => match N.compare (act a) (act b) with
          | Eq => N.compare (dlm a) (dlm b)
          | c => c
          end
  | c => c
  end.

Definition tafter (a b : ticket) : bool :=
  match tcmp a b with Gt => true | _ => false end.

Definition teqb (a b : ticket) : bool :=
  Z.eqb (lam a) (lam b) && N.eqb (act a) (act b) && N.eqb (dlm a) (dlm b).

Definition initial_ticket : ticket := mkT 0 0%N 0%N.
