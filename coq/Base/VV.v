(* VV.v — model of pkg/document/time/version_vector.go.
   A version vector is an association list actor -> lamport; [vset] keeps keys
   in ascending order when the input is ascending (so that vectors built only
   through [vset] are canonical), but every lemma in Proofs/ is stated through
   [vget] and holds for arbitrary lists (first binding wins). *)
From YV Require Export Base.Ticket.

Definition vv := list (actor * Z).

Fixpoint vget (v : vv) (a : actor) : option Z :=
  match v with
  | [] => None
  | (k, x) :: r => if N.eqb k a then Some x else vget r a
  end.

(* v[a] in Go: absent reads as 0. *)
Definition vget0 (v : vv) (a : actor) : Z :=
  match vget v a with Some x => x | None => 0 end.

Fixpoint vset (v : vv) (a : actor) (x : Z) : vv :=
  match v with
  | [] => [(a, x)]
  | (k, y) :: r =>
      if N.eqb k a then (a, x) :: r
      else if N.ltb a k then (a, x) :: (k, y) :: r
      else (k, y) :: vset r a x
  end.

Fixpoint vunset (v : vv) (a : actor) : vv :=
  match v with
  | [] => []
  | (k, y) :: r => if N.eqb k a then vunset r a else (k, y) :: vunset r a
  end.

Definition vkeys (v : vv) : list actor := map fst v.

(* VersionVector.Max (receiver := pointwise max; keys only in other are added). *)
Definition vmax (v w : vv) : vv :=
  fold_left (fun acc kx =>
               match vget acc (fst kx) with
               | Some y => vset acc (fst kx) (Z.max y (snd kx))
               | None => vset acc (fst kx) (snd kx)
               end) w v.

(* VersionVector.Min (absent on either side => 0; all keys kept). *)
Definition vmin (v w : vv) : vv :=
  let step1 := fold_left (fun acc kx =>
                 match vget w (fst kx) with
                 | Some y => vset acc (fst kx) (Z.min (snd kx) y)
                 | None => vset acc (fst kx) 0
                 end) v [] in
  fold_left (fun acc kx =>
               match vget v (fst kx) with
               | Some _ => acc
               | None => vset acc (fst kx) 0
               end) w step1.

(* MaxLamport: -1 for the empty vector. *)
Definition vmaxlamport (v : vv) : Z :=
  fold_left (fun m kx => Z.max m (snd kx)) v (-1).

(* EqualToOrAfter(ticket): absent => false. *)
Definition vcovers (v : vv) (t : ticket) : bool :=
  match vget v (act t) with
  | Some x => Z.leb (lam t) x
  | None => false
  end.

(* AfterOrEqual(other) with Go's v[k] (absent => 0) on both sides. *)
Definition vafter_or_equal (v w : vv) : bool :=
  forallb (fun kx => Z.leb (vget0 w (fst kx)) (snd kx)) v &&
  forallb (fun kx => Z.leb (snd kx) (vget0 v (fst kx))) w.

(* min over one key: Go's inner loop of MinVersionVector
   (start at MaxInt64; a vector lacking the key makes the result 0). *)
Definition max_int64 : Z := 9223372036854775807.

Fixpoint min_for_key (vs : list vv) (k : actor) (acc : Z) : Z :=
  match vs with
  | [] => acc
  | v :: r => match vget v k with
              | Some x => min_for_key r k (Z.min acc x)
              | None => 0
              end
  end.

Definition all_keys (vs : list vv) : list actor := flat_map vkeys vs.

(* MinVersionVector(vectors...). *)
Definition min_vv (vs : list vv) : vv :=
  fold_left (fun acc k => vset acc k (min_for_key vs k max_int64)) (all_keys vs) [].

Definition vv_nonneg (v : vv) : Prop := forall k x, vget v k = Some x -> 0 <= x.

(* extensional equality as a boolean, for comparing with observed vectors *)
Definition vv_eqb (v w : vv) : bool :=
  forallb (fun kx => match vget w (fst kx) with Some y => Z.eqb y (snd kx) | None => false end) v &&
  forallb (fun kx => match vget v (fst kx) with Some y => Z.eqb y (snd kx) | None => false end) w.
