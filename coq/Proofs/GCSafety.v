(* GCSafety.v — property C03 on the protocol model: the version vector a response carries is safe
   to garbage-collect with.  Clients use non-decreasing vectors (what a replica has seen only
   grows); requests are handled in one piece (Proto/Server.v push_pull).  Then, when a client R
   receives a response with vector m,
     (A) every change of another client that the server has not stored yet was made with a vector
         that dominates m: its author already knew everything m says everybody knows, so it cannot
         refer to anything R purges on the strength of m;
     (B) everything the server has stored has been delivered to R (Props/C04.v).
   The same request handled in two pieces, pull range first and minimum later, loses (B): finding
   P11, Proofs/FaultProofs.v stale_minimum_outruns_the_pull. *)
From Coq Require Import Lia.
From YV Require Import Base.Ticket Base.VV Proto.Server Proto.System Proofs.VVProofs Proofs.ProtoProofs.

Definition vle (v w : vv) : Prop := forall x, vget0 v x <= vget0 w x.
Lemma vle_refl v : vle v v. Proof. intros x. lia. Qed.
Lemma vle_trans u v w : vle u v -> vle v w -> vle u w. Proof. intros A B x. specialize (A x). specialize (B x). lia. Qed.

(* the last vector each client used *)
Definition ghost := list (actor * vv).

Inductive dstep : sys * ghost -> sev -> sys * ghost -> Prop :=
| ds_local y gh a lam v nops pres g :
    aget gh a = Some g -> vle g v -> vv_nonneg v ->
    dstep (y, gh) (SLocal a lam v nops pres) (sstep y (SLocal a lam v nops pres), aset gh a v)
| ds_sync y gh a m v lost g :
    aget gh a = Some g -> vle g v -> vv_nonneg v ->
    dstep (y, gh) (SSync a m v lost) (sstep y (SSync a m v lost), aset gh a v).

Inductive dreach (th : Z) (actors : list actor) : sys * ghost -> list sev -> Prop :=
| dr_init : dreach th actors (init_sys th actors, map (fun a => (a, [])) actors) []
| dr_step yg es e yg' : dreach th actors yg es -> dstep yg e yg' -> dreach th actors yg' (es ++ [e]).

Lemma dreach_srun th actors yg es : dreach th actors yg es -> fst yg = srun (init_sys th actors) es.
Proof.
  induction 1 as [|yg es e yg' Hr IH Hs]; [reflexivity|].
  unfold srun in *. rewrite fold_left_app. cbn [fold_left]. rewrite <- IH.
  inversion Hs; subst; reflexivity.
Qed.

(* the stored part of a client's row in the version-vector table after its own sync *)
Lemma push_pull_rows s a k m v s2 r :
  push_pull s (mk_request a k m v) = (s2, r, ENone) ->
  s_vvrows s2 = aset (s_vvrows s) a v \/ s_vvrows s2 = adel (s_vvrows s) a.
Proof.
  unfold push_pull, mk_request. cbn [q_client q_changes q_cp_s q_vv q_removed q_mode q_status q_disable_gc]. intros H.
  destruct (aget (s_clients s) a) as [ci|]; [|inversion H].
  destruct (negb (continuity_ok _ _ _)); [inversion H|].
  match type of H with context [store_changes ?a ?b ?c ?d] =>
    destruct (store_changes a b c d) as [[[rows h'] cs'] cc'] eqn:E end.
  destruct_all_matches H; inversion H; subst; cbn [s_vvrows]; auto;
    exfalso; repeat match goal with
                    | Hc : _ = inr ENone |- _ => destruct_all_matches Hc; try discriminate; clear Hc
                    end.
Qed.

Lemma aget_adel_other {A} (l : list (actor * A)) a b : a <> b -> aget (adel l a) b = aget l b.
Proof.
  intros Hne. induction l as [|[c x] l IH]; cbn [adel aget]; [reflexivity|].
  destruct (N.eqb_spec c a) as [->|Hca]; cbn [aget].
  - destruct (N.eqb_spec a b); [contradiction|exact IH].
  - destruct (N.eqb c b); [reflexivity|exact IH].
Qed.

Lemma aget_adel_same {A} (l : list (actor * A)) a : aget (adel l a) a = None.
Proof.
  induction l as [|[c x] l IH]; cbn [adel aget]; [reflexivity|].
  destruct (N.eqb_spec c a) as [->|Hca]; cbn [aget]; [exact IH|].
  destruct (N.eqb_spec c a); [contradiction|exact IH].
Qed.

Lemma in_aset {A} (l : list (actor * A)) a x b y : In (b, y) (aset l a x) -> (b, y) = (a, x) \/ In (b, y) l.
Proof.
  induction l as [|[c z] l IH]; cbn [aset]; [intros [H|[]]; now left|].
  destruct (N.eqb c a); cbn [In]; [intros [H|H]; [now left|right; now right]|].
  intros [H|H]; [right; now left|]. destruct (IH H); [now left|right; now right].
Qed.

Lemma in_adel {A} (l : list (actor * A)) a b y : In (b, y) (adel l a) -> In (b, y) l.
Proof.
  induction l as [|[c z] l IH]; cbn [adel]; [auto|].
  destruct (N.eqb c a); cbn [In]; [intros H; right; auto|intros [H|H]; [now left|right; auto]].
Qed.

Lemma aget_in {A} (l : list (actor * A)) a x : aget l a = Some x -> In (a, x) l.
Proof.
  induction l as [|[c z] l IH]; cbn [aget]; [discriminate|].
  destruct (N.eqb_spec c a) as [->|]; [intros [= ->]; now left|right; auto].
Qed.

Record gc_inv (yg : sys * ghost) : Prop := {
  gi_sys : sys_inv (fst yg);
  (* a change the server has not stored yet was made with a vector above its author's row *)
  gi_new : forall a k ci row c,
      aget (y_clis (fst yg)) a = Some k -> aget (s_clients (y_srv (fst yg))) a = Some ci ->
      aget (s_vvrows (y_srv (fst yg))) a = Some row ->
      In c (k_pending k) -> cd_cseq (ci_doc ci) < h_cseq c -> vle row (h_vv c);
  gi_row : forall a row g, aget (s_vvrows (y_srv (fst yg))) a = Some row -> aget (snd yg) a = Some g -> vle row g;
  gi_nonneg : forall a row, In (a, row) (s_vvrows (y_srv (fst yg))) -> vv_nonneg row
}.

Lemma pending_cseq_bound s a k ci c : srv_ok s a k ci -> In c (k_pending k) ->
  h_cseq c <= k_cp_c k + Z.of_nat (length (k_pending k)).
Proof.
  intros Hok Hin. pose proof (so_pending _ _ _ _ Hok) as Hp.
  apply (in_map h_cseq) in Hin. rewrite Hp in Hin. apply zseq_in in Hin. lia.
Qed.

Lemma drop_acked_incl cp l c : In c (drop_acked cp l) -> In c l.
Proof.
  induction l as [|x l IH]; cbn [drop_acked]; [auto|].
  destruct (h_cseq x <=? cp); [intros H; right; auto|auto].
Qed.

Theorem dstep_inv yg e yg' : gc_inv yg -> dstep yg e yg' -> gc_inv yg'.
Proof.
  intros [Hsys Hnew Hrow Hnn] Hs. inversion Hs as [y gh a lam v nops pres g Hg Hle Hv|y gh a m v lost g Hg Hle Hv]; subst; cbn [fst snd] in *.
  - (* a local change *)
    pose proof (sstep_inv _ (SLocal a lam v nops pres) Hsys) as Hsys'.
    cbn [sstep] in *. destruct (aget (y_clis y) a) as [k|] eqn:Ek.
    + constructor; cbn [fst snd y_srv y_clis]; [exact Hsys'| | |exact Hnn].
      * intros b kb ci row c Hkb Hci Hr Hin Hlt.
        destruct (N.eq_dec a b) as [<-|Hab].
        -- rewrite aget_aset_same in Hkb. injection Hkb as <-. cbn [k_pending] in Hin.
           apply in_app_or in Hin. destruct Hin as [Hin|[<-|[]]].
           ++ eapply Hnew; eauto.
           ++ cbn [h_vv]. eapply vle_trans; [eapply Hrow; eauto|exact Hle].
        -- rewrite aget_aset_other in Hkb by exact Hab. eapply Hnew; eauto.
      * intros b row g' Hr Hg'. destruct (N.eq_dec a b) as [<-|Hab].
        -- rewrite aget_aset_same in Hg'. injection Hg' as <-. eapply vle_trans; [eapply Hrow; eauto|exact Hle].
        -- rewrite aget_aset_other in Hg' by exact Hab. eapply Hrow; eauto.
    + constructor; cbn [fst snd]; [exact Hsys'|exact Hnew| |exact Hnn].
      intros b row g' Hr Hg'. destruct (N.eq_dec a b) as [<-|Hab].
      * rewrite aget_aset_same in Hg'. injection Hg' as <-. eapply vle_trans; [eapply Hrow; eauto|exact Hle].
      * rewrite aget_aset_other in Hg' by exact Hab. eapply Hrow; eauto.
  - (* a sync *)
    pose proof (sstep_inv _ (SSync a m v lost) Hsys) as Hsys'.
    cbn [sstep] in *. destruct (aget (y_clis y) a) as [k|] eqn:Ek.
    2:{ constructor; cbn [fst snd]; [exact Hsys'|exact Hnew| |exact Hnn].
        intros b row g' Hr Hg'. destruct (N.eq_dec a b) as [<-|Hab].
        - rewrite aget_aset_same in Hg'. injection Hg' as <-. eapply vle_trans; [eapply Hrow; eauto|exact Hle].
        - rewrite aget_aset_other in Hg' by exact Hab. eapply Hrow; eauto. }
    destruct (yi_clis _ Hsys a k Ek) as [(ci & Hok & _) _ _].
    destruct (push_pull_honest (y_srv y) a k ci m v Hok (yi_nopres _ Hsys)) as (s2 & r & Hpp & Hlog & Hhead & Hch & Hack & Hoth & Hmode).
    rewrite Hpp in *.
    assert (Hci' : exists d, aget (s_clients s2) a = Some (mkCI true d) /\ cd_cseq d = k_cp_c k + Z.of_nat (length (k_pending k))).
    { destruct m; [destruct Hmode as (_ & Hc & _)|destruct Hmode as (_ & _ & _ & Hc)]; eexists; split; try exact Hc; reflexivity. }
    destruct Hci' as (d' & Hcia & Hcd).
    pose proof (push_pull_rows _ _ _ _ _ _ _ Hpp) as Hrows.
    assert (Hrows_other : forall b, a <> b -> aget (s_vvrows s2) b = aget (s_vvrows (y_srv y)) b).
    { intros b Hab. destruct Hrows as [-> | ->]; [now apply aget_aset_other|now apply aget_adel_other]. }
    assert (Hrow_a : forall row, aget (s_vvrows s2) a = Some row -> row = v).
    { intros row Hr. destruct Hrows as [E|E]; rewrite E in Hr; [rewrite aget_aset_same in Hr; congruence|rewrite aget_adel_same in Hr; discriminate]. }
    set (clis' := if lost then y_clis y else aset (y_clis y) a (apply_resp k r)) in *.
    assert (Hpend_a : forall ka, aget clis' a = Some ka -> forall c, In c (k_pending ka) -> In c (k_pending k)).
    { intros ka Hka c Hc. unfold clis' in Hka. destruct lost.
      - rewrite Ek in Hka. injection Hka as <-. exact Hc.
      - rewrite aget_aset_same in Hka. injection Hka as <-. cbn [apply_resp k_pending] in Hc. eapply drop_acked_incl; eauto. }
    assert (Hcli_other : forall b, a <> b -> aget clis' b = aget (y_clis y) b).
    { intros b Hab. unfold clis'. destruct lost; [reflexivity|now apply aget_aset_other]. }
    constructor; cbn [fst snd y_srv y_clis].
    + exact Hsys'.
    + intros b kb cib row c Hkb Hcib Hr Hin Hlt.
      destruct (N.eq_dec a b) as [<-|Hab].
      * (* the client that synced: everything it holds has been stored *)
        rewrite Hcia in Hcib. injection Hcib as <-. cbn [ci_doc] in Hlt. rewrite Hcd in Hlt.
        pose proof (pending_cseq_bound _ _ _ _ c Hok (Hpend_a _ Hkb _ Hin)). lia.
      * rewrite Hcli_other in Hkb by exact Hab. rewrite Hoth in Hcib by (now apply not_eq_sym).
        rewrite Hrows_other in Hr by exact Hab. eapply Hnew; eauto.
    + intros b row g' Hr Hg'. destruct (N.eq_dec a b) as [<-|Hab].
      * rewrite aget_aset_same in Hg'. injection Hg' as <-. rewrite (Hrow_a _ Hr). apply vle_refl.
      * rewrite aget_aset_other in Hg' by exact Hab. rewrite Hrows_other in Hr by exact Hab. eapply Hrow; eauto.
    + intros b row Hr. destruct Hrows as [E|E]; rewrite E in Hr.
      * destruct (in_aset _ _ _ _ _ Hr) as [[= -> ->]|Hin]; [exact Hv|eapply Hnn; eauto].
      * eapply Hnn. eapply in_adel; eauto.
Qed.

Lemma init_gc_inv th actors : gc_inv (init_sys th actors, map (fun a => (a, [])) actors).
Proof.
  constructor; cbn [fst snd init_sys y_srv init_srv s_vvrows aget In]; [apply init_inv| | |]; intros; try discriminate; contradiction.
Qed.

Theorem dreach_inv th actors yg es : dreach th actors yg es -> gc_inv yg.
Proof. induction 1 as [|yg es e yg' Hr IH Hs]; [apply init_gc_inv|eapply dstep_inv; eauto]. Qed.

Lemma firstn_all_dense (l : list stored) n : n = length l -> firstn n l = l.
Proof. intros ->. apply firstn_all. Qed.

(* C03: the vector of a response is safe to collect garbage with *)
Theorem gc_safe th actors yg es a k g v :
  dreach th actors yg es ->
  aget (y_clis (fst yg)) a = Some k -> aget (snd yg) a = Some g -> vle g v -> vv_nonneg v ->
  exists s2 r,
    push_pull (y_srv (fst yg)) (mk_request a k MPushPull v) = (s2, r, ENone) /\
    forall mv, p_vv r = Some mv ->
      (* (A) what the server has not stored yet knows everything mv says everybody knows *)
      (forall b kb cib row c, b <> a ->
         aget (y_clis (fst yg)) b = Some kb -> aget (s_clients s2) b = Some cib ->
         aget (s_vvrows s2) b = Some row ->
         In c (k_pending kb) -> cd_cseq (ci_doc cib) < h_cseq c -> vle mv (h_vv c)) /\
      (* (B) and everything it has stored has been delivered *)
      (p_snapshot r = false -> k_snap k = false ->
         k_recv (apply_resp k r) = not_of a (s_log s2)).
Proof.
  intros Hr Ek Hg Hle Hv. destruct yg as [y gh]. cbn [fst snd] in *.
  pose proof (dreach_inv _ _ _ _ Hr) as Hinv.
  pose proof (gi_sys _ Hinv) as Hsys. cbn [fst] in Hsys.
  destruct (yi_clis _ Hsys a k Ek) as [(ci & Hok & _) _ _].
  destruct (push_pull_honest (y_srv y) a k ci MPushPull v Hok (yi_nopres _ Hsys)) as (s2 & r & Hpp & Hlog & Hhead & Hch & Hack & Hoth & Hcp & Hcia & Hpull).
  exists s2, r. split; [exact Hpp|]. intros mv Hmv.
  (* the state after the sync, response applied *)
  assert (Hstep : dstep (y, gh) (SSync a MPushPull v false) (sstep y (SSync a MPushPull v false), aset gh a v)) by (econstructor; eauto).
  pose proof (dstep_inv _ _ _ Hinv Hstep) as Hinv'.
  cbn [sstep] in Hinv'. rewrite Ek, Hpp in Hinv'.
  pose proof (gi_sys _ Hinv') as Hsys'. cbn [fst] in Hsys'.
  split.
  - intros b kb cib row c Hba Hkb Hcib Hrow Hin Hlt.
    assert (Hmr : vle mv row).
    { intros x. eapply (minvv_sound _ _ _ _ _ Hpp Hmv); [exact Hv| |eapply aget_in; exact Hrow].
      intros b' row' Hin'. eapply (gi_nonneg _ Hinv'). cbn [fst y_srv]. exact Hin'. }
    eapply vle_trans; [exact Hmr|].
    eapply (gi_new _ Hinv' b kb cib row c); cbn [fst y_clis y_srv]; eauto.
    rewrite aget_aset_other by (now apply not_eq_sym). exact Hkb.
  - intros Hsnap Hks.
    destruct (yi_clis _ Hsys' a (apply_resp k r)) as [_ _ Hrecv]; [cbn [y_clis]; apply aget_aset_same|].
    cbn [y_srv] in Hrecv. rewrite Hrecv by (cbn [apply_resp k_snap]; now rewrite Hks, Hsnap).
    f_equal. apply firstn_all_dense.
    destruct (yi_dense _ Hsys') as [_ Hd]. cbn [y_srv] in Hd.
    cbn [apply_resp k_cp_s]. rewrite Hcp. pose proof (so_sseq _ _ _ _ Hok) as [H1 H2].
    assert (Hh : s_head s2 = s_head (y_srv y) + Z.of_nat (length (skipn (Z.to_nat (cd_cseq (ci_doc ci) - k_cp_c k)) (k_pending k)))) by exact Hhead.
    rewrite <- Hh, Hd. rewrite Z.max_r by (rewrite <- Hd, Hh; lia). now rewrite Nat2Z.id.
Qed.

(* ---- the premises are met ---- *)
Ltac vle_tac := intros x; unfold vget0; cbn [vget];
  repeat match goal with |- context [N.eqb ?a x] => destruct (N.eqb a x) end; lia.
Ltac nonneg_tac := intros kk xx; cbn [vget];
  repeat match goal with |- context [N.eqb ?a kk] => destruct (N.eqb a kk) end;
  intros HH; try discriminate; injection HH as <-; lia.

Definition ex_gc_events : list sev :=
  [ SSync 1%N MPushPull [] false; SSync 2%N MPushPull [] false;      (* the attach requests *)
    SLocal 1%N 1 [(1%N, 1)] 1 0%N; SSync 1%N MPushPull [(1%N, 1)] false;
    SLocal 2%N 1 [(2%N, 1)] 1 0%N ].                                  (* client 2 holds an unsent edit *)

Example gc_premises_hold :
  exists yg, dreach 100 [1%N; 2%N] yg ex_gc_events /\
    exists k, aget (y_clis (fst yg)) 1%N = Some k /\ aget (snd yg) 1%N = Some [(1%N, 1)] /\
      p_vv (snd (fst (push_pull (y_srv (fst yg)) (mk_request 1%N k MPushPull [(1%N, 1)])))) = Some [(1%N, 0)].
Proof.
  eexists. split.
  - change ex_gc_events with ((((([] ++ [SSync 1%N MPushPull [] false]) ++ [SSync 2%N MPushPull [] false]) ++
            [SLocal 1%N 1 [(1%N, 1)] 1 0%N]) ++ [SSync 1%N MPushPull [(1%N, 1)] false]) ++ [SLocal 2%N 1 [(2%N, 1)] 1 0%N]).
    repeat (eapply dr_step); [apply dr_init| | | | |]; (econstructor; [reflexivity|vle_tac|nonneg_tac]).
  - eexists. split; [vm_compute; reflexivity|]. split; vm_compute; reflexivity.
Qed.
