(* ChangeStoreProofs.v — the range/ item bookkeeping of the ChangeStore is
   transparent with respect to the table it caches (property C20). *)
From YV Require Import Cache.ChangeStore.
From Coq Require Import Sorted ZifyBool.

Definition iget (l : list chg) (q : Z) : option chg := find (fun c => c_seq c =? q) l.

(* ---- items --------------------------------------------------------------- *)

Lemma iget_insert_item l c q :
  iget (insert_item l c) q = if c_seq c =? q then Some c else iget l q.
Proof.
  unfold iget. induction l as [|x r IH]; cbn [insert_item find].
  - destruct (c_seq c =? q); reflexivity.
  - destruct (c_seq c <? c_seq x) eqn:Hlt; [|destruct (c_seq c =? c_seq x) eqn:Heq]; cbn [find].
    + destruct (c_seq c =? q); reflexivity.
    + destruct (c_seq c =? q) eqn:E; [reflexivity|].
      assert (c_seq x =? q = false) as -> by lia. reflexivity.
    + destruct (c_seq x =? q) eqn:E.
      * assert (c_seq c =? q = false) as -> by lia. reflexivity.
      * exact IH.
Qed.

Definition sorted_lt (l : list chg) : Prop := StronglySorted (fun a b => c_seq a < c_seq b) l.

Lemma insert_item_in l c x : In x (insert_item l c) -> x = c \/ In x l.
Proof.
  induction l as [|y r IH]; cbn [insert_item].
  - intros [E|[]]. now left.
  - destruct (c_seq c <? c_seq y); [|destruct (c_seq c =? c_seq y)]; cbn [In].
    + intros [E|[E|H]]; auto.
    + intros [E|H]; auto.
    + intros [E|H]; auto. destruct (IH H); auto.
Qed.

Lemma insert_item_sorted l c : sorted_lt l -> sorted_lt (insert_item l c).
Proof.
  unfold sorted_lt. induction l as [|y r IH]; cbn [insert_item]; intros Hs.
  - constructor; [constructor|constructor].
  - inversion Hs as [|? ? Hr Hall]; subst.
    destruct (c_seq c <? c_seq y) eqn:Hlt; [|destruct (c_seq c =? c_seq y) eqn:Heq].
    + constructor; [exact Hs|]. constructor; [lia|].
      rewrite Forall_forall in *. intros z Hz. specialize (Hall z Hz). lia.
    + constructor; [exact Hr|]. rewrite Forall_forall in *. intros z Hz. specialize (Hall z Hz). lia.
    + constructor; [now apply IH|]. rewrite Forall_forall in *. intros z Hz.
      apply insert_item_in in Hz. destruct Hz as [->|Hz]; [lia|now apply Hall].
Qed.

Lemma insert_all_sorted cs : forall l, sorted_lt l -> sorted_lt (insert_all l cs).
Proof.
  unfold insert_all. induction cs as [|c cs IH]; cbn [fold_left]; intros l H; [exact H|].
  apply IH. now apply insert_item_sorted.
Qed.

Lemma sorted_iget_in l : sorted_lt l -> forall c, In c l <-> iget l (c_seq c) = Some c.
Proof.
  unfold sorted_lt, iget. induction l as [|y r IH]; intros Hs c; cbn [In find].
  - split; [contradiction|discriminate].
  - inversion Hs as [|? ? Hr Hall]; subst. rewrite Forall_forall in Hall.
    destruct (c_seq y =? c_seq c) eqn:E.
    + split.
      * intros [->|Hin]; [reflexivity|]. specialize (Hall c Hin). lia.
      * intros H; inversion H. now left.
    + rewrite <- (IH Hr c). split.
      * intros [->|Hin]; [lia|exact Hin].
      * intros Hin. now right.
Qed.

Lemma iget_some l q c : iget l q = Some c -> In c l /\ c_seq c = q.
Proof.
  unfold iget. intros H. apply find_some in H. destruct H as [H1 H2]. split; [assumption|lia].
Qed.

(* ---- table --------------------------------------------------------------- *)

Lemma tget_some tb q c : tget tb q = Some c -> In c tb /\ c_seq c = q.
Proof.
  induction tb as [|x r IH]; cbn [tget]; [discriminate|].
  destruct (c_seq x =? q) eqn:E; intros H.
  - inversion H; subst. split; [now left|lia].
  - destruct (IH H). split; [now right|assumption].
Qed.

Lemma tget_in_nodup tb c : NoDup (map c_seq tb) -> In c tb -> tget tb (c_seq c) = Some c.
Proof.
  induction tb as [|x r IH]; cbn [map tget]; intros Hnd Hin; [contradiction|].
  inversion Hnd as [|? ? Hnot Hnd']; subst.
  destruct Hin as [->|Hin].
  - now rewrite Z.eqb_refl.
  - destruct (c_seq x =? c_seq c) eqn:E.
    + exfalso. apply Hnot. apply in_map_iff. exists c. split; [lia|assumption].
    + now apply IH.
Qed.

Lemma tfetch_in tb f t c : In c (tfetch tb f t) <-> In c tb /\ in_rng f t (c_seq c) = true.
Proof. unfold tfetch. apply filter_In. Qed.

Lemma tget_app_l tb cs q c : tget tb q = Some c -> tget (tb ++ cs) q = Some c.
Proof.
  induction tb as [|x r IH]; cbn [tget app]; [discriminate|].
  destruct (c_seq x =? q); auto.
Qed.

(* ---- ranges -------------------------------------------------------------- *)

Lemma covered_app a b q : covered (a ++ b) q = covered a q || covered b q.
Proof. unfold covered. apply existsb_app. Qed.

Lemma covered_insert_range l r q :
  covered (insert_range l r) q = in_rng (fst r) (snd r) q || covered l q.
Proof.
  induction l as [|x rest IH]; cbn [insert_range covered existsb]; [reflexivity|].
  destruct (fst r <=? fst x); cbn [covered existsb]; [reflexivity|].
  fold (covered (insert_range rest r) q). rewrite IH. fold (covered rest q).
  destruct (in_rng (fst x) (snd x) q), (in_rng (fst r) (snd r) q); reflexivity.
Qed.

Lemma covered_sort_aux l : forall acc q,
  covered (fold_left insert_range l acc) q = covered l q || covered acc q.
Proof.
  induction l as [|x r IH]; cbn [fold_left]; intros acc q; [reflexivity|].
  rewrite IH, covered_insert_range. cbn [covered existsb]. fold (covered r q).
  destruct (in_rng (fst x) (snd x) q), (covered r q), (covered acc q); reflexivity.
Qed.

Lemma covered_sort l q : covered (sort_ranges l) q = covered l q.
Proof. unfold sort_ranges. rewrite covered_sort_aux. cbn. now rewrite orb_false_r. Qed.

Definition sorted_from (l : list range) : Prop := StronglySorted (fun a b => fst a <= fst b) l.

Lemma insert_range_in l r x : In x (insert_range l r) -> x = r \/ In x l.
Proof.
  induction l as [|y rest IH]; cbn [insert_range].
  - intros [E|[]]; now left.
  - destruct (fst r <=? fst y); cbn [In].
    + intros [E|[E|H]]; auto.
    + intros [E|H]; auto. destruct (IH H); auto.
Qed.

Lemma insert_range_sorted l r : sorted_from l -> sorted_from (insert_range l r).
Proof.
  unfold sorted_from. induction l as [|y rest IH]; cbn [insert_range]; intros Hs.
  - constructor; constructor.
  - inversion Hs as [|? ? Hr Hall]; subst. rewrite Forall_forall in Hall.
    destruct (fst r <=? fst y) eqn:E.
    + constructor; [exact Hs|]. constructor; [lia|]. rewrite Forall_forall. intros z Hz.
      specialize (Hall z Hz). lia.
    + constructor; [now apply IH|]. rewrite Forall_forall. intros z Hz.
      apply insert_range_in in Hz. destruct Hz as [->|Hz]; [lia|now apply Hall].
Qed.

Lemma sort_ranges_sorted l : sorted_from (sort_ranges l).
Proof.
  unfold sort_ranges.
  assert (G : forall l acc, sorted_from acc -> sorted_from (fold_left insert_range l acc)).
  { induction l0 as [|x r IH]; cbn [fold_left]; intros acc H; [exact H|].
    apply IH. now apply insert_range_sorted. }
  apply G. constructor.
Qed.

Lemma covered_merge_sorted l : forall cur,
  sorted_from (cur :: l) ->
  forall q, covered (merge_sorted cur l) q = in_rng (fst cur) (snd cur) q || covered l q.
Proof.
  induction l as [|x rest IH]; intros cur Hs q; cbn [merge_sorted].
  - cbn. reflexivity.
  - inversion Hs as [|? ? Hr Hall]; subst. rewrite Forall_forall in Hall.
    inversion Hr as [|? ? Hr' Hall']; subst. rewrite Forall_forall in Hall'.
    pose proof (Hall x (or_introl eq_refl)) as Hcx.
    destruct (fst x <=? snd cur + 1) eqn:E.
    + rewrite IH.
      * cbn [fst snd covered existsb]. fold (covered rest q). unfold in_rng.
        destruct (covered rest q); [now rewrite !orb_true_r|]. rewrite !orb_false_r. lia.
      * constructor; [exact Hr'|]. rewrite Forall_forall. intros z Hz. cbn [fst].
        specialize (Hall z (or_intror Hz)). exact Hall.
    + cbn [covered existsb]. fold (covered (merge_sorted x rest) q). rewrite IH by exact Hr.
      cbn [covered existsb]. reflexivity.
Qed.

Lemma covered_merge_adjacent l q : covered (merge_adjacent l) q = covered l q.
Proof.
  unfold merge_adjacent. destruct l as [|a [|b r]]; try reflexivity.
  pose proof (sort_ranges_sorted (a :: b :: r)) as Hs.
  pose proof (covered_sort (a :: b :: r) q) as Hc.
  destruct (sort_ranges (a :: b :: r)) as [|c rest]; [exact Hc|].
  rewrite covered_merge_sorted by exact Hs. exact Hc.
Qed.

(* ---- scan ---------------------------------------------------------------- *)

Lemma scan_spec found : forall n q cur x,
  (forall s, cur = Some s -> s <= q) ->
  covered (scan found q n cur) x = true <->
  ((exists s, cur = Some s /\ s <= x < q) \/
   (q <= x < q + Z.of_nat n /\ found x = false) \/
   (exists s, cur = Some s /\ False)).
Proof.
  induction n as [|n IH]; intros q cur x Hcur; cbn [scan].
  - destruct cur as [s|]; cbn [covered existsb fst snd]; unfold in_rng; split.
    + intros H. left. exists s. split; [reflexivity|lia].
    + intros [(s' & E & H)|[H|(s' & _ & [])]]; [inversion E; subst; lia|lia].
    + discriminate.
    + intros [(s' & E & _)|[H|(s' & E & _)]]; try discriminate. lia.
  - destruct (found q) eqn:Fq.
    + destruct cur as [s|].
      * cbn [covered existsb fst snd]. fold (covered (scan found (q + 1) n None) x).
        rewrite orb_true_iff, IH by (intros ? E; discriminate). unfold in_rng. split.
        -- intros [H|[(s' & E & _)|[H|(s' & E & _)]]]; try discriminate.
           ++ left. exists s. split; [reflexivity|lia].
           ++ right. left. lia.
        -- intros [(s' & E & H)|[[H1 H2]|(s' & _ & [])]].
           ++ inversion E; subst. left. lia.
           ++ right. right. left. split; [|assumption].
              assert (x <> q) by (intros ->; congruence). lia.
      * rewrite IH by (intros ? E; discriminate). split.
        -- intros [(s' & E & _)|[H|(s' & E & _)]]; try discriminate. right. left. lia.
        -- intros [(s' & E & _)|[[H1 H2]|(s' & E & _)]]; try discriminate.
           right. left. split; [|assumption].
           assert (x <> q) by (intros ->; congruence). lia.
    + rewrite IH.
      * destruct cur as [s|]; split.
        -- intros [(s' & E & H)|[H|(s' & _ & [])]].
           ++ inversion E; subst. destruct (Z.eq_dec x q) as [->|].
              ** right. left. split; [lia|assumption].
              ** left. exists s'. split; [reflexivity|lia].
           ++ right. left. lia.
        -- intros [(s' & E & H)|[[H1 H2]|(s' & _ & [])]].
           ++ left. exists s'. split; [assumption|lia].
           ++ destruct (Z.eq_dec x q) as [->|].
              ** left. exists s. split; [reflexivity|]. specialize (Hcur s eq_refl). lia.
              ** right. left. lia.
        -- intros [(s' & E & H)|[H|(s' & _ & [])]].
           ++ inversion E; subst. right. left. assert (x = s') by lia. subst. split; [lia|assumption].
           ++ right. left. lia.
        -- intros [(s' & E & _)|[[H1 H2]|(s' & E & _)]]; try discriminate.
           destruct (Z.eq_dec x q) as [->|].
           ++ left. exists q. split; [reflexivity|lia].
           ++ right. left. lia.
      * intros s0 E. destruct cur as [s|]; inversion E; subst; [specialize (Hcur s0 eq_refl)|]; lia.
Qed.

Definition found_in (s : store) (q : Z) : bool := has_seq (items s) q || covered (ranges s) q.

Lemma calc_missing_spec s f t x :
  f <= t ->
  covered (calc_missing s f t) x = true <-> (f <= x <= t /\ found_in s x = false).
Proof.
  intros Hft. unfold calc_missing.
  assert (General :
    covered (scan (fun q => has_seq (items s) q || covered (ranges s) q) f (Z.to_nat (t - f + 1)) None) x = true
    <-> (f <= x <= t /\ found_in s x = false)).
  { rewrite scan_spec by (intros ? E; discriminate). unfold found_in. split.
    - intros [(s' & E & _)|[[H1 H2]|(s' & E & _)]]; try discriminate. split; [lia|assumption].
    - intros [H1 H2]. right. left. split; [lia|assumption]. }
  destruct (items s) as [|i0 ir] eqn:Ei; [destruct (ranges s) as [|r0 rr] eqn:Er|].
  - cbn [covered existsb fst snd]. unfold in_rng, found_in. rewrite Ei, Er. cbn. split; intros; [split; [lia|reflexivity]|lia].
  - rewrite <- Er in *.
    destruct (scan _ f _ None) as [|a [|b r]] eqn:Es; try exact General.
    rewrite covered_merge_adjacent. exact General.
  - rewrite <- Ei in *.
    destruct (scan _ f _ None) as [|a [|b r]] eqn:Es; try exact General.
    rewrite covered_merge_adjacent. exact General.
Qed.

Lemma has_seq_iget l q : has_seq l q = true <-> exists c, iget l q = Some c.
Proof.
  unfold has_seq, iget. induction l as [|x r IH]; cbn [existsb find].
  - split; [discriminate|intros (c & H); discriminate].
  - destruct (c_seq x =? q); cbn [orb]; [split; eauto|exact IH].
Qed.

Lemma NoDup_app_l {A} (a b : list A) : NoDup (a ++ b) -> NoDup a.
Proof.
  induction b as [|x b IH]; [now rewrite app_nil_r|].
  intros H. apply IH. now apply NoDup_remove_1 in H.
Qed.

(* ---- the invariant -------------------------------------------------------- *)

Record Inv (tb : table) (s : store) : Prop := {
  inv_items_true : forall q c, iget (items s) q = Some c -> tget tb q = Some c;
  inv_covered_present : forall q c, covered (ranges s) q = true -> tget tb q = Some c -> iget (items s) q = Some c;
  inv_sorted : sorted_lt (items s)
}.

Lemma Inv_empty tb : Inv tb empty_store.
Proof. constructor; cbn; try discriminate. constructor. Qed.

Lemma insert_all_true tb cs : forall l,
  (forall q c, iget l q = Some c -> tget tb q = Some c) ->
  (forall c, In c cs -> tget tb (c_seq c) = Some c) ->
  forall q c, iget (insert_all l cs) q = Some c -> tget tb q = Some c.
Proof.
  unfold insert_all. induction cs as [|c0 cs IH]; cbn [fold_left]; intros l Hl Hcs q c; [apply Hl|].
  apply IH.
  - intros q' c'. rewrite iget_insert_item. destruct (c_seq c0 =? q') eqn:E.
    + intros H; inversion H; subst. assert (q' = c_seq c') by lia. subst. apply Hcs. now left.
    + apply Hl.
  - intros c' H. apply Hcs. now right.
Qed.

Lemma insert_all_keeps tb cs : forall l q c,
  (forall c', In c' cs -> tget tb (c_seq c') = Some c') ->
  tget tb q = Some c -> iget l q = Some c -> iget (insert_all l cs) q = Some c.
Proof.
  unfold insert_all. induction cs as [|c0 cs IH]; cbn [fold_left]; intros l q c Hcs Ht Hl; [exact Hl|].
  apply IH; [intros c' H; apply Hcs; now right|exact Ht|].
  rewrite iget_insert_item. destruct (c_seq c0 =? q) eqn:E; [|exact Hl].
  pose proof (Hcs c0 (or_introl eq_refl)) as H0. assert (c_seq c0 = q) by lia. subst q.
  rewrite H0 in Ht. exact Ht.
Qed.

Lemma insert_all_adds tb cs : forall l c,
  (forall c', In c' cs -> tget tb (c_seq c') = Some c') ->
  In c cs -> iget (insert_all l cs) (c_seq c) = Some c.
Proof.
  unfold insert_all. induction cs as [|c0 cs IH]; cbn [fold_left]; intros l c Hcs Hin; [contradiction|].
  destruct Hin as [->|Hin].
  - apply (insert_all_keeps tb); [intros c' H; apply Hcs; now right|apply Hcs; now left|].
    rewrite iget_insert_item. now rewrite Z.eqb_refl.
  - apply IH; [intros c' H; apply Hcs; now right|exact Hin].
Qed.

Lemma tfetch_true tb f t : NoDup (map c_seq tb) ->
  forall c, In c (tfetch tb f t) -> tget tb (c_seq c) = Some c.
Proof. intros Hnd c H. apply tfetch_in in H. apply tget_in_nodup; tauto. Qed.

Lemma ensure_step_inv tb s r :
  NoDup (map c_seq tb) -> Inv tb s -> Inv tb (ensure_step (tfetch tb) s r).
Proof.
  intros Hnd [I1 I2 I3]. unfold ensure_step. constructor; cbn [items ranges].
  - apply insert_all_true; [exact I1|now apply tfetch_true].
  - intros q c Hc Ht. rewrite covered_merge_adjacent, covered_app, orb_true_iff in Hc.
    destruct Hc as [Hc|Hc].
    + apply (insert_all_keeps tb); [now apply tfetch_true|exact Ht|now apply I2].
    + cbn [covered existsb] in Hc. rewrite orb_false_r in Hc.
      destruct (tget_some _ _ _ Ht) as [Hin Hq]. subst q.
      apply (insert_all_adds tb); [now apply tfetch_true|]. apply tfetch_in. tauto.
  - now apply insert_all_sorted.
Qed.

Lemma ensure_fold_inv tb miss : forall s,
  NoDup (map c_seq tb) -> Inv tb s -> Inv tb (fold_left (ensure_step (tfetch tb)) miss s).
Proof.
  induction miss as [|r miss IH]; cbn [fold_left]; intros s Hnd Hi; [exact Hi|].
  apply IH; [exact Hnd|now apply ensure_step_inv].
Qed.

(* covered only grows, and by exactly the ranges asked for *)
Lemma ensure_fold_covered tb miss : forall s q,
  covered (ranges (fold_left (ensure_step (tfetch tb)) miss s)) q = covered (ranges s) q || covered miss q.
Proof.
  induction miss as [|r miss IH]; cbn [fold_left]; intros s q; [cbn; now rewrite orb_false_r|].
  rewrite IH. unfold ensure_step. cbn [ranges]. rewrite covered_merge_adjacent, covered_app.
  cbn [covered existsb]. rewrite orb_false_r. fold (covered miss q).
  now rewrite orb_assoc.
Qed.

(* items already present stay (values agree with the table) *)
Lemma ensure_fold_keeps tb miss : forall s q c,
  NoDup (map c_seq tb) -> tget tb q = Some c -> iget (items s) q = Some c ->
  iget (items (fold_left (ensure_step (tfetch tb)) miss s)) q = Some c.
Proof.
  induction miss as [|r miss IH]; cbn [fold_left]; intros s q c Hnd Ht Hi; [exact Hi|].
  apply IH; [exact Hnd|exact Ht|]. unfold ensure_step. cbn [items].
  apply (insert_all_keeps tb); [now apply tfetch_true|exact Ht|exact Hi].
Qed.

(* EnsureChanges: afterwards every sequence of [f,t] answers like the table *)
Theorem ensure_transparent tb s f t s' asked :
  NoDup (map c_seq tb) -> Inv tb s -> ensure (tfetch tb) s f t = Some (s', asked) ->
  Inv tb s' /\ forall q, f <= q <= t -> iget (items s') q = tget tb q.
Proof.
  intros Hnd Hi He. unfold ensure in He. destruct (t <? f) eqn:Hft; [discriminate|].
  inversion He; subst s' asked; clear He.
  assert (Hi' : Inv tb (fold_left (ensure_step (tfetch tb)) (calc_missing s f t) s))
    by now apply ensure_fold_inv.
  split; [exact Hi'|]. intros q Hq.
  destruct (tget tb q) as [c|] eqn:Ht.
  - destruct (found_in s q) eqn:Hf.
    + unfold found_in in Hf. apply orb_true_iff in Hf. destruct Hf as [Hf|Hf].
      * apply has_seq_iget in Hf. destruct Hf as (c' & Hc').
        pose proof (inv_items_true _ _ Hi _ _ Hc') as H. rewrite Ht in H. inversion H; subst c'.
        now apply ensure_fold_keeps.
      * apply (inv_covered_present _ _ Hi'); [|exact Ht].
        rewrite ensure_fold_covered, Hf. reflexivity.
    + apply (inv_covered_present _ _ Hi'); [|exact Ht].
      rewrite ensure_fold_covered.
      assert (covered (calc_missing s f t) q = true) as -> by (apply calc_missing_spec; [lia|tauto]).
      apply orb_true_r.
  - destruct (iget (items (fold_left (ensure_step (tfetch tb)) (calc_missing s f t) s)) q) as [c|] eqn:E; [|reflexivity].
    apply (inv_items_true _ _ Hi') in E. congruence.
Qed.

(* the fetcher is never asked for a sequence that was covered or present *)
Theorem ensure_no_refetch fetch s f t s' asked :
  ensure fetch s f t = Some (s', asked) ->
  forall q, covered asked q = true ->
    f <= q <= t /\ covered (ranges s) q = false /\ has_seq (items s) q = false.
Proof.
  unfold ensure. destruct (t <? f) eqn:Hft; [discriminate|]. intros He. inversion He; subst.
  intros q Hq. apply calc_missing_spec in Hq; [|lia]. destruct Hq as [H1 H2].
  unfold found_in in H2. apply orb_false_iff in H2. tauto.
Qed.

(* list form of the answer: exactly the table rows of the range, ascending *)
Lemma changes_in_range_in s f t c :
  In c (changes_in_range s f t) <-> In c (items s) /\ f <= c_seq c <= t.
Proof.
  unfold changes_in_range. destruct (t <? f) eqn:Hft.
  - split; [contradiction|intros [_ H]; lia].
  - rewrite filter_In. unfold in_rng. split; intros [H1 H2]; split; auto; lia.
Qed.

Lemma filter_sorted (p : chg -> bool) l : sorted_lt l -> sorted_lt (filter p l).
Proof.
  unfold sorted_lt. induction l as [|x r IH]; cbn [filter]; intros Hs; [constructor|].
  inversion Hs as [|? ? Hr Hall]; subst. destruct (p x).
  - constructor; [now apply IH|]. rewrite Forall_forall in *. intros z Hz.
    apply filter_In in Hz. now apply Hall.
  - now apply IH.
Qed.

Lemma changes_in_range_sorted s f t : sorted_lt (items s) -> sorted_lt (changes_in_range s f t).
Proof.
  unfold changes_in_range. destruct (t <? f); [constructor|apply filter_sorted].
Qed.

Theorem ensure_answer tb s f t s' asked :
  NoDup (map c_seq tb) -> Inv tb s -> ensure (tfetch tb) s f t = Some (s', asked) ->
  sorted_lt (changes_in_range s' f t) /\
  forall c, In c (changes_in_range s' f t) <-> (In c tb /\ f <= c_seq c <= t).
Proof.
  intros Hnd Hi He. destruct (ensure_transparent _ _ _ _ _ _ Hnd Hi He) as [Hi' Hq].
  split; [apply changes_in_range_sorted, (inv_sorted _ _ Hi')|].
  intros c. rewrite changes_in_range_in. split.
  - intros [Hin Hr]. split; [|exact Hr].
    apply (sorted_iget_in _ (inv_sorted _ _ Hi')) in Hin. rewrite Hq in Hin by exact Hr.
    now apply tget_some in Hin.
  - intros [Hin Hr]. split; [|exact Hr].
    apply (sorted_iget_in _ (inv_sorted _ _ Hi')). rewrite Hq by exact Hr.
    now apply tget_in_nodup.
Qed.

(* ---- every disciplined call sequence keeps the invariant ------------------- *)

Inductive cop :=
| CEnsure (f t : Z)
| CEnsureFail (f t : Z) (k : nat)      (* the fetcher fails on its (k+1)-th call *)
| CExpand (f t : Z)
| CInsert (cs : list chg)
| CGrow (cs : list chg).

Definition cstep (st : table * store) (o : cop) : table * store :=
  let '(tb, s) := st in
  match o with
  | CEnsure f t => match ensure (tfetch tb) s f t with Some (s', _) => (tb, s') | None => (tb, s) end
  | CEnsureFail f t k => match ensure_failing (tfetch tb) s f t k with Some (s', _, _) => (tb, s') | None => (tb, s) end
  | CExpand f t => (tb, expand s (f, t))
  | CInsert cs => (tb, replace_or_insert s cs)
  | CGrow cs => (tb ++ cs, s)
  end.

(* what mongo/client.go promises when it calls the store *)
Definition obligation (st : table * store) (o : cop) : Prop :=
  let '(tb, s) := st in
  match o with
  | CEnsure _ _ => True
  | CEnsureFail _ _ _ => True
  | CExpand f t => forall q c, in_rng f t q = true -> tget tb q = Some c -> iget (items s) q = Some c
  | CInsert cs => forall c, In c cs -> tget tb (c_seq c) = Some c
  | CGrow cs => NoDup (map c_seq (tb ++ cs)) /\
                forall c, In c cs -> covered (ranges s) (c_seq c) = false
  end.

Fixpoint obligations (st : table * store) (ops : list cop) : Prop :=
  match ops with
  | [] => True
  | o :: r => obligation st o /\ obligations (cstep st o) r
  end.

Definition GInv (st : table * store) : Prop := NoDup (map c_seq (fst st)) /\ Inv (fst st) (snd st).

Lemma cstep_inv st o : GInv st -> obligation st o -> GInv (cstep st o).
Proof.
  destruct st as [tb s]. intros [Hnd Hi] Hob. destruct o as [f t|f t k|f t|cs|cs]; cbn [cstep].
  - destruct (ensure (tfetch tb) s f t) as [[s' asked]|] eqn:E; [|split; assumption].
    split; [exact Hnd|]. now destruct (ensure_transparent _ _ _ _ _ _ Hnd Hi E).
  - unfold ensure_failing. destruct (t <? f); [split; assumption|].
    destruct (k <? length (calc_missing s f t))%nat; (split; [exact Hnd|]); cbn [fst snd];
      now apply ensure_fold_inv.
  - split; [exact Hnd|]. cbn [fst snd]. unfold expand. cbn [fst snd].
    destruct (t <? f); [exact Hi|]. destruct Hi as [I1 I2 I3]. constructor; cbn [items ranges]; auto.
    intros q c Hc Ht. rewrite covered_merge_adjacent, covered_app, orb_true_iff in Hc.
    destruct Hc as [Hc|Hc]; [now apply I2|].
    cbn [covered existsb fst snd] in Hc. rewrite orb_false_r in Hc. now apply (Hob q c).
  - split; [exact Hnd|]. cbn [fst snd] in *. destruct Hi as [I1 I2 I3].
    unfold replace_or_insert. constructor; cbn [items ranges].
    + now apply insert_all_true.
    + intros q c Hc Ht. apply (insert_all_keeps tb); auto.
    + now apply insert_all_sorted.
  - destruct Hob as [Hnd' Hnew]. split; [exact Hnd'|]. cbn [fst snd] in *.
    destruct Hi as [I1 I2 I3]. constructor; auto.
    + intros q c H. apply tget_app_l. now apply I1.
    + intros q c Hc Ht. destruct (tget tb q) as [c'|] eqn:E.
      * rewrite (tget_app_l _ cs _ _ E) in Ht. inversion Ht; subst. now apply I2.
      * exfalso. destruct (tget_some _ _ _ Ht) as [Hin Hq]. apply in_app_or in Hin.
        destruct Hin as [Hin|Hin].
        -- rewrite <- Hq in E. rewrite tget_in_nodup in E; [discriminate| |exact Hin].
           rewrite map_app in Hnd'. now apply NoDup_app_l in Hnd'.
        -- specialize (Hnew c Hin). subst q. congruence.
Qed.

Theorem run_inv ops : forall st, GInv st -> obligations st ops -> GInv (fold_left cstep ops st).
Proof.
  induction ops as [|o r IH]; cbn [fold_left obligations]; intros st Hi Hob; [exact Hi|].
  destruct Hob as [H1 H2]. apply IH; [now apply cstep_inv|exact H2].
Qed.

(* C20 for the change store: after ANY disciplined sequence of calls, starting
   from an empty store over any table, EnsureChanges + ChangesInRange answer
   exactly like the table, in ascending order, and the fetcher is only asked
   for uncovered sequences. *)
Theorem changestore_transparent tb0 ops f t :
  NoDup (map c_seq tb0) -> obligations (tb0, empty_store) ops ->
  let '(tb, s) := fold_left cstep ops (tb0, empty_store) in
  forall s' asked, ensure (tfetch tb) s f t = Some (s', asked) ->
    sorted_lt (changes_in_range s' f t) /\
    (forall c, In c (changes_in_range s' f t) <-> (In c tb /\ f <= c_seq c <= t)) /\
    (forall q, covered asked q = true ->
        f <= q <= t /\ covered (ranges s) q = false /\ has_seq (items s) q = false).
Proof.
  intros Hnd Hob.
  pose proof (run_inv ops (tb0, empty_store) (conj Hnd (Inv_empty tb0)) Hob) as Hg.
  destruct (fold_left cstep ops (tb0, empty_store)) as [tb s]. destruct Hg as [Hnd' Hi].
  cbn [fst snd] in *. intros s' asked He.
  destruct (ensure_answer _ _ _ _ _ _ Hnd' Hi He) as [Hs Hm].
  split; [exact Hs|]. split; [exact Hm|]. now apply (ensure_no_refetch _ _ _ _ _ _ He).
Qed.

(* a fetcher failure: exactly the ranges fetched before it count as fetched afterwards - the
   failing range and the ranges after it stay unmarked, so a later request asks for them again *)
Theorem failed_fetch_marks_only_fetched tb s f t k s' asked :
  ensure_failing (tfetch tb) s f t k = Some (s', asked, true) ->
  asked = firstn (S k) (calc_missing s f t) /\
  forall q, covered (ranges s') q = covered (ranges s) q || covered (firstn k (calc_missing s f t)) q.
Proof.
  unfold ensure_failing. destruct (t <? f); [discriminate|].
  destruct (k <? length (calc_missing s f t))%nat; intros H; inversion H; subst.
  split; [reflexivity|]. intros q. apply ensure_fold_covered.
Qed.

(* RemoveChangesByActor on the (authoritative) presence store *)
Theorem remove_by_actor_spec s a c :
  In c (items (remove_by_actor s a)) <->
  In c (items s) /\ ~ (c_actor c = a /\ c_clear c = false).
Proof.
  unfold remove_by_actor. cbn [items]. rewrite filter_In. split; intros [H1 H2]; split; auto.
  - intros [Ha Hc]. subst a. rewrite N.eqb_refl, Hc in H2. discriminate.
  - destruct (N.eqb_spec (c_actor c) a) as [Ha|Ha]; [|reflexivity].
    destruct (c_clear c) eqn:Hc; [reflexivity|]. exfalso. apply H2. split; [exact Ha|reflexivity].
Qed.

(* non-vacuity: a concrete disciplined run *)
Example changestore_example :
  let tb0 := [mkChg 1 1%N false 10; mkChg 3 2%N false 30; mkChg 4 1%N true 40] in
  let ops := [CEnsure 1 2; CGrow [mkChg 6 2%N false 60]; CInsert [mkChg 6 2%N false 60]; CExpand 5 6; CEnsure 2 6] in
  NoDup (map c_seq tb0) /\ obligations (tb0, empty_store) ops /\
  map c_seq (changes_in_range (snd (fold_left cstep ops (tb0, empty_store))) 1 6) = [1; 3; 4; 6].
Proof.
  cbn [map c_seq]. split; [repeat constructor; cbn; intuition lia|].
  split; [|vm_compute; reflexivity].
  cbn [obligations obligation cstep]. vm_compute ensure.
  repeat split; try exact I.
  - repeat constructor; cbn; intuition lia.
  - intros c [<-|[]]. reflexivity.
  - intros c [<-|[]]. reflexivity.
  - intros q c Hq. unfold in_rng in Hq. assert (q = 5 \/ q = 6) as [->| ->] by lia; cbn; [discriminate|].
    intros E; inversion E; reflexivity.
Qed.
