(* RHTProofs.v — attribute tables converge: any two operations with distinct
   tickets commute up to the value kept inside a removed node, which nothing
   reads (property C01 style clause / C19 style-style). *)
From YV Require Import Crdt.RHT Proofs.TicketProofs.

(* observable part of a node: when, removed?, and the value unless removed *)
Definition aview (o : option anode) : option (ticket * bool * option Z) :=
  match o with
  | None => None
  | Some n => Some (an_at n, an_removed n, if an_removed n then None else Some (an_val n))
  end.

Definition req (h1 h2 : rht) : Prop := forall k, aview (aget_node h1 k) = aview (aget_node h2 k).

Lemma aget_aput h n k : aget_node (aput h n) k = if N.eqb (an_key n) k then Some n else aget_node h k.
Proof.
  induction h as [|x r IH]; cbn [aput aget_node]; [reflexivity|].
  destruct (N.eqb_spec (an_key x) (an_key n)) as [E|E]; cbn [aget_node].
  - rewrite E. destruct (N.eqb (an_key n) k); reflexivity.
  - destruct (N.eqb_spec (an_key x) k) as [E2|E2].
    + subst k. destruct (N.eqb_spec (an_key n) (an_key x)); [congruence|reflexivity].
    + exact IH.
Qed.

(* the observable register of one key and what an operation does to it *)
Definition areg := option (ticket * bool * option Z).

Definition reg_apply (r : areg) (o : aop) : areg :=
  let t := aop_ticket o in
  let fresh := match o with APut _ v _ => Some (t, false, Some v) | ARemove _ _ => Some (t, true, None) end in
  match r with
  | None => fresh
  | Some (at0, _, _) => if tafter t at0 then fresh else r
  end.

Definition aop_key (o : aop) : N := match o with APut k _ _ => k | ARemove k _ => k end.

Lemma apply_view h o k :
  aview (aget_node (rht_apply h o) k) =
  if N.eqb (aop_key o) k then reg_apply (aview (aget_node h k)) o else aview (aget_node h k).
Proof.
  destruct o as [k' v t|k' t]; cbn [rht_apply aop_key]; unfold rht_put, rht_remove, reg_apply; cbn [aop_ticket].
  - destruct (N.eqb_spec k' k) as [->|Hn].
    + destruct (aget_node h k) as [n|] eqn:E; cbn [aview].
      * destruct (tafter t (an_at n)); [rewrite aget_aput; cbn [an_key]; now rewrite N.eqb_refl|now rewrite E].
      * rewrite aget_aput. cbn [an_key]. now rewrite N.eqb_refl.
    + destruct (aget_node h k') as [n|] eqn:E.
      * destruct (tafter t (an_at n)); [|reflexivity]. rewrite aget_aput. cbn [an_key].
        destruct (N.eqb_spec k' k); [contradiction|reflexivity].
      * rewrite aget_aput. cbn [an_key]. destruct (N.eqb_spec k' k); [contradiction|reflexivity].
  - destruct (N.eqb_spec k' k) as [->|Hn].
    + destruct (aget_node h k) as [n|] eqn:E; cbn [aview].
      * destruct (tafter t (an_at n)); [rewrite aget_aput; cbn [an_key]; now rewrite N.eqb_refl|now rewrite E].
      * rewrite aget_aput. cbn [an_key]. now rewrite N.eqb_refl.
    + destruct (aget_node h k') as [n|] eqn:E.
      * destruct (tafter t (an_at n)); [|reflexivity]. rewrite aget_aput. cbn [an_key].
        destruct (N.eqb_spec k' k); [contradiction|reflexivity].
      * rewrite aget_aput. cbn [an_key]. destruct (N.eqb_spec k' k); [contradiction|reflexivity].
Qed.

(* the result depends on the old table only through its observable part *)
Lemma apply_respects h1 h2 o : req h1 h2 -> req (rht_apply h1 o) (rht_apply h2 o).
Proof. intros H k. rewrite !apply_view. now rewrite (H k). Qed.

Lemma tafter_asym' a b : tafter a b = true -> tafter b a = false.
Proof. intros G. apply tafter_false. apply tafter_spec in G. now apply tgt_asym. Qed.

(* last-writer-wins registers commute for operations with distinct tickets *)
Lemma reg_commute r a b : aop_ticket a <> aop_ticket b ->
  reg_apply (reg_apply r a) b = reg_apply (reg_apply r b) a.
Proof.
  intros Hne. unfold reg_apply.
  set (ta := aop_ticket a). set (tb := aop_ticket b).
  set (fa := match a with APut _ v _ => Some (ta, false, Some v) | ARemove _ _ => Some (ta, true, None) end).
  set (fb := match b with APut _ v _ => Some (tb, false, Some v) | ARemove _ _ => Some (tb, true, None) end).
  assert (Hfa : exists x y, fa = Some (ta, x, y)) by (unfold fa; destruct a; eauto).
  assert (Hfb : exists x y, fb = Some (tb, x, y)) by (unfold fb; destruct b; eauto).
  destruct Hfa as (xa & ya & Efa). destruct Hfb as (xb & yb & Efb). rewrite Efa, Efb.
  destruct (tafter_total_b ta tb Hne) as [Gab|Gba].
  - pose proof (tafter_asym' _ _ Gab) as Gba.
    destruct r as [[[at0 x0] y0]|]; [|now rewrite Gab, Gba].
    destruct (tafter ta at0) eqn:Ea; destruct (tafter tb at0) eqn:Eb; rewrite ?Gab, ?Gba, ?Ea, ?Eb; try reflexivity.
    (* tb > at0 but not ta > at0, while ta > tb: impossible *)
    rewrite (tafter_trans_b _ _ _ Gab Eb) in Ea. discriminate.
  - pose proof (tafter_asym' _ _ Gba) as Gab.
    destruct r as [[[at0 x0] y0]|]; [|now rewrite Gab, Gba].
    destruct (tafter ta at0) eqn:Ea; destruct (tafter tb at0) eqn:Eb; rewrite ?Gab, ?Gba, ?Ea, ?Eb; try reflexivity.
    rewrite (tafter_trans_b _ _ _ Gba Ea) in Eb. discriminate.
Qed.

(* two operations with distinct tickets commute (observably), on every table *)
Theorem rht_ops_commute h a b :
  aop_ticket a <> aop_ticket b ->
  req (rht_apply (rht_apply h a) b) (rht_apply (rht_apply h b) a).
Proof.
  intros Hne k. rewrite !apply_view.
  destruct (N.eqb (aop_key a) k) eqn:Ea; destruct (N.eqb (aop_key b) k) eqn:Eb; try reflexivity.
  now apply reg_commute.
Qed.

(* RHT.Get/Has: what a reader sees of a key *)
Definition rht_get (h : rht) (k : N) : option Z :=
  match aget_node h k with
  | Some n => if an_removed n then None else Some (an_val n)
  | None => None
  end.

(* observably equal tables answer every lookup alike *)
Lemma req_get h1 h2 : req h1 h2 -> forall k, rht_get h1 k = rht_get h2 k.
Proof.
  intros H k. specialize (H k). unfold rht_get.
  destruct (aget_node h1 k) as [n1|], (aget_node h2 k) as [n2|]; cbn [aview] in H; try discriminate; [|reflexivity].
  destruct (an_removed n1), (an_removed n2); inversion H; reflexivity.
Qed.

Example rht_example :
  let t a l := mkT l a 0%N in
  let h := rht_apply (rht_apply [] (APut 1%N 10 (t 1%N 5))) (ARemove 1%N (t 2%N 3)) in
  let h' := rht_apply (rht_apply [] (ARemove 1%N (t 2%N 3))) (APut 1%N 10 (t 1%N 5)) in
  rht_elements h = [(1%N, 10)] /\ rht_elements h' = [(1%N, 10)].
Proof. split; reflexivity. Qed.
