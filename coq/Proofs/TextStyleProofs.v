(* TextStyleProofs.v — Style/RemoveStyle on the character-level text model (Crdt/TextStyle.v):
     - an honest style operation is a scan: apply the attribute operations to the table of every
       character of the range that the author knew and whose tombstone (if any) is older
       (style_is_hstyle);
     - two concurrent style operations commute: every character's table is observably the same
       (style_style_commute);
     - a style operation and a concurrent edit commute on every character that is still visible
       (style_edit_commute_live). *)
From Coq Require Import Lia.
From YV Require Import Base.Ticket Crdt.TextRGA Crdt.RHT Crdt.TextStyle Proofs.TicketProofs Proofs.RHTProofs Proofs.TextProofs.

(* ---- the scan form ---- *)
Fixpoint sscan (pf pt : tpos) (g : attrs -> tch -> attrs) (s : sst) (l : list tch) (A : attrs) : attrs :=
  match l with
  | [] => A
  | c :: r => sscan pf pt g (step_state pf pt s c) r (match s with SInside => g A c | _ => A end)
  end.

Definition hstyle (pf pt : tpos) (ops : list aop) (t : ticket) (v : option vvec) (l : list tch) (A : attrs) : attrs :=
  sscan pf pt (style_ch ops t v) (init_state pf pt) l A.

Lemma sscan_app pf pt g s a b A :
  sscan pf pt g s (a ++ b) A = sscan pf pt g (fold_left (step_state pf pt) a s) b (sscan pf pt g s a A).
Proof. revert s A. induction a as [|c a IH]; intros s A; cbn [app sscan fold_left]; [reflexivity|]. now rewrite IH. Qed.

Lemma sscan_after pf pt g l A : sscan pf pt g SAfter l A = A.
Proof. revert A. induction l as [|c l IH]; intros A; cbn [sscan step_state]; [reflexivity|apply IH]. Qed.

Lemma sscan_before pf pt g l A : (forall x, In x l -> is_at pf x = false) -> sscan pf pt g SBefore l A = A.
Proof.
  revert A. induction l as [|c l IH]; intros A H; cbn [sscan step_state]; [reflexivity|].
  rewrite (H c (or_introl eq_refl)). apply IH. intros x Hx. apply H. now right.
Qed.

Lemma sscan_inside pf pt g l A : (forall x, In x l -> is_at pt x = false) ->
  sscan pf pt g SInside l A = fold_left g l A.
Proof.
  revert A. induction l as [|c l IH]; intros A H; cbn [sscan step_state fold_left]; [reflexivity|].
  rewrite (H c (or_introl eq_refl)). apply IH. intros x Hx. apply H. now right.
Qed.

Lemma sscan_decomp pf pt g fa mid tr0 A : at_end pf fa -> at_end pt (fa ++ mid) ->
  sscan pf pt g (init_state pf pt) (fa ++ mid ++ tr0) A = fold_left g mid A.
Proof.
  intros Hf Ht.
  assert (Tail : forall mid' ct A0, mid = mid' ++ [ct] -> sscan pf pt g SInside (mid ++ tr0) A0 = fold_left g mid A0).
  { intros mid' ct A0 ->. rewrite app_assoc in Ht. pose proof (at_end_snoc_inv _ _ _ Ht) as Hl.
    destruct pt as [|tk off]; [destruct Hl|]. destruct Hl as [Hc Hall].
    rewrite <- app_assoc, sscan_app.
    assert (Hno : forall x, In x mid' -> is_at (PAfter tk off) x = false).
    { intros x Hx. rewrite is_at_cid. apply Hall, in_or_app. now right. }
    rewrite (sscan_inside pf (PAfter tk off) g mid' A0 Hno).
    destruct (scan_inside pf (PAfter tk off) (fun c => c) mid' Hno) as [_ B]. rewrite B.
    cbn [app sscan step_state]. rewrite is_at_cid, Hc, sscan_after. now rewrite fold_left_app. }
  destruct pf as [|ftk foff]; cbn [at_end] in Hf.
  - subst fa. cbn [app] in *. destruct (snoc_cases mid) as [->|(mid' & ct & E)].
    + cbn [app fold_left]. cbn [at_end] in Ht. destruct pt as [|tk off]; [cbn [init_state]; apply sscan_after|].
      destruct Ht as (a' & c & E & _). destruct a'; discriminate.
    + assert (init_state PHead pt = SInside).
      { destruct pt; [|reflexivity]. cbn [at_end] in Ht. subst mid. destruct mid'; discriminate. }
      rewrite H. eapply Tail; eauto.
  - destruct Hf as (fa' & cf & -> & Hcf & Hfa'). cbn [init_state].
    rewrite <- app_assoc, sscan_app.
    assert (Hno : forall x, In x fa' -> is_at (PAfter ftk foff) x = false).
    { intros x Hx. rewrite is_at_cid. now apply Hfa'. }
    rewrite (sscan_before (PAfter ftk foff) pt g fa' A Hno).
    destruct (scan_before (PAfter ftk foff) pt (fun c => c) fa' Hno) as [_ B]. rewrite B.
    cbn [app sscan step_state]. rewrite is_at_cid, Hcf.
    destruct (snoc_cases mid) as [->|(mid' & ct & E)].
    + cbn [app fold_left]. rewrite app_nil_r in Ht. pose proof (at_end_snoc_inv _ _ _ Ht) as Hl.
      destruct pt as [|tk off]; [destruct Hl|]. destruct Hl as [Hc _]. rewrite is_at_cid, Hc. apply sscan_after.
    + assert (Hnot : is_at pt cf = false).
      { subst mid. rewrite app_assoc in Ht. pose proof (at_end_snoc_inv _ _ _ Ht) as Hl.
        destruct pt as [|tk off]; [reflexivity|]. destruct Hl as [_ Hall]. rewrite is_at_cid. apply Hall.
        apply in_or_app. left. apply in_or_app. right. now left. }
      rewrite Hnot. eapply Tail; eauto.
Qed.

(* ---- what findBetween hands over, for an honest range ---- *)
Lemma candidates_spec pf pt t fa mid tr0 : at_end pf fa -> at_end pt (fa ++ mid) ->
  exists sm rm s2 tr, mid = sm ++ rm /\ tr0 = s2 ++ tr /\
    (forall x, In x sm -> tafter (c_tk x) t = true) /\ (forall x, In x s2 -> tafter (c_tk x) t = true) /\
    candidates pf pt t (fa ++ mid ++ tr0) = Some (match rm with [] => [] | _ => rm ++ s2 end).
Proof.
  intros Ef Et.
  assert (Sf : split_after pf (fa ++ mid ++ tr0) = Some (fa, mid ++ tr0)) by now apply split_after_of_decomp.
  assert (St : split_after pt (fa ++ mid ++ tr0) = Some (fa ++ mid, tr0)) by (rewrite app_assoc; now apply split_after_of_decomp).
  pose proof (skip_newer_spec t tr0) as S2. destruct (skip_newer t tr0) as [s2 tr] eqn:E2. destruct S2 as (-> & Hs2 & Htr).
  pose proof (skip_newer_spec t mid) as Sm. destruct (skip_newer t mid) as [sm rm] eqn:Em. destruct Sm as (-> & Hsm & Hrm).
  exists sm, rm, s2, tr. split; [reflexivity|]. split; [reflexivity|]. split; [exact Hsm|]. split; [exact Hs2|].
  unfold candidates, find_pos. rewrite Sf, St, E2.
  assert (E2' : skip_newer t (s2 ++ tr) = (s2, tr)) by exact E2.
  destruct rm as [|x rm].
  - rewrite app_nil_r in *. rewrite (skip_newer_app_all t sm (s2 ++ tr) Hsm), E2'.
    rewrite <- (app_assoc fa sm s2). now rewrite Nat.leb_refl, Nat.sub_diag.
  - rewrite <- (app_assoc sm (x :: rm)). rewrite <- app_comm_cons.
    rewrite (skip_newer_app_stop t sm x (rm ++ s2 ++ tr) Hsm Hrm).
    assert (Hle : Nat.leb (length (fa ++ sm)) (length ((fa ++ sm ++ x :: rm) ++ s2)) = true).
    { apply Nat.leb_le. rewrite !app_length. cbn [length]. lia. }
    rewrite Hle.
    assert (Hn : (length ((fa ++ sm ++ x :: rm) ++ s2) - length (fa ++ sm) = length ((x :: rm) ++ s2))%nat).
    { rewrite !app_length. cbn [length]. lia. }
    rewrite Hn. change (x :: rm ++ s2 ++ tr) with ((x :: rm) ++ s2 ++ tr). rewrite (app_assoc (x :: rm) s2 tr).
    rewrite firstn_app, firstn_all, Nat.sub_diag. cbn [firstn]. now rewrite app_nil_r.
Qed.

Lemma fold_id_on {A B} (g : A -> B -> A) l a : (forall a' x, In x l -> g a' x = a') -> fold_left g l a = a.
Proof. revert a. induction l as [|x l IH]; intros a H; cbn [fold_left]; [reflexivity|]. rewrite H by now left. apply IH. intros a' y Hy. apply H. now right. Qed.

Lemma style_ch_unknown ops t v A c : known v (c_tk c) = false -> style_ch ops t v A c = A.
Proof. unfold style_ch, can_style. now intros ->. Qed.

(* an honest style operation is the scan *)
Theorem style_is_hstyle pf pt ops t v l A : honest pf pt t v l ->
  style pf pt ops t v l A = Some (hstyle pf pt ops t v l A).
Proof.
  intros [(fa & mid & tr0 & -> & Ef & Et) Hk]. unfold style, hstyle.
  rewrite (sscan_decomp pf pt _ fa mid tr0 A Ef Et).
  destruct (candidates_spec pf pt t fa mid tr0 Ef Et) as (sm & rm & s2 & tr & -> & -> & Hsm & Hs2 & ->).
  cbn [option_map]. f_equal.
  assert (Hid : forall A0 x, In x sm \/ In x s2 -> style_ch ops t v A0 x = A0).
  { intros A0 x Hx. apply style_ch_unknown. apply Hk.
    - apply in_or_app. right. destruct Hx as [Hx|Hx].
      + apply in_or_app. left. apply in_or_app. now left.
      + apply in_or_app. right. apply in_or_app. now left.
    - destruct Hx; [now apply Hsm|now apply Hs2]. }
  rewrite fold_left_app. rewrite (fold_id_on _ sm A) by (intros; apply Hid; now left).
  destruct rm as [|x rm]; [reflexivity|].
  rewrite fold_left_app. rewrite (fold_id_on _ s2) by (intros; apply Hid; now right). reflexivity.
Qed.

(* ------------------------------------------------------------------ *)
(* the table of one character after a style scan                        *)
From YV Require Import Proofs.TextSplice.

Definition idb (tk' : ticket) (off' : N) (tk : ticket) (off : N) : bool := teqb tk' tk && N.eqb off' off.

Lemma attr_get_set A tk off h tk2 off2 :
  attr_get (attr_set A tk off h) tk2 off2 = if idb tk off tk2 off2 then h else attr_get A tk2 off2.
Proof.
  unfold idb. induction A as [|[[tk' off'] h'] A IH]; cbn [attr_set attr_get].
  - reflexivity.
  - destruct (teqb tk' tk && N.eqb off' off) eqn:E; cbn [attr_get].
    + apply andb_true_iff in E. destruct E as [E1 E2]. apply teqb_spec in E1. apply N.eqb_eq in E2. subst tk' off'.
      destruct (teqb tk tk2 && N.eqb off off2); reflexivity.
    + destruct (teqb tk' tk2 && N.eqb off' off2) eqn:E2; [|exact IH].
      destruct (teqb tk tk2 && N.eqb off off2) eqn:E3; [|reflexivity].
      apply andb_true_iff in E2. destruct E2 as [A1 A2]. apply teqb_spec in A1. apply N.eqb_eq in A2.
      apply andb_true_iff in E3. destruct E3 as [B1 B2]. apply teqb_spec in B1. apply N.eqb_eq in B2.
      subst. rewrite teqb_refl, N.eqb_refl in E. discriminate.
Qed.

Fixpoint sflag (pf pt : tpos) (p : tch -> bool) (s : sst) (l : list tch) (tk : ticket) (off : N) : bool :=
  match l with
  | [] => false
  | c :: r => ((match s with SInside => p c | _ => false end) && cid_eqb c tk off)
              || sflag pf pt p (step_state pf pt s c) r tk off
  end.

Lemma sflag_absent pf pt p s l tk off : (forall c, In c l -> cid_eqb c tk off = false) -> sflag pf pt p s l tk off = false.
Proof.
  revert s. induction l as [|c l IH]; intros s H; cbn [sflag]; [reflexivity|].
  rewrite (H c (or_introl eq_refl)), andb_false_r. apply IH. intros x Hx. apply H. now right.
Qed.

Lemma sscan_get pf pt ops t v l : ids_distinct l -> forall s A tk off,
  attr_get (sscan pf pt (style_ch ops t v) s l A) tk off =
  if sflag pf pt (can_style t v) s l tk off then fold_left rht_apply ops (attr_get A tk off) else attr_get A tk off.
Proof.
  induction l as [|c l IH]; intros Hd s A tk off; cbn [sscan sflag]; [reflexivity|].
  assert (Hd' : ids_distinct l) by (unfold ids_distinct in *; cbn [map] in Hd; now apply NoDup_cons_iff in Hd).
  rewrite (IH Hd').
  destruct (cid_eqb c tk off) eqn:Ec.
  - (* this is the character: nothing later has its id *)
    assert (Habs : sflag pf pt (can_style t v) (step_state pf pt s c) l tk off = false).
    { apply sflag_absent. intros x Hx. destruct (cid_eqb x tk off) eqn:Ex; [|reflexivity]. exfalso.
      apply cid_eqb_true in Ec. apply cid_eqb_true in Ex.
      unfold ids_distinct in Hd. cbn [map] in Hd. apply NoDup_cons_iff in Hd. destruct Hd as [Hni _].
      apply Hni. rewrite Ec, <- Ex. now apply (in_map (fun c => (c_tk c, c_off c))). }
    rewrite Habs, andb_true_r, orb_false_r.
    apply cid_eqb_true in Ec. injection Ec as <- <-.
    destruct s; cbn; try reflexivity.
    unfold style_ch. destruct (can_style t v c); [|reflexivity].
    rewrite attr_get_set. unfold idb. now rewrite teqb_refl, N.eqb_refl.
  - rewrite andb_false_r, orb_false_l.
    assert (Hget : attr_get (match s with SInside => style_ch ops t v A c | _ => A end) tk off = attr_get A tk off).
    { destruct s; try reflexivity. unfold style_ch. destruct (can_style t v c); [|reflexivity].
      rewrite attr_get_set. unfold idb. unfold cid_eqb in Ec. now rewrite Ec. }
    now rewrite Hget.
Qed.

(* ---- attribute operations of two different tickets commute, whole lists ---- *)
Lemma req_refl h : req h h. Proof. intros k. reflexivity. Qed.
Lemma req_sym h1 h2 : req h1 h2 -> req h2 h1. Proof. intros H k. now rewrite H. Qed.
Lemma req_trans h1 h2 h3 : req h1 h2 -> req h2 h3 -> req h1 h3. Proof. intros A B k. now rewrite A, B. Qed.

Lemma fold_respects ops : forall h1 h2, req h1 h2 -> req (fold_left rht_apply ops h1) (fold_left rht_apply ops h2).
Proof. induction ops as [|o r IH]; intros h1 h2 H; cbn [fold_left]; [exact H|]. apply IH. now apply apply_respects. Qed.

Definition all_at (t : ticket) (ops : list aop) : Prop := forall o, In o ops -> aop_ticket o = t.

Lemma fold_apply_commute ops a tb h : all_at tb ops -> aop_ticket a <> tb ->
  req (fold_left rht_apply ops (rht_apply h a)) (rht_apply (fold_left rht_apply ops h) a).
Proof.
  revert h. induction ops as [|b r IH]; intros h Hb Hne; cbn [fold_left]; [apply req_refl|].
  eapply req_trans.
  - apply fold_respects. apply rht_ops_commute. rewrite (Hb b (or_introl eq_refl)). exact Hne.
  - apply (IH (rht_apply h b)); [intros o Ho; apply Hb; now right|exact Hne].
Qed.

Lemma folds_commute opsa opsb ta tb h : all_at ta opsa -> all_at tb opsb -> ta <> tb ->
  req (fold_left rht_apply opsb (fold_left rht_apply opsa h)) (fold_left rht_apply opsa (fold_left rht_apply opsb h)).
Proof.
  revert h. induction opsa as [|a r IH]; intros h Ha Hb Hne; cbn [fold_left]; [apply req_refl|].
  eapply req_trans; [apply IH; [intros o Ho; apply Ha; now right|exact Hb|exact Hne]|].
  apply fold_respects. apply (fold_apply_commute opsb a tb); [exact Hb|]. rewrite (Ha a (or_introl eq_refl)). exact Hne.
Qed.

(* two concurrent style operations: every character ends with observably the same table *)
Theorem style_style_commute pfa pta opsa ta va pfb ptb opsb tb vb l A : ids_distinct l ->
  all_at ta opsa -> all_at tb opsb -> ta <> tb ->
  forall tk off,
  req (attr_get (hstyle pfb ptb opsb tb vb l (hstyle pfa pta opsa ta va l A)) tk off)
      (attr_get (hstyle pfa pta opsa ta va l (hstyle pfb ptb opsb tb vb l A)) tk off).
Proof.
  intros Hd Ha Hb Hne tk off. unfold hstyle. rewrite !(sscan_get _ _ _ _ _ l Hd).
  destruct (sflag pfa pta (can_style ta va) (init_state pfa pta) l tk off),
           (sflag pfb ptb (can_style tb vb) (init_state pfb ptb) l tk off); try apply req_refl.
  now apply (folds_commute opsa opsb ta tb).
Qed.

(* ------------------------------------------------------------------ *)
(* a style operation and a concurrent edit                              *)
Section FlagLemmas.
Variables (pf pt : tpos) (p : tch -> bool).

Lemma sflag_app s x y tk off :
  sflag pf pt p s (x ++ y) tk off = sflag pf pt p s x tk off || sflag pf pt p (fold_left (step_state pf pt) x s) y tk off.
Proof. revert s. induction x as [|c x IH]; intros s; cbn [app sflag fold_left]; [reflexivity|]. now rewrite IH, orb_assoc. Qed.

Lemma sflag_block s blk rest tk off :
  (forall c, In c blk -> p c = false) -> (forall c, In c blk -> is_at pf c = false) -> (forall c, In c blk -> is_at pt c = false) ->
  sflag pf pt p s (blk ++ rest) tk off = sflag pf pt p s rest tk off.
Proof.
  induction blk as [|c b IH]; intros Hp Hf Ht; cbn [app sflag]; [reflexivity|].
  assert (S : step_state pf pt s c = s).
  { unfold step_state. rewrite (Hf c (or_introl eq_refl)), (Ht c (or_introl eq_refl)). now destruct s. }
  rewrite S, (Hp c (or_introl eq_refl)). 
  replace (match s with SInside => false | _ => false end) with false by (now destruct s). cbn [andb orb].
  apply IH; intros x Hx; [apply Hp|apply Hf|apply Ht]; now right.
Qed.

Lemma sflag_place s t blk X tk off :
  (forall c, In c blk -> p c = false) -> (forall c, In c blk -> is_at pf c = false) -> (forall c, In c blk -> is_at pt c = false) ->
  sflag pf pt p s (place t blk X) tk off = sflag pf pt p s X tk off.
Proof.
  intros Hp Hf Ht. revert s. induction X as [|c X IH]; intros s; cbn [place].
  - rewrite <- (app_nil_r blk). now apply sflag_block.
  - destruct (tafter (c_tk c) t); [cbn [sflag]; now rewrite IH|now apply sflag_block].
Qed.

Lemma states_map (D : tch -> tch) X s : (forall c, c_tk (D c) = c_tk c) -> (forall c, c_off (D c) = c_off c) ->
  fold_left (step_state pf pt) (map D X) s = fold_left (step_state pf pt) X s.
Proof.
  intros H1 H2. revert s. induction X as [|c X IH]; intros s; cbn [map fold_left]; [reflexivity|].
  assert (E : step_state pf pt s (D c) = step_state pf pt s c).
  { unfold step_state. assert (I : forall q, is_at q (D c) = is_at q c) by (intros [|tk off]; [reflexivity|]; unfold is_at; now rewrite H1, H2).
    now rewrite !I. }
  now rewrite E, IH.
Qed.

Lemma sflag_map (D : tch -> tch) X s tk off : (forall c, c_tk (D c) = c_tk c) -> (forall c, c_off (D c) = c_off c) ->
  (forall c, In c X -> cid_eqb c tk off = true -> D c = c) ->
  sflag pf pt p s (map D X) tk off = sflag pf pt p s X tk off.
Proof.
  intros H1 H2. revert s. induction X as [|c X IH]; intros s Hfix; cbn [map sflag]; [reflexivity|].
  assert (E : step_state pf pt s (D c) = step_state pf pt s c).
  { unfold step_state. assert (I : forall q, is_at q (D c) = is_at q c) by (intros [|tk' off']; [reflexivity|]; unfold is_at; now rewrite H1, H2).
    now rewrite !I. }
  assert (Eid : cid_eqb (D c) tk off = cid_eqb c tk off) by (unfold cid_eqb; now rewrite H1, H2).
  rewrite E, Eid, IH by (intros x Hx; apply Hfix; now right).
  destruct (cid_eqb c tk off) eqn:Ec; [|now rewrite !andb_false_r].
  now rewrite (Hfix c (or_introl eq_refl) Ec).
Qed.
End FlagLemmas.

Theorem style_edit_commute_live pfa pta opsa ta va pfb ptb valsb tb vb l lb A :
  ids_distinct l -> (forall c, In c l -> c_tk c <> tb) ->
  honest pfa pta ta va l -> honest pfb ptb tb vb l ->
  pos_tk_ne pfa tb -> pos_tk_ne pta tb -> known va tb = false ->
  edit pfb ptb valsb tb vb l = Some lb ->
  exists A1 A2,
    style pfa pta opsa ta va lb A = Some A1 /\ style pfa pta opsa ta va l A = Some A2 /\
    forall c, In c lb -> c_rm c = None -> attr_get A1 (c_tk c) (c_off c) = attr_get A2 (c_tk c) (c_off c).
Proof.
  intros Hd Hfresh Ha Hb Nfa Nta Ka He.
  pose proof (edit_ids_distinct _ _ _ _ _ _ _ Hd Hfresh He) as Hdb.
  rewrite (edit_is_hedit _ _ valsb _ _ _ Hb) in He.
  pose proof (honest_preserved _ _ _ _ _ _ _ _ _ _ _ Ha He Nfa Nta Ka) as Ha'.
  rewrite (style_is_hstyle _ _ opsa _ _ _ A Ha'), (style_is_hstyle _ _ opsa _ _ _ A Ha).
  eexists _, _. split; [reflexivity|]. split; [reflexivity|].
  intros c' Hc' Hlive. unfold hstyle. rewrite (sscan_get _ _ _ _ _ lb Hdb), (sscan_get _ _ _ _ _ l Hd).
  assert (Hflag : sflag pfa pta (can_style ta va) (init_state pfa pta) lb (c_tk c') (c_off c') =
                  sflag pfa pta (can_style ta va) (init_state pfa pta) l (c_tk c') (c_off c')); [|now rewrite Hflag].
  (* the shape of lb *)
  destruct Hb as [(fa & mid & tr0 & -> & Ef & Et) _]. unfold hedit in He.
  rewrite (delr_decomp pfb ptb _ fa mid tr0 Ef Et) in He. rewrite (ins_decomp pfb tb _ fa _ Ef) in He. injection He as <-.
  set (D := del_ch tb vb) in *. set (Bb := mkblock tb 0 valsb) in *.
  assert (HBb : all_tk tb Bb) by apply mkblock_tk.
  assert (Bp : forall c, In c Bb -> can_style ta va c = false) by (intros c Hc; unfold can_style; now rewrite (HBb c Hc), Ka).
  assert (Bf : forall c, In c Bb -> is_at pfa c = false) by (intros c Hc; eapply is_at_other; eauto).
  assert (Bt : forall c, In c Bb -> is_at pta c = false) by (intros c Hc; eapply is_at_other; eauto).
  rewrite !sflag_app. f_equal.
  rewrite (sflag_place pfa pta _ _ tb Bb _ _ _ Bp Bf Bt).
  rewrite !sflag_app. rewrite (states_map pfa pta D mid _ (del_ch_tk tb vb) (del_ch_off tb vb)). f_equal.
  apply sflag_map; [apply del_ch_tk|apply del_ch_off|].
  (* a character of mid with the id of a visible character of lb was not tombstoned *)
  intros c Hc Hid.
  assert (HDc : In (D c) (fa ++ place tb Bb (map D mid ++ tr0))).
  { apply in_or_app. right. pose proof (place_inserted tb Bb (map D mid ++ tr0)) as Hins.
    assert (G : forall b l0 r0 x, inserted b l0 r0 -> In x l0 -> In x r0).
    { intros b l0 r0 x H. induction H as [l1|y l1 l1' H IH]; intros Hx; [apply in_or_app; now right|].
      destruct Hx as [->|Hx]; [now left|right; now apply IH]. }
    apply (G _ _ _ _ Hins). apply in_or_app. left. now apply in_map. }
  assert (Esame : D c = c').
  { unfold ids_distinct in Hdb.
    assert (G : forall (l0 : list tch) x y, NoDup (map (fun c => (c_tk c, c_off c)) l0) -> In x l0 -> In y l0 ->
                (c_tk x, c_off x) = (c_tk y, c_off y) -> x = y).
    { induction l0 as [|w l0 IHg]; intros x y Hn Hx Hy Hxy; [destruct Hx|].
      cbn [map] in Hn. apply NoDup_cons_iff in Hn. destruct Hn as [Hni Hn].
      destruct Hx as [<-|Hx], Hy as [<-|Hy]; auto.
      - exfalso. apply Hni. rewrite Hxy. now apply (in_map (fun c => (c_tk c, c_off c))).
      - exfalso. apply Hni. rewrite <- Hxy. now apply (in_map (fun c => (c_tk c, c_off c))). }
    apply (G _ _ _ Hdb HDc Hc'). unfold D. rewrite del_ch_tk, del_ch_off. apply cid_eqb_true in Hid. exact Hid. }
  (* D c is live, so D left c alone *)
  rewrite <- Esame in Hlive. unfold D, del_ch in *. destruct (known vb (c_tk c)); [|reflexivity].
  destruct (c_rm c) as [r|] eqn:Er; [|cbn in Hlive; discriminate].
  destruct (negb (known vb r) && tafter tb r); [cbn in Hlive; discriminate|reflexivity].
Qed.

(* the premises are met: "abc" with a tombstone, a style over all of it by an author who knows the
   tombstone, a concurrent style by one who does not, and the concurrent edit of TextProofs *)
Definition ex_sa := style PHead (PAfter (mkT 1 1%N 0%N) 2) [APut 1%N 7 ex_ta] ex_ta ex_va.
Definition ex_sb := style PHead (PAfter (mkT 1 1%N 0%N) 1) [APut 1%N 9 ex_tb; ARemove 2%N ex_tb] ex_tb ex_vb.

Example style_premises_hold :
  ids_distinct ex_text /\ honest PHead (PAfter (mkT 1 1%N 0%N) 2) ex_ta ex_va ex_text /\
  option_map (fun A => map (fun c => rht_elements (attr_get A (c_tk c) (c_off c))) ex_text)
    (match ex_sa ex_text [] with Some A => ex_sb ex_text A | None => None end) =
  Some [[(1%N, 7)]; [(1%N, 7)]; [(1%N, 7)]].
Proof.
  split; [|split; [|vm_compute; reflexivity]].
  - unfold ids_distinct, ex_text. cbn [map c_tk c_off].
    repeat (constructor; [cbn; intros H; repeat (destruct H as [H|H]; [discriminate H|]); exact H|]). constructor.
  - split.
    + exists [], ex_text, []. split; [reflexivity|]. split; [reflexivity|].
      exists [mkCh (mkT 1 1%N 0%N) 0 97 None; mkCh (mkT 1 1%N 0%N) 1 98 (Some ex_r)], (mkCh (mkT 1 1%N 0%N) 2 99 None).
      repeat split. intros x [<-|[<-|[]]]; reflexivity.
    + intros c [<-|[<-|[<-|[]]]]; vm_compute; discriminate.
Qed.
