(* PubSubProofs.v — no event is lost for a subscriber that subscribed before the
   publish started and has not started to unsubscribe; the map entry goes away
   when the last subscriber has left. *)
From Coq Require Import List Arith Bool Lia.
From YV Require Import Conc.PubSub.
Import ListNotations.

(* ---------- objects ---------- *)
Lemma find_upd_same l o f x : find_obj l o = Some x -> (o_id (f x) = o_id x) ->
  find_obj (upd_obj l o f) o = Some (f x).
Proof.
  induction l as [|y l IH]; intros H Hid; [discriminate|]. cbn in *.
  destruct (Nat.eqb_spec (o_id y) o) as [E|E].
  - injection H as ->. cbn. rewrite Hid. now apply Nat.eqb_eq in E as ->.
  - cbn. apply Nat.eqb_neq in E. rewrite E. now apply IH.
Qed.

Lemma find_upd_other l o o' f : o <> o' -> (forall x, o_id (f x) = o_id x) ->
  find_obj (upd_obj l o f) o' = find_obj l o'.
Proof.
  intros Hne Hid. induction l as [|y l IH]; [reflexivity|]. cbn.
  destruct (Nat.eqb_spec (o_id y) o) as [E|E]; cbn.
  - rewrite Hid. destruct (Nat.eqb_spec (o_id y) o'); [congruence|reflexivity].
  - destruct (Nat.eqb (o_id y) o'); [reflexivity|exact IH].
Qed.

Lemma find_upd_none l o f o' : find_obj l o' = None -> (forall x, o_id (f x) = o_id x) -> find_obj (upd_obj l o f) o' = None.
Proof.
  intros H Hid. induction l as [|y l IH]; [reflexivity|]. cbn in *.
  destruct (Nat.eqb_spec (o_id y) o'); [discriminate|].
  destruct (Nat.eqb (o_id y) o); cbn; [rewrite Hid|]; destruct (Nat.eqb_spec (o_id y) o'); try contradiction; auto.
Qed.

Lemma mem_In x l : mem x l = true <-> In x l.
Proof.
  unfold mem. rewrite existsb_exists. split.
  - intros (y & Hy & E). apply Nat.eqb_eq in E. now subst.
  - intros H. exists x. split; [assumption|apply Nat.eqb_refl].
Qed.

Lemma in_remove_other x y l : x <> y -> In y l -> In y (remove x l).
Proof. intros Hne H. unfold remove. apply filter_In. split; [assumption|]. apply negb_true_iff, Nat.eqb_neq. exact Hne. Qed.

(* ---------- pending lists ---------- *)
Lemma take_pend_unique {A} (l : list (nat * A)) k a :
  In (k, a) l -> (forall b, In (k, b) l -> b = a) -> exists rest, take_pend l k = Some (a, rest) /\
  (forall k' b, k' <> k -> In (k', b) l -> In (k', b) rest).
Proof.
  induction l as [|[k' b] l IH]; intros Hin Hu; [destruct Hin|]. cbn.
  destruct (Nat.eqb_spec k' k) as [->|Hne].
  - assert (b = a) by (apply Hu; now left). subst. exists l. split; [reflexivity|].
    intros k2 b2 Hk [E|H]; [congruence|assumption].
  - destruct Hin as [E|Hin]; [congruence|].
    destruct (IH Hin) as (rest & -> & Hr); [intros b' Hb; apply Hu; now right|].
    exists ((k', b) :: rest). split; [reflexivity|].
    intros k2 b2 Hk [E|H]; [now left|right; now apply Hr].
Qed.

Lemma take_pend_other {A} (l : list (nat * A)) k k' a b rest :
  take_pend l k = Some (a, rest) -> k' <> k -> In (k', b) l -> In (k', b) rest.
Proof.
  revert rest. induction l as [|[k2 b2] l IH]; intros rest H Hne Hin; [discriminate|]. cbn in H.
  destruct (Nat.eqb_spec k2 k) as [->|Hk].
  - injection H as <- <-. destruct Hin as [E|Hin]; [congruence|assumption].
  - destruct (take_pend l k) as [[a' r']|] eqn:E; [|discriminate]. injection H as <- <-.
    destruct Hin as [E2|Hin]; [now left|right; eapply IH; eauto].
Qed.

Lemma take_pend_subset {A} (l : list (nat * A)) k a rest p :
  take_pend l k = Some (a, rest) -> In p rest -> In p l.
Proof.
  revert rest. induction l as [|[k2 b2] l IH]; intros rest H Hin; [discriminate|]. cbn in H.
  destruct (Nat.eqb_spec k2 k) as [->|Hk].
  - injection H as <- <-. now right.
  - destruct (take_pend l k) as [[a' r']|] eqn:E; [|discriminate]. injection H as <- <-.
    destruct Hin as [E2|Hin]; [now left|right; eapply IH; eauto].
Qed.

(* ---------- invariant: a Subscriptions object with members is the current entry and open ---------- *)
Definition Inv (t : st) : Prop :=
  (forall x, In x (objs t) -> o_id x < next t) /\
  (forall o x, find_obj (objs t) o = Some x -> o_members x <> [] -> entry t = Some o /\ o_open x = true) /\
  (forall o, entry t = Some o -> exists x, find_obj (objs t) o = Some x /\ o_open x = true).

Lemma find_obj_In l o x : find_obj l o = Some x -> In x l /\ o_id x = o.
Proof.
  induction l as [|y l IH]; [discriminate|]. cbn. destruct (Nat.eqb_spec (o_id y) o).
  - intros H. injection H as ->. auto.
  - intros H. destruct (IH H). auto.
Qed.

Lemma In_upd l o f y : In y (upd_obj l o f) -> In y l \/ exists x, In x l /\ y = f x.
Proof.
  induction l as [|z l IH]; [intros []|]. cbn. destruct (Nat.eqb (o_id z) o); cbn.
  - intros [<-|H]; [right; exists z; auto|left; auto].
  - intros [<-|H]; [left; auto|]. destruct (IH H) as [H1|(x & Hx & ->)]; [left; auto|right; exists x; auto].
Qed.

Lemma find_fresh l o : (forall x, In x l -> o_id x < o) -> find_obj l o = None.
Proof.
  induction l as [|y l IH]; intros H; [reflexivity|]. cbn.
  destruct (Nat.eqb_spec (o_id y) o) as [E|E]; [specialize (H y (or_introl eq_refl)); lia|].
  apply IH. intros x Hx. apply H. now right.
Qed.

Lemma inv_upd t o f t' : Inv t -> entry t' = entry t -> next t' = next t -> objs t' = upd_obj (objs t) o f ->
  (forall x, o_id (f x) = o_id x) -> (forall x, o_open (f x) = o_open x) ->
  (forall x, find_obj (objs t) o = Some x -> o_members (f x) <> [] ->
             o_members x <> [] \/ (entry t = Some o /\ o_open x = true)) ->
  Inv t'.
Proof.
  intros (Hn & Hm & He) Ee En Eo Hid Hop Hmem. unfold Inv. rewrite Ee, En, Eo. split; [|split].
  - intros y Hy. destruct (In_upd _ _ _ _ Hy) as [H|(z & Hz & ->)]; [now apply Hn|rewrite Hid; now apply Hn].
  - intros o' x' Hf Hne. destruct (Nat.eq_dec o o') as [<-|Hno].
    + destruct (find_obj (objs t) o) as [x|] eqn:F.
      * rewrite (find_upd_same _ _ _ _ F (Hid x)) in Hf. injection Hf as <-. rewrite Hop.
        destruct (Hmem x eq_refl Hne) as [H|[H1 H2]]; [now apply (Hm o x F)|auto].
      * rewrite find_upd_none in Hf by auto. discriminate.
    + rewrite find_upd_other in Hf by auto. now apply (Hm o' x' Hf).
  - intros o' Eo'. destruct (He o' Eo') as (x & Hx & Ho). destruct (Nat.eq_dec o o') as [<-|Hno].
    + exists (f x). split; [now apply find_upd_same|]. now rewrite Hop.
    + exists x. split; [|exact Ho]. now rewrite find_upd_other.
Qed.

Lemma inv_same t t' : Inv t -> entry t' = entry t -> next t' = next t -> objs t' = objs t -> Inv t'.
Proof. intros H E1 E2 E3. unfold Inv. now rewrite E1, E2, E3. Qed.

Lemma inv_step t a : Inv t -> Inv (step t a).
Proof.
  intros HI. pose proof HI as (Hn & Hm & He). destruct a; cbn [step].
  - (* subscribe *)
    destruct (entry t) as [o|] eqn:E.
    + destruct (He o eq_refl) as (x & Hx & Ho).
      eapply (inv_upd t o); try exact HI; try reflexivity; cbn [entry next objs]; auto.
      intros x' Hx' _. right. rewrite Hx in Hx'. injection Hx' as <-. auto.
    + unfold Inv. cbn [entry objs next]. split; [|split].
      * intros y [<-|Hy]; cbn; [lia|]. specialize (Hn y Hy). lia.
      * intros o x Hf Hne. cbn in Hf. destruct (Nat.eqb_spec (next t) o) as [<-|Hno].
        -- injection Hf as <-. auto.
        -- destruct (Hm o x Hf Hne) as [Hc _]. congruence.
      * intros o Eo. injection Eo as <-. exists (mkObj (next t) [s] true []). cbn. now rewrite Nat.eqb_refl.
  - now apply (inv_same t).
  - now apply (inv_same t).
  - (* unsub remove *)
    destruct (take_pend (pend_unsub t) s) as [[[o|] rest]|]; [| now apply (inv_same t) | exact HI].
    eapply (inv_upd t o); try exact HI; try reflexivity; cbn [entry next objs]; auto.
    intros x Hx Hne. left. intros Hnil. apply Hne. cbn. now rewrite Hnil.
  - (* drop *)
    destruct (entry t) as [o|] eqn:E; [|exact HI].
    destruct (find_obj (objs t) o) as [x|] eqn:F; [|exact HI].
    destruct (o_members x) eqn:M; [|exact HI].
    unfold Inv. cbn [entry objs next]. split; [|split].
    + intros y Hy. destruct (In_upd _ _ _ _ Hy) as [H|(z & Hz & ->)]; [now apply Hn|cbn; now apply Hn].
    + intros o' x' Hf Hne. destruct (Nat.eq_dec o o') as [<-|Hno].
      * rewrite (find_upd_same (objs t) o (fun x => mkObj (o_id x) [] false []) x F eq_refl) in Hf.
        injection Hf as <-. cbn in Hne. contradiction.
      * rewrite find_upd_other in Hf by auto. destruct (Hm _ _ Hf Hne) as [Hc _]. congruence.
    + intros o' Eo. discriminate.
  - now apply (inv_same t).
  - (* enqueue *)
    destruct (take_pend (pend_pub t) e) as [[[o|] rest]|]; [| now apply (inv_same t) | exact HI].
    eapply (inv_upd t o); try exact HI; try reflexivity; cbn [entry next objs]; auto.
  - (* flush *)
    destruct (find_obj (objs t) o) as [x|] eqn:F; [|exact HI].
    destruct (o_open x) eqn:Op; [|exact HI].
    eapply (inv_upd t o); try exact HI; try reflexivity; cbn [entry next objs]; auto.
    intros x' Hx' Hne. left. intros Hnil. apply Hne. cbn. now rewrite Hnil.
  - now apply (inv_same t).
Qed.

Lemma inv_init : Inv init.
Proof. repeat split; cbn; intros; try contradiction; discriminate. Qed.

Lemma inv_run tr : forall t, Inv t -> Inv (run t tr).
Proof. induction tr as [|a tr IH]; intros t H; [exact H|]. cbn. apply IH. now apply inv_step. Qed.

(* ---------- no leak ---------- *)
(* once no Subscriptions object has a member, the Delete callback removes the entry *)
Theorem drop_when_empty t : Inv t -> (forall x, In x (objs t) -> o_members x = []) -> entry (step t AUnsubDrop) = None.
Proof.
  intros (_ & _ & He) Hempty. cbn. destruct (entry t) as [o|] eqn:E; [|exact E].
  destruct (He o eq_refl) as (x & Hx & _). rewrite Hx.
  destruct (find_obj_In _ _ _ Hx) as [Hi _]. rewrite (Hempty x Hi). reflexivity.
Qed.

(* ---------- no lost event ---------- *)
(* s is tracked for event e: its channel is closed, or e was delivered, or s is a member of an
   open object that has e queued or about to be queued by a Publish that already did its Get *)
Definition Tracked (s : sid) (e : ev) (t : st) : Prop :=
  In s (closed t) \/ In (s, e) (got t) \/
  exists o x, find_obj (objs t) o = Some x /\ In s (o_members x) /\ o_open x = true /\
              (In e (o_queue x) \/ (In (e, Some o) (pend_pub t) /\ forall b, In (e, b) (pend_pub t) -> b = Some o)).

Definition touches (s : sid) (e : ev) (a : act) : bool :=
  match a with
  | AUnsubRemove s' => Nat.eqb s s'
  | APubGet e' => Nat.eqb e e'
  | _ => false
  end.

Ltac prj := cbn [entry objs closed got pend_pub pend_unsub next].

Lemma tracked_step s e t a : Inv t -> Tracked s e t -> touches s e a = false -> Tracked s e (step t a).
Proof.
  intros HI [Hc|[Hg|(o & x & Hx & Hs & Ho & Hq)]] Ht.
  - left. destruct a; cbn [step]; repeat match goal with |- context [match ?m with _ => _ end] => destruct m end; cbn; auto.
  - right; left. destruct a; cbn [step]; repeat match goal with |- context [match ?m with _ => _ end] => destruct m end; cbn; auto.
    unfold flush_obj. prj. cbn [fst snd o_id o_members o_open o_queue]. apply in_or_app. now right.
  - destruct HI as (Hn & Hm & He).
    assert (Hcur : entry t = Some o) by (apply (Hm o x Hx); intros E; rewrite E in Hs; destruct Hs).
    destruct a; cbn [step].
    + (* subscribe: into the current entry, which is o *)
      rewrite Hcur. right; right. exists o. eexists. prj. split; [now apply (find_upd_same _ _ _ _ Hx)|]. cbn.
      repeat split; auto.
    + right; right. exists o, x. prj. auto.
    + right; right. exists o, x. prj. auto.
    + (* somebody else's remove *)
      cbn in Ht. apply Nat.eqb_neq in Ht.
      destruct (take_pend (pend_unsub t) s0) as [[[o'|] rest]|]; prj; [| |right; right; exists o, x; prj; auto].
      * right; right. destruct (Nat.eq_dec o' o) as [->|Hne].
        -- exists o. eexists. prj. split; [now apply (find_upd_same _ _ _ _ Hx)|]. cbn.
           split; [apply in_remove_other; auto|]. auto.
        -- exists o, x. prj. split; [rewrite find_upd_other; auto|]. auto.
      * right; right. exists o, x. prj. auto.
    + (* drop: o has a member, nothing happens *)
      rewrite Hcur, Hx. destruct (o_members x) eqn:M; [destruct Hs|]. right; right. exists o, x. rewrite M. auto.
    + (* another event's Get *)
      cbn in Ht. apply Nat.eqb_neq in Ht. right; right. exists o, x. cbn. repeat split; auto.
      destruct Hq as [Hq|[Hp Hu]]; [now left|right]. split; [now right|].
      intros b [E|Hb]; [congruence|now apply Hu].
    + (* enqueue *)
      destruct (Nat.eq_dec e0 e) as [->|Hne].
      * destruct Hq as [Hq|[Hp Hu]].
        -- (* already queued: whatever this enqueue does, e stays queued *)
           destruct (take_pend (pend_pub t) e) as [[[o'|] rest]|]; prj; [| |right; right; exists o, x; prj; auto].
           ++ right; right. destruct (Nat.eq_dec o' o) as [->|Hne].
              ** exists o. eexists. prj. split; [now apply (find_upd_same _ _ _ _ Hx)|]. cbn. repeat split; auto.
                 left. apply in_or_app. now left.
              ** exists o, x. prj. split; [rewrite find_upd_other; auto|]. auto.
           ++ right; right. exists o, x. prj. auto.
        -- destruct (take_pend_unique _ _ _ Hp Hu) as (rest & -> & _). cbn.
           right; right. exists o. eexists. prj. split; [now apply (find_upd_same _ _ _ _ Hx)|]. cbn.
           repeat split; auto. left. apply in_or_app. right. now left.
      * destruct (take_pend (pend_pub t) e0) as [[[o'|] rest]|] eqn:T; prj; [| |right; right; exists o, x; prj; auto].
        -- right; right. destruct (Nat.eq_dec o' o) as [->|Hno].
           ++ exists o. eexists. prj. split; [now apply (find_upd_same _ _ _ _ Hx)|]. cbn. repeat split; auto.
              destruct Hq as [Hq|[Hp Hu]]; [left; apply in_or_app; now left|right].
              split; [eapply take_pend_other; eauto|]. intros b Hb. apply Hu. eapply take_pend_subset; eauto.
           ++ exists o, x. prj. split; [rewrite find_upd_other; auto|]. repeat split; auto.
              destruct Hq as [Hq|[Hp Hu]]; [now left|right].
              split; [eapply take_pend_other; eauto|]. intros b Hb. apply Hu. eapply take_pend_subset; eauto.
        -- right; right. exists o, x. prj. repeat split; auto.
           destruct Hq as [Hq|[Hp Hu]]; [now left|right].
           split; [eapply take_pend_other; eauto|]. intros b Hb. apply Hu. eapply take_pend_subset; eauto.
    + (* flush *)
      destruct (find_obj (objs t) o0) as [x0|] eqn:F; [|right; right; exists o, x; prj; auto].
      destruct (o_open x0) eqn:Op0; [|right; right; exists o, x; prj; auto].
      unfold flush_obj. prj. cbn [fst snd o_id o_members o_open o_queue].
      destruct (Nat.eq_dec o0 o) as [->|Hne].
      * rewrite Hx in F. injection F as <-.
        destruct (mem s (closed t)) eqn:Mc; [left; now apply mem_In|].
        destruct Hq as [Hq|[Hp Hu]].
        -- right; left. apply in_or_app. left. apply in_flat_map. exists s. split.
           ++ apply filter_In. split; [assumption|]. now rewrite Mc.
           ++ apply in_map_iff. exists e. split; [reflexivity|now apply -> in_rev].
        -- right; right. exists o. eexists. prj. split; [now apply (find_upd_same _ _ _ _ Hx)|]. cbn.
           split; [apply filter_In; split; [assumption|now rewrite Mc]|]. auto.
      * right; right. exists o, x. prj. split; [rewrite find_upd_other; auto; intros; cbn; now destruct (find_obj_In _ _ _ F)|]. auto.
    + right; right. exists o, x. prj. auto.
Qed.

Lemma tracked_run s e tr : forall t, Inv t -> Tracked s e t -> forallb (fun a => negb (touches s e a)) tr = true ->
  Tracked s e (run t tr).
Proof.
  induction tr as [|a tr IH]; intros t HI HT Hf; [exact HT|]. cbn in Hf. apply andb_true_iff in Hf as [Ha Hf].
  cbn. apply IH; [now apply inv_step| |exact Hf]. apply tracked_step; auto. now apply negb_true_iff.
Qed.

(* subscribe, then (later) the Get of a publish: from then on s is tracked for e *)
Lemma subscribe_member t s : Inv t -> exists o x, entry (step t (ASubscribe s)) = Some o /\
  find_obj (objs (step t (ASubscribe s))) o = Some x /\ In s (o_members x) /\ o_open x = true.
Proof.
  intros (Hn & Hm & He). cbn [step]. destruct (entry t) as [o|] eqn:E.
  - destruct (He o eq_refl) as (x & Hx & Ho). exists o. eexists. prj. split; [reflexivity|].
    split; [now apply (find_upd_same _ _ _ _ Hx)|]. cbn. auto.
  - exists (next t). eexists. prj. split; [reflexivity|]. split; [cbn; now rewrite Nat.eqb_refl|]. cbn. auto.
Qed.

Definition Member (s : sid) (t : st) : Prop :=
  In s (closed t) \/ exists o x, entry t = Some o /\ find_obj (objs t) o = Some x /\ In s (o_members x) /\ o_open x = true.

Definition unsub_of (s : sid) (a : act) : bool := match a with AUnsubRemove s' => Nat.eqb s s' | _ => false end.

Lemma member_step s t a : Inv t -> Member s t -> unsub_of s a = false -> Member s (step t a).
Proof.
  intros HI [Hc|(o & x & Hcur & Hx & Hs & Ho)] Ht.
  - left. destruct a; cbn [step]; repeat match goal with |- context [match ?m with _ => _ end] => destruct m end; cbn; auto.
  - destruct HI as (Hn & Hm & He). destruct a; cbn [step].
    + rewrite Hcur. right. exists o. eexists. prj. split; [reflexivity|]. split; [now apply (find_upd_same _ _ _ _ Hx)|]. cbn. auto.
    + right. exists o, x. prj. auto.
    + right. exists o, x. prj. auto.
    + cbn in Ht. apply Nat.eqb_neq in Ht.
      destruct (take_pend (pend_unsub t) s0) as [[[o'|] rest]|]; prj; [| |right; exists o, x; prj; auto].
      * right. destruct (Nat.eq_dec o' o) as [->|Hne].
        -- exists o. eexists. prj. split; [exact Hcur|]. split; [now apply (find_upd_same _ _ _ _ Hx)|]. cbn.
           split; [apply in_remove_other; auto|auto].
        -- exists o, x. prj. split; [exact Hcur|]. split; [rewrite find_upd_other; auto|auto].
      * right. exists o, x. prj. auto.
    + rewrite Hcur, Hx. destruct (o_members x) eqn:M; [destruct Hs|]. right. exists o, x. rewrite M. auto.
    + right. exists o, x. prj. auto.
    + destruct (take_pend (pend_pub t) e) as [[[o'|] rest]|]; prj; [| |right; exists o, x; prj; auto].
      * right. destruct (Nat.eq_dec o' o) as [->|Hne].
        -- exists o. eexists. prj. split; [exact Hcur|]. split; [now apply (find_upd_same _ _ _ _ Hx)|]. cbn. auto.
        -- exists o, x. prj. split; [exact Hcur|]. split; [rewrite find_upd_other; auto|auto].
      * right. exists o, x. prj. auto.
    + destruct (find_obj (objs t) o0) as [x0|] eqn:F; [|right; exists o, x; prj; auto].
      destruct (o_open x0) eqn:Op0; [|right; exists o, x; prj; auto].
      unfold flush_obj. prj. cbn [fst snd o_id o_members o_open o_queue]. destruct (Nat.eq_dec o0 o) as [->|Hne].
      * rewrite Hx in F. injection F as <-. destruct (mem s (closed t)) eqn:Mc; [left; now apply mem_In|].
        right. exists o. eexists. prj. split; [exact Hcur|]. split; [now apply (find_upd_same _ _ _ _ Hx)|]. cbn.
        split; [apply filter_In; split; [assumption|now rewrite Mc]|exact Ho].
      * right. exists o, x. prj. split; [exact Hcur|]. split; [rewrite find_upd_other; auto; intros; cbn; now destruct (find_obj_In _ _ _ F)|auto].
    + right. exists o, x. prj. auto.
Qed.

Lemma member_run s tr : forall t, Inv t -> Member s t -> forallb (fun a => negb (unsub_of s a)) tr = true -> Member s (run t tr).
Proof.
  induction tr as [|a tr IH]; intros t HI HM Hf; [exact HM|]. cbn in Hf. apply andb_true_iff in Hf as [Ha Hf].
  cbn. apply IH; [now apply inv_step| |exact Hf]. apply member_step; auto. now apply negb_true_iff.
Qed.

Definition fresh_event (e : ev) (tr : list act) : bool :=
  forallb (fun a => match a with APubGet e' => negb (Nat.eqb e e') | _ => true end) tr.

Lemma no_pending_of_fresh e tr : forall t, (forall b, ~ In (e, b) (pend_pub t)) -> fresh_event e tr = true ->
  forall b, ~ In (e, b) (pend_pub (run t tr)).
Proof.
  induction tr as [|a tr IH]; intros t H Hf; [exact H|]. cbn in Hf. apply andb_true_iff in Hf as [Ha Hf].
  cbn. apply IH; [|exact Hf]. intros b.
  destruct a; cbn [step]; repeat match goal with |- context [match ?m with _ => _ end] => destruct m eqn:? end; cbn; try apply H.
  - intros [E|Hb]; [injection E as <- _; apply negb_true_iff, Nat.eqb_neq in Ha; congruence|now apply (H b)].
  - intros Hb. apply (H b). eapply take_pend_subset; eauto.
  - intros Hb. apply (H b). eapply take_pend_subset; eauto.
Qed.

(* The statement.  A: anything; Subscribe(s) returns; B: anything but s's removal; Publish(e) starts
   (its Get); C: anything but s's removal and another Get of e; then whenever a flush of any object
   or any other action happens, s stays tracked: it has e, or will get it at the next tick of its
   object, or its channel was closed. *)
Theorem no_lost_event A s B e C :
  forallb (fun a => negb (unsub_of s a)) (B ++ C) = true ->
  fresh_event e (A ++ ASubscribe s :: B) = true -> fresh_event e C = true ->
  Tracked s e (run init (A ++ ASubscribe s :: B ++ APubGet e :: C)).
Proof.
  intros Hu Hf1 Hf2. unfold run. rewrite fold_left_app. cbn [fold_left]. rewrite fold_left_app. cbn [fold_left].
  fold (run init A). set (t0 := run init A).
  assert (I0 : Inv t0) by (apply inv_run, inv_init).
  fold (run (step t0 (ASubscribe s)) B). set (t1 := run (step t0 (ASubscribe s)) B).
  rewrite forallb_app in Hu. apply andb_true_iff in Hu as [HuB HuC].
  assert (I1 : Inv t1) by (apply inv_run, inv_step, I0).
  assert (M1 : Member s t1).
  { apply member_run; [now apply inv_step| |exact HuB].
    destruct (subscribe_member t0 s I0) as (o & x & H1 & H2 & H3 & H4). right. exists o, x. auto. }
  assert (P1 : forall b, ~ In (e, b) (pend_pub t1)).
  { unfold t1, t0. change (run (step (run init A) (ASubscribe s)) B) with (fold_left step B (step (fold_left step A init) (ASubscribe s))).
    replace (fold_left step B (step (fold_left step A init) (ASubscribe s))) with (run init (A ++ ASubscribe s :: B))
      by (unfold run; rewrite fold_left_app; reflexivity).
    apply no_pending_of_fresh; [cbn; auto|exact Hf1]. }
  fold (run (step t1 (APubGet e)) C).
  apply tracked_run; [now apply inv_step| |].
  - destruct M1 as [Hc|(o & x & Hcur & Hx & Hs & Ho)]; [left; exact Hc|].
    right; right. exists o, x. cbn. repeat split; auto. right. rewrite Hcur. split; [now left|].
    intros b [E|Hb]; [congruence|destruct (P1 b Hb)].
  - clear - HuC Hf2. induction C as [|a C IH]; [reflexivity|]. cbn in *.
    apply andb_true_iff in HuC as [H1 H2]. apply andb_true_iff in Hf2 as [H3 H4].
    apply andb_true_iff. split; [|now apply IH].
    destruct a; cbn in *; auto.
Qed.

(* and a tick of its object delivers it *)
Theorem flush_delivers s e t o x : Inv t -> find_obj (objs t) o = Some x -> In s (o_members x) -> o_open x = true ->
  In e (o_queue x) -> In s (closed t) \/ In (s, e) (got (step t (AFlush o))).
Proof.
  intros _ Hx Hs Ho Hq. cbn. rewrite Hx, Ho. unfold flush_obj. cbn.
  destruct (mem s (closed t)) eqn:Mc; [left; now apply mem_In|]. right.
  apply in_or_app. left. apply in_flat_map. exists s. split.
  - apply filter_In. split; [assumption|now rewrite Mc].
  - apply in_map_iff. exists e. split; [reflexivity|now apply -> in_rev].
Qed.

(* non-vacuity *)
Example demo_trace :
  let t := run init [ASubscribe 1; ASubscribe 2; APubGet 7; AUnsubClose 2; AUnsubGet 2; APubEnqueue 7; AUnsubRemove 2; AUnsubDrop; AFlush 0] in
  received t 1 = [7] /\ client_ids t = [1].
Proof. vm_compute. auto. Qed.
