(* HistProofs.v — undo restores the previous content and redo the undone one, to
   any depth within the stack capacity, for every executor whose reverse
   operations invert exactly on valid contents; the content edits of Content.v
   are such an executor. *)
From Coq Require Import List Arith ZArith Bool Lia.
From YV Require Import Hist.History Hist.Content.
Import ListNotations.
Open Scope nat_scope.

Section Generic.
  Variables (St Op : Type).
  Variable exec : St -> Op -> St * Op.
  Variable Valid : St -> Prop.
  Hypothesis valid_step : forall s o, Valid s -> Valid (fst (exec s o)).
  Hypothesis exec_inv : forall s o s' r, Valid s -> exec s o = (s', r) -> exec s' r = (s, o).

  Notation run_entry := (run_entry St Op exec).
  Notation hist := (hist St Op).
  Notation do_update := (do_update St Op exec).
  Notation do_undo := (do_undo St Op exec).
  Notation do_redo := (do_redo St Op exec).
  Notation iter_opt := (iter_opt St Op).

  Lemma run_entry_app a b : forall s acc,
    run_entry s (a ++ b) acc = let '(s1, acc1) := run_entry s a acc in run_entry s1 b acc1.
  Proof.
    induction a as [|o a IH]; intros s acc; cbn; [reflexivity|].
    destruct (exec s o) as [s' r]. apply IH.
  Qed.

  Lemma run_entry_valid ops : forall s acc, Valid s -> Valid (fst (run_entry s ops acc)).
  Proof.
    induction ops as [|o ops IH]; intros s acc Hv; cbn; [exact Hv|].
    destruct (exec s o) as [s' r] eqn:E. apply IH. change s' with (fst (s', r)). rewrite <- E. now apply valid_step.
  Qed.

  Lemma run_entry_inv ops : forall s acc s' e, Valid s -> run_entry s ops acc = (s', e) ->
    exists rs, e = rs ++ acc /\ forall acc2, run_entry s' rs acc2 = (s, ops ++ acc2).
  Proof.
    induction ops as [|o ops IH]; intros s acc s' e Hv H; cbn in H.
    - injection H as <- <-. exists []. split; [reflexivity|]. intros; reflexivity.
    - destruct (exec s o) as [s1 r1] eqn:E.
      assert (Hv1 : Valid s1) by (change s1 with (fst (s1, r1)); rewrite <- E; now apply valid_step).
      destruct (IH _ _ _ _ Hv1 H) as (rs & -> & Hrs).
      exists (rs ++ [r1]). split; [now rewrite <- app_assoc|].
      intros acc2. rewrite run_entry_app, Hrs. cbn. rewrite (exec_inv _ _ _ _ Hv E). reflexivity.
  Qed.

  (* executing the reverse entry restores the content and yields the original entry *)
  Lemma entry_inv s ops s' e : Valid s -> run_entry s ops [] = (s', e) -> run_entry s' e [] = (s, ops).
  Proof.
    intros Hv H. destruct (run_entry_inv _ _ _ _ _ Hv H) as (rs & -> & Hrs).
    rewrite app_nil_r. now rewrite Hrs, app_nil_r.
  Qed.

  (* popping the entries of a stack one after another visits these contents *)
  Inductive chain : St -> list (list Op) -> list St -> Prop :=
  | ch_nil s : chain s [] []
  | ch_cons s e rest b bs fwd : run_entry s e [] = (b, fwd) -> Valid b -> chain b rest bs -> chain s (e :: rest) (b :: bs).

  Lemma chain_firstn n : forall s st ts, chain s st ts -> chain s (firstn n st) (firstn n ts).
  Proof.
    induction n as [|n IH]; intros s st ts H; [constructor|].
    inversion H; subst; cbn; [constructor|]. econstructor; eauto.
  Qed.

  Definition Inv (h : hist) (before after : list St) : Prop :=
    Valid (cur h) /\ chain (cur h) (undo h) before /\ chain (cur h) (redo h) after.

  Lemma inv_update h before after ops : Inv h before after -> ops <> [] ->
    Inv (do_update h ops) (firstn cap (cur h :: before)) [] /\
    cur (do_update h ops) = fst (run_entry (cur h) ops []).
  Proof.
    intros (Hv & Hu & _) Hne. unfold do_update.
    pose proof (run_entry_valid ops (cur h) [] Hv) as Hv'.
    destruct (run_entry (cur h) ops []) as [s' rev] eqn:E.
    destruct ops as [|o ops]; [contradiction|]. cbn [cur undo redo fst] in *. split; [|reflexivity].
    split; [exact Hv'|]. split; [|constructor]. unfold push. apply chain_firstn.
    econstructor; [apply (entry_inv _ _ _ _ Hv E)|exact Hv|exact Hu].
  Qed.

  Lemma inv_undo h x before after : Inv h (x :: before) after ->
    exists h', do_undo h = Some h' /\ cur h' = x /\ Inv h' before (firstn cap (cur h :: after)).
  Proof.
    intros (Hv & Hu & Hr). inversion Hu as [|s e rest b bs fwd He Hvb Hc Hs Hst Hts]; subst.
    unfold do_undo. rewrite <- Hst. rewrite He. eexists. split; [reflexivity|]. cbn [cur undo redo].
    split; [reflexivity|]. split; [exact Hvb|]. split; [exact Hc|]. unfold push. apply chain_firstn.
    econstructor; [apply (entry_inv _ _ _ _ Hv He)|exact Hv|exact Hr].
  Qed.

  Lemma inv_redo h before x after : Inv h before (x :: after) ->
    exists h', do_redo h = Some h' /\ cur h' = x /\ Inv h' (firstn cap (cur h :: before)) after.
  Proof.
    intros (Hv & Hu & Hr). inversion Hr as [|s e rest b bs fwd He Hvb Hc Hs Hst Hts]; subst.
    unfold do_redo. rewrite <- Hst. rewrite He. eexists. split; [reflexivity|]. cbn [cur undo redo].
    split; [reflexivity|]. split; [exact Hvb|]. split; [|exact Hc]. unfold push. apply chain_firstn.
    econstructor; [apply (entry_inv _ _ _ _ Hv He)|exact Hv|exact Hu].
  Qed.

  Lemma firstn_cap_id (x : St) l : length l < cap -> firstn cap (x :: l) = x :: l.
  Proof. intros H. apply firstn_all2. cbn. lia. Qed.

  Lemma undo_k_gen k : forall h before after, Inv h before after -> k <= length before -> length after + k <= cap ->
    exists h', iter_opt do_undo k h = Some h' /\
               cur h' = nth k (cur h :: before) (cur h) /\
               Inv h' (skipn k before) (rev (firstn k (cur h :: before)) ++ after).
  Proof.
    induction k as [|k IH]; intros h before after HI Hk Hc.
    - exists h. cbn. auto.
    - destruct before as [|x b]; [cbn in Hk; lia|].
      destruct (inv_undo _ _ _ _ HI) as (h1 & E1 & C1 & I1).
      rewrite firstn_cap_id in I1 by lia.
      destruct (IH h1 b (cur h :: after) I1) as (h' & E' & C' & I'); [cbn in Hk; lia|cbn; lia|].
      exists h'. cbn [History.iter_opt]. rewrite E1. split; [exact E'|]. split.
      + rewrite C', C1. change (nth (S k) (cur h :: x :: b) (cur h)) with (nth k (x :: b) (cur h)).
        apply nth_indep. cbn in Hk |- *. lia.
      + rewrite C1 in I'. cbn [skipn].
        replace (rev (firstn (S k) (cur h :: x :: b)) ++ after) with (rev (firstn k (x :: b)) ++ cur h :: after); [exact I'|].
        cbn [firstn rev]. now rewrite <- app_assoc.
  Qed.

  Lemma redo_j_gen j : forall h before after, Inv h before after -> j <= length after -> length before + j <= cap ->
    exists h', iter_opt do_redo j h = Some h' /\
               cur h' = nth j (cur h :: after) (cur h) /\
               Inv h' (rev (firstn j (cur h :: after)) ++ before) (skipn j after).
  Proof.
    induction j as [|j IH]; intros h before after HI Hj Hc.
    - exists h. cbn. auto.
    - destruct after as [|x a]; [cbn in Hj; lia|].
      destruct (inv_redo _ _ _ _ HI) as (h1 & E1 & C1 & I1).
      rewrite firstn_cap_id in I1 by lia.
      destruct (IH h1 (cur h :: before) a I1) as (h' & E' & C' & I'); [cbn in Hj; lia|cbn; lia|].
      exists h'. cbn [History.iter_opt]. rewrite E1. split; [exact E'|]. split.
      + rewrite C', C1. change (nth (S j) (cur h :: x :: a) (cur h)) with (nth j (x :: a) (cur h)).
        apply nth_indep. cbn in Hj |- *. lia.
      + rewrite C1 in I'. cbn [skipn].
        replace (rev (firstn (S j) (cur h :: x :: a)) ++ before) with (rev (firstn j (x :: a)) ++ cur h :: before); [exact I'|].
        cbn [firstn rev]. now rewrite <- app_assoc.
  Qed.

  Lemma nth_firstn_lt (d : St) n : forall k l, n < k -> nth n (firstn k l) d = nth n l d.
  Proof.
    induction n as [|n IHn]; intros [|k] [|y l] H; try lia; try reflexivity.
    cbn. apply IHn. lia.
  Qed.

  Lemma nth_rev_firstn (d : St) k : forall L, S k <= length L ->
    nth k L d :: rev (firstn k L) = rev (firstn (S k) L).
  Proof.
    induction k as [|k IHk]; intros [|y L] HL; cbn in HL; try lia; [reflexivity|].
    change (nth (S k) (y :: L) d) with (nth k L d).
    change (firstn (S k) (y :: L)) with (y :: firstn k L).
    change (firstn (S (S k)) (y :: L)) with (y :: firstn (S k) L).
    cbn [rev]. rewrite <- (IHk L) by lia. reflexivity.
  Qed.

  (* after k undos the content is the one recorded k steps back; from there j <= k redos
     give the one recorded k - j steps back *)
  Theorem undo_redo_restore h before k j : Inv h before [] -> length before <= cap -> k <= length before -> j <= k ->
    exists hk hj, iter_opt do_undo k h = Some hk /\ cur hk = nth k (cur h :: before) (cur h) /\
                  iter_opt do_redo j hk = Some hj /\ cur hj = nth (k - j) (cur h :: before) (cur h).
  Proof.
    intros HI Hcap Hk Hj.
    destruct (undo_k_gen k h before [] HI Hk) as (hk & Ek & Ck & Ik); [cbn; lia|].
    rewrite app_nil_r in Ik.
    assert (Hlen : length (firstn k (cur h :: before)) = k) by (apply firstn_length_le; cbn; lia).
    destruct (redo_j_gen j hk _ _ Ik) as (hj & Ej & Cj & _).
    { rewrite rev_length, Hlen. exact Hj. }
    { rewrite skipn_length. lia. }
    exists hk, hj. repeat split; try assumption.
    rewrite Cj, Ck.
    set (L := cur h :: before) in *.
    assert (HL : S k <= length L) by (unfold L; cbn; lia).
    pose proof (nth_rev_firstn (cur h) k L HL) as E.
    rewrite E. rewrite rev_nth by (rewrite firstn_length_le by lia; lia).
    rewrite firstn_length_le by lia.
    replace (S k - S j) with (k - j) by lia.
    rewrite (nth_indep _ _ (cur h)) by (rewrite firstn_length_le by lia; lia).
    apply nth_firstn_lt. lia.
  Qed.

  (* ---- a program of updates ---- *)
  (* the content after the program and the contents before each of its updates, nearest first *)
  Fixpoint prevs (s : St) (prog : list (list Op)) (acc : list St) : St * list St :=
    match prog with
    | [] => (s, acc)
    | ops :: r => prevs (fst (run_entry s ops [])) r (s :: acc)
    end.

  Lemma firstn_cap_cons (x : St) b : firstn cap (x :: firstn cap b) = firstn cap (x :: b).
  Proof.
    assert (G : forall n, firstn (S n) (x :: firstn (S n) b) = firstn (S n) (x :: b)).
    { intros n. change (firstn (S n) (x :: firstn (S n) b)) with (x :: firstn n (firstn (S n) b)).
      change (firstn (S n) (x :: b)) with (x :: firstn n b). f_equal.
      rewrite firstn_firstn. f_equal. lia. }
    apply (G 49).
  Qed.

  Lemma program_inv prog : forall h b, Inv h (firstn cap b) [] -> Forall (fun ops => ops <> []) prog ->
    Inv (fold_left do_update prog h) (firstn cap (snd (prevs (cur h) prog b))) [] /\
    cur (fold_left do_update prog h) = fst (prevs (cur h) prog b).
  Proof.
    induction prog as [|ops prog IH]; intros h b HI Hne; [cbn; auto|].
    inversion Hne as [|? ? Hops Hrest]; subst. cbn [fold_left prevs].
    destruct (inv_update h _ _ ops HI Hops) as [I1 C1].
    rewrite firstn_cap_cons in I1. rewrite <- C1. now apply IH.
  Qed.

  Theorem program_undo_redo s0 prog k j : Valid s0 -> Forall (fun ops => ops <> []) prog ->
    k <= length prog -> k <= cap -> j <= k ->
    let h := run_program St Op exec s0 prog in
    let trail := fst (prevs s0 prog []) :: snd (prevs s0 prog []) in
    exists hk hj, iter_opt do_undo k h = Some hk /\ cur hk = nth k trail s0 /\
                  iter_opt do_redo j hk = Some hj /\ cur hj = nth (k - j) trail s0.
  Proof.
    intros Hv Hne Hk Hc Hj h trail.
    assert (I0 : Inv (mkHist s0 [] []) (firstn cap []) []) by (repeat split; [exact Hv|constructor|constructor]).
    destruct (program_inv prog _ [] I0 Hne) as [I C]. cbn [cur] in I, C.
    fold (run_program St Op exec s0 prog) in I, C. fold h in I, C.
    assert (Hlen : forall p s acc, length (snd (prevs s p acc)) = length p + length acc).
    { induction p as [|o p IHp]; intros s acc; cbn; [reflexivity|]. rewrite IHp. cbn. lia. }
    assert (Hb : k <= length (firstn cap (snd (prevs s0 prog [])))).
    { rewrite firstn_length, Hlen. unfold cap in *. cbn [length]. lia. }
    destruct (undo_redo_restore h _ k j I) as (hk & hj & E1 & C1 & E2 & C2); [rewrite firstn_length; unfold cap; lia|exact Hb|exact Hj|].
    exists hk, hj. split; [exact E1|]. unfold trail. rewrite <- C.
    assert (Hn : forall i, i <= k -> nth i (cur h :: firstn cap (snd (prevs s0 prog []))) (cur h) = nth i (cur h :: snd (prevs s0 prog [])) s0).
    { intros [|i] Hi; [reflexivity|]. cbn [nth]. rewrite nth_firstn_lt by (unfold cap in *; lia). apply nth_indep. rewrite Hlen. cbn [length]. lia. }
    split; [rewrite C1; apply Hn; lia|]. split; [exact E2|]. rewrite C2. apply Hn. lia.
  Qed.
End Generic.

(* ---------- the content edits ---------- *)
From Coq Require Import ZifyBool.
Ltac Zify.zify_post_hook ::= Z.div_mod_to_equations.

Lemma wrap32_in x : in32 (wrap32 x).
Proof. unfold in32, wrap32. destruct (Z.ltb_spec (x mod 4294967296) 2147483648); lia. Qed.
Lemma wrap64_in x : in64 (wrap64 x).
Proof. unfold in64, wrap64. destruct (Z.ltb_spec (x mod 18446744073709551616) 9223372036854775808); lia. Qed.

Lemma wrap32_back c v : in32 c -> wrap32 (wrap32 (c + v) + - v) = c.
Proof.
  unfold in32, wrap32. cbv zeta. intros H.
  destruct (Z.ltb_spec ((c + v) mod 4294967296) 2147483648).
  - destruct (Z.ltb_spec (((c + v) mod 4294967296 + - v) mod 4294967296) 2147483648); lia.
  - destruct (Z.ltb_spec (((c + v) mod 4294967296 - 4294967296 + - v) mod 4294967296) 2147483648); lia.
Qed.
Lemma wrap64_back c v : in64 c -> wrap64 (wrap64 (c + v) + - v) = c.
Proof.
  unfold in64, wrap64. cbv zeta. intros H.
  destruct (Z.ltb_spec ((c + v) mod 18446744073709551616) 9223372036854775808).
  - destruct (Z.ltb_spec (((c + v) mod 18446744073709551616 + - v) mod 18446744073709551616) 9223372036854775808); lia.
  - destruct (Z.ltb_spec (((c + v) mod 18446744073709551616 - 18446744073709551616 + - v) mod 18446744073709551616) 9223372036854775808); lia.
Qed.

Open Scope Z_scope.

(* sorted object *)
Lemma sorted_tail a v r : sorted_keys ((a, v) :: r) -> sorted_keys r.
Proof. cbn. tauto. Qed.

Lemma sorted_lt_head a v r k w : sorted_keys ((a, v) :: r) -> oget r k = Some w -> a < k.
Proof.
  revert a v. induction r as [|[b u] r IH]; intros a v Hs H; [discriminate|].
  cbn in Hs. destruct Hs as [Hab Hs]. cbn in H. destruct (Z.eqb_spec b k); [lia|].
  pose proof (IH b u Hs H). lia.
Qed.

Lemma oget_oins m k v : oget (oins m k v) k = Some v.
Proof.
  induction m as [|[a w] m IH]; cbn; [now rewrite Z.eqb_refl|].
  destruct (Z.ltb_spec k a); cbn; [now rewrite Z.eqb_refl|].
  destruct (Z.eqb_spec a k); cbn; [now rewrite Z.eqb_refl|].
  destruct (Z.eqb_spec a k); [contradiction|exact IH].
Qed.

Lemma oget_odel m k : sorted_keys m -> oget (odel m k) k = None.
Proof.
  induction m as [|[a w] m IH]; intros Hs; [reflexivity|]. cbn.
  destruct (Z.eqb_spec a k) as [->|Hne].
  - destruct (oget m k) eqn:E; [|reflexivity]. pose proof (sorted_lt_head _ _ _ _ _ Hs E). lia.
  - cbn. destruct (Z.eqb_spec a k); [contradiction|]. apply IH. eapply sorted_tail; eauto.
Qed.

Lemma odel_absent m k : oget m k = None -> odel m k = m.
Proof.
  induction m as [|[a w] m IH]; intros H; [reflexivity|]. cbn in *.
  destruct (Z.eqb_spec a k); [discriminate|]. now rewrite IH.
Qed.

Lemma oins_present m k w : sorted_keys m -> oget m k = Some w -> oins m k w = m.
Proof.
  induction m as [|[a u] m IH]; intros Hs H; [discriminate|]. cbn in H |- *.
  destruct (Z.eqb_spec a k) as [->|Hne].
  - injection H as ->. destruct (Z.ltb_spec k k); [lia|reflexivity].
  - pose proof (sorted_lt_head _ _ _ _ _ Hs H). destruct (Z.ltb_spec k a); [lia|].
    rewrite IH; [reflexivity|eapply sorted_tail; eauto|exact H].
Qed.

Lemma oins_oins m k x w : oins (oins m k x) k w = oins m k w.
Proof.
  induction m as [|[a u] m IH]; cbn.
  - destruct (Z.ltb_spec k k); [lia|]. now rewrite Z.eqb_refl.
  - destruct (Z.ltb_spec k a); cbn.
    + destruct (Z.ltb_spec k k); [lia|]. now rewrite Z.eqb_refl.
    + destruct (Z.eqb_spec a k) as [->|Hne]; cbn.
      * destruct (Z.ltb_spec k k); [lia|]. now rewrite Z.eqb_refl.
      * destruct (Z.ltb_spec k a); [lia|]. destruct (Z.eqb_spec a k); [contradiction|]. now rewrite IH.
Qed.

Lemma odel_oins_absent m k v : sorted_keys m -> oget m k = None -> odel (oins m k v) k = m.
Proof.
  induction m as [|[a u] m IH]; intros Hs H; cbn; [now rewrite Z.eqb_refl|]. cbn in H.
  destruct (Z.eqb_spec a k) as [|Hne]; [discriminate|].
  destruct (Z.ltb_spec k a); cbn; [now rewrite Z.eqb_refl|].
  destruct (Z.eqb_spec a k); [contradiction|]. cbn. destruct (Z.eqb_spec a k); [contradiction|].
  rewrite IH; [reflexivity|eapply sorted_tail; eauto|exact H].
Qed.

Lemma oins_odel m k w : sorted_keys m -> oget m k = Some w -> oins (odel m k) k w = m.
Proof.
  induction m as [|[a u] m IH]; intros Hs H; [discriminate|]. cbn in H |- *.
  destruct (Z.eqb_spec a k) as [->|Hne].
  - injection H as ->. destruct m as [|[b u'] m]; cbn; [reflexivity|].
    cbn in Hs. destruct Hs as [Hlt _]. destruct (Z.ltb_spec k b); [reflexivity|lia].
  - pose proof (sorted_lt_head _ _ _ _ _ Hs H). cbn. destruct (Z.ltb_spec k a); [lia|].
    destruct (Z.eqb_spec a k); [contradiction|]. rewrite IH; [reflexivity|eapply sorted_tail; eauto|exact H].
Qed.

Lemma sorted_cons2 a v b w r : sorted_keys ((a, v) :: (b, w) :: r) <-> a < b /\ sorted_keys ((b, w) :: r).
Proof. reflexivity. Qed.
Lemma sorted_single a v : sorted_keys [(a, v)].
Proof. cbn. tauto. Qed.

Lemma oins_head m k v : exists b w r, oins m k v = (b, w) :: r /\
  (b = k \/ exists u r', m = (b, u) :: r').
Proof.
  destruct m as [|[a u] m]; cbn; [exists k, v, []; auto|].
  destruct (Z.ltb_spec k a); [exists k, v, ((a, u) :: m); auto|].
  destruct (Z.eqb_spec a k); [exists k, v, m; auto|].
  exists a, u, (oins m k v). split; [reflexivity|]. right. eauto.
Qed.

Lemma sorted_oins m k v : sorted_keys m -> sorted_keys (oins m k v).
Proof.
  induction m as [|[a u] m IH]; intros Hs; [apply sorted_single|]. cbn [oins].
  destruct (Z.ltb_spec k a); [apply (proj2 (sorted_cons2 _ _ _ _ _)); split; [lia|exact Hs]|].
  destruct (Z.eqb_spec a k) as [->|Hne].
  - destruct m as [|[b w] m]; [apply sorted_single|].
    destruct (proj1 (sorted_cons2 _ _ _ _ _) Hs) as [H1 H2]. apply (proj2 (sorted_cons2 _ _ _ _ _)). tauto.
  - assert (Ht : sorted_keys m) by (eapply sorted_tail; eauto). specialize (IH Ht).
    destruct (oins_head m k v) as (b & w & r & E & Hb). rewrite E in *.
    apply (proj2 (sorted_cons2 _ _ _ _ _)). split; [|exact IH].
    destruct Hb as [->|(u' & r' & ->)]; [lia|]. destruct (proj1 (sorted_cons2 _ _ _ _ _) Hs). assumption.
Qed.

Lemma sorted_odel m k : sorted_keys m -> sorted_keys (odel m k).
Proof.
  induction m as [|[a u] m IH]; intros Hs; [exact I|]. cbn [odel].
  destruct (Z.eqb_spec a k); [eapply sorted_tail; eauto|].
  assert (Ht : sorted_keys m) by (eapply sorted_tail; eauto). specialize (IH Ht).
  destruct m as [|[b w] m]; [apply sorted_single|].
  destruct (proj1 (sorted_cons2 _ _ _ _ _) Hs) as [Hab Hs'].
  cbn [odel] in *. destruct (Z.eqb_spec b k) as [->|Hne]; [|apply (proj2 (sorted_cons2 _ _ _ _ _)); tauto].
  destruct m as [|[c x] m]; [apply sorted_single|].
  destruct (proj1 (sorted_cons2 _ _ _ _ _) Hs') as [Hbc Hs'']. apply (proj2 (sorted_cons2 _ _ _ _ _)). split; [lia|assumption].
Qed.

Open Scope nat_scope.

(* lists *)
Lemma skipn_skipn_add {A} (a b : nat) (l : list A) : skipn a (skipn b l) = skipn (b + a) l.
Proof.
  revert l. induction b as [|b IH]; intros l; [reflexivity|].
  destruct l; [now rewrite !skipn_nil|]. cbn. apply IH.
Qed.

Lemma splice_firstn {A} i (a : list A) mid rest : i <= length a -> firstn i (firstn i a ++ mid ++ rest) = firstn i a.
Proof.
  intros H. rewrite firstn_app, firstn_firstn, Nat.min_id, firstn_length_le by lia.
  rewrite Nat.sub_diag. cbn. apply app_nil_r.
Qed.

Lemma splice_skipn {A} i (a : list A) mid rest : i <= length a ->
  skipn (i + length mid) (firstn i a ++ mid ++ rest) = rest.
Proof.
  intros H. rewrite skipn_app, firstn_length_le by lia.
  rewrite (skipn_all2 (firstn i a)) by (rewrite firstn_length_le by lia; lia). cbn [app].
  replace (i + length mid - i) with (length mid) by lia.
  rewrite skipn_app, skipn_all, Nat.sub_diag. reflexivity.
Qed.

Lemma splice_mid {A} i (a : list A) mid rest : i <= length a ->
  firstn (length mid) (skipn i (firstn i a ++ mid ++ rest)) = mid.
Proof.
  intros H. rewrite skipn_app, firstn_length_le by lia.
  rewrite (skipn_all2 (firstn i a)) by (rewrite firstn_length_le by lia; lia). cbn [app].
  rewrite Nat.sub_diag. cbn [skipn]. rewrite firstn_app, firstn_all, Nat.sub_diag. cbn. apply app_nil_r.
Qed.

Lemma decompose {A} from len (t : list A) : from + len <= length t ->
  firstn from t ++ firstn len (skipn from t) ++ skipn (from + len) t = t.
Proof.
  intros H. rewrite <- (skipn_skipn_add len from t).
  rewrite (firstn_skipn len (skipn from t)). apply firstn_skipn.
Qed.

Lemma exec_valid c o : valid c -> valid (fst (Content.exec c o)).
Proof.
  intros (H32 & H64 & Hs). unfold valid. destruct o; cbn.
  - split; [apply wrap32_in|split; assumption].
  - split; [assumption|split; [apply wrap64_in|assumption]].
  - split; [assumption|split; [assumption|]]. destruct v; [now apply sorted_oins|now apply sorted_odel].
  - destruct (Nat.leb i (length (arr c))); cbn; (split; [assumption|split; assumption]).
  - destruct (nth_error (arr c) i); cbn; (split; [assumption|split; assumption]).
  - destruct (Nat.leb (from + len) (length (txt c))); cbn; (split; [assumption|split; assumption]).
  - split; [assumption|split; assumption].
Qed.

Lemma content_eq a b : c32 a = c32 b -> c64 a = c64 b -> obj a = obj b -> arr a = arr b -> txt a = txt b -> a = b.
Proof. destruct a, b; cbn; intros; subst; reflexivity. Qed.

Local Opaque skipn firstn.
Lemma exec_inverts c o c' r : valid c -> Content.exec c o = (c', r) -> Content.exec c' r = (c, o).
Proof.
  intros (H32 & H64 & Hs) H. destruct o; unfold Content.exec in H.
  - injection H as <- <-. cbn. f_equal; [|now rewrite Z.opp_involutive].
    apply content_eq; cbn; try reflexivity. now apply wrap32_back.
  - injection H as <- <-. cbn. f_equal; [|now rewrite Z.opp_involutive].
    apply content_eq; cbn; try reflexivity. now apply wrap64_back.
  - injection H as <- <-. cbn. destruct v as [x|]; destruct (oget (obj c) k) as [w|] eqn:E; cbn.
    + rewrite oget_oins. f_equal. apply content_eq; cbn; try reflexivity.
      rewrite oins_oins. now apply oins_present.
    + rewrite oget_oins. f_equal. apply content_eq; cbn; try reflexivity. now apply odel_oins_absent.
    + rewrite oget_odel by assumption. f_equal. apply content_eq; cbn; try reflexivity. now apply oins_odel.
    + rewrite oget_odel by assumption. f_equal. apply content_eq; cbn; try reflexivity.
      rewrite !odel_absent; auto. now rewrite odel_absent.
  - destruct (Nat.leb_spec i (length (arr c))) as [Hi|Hi].
    + injection H as <- <-. unfold Content.exec. cbn [arr txt c32 c64 obj].
      assert (Hn : nth_error (firstn i (arr c) ++ v :: skipn i (arr c)) i = Some v).
      { rewrite nth_error_app2 by (rewrite firstn_length_le by lia; lia).
        rewrite firstn_length_le by lia. now rewrite Nat.sub_diag. }
      rewrite Hn. f_equal. apply content_eq; cbn [arr txt c32 c64 obj]; try reflexivity.
      change (v :: skipn i (arr c)) with ([v] ++ skipn i (arr c)).
      rewrite splice_firstn by lia.
      pose proof (splice_skipn i (arr c) [v] (skipn i (arr c)) Hi) as Hk. cbn [length] in Hk.
      replace (S i) with (i + 1) by lia. rewrite Hk. apply firstn_skipn.
    + injection H as <- <-. unfold Content.exec. destruct (Nat.leb_spec i (length (arr c))); [lia|reflexivity].
  - destruct (nth_error (arr c) i) as [v|] eqn:E.
    + injection H as <- <-. unfold Content.exec. cbn [arr txt c32 c64 obj].
      assert (Hi : i < length (arr c)) by (apply nth_error_Some; congruence).
      assert (Hle : Nat.leb i (length (firstn i (arr c) ++ skipn (S i) (arr c))) = true).
      { apply Nat.leb_le. rewrite app_length, firstn_length_le, skipn_length by lia. lia. }
      rewrite Hle. f_equal. apply content_eq; cbn [arr txt c32 c64 obj]; try reflexivity.
      pose proof (splice_firstn i (arr c) [] (skipn (S i) (arr c))) as Hf. cbn [app] in Hf. rewrite Hf by lia.
      pose proof (splice_skipn i (arr c) [] (skipn (S i) (arr c))) as Hk. cbn [app length] in Hk.
      rewrite Nat.add_0_r in Hk. rewrite Hk by lia.
      (* firstn i a ++ v :: skipn (S i) a = a *)
      clear - E. revert i E. induction (arr c) as [|y l IHl]; intros [|i] E; cbn in E; try discriminate.
      * now injection E as ->.
      * change (firstn (S i) (y :: l)) with (y :: firstn i l). change (skipn (S (S i)) (y :: l)) with (skipn (S i) l).
        cbn [app]. f_equal. now apply IHl.
    + injection H as <- <-. unfold Content.exec. now rewrite E.
  - destruct (Nat.leb_spec (from + len) (length (txt c))) as [Hi|Hi].
    + injection H as <- <-. unfold Content.exec. cbn [arr txt c32 c64 obj].
      set (old := firstn len (skipn from (txt c))).
      assert (Hold : length old = len) by (unfold old; rewrite firstn_length_le; [reflexivity|rewrite skipn_length; lia]).
      assert (Hle : Nat.leb (from + length s) (length (firstn from (txt c) ++ s ++ skipn (from + len) (txt c))) = true).
      { apply Nat.leb_le. rewrite !app_length, firstn_length_le, skipn_length by lia. lia. }
      rewrite Hle. f_equal.
      * apply content_eq; cbn [arr txt c32 c64 obj]; try reflexivity.
        rewrite splice_firstn, splice_skipn by lia. unfold old. now apply decompose.
      * rewrite Hold. f_equal. apply splice_mid. lia.
    + injection H as <- <-. unfold Content.exec. destruct (Nat.leb_spec (from + len) (length (txt c))); [lia|reflexivity].
  - injection H as <- <-. reflexivity.
Qed.

Local Transparent skipn firstn.

(* the C14 statement on the content model *)
Theorem content_undo_redo c0 prog k j : valid c0 -> Forall (fun ops => ops <> []) prog ->
  k <= length prog -> k <= cap -> j <= k ->
  let h := run_program content cop Content.exec c0 prog in
  let trail := fst (prevs content cop Content.exec c0 prog []) :: snd (prevs content cop Content.exec c0 prog []) in
  exists hk hj, iter_opt content cop (do_undo content cop Content.exec) k h = Some hk /\ cur hk = nth k trail c0 /\
                iter_opt content cop (do_redo content cop Content.exec) j hk = Some hj /\ cur hj = nth (k - j) trail c0.
Proof. apply (program_undo_redo content cop Content.exec valid exec_valid exec_inverts). Qed.
