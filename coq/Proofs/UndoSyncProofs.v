(* UndoSyncProofs.v — what undo/redo put on the wire, and whether it converges.
   Counter: the reverse of an increase is an increase, so it commutes with every
   concurrent increase.  Array: the reverse of a delete re-inserts the element
   under a freshly issued ticket, i.e. an ordinary insert (RGAProofs).  Object: the
   reverse of a set restores the previous member under its OLD identity; with a
   concurrent operation that names that identity the two delivery orders differ. *)
From Coq Require Import List ZArith Lia.
From YV Require Import Base.Ticket Crdt.ElemRHT Proofs.ERHTProofs.
Import ListNotations.
Open Scope Z_scope.

(* a client increases by a, somebody else by b, the first client undoes: every order agrees *)
Theorem counter_undo_converges is_long c a b :
  let inc := counter_increase is_long in
  inc (inc (inc c a) (- a)) b = inc (inc (inc c a) b) (- a) /\
  inc (inc (inc c a) b) (- a) = inc (inc (inc c b) a) (- a).
Proof.
  cbn zeta. split.
  - apply counter_increase_commute.
  - f_equal. apply counter_increase_commute.
Qed.

(* identity re-use: t1 is the member's first identity, client 1 sets (t2) and undoes (restoring
   identity t1 at t3) while client 2 concurrently removes the element named t1 *)
Definition t1 := mkT 1 1%N 0%N.
Definition t2 := mkT 2 1%N 0%N.
Definition t3 := mkT 3 1%N 0%N.
Definition td := mkT 2 2%N 0%N.
Definition h0 := rht_set empty_erht 1%N t1 1 t1.

Definition at_undoer : option (list (N * Z)) :=
  option_map rht_visible (rht_delete_by_created (rht_set (rht_set h0 1%N t2 7 t2) 1%N t1 1 t3) t1 td).
Definition at_peer : option (list (N * Z)) :=
  option_map (fun h => rht_visible (rht_set (rht_set h 1%N t2 7 t2) 1%N t1 1 t3)) (rht_delete_by_created h0 t1 td).

Theorem identity_reuse_diverges : at_undoer = Some [] /\ at_peer = Some [(1%N, 1)].
Proof. split; vm_compute; reflexivity. Qed.
