(* UndoSyncProofs.v — what undo/redo put on the wire, and whether it converges.
   Counter: the reverse of an increase is an increase, so it commutes with every
   concurrent increase.  Array: the reverse of a delete re-inserts the element
   under a freshly issued ticket, i.e. an ordinary insert (RGAProofs).  Object: the
   reverse of a set restores the previous member under its OLD identity; with a
   concurrent operation that names that identity the two delivery orders differ. *)
From Coq Require Import List ZArith Lia.
From YV Require Import Base.Ticket Crdt.ElemRHT Proofs.ERHTProofs.
Import ListNotations.
Open Scope Z_scope.

(* a client increases by a, somebody else by b, the first client undoes: every order agrees *)
Theorem counter_undo_converges is_long c a b :
  let inc := counter_increase is_long in
  inc (inc (inc c a) (- a)) b = inc (inc (inc c a) b) (- a) /\
  inc (inc (inc c a) b) (- a) = inc (inc (inc c b) a) (- a).
Proof.
  cbn zeta. split.
  - apply counter_increase_commute.
  - f_equal. apply counter_increase_commute.
Qed.

(* identity re-use: t1 is the member's first identity, client 1 sets (t2) and undoes (restoring
   identity t1 at t3) while client 2 concurrently removes the element named t1 *)
Definition t1 := mkT 1 1%N 0%N.
Definition t2 := mkT 2 1%N 0%N.
Definition t3 := mkT 3 1%N 0%N.
Definition td := mkT 2 2%N 0%N.
Definition h0 := rht_set empty_erht 1%N t1 1 t1.

Definition at_undoer : option (list (N * Z)) :=
  option_map rht_visible (rht_delete_by_created (rht_set (rht_set h0 1%N t2 7 t2) 1%N t1 1 t3) t1 td).
Definition at_peer : option (list (N * Z)) :=
  option_map (fun h => rht_visible (rht_set (rht_set h 1%N t2 7 t2) 1%N t1 1 t3)) (rht_delete_by_created h0 t1 td).

Theorem identity_reuse_diverges : at_undoer = Some [] /\ at_peer = Some [(1%N, 1)].
Proof. split; vm_compute; reflexivity. Qed.

(* ------------------------------------------------------------------ *)
(* finding P44 (repaired by e806c2a2) on the ElementRHT model: an undo whose Remove declines to
   execute on the author (the member it would remove has lost to a concurrent Set) must not put
   that Remove on the wire.  On a peer that has already purged the loser the Remove has no target:
   DeleteByCreatedAt fails, and with it the whole change pack. *)
Definition p44_k2 : N := 2%N.
Definition p44_mine : ticket := mkT 5 1%N 2%N.      (* the undoer's k2 = 85 *)
Definition p44_theirs : ticket := mkT 5 2%N 1%N.    (* the peer's concurrent k2 = 96: the later ticket *)
Definition p44_peer : erht :=
  rht_set (rht_set empty_erht p44_k2 p44_theirs 96 p44_theirs) p44_k2 p44_mine 85 p44_mine.
Definition p44_peer_after_gc : option erht := rht_purge p44_peer p44_mine.
Definition p44_remove (h : erht) : option erht := rht_delete_by_created h p44_mine (mkT 8 1%N 1%N).

Theorem skipped_remove_fails_on_purged_peer :
  rht_visible p44_peer = [(2%N, 96)] /\
  (exists h, p44_remove p44_peer = Some h /\ rht_visible h = [(2%N, 96)]) /\
  (exists h, p44_peer_after_gc = Some h /\ rht_visible h = [(2%N, 96)] /\ p44_remove h = None).
Proof.
  split; [vm_compute; reflexivity|]. split.
  - eexists. split; [vm_compute; reflexivity|vm_compute; reflexivity].
  - eexists. split; [vm_compute; reflexivity|]. split; vm_compute; reflexivity.
Qed.
