(* ERHTProofs.v — counters: increases commute and wrap like the machine types. *)
From YV Require Import Crdt.ElemRHT.

Lemma wrap_mod bits x : 0 < bits -> (wrap bits x) mod 2 ^ bits = x mod 2 ^ bits.
Proof.
  intros Hb. unfold wrap. set (m := 2 ^ bits). assert (0 < m) by (apply Z.pow_pos_nonneg; lia).
  destruct (x mod m <? 2 ^ (bits - 1)).
  - now rewrite Z.mod_mod by lia.
  - rewrite <- (Z.mod_add (x mod m - m) 1 m) by lia. replace (x mod m - m + 1 * m) with (x mod m) by lia.
    now rewrite Z.mod_mod by lia.
Qed.

Lemma wrap_congr bits x y : 0 < bits -> x mod 2 ^ bits = y mod 2 ^ bits -> wrap bits x = wrap bits y.
Proof. intros Hb H. unfold wrap. now rewrite H. Qed.

Lemma wrap_add_l bits x y : 0 < bits -> wrap bits (wrap bits x + y) = wrap bits (x + y).
Proof.
  intros Hb. apply wrap_congr; [exact Hb|].
  assert (0 < 2 ^ bits) by (apply Z.pow_pos_nonneg; lia).
  rewrite Z.add_mod by lia. rewrite wrap_mod by exact Hb. rewrite <- Z.add_mod by lia. reflexivity.
Qed.

Lemma wrap_add_r bits x y : 0 < bits -> wrap bits (x + wrap bits y) = wrap bits (x + y).
Proof. intros Hb. rewrite Z.add_comm, wrap_add_l by exact Hb. now rewrite Z.add_comm. Qed.

(* C01, counter clause: two increases commute (same result in both orders) *)
Theorem counter_increase_commute is_long c a b :
  counter_increase is_long (counter_increase is_long c a) b =
  counter_increase is_long (counter_increase is_long c b) a.
Proof.
  unfold counter_increase. destruct is_long.
  - rewrite !wrap_add_l by lia. now replace (c + b + a) with (c + a + b) by lia.
  - rewrite !wrap_add_l by lia. rewrite !wrap_add_r by lia.
    replace (c + wrap 32 a + b) with (c + b + wrap 32 a) by lia.
    replace (c + wrap 32 b + a) with (c + a + wrap 32 b) by lia.
    rewrite !wrap_add_r by lia. now replace (c + b + a) with (c + a + b) by lia.
Qed.

(* C07, counter clause: the value is the mathematical sum reduced to the machine width *)
Theorem counter_is_modular_sum (is_long : bool) c ds :
  let bits := if is_long then 64 else 32 in
  (fold_left (counter_increase is_long) ds c) mod 2 ^ bits = (fold_left Z.add ds c) mod 2 ^ bits.
Proof.
  cbn zeta. revert c. induction ds as [|d r IH]; intros c; cbn [fold_left]; [reflexivity|].
  rewrite IH. clear IH.
  assert (G : forall bits x y, 0 < bits -> x mod 2 ^ bits = y mod 2 ^ bits ->
              forall l, (fold_left Z.add l x) mod 2 ^ bits = (fold_left Z.add l y) mod 2 ^ bits).
  { intros bits x y Hb Hxy l. revert x y Hxy. induction l as [|z l IHl]; intros x y Hxy; cbn [fold_left]; [exact Hxy|].
    apply IHl. assert (0 < 2 ^ bits) by (apply Z.pow_pos_nonneg; lia).
    rewrite (Z.add_mod x), (Z.add_mod y) by lia. now rewrite Hxy. }
  unfold counter_increase. destruct is_long; apply G; try lia.
  - apply wrap_mod. lia.
  - rewrite wrap_mod by lia. assert (0 < 2 ^ 32) by lia.
    rewrite Z.add_mod by lia. rewrite wrap_mod by lia. now rewrite <- Z.add_mod by lia.
Qed.

Example counter_wrap_example :
  counter_increase false 2147483647 1 = -2147483648 /\ counter_increase true 9223372036854775807 1 = -9223372036854775808.
Proof. split; reflexivity. Qed.
