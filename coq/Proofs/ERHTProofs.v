(* ERHTProofs.v — counters: increases commute and wrap like the machine types. *)
From YV Require Import Crdt.ElemRHT.

Lemma wrap_mod bits x : 0 < bits -> (wrap bits x) mod 2 ^ bits = x mod 2 ^ bits.
Proof.
  intros Hb. unfold wrap. set (m := 2 ^ bits). assert (0 < m) by (apply Z.pow_pos_nonneg; lia).
  destruct (x mod m <? 2 ^ (bits - 1)).
  - now rewrite Z.mod_mod by lia.
  - rewrite <- (Z.mod_add (x mod m - m) 1 m) by lia. replace (x mod m - m + 1 * m) with (x mod m) by lia.
    now rewrite Z.mod_mod by lia.
Qed.

Lemma wrap_congr bits x y : 0 < bits -> x mod 2 ^ bits = y mod 2 ^ bits -> wrap bits x = wrap bits y.
Proof. intros Hb H. unfold wrap. now rewrite H. Qed.

Lemma wrap_add_l bits x y : 0 < bits -> wrap bits (wrap bits x + y) = wrap bits (x + y).
Proof.
  intros Hb. apply wrap_congr; [exact Hb|].
  assert (0 < 2 ^ bits) by (apply Z.pow_pos_nonneg; lia).
  rewrite Z.add_mod by lia. rewrite wrap_mod by exact Hb. rewrite <- Z.add_mod by lia. reflexivity.
Qed.

Lemma wrap_add_r bits x y : 0 < bits -> wrap bits (x + wrap bits y) = wrap bits (x + y).
Proof. intros Hb. rewrite Z.add_comm, wrap_add_l by exact Hb. now rewrite Z.add_comm. Qed.

(* C01, counter clause: two increases commute (same result in both orders) *)
Theorem counter_increase_commute is_long c a b :
  counter_increase is_long (counter_increase is_long c a) b =
  counter_increase is_long (counter_increase is_long c b) a.
Proof.
  unfold counter_increase. destruct is_long.
  - rewrite !wrap_add_l by lia. now replace (c + b + a) with (c + a + b) by lia.
  - rewrite !wrap_add_l by lia. rewrite !wrap_add_r by lia.
    replace (c + wrap 32 a + b) with (c + b + wrap 32 a) by lia.
    replace (c + wrap 32 b + a) with (c + a + wrap 32 b) by lia.
    rewrite !wrap_add_r by lia. now replace (c + b + a) with (c + a + b) by lia.
Qed.

(* C07, counter clause: the value is the mathematical sum reduced to the machine width *)
Theorem counter_is_modular_sum (is_long : bool) c ds :
  let bits := if is_long then 64 else 32 in
  (fold_left (counter_increase is_long) ds c) mod 2 ^ bits = (fold_left Z.add ds c) mod 2 ^ bits.
Proof.
  cbn zeta. revert c. induction ds as [|d r IH]; intros c; cbn [fold_left]; [reflexivity|].
  rewrite IH. clear IH.
  assert (G : forall bits x y, 0 < bits -> x mod 2 ^ bits = y mod 2 ^ bits ->
              forall l, (fold_left Z.add l x) mod 2 ^ bits = (fold_left Z.add l y) mod 2 ^ bits).
  { intros bits x y Hb Hxy l. revert x y Hxy. induction l as [|z l IHl]; intros x y Hxy; cbn [fold_left]; [exact Hxy|].
    apply IHl. assert (0 < 2 ^ bits) by (apply Z.pow_pos_nonneg; lia).
    rewrite (Z.add_mod x), (Z.add_mod y) by lia. now rewrite Hxy. }
  unfold counter_increase. destruct is_long; apply G; try lia.
  - apply wrap_mod. lia.
  - rewrite wrap_mod by lia. assert (0 < 2 ^ 32) by lia.
    rewrite Z.add_mod by lia. rewrite wrap_mod by lia. now rewrite <- Z.add_mod by lia.
Qed.

Example counter_wrap_example :
  counter_increase false 2147483647 1 = -2147483648 /\ counter_increase true 9223372036854775807 1 = -9223372036854775808.
Proof. split; reflexivity. Qed.

(* ---- object members: every live member is the one linked under its key ------------ *)
From YV Require Import Proofs.TicketProofs.

Lemma nget_nset l n id : nget (nset l n) id = if teqb (rn_id n) id then Some n else nget l id.
Proof.
  induction l as [|x r IH]; cbn [nset nget]; [reflexivity|].
  destruct (teqb (rn_id x) (rn_id n)) eqn:E; cbn [nget].
  - apply teqb_spec in E. rewrite E. destruct (teqb (rn_id n) id); reflexivity.
  - destruct (teqb (rn_id x) id) eqn:E2.
    + apply teqb_spec in E2. subst id. rewrite (teqb_sym (rn_id n) (rn_id x)), E. reflexivity.
    + exact IH.
Qed.

Lemma kget_kset l k t k' : kget (kset l k t) k' = if N.eqb k k' then Some t else kget l k'.
Proof.
  induction l as [|[k0 t0] r IH]; cbn [kset kget].
  - reflexivity.
  - destruct (N.eqb_spec k0 k) as [->|Hn]; cbn [kget].
    + destruct (N.eqb k k'); reflexivity.
    + destruct (N.ltb k k0); cbn [kget].
      * destruct (N.eqb k k'); reflexivity.
      * destruct (N.eqb_spec k0 k') as [->|Hn2].
        -- destruct (N.eqb_spec k k'); [congruence|reflexivity].
        -- exact IH.
Qed.

(* well-formedness of the table *)
Record rht_wf (h : erht) : Prop := {
  wf_linked : forall k id, kget (by_key h) k = Some id -> exists n, nget (nodes h) id = Some n /\ rn_key n = k;
  wf_live : forall id n, nget (nodes h) id = Some n -> rn_removed n = None -> kget (by_key h) (rn_key n) = Some id;
  wf_moved : forall id n m, nget (nodes h) id = Some n -> rn_moved n = Some m -> tafter (rn_id n) m = false;
  wf_ids : forall id n, nget (nodes h) id = Some n -> rn_id n = id
}.

Lemma rht_wf_empty : rht_wf empty_erht.
Proof. constructor; cbn; intros; discriminate. Qed.

Lemma tafter_irrefl' a : tafter a a = false.
Proof. apply tafter_false. apply tgt_irrefl. Qed.

Lemma rn_remove_same n t :
  rn_id (fst (rn_remove n t)) = rn_id n /\ rn_moved (fst (rn_remove n t)) = rn_moved n /\
  rn_key (fst (rn_remove n t)) = rn_key n.
Proof. unfold rn_remove. destruct (tafter t (rn_id n) && _); cbn; auto. Qed.

(* a Set with a fresh ticket keeps the table well formed: in particular the
   loser of the last-writer-wins race is tombstoned and never stays live but
   unlinked (the defect fixed by b8193858) *)
Theorem rht_set_wf h k id val :
  rht_wf h -> nget (nodes h) id = None ->
  (forall id' n, nget (nodes h) id' = Some n -> rn_positioned n <> id) ->
  rht_wf (rht_set h k id val id).
Proof.
  intros [Hl Hv Hm Hi] Hfresh Hpos. unfold rht_set, linked.
  destruct (kget (by_key h) k) as [lid|] eqn:Ek.
  - destruct (Hl k lid Ek) as (old & Hold & Hkold). rewrite Hold.
    pose proof (Hi _ _ Hold) as Hidold.
    destruct (tafter id (rn_positioned old)) eqn:Hwin.
    + (* the new value wins *)
      set (old' := match rn_removed old with None => fst (rn_remove old id) | Some _ => old end).
      assert (Hold'id : rn_id old' = lid).
      { unfold old', rn_remove. destruct (rn_removed old); [exact Hidold|].
        destruct (tafter id (rn_id old) && true); exact Hidold. }
      assert (Hold'rm : rn_removed old' <> None).
      { unfold old'. destruct (rn_removed old) eqn:Er; [congruence|].
        unfold rn_remove. rewrite Er.
        assert (tafter id (rn_id old) = true).
        { unfold rn_positioned in Hwin. destruct (rn_moved old) as [m|] eqn:Emv; [|exact Hwin].
          pose proof (Hm _ _ _ Hold Emv) as Hle.
          destruct (teqb (rn_id old) m) eqn:Eq; [apply teqb_spec in Eq; now rewrite Eq|].
          assert (rn_id old <> m) by (intros F; rewrite F, teqb_refl in Eq; discriminate).
          destruct (tafter_total_b (rn_id old) m H) as [G|G]; [congruence|].
          eapply tafter_trans_b; eassumption. }
        rewrite H. cbn. discriminate. }
      assert (Hlid : lid <> id) by (intros ->; congruence).
      constructor; cbn [by_key nodes].
      * intros k' id' H. rewrite kget_kset in H. destruct (N.eqb_spec k k') as [<-|Hn].
        -- inversion H; subst id'. eexists. rewrite nget_nset. cbn [rn_id]. rewrite teqb_refl. split; reflexivity.
        -- destruct (Hl k' id' H) as (n & Hn1 & Hn2). rewrite !nget_nset. cbn [rn_id].
           destruct (teqb id id') eqn:E1; [apply teqb_spec in E1; subst id'; congruence|].
           rewrite Hold'id. destruct (teqb lid id') eqn:E2.
           ++ apply teqb_spec in E2. subst id'. rewrite Hold in Hn1. inversion Hn1; subst n. congruence.
           ++ eauto.
      * intros id' n H Hlive. rewrite !nget_nset in H. cbn [rn_id] in H.
        destruct (teqb id id') eqn:E1.
        -- apply teqb_spec in E1. inversion H; subst. cbn [rn_key]. rewrite kget_kset, N.eqb_refl. reflexivity.
        -- rewrite Hold'id in H. destruct (teqb lid id') eqn:E2; [inversion H; subst; contradiction|].
           pose proof (Hv _ _ H Hlive) as Hk. rewrite kget_kset.
           destruct (N.eqb_spec k (rn_key n)) as [Heq|]; [|exact Hk].
           rewrite <- Heq, Ek in Hk. inversion Hk; subst. rewrite teqb_refl in E2. discriminate.
      * intros id' n m H Hmv. rewrite !nget_nset in H. cbn [rn_id] in H.
        destruct (teqb id id') eqn:E1.
        -- inversion H; subst. cbn in Hmv. inversion Hmv; subst. cbn. apply tafter_irrefl'.
        -- rewrite Hold'id in H. destruct (teqb lid id') eqn:E2.
           ++ inversion H; subst n.
              assert (Hsame : rn_id old' = rn_id old /\ rn_moved old' = rn_moved old).
              { unfold old'. destruct (rn_removed old); [auto|]. destruct (rn_remove_same old id) as (A & B & _). auto. }
              destruct Hsame as [A B]. rewrite A. rewrite B in Hmv. eapply Hm; eauto.
           ++ eapply Hm; eauto.
      * intros id' n H. rewrite !nget_nset in H. cbn [rn_id] in H.
        destruct (teqb id id') eqn:E1; [apply teqb_spec in E1; inversion H; subst; reflexivity|].
        rewrite Hold'id in H. destruct (teqb lid id') eqn:E2; [apply teqb_spec in E2; inversion H; subst; exact Hold'id|].
        eapply Hi; eauto.
    + (* the new value loses: it is tombstoned *)
      assert (Hne : rn_positioned old <> id) by (eapply Hpos; eauto).
      assert (Hgt : tafter (rn_positioned old) id = true).
      { destruct (tafter_total_b (rn_positioned old) id Hne) as [G|G]; [exact G|congruence]. }
      assert (Hrm : rn_removed (fst (rn_remove (mkRN k id val None None) (rn_positioned old))) <> None).
      { unfold rn_remove. cbn [rn_id rn_removed]. rewrite Hgt. cbn. discriminate. }
      assert (Hid' : rn_id (fst (rn_remove (mkRN k id val None None) (rn_positioned old))) = id).
      { unfold rn_remove. cbn [rn_id rn_removed]. rewrite Hgt. reflexivity. }
      constructor; cbn [by_key nodes].
      * intros k' id' H. destruct (Hl k' id' H) as (n & Hn1 & Hn2). rewrite nget_nset, Hid'.
        destruct (teqb id id') eqn:E1; [apply teqb_spec in E1; subst; congruence|eauto].
      * intros id' n H Hlive. rewrite nget_nset, Hid' in H.
        destruct (teqb id id') eqn:E1; [inversion H; subst; contradiction|eauto].
      * intros id' n m H Hmv. rewrite nget_nset, Hid' in H.
        destruct (teqb id id') eqn:E1; [|eauto].
        inversion H; subst. unfold rn_remove in Hmv. cbn [rn_id rn_removed] in Hmv. rewrite Hgt in Hmv. discriminate.
      * intros id' n H. rewrite nget_nset, Hid' in H.
        destruct (teqb id id') eqn:E1; [apply teqb_spec in E1; inversion H; subst; exact Hid'|eauto].
  - (* key never set *)
    constructor; cbn [by_key nodes].
    + intros k' id' H. rewrite kget_kset in H. destruct (N.eqb_spec k k') as [<-|Hn].
      * inversion H; subst. eexists. rewrite nget_nset. cbn [rn_id]. rewrite teqb_refl. split; reflexivity.
      * destruct (Hl k' id' H) as (n & Hn1 & Hn2). rewrite nget_nset. cbn [rn_id].
        destruct (teqb id id') eqn:E1; [apply teqb_spec in E1; subst; congruence|eauto].
    + intros id' n H Hlive. rewrite nget_nset in H. cbn [rn_id] in H. rewrite kget_kset.
      destruct (teqb id id') eqn:E1.
      * apply teqb_spec in E1. inversion H; subst. cbn. now rewrite N.eqb_refl.
      * pose proof (Hv _ _ H Hlive) as Hk. destruct (N.eqb_spec k (rn_key n)) as [Heq|]; [|exact Hk].
        rewrite <- Heq in Hk. congruence.
    + intros id' n m H Hmv. rewrite nget_nset in H. cbn [rn_id] in H.
      destruct (teqb id id') eqn:E1; [|eauto].
      inversion H; subst. cbn in Hmv. inversion Hmv; subst. cbn. apply tafter_irrefl'.
    + intros id' n H. rewrite nget_nset in H. cbn [rn_id] in H.
      destruct (teqb id id') eqn:E1; [apply teqb_spec in E1; inversion H; subst; reflexivity|eauto].
Qed.
