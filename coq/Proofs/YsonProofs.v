(* YsonProofs.v — the YSON text path: where it is the identity and where it is not. *)
From Coq Require Import String Ascii List ZArith Bool Lia.
From YV Require Import Codec.YsonText.
Import ListNotations.

Lemma replace_all_aux_no_occ fuel old new : forall s, occurs old s = false -> replace_all_aux fuel old new s = s.
Proof.
  induction fuel as [|f IH]; intros s H; [reflexivity|].
  destruct s as [|c r]; [reflexivity|]. cbn [replace_all_aux]. cbn [occurs] in H.
  apply orb_false_iff in H as [Hp Hr]. rewrite Hp. now rewrite IH.
Qed.

Lemma replace_all_no_occ old new s : occurs old s = false -> replace_all old new s = s.
Proof. apply replace_all_aux_no_occ. Qed.

Lemma fold_replace_safe rs : forall s,
  forallb (fun r => negb (occurs (fst r) s)) rs = true ->
  fold_left (fun acc r => replace_all (fst r) (snd r) acc) rs s = s.
Proof.
  induction rs as [|r rs IH]; intros s H; [reflexivity|].
  cbn [forallb] in H. apply andb_true_iff in H as [H1 H2]. cbn [fold_left].
  rewrite replace_all_no_occ by (now apply negb_true_iff in H1). now apply IH.
Qed.

(* a text that contains none of the constructor tokens and no ')' reaches the JSON parser unchanged *)
Theorem preprocess_identity_on_safe_text s : text_safe s = true -> preprocess s = s.
Proof. intros H. unfold preprocess. now apply fold_replace_safe. Qed.

(* ... and otherwise it may not: the rewriting does not respect string literals *)
Example preprocess_rewrites_inside_string_literal :
  preprocess "{""k"":""a)""}" = "{""k"":""a}""}".
Proof. vm_compute. reflexivity. Qed.

Theorem text_path_not_identity : exists s, text_safe s = false /\ preprocess s <> s.
Proof. exists "{""k"":""a)""}"%string. split; [reflexivity|]. vm_compute. discriminate. Qed.

Example safe_text_exists : text_safe "{""k"":""hello world"",""n"":[1,2.5,true,null]}" = true.
Proof. reflexivity. Qed.

Open Scope Z_scope.

Theorem fl64_exact z : Z.abs z <= 2 ^ 53 -> fl64 z = z.
Proof.
  intros H. unfold fl64. destruct (Z.ltb_spec (Z.abs z) (2 ^ 53)) as [Hl|Hge]; [reflexivity|].
  assert (Ha : Z.abs z = 2 ^ 53) by lia.
  destruct (Z.abs_eq_or_opp z) as [E|E]; rewrite E in Ha.
  - subst z. vm_compute. reflexivity.
  - assert (z = - 2 ^ 53) by lia. subst z. vm_compute. reflexivity.
Qed.

Theorem fl64_loses_low_bits : fl64 (2 ^ 53 + 1) <> 2 ^ 53 + 1.
Proof. vm_compute. discriminate. Qed.
