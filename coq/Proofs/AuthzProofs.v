(* AuthzProofs.v — non-interference of programs over the project-scoped store. *)
From Coq Require Import List NArith Bool String Lia.
From YV Require Import Authz.Store Authz.Handlers.
Import ListNotations.
Open Scope N_scope.

(* ---------- restrict ---------- *)
Lemma restrict_app Q a b : restrict Q (a ++ b) = restrict Q a ++ restrict Q b.
Proof. unfold restrict. apply filter_app. Qed.

Lemma restrict_idem Q d : restrict Q (restrict Q d) = restrict Q d.
Proof.
  unfold restrict. induction d as [|r d IH]; cbn; [reflexivity|].
  destruct (r_proj r =? Q) eqn:E; cbn; [rewrite E; now f_equal|exact IH].
Qed.

Lemma wf_restrict Q d : wf d -> wf (restrict Q d).
Proof. intros H r Hr. apply H. unfold restrict in Hr. apply filter_In in Hr. tauto. Qed.

Lemma wf_cons r d : wf (r :: d) <-> fst (r_id r) = r_proj r /\ wf d.
Proof.
  split.
  - intros H. split; [apply H; now left|]. intros x Hx. apply H. now right.
  - intros [H1 H2] x [<-|Hx]; auto.
Qed.

Lemma oid_eqb_eq a b : oid_eqb a b = true -> a = b.
Proof.
  destruct a, b. unfold oid_eqb. cbn. intros H. apply andb_true_iff in H as [H1 H2].
  apply N.eqb_eq in H1, H2. now subst.
Qed.

(* ---------- lookups depend on the caller's own rows only ---------- *)
Lemma find_raw_foreign P t id d : wf d -> fst id <> P -> find_raw t id (restrict P d) = None.
Proof.
  intros Hwf Hne. unfold find_raw. induction d as [|r d IH]; cbn; [reflexivity|].
  apply wf_cons in Hwf as [Hr Hwf].
  destruct (r_proj r =? P) eqn:E; cbn; [|now apply IH].
  destruct (is_row t id r) eqn:Ei; [|now apply IH].
  exfalso. unfold is_row in Ei. apply andb_true_iff in Ei as [_ Ei]. apply oid_eqb_eq in Ei.
  apply N.eqb_eq in E. congruence.
Qed.

Lemma restrict_cons Q r d : restrict Q (r :: d) = if r_proj r =? Q then r :: restrict Q d else restrict Q d.
Proof. reflexivity. Qed.

Lemma find_scoped_restrict P t id d : wf d -> find_scoped P t id d = find_scoped P t id (restrict P d).
Proof.
  intros Hwf. unfold find_scoped, find_raw. induction d as [|r d IH]; [reflexivity|].
  apply wf_cons in Hwf as [Hr Hwf]. specialize (IH Hwf).
  rewrite restrict_cons. cbn [find].
  destruct (is_row t id r) eqn:Ei.
  - destruct (r_proj r =? P) eqn:E.
    + cbn [find]. now rewrite Ei, E.
    + (* the id is minted by another project: nothing of P carries it *)
      assert (fst id <> P).
      { unfold is_row in Ei. apply andb_true_iff in Ei as [_ Ei]. apply oid_eqb_eq in Ei.
        apply N.eqb_neq in E. congruence. }
      pose proof (find_raw_foreign P t id d Hwf H) as F. unfold find_raw in F. now rewrite F.
  - destruct (r_proj r =? P) eqn:E; [cbn [find]; now rewrite Ei|exact IH].
Qed.

Lemma find_key_restrict P t k d : find_key P t k d = find_key P t k (restrict P d).
Proof.
  unfold find_key. induction d as [|r d IH]; cbn; [reflexivity|].
  destruct (r_proj r =? P) eqn:E; cbn.
  - rewrite E. destruct (tbl_eqb (r_tbl r) t && true && (r_key r =? k)); [reflexivity|exact IH].
  - rewrite andb_false_r. cbn. exact IH.
Qed.

Lemma list_proj_restrict P t d : list_proj P t d = list_proj P t (restrict P d).
Proof.
  unfold list_proj. induction d as [|r d IH]; cbn; [reflexivity|].
  destruct (r_proj r =? P) eqn:E; cbn.
  - rewrite E. destruct (tbl_eqb (r_tbl r) t && true); [now f_equal|exact IH].
  - rewrite andb_false_r. exact IH.
Qed.

Lemma max_serial_restrict P d : wf d -> max_serial P d = max_serial P (restrict P d).
Proof.
  intros Hwf. unfold max_serial. induction d as [|r d IH]; [reflexivity|].
  apply wf_cons in Hwf as [Hr Hwf]. specialize (IH Hwf).
  rewrite restrict_cons. cbn [fold_right]. rewrite Hr.
  destruct (r_proj r =? P) eqn:E; [cbn [fold_right]; rewrite Hr, E; now rewrite IH|exact IH].
Qed.

Lemma update_proj P t id l rf dt r :
  r_proj (if is_row t id r && (r_proj r =? P) then set_payload r l rf dt else r) = r_proj r.
Proof. now destruct (is_row t id r && (r_proj r =? P)). Qed.

Lemma restrict_update_same P t id l rf dt d :
  restrict P (update P t id l rf dt d) = update P t id l rf dt (restrict P d).
Proof.
  unfold update. induction d as [|r d IH]; [reflexivity|].
  cbn [map]. rewrite !restrict_cons, update_proj.
  destruct (r_proj r =? P) eqn:E; cbn [map]; rewrite ?E, IH; reflexivity.
Qed.

Lemma restrict_update_other P Q t id l rf dt d : P <> Q ->
  restrict Q (update P t id l rf dt d) = restrict Q d.
Proof.
  intros Hne. unfold update. induction d as [|r d IH]; [reflexivity|].
  cbn [map]. rewrite !restrict_cons, update_proj, IH.
  destruct (r_proj r =? Q) eqn:E; [|reflexivity].
  assert (r_proj r =? P = false) as -> by (apply N.eqb_eq in E; apply N.eqb_neq; congruence).
  now rewrite andb_false_r.
Qed.

Lemma wf_update P t id l rf dt d : wf d -> wf (update P t id l rf dt d).
Proof.
  intros H r Hr. unfold update in Hr. apply in_map_iff in Hr as (x & <- & Hx).
  destruct (is_row t id x && (r_proj x =? P)); cbn; now apply H.
Qed.

Lemma wf_insert P t k rf dt d : wf d -> wf (snd (insert P t k rf dt d)).
Proof.
  intros H r Hr. cbn in Hr. apply in_app_or in Hr as [Hr|[<-|[]]]; [now apply H|reflexivity].
Qed.

(* ---------- one primitive ---------- *)
Lemma exec_prim_wf B P (p : prim B) d : wf d -> wf (snd (exec_prim P p d)).
Proof. destruct p; cbn; auto using wf_update. intros H. now apply (wf_insert P t k refs data d). Qed.

Lemma restrict_single Q r : restrict Q [r] = if r_proj r =? Q then [r] else [].
Proof. reflexivity. Qed.

Lemma exec_prim_integrity B P Q (p : prim B) d : P <> Q ->
  restrict Q (snd (exec_prim P p d)) = restrict Q d.
Proof.
  intros Hne. destruct p; cbn [exec_prim snd]; try reflexivity.
  - unfold insert. cbn [snd]. rewrite restrict_app, restrict_single. cbn [r_proj].
    assert (P =? Q = false) as -> by now apply N.eqb_neq. apply app_nil_r.
  - now apply restrict_update_other.
Qed.

Lemma exec_prim_confidential B P (p : prim B) d d' : scoped_prim p = true -> wf d -> wf d' ->
  restrict P d = restrict P d' ->
  fst (exec_prim P p d) = fst (exec_prim P p d') /\
  restrict P (snd (exec_prim P p d)) = restrict P (snd (exec_prim P p d')).
Proof.
  intros Hs Hw Hw' Hr. destruct p; cbn [exec_prim fst snd scoped_prim] in *; try discriminate.
  - split; [|exact Hr]. now rewrite (find_scoped_restrict P t id d), (find_scoped_restrict P t id d'), Hr.
  - split; [|exact Hr]. now rewrite (find_key_restrict P t k d), (find_key_restrict P t k d'), Hr.
  - split; [|exact Hr]. now rewrite (list_proj_restrict P t d), (list_proj_restrict P t d'), Hr.
  - unfold insert, mint. cbn [fst snd].
    rewrite (max_serial_restrict P d), (max_serial_restrict P d'), Hr by assumption.
    split; [reflexivity|]. now rewrite !restrict_app, Hr.
  - split; [reflexivity|]. now rewrite !restrict_update_same, Hr.
Qed.

(* ---------- programs ---------- *)
(* scoped for project P: scoped primitives, or the checked global lookup *)
Inductive ScopedFor (P : pid) {A} : prog A -> Prop :=
| SfRet a : ScopedFor P (Ret a)
| SfFail e : ScopedFor P (Fail e)
| SfBind B (p : prim B) k : scoped_prim p = true -> (forall b, ScopedFor P (k b)) -> ScopedFor P (Bind p k)
| SfChecked t id k : (forall o, ScopedFor P (k o)) -> ScopedFor P (find_checked P t id k).

Lemma scoped_scoped_for P A (m : prog A) : Scoped m -> ScopedFor P m.
Proof. induction 1; constructor; auto. Qed.

Lemma run_find_checked A P t id (k : option row -> prog A) d :
  run P (find_checked P t id k) d = run P (k (find_scoped P t id d)) d.
Proof.
  unfold find_checked, find_scoped. cbn. destruct (find_raw t id d) as [r|]; [|reflexivity].
  now destruct (r_proj r =? P).
Qed.

Lemma run_wf A P (m : prog A) : forall d, wf d -> wf (snd (run P m d)).
Proof.
  induction m as [a|e|B p k IH]; intros d Hw; cbn; auto.
  destruct (exec_prim P p d) as [b d1] eqn:E. apply IH.
  change d1 with (snd (b, d1)). rewrite <- E. now apply exec_prim_wf.
Qed.

Theorem integrity A P (m : prog A) : forall Q d, P <> Q -> restrict Q (snd (run P m d)) = restrict Q d.
Proof.
  induction m as [a|e|B p k IH]; intros Q d Hne; cbn; auto.
  destruct (exec_prim P p d) as [b d1] eqn:E. rewrite IH by assumption.
  change d1 with (snd (b, d1)). rewrite <- E. now apply exec_prim_integrity.
Qed.

Theorem confidentiality A P (m : prog A) : ScopedFor P m -> forall d d', wf d -> wf d' ->
  restrict P d = restrict P d' ->
  fst (run P m d) = fst (run P m d') /\ restrict P (snd (run P m d)) = restrict P (snd (run P m d')).
Proof.
  induction 1 as [a|e|B p k Hs Hk IH|t id k Hk IH]; intros d d' Hw Hw' Hr.
  - cbn. auto.
  - cbn. auto.
  - cbn. destruct (exec_prim_confidential B P p d d' Hs Hw Hw' Hr) as [H1 H2].
    pose proof (exec_prim_wf B P p d Hw) as W1. pose proof (exec_prim_wf B P p d' Hw') as W2.
    destruct (exec_prim P p d) as [b d1], (exec_prim P p d') as [b' d1']. cbn in *. subst b'.
    now apply IH.
  - rewrite !run_find_checked.
    rewrite (find_scoped_restrict P t id d), (find_scoped_restrict P t id d'), Hr by assumption.
    now apply IH.
Qed.

(* ---------- the handlers ---------- *)
Ltac sf :=
  repeat first
    [ progress intros
    | apply SfRet | apply SfFail
    | apply SfChecked
    | (apply SfBind; [reflexivity|])
    | match goal with |- ScopedFor _ (match ?x with _ => _ end) => destruct x end ].

Lemma handler_scoped P name q m : handler P name q = Some m -> ScopedFor P m.
Proof.
  unfold handler, need_client, need_attached, need. intros H.
  repeat match type of H with
  | (if ?c then _ else _) = _ => destruct c; [injection H as <-; sf|]
  end.
  discriminate.
Qed.

(* ---------- serve ---------- *)
Theorem serve_integrity cfg name c q d Q :
  gate cfg Yorkie name c <> Some (CtxProject Q) ->
  restrict Q (snd (serve cfg name c q d)) = restrict Q d.
Proof.
  intros Hg. unfold serve. destruct (gate cfg Yorkie name c) as [[P|u| |]|]; try reflexivity.
  destruct (handler P name q) as [m|]; [|reflexivity].
  assert (P <> Q) by congruence.
  pose proof (integrity _ P m Q d H) as I. destruct (run P m d) as [[r|e] d1]; exact I.
Qed.

Theorem serve_confidential cfg name c q d d' P :
  gate cfg Yorkie name c = Some (CtxProject P) -> wf d -> wf d' ->
  restrict P d = restrict P d' ->
  fst (serve cfg name c q d) = fst (serve cfg name c q d') /\
  restrict P (snd (serve cfg name c q d)) = restrict P (snd (serve cfg name c q d')).
Proof.
  intros Hg Hw Hw' Hr. unfold serve. rewrite Hg.
  destruct (handler P name q) as [m|] eqn:Hh; [|auto].
  destruct (confidentiality _ P m (handler_scoped _ _ _ _ Hh) d d' Hw Hw' Hr) as [H1 H2].
  destruct (run P m d) as [[r|e] d1], (run P m d') as [[r'|e'] d1']; cbn in *; try discriminate;
    (split; [congruence|assumption]).
Qed.

Theorem serve_wf cfg name c q d : wf d -> wf (snd (serve cfg name c q d)).
Proof.
  intros Hw. unfold serve. destruct (gate cfg Yorkie name c) as [[P|u| |]|]; try exact Hw.
  destruct (handler P name q) as [m|]; [|exact Hw].
  pose proof (run_wf _ P m d Hw) as W. destruct (run P m d) as [[r|e] d1]; exact W.
Qed.

(* a foreign id is answered exactly like an id that does not exist *)
Lemma foreign_lookup_is_none P t id d r : wf d -> find_raw t id d = Some r -> r_proj r <> P ->
  find_scoped P t id d = None.
Proof. intros _ H Hne. unfold find_scoped. rewrite H. now apply N.eqb_neq in Hne as ->. Qed.

Lemma find_key_own P t k d r : find_key P t k d = Some r -> r_proj r = P.
Proof.
  unfold find_key. intros H. apply find_some in H as [_ H].
  apply andb_true_iff in H as [H _]. apply andb_true_iff in H as [_ H]. now apply N.eqb_eq.
Qed.

(* identical keys in two projects are different objects *)
Lemma same_key_distinct P Q t k d r r' : wf d -> P <> Q ->
  find_key P t k d = Some r -> find_key Q t k d = Some r' -> r_id r <> r_id r'.
Proof.
  intros Hw Hne H1 H2 E.
  pose proof (find_key_own _ _ _ _ _ H1). pose proof (find_key_own _ _ _ _ _ H2).
  unfold find_key in H1, H2. apply find_some in H1 as [I1 _]. apply find_some in H2 as [I2 _].
  apply Hw in I1, I2. congruence.
Qed.

(* ---------- credentials ---------- *)
Lemma yorkie_needs_key cfg name c :
  use_default_project cfg = false ->
  (forall p, c <> CApiKey p) -> gate cfg Yorkie name c = None.
Proof. intros Hd Hc. destruct c; cbn; rewrite ?Hd; try reflexivity. now destruct (Hc p). Qed.

Lemma yorkie_key_resolves cfg name p : gate cfg Yorkie name (CApiKey p) = Some (CtxProject p).
Proof. reflexivity. Qed.

Lemma admin_needs_token cfg name c : admin_open name = false ->
  (forall u, c <> CToken u) -> (forall p, c <> CSecretKey p) -> gate cfg Admin name c = None.
Proof.
  intros Ho H1 H2. cbn. rewrite Ho. destruct c; try reflexivity; [now destruct (H1 u)|now destruct (H2 p)].
Qed.

Lemma cluster_needs_secret cfg name c : cluster_secret_set cfg = true -> c <> CClusterSecret ->
  gate cfg Cluster name c = None.
Proof. intros Hs Hc. cbn. rewrite Hs. destruct c; try reflexivity. now destruct Hc. Qed.

(* ---------- non-vacuity and the pre-fix handler ---------- *)
Definition demo_db : db :=
  [ mkRow TClient (1,1) 1 10 true [(1,2)] [];
    mkRow TDoc (1,2) 1 77 true [] [];
    mkRow TRev (1,3) 1 0 true [(1,2)] [111];
    mkRow TClient (2,1) 2 10 true [(2,2)] [];
    mkRow TDoc (2,2) 2 77 true [] [];
    mkRow TRev (2,3) 2 0 true [(2,2)] [999] ].

Example demo_wf : wf demo_db.
Proof. intros r H. cbn in H. repeat (destruct H as [<-|H]; [reflexivity|]). destruct H. Qed.

Definition demo_cfg := {| use_default_project := false; default_project := 0; cluster_secret_set := true |}.

(* project 1's client and document, project 2's revision id *)
Definition demo_attack := mkReq (1,1) (1,2) (2,3) (0,0) 0 [].

Example demo_getrevision_foreign :
  fst (serve demo_cfg "GetRevision" (CApiKey 1) demo_attack demo_db) = OErr ENotFound.
Proof. reflexivity. Qed.

Example demo_getrevision_own :
  fst (serve demo_cfg "GetRevision" (CApiKey 1) (mkReq (1,1) (1,2) (1,3) (0,0) 0 []) demo_db) = OResp (ROk [(1,3)] [111]).
Proof. reflexivity. Qed.

(* GetRevision as it was before the repair: revisions.Get by id, no check *)
Definition getrevision_unchecked (q : req) : prog resp :=
  need TDoc (q_doc q) (fun d => need_client q (fun c =>
    Bind (PFindRaw TRev (q_rev q)) (fun o =>
      match o with Some r => Ret (ROk [r_id r] (r_data r)) | None => Fail ENotFound end))).

Example getrevision_unchecked_refuted :
  exists d d', wf d /\ wf d' /\ restrict 1 d = restrict 1 d' /\
    fst (run 1 (getrevision_unchecked demo_attack) d) <> fst (run 1 (getrevision_unchecked demo_attack) d').
Proof.
  exists demo_db, (restrict 1 demo_db). split; [exact demo_wf|]. split; [apply wf_restrict, demo_wf|].
  split; [symmetry; apply restrict_idem|]. cbn. discriminate.
Qed.

(* a listing answers with rows of the asking project only, and with all of them *)
Lemma list_proj_scoped P t d r : In r (list_proj P t d) <-> In r d /\ r_tbl r = t /\ r_proj r = P.
Proof.
  unfold list_proj. rewrite filter_In, andb_true_iff, N.eqb_eq.
  assert (tbl_eqb (r_tbl r) t = true <-> r_tbl r = t) as -> by (destruct (r_tbl r), t; cbn; split; congruence).
  tauto.
Qed.
