(* PbWireProofs.v — varints and the TimeTicket message round-trip (Codec/PbWire.v). *)
From Coq Require Import Lia ZifyN ZifyNat.
From YV Require Import Codec.PbWire.
Local Open Scope N_scope.

Lemma venc_S f n : venc (S f) n = if n <? 128 then [n] else (n mod 128 + 128) :: venc f (n / 128).
Proof. reflexivity. Qed.

Lemma vdec_cons f i acc b r :
  vdec (S f) i acc (b :: r) =
  if i =? 9 then (if b <? 2 then Some (acc + b * 2 ^ 63, r) else None)
  else if b <? 128 then Some (acc + b * 2 ^ (7 * i), r)
  else vdec f (i + 1) (acc + (b - 128) * 2 ^ (7 * i)) r.
Proof. reflexivity. Qed.

Lemma vdec_venc f : forall i acc n rest,
  i + N.of_nat f = 9 -> n < 2 ^ (1 + 7 * N.of_nat f) ->
  vdec (S f) i acc (venc (S f) n ++ rest) = Some (acc + n * 2 ^ (7 * i), rest).
Proof.
  induction f as [|f IH]; intros i acc n rest Hi Hn.
  - (* the tenth byte *)
    assert (i = 9) by lia. subst i. rewrite venc_S.
    change (2 ^ (1 + 7 * N.of_nat 0)) with 2 in Hn.
    destruct (N.ltb_spec n 128); [|lia]. cbn [app]. rewrite vdec_cons, N.eqb_refl.
    destruct (N.ltb_spec n 2); [|lia]. reflexivity.
  - assert (Hi9 : (i =? 9) = false) by (apply N.eqb_neq; lia).
    assert (Hpow : 2 ^ (1 + 7 * N.of_nat (S f)) = 128 * 2 ^ (1 + 7 * N.of_nat f)).
    { replace (1 + 7 * N.of_nat (S f)) with (7 + (1 + 7 * N.of_nat f)) by lia. now rewrite N.pow_add_r. }
    assert (Hw : 2 ^ (7 * (i + 1)) = 128 * 2 ^ (7 * i)).
    { replace (7 * (i + 1)) with (7 + 7 * i) by lia. now rewrite N.pow_add_r. }
    rewrite (venc_S (S f)). destruct (N.ltb_spec n 128) as [Hs|Hs].
    + cbn [app]. rewrite vdec_cons, Hi9. destruct (N.ltb_spec n 128); [reflexivity|lia].
    + cbn [app]. rewrite vdec_cons, Hi9.
      assert (Hb : (n mod 128 + 128 <? 128) = false) by (apply N.ltb_ge; lia).
      rewrite Hb.
      rewrite (IH (i + 1) _ (n / 128) rest); [|lia|].
      * f_equal. f_equal. rewrite Hw.
        pose proof (N.div_mod n 128 ltac:(lia)) as Hdm.
        set (w := 2 ^ (7 * i)) in *. set (q := n / 128) in *. set (r := n mod 128) in *.
        replace (r + 128 - 128) with r by lia. nia.
      * apply N.div_lt_upper_bound; [lia|]. now rewrite <- Hpow.
Qed.

Theorem read_varint_varint n rest : n < 2 ^ 64 -> read_varint (varint n ++ rest) = Some (n, rest).
Proof.
  intros Hn. unfold read_varint, varint.
  rewrite (vdec_venc 9 0 0 n rest); [now rewrite N.mul_0_r, N.pow_0_r, N.mul_1_r|reflexivity|exact Hn].
Qed.

(* ------------------------------------------------------------------ *)
(* the TimeTicket message                                               *)
Lemma read_varint_small b rest : b < 128 -> read_varint (b :: rest) = Some (b, rest).
Proof.
  intros Hb. unfold read_varint. rewrite vdec_cons. change (0 =? 9) with false. cbv iota.
  destruct (N.ltb_spec b 128); [|lia]. f_equal. f_equal. change (2 ^ (7 * 0)) with 1. lia.
Qed.

Lemma take_app a rest : take (length a) (a ++ rest) = Some (a, rest).
Proof. induction a as [|x a IH]; cbn [length app take]; [reflexivity|now rewrite IH]. Qed.

Lemma read_bytes_app a rest : N.of_nat (length a) < 2 ^ 64 ->
  read_bytes (varint (N.of_nat (length a)) ++ a ++ rest) = Some (a, rest).
Proof.
  intros Hl. unfold read_bytes. rewrite read_varint_varint by exact Hl.
  rewrite app_length. destruct (N.leb_spec (N.of_nat (length a)) (N.of_nat (length a + length rest))); [|lia].
  rewrite Nat2N.id. apply take_app.
Qed.

Lemma pb_to_of_int64 z : (- 2 ^ 63 <= z < 2 ^ 63)%Z -> pb_to_int64 (pb_of_int64 z) = z.
Proof.
  intros Hz. unfold pb_to_int64, pb_of_int64.
  assert (H64 : (0 < 2 ^ 64)%Z) by reflexivity.
  pose proof (Z.mod_pos_bound z (2 ^ 64) H64) as Hm.
  set (r := (z mod 2 ^ 64)%Z) in *.
  assert (Hr : r = z \/ r = (z + 2 ^ 64)%Z).
  { destruct (Z_lt_le_dec z 0) as [Hneg|Hpos].
    - right. unfold r. symmetry. apply Z.mod_unique with (-1)%Z; lia.
    - left. unfold r. apply Z.mod_small. lia. }
  change (2 ^ 63) with (Z.to_N (2 ^ 63)%Z).
  destruct (N.ltb_spec (Z.to_N r) (Z.to_N (2 ^ 63)%Z)) as [Hlt|Hge]; rewrite Z2N.id by lia.
  - apply Z2N.inj_lt in Hlt; lia.
  - apply Z2N.inj_le in Hge; lia.
Qed.

Lemma pb_of_int64_bound z : pb_of_int64 z < 2 ^ 64.
Proof.
  unfold pb_of_int64. assert (H64 : (0 < 2 ^ 64)%Z) by reflexivity.
  pose proof (Z.mod_pos_bound z (2 ^ 64) H64) as Hm.
  apply N2Z.inj_lt. rewrite Z2N.id by lia. exact (proj2 Hm).
Qed.

Lemma parse_mono f : forall m bs r, parse f m bs = Some r -> forall f', (f <= f')%nat -> parse f' m bs = Some r.
Proof.
  induction f as [|f IH]; intros m bs r H f' Hle; [discriminate|].
  destruct f' as [|f']; [lia|]. cbn [parse] in *.
  destruct bs as [|b bs]; [exact H|].
  destruct (read_varint (b :: bs)) as [[tag rest]|]; [|discriminate].
  destruct ((tag / 8 <? 1) || (2 ^ 29 - 1 <? tag / 8)); [discriminate|].
  destruct (tag mod 8 =? 4); [discriminate|].
  destruct ((tag / 8 =? 1) && (tag mod 8 =? 0)).
  { destruct (read_varint rest) as [[v r']|]; [|discriminate]. apply IH; [exact H|lia]. }
  destruct ((tag / 8 =? 2) && (tag mod 8 =? 0)).
  { destruct (read_varint rest) as [[v r']|]; [|discriminate]. apply IH; [exact H|lia]. }
  destruct ((tag / 8 =? 3) && (tag mod 8 =? 2)).
  { destruct (read_bytes rest) as [[a r']|]; [|discriminate]. apply IH; [exact H|lia]. }
  destruct (skip _ _ rest) as [r'|]; [|discriminate]. apply IH; [exact H|lia].
Qed.

(* one field at a time *)
Lemma parse_lam f m v rest : v < 2 ^ 64 ->
  parse (S f) m (8 :: varint v ++ rest) = parse f (mkPT (pb_to_int64 v) (pt_delim m) (pt_actor m)) rest.
Proof.
  intros Hv. cbn [parse]. rewrite read_varint_small by lia.
  change (8 / 8) with 1. change (8 mod 8) with 0. cbv iota. cbn [N.ltb N.eqb andb orb].
  change ((1 <? 1) || (2 ^ 29 - 1 <? 1)) with false. cbv iota.
  change (0 =? 4) with false. change ((1 =? 1) && (0 =? 0)) with true. cbv iota.
  now rewrite read_varint_varint.
Qed.

Lemma parse_delim f m v rest : v < 2 ^ 64 ->
  parse (S f) m (16 :: varint v ++ rest) = parse f (mkPT (pt_lam m) (v mod 2 ^ 32) (pt_actor m)) rest.
Proof.
  intros Hv. cbn [parse]. rewrite read_varint_small by lia.
  change (16 / 8) with 2. change (16 mod 8) with 0.
  change ((2 <? 1) || (2 ^ 29 - 1 <? 2)) with false. cbv iota.
  change (0 =? 4) with false. change ((2 =? 1) && (0 =? 0)) with false. change ((2 =? 2) && (0 =? 0)) with true. cbv iota.
  now rewrite read_varint_varint.
Qed.

Lemma parse_actor f m a rest : N.of_nat (length a) < 2 ^ 64 ->
  parse (S f) m (26 :: varint (N.of_nat (length a)) ++ a ++ rest) = parse f (mkPT (pt_lam m) (pt_delim m) a) rest.
Proof.
  intros Hl. cbn [parse]. rewrite read_varint_small by lia.
  change (26 / 8) with 3. change (26 mod 8) with 2.
  change ((3 <? 1) || (2 ^ 29 - 1 <? 3)) with false. cbv iota.
  change (2 =? 4) with false. change ((3 =? 1) && (2 =? 0)) with false. change ((3 =? 2) && (2 =? 0)) with false.
  change ((3 =? 3) && (2 =? 2)) with true. cbv iota.
  now rewrite read_bytes_app.
Qed.

Definition ticket_ok (t : ptk) : Prop :=
  (- 2 ^ 63 <= pt_lam t < 2 ^ 63)%Z /\ pt_delim t < 2 ^ 32 /\ N.of_nat (length (pt_actor t)) < 2 ^ 64.

Lemma varint_nonempty v : (1 <= length (varint v))%nat.
Proof. unfold varint. rewrite venc_S. destruct (v <? 128); cbn [length]; lia. Qed.

(* C09: a ticket survives its protobuf encoding *)
Theorem ticket_roundtrip t : ticket_ok t -> decode_ticket (encode_ticket t) = Some t.
Proof.
  intros (Hl & Hd & Ha). destruct t as [lam delim actor]. cbn [pt_lam pt_delim pt_actor] in *.
  unfold decode_ticket, encode_ticket. cbn [pt_lam pt_delim pt_actor].
  pose proof (pb_of_int64_bound lam) as Hb.
  pose proof (varint_nonempty (pb_of_int64 lam)) as L1. pose proof (varint_nonempty delim) as L2.
  destruct (Z.eqb_spec lam 0) as [->|Hlam]; destruct (N.eqb_spec delim 0) as [->|Hdel]; destruct actor as [|x a]; cbn [app].
  - reflexivity.
  - apply (parse_mono 2); [|cbn [length]; lia].
    rewrite <- (app_nil_r (x :: a)) at 2. rewrite (parse_actor 1 _ (x :: a) []) by exact Ha. reflexivity.
  - apply (parse_mono 2); [|rewrite app_nil_r; cbn [length]; lia].
    rewrite app_nil_r. rewrite <- (app_nil_r (varint delim)). rewrite parse_delim by lia.
    cbn [parse pt_lam pt_actor]. now rewrite N.mod_small by exact Hd.
  - apply (parse_mono 3); [|cbn [length]; rewrite !app_length; cbn [length]; lia].
    rewrite <- (app_nil_r (x :: a)) at 2.
    change (16 :: varint delim ++ 26 :: varint (N.of_nat (length (x :: a))) ++ (x :: a) ++ [])
      with (16 :: varint delim ++ (26 :: varint (N.of_nat (length (x :: a))) ++ (x :: a) ++ [])).
    rewrite parse_delim by lia. rewrite parse_actor by exact Ha.
    cbn [parse pt_lam pt_delim]. now rewrite N.mod_small by exact Hd.
  - apply (parse_mono 2); [|rewrite app_nil_r; cbn [length]; lia].
    rewrite app_nil_r. rewrite <- (app_nil_r (varint (pb_of_int64 lam))). rewrite parse_lam by exact Hb.
    cbn [parse pt_delim pt_actor]. now rewrite pb_to_of_int64.
  - apply (parse_mono 3); [|cbn [length]; rewrite !app_length; cbn [length]; lia].
    rewrite <- (app_nil_r (x :: a)) at 2.
    change (8 :: varint (pb_of_int64 lam) ++ 26 :: varint (N.of_nat (length (x :: a))) ++ (x :: a) ++ [])
      with (8 :: varint (pb_of_int64 lam) ++ (26 :: varint (N.of_nat (length (x :: a))) ++ (x :: a) ++ [])).
    rewrite parse_lam by exact Hb. rewrite parse_actor by exact Ha.
    cbn [parse pt_lam pt_delim]. now rewrite pb_to_of_int64.
  - apply (parse_mono 3); [|rewrite app_nil_r; cbn [length]; rewrite !app_length; cbn [length]; lia].
    rewrite app_nil_r.
    change (8 :: varint (pb_of_int64 lam) ++ 16 :: varint delim) with (8 :: varint (pb_of_int64 lam) ++ (16 :: varint delim)).
    rewrite <- (app_nil_r (varint delim)).
    rewrite parse_lam by exact Hb. rewrite parse_delim by lia.
    cbn [parse pt_lam pt_delim pt_actor]. now rewrite pb_to_of_int64, N.mod_small by assumption.
  - apply (parse_mono 4); [|cbn [length]; rewrite !app_length; cbn [length]; rewrite !app_length; cbn [length]; lia].
    rewrite <- (app_nil_r (x :: a)) at 2.
    change (8 :: varint (pb_of_int64 lam) ++ 16 :: varint delim ++ 26 :: varint (N.of_nat (length (x :: a))) ++ (x :: a) ++ [])
      with (8 :: varint (pb_of_int64 lam) ++ (16 :: varint delim ++ (26 :: varint (N.of_nat (length (x :: a))) ++ (x :: a) ++ []))).
    rewrite parse_lam by exact Hb. rewrite parse_delim by lia. rewrite parse_actor by exact Ha.
    cbn [parse pt_lam pt_delim pt_actor]. now rewrite pb_to_of_int64, N.mod_small by assumption.
Qed.
