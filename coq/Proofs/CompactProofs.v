(* CompactProofs.v — compaction and stale (old-epoch) clients (property C10). *)
From YV Require Import Proto.Server Proofs.ProtoProofs.
From Coq Require Import ZifyBool.

Theorem compact_refused_when_attached s row :
  someone_attached s = true -> compact s false row = None.
Proof. intros H. unfold compact. now rewrite H. Qed.

Theorem compact_epoch_strict s force row s' :
  compact s force row = Some s' -> s_epoch s' = s_epoch s + 1 /\ (length (s_log s') <= 1)%nat /\ s_vvrows s' = [].
Proof.
  unfold compact. destruct (negb force && someone_attached s); [discriminate|].
  intros H; inversion H; subst. cbn. destruct row; cbn; repeat split; lia.
Qed.

Ltac destruct_all_matches H :=
  repeat match type of H with
         | context [match ?x with _ => _ end] => destruct x eqn:?
         | context [if ?x then _ else _] => destruct x eqn:?
         end.

(* a client of an older epoch can add nothing to the new log, whatever it sends *)
Theorem stale_push_adds_nothing s q ci s2 r e :
  aget (s_clients s) (q_client q) = Some ci -> cd_epoch (ci_doc ci) <> s_epoch s ->
  push_pull s q = (s2, r, e) -> s_log s2 = s_log s /\ s_head s2 = s_head s.
Proof.
  intros Hget Hep H. unfold push_pull in H. rewrite Hget in H.
  destruct (negb (continuity_ok _ _ _)); [inversion H; subst; auto|].
  assert (Hm : negb (cd_epoch (ci_doc ci) =? s_epoch s) = true) by lia.
  rewrite Hm in H.
  match type of H with context [store_changes ?a ?b ?c ?d] =>
    remember d as pushables eqn:Hpush; destruct (store_changes a b c pushables) as [[[rows h'] cs'] cc'] eqn:E end.
  assert (Hnil : pushables = [] ).
  { subst pushables. rewrite andb_true_r.
    match goal with |- (if ?g then [] else ?l) = [] => destruct g eqn:G; [reflexivity|] end.
    apply orb_false_iff in G. destruct G as [G _]. apply negb_false_iff in G.
    apply Nat.eqb_eq in G. now apply length_zero_iff_nil in G. }
  rewrite Hnil in E. cbn [store_changes] in E. inversion E; subst rows h' cs' cc'. clear E Hpush.
  destruct_all_matches H; inversion H; subst; cbn [s_log s_head]; rewrite ?app_nil_r; auto.
Qed.

(* its pull is refused with ErrEpochMismatch (it has to re-attach) ... *)
Theorem stale_pull_rejected s q ci s2 r e :
  aget (s_clients s) (q_client q) = Some ci -> cd_epoch (ci_doc ci) <> s_epoch s ->
  q_mode q = MPushPull -> q_status q = DAttached ->
  continuity_ok (cd_cseq (ci_doc ci)) (cd_cseq (ci_doc ci) + 1) (q_changes q) = true ->
  push_pull s q = (s2, r, e) -> e = EEpochMismatch.
Proof.
  intros Hget Hep Hmode Hst Hcont H. unfold push_pull in H. rewrite Hget, Hcont, Hmode, Hst in H. cbn [negb] in H.
  assert (Hm : negb (cd_epoch (ci_doc ci) =? s_epoch s) = true) by lia.
  rewrite Hm in H.
  match type of H with context [store_changes ?a ?b ?c ?d] =>
    destruct (store_changes a b c d) as [[[rows h'] cs'] cc'] eqn:E end.
  rewrite !andb_false_r in H. cbn [dstatus_eqb orb] in H. inversion H. reflexivity.
Qed.

(* ... while its detach goes through (it only has to let go) *)
Theorem stale_detach_ok s q ci s2 r e :
  aget (s_clients s) (q_client q) = Some ci -> cd_epoch (ci_doc ci) <> s_epoch s ->
  ci_active ci = true -> cd_status (ci_doc ci) = DAttached ->
  q_mode q = MPushPull -> q_status q = DDetached -> q_disable_gc q = false ->
  continuity_ok (cd_cseq (ci_doc ci)) (cd_cseq (ci_doc ci) + 1) (q_changes q) = true ->
  push_pull s q = (s2, r, e) ->
  e = ENone /\ exists ci', aget (s_clients s2) (q_client q) = Some ci' /\ cd_status (ci_doc ci') = DDetached.
Proof.
  intros Hget Hep Hact Hstat Hmode Hst Hgc Hcont H. unfold push_pull in H.
  rewrite Hget, Hcont, Hmode, Hst, Hgc, Hact, Hstat in H. cbn [negb] in H.
  assert (Hm : negb (cd_epoch (ci_doc ci) =? s_epoch s) = true) by lia.
  rewrite Hm in H.
  match type of H with context [store_changes ?a ?b ?c ?d] =>
    destruct (store_changes a b c d) as [[[rows h'] cs'] cc'] eqn:E end.
  rewrite !andb_false_r in H. cbn [dstatus_eqb orb andb] in H.
  inversion H; subst. split; [reflexivity|]. cbn [s_clients]. unfold set_cdoc. cbn [s_clients].
  eexists. split; [apply aget_aset_same|reflexivity].
Qed.
