(* ERHTCommute.v — concurrent Set operations on object members commute: whatever
   order two replicas apply them in, every key shows the same value (or nothing).
   This is the commutation premise of the generic convergence theorem (SEC.v) for
   the object flavor, on the ElementRHT model that is compared with the real
   crdt.ElementRHT call by call. *)
From YV Require Import Base.Ticket Crdt.ElemRHT Proofs.TicketProofs Proofs.ERHTProofs.

(* what Marshal shows under key k *)
Definition view (h : erht) (k : N) : option Z :=
  match linked h k with
  | Some n => match rn_removed n with None => Some (rn_val n) | Some _ => None end
  | None => None
  end.

(* the position ticket of whoever holds key k *)
Definition holder_pos (h : erht) (k : N) : option ticket := option_map rn_positioned (linked h k).

Definition fresh (h : erht) (id : ticket) : Prop :=
  nget (nodes h) id = None /\ forall id' n, nget (nodes h) id' = Some n -> rn_positioned n <> id.

Definition pset (h : erht) (k : N) (id : ticket) (v : Z) : erht := rht_set h k id v id.

Lemma linked_other h k id v k' : rht_wf h -> fresh h id -> k <> k' ->
  linked (pset h k id v) k' = linked h k'.
Proof.
  intros [Hl Hv Hm Hi] [Hf _] Hne. unfold pset, rht_set, linked at 1.
  destruct (linked h k) as [old|] eqn:El.
  - assert (Hold : exists lid, kget (by_key h) k = Some lid /\ nget (nodes h) lid = Some old).
    { unfold linked in El. destruct (kget (by_key h) k) as [lid|]; [|discriminate]. eauto. }
    destruct Hold as (lid & Ek & Hold). pose proof (Hi _ _ Hold) as Hidold.
    destruct (Hl _ _ Ek) as (n0 & Hn0 & Hk0). rewrite Hold in Hn0. injection Hn0 as <-.
    destruct (tafter id (rn_positioned old)); cbn [by_key nodes].
    + rewrite kget_kset. destruct (N.eqb_spec k k'); [contradiction|].
      unfold linked. destruct (kget (by_key h) k') as [id'|] eqn:Ek'; [|reflexivity].
      destruct (Hl _ _ Ek') as (n' & Hn' & Hk').
      rewrite !nget_nset. cbn [rn_id].
      destruct (teqb id id') eqn:E1; [apply teqb_spec in E1; subst; congruence|].
      assert (Hid' : rn_id (match rn_removed old with None => fst (rn_remove old id) | Some _ => old end) = lid).
      { destruct (rn_removed old); [exact Hidold|]. destruct (rn_remove_same old id) as (A & _). now rewrite A. }
      rewrite Hid'. destruct (teqb lid id') eqn:E2; [|reflexivity].
      apply teqb_spec in E2. subst id'. rewrite Hold in Hn'. injection Hn' as <-. congruence.
    + unfold linked. destruct (kget (by_key h) k') as [id'|] eqn:Ek'; [|reflexivity].
      rewrite nget_nset.
      assert (Hid' : rn_id (fst (rn_remove (mkRN k id v None None) (rn_positioned old))) = id).
      { unfold rn_remove. cbn. destruct (tafter (rn_positioned old) id && true); reflexivity. }
      rewrite Hid'. destruct (teqb id id') eqn:E1; [|reflexivity].
      apply teqb_spec in E1. subst id'. destruct (Hl _ _ Ek') as (n' & Hn' & _). congruence.
  - cbn [by_key nodes]. rewrite kget_kset. destruct (N.eqb_spec k k'); [contradiction|].
    unfold linked. destruct (kget (by_key h) k') as [id'|] eqn:Ek'; [|reflexivity].
    rewrite nget_nset. cbn [rn_id]. destruct (teqb id id') eqn:E1; [|reflexivity].
    apply teqb_spec in E1. subst id'. destruct (Hl _ _ Ek') as (n' & Hn' & _). congruence.
Qed.

(* after a Set the key is held by the new value if it wins, by the previous holder otherwise *)
Lemma linked_same h k id v : rht_wf h -> fresh h id ->
  linked (pset h k id v) k =
  match linked h k with
  | None => Some (mkRN k id v (Some id) None)
  | Some old => if tafter id (rn_positioned old) then Some (mkRN k id v (Some id) None) else Some old
  end.
Proof.
  intros [Hl Hv Hm Hi] [Hf _]. unfold pset, rht_set.
  destruct (linked h k) as [old|] eqn:El.
  - assert (Hold : exists lid, kget (by_key h) k = Some lid /\ nget (nodes h) lid = Some old).
    { unfold linked in El. destruct (kget (by_key h) k) as [lid|]; [|discriminate]. eauto. }
    destruct Hold as (lid & Ek & Hold). pose proof (Hi _ _ Hold) as Hidold.
    destruct (tafter id (rn_positioned old)); unfold linked; cbn [by_key nodes].
    + rewrite kget_kset, N.eqb_refl, nget_nset. cbn [rn_id]. now rewrite teqb_refl.
    + rewrite Ek, nget_nset.
      assert (Hid' : rn_id (fst (rn_remove (mkRN k id v None None) (rn_positioned old))) = id).
      { unfold rn_remove. cbn. destruct (tafter (rn_positioned old) id && true); reflexivity. }
      rewrite Hid'. destruct (teqb id lid) eqn:E1; [apply teqb_spec in E1; subst; congruence|exact Hold].
  - unfold linked. cbn [by_key nodes]. rewrite kget_kset, N.eqb_refl, nget_nset. cbn [rn_id]. now rewrite teqb_refl.
Qed.

Lemma view_other h k id v k' : rht_wf h -> fresh h id -> k <> k' -> view (pset h k id v) k' = view h k'.
Proof. intros. unfold view. now rewrite linked_other. Qed.

Lemma fresh_after h k id v id2 : rht_wf h -> fresh h id -> fresh h id2 -> id <> id2 -> fresh (pset h k id v) id2.
Proof.
  intros Hwf [Hf Hp] [Hf2 Hp2] Hne. unfold pset, rht_set, fresh.
  destruct Hwf as [Hl Hv Hm Hi].
  destruct (linked h k) as [old|] eqn:El.
  - assert (Hold : exists lid, kget (by_key h) k = Some lid /\ nget (nodes h) lid = Some old).
    { unfold linked in El. destruct (kget (by_key h) k) as [lid|]; [|discriminate]. eauto. }
    destruct Hold as (lid & Ek & Hold). pose proof (Hi _ _ Hold) as Hidold.
    destruct (tafter id (rn_positioned old)); cbn [nodes].
    + set (old' := match rn_removed old with None => fst (rn_remove old id) | Some _ => old end).
      assert (Ho : rn_id old' = lid /\ rn_positioned old' = rn_positioned old).
      { unfold old'. destruct (rn_removed old); [auto|]. destruct (rn_remove_same old id) as (A & B & _).
        split; [now rewrite A|]. unfold rn_positioned. now rewrite A, B. }
      destruct Ho as [Ho1 Ho2]. split.
      * rewrite !nget_nset. cbn [rn_id]. destruct (teqb id id2) eqn:E; [apply teqb_spec in E; contradiction|].
        rewrite Ho1. destruct (teqb lid id2) eqn:E2; [apply teqb_spec in E2; subst; congruence|exact Hf2].
      * intros id' n H. rewrite !nget_nset in H. cbn [rn_id] in H.
        destruct (teqb id id'); [injection H as <-; cbn; congruence|].
        rewrite Ho1 in H. destruct (teqb lid id'); [injection H as <-; rewrite Ho2; eapply Hp2; eauto|eapply Hp2; eauto].
    + assert (Hid' : rn_id (fst (rn_remove (mkRN k id v None None) (rn_positioned old))) = id /\
                     rn_positioned (fst (rn_remove (mkRN k id v None None) (rn_positioned old))) = id).
      { unfold rn_remove. cbn. destruct (tafter (rn_positioned old) id && true); cbn; auto. }
      destruct Hid' as [A B]. split.
      * rewrite nget_nset, A. destruct (teqb id id2) eqn:E; [apply teqb_spec in E; contradiction|exact Hf2].
      * intros id' n H. rewrite nget_nset, A in H.
        destruct (teqb id id'); [injection H as <-; rewrite B; congruence|eapply Hp2; eauto].
  - cbn [nodes]. split.
    + rewrite nget_nset. cbn [rn_id]. destruct (teqb id id2) eqn:E; [apply teqb_spec in E; contradiction|exact Hf2].
    + intros id' n H. rewrite nget_nset in H. cbn [rn_id] in H.
      destruct (teqb id id'); [injection H as <-; cbn; congruence|eapply Hp2; eauto].
Qed.

(* the value a key shows after one Set *)
Lemma view_same h k id v : rht_wf h -> fresh h id ->
  view (pset h k id v) k =
  match linked h k with
  | None => Some v
  | Some old => if tafter id (rn_positioned old) then Some v else view h k
  end.
Proof.
  intros Hwf Hf. unfold view at 1. rewrite linked_same by assumption.
  destruct (linked h k) as [old|] eqn:El; [|reflexivity].
  destruct (tafter id (rn_positioned old)); [reflexivity|]. unfold view. now rewrite El.
Qed.

(* the value under k after Set a then Set b on the same key *)
Lemma view_two_same h k a va b vb : rht_wf h -> fresh h a -> fresh h b -> a <> b ->
  view (pset (pset h k a va) k b vb) k =
  match linked h k with
  | None => if tafter b a then Some vb else Some va
  | Some old =>
      if tafter a (rn_positioned old) then (if tafter b a then Some vb else Some va)
      else if tafter b (rn_positioned old) then Some vb else view h k
  end.
Proof.
  intros Hwf Fa Fb Hab.
  assert (Wa : rht_wf (pset h k a va)) by (destruct Fa; now apply rht_set_wf).
  assert (Fba : fresh (pset h k a va) b) by now apply fresh_after.
  rewrite view_same by assumption. rewrite linked_same by assumption.
  destruct (linked h k) as [old|] eqn:El.
  - destruct (tafter a (rn_positioned old)) eqn:EaP.
    + cbn [rn_positioned rn_moved]. destruct (tafter b a); [reflexivity|].
      rewrite view_same by assumption. now rewrite El, EaP.
    + destruct (tafter b (rn_positioned old)); [reflexivity|].
      rewrite view_same by assumption. now rewrite El, EaP.
  - cbn [rn_positioned rn_moved]. destruct (tafter b a); [reflexivity|].
    rewrite view_same by assumption. now rewrite El.
Qed.

(* pure ticket order: the winner among {holder P, a, b} does not depend on the order of arrival *)
Lemma winner_sym {A} (P a b : ticket) (va vb x : A) : a <> b ->
  (if tafter a P then (if tafter b a then vb else va) else if tafter b P then vb else x) =
  (if tafter b P then (if tafter a b then va else vb) else if tafter a P then va else x).
Proof.
  intros Hab.
  destruct (tafter_total_b a b Hab) as [T|T].
  - assert (N : tafter b a = false) by (apply tafter_false; apply tafter_spec in T; now apply tgt_asym).
    rewrite T, N. destruct (tafter a P) eqn:EaP, (tafter b P) eqn:EbP; try reflexivity.
    (* b > P and a > b give a > P *)
    assert (tafter a P = true) by (eapply tafter_trans_b; eauto). congruence.
  - assert (N : tafter a b = false) by (apply tafter_false; apply tafter_spec in T; now apply tgt_asym).
    rewrite T, N. destruct (tafter a P) eqn:EaP, (tafter b P) eqn:EbP; try reflexivity.
    assert (tafter b P = true) by (eapply tafter_trans_b; eauto). congruence.
Qed.

Lemma winner_sym_none {A} (a b : ticket) (va vb : A) : a <> b ->
  (if tafter b a then vb else va) = (if tafter a b then va else vb).
Proof.
  intros Hab. destruct (tafter_total_b a b Hab) as [T|T].
  - assert (N : tafter b a = false) by (apply tafter_false; apply tafter_spec in T; now apply tgt_asym). now rewrite T, N.
  - assert (N : tafter a b = false) by (apply tafter_false; apply tafter_spec in T; now apply tgt_asym). now rewrite T, N.
Qed.

(* two concurrent Sets, in either order: every key shows the same *)
Theorem set_set_commute h ka a va kb b vb : rht_wf h -> fresh h a -> fresh h b -> a <> b ->
  forall k, view (pset (pset h ka a va) kb b vb) k = view (pset (pset h kb b vb) ka a va) k.
Proof.
  intros Hwf Fa Fb Hab k.
  assert (Wa : rht_wf (pset h ka a va)) by (destruct Fa; now apply rht_set_wf).
  assert (Wb : rht_wf (pset h kb b vb)) by (destruct Fb; now apply rht_set_wf).
  assert (Fba : fresh (pset h ka a va) b) by now apply fresh_after.
  assert (Fab : fresh (pset h kb b vb) a) by (apply fresh_after; auto).
  destruct (N.eq_dec ka kb) as [->|Hk].
  - (* the same key *)
    destruct (N.eq_dec kb k) as [->|Hk2].
    + rewrite (view_two_same h k a va b vb), (view_two_same h k b vb a va) by auto.
      destruct (linked h k) as [old|]; [apply winner_sym; exact Hab|apply winner_sym_none; exact Hab].
    + rewrite !view_other by assumption. reflexivity.
  - (* different keys *)
    destruct (N.eq_dec kb k) as [->|Hk2].
    + rewrite view_same by assumption. rewrite (view_other (pset h k b vb) ka a va k) by auto.
      rewrite view_same by assumption. rewrite linked_other by auto.
      destruct (linked h k) as [old|]; [|reflexivity].
      destruct (tafter b (rn_positioned old)); [reflexivity|]. now rewrite view_other by auto.
    + rewrite (view_other (pset h ka a va) kb b vb k) by auto.
      destruct (N.eq_dec ka k) as [->|Hk3].
      * rewrite !view_same by assumption. rewrite linked_other by auto.
        destruct (linked h k) as [old|]; [|reflexivity].
        destruct (tafter a (rn_positioned old)); [reflexivity|]. now rewrite view_other by auto.
      * rewrite !view_other by auto. reflexivity.
Qed.

(* ------------------------------------------------------------------ *)
(* any number of concurrent Sets, in any delivery order                *)
From Coq Require Import Permutation.

Definition sop := (N * ticket * Z)%type.                     (* key, ticket, value *)
Definition sop_id (o : sop) : ticket := snd (fst o).
Definition apply_sop (h : erht) (o : sop) : erht := pset h (fst (fst o)) (sop_id o) (snd o).

(* the abstract object: who holds each key *)
Definition lset (f : N -> option rnode) (o : sop) : N -> option rnode :=
  fun k' =>
    let k := fst (fst o) in let id := sop_id o in
    if N.eqb k k' then
      match f k with
      | None => Some (mkRN k id (snd o) (Some id) None)
      | Some old => if tafter id (rn_positioned old) then Some (mkRN k id (snd o) (Some id) None) else Some old
      end
    else f k'.

Lemma linked_apply h o : rht_wf h -> fresh h (sop_id o) ->
  forall k', linked (apply_sop h o) k' = lset (linked h) o k'.
Proof.
  intros Hwf Hf k'. destruct o as [[k id] v]. unfold apply_sop, lset, sop_id in *. cbn [fst snd] in *.
  destruct (N.eqb_spec k k') as [<-|Hne].
  - now rewrite linked_same.
  - now apply linked_other.
Qed.

Lemma lset_ext f g o : (forall k, f k = g k) -> forall k, lset f o k = lset g o k.
Proof. intros H k. unfold lset. rewrite H. destruct (N.eqb _ _); [reflexivity|apply H]. Qed.

Lemma lset_commute f a b : sop_id a <> sop_id b ->
  forall k, lset (lset f a) b k = lset (lset f b) a k.
Proof.
  intros Hab k. destruct a as [[ka ia] va], b as [[kb ib] vb]. unfold lset, sop_id in *. cbn [fst snd] in *.
  destruct (N.eqb_spec ka kb) as [<-|Hk].
  - rewrite N.eqb_refl. destruct (N.eqb_spec ka k) as [<-|Hk2]; [|reflexivity].
    destruct (f ka) as [old|].
    + destruct (tafter ia (rn_positioned old)) eqn:EaP, (tafter ib (rn_positioned old)) eqn:EbP;
        cbn [rn_positioned rn_moved]; rewrite ?EaP, ?EbP; try reflexivity.
      destruct (tafter_total_b ia ib Hab) as [T|T].
      * assert (N0 : tafter ib ia = false) by (apply tafter_false; apply tafter_spec in T; now apply tgt_asym).
        now rewrite T, N0.
      * assert (N0 : tafter ia ib = false) by (apply tafter_false; apply tafter_spec in T; now apply tgt_asym).
        now rewrite T, N0.
      * (* a beats the holder, b does not: b cannot beat a *)
        assert (N0 : tafter ib ia = false).
        { destruct (tafter ib ia) eqn:E; [|reflexivity].
          assert (tafter ib (rn_positioned old) = true) by (eapply tafter_trans_b; eauto). congruence. }
        now rewrite N0.
      * assert (N0 : tafter ia ib = false).
        { destruct (tafter ia ib) eqn:E; [|reflexivity].
          assert (tafter ia (rn_positioned old) = true) by (eapply tafter_trans_b; eauto). congruence. }
        now rewrite N0.
    + cbn [rn_positioned rn_moved].
      destruct (tafter_total_b ia ib Hab) as [T|T].
      * assert (N0 : tafter ib ia = false) by (apply tafter_false; apply tafter_spec in T; now apply tgt_asym).
        now rewrite T, N0.
      * assert (N0 : tafter ia ib = false) by (apply tafter_false; apply tafter_spec in T; now apply tgt_asym).
        now rewrite T, N0.
  - destruct (N.eqb_spec kb ka) as [E|_]; [congruence|].
    destruct (N.eqb_spec ka kb) as [E|_]; [congruence|].
    destruct (N.eqb_spec kb k) as [<-|Hk2].
    + destruct (N.eqb_spec ka kb) as [E|_]; [congruence|]. reflexivity.
    + reflexivity.
Qed.

Definition all_fresh (h : erht) (l : list sop) : Prop := forall o, In o l -> fresh h (sop_id o).

Lemma fold_lset_ext l : forall f g, (forall k, f k = g k) -> forall k, fold_left lset l f k = fold_left lset l g k.
Proof.
  induction l as [|o l IH]; intros f g H k; cbn [fold_left]; [apply H|].
  apply IH. now apply lset_ext.
Qed.

Lemma linked_fold l : forall h, rht_wf h -> all_fresh h l -> NoDup (map sop_id l) ->
  rht_wf (fold_left apply_sop l h) /\
  forall k, linked (fold_left apply_sop l h) k = fold_left lset l (linked h) k.
Proof.
  induction l as [|o l IH]; intros h Hwf Hf Hnd; cbn [fold_left]; [split; [exact Hwf|reflexivity]|].
  cbn [map] in Hnd. apply NoDup_cons_iff in Hnd. destruct Hnd as [Hni Hnd].
  assert (Fo : fresh h (sop_id o)) by (apply Hf; now left).
  assert (Wo : rht_wf (apply_sop h o)).
  { destruct o as [[k id] v]. unfold apply_sop, pset, sop_id in *. cbn [fst snd] in *. destruct Fo. now apply rht_set_wf. }
  assert (Fl : all_fresh (apply_sop h o) l).
  { intros o' Ho'. destruct o as [[k id] v]. unfold apply_sop. cbn [fst snd].
    apply fresh_after; [exact Hwf|exact Fo|apply Hf; now right|].
    intros E. apply Hni. change (sop_id (k, id, v)) with id. change (sop_id (k, id, v)) with id in E.
    rewrite E. apply in_map. exact Ho'. }
  destruct (IH _ Wo Fl Hnd) as [W L]. split; [exact W|].
  intros k. rewrite L. apply fold_lset_ext. now apply linked_apply.
Qed.

Lemma fold_lset_perm l1 l2 : Permutation l1 l2 -> NoDup (map sop_id l1) ->
  forall f k, fold_left lset l1 f k = fold_left lset l2 f k.
Proof.
  induction 1 as [|x l l' HP IH|x y l|l l' l'' HP1 IH1 HP2 IH2]; intros Hnd f k.
  - reflexivity.
  - cbn [fold_left]. cbn [map] in Hnd. apply NoDup_cons_iff in Hnd. now apply IH.
  - cbn [fold_left]. apply fold_lset_ext. apply lset_commute.
    cbn [map] in Hnd. apply NoDup_cons_iff in Hnd. destruct Hnd as [Hni _].
    intros E. apply Hni. left. now symmetry.
  - rewrite IH1 by exact Hnd. apply IH2.
    eapply Permutation_NoDup; [|exact Hnd]. now apply Permutation_map.
Qed.

(* any two delivery orders of the same concurrent Sets: every key shows the same *)
Theorem sets_converge h l1 l2 : rht_wf h -> all_fresh h l1 -> NoDup (map sop_id l1) -> Permutation l1 l2 ->
  forall k, view (fold_left apply_sop l1 h) k = view (fold_left apply_sop l2 h) k.
Proof.
  intros Hwf Hf Hnd HP k.
  assert (Hf2 : all_fresh h l2) by (intros o Ho; apply Hf; eapply Permutation_in; [symmetry; exact HP|exact Ho]).
  assert (Hnd2 : NoDup (map sop_id l2)) by (eapply Permutation_NoDup; [apply Permutation_map; exact HP|exact Hnd]).
  destruct (linked_fold l1 h Hwf Hf Hnd) as [_ L1]. destruct (linked_fold l2 h Hwf Hf2 Hnd2) as [_ L2].
  unfold view. rewrite L1, L2. now rewrite (fold_lset_perm l1 l2 HP Hnd).
Qed.

(* the premises are met: three concurrent Sets (two on one key) on an object that already has that key *)
Definition ex_base : erht := pset empty_erht 1%N (mkT 1 1%N 0%N) 10.
Definition ex_ops : list sop :=
  [ (1%N, mkT 2 1%N 0%N, 20); (1%N, mkT 2 2%N 0%N, 30); (2%N, mkT 3 1%N 0%N, 40) ].
Lemma fresh_empty id : fresh empty_erht id.
Proof. split; [reflexivity|]. intros id' n H. discriminate. Qed.
Example premises_hold :
  rht_wf ex_base /\ all_fresh ex_base ex_ops /\ NoDup (map sop_id ex_ops) /\
  view (fold_left apply_sop ex_ops ex_base) 1%N = Some 30 /\
  view (fold_left apply_sop (rev ex_ops) ex_base) 1%N = Some 30.
Proof.
  assert (W : rht_wf ex_base).
  { unfold ex_base, pset. destruct (fresh_empty (mkT 1 1%N 0%N)). apply rht_set_wf; [apply rht_wf_empty|assumption|assumption]. }
  split; [exact W|]. split.
  - intros o Ho. unfold ex_base. apply fresh_after; [apply rht_wf_empty|apply fresh_empty|apply fresh_empty|].
    cbn in Ho. destruct Ho as [<-|[<-|[<-|[]]]]; cbn; discriminate.
  - split; [|split; vm_compute; reflexivity].
    cbn. repeat constructor; cbn; intuition discriminate.
Qed.
