(* ProtoProofs.v — invariants of the push/pull protocol model (property C04,
   and the parts of C05/C06 that are about the change log and checkpoints). *)
From YV Require Import Proto.Server Proto.System Proofs.VVProofs.
From Coq Require Import ZifyBool.

Fixpoint zseq (start : Z) (n : nat) : list Z :=
  match n with O => [] | S k => start :: zseq (start + 1) k end.

Lemma zseq_app a n m : zseq a (n + m) = zseq a n ++ zseq (a + Z.of_nat n) m.
Proof.
  revert a. induction n as [|n IH]; intros a; cbn [zseq Nat.add app].
  - f_equal. lia.
  - f_equal. rewrite IH. f_equal. f_equal. lia.
Qed.

Lemma zseq_length a n : length (zseq a n) = n.
Proof. revert a. induction n; intros; cbn; auto. Qed.

Definition log_dense (s : srv) : Prop :=
  map st_sseq (s_log s) = zseq 1 (length (s_log s)) /\ s_head s = Z.of_nat (length (s_log s)).

(* ---- store_changes --------------------------------------------------------- *)

Lemma store_changes_spec cs : forall head cps cpc rows head' s' c',
  store_changes head cps cpc cs = (rows, head', s', c') ->
  map st_sseq rows = zseq (head + 1) (length cs) /\ map st_ch rows = cs /\
  head' = head + Z.of_nat (length cs) /\ length rows = length cs /\
  (cs = [] -> s' = cps /\ c' = cpc) /\ (cs <> [] -> s' = head').
Proof.
  induction cs as [|c r IH]; intros head cps cpc rows head' s' c' H; cbn [store_changes] in H.
  - inversion H; subst. cbn.
    split; [reflexivity|]. split; [reflexivity|]. split; [lia|]. split; [reflexivity|].
    split; [intros _; split; reflexivity|intros F; contradiction].
  - destruct (store_changes (head + 1) (head + 1) (Z.max cpc (h_cseq c)) r) as [[[rest h2] s2] c2] eqn:E.
    inversion H; subst. destruct (IH _ _ _ _ _ _ _ E) as (A & B & C & D & F & G).
    cbn [map length zseq].
    split; [now rewrite A|]. split; [now rewrite B|]. split; [lia|]. split; [lia|].
    split; [intros X; discriminate|].
    intros _. destruct r as [|c1 r1].
    + destruct (F eq_refl) as [-> _]. cbn in C. lia.
    + assert (Hne : c1 :: r1 <> []) by discriminate. specialize (G Hne). lia.
Qed.

(* the client sequence after storing consecutive changes *)
Lemma store_changes_cseq cs : forall head cps cpc rows head' s' c',
  store_changes head cps cpc cs = (rows, head', s', c') ->
  map h_cseq cs = zseq (cpc + 1) (length cs) -> c' = cpc + Z.of_nat (length cs).
Proof.
  induction cs as [|c r IH]; intros head cps cpc rows head' s' c' H Hc; cbn [store_changes] in H.
  - inversion H; subst. cbn. lia.
  - destruct (store_changes (head + 1) (head + 1) (Z.max cpc (h_cseq c)) r) as [[[rest h2] s2] c2] eqn:E.
    inversion H; subst. cbn [map length zseq] in Hc. inversion Hc as [[Hh Ht]].
    rewrite Hh in E. replace (Z.max cpc (cpc + 1)) with (cpc + 1) in E by lia.
    rewrite Hh in Ht.
    specialize (IH _ _ _ _ _ _ _ E Ht). cbn [length]. lia.
Qed.

(* ---- push_pull only appends to the log ---------------------------------------- *)

Ltac destruct_all_matches H :=
  repeat match type of H with
         | context [match ?x with _ => _ end] => destruct x eqn:?
         | context [if ?x then _ else _] => destruct x eqn:?
         end.

Lemma push_pull_appends s q s2 r e :
  push_pull s q = (s2, r, e) ->
  exists new, s_log s2 = s_log s ++ new /\ s_head s2 = s_head s + Z.of_nat (length new) /\
              map st_sseq new = zseq (s_head s + 1) (length new) /\
              s_epoch s2 = s_epoch s /\ s_nopres s2 = s_nopres s /\ s_threshold s2 = s_threshold s.
Proof.
  unfold push_pull. intros H.
  destruct (aget (s_clients s) (q_client q)) as [ci|]; [|inversion H; subst; exists []; cbn; rewrite app_nil_r; repeat split; lia].
  destruct (negb (continuity_ok _ _ _)); [inversion H; subst; exists []; cbn; rewrite app_nil_r; repeat split; lia|].
  match type of H with context [store_changes ?a ?b ?c ?d] =>
    remember d as pushables eqn:Hpush; destruct (store_changes a b c pushables) as [[[rows h'] cs'] cc'] eqn:E end.
  destruct (store_changes_spec _ _ _ _ _ _ _ _ E) as (A & B & C & D & _).
  rewrite <- D in A, C. clear Hpush.
  destruct_all_matches H; inversion H; subst; cbn [s_log s_head s_epoch s_nopres s_threshold];
    try (exists []; cbn; rewrite app_nil_r; repeat split; lia);
    try (exists rows; repeat split; try reflexivity; try assumption; try lia).
Qed.

Lemma log_dense_push_pull s q s2 r e :
  log_dense s -> push_pull s q = (s2, r, e) -> log_dense s2.
Proof.
  intros [Hm Hh] H. destruct (push_pull_appends _ _ _ _ _ H) as (new & Hl & Hh2 & Hs & _).
  unfold log_dense. rewrite Hl, map_app, app_length, Hm, Hs, Hh2, Hh. split.
  - rewrite zseq_app. f_equal. f_equal. lia.
  - lia.
Qed.

Lemma log_dense_empty np th : log_dense (empty_srv np th).
Proof. split; reflexivity. Qed.

Lemma log_dense_activate s a : log_dense s -> log_dense (activate s a).
Proof. intros H; exact H. Qed.

Lemma log_dense_mark_attached s a s' : log_dense s -> mark_attached s a = Some s' -> log_dense s'.
Proof.
  unfold mark_attached. destruct (aget (s_clients s) a) as [ci|]; [|discriminate].
  destruct (ci_active ci && negb (is_attached ci)); [|discriminate]. intros H E; inversion E; subst. exact H.
Qed.

(* ---- aget / aset ------------------------------------------------------------- *)

Lemma aget_aset_same {A} (l : list (actor * A)) a x : aget (aset l a x) a = Some x.
Proof.
  induction l as [|[k y] r IH]; cbn [aset aget]; [now rewrite N.eqb_refl|].
  destruct (N.eqb k a) eqn:E; cbn [aget]; [now rewrite N.eqb_refl|now rewrite E].
Qed.

Lemma aget_aset_other {A} (l : list (actor * A)) a x b : a <> b -> aget (aset l a x) b = aget l b.
Proof.
  intros Hab. induction l as [|[k y] r IH]; cbn [aset aget].
  - destruct (N.eqb_spec a b); [contradiction|reflexivity].
  - destruct (N.eqb_spec k a) as [->|Hka]; cbn [aget].
    + destruct (N.eqb_spec a b); [contradiction|reflexivity].
    + destruct (N.eqb k b); [reflexivity|exact IH].
Qed.

(* ---- the request of an honest client passes the server's checks ---------------- *)

Lemma continuity_skips cp_c : forall l e,
  Forall (fun c => h_cseq c <= cp_c) l -> continuity_ok cp_c e l = true.
Proof.
  induction l as [|c r IH]; intros e H; cbn [continuity_ok]; [reflexivity|].
  inversion H; subst. assert (h_cseq c <=? cp_c = true) as -> by lia. now apply IH.
Qed.

Lemma continuity_consecutive cp_c : forall l e,
  cp_c < e -> map h_cseq l = zseq e (length l) -> continuity_ok cp_c e l = true.
Proof.
  induction l as [|c r IH]; intros e He H; cbn [continuity_ok]; [reflexivity|].
  cbn [map length zseq] in H. inversion H as [[Hh Ht]].
  assert (h_cseq c <=? cp_c = false) as -> by lia. rewrite Hh, Z.eqb_refl.
  apply IH; [lia|]. now rewrite Hh in Ht.
Qed.

Lemma continuity_app cp_c l1 : forall l2 e,
  Forall (fun c => h_cseq c <= cp_c) l1 ->
  continuity_ok cp_c e (l1 ++ l2) = continuity_ok cp_c e l2.
Proof.
  induction l1 as [|c r IH]; intros l2 e H; cbn [app continuity_ok]; [reflexivity|].
  inversion H; subst. assert (h_cseq c <=? cp_c = true) as -> by lia. now apply IH.
Qed.

Lemma filter_all_above (l : list chdr) : forall e b,
  map h_cseq l = zseq e (length l) -> b < e ->
  filter (fun c => negb (h_cseq c <=? b)) l = l.
Proof.
  induction l as [|c r IH]; intros e b H Hb; cbn [filter]; [reflexivity|].
  cbn [map length zseq] in H. inversion H as [[Hh Ht]].
  assert (negb (h_cseq c <=? b) = true) as -> by lia. f_equal.
  rewrite Hh in Ht. apply (IH (e + 1)); [exact Ht|lia].
Qed.

(* a list with consecutive client sequences splits at the stored checkpoint *)
Lemma consecutive_split (l : list chdr) : forall base d,
  map h_cseq l = zseq (base + 1) (length l) -> (d <= length l)%nat ->
  Forall (fun c => h_cseq c <= base + Z.of_nat d) (firstn d l) /\
  map h_cseq (skipn d l) = zseq (base + Z.of_nat d + 1) (length (skipn d l)) /\
  filter (fun c => negb (h_cseq c <=? base + Z.of_nat d)) l = skipn d l.
Proof.
  induction l as [|c r IH]; intros base d H Hd.
  - destruct d; cbn; repeat split; auto; constructor.
  - cbn [map length zseq] in H. inversion H as [[Hh Ht]].
    destruct d as [|d].
    + cbn [firstn skipn]. split; [constructor|]. split.
      * cbn [map length zseq]. rewrite Hh. f_equal; [lia|]. rewrite Hh in Ht.
        replace (base + Z.of_nat 0 + 1 + 1) with (base + 1 + 1) by lia. exact Ht.
      * apply (filter_all_above (c :: r) (base + 1)); [exact H|lia].
    + cbn [firstn skipn length] in *. rewrite Hh in Ht.
      destruct (IH (base + 1) d Ht ltac:(lia)) as (A & B & F). split.
      * constructor; [lia|]. eapply Forall_impl; [|exact A]. cbn. intros x Hx. lia.
      * split.
        -- replace (base + Z.of_nat (S d) + 1) with (base + 1 + Z.of_nat d + 1) by lia. exact B.
        -- cbn [filter]. assert (negb (h_cseq c <=? base + Z.of_nat (S d)) = false) as -> by lia.
           rewrite <- F. apply filter_ext. intros x. f_equal. lia.
Qed.

(* ---- what PushPull does for an attached, honest client --------------------------- *)

Definition rows_of (a : actor) (l : list stored) : list stored :=
  filter (fun st => N.eqb (h_actor (st_ch st)) a) l.

Definition not_of (a : actor) (l : list stored) : list stored :=
  filter (fun st => negb (N.eqb (h_actor (st_ch st)) a)) l.

Record srv_ok (s : srv) (a : actor) (k : cli) (ci : cinfo) : Prop := {
  so_get : aget (s_clients s) a = Some ci;
  so_active : ci_active ci = true;
  so_status : cd_status (ci_doc ci) = DAttached;
  so_epoch : cd_epoch (ci_doc ci) = s_epoch s;
  so_sseq : k_cp_s k <= cd_sseq (ci_doc ci) <= s_head s;
  so_cseq : k_cp_c k <= cd_cseq (ci_doc ci) <= k_cp_c k + Z.of_nat (length (k_pending k));
  so_pending : map h_cseq (k_pending k) = zseq (k_cp_c k + 1) (length (k_pending k));
  so_nonneg : 0 <= k_cp_s k /\ 0 <= k_cp_c k
}.

Definition mk_rows (head : Z) (cs : list chdr) : list stored :=
  fst (fst (fst (store_changes head 0 0 cs))).

Lemma store_changes_rows cs : forall head a b a' b',
  fst (fst (fst (store_changes head a b cs))) = fst (fst (fst (store_changes head a' b' cs))).
Proof.
  induction cs as [|c r IH]; intros; cbn [store_changes]; [reflexivity|].
  destruct (store_changes (head + 1) (head + 1) (Z.max b (h_cseq c)) r) as [[[r1 h1] s1] c1] eqn:E1.
  destruct (store_changes (head + 1) (head + 1) (Z.max b' (h_cseq c)) r) as [[[r2 h2] s2] c2] eqn:E2.
  cbn [fst]. f_equal.
  pose proof (IH (head + 1) (head + 1) (Z.max b (h_cseq c)) (head + 1) (Z.max b' (h_cseq c))) as H.
  rewrite E1, E2 in H. exact H.
Qed.

Theorem push_pull_honest s a k ci m v :
  srv_ok s a k ci -> s_nopres s = false ->
  let d := Z.to_nat (cd_cseq (ci_doc ci) - k_cp_c k) in
  let pushed := skipn d (k_pending k) in
  let new := mk_rows (s_head s) pushed in
  let head' := s_head s + Z.of_nat (length pushed) in
  let ackc := k_cp_c k + Z.of_nat (length (k_pending k)) in
  exists s2 r,
    push_pull s (mk_request a k m v) = (s2, r, ENone) /\
    s_log s2 = s_log s ++ new /\ s_head s2 = head' /\
    map st_ch new = pushed /\
    p_cp_c r = ackc /\
    (forall b, b <> a -> aget (s_clients s2) b = aget (s_clients s) b) /\
    match m with
    | MPushOnly =>
        p_cp_s r = k_cp_s k /\ p_changes r = [] /\ p_snapshot r = false /\
        aget (s_clients s2) a = Some (mkCI true (mkCD DAttached (cd_sseq (ci_doc ci)) ackc (s_epoch s)))
    | MPushPull =>
        p_cp_s r = head' /\
        aget (s_clients s2) a = Some (mkCI true (mkCD DAttached head' ackc (s_epoch s))) /\
        if s_head s - k_cp_s k <? s_threshold s
        then p_snapshot r = false /\
             p_changes r = strip_own_presence a
                             (filter (fun st => negb (N.eqb (h_actor (st_ch st)) a && (h_cseq (st_ch st) <=? ackc)))
                                (filter (in_seq_range (k_cp_s k + 1) (s_head s)) (s_log s ++ new)))
        else p_snapshot r = true /\ p_changes r = []
    end.
Proof.
  intros [Hget Hact Hst Hep Hss Hcs Hpend Hnn] Hnp d pushed new head' ackc.
  assert (Hd : (d <= length (k_pending k))%nat) by (unfold d; lia).
  destruct (consecutive_split (k_pending k) (k_cp_c k) d Hpend Hd) as (Hfirst & Hrest & Hfilter).
  assert (Hbase : k_cp_c k + Z.of_nat d = cd_cseq (ci_doc ci)) by (unfold d; lia).
  rewrite Hbase in Hfirst, Hrest, Hfilter. fold pushed in Hrest, Hfilter.
  (* continuity *)
  assert (Hcont : continuity_ok (cd_cseq (ci_doc ci)) (cd_cseq (ci_doc ci) + 1) (k_pending k) = true).
  { rewrite <- (firstn_skipn d (k_pending k)). rewrite continuity_app by exact Hfirst.
    fold pushed. apply continuity_consecutive; [lia|exact Hrest]. }
  (* store *)
  destruct (store_changes (s_head s) (cd_sseq (ci_doc ci)) (cd_cseq (ci_doc ci)) pushed)
    as [[[rows h'] cs'] cc'] eqn:E.
  destruct (store_changes_spec _ _ _ _ _ _ _ _ E) as (A & B & C & D & F & G).
  pose proof (store_changes_cseq _ _ _ _ _ _ _ _ E Hrest) as Hcc.
  assert (Hrows : rows = new).
  { unfold new, mk_rows. rewrite (store_changes_rows pushed (s_head s) 0 0 (cd_sseq (ci_doc ci)) (cd_cseq (ci_doc ci))).
    now rewrite E. }
  assert (Hlenp : Z.of_nat (length pushed) = ackc - cd_cseq (ci_doc ci)).
  { unfold pushed, ackc. rewrite skipn_length. lia. }
  assert (Hcc' : cc' = ackc) by lia.
  assert (Hh' : h' = head') by (unfold head'; lia).
  unfold push_pull, mk_request. cbn [q_client q_changes q_cp_s q_cp_c q_vv q_removed q_mode q_status q_disable_gc].
  rewrite Hget, Hcont, Hnp. cbn [negb].
  rewrite Hfilter.
  assert (Hepq : (cd_epoch (ci_doc ci) =? s_epoch s) = true) by lia.
  rewrite Hepq. cbn [negb]. rewrite !andb_false_r. cbn [andb].
  assert (Hheadq : (s_head s <? k_cp_s k) = false) by lia.
  rewrite Hheadq, andb_false_r.
  rewrite E. cbn [s_log s_head s_epoch s_removed s_nopres s_clients s_vvrows s_threshold].
  replace (h' - Z.of_nat (length pushed)) with (s_head s) by lia.
  rewrite Hheadq.
  cbn [dstatus_eqb orb]. rewrite Hst. cbn [dstatus_eqb orb andb].
  destruct m.
  - (* push-pull *)
    destruct (s_head s - k_cp_s k <? s_threshold s) eqn:Hth.
    + eexists _, _. split; [reflexivity|]. cbn [s_log s_head s_clients p_cp_c p_cp_s p_changes p_snapshot].
      subst rows. split; [reflexivity|]. split; [exact Hh'|]. split; [exact B|]. split; [exact Hcc'|].
      split; [intros b Hb; unfold set_cdoc; cbn [s_clients]; apply aget_aset_other; congruence|].
      split; [destruct (Z.eqb_spec cs' h'); lia|].
      split.
      * unfold set_cdoc. cbn [s_clients]. rewrite aget_aset_same. rewrite Hact. do 2 f_equal.
        cbn [cd_status cd_sseq cd_cseq cd_epoch dstatus_eqb]. rewrite Hep. f_equal; destruct (Z.eqb_spec cs' h'); lia.
      * split; [reflexivity|]. unfold pull_changes. cbn [s_log s_nopres]. rewrite Hcc'. reflexivity.
    + eexists _, _. split; [reflexivity|]. cbn [s_log s_head s_clients p_cp_c p_cp_s p_changes p_snapshot].
      subst rows. split; [reflexivity|]. split; [exact Hh'|]. split; [exact B|]. split; [exact Hcc'|].
      split; [intros b Hb; unfold set_cdoc; cbn [s_clients]; apply aget_aset_other; congruence|].
      split; [destruct (Z.eqb_spec cs' h'); lia|].
      split.
      * unfold set_cdoc. cbn [s_clients]. rewrite aget_aset_same. rewrite Hact. do 2 f_equal.
        cbn [cd_status cd_sseq cd_cseq cd_epoch dstatus_eqb]. rewrite Hep. f_equal; destruct (Z.eqb_spec cs' h'); lia.
      * split; reflexivity.
  - (* push-only *)
    eexists _, _. split; [reflexivity|]. cbn [s_log s_head s_clients p_cp_c p_cp_s p_changes p_snapshot].
    subst rows. split; [reflexivity|]. split; [exact Hh'|]. split; [exact B|]. split; [exact Hcc'|].
    split; [intros b Hb; unfold set_cdoc; cbn [s_clients]; apply aget_aset_other; congruence|].
    split; [reflexivity|]. split; [reflexivity|]. split; [reflexivity|].
    unfold set_cdoc. cbn [s_clients]. rewrite aget_aset_same. rewrite Hact. do 2 f_equal.
    cbn [cd_status cd_sseq cd_cseq cd_epoch dstatus_eqb]. rewrite Hep. f_equal; lia.
Qed.

(* ---- the system invariant ------------------------------------------------------- *)

Definition cseqs_of (a : actor) (l : list stored) : list Z :=
  map (fun st => h_cseq (st_ch st)) (rows_of a l).

Record cli_inv (s : srv) (a : actor) (k : cli) : Prop := {
  iv_ok : exists ci, srv_ok s a k ci /\
          cseqs_of a (s_log s) = zseq 1 (Z.to_nat (cd_cseq (ci_doc ci)));
  iv_actor : Forall (fun c => h_actor c = a) (k_pending k);
  iv_recv : k_snap k = false ->
            k_recv k = not_of a (firstn (Z.to_nat (k_cp_s k)) (s_log s))
}.

Record sys_inv (y : sys) : Prop := {
  yi_dense : log_dense (y_srv y);
  yi_nopres : s_nopres (y_srv y) = false;
  yi_clis : forall a k, aget (y_clis y) a = Some k -> cli_inv (y_srv y) a k
}.

Lemma rows_of_app a l1 l2 : rows_of a (l1 ++ l2) = rows_of a l1 ++ rows_of a l2.
Proof. unfold rows_of. apply filter_app. Qed.

Lemma not_of_app a l1 l2 : not_of a (l1 ++ l2) = not_of a l1 ++ not_of a l2.
Proof. unfold not_of. apply filter_app. Qed.

Lemma mk_rows_actor a cs : forall head,
  Forall (fun c => h_actor c = a) cs ->
  rows_of a (mk_rows head cs) = mk_rows head cs /\ not_of a (mk_rows head cs) = [] /\
  map st_ch (mk_rows head cs) = cs.
Proof.
  unfold mk_rows. induction cs as [|c r IH]; intros head H; cbn [store_changes]; [cbn; auto|].
  inversion H; subst.
  destruct (store_changes (head + 1) (head + 1) (Z.max 0 (h_cseq c)) r) as [[[rest h2] s2] c2] eqn:E.
  cbn [fst]. specialize (IH (head + 1) H3).
  rewrite (store_changes_rows r (head + 1) 0 0 (head + 1) (Z.max 0 (h_cseq c))) in IH. rewrite E in IH.
  cbn [fst] in IH. destruct IH as (A & B & C).
  unfold rows_of, not_of in *. cbn [filter st_ch map]. rewrite N.eqb_refl. cbn [negb].
  rewrite A, B, C. auto.
Qed.

Lemma mk_rows_forall a cs head :
  Forall (fun c => h_actor c = a) cs ->
  Forall (fun st => h_actor (st_ch st) = a) (mk_rows head cs).
Proof.
  intros H. destruct (mk_rows_actor a cs head H) as (_ & _ & C).
  rewrite <- C in H. rewrite Forall_forall in *. intros st Hin. apply H.
  apply in_map_iff. exists st. auto.
Qed.

Lemma rows_of_other a b l :
  a <> b -> Forall (fun st => h_actor (st_ch st) = a) l -> rows_of b l = [] /\ not_of b l = l.
Proof.
  intros Hab H. induction H as [|x l Hx Hl IH]; [auto|].
  destruct IH as [A B]. unfold rows_of, not_of in *. cbn [filter]. rewrite Hx.
  destruct (N.eqb_spec a b); [contradiction|]. cbn [negb]. rewrite A, B. auto.
Qed.

Lemma zseq_in a n z : In z (zseq a n) -> a <= z < a + Z.of_nat n.
Proof.
  revert a. induction n as [|n IH]; intros a H; cbn [zseq] in H; [contradiction|].
  destruct H as [<-|H]; [lia|]. apply IH in H. lia.
Qed.

Lemma filter_none {A} (p : A -> bool) l : Forall (fun x => p x = false) l -> filter p l = [].
Proof. induction 1 as [|x l Hx Hl IH]; cbn [filter]; [reflexivity|]. now rewrite Hx. Qed.

Lemma filter_all {A} (p : A -> bool) l : Forall (fun x => p x = true) l -> filter p l = l.
Proof. induction 1 as [|x l Hx Hl IH]; cbn [filter]; [reflexivity|]. now rewrite Hx, IH. Qed.

Lemma sseq_members l s0 : map st_sseq l = zseq s0 (length l) ->
  Forall (fun st => s0 <= st_sseq st < s0 + Z.of_nat (length l)) l.
Proof.
  intros H. rewrite Forall_forall. intros st Hin.
  apply zseq_in. rewrite <- H. now apply in_map.
Qed.

Lemma filter_range_skip l : forall s0 n hi,
  map st_sseq l = zseq s0 (length l) -> (n <= length l)%nat ->
  s0 + Z.of_nat (length l) - 1 <= hi ->
  filter (in_seq_range (s0 + Z.of_nat n) hi) l = skipn n l.
Proof.
  induction l as [|x r IH]; intros s0 n hi H Hn Hhi.
  - destruct n; reflexivity.
  - cbn [map length zseq] in H. inversion H as [[Hx Hr]]. cbn [length] in *.
    destruct n as [|n]; cbn [skipn filter].
    + unfold in_seq_range at 1. rewrite Hx.
      assert ((s0 + Z.of_nat 0 <=? s0) && (s0 <=? hi) = true) as -> by lia.
      f_equal. apply filter_all. rewrite Hx in Hr. pose proof (sseq_members r (s0 + 1) Hr) as M.
      eapply Forall_impl; [|exact M]. cbn. intros st Hst. unfold in_seq_range. lia.
    + unfold in_seq_range at 1. rewrite Hx.
      assert ((s0 + Z.of_nat (S n) <=? s0) && (s0 <=? hi) = false) as -> by lia.
      rewrite Hx in Hr. replace (s0 + Z.of_nat (S n)) with (s0 + 1 + Z.of_nat n) by lia.
      apply IH; [exact Hr|lia|lia].
Qed.

Lemma cseq_bound a l n st :
  cseqs_of a l = zseq 1 n -> In st l -> h_actor (st_ch st) = a -> h_cseq (st_ch st) <= Z.of_nat n.
Proof.
  intros H Hin Ha.
  assert (In (h_cseq (st_ch st)) (cseqs_of a l)).
  { unfold cseqs_of. apply in_map_iff. exists st. split; [reflexivity|].
    unfold rows_of. apply filter_In. split; [exact Hin|]. rewrite Ha. apply N.eqb_refl. }
  rewrite H in H0. apply zseq_in in H0. lia.
Qed.

Lemma drop_acked_all cp_c l : Forall (fun c => h_cseq c <= cp_c) l -> drop_acked cp_c l = [].
Proof.
  induction 1 as [|c r Hc Hr IH]; cbn [drop_acked]; [reflexivity|].
  assert (h_cseq c <=? cp_c = true) as -> by lia. exact IH.
Qed.

Lemma pending_bounded l base : map h_cseq l = zseq (base + 1) (length l) ->
  Forall (fun c => h_cseq c <= base + Z.of_nat (length l)) l.
Proof.
  intros H. rewrite Forall_forall. intros c Hin.
  assert (In (h_cseq c) (zseq (base + 1) (length l))) by (rewrite <- H; now apply in_map).
  apply zseq_in in H0. lia.
Qed.

Lemma strip_own_id a l :
  Forall (fun st => N.eqb (h_actor (st_ch st)) a = false) l -> strip_own_presence a l = l.
Proof.
  induction 1 as [|x l0 Hx Hl0 IH0]; [reflexivity|].
  change (strip_own_presence a (x :: l0)) with
    ((let c := st_ch x in
      if N.eqb (h_actor c) a && negb (N.eqb (h_pres c) 0) then
        if h_nops c =? 0 then [] else [mkSt (st_sseq x) (mkCh (h_actor c) (h_cseq c) (h_lam c) (h_vv c) (h_nops c) 0%N)]
      else [x]) ++ strip_own_presence a l0).
  cbn zeta. rewrite Hx. cbn [andb app]. now rewrite IH0.
Qed.

(* what a successful sync of client [a] does to the invariant of [a] itself *)
Lemma sync_self_inv s a k m v (lost : bool) :
  log_dense s -> s_nopres s = false -> cli_inv s a k ->
  exists s2 r,
    push_pull s (mk_request a k m v) = (s2, r, ENone) /\
    cli_inv s2 a (if lost then k else apply_resp k r).
Proof.
  intros [Hdm Hdh] Hnp [[ci [Hok Hcs]] Hact Hrecv].
  pose proof Hok as Hok0. destruct Hok0 as [Hget Hactive Hst Hep Hss Hcsq Hpend Hnn].
  destruct (push_pull_honest s a k ci m v Hok Hnp) as (s2 & r & Hpp & Hlog & Hhead & Hmap & Hackc & Hothers & Hm).
  exists s2, r. split; [exact Hpp|].
  set (d := Z.to_nat (cd_cseq (ci_doc ci) - k_cp_c k)) in *.
  set (pushed := skipn d (k_pending k)) in *.
  set (new := mk_rows (s_head s) pushed) in *.
  set (ackc := k_cp_c k + Z.of_nat (length (k_pending k))) in *.
  assert (Hpact : Forall (fun c => h_actor c = a) pushed).
  { unfold pushed. rewrite Forall_forall in *. intros c Hc. apply Hact.
    rewrite <- (firstn_skipn d (k_pending k)). apply in_or_app. now right. }
  destruct (mk_rows_actor a pushed (s_head s) Hpact) as (Hrows & Hnot & _). fold new in Hrows, Hnot.
  assert (Hd : (d <= length (k_pending k))%nat) by (unfold d; lia).
  destruct (consecutive_split (k_pending k) (k_cp_c k) d Hpend Hd) as (_ & Hrest & _).
  assert (Hbase : k_cp_c k + Z.of_nat d = cd_cseq (ci_doc ci)) by (unfold d; lia).
  rewrite Hbase in Hrest. fold pushed in Hrest.
  assert (Hlenp : Z.of_nat (length pushed) = ackc - cd_cseq (ci_doc ci)).
  { unfold pushed, ackc. rewrite skipn_length. lia. }
  (* the rows of a in the new log *)
  assert (Hcs2 : cseqs_of a (s_log s2) = zseq 1 (Z.to_nat ackc)).
  { unfold cseqs_of in *. rewrite Hlog, rows_of_app, map_app, Hcs, Hrows.
    replace (map (fun st => h_cseq (st_ch st)) new) with (map h_cseq (map st_ch new)) by (now rewrite map_map).
    rewrite Hmap, Hrest.
    replace (Z.to_nat ackc) with (Z.to_nat (cd_cseq (ci_doc ci)) + length pushed)%nat by lia.
    rewrite zseq_app. f_equal. f_equal. lia. }
  assert (Hlen2 : length (s_log s2) = (length (s_log s) + length pushed)%nat).
  { rewrite Hlog, app_length. f_equal.
    rewrite <- (map_length st_ch new), Hmap. reflexivity. }
  assert (Hfirst_old : forall n, (n <= length (s_log s))%nat -> firstn n (s_log s2) = firstn n (s_log s)).
  { intros n Hn. rewrite Hlog, firstn_app. replace (n - length (s_log s))%nat with 0%nat by lia.
    cbn [firstn]. now rewrite app_nil_r. }
  destruct lost.
  - (* response lost: the client is unchanged *)
    destruct m.
    + destruct Hm as (Hcps & Hget2 & _).
      constructor.
      * exists (mkCI true (mkCD DAttached (s_head s + Z.of_nat (length pushed)) ackc (s_epoch s))). split; [|cbn [ci_doc cd_cseq]; exact Hcs2].
        pose proof (push_pull_appends _ _ _ _ _ Hpp) as (nw & _ & _ & _ & He & _).
        constructor; cbn [ci_active ci_doc cd_status cd_sseq cd_cseq cd_epoch]; auto; try lia;
          try (now rewrite He); try (rewrite Hhead; lia).
      * exact Hact.
      * intros Hs. rewrite (Hrecv Hs). f_equal. apply eq_sym, Hfirst_old. lia.
    + destruct Hm as (Hcps & Hch & Hsn & Hget2).
      constructor.
      * exists (mkCI true (mkCD DAttached (cd_sseq (ci_doc ci)) ackc (s_epoch s))). split; [|cbn [ci_doc cd_cseq]; exact Hcs2].
        pose proof (push_pull_appends _ _ _ _ _ Hpp) as (nw & _ & _ & _ & He & _).
        constructor; cbn [ci_active ci_doc cd_status cd_sseq cd_cseq cd_epoch]; auto; try lia;
          try (now rewrite He); try (rewrite Hhead; lia).
      * exact Hact.
      * intros Hs. rewrite (Hrecv Hs). f_equal. apply eq_sym, Hfirst_old. lia.
  - (* response applied *)
    assert (Hdrop : drop_acked (p_cp_c r) (k_pending k) = []).
    { rewrite Hackc. apply drop_acked_all. unfold ackc. now apply pending_bounded. }
    destruct m.
    + destruct Hm as (Hcps & Hget2 & Hpull).
      constructor.
      * exists (mkCI true (mkCD DAttached (s_head s + Z.of_nat (length pushed)) ackc (s_epoch s))). split; [|cbn [ci_doc cd_cseq]; exact Hcs2].
        pose proof (push_pull_appends _ _ _ _ _ Hpp) as (nw & _ & _ & _ & He & _).
        unfold apply_resp. constructor;
          cbn [ci_active ci_doc cd_status cd_sseq cd_cseq cd_epoch k_cp_s k_cp_c k_pending]; auto;
          try exact Hget2; try (now rewrite He); try (rewrite ?Hcps, ?Hhead; lia);
          try (rewrite Hackc, Hdrop; cbn [length]; fold ackc; lia); try (rewrite Hdrop; reflexivity); try lia.
      * unfold apply_resp. cbn [k_pending]. rewrite Hdrop. constructor.
      * unfold apply_resp. cbn [k_snap k_recv k_cp_s]. intros Hs.
        apply orb_false_iff in Hs. destruct Hs as [Hs1 Hs2].
        destruct (s_head s - k_cp_s k <? s_threshold s); destruct Hpull as [Hsnap Hch]; [|congruence].
        rewrite (Hrecv Hs1), Hch, Hcps.
        replace (Z.max (k_cp_s k) (s_head s + Z.of_nat (length pushed))) with (Z.of_nat (length (s_log s2))) by lia.
        rewrite Nat2Z.id, firstn_all.
        rewrite Hlog. rewrite not_of_app, Hnot, app_nil_r.
        rewrite <- (firstn_skipn (Z.to_nat (k_cp_s k)) (s_log s)) at 3. rewrite not_of_app. f_equal.
        (* the pulled rows *)
        rewrite filter_app.
        replace (k_cp_s k + 1) with (1 + Z.of_nat (Z.to_nat (k_cp_s k))) by lia.
        rewrite (filter_range_skip (s_log s) 1 (Z.to_nat (k_cp_s k)) (s_head s) Hdm) by lia.
        rewrite (filter_none _ new).
        2:{ pose proof (push_pull_appends _ _ _ _ _ Hpp) as (nw & Hl2 & _ & Hsq & _).
            rewrite Hlog in Hl2. apply app_inv_head in Hl2. subst nw.
            pose proof (sseq_members new (s_head s + 1) Hsq) as M.
            eapply Forall_impl; [|exact M]. cbn. intros st0 Hst0. unfold in_seq_range. lia. }
        rewrite app_nil_r.
        transitivity (filter (fun st => negb (N.eqb (h_actor (st_ch st)) a)) (skipn (Z.to_nat (k_cp_s k)) (s_log s))).
        2:{ reflexivity. }
        match goal with |- strip_own_presence a ?l = _ => assert (Hl : l = filter (fun st => negb (N.eqb (h_actor (st_ch st)) a)) (skipn (Z.to_nat (k_cp_s k)) (s_log s))) end.
        2:{ rewrite Hl. apply strip_own_id. rewrite Forall_forall. intros x Hx. apply filter_In in Hx. destruct Hx as [_ Hx].
            now apply negb_true_iff in Hx. }
        apply filter_ext_in. intros st Hin.
        destruct (N.eqb_spec (h_actor (st_ch st)) a) as [Ea|Ea]; [|reflexivity].
        cbn [andb negb].
        assert (In st (s_log s)) by (rewrite <- (firstn_skipn (Z.to_nat (k_cp_s k)) (s_log s)); apply in_or_app; now right).
        pose proof (cseq_bound a (s_log s) _ st Hcs H Ea). fold ackc.
        assert (h_cseq (st_ch st) <=? ackc = true) as -> by lia. reflexivity.
    + destruct Hm as (Hcps & Hch & Hsn & Hget2).
      constructor.
      * exists (mkCI true (mkCD DAttached (cd_sseq (ci_doc ci)) ackc (s_epoch s))). split; [|cbn [ci_doc cd_cseq]; exact Hcs2].
        pose proof (push_pull_appends _ _ _ _ _ Hpp) as (nw & _ & _ & _ & He & _).
        unfold apply_resp. constructor;
          cbn [ci_active ci_doc cd_status cd_sseq cd_cseq cd_epoch k_cp_s k_cp_c k_pending]; auto;
          try exact Hget2; try (now rewrite He); try (rewrite ?Hcps, ?Hhead; lia);
          try (rewrite Hackc, Hdrop; cbn [length]; fold ackc; lia); try (rewrite Hdrop; reflexivity); try lia.
      * unfold apply_resp. cbn [k_pending]. rewrite Hdrop. constructor.
      * unfold apply_resp. cbn [k_snap k_recv k_cp_s]. intros Hs.
        apply orb_false_iff in Hs. destruct Hs as [Hs1 Hs2].
        rewrite Hch, app_nil_r, Hcps, Z.max_id, (Hrecv Hs1). f_equal. apply eq_sym, Hfirst_old. lia.
Qed.

(* what the same sync does to the invariant of every other client *)
Lemma sync_other_inv s a k m v b kb :
  log_dense s -> s_nopres s = false -> cli_inv s a k -> a <> b -> cli_inv s b kb ->
  forall s2 r, push_pull s (mk_request a k m v) = (s2, r, ENone) -> cli_inv s2 b kb.
Proof.
  intros [Hdm Hdh] Hnp Ha Hab [[cib [Hokb Hcsb]] Hactb Hrecvb] s2 r Hpp.
  destruct Ha as [[ci [Hok Hcs]] Hact _].
  destruct (push_pull_honest s a k ci m v Hok Hnp) as (s2' & r' & Hpp' & Hlog & Hhead & Hmap & _ & Hothers & _).
  rewrite Hpp in Hpp'. inversion Hpp'; subst s2' r'. clear Hpp'.
  set (pushed := skipn (Z.to_nat (cd_cseq (ci_doc ci) - k_cp_c k)) (k_pending k)) in *.
  assert (Hpact : Forall (fun c => h_actor c = a) pushed).
  { unfold pushed. rewrite Forall_forall in *. intros c Hc. apply Hact.
    rewrite <- (firstn_skipn (Z.to_nat (cd_cseq (ci_doc ci) - k_cp_c k)) (k_pending k)). apply in_or_app. now right. }
  pose proof (mk_rows_forall a pushed (s_head s) Hpact) as Hall.
  destruct (rows_of_other a b _ Hab Hall) as [Hrb Hnb].
  pose proof (push_pull_appends _ _ _ _ _ Hpp) as (nw & _ & _ & _ & He & _).
  destruct Hokb as [Hget Hactive Hst Hep Hss Hcsq Hpend Hnn].
  constructor.
  - exists cib. split.
    + constructor; auto; try lia; try (rewrite Hothers by congruence; exact Hget);
        try (now rewrite He); try (rewrite Hhead; lia).
    + unfold cseqs_of in *. now rewrite Hlog, rows_of_app, Hrb, app_nil_r.
  - exact Hactb.
  - intros Hs. rewrite (Hrecvb Hs). f_equal. rewrite Hlog, firstn_app.
    replace (Z.to_nat (k_cp_s kb) - length (s_log s))%nat with 0%nat by lia.
    cbn [firstn]. now rewrite app_nil_r.
Qed.

Lemma local_inv s a k lam v nops pres :
  cli_inv s a k ->
  cli_inv s a (mkCli (k_cp_s k) (k_cp_c k) (k_pending k ++ [mkCh a (next_cseq k) lam v nops pres]) (k_recv k) (k_snap k)).
Proof.
  intros [[ci [Hok Hcs]] Hact Hrecv]. destruct Hok as [Hget Hactive Hst Hep Hss Hcsq Hpend Hnn].
  constructor.
  - exists ci. split; [|exact Hcs].
    constructor; cbn [k_cp_s k_cp_c k_pending]; auto.
    + rewrite app_length. cbn [length]. lia.
    + rewrite map_app, app_length, Hpend. cbn [length map h_cseq].
      rewrite zseq_app. cbn [zseq]. unfold next_cseq. do 2 f_equal. lia.
  - cbn [k_pending]. apply Forall_app. split; [exact Hact|]. constructor; [reflexivity|constructor].
  - exact Hrecv.
Qed.

Theorem sstep_inv y e : sys_inv y -> sys_inv (sstep y e).
Proof.
  intros [Hd Hnp Hcl]. destruct e as [a lam v nops pres|a m v lost]; cbn [sstep].
  - destruct (aget (y_clis y) a) as [k|] eqn:Ek; [|constructor; assumption].
    constructor; cbn [y_srv y_clis]; auto.
    intros b kb Hb. destruct (N.eq_dec a b) as [<-|Hab].
    + rewrite aget_aset_same in Hb. inversion Hb; subst. apply local_inv. now apply Hcl.
    + rewrite aget_aset_other in Hb by exact Hab. now apply Hcl.
  - destruct (aget (y_clis y) a) as [k|] eqn:Ek; [|constructor; assumption].
    pose proof (Hcl a k Ek) as Ha.
    destruct (sync_self_inv (y_srv y) a k m v lost Hd Hnp Ha) as (s2 & r & Hpp & Hself).
    rewrite Hpp.
    pose proof (push_pull_appends _ _ _ _ _ Hpp) as (nw & _ & _ & _ & _ & Hnp2 & _).
    constructor; cbn [y_srv y_clis].
    + eapply log_dense_push_pull; eassumption.
    + now rewrite Hnp2.
    + intros b kb Hb. destruct lost.
      * destruct (N.eq_dec a b) as [<-|Hab].
        -- rewrite Ek in Hb. inversion Hb; subst. exact Hself.
        -- eapply sync_other_inv; try eassumption. now apply Hcl.
      * destruct (N.eq_dec a b) as [<-|Hab].
        -- rewrite aget_aset_same in Hb. inversion Hb; subst. exact Hself.
        -- rewrite aget_aset_other in Hb by exact Hab.
           eapply sync_other_inv; try eassumption. now apply Hcl.
Qed.

Theorem srun_inv es : forall y, sys_inv y -> sys_inv (srun y es).
Proof.
  unfold srun. induction es as [|e r IH]; cbn [fold_left]; intros y H; [exact H|].
  apply IH. now apply sstep_inv.
Qed.

Lemma aget_map_init {A} (f : actor -> A) actors a :
  forall x, aget (map (fun a => (a, f a)) actors) a = Some x -> x = f a /\ In a actors.
Proof.
  induction actors as [|b r IH]; cbn [map aget]; intros x H; [discriminate|].
  destruct (N.eqb_spec b a) as [->|Hn].
  - inversion H. split; [reflexivity|now left].
  - destruct (IH x H). split; [assumption|now right].
Qed.

Lemma aget_map_in {A} (f : actor -> A) actors a :
  In a actors -> aget (map (fun a => (a, f a)) actors) a = Some (f a).
Proof.
  induction actors as [|b r IH]; cbn [map aget]; intros H; [contradiction|].
  destruct (N.eqb_spec b a) as [->|Hn]; [reflexivity|]. destruct H as [->|H]; [contradiction|auto].
Qed.

Theorem init_inv th actors : sys_inv (init_sys th actors).
Proof.
  constructor; cbn [init_sys y_srv y_clis init_srv s_nopres]; [split; reflexivity|reflexivity|].
  intros a k H. apply aget_map_init in H. destruct H as [-> Hin].
  constructor; cbn [k_pending k_recv k_snap k_cp_s]; [|constructor|reflexivity].
  exists (mkCI true (mkCD DAttached 0 0 0)). split; [|reflexivity].
  constructor; cbn; auto; try lia.
  now apply (aget_map_in (fun _ => mkCI true (mkCD DAttached 0 0 0))).
Qed.

(* ---- the statements of C04 --------------------------------------------------------- *)

(* every state reachable by honest clients (any number of them, any edits, any
   interleaving of syncs, push-only syncs and lost responses) *)
Theorem reachable_inv th actors es : sys_inv (srun (init_sys th actors) es).
Proof. apply srun_inv, init_inv. Qed.

Theorem c04_log_dense th actors es :
  let s := y_srv (srun (init_sys th actors) es) in
  map st_sseq (s_log s) = zseq 1 (length (s_log s)) /\ s_head s = Z.of_nat (length (s_log s)).
Proof. exact (yi_dense _ (reachable_inv th actors es)). Qed.

Theorem c04_per_actor_order th actors es a k :
  let y := srun (init_sys th actors) es in
  aget (y_clis y) a = Some k ->
  exists n, cseqs_of a (s_log (y_srv y)) = zseq 1 n.
Proof.
  intros y H. destruct (yi_clis _ (reachable_inv th actors es) a k H) as [[ci [_ Hc]] _ _].
  eexists. exact Hc.
Qed.

Theorem c04_exactly_once th actors es a k :
  let y := srun (init_sys th actors) es in
  aget (y_clis y) a = Some k -> k_snap k = false ->
  k_recv k = not_of a (firstn (Z.to_nat (k_cp_s k)) (s_log (y_srv y))).
Proof.
  intros y H. exact (iv_recv _ _ _ (yi_clis _ (reachable_inv th actors es) a k H)).
Qed.

Theorem c04_checkpoint_bounded th actors es a k :
  let y := srun (init_sys th actors) es in
  aget (y_clis y) a = Some k -> 0 <= k_cp_s k <= s_head (y_srv y).
Proof.
  intros y H. destruct (yi_clis _ (reachable_inv th actors es) a k H) as [[ci [Hok _]] _ _].
  destruct Hok as [_ _ _ _ Hs _ _ Hn]. subst y. lia.
Qed.

(* an honest client's sync is never refused (no lost edit, the retry of a lost
   response included): C05, response-lost clause *)
Theorem c05_sync_accepted th actors es a k m v :
  let y := srun (init_sys th actors) es in
  aget (y_clis y) a = Some k ->
  exists s2 r, push_pull (y_srv y) (mk_request a k m v) = (s2, r, ENone) /\ p_cp_c r = k_cp_c k + Z.of_nat (length (k_pending k)).
Proof.
  intros y H. pose proof (reachable_inv th actors es) as [Hd Hnp Hcl].
  destruct (Hcl a k H) as [[ci [Hok _]] _ _].
  destruct (push_pull_honest _ a k ci m v Hok Hnp) as (s2 & r & Hpp & _ & _ & _ & Hack & _).
  exists s2, r. auto.
Qed.

(* each (actor, clientSeq) is stored at most once, whatever is retried *)
Theorem c05_no_duplicate_rows th actors es a k :
  let y := srun (init_sys th actors) es in
  aget (y_clis y) a = Some k -> NoDup (cseqs_of a (s_log (y_srv y))).
Proof.
  intros y H. destruct (c04_per_actor_order th actors es a k H) as [n Hn]. fold y in Hn. rewrite Hn.
  clear. generalize 1. induction n as [|n IH]; intros z; cbn [zseq]; constructor.
  - intros Hin. apply zseq_in in Hin. lia.
  - apply IH.
Qed.

(* non-vacuity: a concrete run with a lost response and a retry *)
Example c04_example :
  let es := [SLocal 1%N 1 [(1%N, 1)] 1 0%N; SSync 1%N MPushPull [(1%N, 1)] true;
             SLocal 2%N 1 [(2%N, 1)] 1 0%N; SSync 2%N MPushPull [(2%N, 1)] false;
             SSync 1%N MPushPull [(1%N, 1)] false; SSync 2%N MPushPull [(2%N, 1)] false] in
  let y := srun (init_sys 500 [1%N; 2%N]) es in
  map (fun st => (st_sseq st, h_actor (st_ch st), h_cseq (st_ch st))) (s_log (y_srv y)) = [(1, 1%N, 1); (2, 2%N, 1)] /\
  match aget (y_clis y) 1%N, aget (y_clis y) 2%N with
  | Some k1, Some k2 => map st_sseq (k_recv k1) = [2] /\ map st_sseq (k_recv k2) = [1] /\ k_cp_s k1 = 2 /\ k_cp_s k2 = 2
  | _, _ => False
  end.
Proof. vm_compute. repeat split; reflexivity. Qed.

(* ---- C06, system part: the vector handed out is a minimum over the stored rows ------ *)

Lemma push_pull_minvv s q s2 r m :
  push_pull s q = (s2, r, ENone) -> p_vv r = Some m ->
  m = min_vv (q_vv q :: map snd (s_vvrows s2)).
Proof.
  unfold push_pull. intros H Hm.
  destruct (aget (s_clients s) (q_client q)) as [ci|]; [|inversion H].
  destruct (negb (continuity_ok _ _ _)); [inversion H|].
  match type of H with context [store_changes ?a ?b ?c ?d] =>
    destruct (store_changes a b c d) as [[[rows h'] cs'] cc'] eqn:E end.
  destruct_all_matches H; inversion H; subst; cbn [p_vv s_vvrows] in *; try discriminate;
    repeat match goal with
           | Hp : (if ?c then _ else _) = (_, _) |- _ => destruct c eqn:?; inversion Hp; clear Hp; subst
           | Hp : (let '(_, _) := ?x in _) = _ |- _ => destruct x eqn:?
           end;
    try discriminate;
    repeat match goal with
           | Hp : (if ?c then _ else _) = Some _ |- _ => destruct c eqn:?; try discriminate
           | Hp : match ?c with MPushPull => _ | MPushOnly => _ end = Some _ |- _ => destruct c eqn:?; try discriminate
           end;
    try (inversion Hm; reflexivity);
    try match goal with Hp : Some _ = Some _ |- _ => inversion Hp; reflexivity end.
Qed.

Theorem minvv_sound s q s2 r m :
  push_pull s q = (s2, r, ENone) -> p_vv r = Some m ->
  vv_nonneg (q_vv q) -> (forall b row, In (b, row) (s_vvrows s2) -> vv_nonneg row) ->
  forall b row x, In (b, row) (s_vvrows s2) -> vget0 m x <= vget0 row x.
Proof.
  intros H Hm Hq Hrows b row x Hin. rewrite (push_pull_minvv _ _ _ _ _ H Hm).
  apply min_vv_never_overstates.
  - intros v [<-|Hv]; [exact Hq|]. apply in_map_iff in Hv. destruct Hv as ([b' row'] & <- & Hin').
    eapply Hrows. exact Hin'.
  - right. apply in_map_iff. exists (b, row). auto.
Qed.
