(* TextBatch.v — any number of pairwise concurrent text edits, made on a common text, executed in
   any order: the same characters in the same order, the same ones removed.  Built on
   TextProofs.v (pairwise commutation, honesty preserved). *)
From Coq Require Import Permutation Lia.
From YV Require Import Base.Ticket Crdt.TextRGA Proofs.TicketProofs Proofs.TextProofs.

Record teditop := mkTE { o_pf : tpos; o_pt : tpos; o_vals : list N; o_t : ticket; o_v : option vvec }.

Definition apply_te (o : teditop) (l : list tch) : option (list tch) :=
  edit (o_pf o) (o_pt o) (o_vals o) (o_t o) (o_v o) l.
Definition spec_te (o : teditop) (l : list tch) : option (list tch) :=
  hedit (o_pf o) (o_pt o) (o_vals o) (o_t o) (o_v o) l.
Definition honest_te (o : teditop) (l : list tch) : Prop := honest (o_pf o) (o_pt o) (o_t o) (o_v o) l.

Fixpoint run_te (ops : list teditop) (s : option (list tch)) : option (list tch) :=
  match ops with
  | [] => s
  | o :: r => run_te r (obind s (apply_te o))
  end.

(* a does not depend on b: its positions are not in b's block, its author had not seen b *)
Definition indep (a b : teditop) : Prop :=
  pos_tk_ne (o_pf a) (o_t b) /\ pos_tk_ne (o_pt a) (o_t b) /\ known (o_v a) (o_t b) = false.

Definition batch (ops : list teditop) : Prop :=
  NoDup (map o_t ops) /\ forall a b, In a ops -> In b ops -> o_t a <> o_t b -> indep a b.

Lemma batch_perm ops ops' : Permutation ops ops' -> batch ops -> batch ops'.
Proof.
  intros HP [Hnd Hi]. split; [eapply Permutation_NoDup; [apply Permutation_map; exact HP|exact Hnd]|].
  intros a b Ha Hb. apply Hi; eapply Permutation_in; try (symmetry; exact HP); assumption.
Qed.

Lemma batch_tail o ops : batch (o :: ops) -> batch ops /\ forall b, In b ops -> o_t o <> o_t b.
Proof.
  intros [Hnd Hi]. cbn [map] in Hnd. apply NoDup_cons_iff in Hnd. destruct Hnd as [Hni Hnd].
  split; [split; [exact Hnd|intros a b Ha Hb; apply Hi; now right]|].
  intros b Hb E. apply Hni. rewrite E. now apply in_map.
Qed.

Lemma run_none ops : run_te ops None = None.
Proof. induction ops as [|o r IH]; cbn [run_te obind]; [reflexivity|exact IH]. Qed.

(* ---- everything looks at ids, values and "removed or not" only ---- *)
Lemma shape_ch_fields c d : shape_ch c = shape_ch d -> c_tk c = c_tk d /\ c_off c = c_off d /\ c_val c = c_val d /\ rmb c = rmb d.
Proof. unfold shape_ch, rmb. intros H. injection H as A B C D. auto. Qed.

Lemma del_shape_cong t v c d : shape_ch c = shape_ch d -> shape_ch (del_ch t v c) = shape_ch (del_ch t v d).
Proof.
  intros H. destruct (shape_ch_fields _ _ H) as (A & B & C & D).
  apply shape_ch_eq; rewrite ?del_ch_tk, ?del_ch_off, ?del_ch_val, ?del_ch_rmb; congruence.
Qed.

Lemma is_at_shape p c d : shape_ch c = shape_ch d -> is_at p c = is_at p d.
Proof. intros H. destruct (shape_ch_fields _ _ H) as (A & B & _). destruct p; [reflexivity|]. unfold is_at. now rewrite A, B. Qed.

Lemma scan_shape_cong pf pt t v s l1 l2 : shape l1 = shape l2 ->
  shape (scan pf pt (del_ch t v) s l1) = shape (scan pf pt (del_ch t v) s l2).
Proof.
  revert s l2. induction l1 as [|c l1 IH]; intros s [|d l2] H; cbn [shape map] in H; try discriminate; [reflexivity|].
  assert (Hc : shape_ch c = shape_ch d) by congruence. assert (Hl : shape l1 = shape l2) by (unfold shape; congruence). clear H.
  cbn [scan]. unfold shape at 1 2. cbn [map]. fold (shape (scan pf pt (del_ch t v) (step_state pf pt s c) l1)).
  fold (shape (scan pf pt (del_ch t v) (step_state pf pt s d) l2)).
  assert (Es : step_state pf pt s c = step_state pf pt s d).
  { unfold step_state. now rewrite !(is_at_shape _ c d Hc). }
  rewrite Es. f_equal; [|now apply IH].
  destruct s; cbn [emit]; auto. now apply del_shape_cong.
Qed.

Lemma spec_shape_cong o l1 l2 : shape l1 = shape l2 ->
  option_map shape (spec_te o l1) = option_map shape (spec_te o l2).
Proof. intros H. unfold spec_te, hedit. apply ins_shape. unfold delr. now apply scan_shape_cong. Qed.

Lemma at_end_shape p a b : shape a = shape b -> at_end p a -> at_end p b.
Proof.
  intros H. destruct p as [|tk off]; cbn [at_end].
  - intros ->. destruct b; [reflexivity|discriminate].
  - intros (a' & c & -> & Hc & Hall). unfold shape in H. rewrite map_app in H. cbn [map] in H.
    symmetry in H. apply map_eq_app in H. destruct H as (b' & bc & -> & Hb' & Hbc).
    destruct bc as [|d [|? ?]]; try discriminate. cbn [map] in Hbc. assert (Hd : shape_ch d = shape_ch c) by congruence. clear Hbc.
    exists b', d. split; [reflexivity|]. split.
    + rewrite <- is_at_cid in *. now rewrite (is_at_shape _ d c Hd).
    + intros y Hy. (* y answers like its counterpart in a' *)
      apply (in_map shape_ch) in Hy. rewrite Hb' in Hy. apply in_map_iff in Hy. destruct Hy as (x & Hx & Hxin).
      rewrite <- is_at_cid. rewrite (is_at_shape _ y x (eq_sym Hx)). rewrite is_at_cid. now apply Hall.
Qed.

Lemma honest_shape o l1 l2 : shape l1 = shape l2 -> honest_te o l1 -> honest_te o l2.
Proof.
  intros H [(fa & mid & tr0 & -> & Ef & Et) Hk]. unfold shape in H. rewrite !map_app in H.
  symmetry in H. apply map_eq_app in H. destruct H as (fa' & r' & -> & Hfa & Hr).
  apply map_eq_app in Hr. destruct Hr as (mid' & tr0' & -> & Hmid & Htr).
  split.
  - exists fa', mid', tr0'. split; [reflexivity|]. split.
    + eapply at_end_shape; [|exact Ef]. unfold shape. now symmetry.
    + eapply at_end_shape; [|exact Et]. unfold shape. rewrite !map_app. now rewrite Hfa, Hmid.
  - intros c Hc. apply (in_map shape_ch) in Hc. rewrite !map_app, Hfa, Hmid, Htr, <- !map_app in Hc.
    apply in_map_iff in Hc. destruct Hc as (x & Hx & Hxin).
    destruct (shape_ch_fields _ _ Hx) as (A & _). rewrite <- A. now apply Hk.
Qed.

(* ---- batches ---- *)
Definition good (ops : list teditop) (l : list tch) : Prop := batch ops /\ forall o, In o ops -> honest_te o l.

Lemma apply_is_spec o l : honest_te o l -> apply_te o l = spec_te o l.
Proof. intros H. unfold apply_te, spec_te. now apply edit_is_hedit. Qed.

Lemma good_step o ops l la : good (o :: ops) l -> spec_te o l = Some la -> good ops la.
Proof.
  intros [Hb Hh] Hs. destruct (batch_tail _ _ Hb) as [Hb' Hne]. split; [exact Hb'|].
  intros b Hbin. destruct Hb as [_ Hi].
  destruct (Hi b o (or_intror Hbin) (or_introl eq_refl) (not_eq_sym (Hne b Hbin))) as (A & B & C).
  unfold honest_te, spec_te in *. eapply honest_preserved; eauto. apply Hh. now right.
Qed.

Lemma run_shape_cong ops : forall l1 l2, shape l1 = shape l2 -> good ops l1 ->
  option_map shape (run_te ops (Some l1)) = option_map shape (run_te ops (Some l2)).
Proof.
  induction ops as [|o r IH]; intros l1 l2 Hs Hg; cbn [run_te obind]; [cbn; now rewrite Hs|].
  assert (H1 : honest_te o l1) by (apply Hg; now left).
  assert (H2 : honest_te o l2) by (eapply honest_shape; eauto).
  rewrite (apply_is_spec o l1 H1), (apply_is_spec o l2 H2).
  pose proof (spec_shape_cong o l1 l2 Hs) as Hc.
  destruct (spec_te o l1) as [la1|] eqn:E1, (spec_te o l2) as [la2|] eqn:E2; cbn [option_map] in Hc; try discriminate.
  - apply IH; [congruence|]. eapply good_step; eauto.
  - now rewrite !run_none.
Qed.

(* any number of pairwise concurrent honest edits, any two orders *)
Theorem batch_converges ops1 ops2 : Permutation ops1 ops2 -> forall l, good ops1 l ->
  option_map shape (run_te ops1 (Some l)) = option_map shape (run_te ops2 (Some l)).
Proof.
  induction 1 as [|x ops ops' HP IH|x y ops|ops ops' ops'' HP1 IH1 HP2 IH2]; intros l Hg.
  - reflexivity.
  - cbn [run_te obind]. assert (Hx : honest_te x l) by (apply Hg; now left).
    rewrite (apply_is_spec x l Hx). destruct (spec_te x l) as [la|] eqn:E; [|now rewrite !run_none].
    apply IH. eapply good_step; eauto.
  - cbn [run_te obind].
    assert (Hx : honest_te x l) by (apply Hg; right; now left).
    assert (Hy : honest_te y l) by (apply Hg; now left).
    destruct Hg as [Hb Hh]. pose proof Hb as [Hnd Hi].
    assert (Hne : o_t y <> o_t x).
    { cbn [map] in Hnd. apply NoDup_cons_iff in Hnd. destruct Hnd as [Hni _]. intros E. apply Hni. left. now symmetry. }
    destruct (Hi y x (or_introl eq_refl) (or_intror (or_introl eq_refl)) Hne) as (Ay & By & Cy).
    destruct (Hi x y (or_intror (or_introl eq_refl)) (or_introl eq_refl) (not_eq_sym Hne)) as (Ax & Bx & Cx).
    assert (Hc : option_map shape (obind (apply_te y l) (apply_te x)) = option_map shape (obind (apply_te x l) (apply_te y))).
    { exact (edit_commute (o_pf y) (o_pt y) (o_vals y) (o_t y) (o_v y) (o_pf x) (o_pt x) (o_vals x) (o_t x) (o_v x) l
                  Hne Ay By Ax Bx Cy Cx Hy Hx). }
    (* goodness of the tail after both edits *)
    assert (Gyx : forall s, obind (apply_te y l) (apply_te x) = Some s -> good ops s).
    { intros s Hs. rewrite (apply_is_spec y l Hy) in Hs. destruct (spec_te y l) as [ly|] eqn:Ey; [|discriminate]. cbn [obind] in Hs.
      assert (G1 : good (x :: ops) ly).
      { eapply (good_step y (x :: ops) l ly); [split; [exact Hb|exact Hh]|exact Ey]. }
      rewrite (apply_is_spec x ly) in Hs by (apply G1; now left).
      eapply good_step; eauto. }
    destruct (obind (apply_te y l) (apply_te x)) as [s1|] eqn:E1, (obind (apply_te x l) (apply_te y)) as [s2|] eqn:E2;
      cbn [option_map] in Hc; try discriminate.
    + apply run_shape_cong; [congruence|]. now apply Gyx.
    + now rewrite !run_none.
  - rewrite (IH1 l Hg). apply IH2. destruct Hg as [Hb Hh]. split; [eapply batch_perm; eauto|].
    intros o Ho. apply Hh. eapply Permutation_in; [symmetry; exact HP1|exact Ho].
Qed.

(* in particular every replica shows the same string *)
Lemma visible_of_shape l1 l2 : shape l1 = shape l2 -> visible l1 = visible l2.
Proof.
  revert l2. induction l1 as [|c l1 IH]; intros [|d l2] H; cbn [shape map] in H; try discriminate; [reflexivity|].
  assert (Hc : shape_ch c = shape_ch d) by congruence. assert (Hl : shape l1 = shape l2) by (unfold shape; congruence).
  destruct (shape_ch_fields _ _ Hc) as (_ & _ & Hv & Hr). unfold visible. cbn [flat_map].
  fold (visible l1). fold (visible l2). rewrite (IH l2 Hl). unfold rmb in Hr. rewrite Hv.
  destruct (c_rm c), (c_rm d); try discriminate; reflexivity.
Qed.

Corollary batch_same_text ops1 ops2 l : Permutation ops1 ops2 -> good ops1 l ->
  option_map visible (run_te ops1 (Some l)) = option_map visible (run_te ops2 (Some l)).
Proof.
  intros HP Hg. pose proof (batch_converges ops1 ops2 HP l Hg) as H.
  destruct (run_te ops1 (Some l)) as [r1|], (run_te ops2 (Some l)) as [r2|]; cbn [option_map] in *; try discriminate; [|reflexivity].
  f_equal. apply visible_of_shape. congruence.
Qed.

(* the premises are met (the two edits of TextProofs.edit_premises_hold and a third author) *)
Definition ex_op_a := mkTE (PAfter (mkT 1 1%N 0%N) 0) (PAfter (mkT 1 1%N 0%N) 2) [120%N] ex_ta ex_va.
Definition ex_op_b := mkTE PHead (PAfter (mkT 1 1%N 0%N) 1) [121%N; 122%N] ex_tb ex_vb.
Definition ex_op_c := mkTE (PAfter (mkT 1 1%N 0%N) 2) (PAfter (mkT 1 1%N 0%N) 2) [33%N] (mkT 2 4%N 0%N) (Some [(1%N, 1); (4%N, 2)]).

Example batch_premises_hold :
  good [ex_op_a; ex_op_b; ex_op_c] ex_text /\
  option_map visible (run_te [ex_op_a; ex_op_b; ex_op_c] (Some ex_text)) = Some [121; 122; 120; 33]%N /\
  option_map visible (run_te [ex_op_c; ex_op_b; ex_op_a] (Some ex_text)) = Some [121; 122; 120; 33]%N.
Proof.
  split; [|split; vm_compute; reflexivity].
  destruct edit_premises_hold as (Ha & Hb & _).
  split.
  - split.
    + cbn [map o_t ex_op_a ex_op_b ex_op_c].
      repeat (constructor; [cbn; intros H; repeat (destruct H as [H|H]; [discriminate H|]); exact H|]). constructor.
    + intros a b [<-|[<-|[<-|[]]]] [<-|[<-|[<-|[]]]] Hne; try (exfalso; apply Hne; reflexivity);
        (split; [cbn; try exact I; discriminate|split; [cbn; try exact I; discriminate|vm_compute; reflexivity]]).
  - intros o [<-|[<-|[<-|[]]]]; [exact Ha|exact Hb|].
    split.
    + exists ex_text, [], []. split; [reflexivity|]. split.
      * exists [mkCh (mkT 1 1%N 0%N) 0 97 None; mkCh (mkT 1 1%N 0%N) 1 98 (Some ex_r)], (mkCh (mkT 1 1%N 0%N) 2 99 None).
        repeat split. intros x [<-|[<-|[]]]; reflexivity.
      * rewrite app_nil_r.
        exists [mkCh (mkT 1 1%N 0%N) 0 97 None; mkCh (mkT 1 1%N 0%N) 1 98 (Some ex_r)], (mkCh (mkT 1 1%N 0%N) 2 99 None).
        repeat split. intros x [<-|[<-|[]]]; reflexivity.
    + intros c [<-|[<-|[<-|[]]]]; vm_compute; discriminate.
Qed.
