(* ERHTRemove.v — object members with Removes: a batch of concurrent Sets (fresh tickets) and
   Removes (of members by their creation ticket, operations.Remove -> DeleteByCreatedAt) gives
   the same table links, hence the same content, in every delivery order; and the snapshot
   theorems of ERHTDecode extend to later Removes. *)
From Coq Require Import Permutation.
From YV Require Import Base.Ticket Crdt.ElemRHT Proofs.TicketProofs Proofs.ERHTProofs Proofs.ERHTCommute Proofs.ERHTDecode.

Inductive oop :=
| OSet (k : N) (id : ticket) (v : Z)
| ORem (id t : ticket).

Definition apply_oop (h : erht) (o : oop) : erht :=
  match o with
  | OSet k id v => pset h k id v
  | ORem id t => match rht_delete_by_created h id t with Some h' => h' | None => h end
  end.

(* ---- tombstoning ---- *)
Lemma rm_val n t : rn_val (fst (rn_remove n t)) = rn_val n.
Proof. unfold rn_remove. destruct (_ && _); reflexivity. Qed.
Lemma rm_id n t : rn_id (fst (rn_remove n t)) = rn_id n.
Proof. now destruct (rn_remove_same n t) as (A & _). Qed.
Lemma rm_key n t : rn_key (fst (rn_remove n t)) = rn_key n.
Proof. now destruct (rn_remove_same n t) as (_ & _ & A). Qed.
Lemma rm_moved n t : rn_moved (fst (rn_remove n t)) = rn_moved n.
Proof. now destruct (rn_remove_same n t) as (_ & A & _). Qed.

Lemma tafter_asym_b a b : tafter a b = true -> tafter b a = false.
Proof. intros T. apply tafter_false. apply tafter_spec in T. now apply tgt_asym. Qed.

(* the tombstone after Remove(t) *)
Definition rmv (id : ticket) (r : option ticket) (t : ticket) : option ticket :=
  if tafter t id && match r with None => true | Some r0 => tafter t r0 end then Some t else r.

Lemma rn_remove_rmv n t :
  fst (rn_remove n t) = mkRN (rn_key n) (rn_id n) (rn_val n) (rn_moved n) (rmv (rn_id n) (rn_removed n) t).
Proof. unfold rn_remove, rmv. destruct (_ && _); destruct n; reflexivity. Qed.

Lemma rmv_comm id r t1 t2 : rmv id (rmv id r t1) t2 = rmv id (rmv id r t2) t1.
Proof.
  destruct (ticket_dec t1 t2) as [->|Hne]; [reflexivity|].
  assert (Tot : forall X (a b : X), (if tafter t2 t1 then a else b) = (if tafter t1 t2 then b else a)).
  { intros X a b. destruct (tafter_total_b t1 t2 Hne) as [T|T]; rewrite T, (tafter_asym_b _ _ T); reflexivity. }
  unfold rmv. destruct (tafter t1 id) eqn:A1, (tafter t2 id) eqn:A2; cbn [andb]; try reflexivity.
  - destruct r as [r|].
    + destruct (tafter t1 r) eqn:B1, (tafter t2 r) eqn:B2.
      * apply Tot.
      * assert (T : tafter t2 t1 = false).
        { destruct (tafter t2 t1) eqn:E; [|reflexivity]. pose proof (tafter_trans_b _ _ _ E B1) as F. congruence. }
        rewrite T; rewrite ?B1, ?B2; reflexivity.
      * assert (T : tafter t1 t2 = false).
        { destruct (tafter t1 t2) eqn:E; [|reflexivity]. pose proof (tafter_trans_b _ _ _ E B2) as F. congruence. }
        rewrite T; rewrite ?B1, ?B2; reflexivity.
      * rewrite ?B1, ?B2; reflexivity.
    + apply Tot.
Qed.

(* two tombstonings commute: the later ticket stays *)
Lemma rm_comm n t1 t2 :
  fst (rn_remove (fst (rn_remove n t1)) t2) = fst (rn_remove (fst (rn_remove n t2)) t1).
Proof. rewrite !rn_remove_rmv. cbn [rn_key rn_id rn_val rn_moved rn_removed]. now rewrite rmv_comm. Qed.

(* ---- Remove keeps the table well formed, fresh tickets fresh, and acts on the links only
        through the tombstone of the member it names ---- *)
Definition lrem (f : N -> option rnode) (id t : ticket) : N -> option rnode :=
  fun k => match f k with
           | Some n => if teqb (rn_id n) id then Some (fst (rn_remove n t)) else Some n
           | None => None
           end.

Lemma rem_nodes h id t n : nget (nodes h) id = Some n ->
  rht_delete_by_created h id t = Some (mkERHT (by_key h) (nset (nodes h) (fst (rn_remove n t)))).
Proof. intros H. unfold rht_delete_by_created. now rewrite H. Qed.

Lemma rem_none h id t : nget (nodes h) id = None -> rht_delete_by_created h id t = None.
Proof. intros H. unfold rht_delete_by_created. now rewrite H. Qed.

Lemma rem_wf h id t : rht_wf h -> rht_wf (apply_oop h (ORem id t)).
Proof.
  intros Hwf. cbn [apply_oop]. destruct (nget (nodes h) id) as [n|] eqn:En; [|now rewrite rem_none].
  rewrite (rem_nodes _ _ _ _ En). destruct Hwf as [Wl Wv Wm Wi]. pose proof (Wi _ _ En) as Hid.
  constructor; cbn [by_key nodes].
  - intros k lid Hk. destruct (Wl _ _ Hk) as (m & Hm & Hkm). rewrite nget_nset, rm_id, Hid.
    destruct (teqb id lid) eqn:E; [|eauto]. apply teqb_spec in E. subst lid. rewrite En in Hm. injection Hm as <-.
    eexists. split; [reflexivity|]. now rewrite rm_key.
  - intros id' m Hm Hlive. rewrite nget_nset, rm_id, Hid in Hm. destruct (teqb id id') eqn:E; [|eauto].
    apply teqb_spec in E. subst id'. injection Hm as <-. rewrite rm_key. apply (Wv _ _ En).
    rewrite rn_remove_rmv in Hlive. cbn [rn_removed] in Hlive. unfold rmv in Hlive.
    destruct (_ && _); [discriminate|exact Hlive].
  - intros id' m mv Hm Hmv. rewrite nget_nset, rm_id, Hid in Hm. destruct (teqb id id') eqn:E; [|eauto].
    injection Hm as <-. rewrite rm_moved in Hmv. rewrite rm_id. eauto.
  - intros id' m Hm. rewrite nget_nset, rm_id, Hid in Hm. destruct (teqb id id') eqn:E; [|eauto].
    apply teqb_spec in E. injection Hm as <-. now rewrite rm_id, Hid.
Qed.

Lemma rem_fresh h id t a : rht_wf h -> fresh h a -> fresh (apply_oop h (ORem id t)) a.
Proof.
  intros Hwf [F1 F2]. cbn [apply_oop]. destruct (nget (nodes h) id) as [n|] eqn:En; [|rewrite rem_none; [now split|exact En]].
  rewrite (rem_nodes _ _ _ _ En). pose proof (wf_ids h Hwf _ _ En) as Hid. split; cbn [nodes].
  - rewrite nget_nset, rm_id, Hid. destruct (teqb id a) eqn:E; [|exact F1]. apply teqb_spec in E. congruence.
  - intros id' m Hm. rewrite nget_nset, rm_id, Hid in Hm. destruct (teqb id id') eqn:E; [|eauto].
    injection Hm as <-. rewrite pos_remove. eauto.
Qed.

Lemma linked_rem h id t : rht_wf h -> forall k, linked (apply_oop h (ORem id t)) k = lrem (linked h) id t k.
Proof.
  intros Hwf k. pose proof Hwf as [Wl Wv Wm Wi]. cbn [apply_oop]. unfold lrem.
  destruct (nget (nodes h) id) as [n|] eqn:En.
  - rewrite (rem_nodes _ _ _ _ En). pose proof (Wi _ _ En) as Hid. unfold linked. cbn [by_key nodes].
    destruct (kget (by_key h) k) as [lid|] eqn:Ek; [|reflexivity].
    destruct (Wl _ _ Ek) as (m & Hm & _). rewrite Hm, nget_nset, rm_id, Hid. rewrite (Wi _ _ Hm).
    rewrite (teqb_sym lid id). destruct (teqb id lid) eqn:E; [|exact Hm].
    apply teqb_spec in E. subst lid. congruence.
  - rewrite rem_none by exact En. destruct (linked h k) as [m|] eqn:El; [|reflexivity].
    destruct (teqb (rn_id m) id) eqn:E; [|reflexivity]. apply teqb_spec in E.
    unfold linked in El. destruct (kget (by_key h) k) as [lid|]; [|discriminate].
    pose proof (Wi _ _ El) as Hl. congruence.
Qed.

(* ---- the abstract step and its commutations ---- *)
Definition labs (f : N -> option rnode) (o : oop) : N -> option rnode :=
  match o with
  | OSet k id v => lset f (k, id, v)
  | ORem id t => lrem f id t
  end.

Lemma labs_ext f g o : (forall k, f k = g k) -> forall k, labs f o k = labs g o k.
Proof.
  intros H k. destruct o as [k0 id v|id t]; cbn [labs]; [now apply lset_ext|].
  unfold lrem. now rewrite H.
Qed.

Lemma lrem_lrem f i1 t1 i2 t2 k : lrem (lrem f i1 t1) i2 t2 k = lrem (lrem f i2 t2) i1 t1 k.
Proof.
  unfold lrem. destruct (f k) as [n|]; [|reflexivity].
  destruct (teqb (rn_id n) i1) eqn:E1, (teqb (rn_id n) i2) eqn:E2; rewrite ?rm_id, ?E1, ?E2; try reflexivity.
  now rewrite rm_comm.
Qed.

Lemma lset_lrem f k a v id t : a <> id ->
  forall k', lrem (lset f (k, a, v)) id t k' = lset (lrem f id t) (k, a, v) k'.
Proof.
  intros Hne k'. unfold lrem, lset, sop_id. cbn [fst snd].
  assert (Ha : teqb a id = false) by (destruct (teqb a id) eqn:E; [apply teqb_spec in E; contradiction|reflexivity]).
  destruct (N.eqb k k'); [|reflexivity].
  destruct (f k) as [old|]; cbn [rn_id]; [|now rewrite Ha].
  destruct (teqb (rn_id old) id) eqn:E.
  - rewrite pos_remove. destruct (tafter a (rn_positioned old)); cbn [rn_id]; [now rewrite Ha|now rewrite E].
  - destruct (tafter a (rn_positioned old)); cbn [rn_id]; [now rewrite Ha|now rewrite E].
Qed.

(* a batch: Sets carry distinct tickets, and no Remove names a member that a Set of the batch creates *)
Definition set_ids (l : list oop) : list ticket :=
  flat_map (fun o => match o with OSet _ id _ => [id] | ORem _ _ => [] end) l.
Definition rem_ids (l : list oop) : list ticket :=
  flat_map (fun o => match o with OSet _ _ _ => [] | ORem id _ => [id] end) l.
Definition batch_ok (l : list oop) : Prop :=
  NoDup (set_ids l) /\ forall a r, In a (set_ids l) -> In r (rem_ids l) -> a <> r.

Lemma batch_perm l l' : Permutation l l' -> batch_ok l -> batch_ok l'.
Proof.
  intros HP [Hnd Hdis].
  assert (Ps : Permutation (set_ids l) (set_ids l')) by (unfold set_ids; now apply Permutation_flat_map).
  assert (Pr : Permutation (rem_ids l) (rem_ids l')) by (unfold rem_ids; now apply Permutation_flat_map).
  split; [eapply Permutation_NoDup; eauto|].
  intros a r Ha Hr. apply Hdis; eapply Permutation_in; try (symmetry; eassumption); assumption.
Qed.

Lemma batch_tail o l : batch_ok (o :: l) -> batch_ok l.
Proof.
  intros [Hnd Hdis]. split.
  - destruct o; cbn in Hnd; [now apply NoDup_cons_iff in Hnd|exact Hnd].
  - intros a r Ha Hr. apply Hdis; destruct o; cbn; auto.
Qed.

Lemma batch_prefix2 o1 o2 l : batch_ok (o1 :: o2 :: l) -> batch_ok [o1; o2].
Proof.
  intros [Hnd Hdis].
  assert (Hs : set_ids (o1 :: o2 :: l) = set_ids [o1; o2] ++ set_ids l).
  { change (o1 :: o2 :: l) with ([o1; o2] ++ l). unfold set_ids. now rewrite flat_map_app. }
  assert (Hr : rem_ids (o1 :: o2 :: l) = rem_ids [o1; o2] ++ rem_ids l).
  { change (o1 :: o2 :: l) with ([o1; o2] ++ l). unfold rem_ids. now rewrite flat_map_app. }
  split.
  - rewrite Hs in Hnd. eapply NoDup_app_l; eauto.
  - intros a r Ha Hr'. apply Hdis; [rewrite Hs|rewrite Hr]; apply in_or_app; now left.
Qed.

Lemma labs_commute f x y : batch_ok (x :: y :: nil) -> forall k, labs (labs f x) y k = labs (labs f y) x k.
Proof.
  intros [Hnd Hdis] k. destruct x as [kx ix vx|ix tx], y as [ky iy vy|iy ty]; cbn [labs].
  - apply lset_commute. cbn in Hnd. apply NoDup_cons_iff in Hnd. destruct Hnd as [Hni _]. cbn.
    intros E. apply Hni. left. now symmetry.
  - apply lset_lrem. apply Hdis; cbn; auto.
  - symmetry. apply lset_lrem. apply Hdis; cbn; auto.
  - apply lrem_lrem.
Qed.

Lemma fold_labs_ext l : forall f g, (forall k, f k = g k) -> forall k, fold_left labs l f k = fold_left labs l g k.
Proof.
  induction l as [|o l IH]; intros f g H k; cbn [fold_left]; [apply H|]. apply IH. now apply labs_ext.
Qed.

Lemma fold_labs_perm l1 l2 : Permutation l1 l2 -> batch_ok l1 ->
  forall f k, fold_left labs l1 f k = fold_left labs l2 f k.
Proof.
  induction 1 as [|x l l' HP IH|x y l|l l' l'' HP1 IH1 HP2 IH2]; intros Hok f k.
  - reflexivity.
  - cbn [fold_left]. apply IH. eapply batch_tail; eauto.
  - cbn [fold_left]. apply fold_labs_ext. apply labs_commute. eapply batch_prefix2; eauto.
  - rewrite IH1 by exact Hok. apply IH2. eapply batch_perm; eauto.
Qed.

(* ---- the table follows the abstract links ---- *)
Definition all_fresh_o (h : erht) (l : list oop) : Prop := forall a, In a (set_ids l) -> fresh h a.

Lemma linked_fold_o l : forall h, rht_wf h -> all_fresh_o h l -> NoDup (set_ids l) ->
  rht_wf (fold_left apply_oop l h) /\
  forall k, linked (fold_left apply_oop l h) k = fold_left labs l (linked h) k.
Proof.
  induction l as [|o l IH]; intros h Hwf Hf Hnd; cbn [fold_left]; [split; [exact Hwf|reflexivity]|].
  destruct o as [k0 id v|id t].
  - cbn [set_ids flat_map app] in Hnd. apply NoDup_cons_iff in Hnd. destruct Hnd as [Hni Hnd].
    assert (Fo : fresh h id) by (apply Hf; cbn; now left).
    assert (Wo : rht_wf (pset h k0 id v)) by (destruct Fo; now apply rht_set_wf).
    assert (Fl : all_fresh_o (pset h k0 id v) l).
    { intros a Ha. apply fresh_after; [exact Hwf|exact Fo|apply Hf; cbn; now right|]. intros E. apply Hni. now rewrite E. }
    destruct (IH _ Wo Fl Hnd) as [W L]. split; [exact W|].
    intros k. cbn [apply_oop]. rewrite L. apply fold_labs_ext. intros k'. cbn [labs].
    apply (linked_apply h (k0, id, v)); assumption.
  - assert (Wo : rht_wf (apply_oop h (ORem id t))) by now apply rem_wf.
    assert (Fl : all_fresh_o (apply_oop h (ORem id t)) l).
    { intros a Ha. apply rem_fresh; [exact Hwf|]. apply Hf. cbn. exact Ha. }
    destruct (IH _ Wo Fl Hnd) as [W L]. split; [exact W|].
    intros k. rewrite L. apply fold_labs_ext. intros k'. cbn [labs]. now apply linked_rem.
Qed.

(* C01 for object members: a batch of concurrent Sets and Removes, any two delivery orders *)
Theorem batch_converges h l1 l2 : rht_wf h -> all_fresh_o h l1 -> batch_ok l1 -> Permutation l1 l2 ->
  forall k, linked (fold_left apply_oop l1 h) k = linked (fold_left apply_oop l2 h) k.
Proof.
  intros Hwf Hf Hok HP k.
  assert (Hok2 : batch_ok l2) by (eapply batch_perm; eauto).
  assert (Hf2 : all_fresh_o h l2).
  { intros a Ha. apply Hf. eapply Permutation_in; [|exact Ha]. unfold set_ids. apply Permutation_flat_map. now symmetry. }
  destruct (linked_fold_o l1 h Hwf Hf (proj1 Hok)) as [_ L1].
  destruct (linked_fold_o l2 h Hwf Hf2 (proj1 Hok2)) as [_ L2].
  rewrite L1, L2. now apply fold_labs_perm.
Qed.

Corollary batch_converges_view h l1 l2 : rht_wf h -> all_fresh_o h l1 -> batch_ok l1 -> Permutation l1 l2 ->
  forall k, view (fold_left apply_oop l1 h) k = view (fold_left apply_oop l2 h) k.
Proof. intros Hwf Hf Hok HP k. unfold view. now rewrite (batch_converges h l1 l2 Hwf Hf Hok HP k). Qed.

(* ---- snapshots, then Sets and Removes ---- *)
Lemma rm_same m n t : neq m n -> neq (fst (rn_remove m t)) (fst (rn_remove n t)).
Proof.
  intros (A & B & C & D & E). unfold neq. rewrite !pos_remove, !rm_key, !rm_id, !rm_val.
  repeat split; try assumption. rewrite !rn_remove_rmv. cbn [rn_removed]. now rewrite B, D.
Qed.

Lemma labs_same f g o : (forall k, same_node (f k) (g k)) -> forall k, same_node (labs f o k) (labs g o k).
Proof.
  intros H k. destruct o as [k0 id v|id t]; cbn [labs]; [now apply lset_same|].
  unfold lrem. specialize (H k). destruct (f k) as [m|], (g k) as [n|]; cbn in H; try tauto.
  pose proof H as (_ & Hid & _). rewrite Hid. destruct (teqb (rn_id n) id); cbn; [now apply rm_same|exact H].
Qed.

Lemma fold_labs_same l : forall f g, (forall k, same_node (f k) (g k)) ->
  forall k, same_node (fold_left labs l f k) (fold_left labs l g k).
Proof.
  induction l as [|o l IH]; intros f g H k; cbn [fold_left]; [apply H|]. apply IH. now apply labs_same.
Qed.

(* C02 for objects: snapshot (members in any order), then any later Sets and Removes = the
   replica that kept its state and applied the same operations *)
Theorem snapshot_then_ops h l ops : rht_wf h -> built_inv h -> Permutation l (nodes h) ->
  all_fresh_o h ops -> NoDup (set_ids ops) ->
  forall k, view (fold_left apply_oop ops (rht_decode l)) k = view (fold_left apply_oop ops h) k.
Proof.
  intros Hwf Hb HP Hf Hnd k.
  destruct (decode_full h l Hwf Hb HP) as (Wd & Nodes & Links).
  assert (Hfd : all_fresh_o (rht_decode l) ops).
  { intros a Ha. destruct (Hf a Ha) as [F1 F2]. split.
    - specialize (Nodes a). rewrite F1 in Nodes. destruct (nget (nodes (rht_decode l)) a); [destruct Nodes|reflexivity].
    - intros id' m Hm. specialize (Nodes id'). rewrite Hm in Nodes.
      destruct (nget (nodes h) id') as [n|] eqn:En; [|destruct Nodes].
      destruct Nodes as (_ & _ & _ & _ & ->). eapply F2; eauto. }
  destruct (linked_fold_o ops _ Wd Hfd Hnd) as [_ L1]. destruct (linked_fold_o ops h Hwf Hf Hnd) as [_ L2].
  rewrite !view_vw. apply vw_same. rewrite L1, L2. now apply fold_labs_same.
Qed.

(* ---- tables built by Sets and Removes meet the hypotheses of the snapshot theorems ---- *)
Lemma In_nset l n' x : NoDup (map rn_id l) -> In x (nset l n') -> x = n' \/ (In x l /\ rn_id x <> rn_id n').
Proof.
  intros Hnd Hin. apply (In_iff_nget _ _ (nset_nodup l n' Hnd)) in Hin. rewrite nget_nset in Hin.
  destruct (teqb (rn_id n') (rn_id x)) eqn:E.
  - injection Hin as <-. now left.
  - right. split; [now destruct (nget_In _ _ _ Hin)|]. intros F. rewrite F, teqb_refl in E. discriminate.
Qed.

Theorem rem_built h id t : rht_wf h -> built_inv h -> built_inv (apply_oop h (ORem id t)).
Proof.
  intros Hwf Hb. pose proof Hb as [[Hnd Hnew] Hlk]. pose proof Hwf as [Wl Wv Wm Wi].
  pose proof (linked_rem h id t Hwf) as HL.
  destruct (nget (nodes h) id) as [n|] eqn:En; [|cbn [apply_oop]; now rewrite rem_none].
  pose proof (Wi _ _ En) as Hid. destruct (nget_In _ _ _ En) as [Hn_in _].
  set (h' := apply_oop h (ORem id t)) in *.
  assert (Hn' : nodes h' = nset (nodes h) (fst (rn_remove n t))).
  { unfold h'. cbn [apply_oop]. now rewrite (rem_nodes _ _ _ _ En). }
  assert (Hnd' : NoDup (map rn_id (nodes h'))) by (rewrite Hn'; now apply nset_nodup).
  (* every member of h' stands for a member of h with the same id, key and position *)
  assert (Hmem : forall x, In x (nodes h') -> exists x0, In x0 (nodes h) /\ rn_id x = rn_id x0 /\ rn_key x = rn_key x0 /\
                                                   rn_positioned x = rn_positioned x0).
  { intros x Hx. rewrite Hn' in Hx. destruct (In_nset _ _ _ Hnd Hx) as [->|[Hx0 _]].
    - exists n. rewrite rm_id, rm_key, pos_remove. auto.
    - exists x. auto. }
  assert (Hlink : forall k w', linked h' k = Some w' -> exists w, linked h k = Some w /\ rn_id w' = rn_id w /\
                                                         rn_positioned w' = rn_positioned w).
  { intros k w' Hw'. rewrite HL in Hw'. unfold lrem in Hw'. destruct (linked h k) as [w|]; [|discriminate].
    exists w. split; [reflexivity|]. destruct (teqb (rn_id w) id); injection Hw' as <-; [rewrite rm_id, pos_remove|]; auto. }
  constructor; [constructor; [exact Hnd'|]|].
  - intros k w' Hw' x Hx Hkx Hne.
    destruct (Hlink _ _ Hw') as (w & Hw & Wid & Wpos). destruct (Hmem _ Hx) as (x0 & Hx0 & Xid & Xk & Xpos).
    rewrite Wpos, Xpos. eapply Hnew; eauto; [congruence|].
    intros ->. apply Hne. apply (nodup_id_inj _ _ _ Hnd' Hx); [|congruence].
    unfold linked in Hw'. destruct (kget (by_key h') k); [|discriminate]. now destruct (nget_In _ _ _ Hw').
  - intros x Hx. destruct (Hmem _ Hx) as (x0 & Hx0 & _ & Xk & _). rewrite HL, Xk. unfold lrem.
    pose proof (Hlk _ Hx0) as F. destruct (linked h (rn_key x0)) as [w|]; [|contradiction].
    destruct (teqb _ _); discriminate.
Qed.

Theorem ops_built ops : forall h, rht_wf h -> built_inv h -> all_fresh_o h ops -> NoDup (set_ids ops) ->
  rht_wf (fold_left apply_oop ops h) /\ built_inv (fold_left apply_oop ops h).
Proof.
  induction ops as [|o ops IH]; intros h Hwf Hb Hf Hnd; cbn [fold_left]; [now split|].
  destruct o as [k0 id v|id t].
  - cbn [set_ids flat_map app] in Hnd. apply NoDup_cons_iff in Hnd. destruct Hnd as [Hni Hnd].
    assert (Fo : fresh h id) by (apply Hf; cbn; now left).
    apply IH; [destruct Fo; now apply rht_set_wf|now apply pset_built| |exact Hnd].
    intros a Ha. apply fresh_after; [exact Hwf|exact Fo|apply Hf; cbn; now right|]. intros E. apply Hni. now rewrite E.
  - apply IH; [now apply rem_wf|now apply rem_built| |exact Hnd].
    intros a Ha. apply rem_fresh; [exact Hwf|]. apply Hf. exact Ha.
Qed.

(* the premises are met: Sets on two keys, a Remove of the winner, a Remove of a loser *)
Definition ex_ops_o : list oop :=
  [ OSet 1%N (mkT 1 1%N 0%N) 10; OSet 1%N (mkT 2 2%N 0%N) 20; ORem (mkT 2 2%N 0%N) (mkT 3 1%N 0%N);
    OSet 2%N (mkT 2 1%N 0%N) 30; ORem (mkT 1 1%N 0%N) (mkT 4 2%N 0%N) ].
Example ops_premises_hold :
  let h := fold_left apply_oop ex_ops_o empty_erht in
  rht_wf h /\ built_inv h /\ view h 1%N = None /\ view h 2%N = Some 30 /\
  view (rht_decode (rev (nodes h))) 2%N = Some 30 /\ List.length (nodes h) = 3%nat.
Proof.
  assert (H : rht_wf (fold_left apply_oop ex_ops_o empty_erht) /\ built_inv (fold_left apply_oop ex_ops_o empty_erht)).
  { apply ops_built; [apply rht_wf_empty|apply built_empty|intros a _; apply fresh_empty|].
    cbn [ex_ops_o set_ids flat_map app].
    repeat (constructor; [cbn; intros H; repeat (destruct H as [H|H]; [discriminate H|]); exact H|]). constructor. }
  destruct H as [A B]. cbv zeta. split; [exact A|]. split; [exact B|]. repeat split; vm_compute; reflexivity.
Qed.
