(* TreeTextProofs.v — property C19, the fragment "text inside one element": crdt.Tree.Edit on
   the children of one element is RGATreeSplit.edit on every range the model covers, so the
   commutation theorem of the text structure carries over. *)
From YV Require Import Base.Ticket Crdt.TextRGA Crdt.TreeText Proofs.TextProofs.

(* wherever the tree model is defined it agrees with the text model *)
Lemma tree_edit_some pf pt vals t v l r : tree_edit pf pt vals t v l = Some r -> edit pf pt vals t v l = Some r.
Proof.
  unfold tree_edit, edit. destruct (find_pos pt t l) as [[tl tr]|]; [|discriminate].
  destruct (find_pos pf t l) as [[fl fr]|]; [|discriminate].
  destruct (Nat.leb (length fl) (length tl)); [auto|discriminate].
Qed.

(* resolution keeps the order of two positions: stepping over newer pieces cannot carry the
   earlier position past the later one *)
Lemma find_pos_mono pf pt t l fa fr0 ta tr0 :
  split_after pf l = Some (fa, fr0) -> split_after pt l = Some (ta, tr0) -> (length fa <= length ta)%nat ->
  exists fl fr tl tr, find_pos pf t l = Some (fl, fr) /\ find_pos pt t l = Some (tl, tr) /\ (length fl <= length tl)%nat.
Proof.
  intros Sf St Hlen.
  destruct (split_after_spec _ _ _ _ Sf) as [Lf _]. destruct (split_after_spec _ _ _ _ St) as [Lt _].
  assert (Hpre : fa ++ fr0 = ta ++ tr0) by congruence.
  destruct (prefix_split _ _ _ _ Hpre Hlen) as (mid & -> & ->).
  unfold find_pos. rewrite Sf, St.
  pose proof (skip_newer_spec t tr0) as S2. destruct (skip_newer t tr0) as [s2 tr] eqn:E2. destruct S2 as (-> & Hs2 & Htr).
  pose proof (skip_newer_spec t mid) as Sm. destruct (skip_newer t mid) as [sm rm] eqn:Em. destruct Sm as (-> & Hsm & Hrm).
  assert (E2' : skip_newer t (s2 ++ tr) = (s2, tr)) by exact E2.
  destruct rm as [|x rm].
  - rewrite app_nil_r in *. rewrite (skip_newer_app_all t sm (s2 ++ tr) Hsm), E2'.
    eexists _, _, _, _. split; [reflexivity|]. split; [reflexivity|]. rewrite !app_length. lia.
  - rewrite <- (app_assoc sm (x :: rm)). rewrite <- app_comm_cons.
    rewrite (skip_newer_app_stop t sm x (rm ++ s2 ++ tr) Hsm Hrm).
    eexists _, _, _, _. split; [reflexivity|]. split; [reflexivity|]. rewrite !app_length. cbn [length]. lia.
Qed.

(* an honest range is inside the model, and there the two models agree *)
Theorem tree_edit_is_edit pf pt vals t v l : honest pf pt t v l -> tree_edit pf pt vals t v l = edit pf pt vals t v l.
Proof.
  intros [(fa & mid & tr0 & -> & Ef & Et) _].
  assert (Sf : split_after pf (fa ++ mid ++ tr0) = Some (fa, mid ++ tr0)) by now apply split_after_of_decomp.
  assert (St : split_after pt (fa ++ mid ++ tr0) = Some (fa ++ mid, tr0)) by (rewrite app_assoc; now apply split_after_of_decomp).
  destruct (find_pos_mono pf pt t _ _ _ _ _ Sf St ltac:(rewrite app_length; lia)) as (fl & fr & tl & tr & Ff & Ft & Hle).
  unfold tree_edit, edit. rewrite Ff, Ft. apply Nat.leb_le in Hle. now rewrite Hle.
Qed.

(* two concurrent edits of the text inside one element commute (same hypotheses as for crdt.Text) *)
Theorem tree_text_edit_commute pfa pta valsa ta va pfb ptb valsb tb vb l :
  ta <> tb ->
  pos_tk_ne pfa tb -> pos_tk_ne pta tb -> pos_tk_ne pfb ta -> pos_tk_ne ptb ta ->
  known va tb = false -> known vb ta = false ->
  honest pfa pta ta va l -> honest pfb ptb tb vb l ->
  option_map shape (obind (tree_edit pfa pta valsa ta va l) (tree_edit pfb ptb valsb tb vb)) =
  option_map shape (obind (tree_edit pfb ptb valsb tb vb l) (tree_edit pfa pta valsa ta va)).
Proof.
  intros Hne Nfa Nta Nfb Ntb Ka Kb Ha Hb.
  rewrite (tree_edit_is_edit _ _ valsa _ _ _ Ha), (tree_edit_is_edit _ _ valsb _ _ _ Hb).
  assert (L : obind (edit pfa pta valsa ta va l) (tree_edit pfb ptb valsb tb vb) =
              obind (edit pfa pta valsa ta va l) (edit pfb ptb valsb tb vb)).
  { destruct (edit pfa pta valsa ta va l) as [la|] eqn:E; [|reflexivity]. cbn [obind].
    apply tree_edit_is_edit. rewrite (edit_is_hedit _ _ valsa _ _ _ Ha) in E. eapply honest_preserved; eauto. }
  assert (R : obind (edit pfb ptb valsb tb vb l) (tree_edit pfa pta valsa ta va) =
              obind (edit pfb ptb valsb tb vb l) (edit pfa pta valsa ta va)).
  { destruct (edit pfb ptb valsb tb vb l) as [lb|] eqn:E; [|reflexivity]. cbn [obind].
    apply tree_edit_is_edit. rewrite (edit_is_hedit _ _ valsb _ _ _ Hb) in E. eapply honest_preserved; eauto. }
  rewrite L, R. now apply edit_commute.
Qed.

(* the premises are met by the example of Proofs/TextProofs.v *)
Example tree_edit_premises_hold :
  honest (PAfter (mkT 1 1%N 0%N) 0) (PAfter (mkT 1 1%N 0%N) 2) ex_ta ex_va ex_text /\
  honest PHead (PAfter (mkT 1 1%N 0%N) 1) ex_tb ex_vb ex_text /\
  tree_edit (PAfter (mkT 1 1%N 0%N) 0) (PAfter (mkT 1 1%N 0%N) 2) [120%N] ex_ta ex_va ex_text <> None.
Proof.
  destruct edit_premises_hold as (H1 & H2 & _). repeat split; try exact H1; try exact H2; try (apply H1); try (apply H2).
  vm_compute. discriminate.
Qed.
