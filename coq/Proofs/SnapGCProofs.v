From YV Require Import Cache.SnapGC.

Section P.
  Variable dep hz : nat -> nat.
  Hypothesis hz_mono : forall a b, a <= b -> hz a <= hz b.
  (* C03's guarantee (C03_minimum_vector_is_safe, part A) in this vocabulary: a row stored after
     time k was made knowing everything the minimum vector covered at time k *)
  Hypothesis safe : forall k j, k < j -> hz k <= dep j.

  Definition GcInv (s : gsys) : Prop :=
    g_failed s = false /\
    match g_cache s with
    | Some e => gseq e <= g_T s /\ gpurged e <= hz (gseq e)
    | None => True
    end.

  Lemma replayable_ok : forall b n, gpurged b <= hz (gseq b) -> replayable dep b n = true.
  Proof.
    intros b n Hp. unfold replayable. apply forallb_forall. intros j Hj.
    apply in_seq in Hj. apply Nat.leb_le.
    specialize (safe (gseq b) j). lia.
  Qed.

  Lemma gstep_inv : forall s o, GcInv s -> GcInv (gstep dep hz keep_fixed s o).
  Proof.
    intros s o [Hf Hc]. destruct o as [| |n snap]; cbn [gstep].
    - split; [exact Hf|]. cbn [g_cache g_T]. destruct (g_cache s) as [e|]; [|exact I].
      destruct Hc as [H1 H2]. split; [lia|exact H2].
    - split; [exact Hf|exact I].
    - destruct ((n <=? g_T s) && (snap <=? n)) eqn:E; [|split; assumption].
      apply andb_true_iff in E. destruct E as [E1 E2]. apply Nat.leb_le in E1. apply Nat.leb_le in E2.
      assert (Hb : gpurged (gbase snap (g_cache s) n) <= hz (gseq (gbase snap (g_cache s) n)) /\
                   gseq (gbase snap (g_cache s) n) <= n).
      { unfold gbase. destruct (g_cache s) as [e|].
        - destruct (n <? gseq e) eqn:L.
          + cbn. lia.
          + apply Nat.ltb_ge in L. destruct Hc as [_ H2]. split; [exact H2|exact L].
        - cbn. lia. }
      destruct Hb as [Hb1 Hb2].
      rewrite (replayable_ok _ n Hb1).
      split; [exact Hf|]. cbn [g_cache g_T]. unfold keep_fixed.
      destruct (g_T s <=? n) eqn:K; [|exact Hc].
      apply Nat.leb_le in K. cbn [collected gseq gpurged]. split; [exact E1|].
      assert (n = g_T s) by lia. subst n.
      pose proof (hz_mono _ _ Hb2). lia.
  Qed.

  Theorem fixed_rule_never_fails : forall ops,
    g_failed (fold_left (gstep dep hz keep_fixed) ops gsys0) = false.
  Proof.
    intros ops.
    assert (H : forall s, GcInv s -> GcInv (fold_left (gstep dep hz keep_fixed) ops s)).
    { induction ops as [|o r IH]; intros s Hs; cbn [fold_left]; [exact Hs|].
      apply IH. apply gstep_inv. exact Hs. }
    destruct (H gsys0) as [Hf _]; [split; [reflexivity|exact I]|exact Hf].
  Qed.
End P.

(* the rule of the pinned tree (cache whatever was built): three rows; the author of row 3 made it
   knowing nothing of rows 1-2 (dep 3 = 0); by the time the log has three rows everybody has seen
   rows 1-2 (hz 3 = 2).  A rebuild at 2 caches a document purged up to 2; the rebuild of the head
   from that entry cannot apply row 3. *)
Definition wdep (j : nat) : nat := if j <=? 3 then 0 else j.
Definition whz (T : nat) : nat := if T <? 3 then 0 else if T =? 3 then 2 else 3.

Lemma witness_premises :
  (forall a b, a <= b -> whz a <= whz b) /\ (forall k j, k < j -> whz k <= wdep j).
Proof.
  split.
  - intros a b Hab. unfold whz.
    destruct (a <? 3) eqn:A; [lia|]. apply Nat.ltb_ge in A.
    destruct (b <? 3) eqn:B; [apply Nat.ltb_lt in B; lia|].
    destruct (a =? 3) eqn:A3; destruct (b =? 3) eqn:B3; try lia.
    apply Nat.eqb_neq in A3. apply Nat.eqb_eq in B3. lia.
  - intros k j Hk. unfold whz, wdep.
    destruct (j <=? 3) eqn:J.
    + apply Nat.leb_le in J. assert (H : k < 3) by lia.
      apply Nat.ltb_lt in H. rewrite H. lia.
    + apply Nat.leb_gt in J.
      destruct (k <? 3); [lia|]. destruct (k =? 3); lia.
Qed.

Lemma always_rule_refuted :
  g_failed (fold_left (gstep wdep whz keep_always) [GPush; GPush; GPush; GBuild 2 0; GBuild 3 0] gsys0) = true.
Proof. reflexivity. Qed.

Example fixed_rule_on_the_witness :
  g_failed (fold_left (gstep wdep whz keep_fixed) [GPush; GPush; GPush; GBuild 2 0; GBuild 3 0] gsys0) = false.
Proof. reflexivity. Qed.
