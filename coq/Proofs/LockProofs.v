(* LockProofs.v — threads that take their locks in strictly increasing class order
   never deadlock, whatever their number, whatever the keys, readers and writers
   with writer preference included. *)
From Coq Require Import List Arith Bool Lia.
From YV Require Import Conc.Locks.
Import ListNotations.

Lemma others_In {A} (l : list A) i x : In x (others l i) -> In x l.
Proof.
  revert i. induction l as [|y l IH]; intros [|i] H; cbn in *; auto.
  destruct H as [<-|H]; [now left|right; eapply IH; eauto].
Qed.

Lemma lock_eqb_eq a b : lock_eqb a b = true -> a = b.
Proof.
  destruct a, b. unfold lock_eqb. cbn. intros H. apply andb_true_iff in H as [H1 H2].
  apply Nat.eqb_eq in H1, H2. now subst.
Qed.

Lemma increasing_cons a r : increasing (a :: r) = true -> increasing r = true /\ (forall x, In x r -> a < x).
Proof.
  revert a. induction r as [|b r IH]; intros a H; [split; [reflexivity|intros x []]|].
  change (increasing (a :: b :: r)) with (Nat.ltb a b && increasing (b :: r)) in H.
  apply andb_true_iff in H as [Hab Hr]. apply Nat.ltb_lt in Hab. split; [exact Hr|].
  destruct (IH b Hr) as [_ Hall]. intros x [<-|Hx]; [exact Hab|]. specialize (Hall x Hx). lia.
Qed.

(* in an increasing list everything before a position is smaller than what is at it *)
Lemma increasing_app xs y zs : increasing (xs ++ y :: zs) = true -> forall x, In x xs -> x < y.
Proof.
  induction xs as [|a xs IH]; intros H x Hx; [destruct Hx|].
  change ((a :: xs) ++ y :: zs) with (a :: (xs ++ y :: zs)) in H.
  destruct (increasing_cons _ _ H) as [Hr Hall].
  destruct Hx as [<-|Hx]; [apply Hall, in_or_app; right; now left|now apply IH].
Qed.

(* a thread that follows the order and holds l is waiting for something of a higher class *)
Lemma holder_waits_higher t l m' l2 m2 rest :
  ordered_thread t = true -> In (l, m') (held t) -> todo t = (l2, m2) :: rest -> fst l < fst l2.
Proof.
  unfold ordered_thread, ranks. intros Ho Hh Ht. rewrite Ht, map_app in Ho. cbn [map] in Ho.
  eapply increasing_app; [exact Ho|]. apply in_map_iff. exists (l, m'). split; [reflexivity|].
  apply in_rev in Hh. exact Hh.
Qed.

Definition next_rank (t : thread) : nat := match todo t with (l, _) :: _ => fst l | [] => 0 end.

Lemma max_exists (s : state) : s <> [] -> exists t, In t s /\ forall u, In u s -> next_rank u <= next_rank t.
Proof.
  induction s as [|a s IH]; intros H; [contradiction|].
  destruct s as [|b s].
  - exists a. split; [now left|]. intros u [<-|[]]. lia.
  - destruct IH as (t & Ht & Hmax); [discriminate|].
    destruct (le_lt_dec (next_rank a) (next_rank t)).
    + exists t. split; [now right|]. intros u [<-|Hu]; [assumption|now apply Hmax].
    + exists a. split; [now left|]. intros u [<-|Hu]; [lia|]. specialize (Hmax u Hu). lia.
Qed.

Lemma holds_conflicting_In t l m : holds_conflicting t l m = true -> exists m', In (l, m') (held t).
Proof.
  unfold holds_conflicting. rewrite existsb_exists. intros ([l' m'] & Hin & H).
  apply andb_true_iff in H as [H _]. cbn in H. apply lock_eqb_eq in H. subst. eauto.
Qed.

Theorem progress (s : state) : ordered s = true -> s <> [] -> exists i, enabled s i = true.
Proof.
  intros Ho Hne.
  (* somebody who has everything he wants can return *)
  destruct (existsb (fun t => match todo t with [] => true | _ => false end) s) eqn:Ef.
  - apply existsb_exists in Ef as (t & Ht & Hd). destruct (In_nth_error _ _ Ht) as (i & Hi).
    exists i. unfold enabled. rewrite Hi. destruct (todo t); [reflexivity|discriminate].
  - assert (Hall : forall t, In t s -> exists l m rest, todo t = (l, m) :: rest).
    { intros t Ht. destruct (todo t) as [|[l m] rest] eqn:E; [|eauto].
      exfalso. assert (existsb (fun t => match todo t with [] => true | _ => false end) s = true).
      { apply existsb_exists. exists t. split; [assumption|]. now rewrite E. }
      congruence. }
    destruct (max_exists s Hne) as (t & Ht & Hmax).
    destruct (Hall t Ht) as (l & m & rest & Et).
    destruct (In_nth_error _ _ Ht) as (i & Hi).
    assert (Hord : forall u, In u s -> ordered_thread u = true) by (intros u Hu; unfold ordered in Ho; rewrite forallb_forall in Ho; auto).
    (* nobody holds a lock of the maximal wanted class *)
    assert (Hnohold : forall u m', In u s -> ~ In (l, m') (held u)).
    { intros u m' Hu Hh. destruct (Hall u Hu) as (l2 & m2 & r2 & Eu).
      pose proof (holder_waits_higher u l m' l2 m2 r2 (Hord u Hu) Hh Eu) as Hlt.
      specialize (Hmax u Hu). unfold next_rank in Hmax. rewrite Eu, Et in Hmax. cbn in Hmax. lia. }
    destruct (can_acquire s i l m) eqn:Ec.
    + exists i. unfold enabled. now rewrite Hi, Et.
    + unfold can_acquire in Ec. apply andb_false_iff in Ec as [Ec|Ec].
      * (* a conflicting holder: impossible *)
        exfalso. assert (exists u, In u (others s i) /\ holds_conflicting u l m = true) as (u & Hu & Hc).
        { clear - Ec. induction (others s i) as [|u r IH]; [discriminate|]. cbn in Ec.
          apply andb_false_iff in Ec as [E|E].
          - exists u. split; [now left|]. now apply negb_false_iff in E.
          - destruct (IH E) as (x & Hx & Hc). exists x. split; [now right|assumption]. }
        destruct (holds_conflicting_In _ _ _ Hc) as (m' & Hin).
        exact (Hnohold u m' (others_In _ _ _ Hu) Hin).
      * (* a read held back by a waiting writer: that writer can go *)
        destruct m; [|discriminate].
        assert (exists w, In w (others s i) /\ waits_to_write w l = true) as (w & Hw & Hww).
        { clear - Ec. induction (others s i) as [|u r IH]; [discriminate|]. cbn in Ec.
          apply andb_false_iff in Ec as [E|E].
          - exists u. split; [now left|]. now apply negb_false_iff in E.
          - destruct (IH E) as (x & Hx & Hc). exists x. split; [now right|assumption]. }
        apply others_In in Hw. destruct (In_nth_error _ _ Hw) as (j & Hj).
        unfold waits_to_write in Hww. destruct (todo w) as [|[l' [|]] r'] eqn:Ew; try discriminate.
        apply lock_eqb_eq in Hww. subst l'.
        exists j. unfold enabled. rewrite Hj, Ew. unfold can_acquire. rewrite andb_true_r.
        apply forallb_forall. intros u Hu. apply negb_true_iff.
        destruct (holds_conflicting u l MWrite) eqn:Hc; [|reflexivity].
        exfalso. destruct (holds_conflicting_In _ _ _ Hc) as (m' & Hin).
        exact (Hnohold u m' (others_In _ _ _ Hu) Hin).
Qed.

(* the order is kept by every step, so progress holds in every reachable state *)
Lemma ranks_acquire t l m rest : todo t = (l, m) :: rest ->
  ranks (mkThread ((l, m) :: held t) rest) = ranks t.
Proof. intros E. unfold ranks. cbn [held todo rev]. rewrite E, <- app_assoc. reflexivity. Qed.

Lemma forallb_others {A} (f : A -> bool) l i : forallb f l = true -> forallb f (others l i) = true.
Proof.
  revert i. induction l as [|x l IH]; intros [|i] H; cbn in *; auto.
  - now apply andb_true_iff in H as [_ H].
  - apply andb_true_iff in H as [H1 H2]. now rewrite H1, IH.
Qed.

Lemma forallb_set_nth {A} (f : A -> bool) l i x : forallb f l = true -> f x = true -> forallb f (set_nth l i x) = true.
Proof.
  revert i. induction l as [|y l IH]; intros [|i] H Hx; cbn in *; auto.
  - apply andb_true_iff in H as [_ H]. now rewrite Hx.
  - apply andb_true_iff in H as [H1 H2]. now rewrite H1, IH.
Qed.

Lemma ordered_step s i : ordered s = true -> ordered (step s i) = true.
Proof.
  intros Ho. unfold step. destruct (nth_error s i) as [t|] eqn:Hi; [|exact Ho].
  destruct (todo t) as [|[l m] rest] eqn:Et; [now apply forallb_others|].
  destruct (can_acquire s i l m); [|exact Ho].
  apply forallb_set_nth; [exact Ho|]. unfold ordered_thread. rewrite (ranks_acquire t l m rest Et).
  unfold ordered in Ho. rewrite forallb_forall in Ho. apply Ho. eapply nth_error_In; eauto.
Qed.

Theorem deadlock_free (s : state) (sched : list nat) :
  ordered s = true ->
  let s' := fold_left step sched s in
  s' = [] \/ exists i, enabled s' i = true.
Proof.
  intros Ho s'. assert (ordered s' = true).
  { unfold s'. clear s'. revert s Ho. induction sched as [|i r IH]; intros s Ho; [exact Ho|]. cbn. apply IH. now apply ordered_step. }
  destruct s' as [|t r] eqn:E; [now left|right]. apply progress; [assumption|discriminate].
Qed.

(* threads made from acquisition sequences that follow the order form an ordered state *)
Definition thread_of (seq : list (lclass * lmode)) (key : nat) : thread :=
  mkThread [] (map (fun p => ((rank (fst p), key), match snd p with LR => MRead | _ => MWrite end))
                   (filter (fun p => match snd p with LT => false | _ => true end) seq)).

Lemma thread_of_ordered seq key : seq_ordered seq = true -> ordered_thread (thread_of seq key) = true.
Proof.
  unfold seq_ordered, blocking, ordered_thread, ranks, thread_of. cbn [held todo rev app].
  rewrite map_map. cbn. intros H. exact H.
Qed.

Theorem handlers_deadlock_free (table : list (list (lclass * lmode))) (threads : list (nat * nat)) (sched : list nat) :
  forallb seq_ordered table = true ->
  (* any number of threads, each running some handler of the table on some key *)
  let s := map (fun p => thread_of (nth (fst p) table []) (snd p)) threads in
  let s' := fold_left step sched s in
  s' = [] \/ exists i, enabled s' i = true.
Proof.
  intros Ht s. apply deadlock_free. unfold s, ordered. apply forallb_forall. intros t Hin.
  apply in_map_iff in Hin as ([h k] & <- & _). apply thread_of_ordered. cbn [fst].
  destruct (nth_in_or_default h table []) as [Hn|Hn].
  - rewrite forallb_forall in Ht. now apply Ht.
  - rewrite Hn. reflexivity.
Qed.

(* the pull-before-doc order of ClusterService.DetachDocument (before its repair) deadlocks:
   T1 PushPullChanges holds doc(read) and wants pull; T2 DetachDocument holds pull and wants
   doc(read), held back by T3, a compaction waiting to write doc *)
Example pull_before_doc_deadlocks :
  let doc := (1, 7) in let pull := (2, 7) in
  let s := [ mkThread [(doc, MRead)] [(pull, MWrite)];
             mkThread [(pull, MWrite)] [(doc, MRead)];
             mkThread [] [(doc, MWrite)] ] in
  forallb (enabled s) [0; 1; 2] = false /\ enabled s 0 = false /\ enabled s 1 = false /\ enabled s 2 = false.
Proof. vm_compute. auto. Qed.
