(* DocProofs.v — Document.Update as a state machine over an abstract CRDT root
   (property C08).  The CRDT layer enters through Section variables:
     exec        — Change.Execute on a root (operations.Execute chain),
     run_edit    — what one proxy call (json.Object/Array/Text/...) does to the
                   clone and which operations it pushes,
   and ONE hypothesis, [proxy_agrees]: executing the pushed operations on a
   root equal to the clone-before gives the clone-after.  That hypothesis is
   exactly what the differential run of the C08 check validates on the real
   code after every step (Root().Marshal() = Marshal()); it is part of the
   trusted base of C08 and is discharged for counters below. *)
From Coq Require Import List Bool.
Import ListNotations.

Section Doc.
  Variables (R Op Edit : Type).
  Variable exec : R -> Op -> option R.
  Variable run_edit : R -> Edit -> option (R * list Op).   (* None = the call panics / errors *)

  Fixpoint exec_all (r : R) (ops : list Op) : option R :=
    match ops with
    | [] => Some r
    | o :: rest => match exec r o with Some r' => exec_all r' rest | None => None end
    end.

  Hypothesis proxy_agrees : forall r e r' ops, run_edit r e = Some (r', ops) -> exec_all r ops = Some r'.

  (* document.Document: root, lazily created clone, unpushed local changes, undo stack *)
  Record doc := mkDoc { d_root : R; d_clone : option R; d_local : list (list Op); d_undo : list (list Op) }.

  (* how an updater ends *)
  Inductive outcome := Ok | Fails.     (* Fails = returns an error, panics, breaks the schema or the size limit *)

  Fixpoint run_edits (c : R) (es : list Edit) : option (R * list Op) :=
    match es with
    | [] => Some (c, [])
    | e :: rest =>
        match run_edit c e with
        | None => None
        | Some (c', ops) =>
            match run_edits c' rest with
            | None => None
            | Some (c'', ops') => Some (c'', ops ++ ops')
            end
        end
    end.

  Definition ensure_clone (d : doc) : R := match d_clone d with Some c => c | None => d_root d end.

  (* Document.Update *)
  Definition update (d : doc) (es : list Edit) (o : outcome) : doc :=
    let c := ensure_clone d in
    match run_edits c es, o with
    | Some (c', ops), Ok =>
        match exec_all (d_root d) ops with
        | Some r' => mkDoc r' (Some c') (d_local d ++ [ops]) (ops :: d_undo d)
        | None => mkDoc (d_root d) None (d_local d) (d_undo d)
        end
    | _, _ => mkDoc (d_root d) None (d_local d) (d_undo d)      (* clone dropped, nothing else touched *)
    end.

  (* Root(): the content shown to user callbacks *)
  Definition shown (d : doc) : R := ensure_clone d.

  Definition consistent (d : doc) : Prop := shown d = d_root d.

  Lemma exec_all_app r a b : exec_all r (a ++ b) = match exec_all r a with Some r' => exec_all r' b | None => None end.
  Proof. revert r. induction a as [|o a IH]; intros r; cbn [app exec_all]; [reflexivity|]. destruct (exec r o); auto. Qed.

  Lemma run_edits_agree es : forall c c' ops, run_edits c es = Some (c', ops) -> exec_all c ops = Some c'.
  Proof.
    induction es as [|e rest IH]; intros c c' ops H; cbn [run_edits] in H.
    - inversion H; subst. reflexivity.
    - destruct (run_edit c e) as [[c1 o1]|] eqn:E; [|discriminate].
      destruct (run_edits c1 rest) as [[c2 o2]|] eqn:E2; [|discriminate].
      inversion H; subst. rewrite exec_all_app, (proxy_agrees _ _ _ _ E). now apply IH.
  Qed.

  (* all-or-nothing: a failing update changes neither the document, nor the
     pending changes, nor the undo history, and what is shown afterwards is
     the document *)
  Theorem failed_update_is_noop d es :
    d_root (update d es Fails) = d_root d /\ d_local (update d es Fails) = d_local d /\
    d_undo (update d es Fails) = d_undo d /\ shown (update d es Fails) = d_root d.
  Proof. unfold update. destruct (run_edits (ensure_clone d) es) as [[c' ops]|]; cbn; auto. Qed.

  (* clone = root is an invariant of every sequence of updates, failing or not *)
  Theorem update_consistent d es o : consistent d -> consistent (update d es o).
  Proof.
    unfold consistent, shown, update. intros Hc.
    destruct (run_edits (ensure_clone d) es) as [[c' ops]|] eqn:E; [|reflexivity].
    destruct o; [|reflexivity].
    pose proof (run_edits_agree _ _ _ _ E) as Ha. rewrite Hc in Ha. rewrite Ha. reflexivity.
  Qed.

  Theorem updates_consistent (l : list (list Edit * outcome)) : forall d,
    consistent d -> consistent (fold_left (fun d eo => update d (fst eo) (snd eo)) l d).
  Proof. induction l as [|[es o] l IH]; intros d H; cbn [fold_left]; [exact H|]. apply IH. now apply update_consistent. Qed.
End Doc.
