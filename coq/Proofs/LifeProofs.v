(* LifeProofs.v — consequences of the lifecycle specification (property C11). *)
From YV Require Import Proto.Lifecycle.

Definition doc_status (s : lstate) (c d : N) : option (N * dstatus) :=
  match aget (l_clients s) c with
  | Some x => match find_doc (lc_docs x) d with Some dd => Some (ld_gen dd, ld_status dd) | None => None end
  | None => None
  end.

Definition client_active (s : lstate) (c : N) : bool :=
  match aget (l_clients s) c with Some x => lc_active x | None => false end.

(* edits are accepted only from an activated client on a document it has attached *)
Theorem pushpull_needs_attached s c d n :
  fst (lstep s (LPushPull c d n)) = true ->
  client_active s c = true /\ exists g, doc_status s c d = Some (g, DAttached).
Proof.
  unfold lstep, client_active, doc_status. destruct (aget (l_clients s) c) as [x|]; [|discriminate].
  destruct (find_doc (lc_docs x) d) as [dd|]; [|discriminate].
  destruct (lc_active x) eqn:Ea; [|discriminate]. cbn [andb].
  destruct (ld_status dd) eqn:Es; cbn; try discriminate. intros _. split; [reflexivity|]. eexists. reflexivity.
Qed.

(* a rejected call changes nothing at all: no status, no stored change *)
Theorem rejected_call_is_noop s call : fst (lstep s call) = false -> snd (lstep s call) = s.
Proof.
  destruct call as [c|c|c d n|c d n|c d n|c d n|c d n|c d n]; cbn [lstep]; try discriminate;
    destruct (aget (l_clients s) c) as [x|]; try reflexivity;
    try (destruct (find_doc (lc_docs x) d) as [dd|]; try reflexivity);
    repeat match goal with
           | |- context [if ?b then _ else _] => destruct b; cbn [fst snd]; try discriminate; try reflexivity
           end.
Qed.

Lemma find_set_doc l x d : find_doc (set_doc l x) d = if N.eqb (ld_key x) d then Some x else find_doc l d.
Proof.
  induction l as [|y r IH]; cbn [set_doc find_doc]; [reflexivity|].
  destruct (N.eqb_spec (ld_key y) (ld_key x)) as [E|E]; cbn [find_doc].
  - rewrite E. destruct (N.eqb (ld_key x) d); reflexivity.
  - destruct (N.eqb_spec (ld_key y) d) as [E2|E2].
    + subst d. destruct (N.eqb_spec (ld_key x) (ld_key y)); [congruence|reflexivity].
    + exact IH.
Qed.

Lemma aget_aset_same' {A} (l : list (actor * A)) a x : aget (aset l a x) a = Some x.
Proof.
  induction l as [|[k y] r IH]; cbn [aset aget]; [now rewrite N.eqb_refl|].
  destruct (N.eqb k a) eqn:E; cbn [aget]; [now rewrite N.eqb_refl|now rewrite E].
Qed.

(* after an accepted Detach the same client cannot write to that document until it
   attaches again; the same after Remove *)
Theorem detached_cannot_write s c d n m :
  fst (lstep s (LDetach c d n)) = true ->
  fst (lstep (snd (lstep s (LDetach c d n))) (LPushPull c d m)) = false.
Proof.
  cbn [lstep]. destruct (aget (l_clients s) c) as [x|] eqn:Ec; [|discriminate].
  destruct (find_doc (lc_docs x) d) as [dd|] eqn:Ed; [|discriminate].
  destruct (lc_active x && attached_like (ld_status dd)) eqn:E; [|discriminate]. intros _.
  cbn [snd l_clients]. rewrite aget_aset_same'. cbn [lc_docs lc_active].
  rewrite find_set_doc. cbn [ld_key]. rewrite N.eqb_refl. cbn [ld_status dstatus_eqb]. now rewrite andb_false_r.
Qed.

Theorem removed_cannot_write s c d n m :
  fst (lstep s (LRemove c d n)) = true ->
  fst (lstep (snd (lstep s (LRemove c d n))) (LPushPull c d m)) = false.
Proof.
  cbn [lstep]. destruct (aget (l_clients s) c) as [x|] eqn:Ec; [|discriminate].
  destruct (find_doc (lc_docs x) d) as [dd|] eqn:Ed; [|discriminate].
  destruct (lc_active x && attached_like (ld_status dd)) eqn:E; [|discriminate]. intros _.
  cbn [snd l_clients]. rewrite aget_aset_same'. cbn [lc_docs lc_active].
  rewrite find_set_doc. cbn [ld_key]. rewrite N.eqb_refl. cbn [ld_status dstatus_eqb]. now rewrite andb_false_r.
Qed.

(* after Deactivate the client holds no attachment and every call but Activate is refused *)
Theorem deactivated_client_is_out s c :
  fst (lstep s (LDeactivate c)) = true ->
  let s' := snd (lstep s (LDeactivate c)) in
  client_active s' c = false /\
  (forall d g st, doc_status s' c d = Some (g, st) -> attached_like st = false) /\
  (forall d n, fst (lstep s' (LPushPull c d n)) = false /\ fst (lstep s' (LDetach c d n)) = false /\
               fst (lstep s' (LRemove c d n)) = false /\ fst (lstep s' (LAttach c d n)) = false).
Proof.
  cbn [lstep]. destruct (aget (l_clients s) c) as [x|] eqn:Ec; [|discriminate].
  destruct (lc_active x) eqn:Ea; [|discriminate]. intros _. cbn zeta. cbn [snd].
  set (docs' := map (fun dd => if attached_like (ld_status dd) then mkLD (ld_key dd) (ld_gen dd) DDetached else dd) (lc_docs x)).
  set (s' := mkLS (aset (l_clients s) c (mkLC false docs')) (l_gens s) (l_removed s) (l_writes s)).
  assert (H : aget (l_clients s') c = Some (mkLC false docs')) by (unfold s'; cbn [l_clients]; apply aget_aset_same').
  split; [unfold client_active; now rewrite H|]. split.
  - intros d g st Hd. unfold doc_status in Hd. rewrite H in Hd. cbn [lc_docs] in Hd.
    assert (G : forall l, match find_doc (map (fun dd => if attached_like (ld_status dd) then mkLD (ld_key dd) (ld_gen dd) DDetached else dd) l) d with
                     | Some dd => attached_like (ld_status dd) = false | None => True end).
    { induction l as [|y r IH]; cbn [map find_doc]; [exact I|].
      destruct (attached_like (ld_status y)) eqn:Ey; cbn [ld_key].
      - destruct (N.eqb (ld_key y) d); [reflexivity|exact IH].
      - destruct (N.eqb (ld_key y) d); [exact Ey|exact IH]. }
    specialize (G (lc_docs x)). fold docs' in G.
    destruct (find_doc docs' d) as [dd|]; [|discriminate]. inversion Hd; subst. exact G.
  - intros d n. cbn [lstep]. rewrite H. cbn [lc_active lc_docs andb].
    repeat split; try reflexivity; destruct (find_doc docs' d); reflexivity.
Qed.

(* a removed document stays removed: no later call makes a (key, generation) un-removed *)
Theorem removed_is_forever calls : forall s d g,
  is_removed s d g = true -> is_removed (lrun s calls) d g = true.
Proof.
  unfold lrun. induction calls as [|call r IH]; intros s d g H; cbn [fold_left]; [exact H|].
  apply IH. clear IH.
  assert (G : forall s', l_removed s' = l_removed s \/ (exists x, l_removed s' = x :: l_removed s) -> is_removed s' d g = true).
  { intros s' [E|[x E]]; unfold is_removed in *; rewrite E; [exact H|]. cbn [existsb]. now rewrite H, orb_true_r. }
  apply G.
  destruct call as [c|c|c d' n|c d' n|c d' n|c d' n|c d' n|c d' n]; cbn [lstep];
    try (left; reflexivity);
    destruct (aget (l_clients s) c) as [x|]; try (left; reflexivity);
    try (destruct (find_doc (lc_docs x) d') as [dd|]; try (left; reflexivity));
    repeat match goal with
           | |- context [if ?b then _ else _] => destruct b; cbn [fst snd l_removed set_client]
           end;
    try (left; reflexivity); try (right; eexists; reflexivity).
Qed.

Example lifecycle_example :
  let calls := [LActivate 0; LAttach 0 0 0; LPushPull 0 0 1; LDetach 0 0 1; LPushPull 0 0 1; LAttach 0 0 0; LRemove 0 0 0; LAttach 0 0 0]%N in
  map (fun k => fst (lstep (lrun empty_lstate (firstn k calls)) (nth k calls (LActivate 9%N)))) (seq 0 8)
  = [true; true; true; true; false; true; true; true] /\
  cur_gen (lrun empty_lstate calls) 0%N = 1%N.
Proof. vm_compute. split; reflexivity. Qed.

(* ---- a removed document stores no further change ------------------------------------ *)
Lemma wget_wadd_zero l d g d' g' : wget (wadd l d' g' 0) d g = wget l d g.
Proof.
  induction l as [|[[a b] n] l IH]; cbn [wadd wget].
  - destruct (N.eqb d' d && N.eqb g' g); reflexivity.
  - destruct (N.eqb a d' && N.eqb b g') eqn:E; cbn [wget].
    + destruct (N.eqb a d && N.eqb b g); [f_equal; lia|reflexivity].
    + destruct (N.eqb a d && N.eqb b g); [reflexivity|exact IH].
Qed.

Lemma wget_wadd_other l d g d' g' k : (N.eqb d' d && N.eqb g' g) = false -> wget (wadd l d' g' k) d g = wget l d g.
Proof.
  intros H. induction l as [|[[a b] n] l IH]; cbn [wadd wget].
  - now rewrite H.
  - destruct (N.eqb a d' && N.eqb b g') eqn:E; cbn [wget].
    + destruct (N.eqb a d && N.eqb b g) eqn:F; [|reflexivity].
      exfalso. apply andb_prop in E. apply andb_prop in F. destruct E as [E1 E2], F as [F1 F2].
      apply N.eqb_eq in E1, E2, F1, F2. subst. rewrite !N.eqb_refl in H. discriminate.
    + destruct (N.eqb a d && N.eqb b g); [reflexivity|exact IH].
Qed.

(* whatever a sync, a detach or a second removal carries: the number of changes stored for a
   removed document (key d, generation g) stays what it was.  (An attach of the key creates the
   next generation: a different document.) *)
Theorem removed_stores_no_further_change s call d g :
  is_removed s d g = true ->
  match call with LAttach _ _ _ | LAttachSame _ _ _ | LAttachFail _ _ _ => False | _ => True end ->
  wget (l_writes (snd (lstep s call))) d g = wget (l_writes s) d g.
Proof.
  intros H Hc.
  assert (W : forall d' g' n, wget (wadd (l_writes s) d' g' (stored s d' g' n)) d g = wget (l_writes s) d g).
  { intros d' g' n. destruct (N.eqb d' d && N.eqb g' g) eqn:E.
    - apply andb_prop in E. destruct E as [E1 E2]. apply N.eqb_eq in E1, E2. subst.
      unfold stored. rewrite H. apply wget_wadd_zero.
    - now apply wget_wadd_other. }
  destruct call as [c|c|c d' n|c d' n|c d' n|c d' n|c d' n|c d' n]; try contradiction; cbn [lstep];
    try reflexivity;
    destruct (aget (l_clients s) c) as [x|]; try reflexivity;
    try (destruct (find_doc (lc_docs x) d') as [dd|]; try reflexivity);
    repeat match goal with
           | |- context [if ?b then _ else _] => destruct b; cbn [fst snd l_writes set_client]
           end;
    try reflexivity; apply W.
Qed.

Example removed_stores_nothing_example :
  let s := lrun empty_lstate [LActivate 0; LActivate 1; LAttach 0 0 1; LAttach 1 0 1; LRemove 0 0 1]%N in
  is_removed s 0%N 0%N = true /\ wget (l_writes s) 0%N 0%N = 3 /\
  fst (lstep s (LPushPull 1%N 0%N 2)) = true /\
  wget (l_writes (snd (lstep s (LPushPull 1%N 0%N 2)))) 0%N 0%N = 3.
Proof. vm_compute. repeat split; reflexivity. Qed.
