(* SnapshotPull.v — properties C05/C02: a sync answered with a snapshot.  The snapshot document is
   the stored log up to the server sequence before the push plus the changes this request stored;
   for an honest client - first attempt or any retry, with or without further edits - that is the
   stored log exactly: every change once, in log order.  Before fix 56275d99 (finding P45) a resent
   pack had its changes applied a second time. *)
From YV Require Import Base.Ticket Base.VV Proto.Server Proto.System Proofs.ProtoProofs.

Lemma firstn_exact {A} (l1 l2 : list A) : firstn (length l1) (l1 ++ l2) = l1.
Proof. rewrite firstn_app, Nat.sub_diag, firstn_all. cbn [firstn]. apply app_nil_r. Qed.

Theorem snapshot_is_the_log s a k ci m v :
  srv_ok s a k ci -> s_nopres s = false -> log_dense s ->
  forall s2 r, push_pull s (mk_request a k m v) = (s2, r, ENone) ->
  snapshot_changes s s2 (mk_request a k m v) = map st_ch (s_log s2).
Proof.
  intros Hok Hnp [_ Hhead] s2 r Hpp.
  destruct (push_pull_honest s a k ci m v Hok Hnp) as (s2' & r' & Hpp' & Hlog & Hh & Hnew & _).
  rewrite Hpp in Hpp'. inversion Hpp'; subst s2' r'. clear Hpp'.
  destruct Hok as [Hget _ _ _ _ Hcs Hpend _].
  set (d := Z.to_nat (cd_cseq (ci_doc ci) - k_cp_c k)) in *.
  assert (Hd : (d <= length (k_pending k))%nat) by (unfold d; lia).
  destruct (consecutive_split (k_pending k) (k_cp_c k) d Hpend Hd) as (_ & _ & Hfilter).
  assert (Hbase : k_cp_c k + Z.of_nat d = cd_cseq (ci_doc ci)) by (unfold d; lia).
  rewrite Hbase in Hfilter.
  unfold snapshot_changes, pushed_by, req_changes, mk_request.
  cbn [q_client q_changes]. rewrite Hget, Hnp, Hfilter, Hlog, Hh, skipn_length.
  replace (Z.to_nat (s_head s + Z.of_nat (length (k_pending k) - d) - Z.of_nat (length (k_pending k) - d)))
    with (length (s_log s)) by lia.
  rewrite firstn_exact.
  replace (length (k_pending k) - (length (k_pending k) - d))%nat with d by lia.
  rewrite map_app, Hnew. reflexivity.
Qed.

Lemma cseqs_of_map b l :
  map h_cseq (filter (fun c => N.eqb (h_actor c) b) (map st_ch l)) = cseqs_of b l.
Proof.
  unfold cseqs_of, rows_of. induction l as [|st l IH]; cbn [map filter]; [reflexivity|].
  destruct (N.eqb (h_actor (st_ch st)) b); cbn [map]; now rewrite IH.
Qed.

(* in every reachable state (lost responses, retries, further edits before the retry): the
   snapshot is made of the stored log, and holds each client's changes once *)
Theorem c05_snapshot_once th actors es a k m v b kb :
  let y := srun (init_sys th actors) es in
  aget (y_clis y) a = Some k -> aget (y_clis y) b = Some kb ->
  forall s2 r, push_pull (y_srv y) (mk_request a k m v) = (s2, r, ENone) ->
  snapshot_changes (y_srv y) s2 (mk_request a k m v) = map st_ch (s_log s2) /\
  NoDup (map h_cseq (filter (fun c => N.eqb (h_actor c) b) (snapshot_changes (y_srv y) s2 (mk_request a k m v)))).
Proof.
  intros y Ha Hb s2 r Hpp.
  pose proof (reachable_inv th actors es) as [Hd Hnp Hcl]. fold y in Hd, Hnp, Hcl.
  destruct (Hcl a k Ha) as [[ci [Hok _]] _ _].
  pose proof (snapshot_is_the_log _ a k ci m v Hok Hnp Hd s2 r Hpp) as E.
  split; [exact E|]. rewrite E, cseqs_of_map.
  pose proof (c05_no_duplicate_rows th actors (es ++ [SSync a m v true]) b kb) as N.
  cbn zeta in N. unfold srun in N. rewrite fold_left_app in N. cbn [fold_left] in N.
  change (fold_left sstep es (init_sys th actors)) with y in N.
  unfold sstep in N. rewrite Ha, Hpp in N. cbn [y_clis y_srv] in N. exact (N Hb).
Qed.

(* finding P45 (before fix 56275d99): client 1's response is lost, client 2 pushes, client 1 sends
   the pack again and - the project's threshold being 1 - is answered with a snapshot: its change
   (clientSeq 1) is in the snapshot twice *)
Definition p45_es : list sev :=
  [SLocal 1%N 1 [(1%N, 1)] 1 0%N; SSync 1%N MPushPull [(1%N, 1)] true;
   SLocal 2%N 1 [(2%N, 1)] 1 0%N; SSync 2%N MPushPull [(2%N, 1)] false].
Definition p45_y : sys := srun (init_sys 1 [1%N; 2%N]) p45_es.
Definition p45_k : cli := match aget (y_clis p45_y) 1%N with Some k => k | None => mkCli 0 0 [] [] false end.
Definition p45_req : req := mk_request 1%N p45_k MPushPull [(1%N, 1)].
Definition p45_s2 : srv := fst (fst (push_pull (y_srv p45_y) p45_req)).

Theorem resend_into_snapshot_duplicates :
  p_snapshot (snd (fst (push_pull (y_srv p45_y) p45_req))) = true /\
  snd (push_pull (y_srv p45_y) p45_req) = ENone /\
  map (fun c => (h_actor c, h_cseq c)) (snapshot_changes_resend (y_srv p45_y) p45_s2 p45_req)
    = [(1%N, 1); (2%N, 1); (1%N, 1)] /\
  map (fun c => (h_actor c, h_cseq c)) (snapshot_changes (y_srv p45_y) p45_s2 p45_req)
    = [(1%N, 1); (2%N, 1)].
Proof. repeat split; vm_compute; reflexivity. Qed.

(* non-vacuity of c05_snapshot_once: the same run meets its premises, and the answer is a snapshot *)
Example snapshot_premises_hold :
  aget (y_clis p45_y) 1%N = Some p45_k /\ (exists kb, aget (y_clis p45_y) 2%N = Some kb) /\
  length (k_pending p45_k) = 1%nat.
Proof. vm_compute. repeat split; eauto. Qed.
