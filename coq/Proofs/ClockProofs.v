(* ClockProofs.v — causality facts about Clock/ChangeID.v (property C06). *)
From YV Require Import Base.VV Clock.ChangeID Proofs.VVProofs.

(* every entry of the id's vector is bounded by its lamport *)
Definition id_wf (i : cid) : Prop := forall k y, In (k, y) (cvv i) -> y <= lamp i.

Definition vv_le (v w : vv) : Prop :=
  forall k x, vget v k = Some x -> exists y, vget w k = Some y /\ x <= y.

Definition dom (d i : cid) : Prop := lamp d <= lamp i /\ vv_le (cvv d) (cvv i).

(* trace of one replica: (true, c) = change c was made here, (false, o) =
   remote change o was applied here. *)
Fixpoint clock_trace (optout : bool) (i : cid) (es : list cev) : list (bool * cid) :=
  match es with
  | [] => []
  | e :: r =>
      let here := match e with
                  | EvLocal h => [(true, ctx_change_id i h)]
                  | EvRemote o => [(false, o)]
                  | _ => []
                  end in
      here ++ clock_trace optout (fst (clock_step optout i e)) r
  end.

Definition remotes_wf (es : list cev) : Prop :=
  forall o, In (EvRemote o) es -> id_wf o.

Lemma vv_le_refl v : vv_le v v.
Proof. intros k x H. exists x. split; [assumption|lia]. Qed.

Lemma vv_le_trans u v w : vv_le u v -> vv_le v w -> vv_le u w.
Proof.
  intros H1 H2 k x Hx. destruct (H1 _ _ Hx) as (y & Hy & L1).
  destruct (H2 _ _ Hy) as (z & Hz & L2). exists z. split; [assumption|lia].
Qed.

Lemma vv_le_vmax_l v w : vv_le v (vmax v w).
Proof. intros k x H. now apply vmax_ge_left. Qed.

Lemma vv_le_vmax_r v w : vv_le w (vmax v w).
Proof. intros k x H. apply vmax_ge_right. now apply vget_in. Qed.

Lemma vv_le_vset v a x :
  (forall y, vget v a = Some y -> y <= x) -> vv_le v (vset v a x).
Proof.
  intros Hx k z Hz. rewrite vget_vset. destruct (N.eqb_spec a k) as [->|].
  - exists x. split; [reflexivity|]. now apply Hx.
  - exists z. split; [assumption|lia].
Qed.

Lemma in_vset v a x k y : In (k, y) (vset v a x) -> (k, y) = (a, x) \/ In (k, y) v.
Proof.
  induction v as [|[k0 y0] r IH]; cbn [vset].
  - intros [E|[]]. left. now symmetry.
  - destruct (N.eqb k0 a).
    + intros [E|H]; [left; now symmetry|right; now right].
    + destruct (N.ltb a k0).
      * intros [E|H]; [left; now symmetry|right; exact H].
      * intros [E|H]; [right; now left|].
        destruct (IH H) as [E|H']; [now left|right; now right].
Qed.

Lemma vmax_bounded1 w b : forall v,
  (forall k y, In (k, y) v -> y <= b) ->
  (forall k y, In (k, y) w -> y <= b) ->
  forall k y, In (k, y) (vmax v w) -> y <= b.
Proof.
  induction w as [|[k0 z] w IH]; intros v Hv Hw k y H; rewrite vmax_unfold in H; cbn [fold_left] in H.
  - exact (Hv _ _ H).
  - rewrite <- vmax_unfold in H. revert H. apply IH.
    + intros k1 y1 H1. unfold vmax_step in H1. cbn [fst snd] in H1.
      pose proof (Hw k0 z (or_introl eq_refl)) as Hz.
      destruct (vget v k0) as [y0|] eqn:E; apply in_vset in H1; destruct H1 as [E1|H1].
      * inversion E1; subst. apply vget_in in E. apply Hv in E. lia.
      * now apply Hv in H1.
      * inversion E1; subst. lia.
      * now apply Hv in H1.
    + intros k1 y1 Hin. apply (Hw k1 y1). now right.
Qed.

Lemma vmax_bounded v w bv bw :
  (forall k y, In (k, y) v -> y <= bv) ->
  (forall k y, In (k, y) w -> y <= bw) ->
  forall k y, In (k, y) (vmax v w) -> y <= Z.max bv bw.
Proof.
  intros Hv Hw. apply vmax_bounded1.
  - intros k y H. apply Hv in H. lia.
  - intros k y H. apply Hw in H. lia.
Qed.

Lemma fold_max_ge (l : list (actor * Z)) : forall m,
  m <= fold_left (fun m kx => Z.max m (snd kx)) l m.
Proof.
  induction l as [|[k0 z] l IH]; cbn [fold_left]; intros m; [lia|].
  specialize (IH (Z.max m (snd (k0, z)))). cbn [snd] in *. lia.
Qed.

Lemma vmaxlamport_ge v : forall k y, In (k, y) v -> y <= vmaxlamport v.
Proof.
  unfold vmaxlamport. generalize (-1).
  induction v as [|[k0 z] l IH]; cbn [fold_left]; intros m k y H; [contradiction|].
  destruct H as [E|Hin].
  - inversion E; subst. pose proof (fold_max_ge l (Z.max m (snd (k, y)))). cbn [snd] in *. lia.
  - eapply IH. exact Hin.
Qed.

(* ---- one step ----------------------------------------------------------- *)

Lemma wf_vset_bump v a l (bound : Z) :
  (forall k y, In (k, y) v -> y <= bound) -> bound <= l ->
  forall k y, In (k, y) (vset v a l) -> y <= l.
Proof.
  intros Hv Hb k y H. apply in_vset in H. destruct H as [E|H].
  - inversion E; lia.
  - apply Hv in H. lia.
Qed.

Lemma step_wf optout i e :
  id_wf i -> (forall o, e = EvRemote o -> id_wf o) ->
  id_wf (fst (clock_step optout i e)).
Proof.
  intros Hi Ho. destruct e as [h|o|v|a]; cbn [clock_step fst].
  - destruct h; cbn [ctx_next_id id_next]; unfold id_wf; cbn [cvv lamp].
    + apply (wf_vset_bump _ _ _ (lamp i)); [exact Hi|lia].
    + exact Hi.
  - specialize (Ho o eq_refl).
    destruct optout; unfold sync_lamport, sync_clocks; destruct (has_clocks o); try exact Hi;
      unfold id_wf; cbn [cvv lamp].
    + apply (wf_vset_bump _ _ _ (lamp i)); [exact Hi|lia].
    + apply (wf_vset_bump _ _ _ (Z.max (lamp i) (lamp o))); [|lia].
      apply vmax_bounded; assumption.
  - unfold set_clocks, id_wf; cbn [cvv lamp].
    apply (wf_vset_bump _ _ _ (Z.max (lamp i) (vmaxlamport v))); [|lia].
    apply vmax_bounded; [exact Hi|apply vmaxlamport_ge].
  - exact Hi.
Qed.

Lemma wf_first i a y : id_wf i -> vget (cvv i) a = Some y -> y <= lamp i.
Proof. intros H E. apply vget_in in E. now apply H in E. Qed.

(* [domx optout d i]: the id [i] is causally at or after [d]; for an opt-out
   replica (WithDisableGC) only the lamport part is maintained. *)
Definition domx (optout : bool) (d i : cid) : Prop :=
  lamp d <= lamp i /\ (optout = false -> vv_le (cvv d) (cvv i)).

Lemma domx_trans optout a b c : domx optout a b -> domx optout b c -> domx optout a c.
Proof.
  intros [L1 V1] [L2 V2]. split; [lia|]. intros E. eapply vv_le_trans; eauto.
Qed.

Lemma domx_refl optout a : domx optout a a.
Proof. split; [lia|]. intros _. apply vv_le_refl. Qed.

(* bump of the own entry keeps everything below *)
Lemma vv_le_bump v a l bound :
  (forall k y, In (k, y) v -> y <= bound) -> bound <= l -> vv_le v (vset v a l).
Proof.
  intros Hv Hb. apply vv_le_vset. intros y E. apply vget_in in E. apply Hv in E. lia.
Qed.

Lemma step_dom_self optout i e :
  id_wf i -> (forall o, e = EvRemote o -> id_wf o) ->
  domx optout i (fst (clock_step optout i e)).
Proof.
  intros Hi Ho. destruct e as [h|o|v|a]; cbn [clock_step fst]; unfold domx.
  - destruct h; cbn [ctx_next_id id_next lamp cvv].
    + split; [lia|]. intros _. apply (vv_le_bump _ _ _ (lamp i)); [exact Hi|lia].
    + split; [lia|]. intros _. apply vv_le_refl.
  - specialize (Ho o eq_refl).
    destruct optout; unfold sync_lamport, sync_clocks; destruct (has_clocks o);
      cbn [lamp cvv]; try (split; [lia|intros _; apply vv_le_refl]).
    + split; [lia|discriminate].
    + split; [lia|]. intros _. eapply vv_le_trans; [apply (vv_le_vmax_l _ (cvv o))|].
      apply (vv_le_bump _ _ _ (Z.max (lamp i) (lamp o))); [|lia].
      apply vmax_bounded; assumption.
  - unfold set_clocks; cbn [lamp cvv]. split; [lia|]. intros _.
    eapply vv_le_trans; [apply (vv_le_vmax_l _ v)|].
    apply (vv_le_bump _ _ _ (Z.max (lamp i) (vmaxlamport v))); [|lia].
    apply vmax_bounded; [exact Hi|apply vmaxlamport_ge].
  - split; [cbn; lia|]. intros _. apply vv_le_refl.
Qed.

Lemma step_dom_remote optout i o :
  id_wf i -> id_wf o -> has_clocks o = true ->
  domx optout o (fst (clock_step optout i (EvRemote o))) /\
  lamp o < lamp (fst (clock_step optout i (EvRemote o))).
Proof.
  intros Hi Ho Hc. cbn [clock_step fst].
  destruct optout; unfold sync_lamport, sync_clocks; rewrite Hc; cbn [lamp cvv]; unfold domx; cbn [lamp cvv].
  - split; [split; [lia|discriminate]|lia].
  - split; [|lia]. split; [lia|]. intros _.
    eapply vv_le_trans; [apply (vv_le_vmax_r (cvv i))|].
    apply (vv_le_bump _ _ _ (Z.max (lamp i) (lamp o))); [|lia].
    apply vmax_bounded; assumption.
Qed.

Lemma noclock_has_no_clocks i : has_clocks (ctx_change_id i false) = false.
Proof. reflexivity. Qed.

(* ---- the trace theorem -------------------------------------------------- *)

Definition clocked_in (t : list (bool * cid)) (d : cid) : Prop :=
  exists b, In (b, d) t /\ has_clocks d = true.

Lemma causal_gen optout : forall es i (D : list cid),
  id_wf i -> remotes_wf es -> (forall d, In d D -> domx optout d i) ->
  forall t1 c t2, clock_trace optout i es = t1 ++ (true, c) :: t2 -> has_clocks c = true ->
  forall d, In d D \/ clocked_in t1 d ->
    lamp d < lamp c /\ (optout = false -> vv_le (cvv d) (cvv c)) /\
    vget (cvv c) (actr c) = Some (lamp c).
Proof.
  induction es as [|e r IH]; intros i D Hi Hr HD t1 c t2 Ht Hc d Hd.
  - destruct t1; discriminate.
  - assert (Hr' : remotes_wf r) by (intros o Ho; apply Hr; now right).
    assert (Hwf' : id_wf (fst (clock_step optout i e))).
    { apply step_wf; [assumption|]. intros o ->. apply Hr. now left. }
    assert (Hself : domx optout i (fst (clock_step optout i e))).
    { apply step_dom_self; [assumption|]. intros o ->. apply Hr. now left. }
    assert (HD' : forall d, In d D -> domx optout d (fst (clock_step optout i e))).
    { intros d0 H0. eapply domx_trans; [apply HD; exact H0|exact Hself]. }
    cbn [clock_trace] in Ht.
    destruct e as [h|o|v|a].
    + (* local change *)
      cbn [app] in Ht. destruct t1 as [|x t1'].
      * (* it is the change we are asked about *)
        cbn [app] in Ht. inversion Ht; subst c t2. clear Ht.
        destruct h; [|rewrite noclock_has_no_clocks in Hc; discriminate].
        destruct Hd as [Hd|(b & [] & _)].
        destruct (HD _ Hd) as [L V]. cbn [ctx_change_id id_next lamp cvv actr].
        split; [lia|]. split.
        -- intros E. eapply vv_le_trans; [apply V; exact E|].
           apply (vv_le_bump _ _ _ (lamp i)); [exact Hi|lia].
        -- apply vget_vset_same.
      * cbn [app] in Ht. inversion Ht as [[Hx Hrest]]. subst x.
        destruct h.
        -- (* the made change joins the dominated set *)
           apply (IH _ (ctx_change_id i true :: D) Hwf' Hr') with (t1 := t1') (t2 := t2); try assumption.
           ++ intros d0 [<-|H0]; [|now apply HD'].
              cbn [clock_step fst ctx_next_id ctx_change_id]. apply domx_refl.
           ++ destruct Hd as [Hd|(b & [E|Hin] & Hcl)].
              ** left. now right.
              ** inversion E; subst. left. now left.
              ** right. exists b. split; assumption.
        -- apply (IH _ D Hwf' Hr') with (t1 := t1') (t2 := t2); try assumption.
           destruct Hd as [Hd|(b & [E|Hin] & Hcl)].
           ** now left.
           ** inversion E; subst. cbn in Hcl. discriminate.
           ** right. exists b. split; assumption.
    + (* remote change *)
      cbn [app] in Ht. destruct t1 as [|x t1']; [cbn [app] in Ht; inversion Ht|].
      cbn [app] in Ht. inversion Ht as [[Hx Hrest]]. subst x.
      assert (Ho : id_wf o) by (apply Hr; now left).
      destruct (has_clocks o) eqn:Hco.
      * apply (IH _ (o :: D) Hwf' Hr') with (t1 := t1') (t2 := t2); try assumption.
        -- intros d0 [<-|H0]; [|now apply HD'].
           apply step_dom_remote; assumption.
        -- destruct Hd as [Hd|(b & [E|Hin] & Hcl)].
           ** left. now right.
           ** inversion E; subst. left. now left.
           ** right. exists b. split; assumption.
      * apply (IH _ D Hwf' Hr') with (t1 := t1') (t2 := t2); try assumption.
        destruct Hd as [Hd|(b & [E|Hin] & Hcl)].
        ** now left.
        ** inversion E; subst. congruence.
        ** right. exists b. split; assumption.
    + cbn [app] in Ht. apply (IH _ D Hwf' Hr') with (t1 := t1) (t2 := t2); assumption.
    + cbn [app] in Ht. apply (IH _ D Hwf' Hr') with (t1 := t1) (t2 := t2); assumption.
Qed.

(* C06, causal clause, opt-in authors: every clocked change made at a replica
   is strictly after (lamport) and pointwise at least (vector) every clocked
   change made or applied there before it. *)
Theorem clock_causal es i :
  id_wf i -> remotes_wf es ->
  forall t1 c t2, clock_trace false i es = t1 ++ (true, c) :: t2 -> has_clocks c = true ->
  forall d, clocked_in t1 d -> lamp d < lamp c /\ vv_le (cvv d) (cvv c).
Proof.
  intros Hi Hr t1 c t2 Ht Hc d Hd.
  destruct (causal_gen false es i [] Hi Hr (fun _ (F : In _ []) => match F with end)
              t1 c t2 Ht Hc d (or_intror Hd)) as (L & V & _).
  split; [exact L|now apply V].
Qed.

(* opt-out authors (WithDisableGC): lamport strictness only. *)
Theorem clock_causal_optout es i :
  id_wf i -> remotes_wf es ->
  forall t1 c t2, clock_trace true i es = t1 ++ (true, c) :: t2 -> has_clocks c = true ->
  forall d, clocked_in t1 d -> lamp d < lamp c.
Proof.
  intros Hi Hr t1 c t2 Ht Hc d Hd.
  destruct (causal_gen true es i [] Hi Hr (fun _ (F : In _ []) => match F with end)
              t1 c t2 Ht Hc d (or_intror Hd)) as (L & _). exact L.
Qed.

(* own entry: every clocked change names its author at exactly its lamport *)
Theorem clock_own_entry optout es i :
  forall c, In (true, c) (clock_trace optout i es) -> has_clocks c = true ->
  vget (cvv c) (actr c) = Some (lamp c).
Proof.
  revert i. induction es as [|e r IH]; intros i c Hin Hc; [contradiction|].
  cbn [clock_trace] in Hin. apply in_app_or in Hin. destruct Hin as [Hin|Hin]; [|eapply IH; eassumption].
  destruct e as [h|o|v|a]; try contradiction.
  - destruct Hin as [E|[]]. inversion E; subst. destruct h.
    + cbn [ctx_change_id id_next cvv actr lamp]. apply vget_vset_same.
    + rewrite noclock_has_no_clocks in Hc. discriminate.
  - destruct Hin as [E|[]]. discriminate.
Qed.

(* timestamps of one author only grow, and clocked changes of one replica
   carry pairwise distinct lamports (hence distinct (lamport, actor)) *)
Theorem clock_actor_monotone optout es i :
  id_wf i -> remotes_wf es ->
  forall t1 c t2 d, clock_trace optout i es = t1 ++ (true, c) :: t2 -> has_clocks c = true ->
  In (true, d) t1 -> has_clocks d = true -> lamp d < lamp c.
Proof.
  intros Hi Hr t1 c t2 d Ht Hc Hd Hcd.
  destruct (causal_gen optout es i [] Hi Hr (fun _ (F : In _ []) => match F with end)
              t1 c t2 Ht Hc d (or_intror (ex_intro _ true (conj Hd Hcd)))) as (L & _). exact L.
Qed.

(* the replica's own clock never goes back *)
Theorem clock_state_monotone optout es i :
  id_wf i -> remotes_wf es -> lamp i <= lamp (fst (clock_run optout i es)).
Proof.
  revert i. induction es as [|e r IH]; intros i Hi Hr; cbn [clock_run]; [cbn; lia|].
  assert (Hr' : remotes_wf r) by (intros o Ho; apply Hr; now right).
  assert (Hwf' : id_wf (fst (clock_step optout i e))).
  { apply step_wf; [assumption|]. intros o ->. apply Hr. now left. }
  assert (Hself : domx optout i (fst (clock_step optout i e))).
  { apply step_dom_self; [assumption|]. intros o ->. apply Hr. now left. }
  specialize (IH _ Hwf' Hr').
  destruct (clock_step optout i e) as [i' out] eqn:E. cbn [fst] in *.
  destruct (clock_run optout i' r) as [j outs]. cbn [fst] in *.
  destruct Hself as [L _]. lia.
Qed.

(* non-vacuity: a concrete replica life meeting the hypotheses *)
Example clock_example :
  let o := mkID 3 0 7 2%N [(2%N, 7)] in
  let es := [EvLocal true; EvRemote o; EvLocal false; EvLocal true] in
  id_wf (set_actor initial_id 1%N) /\ remotes_wf es /\
  map (fun bc => (fst bc, lamp (snd bc), cvv (snd bc))) (clock_trace false (set_actor initial_id 1%N) es)
  = [(true, 1, [(1%N, 1)]); (false, 7, [(2%N, 7)]); (true, 0, []); (true, 9, [(1%N, 9); (2%N, 7)])].
Proof.
  split; [intros k y []|]. split.
  - intros o' [E|[E|[E|[E|[]]]]]; try discriminate. inversion E; subst.
    intros k y [E'|[]]. inversion E'; subst. cbn; lia.
  - reflexivity.
Qed.
