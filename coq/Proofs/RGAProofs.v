(* RGAProofs.v — facts about Crdt/RGAList.v.  The central one: on lists whose
   elements have not been moved, two concurrent inserts commute (property C01,
   array clause), obtained from the generic skip-rule theorem. *)
From YV Require Import Crdt.RGAList Proofs.TicketProofs Proofs.RGACommuteGen.

Lemma tafter_asym a b : tafter a b = true -> tafter b a = false.
Proof. intros H. apply tafter_false. apply tafter_spec in H. now apply tgt_asym. Qed.

Lemma tafter_trans a b c : tafter a b = true -> tafter b c = true -> tafter a c = true.
Proof. rewrite !tafter_spec. apply tgt_trans. Qed.

Lemma tafter_total a b : a <> b -> tafter a b = true \/ tafter b a = true.
Proof. rewrite !tafter_spec. apply tgt_total. Qed.

Lemma tafter_irrefl a : tafter a a = false.
Proof. apply tafter_false. apply tgt_irrefl. Qed.

Definition g_place := place ticket tafter.
Definition g_insert := RGACommuteGen.insert_after ticket tafter teqb.

(* the list of position identities, dummy head included *)
Definition pos_list (g : rga) : list ticket := initial_ticket :: map sl_pos (slots g).

(* no element has been moved: every slot holds the element it was created for *)
Definition plain (g : rga) : Prop :=
  forall s, In s (slots g) ->
    sl_elem s = Some (sl_pos s) /\
    exists e, find_entry (entries g) (sl_pos s) = Some e /\ en_moved e = None /\ en_id e = sl_pos s.

Lemma plain_positioned g s : plain g -> In s (slots g) -> positioned_at g s = sl_pos s.
Proof.
  intros Hp Hin. destruct (Hp s Hin) as (He & e & Hf & Hm & Hid).
  unfold positioned_at. now rewrite He, Hf, Hm, Hid.
Qed.

Lemma skip_place g rest t snew :
  (forall s, In s rest -> positioned_at g s = sl_pos s) -> sl_pos snew = t ->
  map sl_pos (insert_at rest (skip_count g rest t) snew) = g_place t (map sl_pos rest).
Proof.
  intros Hpos Hn. induction rest as [|s r IH]; cbn [skip_count insert_at map g_place place].
  - now rewrite Hn.
  - rewrite (Hpos s (or_introl eq_refl)).
    destruct (tafter (sl_pos s) t) eqn:G; cbn [insert_at map].
    + f_equal. apply IH. intros s' Hs'. apply Hpos. now right.
    + now rewrite Hn.
Qed.

Lemma insert_at_app {A} (pre : list A) rest k (x : A) :
  insert_at (pre ++ rest) (length pre + k) x = pre ++ insert_at rest k x.
Proof. induction pre as [|y p IH]; cbn [app length Nat.add insert_at]; [reflexivity|now rewrite IH]. Qed.

Lemma slot_index_split l p i n :
  slot_index l p i = Some n ->
  exists pre s rest, l = pre ++ s :: rest /\ sl_pos s = p /\ n = (i + length pre)%nat /\
                     (forall s', In s' pre -> sl_pos s' <> p).
Proof.
  revert i. induction l as [|s r IH]; intros i H; cbn [slot_index] in H; [discriminate|].
  destruct (teqb (sl_pos s) p) eqn:E.
  - inversion H; subst. exists [], s, r. apply teqb_spec in E. cbn.
    split; [reflexivity|]. split; [exact E|]. split; [lia|]. intros s' [].
  - destruct (IH _ H) as (pre & s0 & rest & -> & Hp & Hn & Hpre).
    exists (s :: pre), s0, rest. cbn [app length].
    split; [reflexivity|]. split; [exact Hp|]. split; [lia|].
    intros s' [<-|Hin]; [intros F; apply teqb_spec in F; congruence|now apply Hpre].
Qed.

Lemma g_insert_skip pre x rest a t :
  (forall y, In y pre -> y <> a) -> x = a ->
  g_insert a t (pre ++ x :: rest) = Some (pre ++ x :: g_place t rest).
Proof.
  intros Hpre ->. unfold g_insert, g_place. induction pre as [|y p IH]; cbn [app RGACommuteGen.insert_after].
  - now rewrite teqb_refl.
  - assert (teqb y a = false) as ->.
    { destruct (teqb y a) eqn:E; [apply teqb_spec in E; exfalso; apply (Hpre y); [now left|exact E]|reflexivity]. }
    rewrite IH; [reflexivity|]. intros z Hz. apply Hpre. now right.
Qed.

(* the model's insertion is the generic skip-rule insertion on position ids
   (for an anchor that is a position identity, which is what the JSON layer
   passes: PosCreatedAt / LastCreatedAt / FindPrevCreatedAt) *)
Lemma insert_after_pos g prev id val i :
  plain g -> find_pos g prev = Some i ->
  exists g', RGAList.insert_after g prev id val id = Some g' /\
             g_insert prev id (pos_list g) = Some (pos_list g') /\
             entries g' = set_entry (entries g) (mkEnt id val None None id).
Proof.
  intros Hp Hf. unfold RGAList.insert_after, anchor_index. rewrite Hf.
  eexists. split; [reflexivity|]. split; [|reflexivity].
  unfold pos_list. cbn [slots]. unfold find_pos in Hf.
  destruct (teqb prev initial_ticket) eqn:Ei.
  - apply teqb_spec in Ei. subst prev. inversion Hf; subst i. unfold g_insert. cbn [RGACommuteGen.insert_after].
    rewrite teqb_refl. unfold landing. cbn [skipn Nat.add]. do 2 f_equal.
    symmetry. apply skip_place; [intros s Hs; now apply plain_positioned|reflexivity].
  - destruct (slot_index_split _ _ _ _ Hf) as (pre & s & rest & Hl & Hs & Hn & Hpre).
    unfold g_insert at 1. cbn [RGACommuteGen.insert_after].
    rewrite (teqb_sym initial_ticket prev), Ei.
    rewrite Hl, map_app. cbn [map].
    change (RGACommuteGen.insert_after ticket tafter teqb prev id (map sl_pos pre ++ sl_pos s :: map sl_pos rest)) with (g_insert prev id (map sl_pos pre ++ sl_pos s :: map sl_pos rest)).
    rewrite g_insert_skip; [|intros y Hy; apply in_map_iff in Hy; destruct Hy as (s' & <- & Hs'); now apply Hpre|exact Hs].
    cbn [option_map]. do 2 f_equal.
    unfold landing. subst i. rewrite ?Hl.
    replace (1 + length pre)%nat with (length (pre ++ [s])) by (rewrite app_length; cbn; lia).
    replace (pre ++ s :: rest) with ((pre ++ [s]) ++ rest) by (now rewrite <- app_assoc).
    rewrite skipn_app, skipn_all, Nat.sub_diag. cbn [skipn app].
    rewrite insert_at_app, map_app, map_app. cbn [map]. rewrite <- app_assoc. cbn [app]. do 2 f_equal.
    symmetry. apply skip_place; [|reflexivity].
    intros s' Hs'. apply plain_positioned; [exact Hp|]. rewrite Hl. apply in_or_app. right. now right.
Qed.

(* ---- consequences for the model ------------------------------------------------- *)

Definition plain_slots (g : rga) : Prop :=
  plain g /\ forall s, In s (slots g) -> sl_removed s = None.

Lemma find_entry_set l e id :
  find_entry (set_entry l e) id = if teqb (en_id e) id then Some e else find_entry l id.
Proof.
  induction l as [|x r IH]; cbn [set_entry find_entry].
  - reflexivity.
  - destruct (teqb (en_id x) (en_id e)) eqn:E; cbn [find_entry].
    + apply teqb_spec in E. rewrite E. destruct (teqb (en_id e) id); reflexivity.
    + destruct (teqb (en_id x) id) eqn:E2.
      * apply teqb_spec in E2. subst id. rewrite (teqb_sym (en_id e) (en_id x)), E. reflexivity.
      * exact IH.
Qed.

Lemma in_insert_at {A} (l : list A) k x y : In y (insert_at l k x) -> y = x \/ In y l.
Proof.
  revert k. induction l as [|z r IH]; intros k H; destruct k; cbn [insert_at] in H.
  - destruct H as [<-|[]]. now left.
  - destruct H as [<-|[]]. now left.
  - destruct H as [<-|H]; [now left|now right].
  - destruct H as [<-|H]; [right; now left|]. destruct (IH _ H); [now left|right; now right].
Qed.

Lemma find_pos_in g p : (exists i, find_pos g p = Some i) <-> In p (pos_list g).
Proof.
  unfold find_pos, pos_list. split.
  - intros [i H]. destruct (teqb p initial_ticket) eqn:E; [apply teqb_spec in E; now left|].
    right. destruct (slot_index_split _ _ _ _ H) as (pre & s & rest & Hl & Hs & _).
    rewrite Hl, map_app. apply in_or_app. right. cbn. now left.
  - intros [<-|H]; [rewrite teqb_refl; eauto|].
    destruct (teqb p initial_ticket); [eauto|].
    assert (G : forall l i, In p (map sl_pos l) -> exists n, slot_index l p i = Some n).
    { induction l as [|s r IH]; intros i Hin; [contradiction|]. cbn [slot_index].
      destruct (teqb (sl_pos s) p) eqn:E; [eauto|]. destruct Hin as [Hs|Hin]; [|now apply IH].
      rewrite Hs, teqb_refl in E. discriminate. }
    now apply G.
Qed.

Lemma plain_insert g prev id val g' :
  plain_slots g -> ~ In id (pos_list g) ->
  RGAList.insert_after g prev id val id = Some g' -> plain_slots g'.
Proof.
  intros [Hp Hr] Hfresh H. unfold RGAList.insert_after in H.
  destruct (anchor_index g prev) as [i|]; [|discriminate]. inversion H; subst g'. clear H.
  split.
  - intros s Hs. cbn [slots entries] in *. apply in_insert_at in Hs. destruct Hs as [->|Hs].
    + cbn [sl_elem sl_pos]. split; [reflexivity|]. eexists. rewrite find_entry_set. cbn [en_id].
      rewrite teqb_refl. split; [reflexivity|]. split; reflexivity.
    + destruct (Hp s Hs) as (He & e & Hf & Hm & Hid). split; [exact He|].
      rewrite find_entry_set. cbn [en_id].
      destruct (teqb id (sl_pos s)) eqn:E.
      * exfalso. apply teqb_spec in E. apply Hfresh. unfold pos_list. right. rewrite E. now apply in_map.
      * exists e. auto.
  - intros s Hs. cbn [slots] in Hs. apply in_insert_at in Hs. destruct Hs as [->|Hs]; [reflexivity|now apply Hr].
Qed.

Lemma plain_slots_determined g :
  plain_slots g -> slots g = map (fun p => mkSlot p None (Some p)) (map sl_pos (slots g)).
Proof.
  intros [Hp Hr]. rewrite map_map. rewrite <- (map_id (slots g)) at 1. apply map_ext_in.
  intros s Hs. destruct (Hp s Hs) as (He & _). specialize (Hr s Hs). destruct s; cbn in *. now subst.
Qed.

Lemma visible_ext g1 g2 :
  slots g1 = slots g2 -> (forall id, find_entry (entries g1) id = find_entry (entries g2) id) ->
  visible g1 = visible g2.
Proof.
  intros Hs He. unfold visible. rewrite Hs. apply flat_map_ext. intros s.
  unfold slot_live. destruct (sl_elem s); [now rewrite He|reflexivity].
Qed.

(* C01, array clause (insert/insert): two inserts made concurrently (neither
   anchored on the other's new element) into a list without moved elements
   give the same list in both orders. *)
Theorem rga_insert_commute g p1 id1 v1 p2 id2 v2 :
  plain_slots g -> In p1 (pos_list g) -> In p2 (pos_list g) ->
  id1 <> id2 -> ~ In id1 (pos_list g) -> ~ In id2 (pos_list g) ->
  exists g12 g21,
    bind (RGAList.insert_after g p1 id1 v1 id1) (fun h => RGAList.insert_after h p2 id2 v2 id2) = Some g12 /\
    bind (RGAList.insert_after g p2 id2 v2 id2) (fun h => RGAList.insert_after h p1 id1 v1 id1) = Some g21 /\
    slots g12 = slots g21 /\ visible g12 = visible g21 /\ plain_slots g12.
Proof.
  intros Hps H1 H2 Hne Hf1 Hf2. pose proof Hps as [Hp _].
  apply find_pos_in in H1. destruct H1 as [i1 H1]. apply find_pos_in in H2. destruct H2 as [i2 H2].
  destruct (insert_after_pos g p1 id1 v1 i1 Hp H1) as (g1 & I1 & G1 & E1).
  destruct (insert_after_pos g p2 id2 v2 i2 Hp H2) as (g2 & I2 & G2 & E2).
  pose proof (plain_insert _ _ _ _ _ Hps Hf1 I1) as Hps1.
  pose proof (plain_insert _ _ _ _ _ Hps Hf2 I2) as Hps2.
  (* anchors survive the other insert *)
  assert (Hin_after : forall a t l l', g_insert a t l = Some l' -> forall x, In x l -> In x l').
  { intros a t l. unfold g_insert.
    assert (Pl : forall r x, In x r -> In x (g_place t r)).
    { unfold g_place. induction r as [|y r IH]; intros x Hx; cbn [place]; [contradiction|].
      destruct (tafter y t); [destruct Hx as [<-|Hx]; [now left|right; now apply IH]|now right]. }
    induction l as [|y r IH]; intros l' H x Hx; cbn [RGACommuteGen.insert_after] in H; [discriminate|].
    destruct (teqb y a).
    - inversion H; subst. destruct Hx as [<-|Hx]; [now left|right; now apply Pl].
    - destruct (RGACommuteGen.insert_after ticket tafter teqb a t r) as [r'|] eqn:E; [|discriminate].
      inversion H; subst. destruct Hx as [<-|Hx]; [now left|right]. eapply IH; eauto. }
  assert (H2' : exists j, find_pos g1 p2 = Some j).
  { apply find_pos_in. eapply Hin_after; [exact G1|]. apply find_pos_in. eauto. }
  assert (H1' : exists j, find_pos g2 p1 = Some j).
  { apply find_pos_in. eapply Hin_after; [exact G2|]. apply find_pos_in. eauto. }
  destruct H2' as [j2 H2']. destruct H1' as [j1 H1'].
  destruct Hps1 as [Hp1 Hr1]. destruct Hps2 as [Hp2 Hr2].
  destruct (insert_after_pos g1 p2 id2 v2 j2 Hp1 H2') as (g12 & I12 & G12 & E12).
  destruct (insert_after_pos g2 p1 id1 v1 j1 Hp2 H1') as (g21 & I21 & G21 & E21).
  exists g12, g21. rewrite I1, I2. cbn [bind]. split; [exact I12|]. split; [exact I21|].
  (* generic commutation on the position lists *)
  assert (Hp1n : p1 <> id2) by (intros ->; apply Hf2; apply find_pos_in; eauto).
  assert (Hp2n : p2 <> id1) by (intros ->; apply Hf1; apply find_pos_in; eauto).
  pose proof (RGACommuteGen.insert_commute ticket tafter teqb teqb_spec tafter_asym tafter_trans tafter_total
                p1 id1 p2 id2 (pos_list g) Hne Hp1n Hp2n) as C.
  fold g_insert in G1, G2, G12, G21. unfold g_insert in *.
  rewrite G1, G2 in C. cbn [RGACommuteGen.bind] in C. rewrite G12, G21 in C. inversion C as [Hpos].
  assert (Hf2' : ~ In id2 (pos_list g1)).
  { intros Hin. unfold pos_list in *. cbn [slots] in *.
    assert (Q : forall a t l l', RGACommuteGen.insert_after ticket tafter teqb a t l = Some l' -> forall x, In x l' -> x = t \/ In x l).
    { intros a t l.
      assert (Pl : forall r x, In x (g_place t r) -> x = t \/ In x r).
      { unfold g_place. induction r as [|y r IH]; intros x Hx; cbn [place] in Hx.
        - destruct Hx as [<-|[]]. now left.
        - destruct (tafter y t).
          + destruct Hx as [<-|Hx]; [right; now left|]. destruct (IH _ Hx); [now left|right; now right].
          + destruct Hx as [<-|Hx]; [now left|now right]. }
      induction l as [|y r IH]; intros l' H x Hx; cbn [RGACommuteGen.insert_after] in H; [discriminate|].
      destruct (teqb y a).
      - inversion H; subst. destruct Hx as [<-|Hx]; [right; now left|].
        destruct (Pl _ _ Hx); [now left|right; now right].
      - destruct (RGACommuteGen.insert_after ticket tafter teqb a t r) as [r'|] eqn:E; [|discriminate].
        inversion H; subst. destruct Hx as [<-|Hx]; [right; now left|].
        destruct (IH _ eq_refl _ Hx); [now left|right; now right]. }
    destruct (Q _ _ _ _ G1 _ Hin) as [E|Hin']; [congruence|]. now apply Hf2. }
  pose proof (plain_insert g1 p2 id2 v2 g12 (conj Hp1 Hr1) Hf2' I12) as Hps12.
  assert (Hf1' : ~ In id1 (pos_list g2)).
  { intros Hin.
    assert (In id1 (pos_list g21)) by (eapply Hin_after; [exact G21|exact Hin]).
    (* id1 appears once in g21's positions as the new node; use g12 = g21 positions and freshness in g *)
    clear H. unfold pos_list in Hin. 
    assert (Q : forall a t l l', RGACommuteGen.insert_after ticket tafter teqb a t l = Some l' -> forall x, In x l' -> x = t \/ In x l).
    { intros a t l.
      assert (Pl : forall r x, In x (g_place t r) -> x = t \/ In x r).
      { unfold g_place. induction r as [|y r IH]; intros x Hx; cbn [place] in Hx.
        - destruct Hx as [<-|[]]. now left.
        - destruct (tafter y t).
          + destruct Hx as [<-|Hx]; [right; now left|]. destruct (IH _ Hx); [now left|right; now right].
          + destruct Hx as [<-|Hx]; [now left|now right]. }
      induction l as [|y r IH]; intros l' H x Hx; cbn [RGACommuteGen.insert_after] in H; [discriminate|].
      destruct (teqb y a).
      - inversion H; subst. destruct Hx as [<-|Hx]; [right; now left|].
        destruct (Pl _ _ Hx); [now left|right; now right].
      - destruct (RGACommuteGen.insert_after ticket tafter teqb a t r) as [r'|] eqn:E; [|discriminate].
        inversion H; subst. destruct Hx as [<-|Hx]; [right; now left|].
        destruct (IH _ eq_refl _ Hx); [now left|right; now right]. }
    destruct (Q _ _ _ _ G2 _ Hin) as [E|Hin']; [congruence|]. now apply Hf1. }
  pose proof (plain_insert g2 p1 id1 v1 g21 (conj Hp2 Hr2) Hf1' I21) as Hps21.
  assert (Hslots : slots g12 = slots g21).
  { rewrite (plain_slots_determined g12 Hps12), (plain_slots_determined g21 Hps21).
    unfold pos_list in Hpos. inversion Hpos as [Hm]. now rewrite Hm. }
  split; [exact Hslots|]. split; [|exact Hps12].
  apply visible_ext; [exact Hslots|].
  intros id. rewrite E12, E21, E1, E2, !find_entry_set. cbn [en_id].
  destruct (teqb id2 id) eqn:A; destruct (teqb id1 id) eqn:B; try reflexivity.
  apply teqb_spec in A. apply teqb_spec in B. congruence.
Qed.

(* deletes never touch the position list, so they commute with everything as
   far as positions are concerned *)
Lemma delete_keeps_slots g id t g' : delete_by_created g id t = Some g' -> slots g' = slots g.
Proof. unfold delete_by_created. destruct (find_entry (entries g) id); [|discriminate]. intros H; now inversion H. Qed.

(* purging (garbage collection) never changes what is visible when it purges
   only removed elements and dead positions: C03, view-invariance, array clause *)
Lemma flat_map_filter_nil {A B} (f : A -> list B) (q : A -> bool) l :
  (forall x, In x l -> q x = false -> f x = []) -> flat_map f (filter q l) = flat_map f l.
Proof.
  induction l as [|x r IH]; intros H; cbn [filter flat_map]; [reflexivity|].
  destruct (q x) eqn:E; cbn [flat_map].
  - f_equal. apply IH. intros y Hy. apply H. now right.
  - rewrite (H x (or_introl eq_refl) E). cbn [app]. apply IH. intros y Hy. apply H. now right.
Qed.

Lemma visible_purge_slot g p :
  (forall s, In s (slots g) -> sl_pos s = p -> slot_live g s = None) ->
  visible (purge_slot g p) = visible g.
Proof.
  intros H. unfold visible, purge_slot, release. cbn [slots].
  transitivity (flat_map (fun s => match slot_live g s with Some e => [en_val e] | None => [] end)
                  (filter (fun s => negb (teqb (sl_pos s) p)) (slots g))).
  - apply flat_map_ext. intros s. reflexivity.
  - apply flat_map_filter_nil. intros s Hs Hq.
    assert (sl_pos s = p) by (apply teqb_spec; destruct (teqb (sl_pos s) p); [reflexivity|discriminate]).
    now rewrite (H s Hs H0).
Qed.

Example rga_commute_example :
  let t a l := mkT l a 0%N in
  let g0 := empty_rga in
  exists g, RGAList.insert_after g0 initial_ticket (t 1%N 1) 10 (t 1%N 1) = Some g /\
    visible g = [10] /\
    match bind (RGAList.insert_after g (t 1%N 1) (t 1%N 2) 20 (t 1%N 2)) (fun h => RGAList.insert_after h (t 1%N 1) (t 2%N 2) 30 (t 2%N 2)),
          bind (RGAList.insert_after g (t 1%N 1) (t 2%N 2) 30 (t 2%N 2)) (fun h => RGAList.insert_after h (t 1%N 1) (t 1%N 2) 20 (t 1%N 2)) with
    | Some a, Some b => visible a = [10; 30; 20] /\ visible b = [10; 30; 20]
    | _, _ => False
    end.
Proof. eexists. split; [reflexivity|]. split; [reflexivity|]. vm_compute. split; reflexivity. Qed.
