(* FaultProofs.v — property C05, faults placed inside one PushPull.
   The handler makes its storage calls in this order: read the client and the document, store the
   pushed changes (CreateChangeInfos: log and head), update the version-vector row, read the changes
   to pull, store the client's checkpoint (UpdateClientInfoAfterPushPull).  A fault
     - before CreateChangeInfos took effect leaves the server as it was (nothing was written): the
       retry is an ordinary request;
     - after UpdateClientInfoAfterPushPull took effect is a lost response (Props/C05.v);
     - in between leaves the log extended and the client's stored clientSeq behind: finding P8. The
       retried identical request passes the continuity check (it is judged against the stored
       clientSeq), none of its changes is filtered out, and they are stored a second time. *)
From YV Require Import Base.Ticket Base.VV Proto.Server Proofs.ProtoProofs.

(* the server after a crash inside the push window of request q: rows stored, nothing else *)
Definition crash_in_push_window (s : srv) (q : req) : srv :=
  let '(s2, _, _) := push_pull s q in
  mkSrv (s_log s2) (s_head s2) (s_epoch s) (s_removed s2) (s_nopres s) (s_clients s) (s_vvrows s) (s_threshold s).

(* a fault before anything was written *)
Definition crash_before_push (s : srv) (q : req) : srv := s.

Theorem fault_before_push_is_harmless s q : push_pull (crash_before_push s q) q = push_pull s q.
Proof. reflexivity. Qed.

(* one client, attached, pushes its first change (clientSeq 1) *)
Definition p8_actor : actor := 1%N.
Definition p8_srv : srv :=
  match mark_attached (activate (empty_srv false 100) p8_actor) p8_actor with Some s => s | None => empty_srv false 100 end.
Definition p8_change : chdr := mkCh p8_actor 1 1 [] 1 0%N.
Definition p8_req : req := mkReq p8_actor 0 0 [p8_change] [] false MPushPull DAttached false.

Definition p8_after_retry : srv := fst (fst (push_pull (crash_in_push_window p8_srv p8_req) p8_req)).
Definition p8_without_fault : srv := fst (fst (push_pull p8_srv p8_req)).

Theorem crash_in_push_window_duplicates :
  cseqs_of p8_actor (s_log p8_without_fault) = [1] /\
  snd (push_pull (crash_in_push_window p8_srv p8_req) p8_req) = ENone /\   (* the retry is accepted *)
  cseqs_of p8_actor (s_log p8_after_retry) = [1; 1] /\                     (* and stored again *)
  s_head p8_after_retry = 2.
Proof. repeat split; vm_compute; reflexivity. Qed.
