(* FaultProofs.v — property C05, faults placed inside one PushPull.
   The handler makes its storage calls in this order: read the client and the document, store the
   pushed changes (CreateChangeInfos: log and head), update the version-vector row, read the changes
   to pull, store the client's checkpoint (UpdateClientInfoAfterPushPull).  A fault
     - before CreateChangeInfos took effect leaves the server as it was (nothing was written): the
       retry is an ordinary request;
     - after UpdateClientInfoAfterPushPull took effect is a lost response (Props/C05.v);
     - in between leaves the log extended and the client's stored clientSeq behind: finding P8. The
       retried identical request passes the continuity check (it is judged against the stored
       clientSeq), none of its changes is filtered out, and they are stored a second time. *)
From YV Require Import Base.Ticket Base.VV Proto.Server Proofs.ProtoProofs.

(* the server after a crash inside the push window of request q: rows stored, nothing else *)
Definition crash_in_push_window (s : srv) (q : req) : srv :=
  let '(s2, _, _) := push_pull s q in
  mkSrv (s_log s2) (s_head s2) (s_epoch s) (s_removed s2) (s_nopres s) (s_clients s) (s_vvrows s) (s_threshold s).

(* a fault before anything was written *)
Definition crash_before_push (s : srv) (q : req) : srv := s.

Theorem fault_before_push_is_harmless s q : push_pull (crash_before_push s q) q = push_pull s q.
Proof. reflexivity. Qed.

(* one client, attached, pushes its first change (clientSeq 1) *)
Definition p8_actor : actor := 1%N.
Definition p8_srv : srv :=
  match mark_attached (activate (empty_srv false 100) p8_actor) p8_actor with Some s => s | None => empty_srv false 100 end.
Definition p8_change : chdr := mkCh p8_actor 1 1 [] 1 0%N.
Definition p8_req : req := mkReq p8_actor 0 0 [p8_change] [] false MPushPull DAttached false.

Definition p8_after_retry : srv := fst (fst (push_pull (crash_in_push_window p8_srv p8_req) p8_req)).
Definition p8_without_fault : srv := fst (fst (push_pull p8_srv p8_req)).

Theorem crash_in_push_window_duplicates :
  cseqs_of p8_actor (s_log p8_without_fault) = [1] /\
  snd (push_pull (crash_in_push_window p8_srv p8_req) p8_req) = ENone /\   (* the retry is accepted *)
  cseqs_of p8_actor (s_log p8_after_retry) = [1; 1] /\                     (* and stored again *)
  s_head p8_after_retry = 2.
Proof. repeat split; vm_compute; reflexivity. Qed.

(* ------------------------------------------------------------------ *)
(* finding P11: the handler reads the changes to pull first and the minimum version vector later;
   other requests can run in between.  [stale_pull s s' q] is the response whose pulled changes
   were read in state s and whose vector was computed in the later state s'. *)
Definition stale_pull (s s' : srv) (q : req) : resp :=
  let '(_, r1, _) := push_pull s q in
  let '(_, r3, _) := push_pull s' q in
  mkResp (p_cp_s r1) (p_cp_c r1) (p_changes r1) (p_snapshot r1) (p_vv r3) (p_removed r1).

(* what garbage collection relies on: a change whose author had not seen what the response's vector
   says everybody has seen must have been delivered *)
Definition lam_of (v : vv) (a : actor) : Z := match aget v a with Some l => l | None => 0 end.
Definition undelivered_older (s : srv) (me : actor) (r : resp) : list stored :=
  match p_vv r with
  | None => []
  | Some m =>
      filter (fun st => negb (N.eqb (h_actor (st_ch st)) me) && (p_cp_s r <? st_sseq st) &&
                        existsb (fun al => lam_of (h_vv (st_ch st)) (fst al) <? snd al) m)
             (s_log s)
  end.

Definition p11_R : actor := 1%N.
Definition p11_M : actor := 2%N.
Definition p11_s0 : srv :=
  let s := activate (activate (empty_srv false 100) p11_R) p11_M in
  match mark_attached s p11_R with
  | Some s1 => match mark_attached s1 p11_M with Some s2 => s2 | None => s1 end
  | None => s
  end.
(* R deletes something: change d, lamport 2 *)
Definition p11_d : chdr := mkCh p11_R 1 2 [(p11_R, 2)] 1 0%N.
Definition p11_s1 : srv := fst (fst (push_pull p11_s0 (mkReq p11_R 0 0 [p11_d] [(p11_R, 2)] false MPushPull DAttached false))).
(* R syncs again, nothing to push *)
Definition p11_qR : req := mkReq p11_R 1 1 [] [(p11_R, 2)] false MPushPull DAttached false.
(* meanwhile M pushes X, made before it saw d (an insert anchored on what d deleted), and pulls d ... *)
Definition p11_X : chdr := mkCh p11_M 1 1 [(p11_M, 1)] 1 0%N.
Definition p11_s2 : srv := fst (fst (push_pull p11_s1 (mkReq p11_M 0 0 [p11_X] [(p11_M, 1)] false MPushPull DAttached false))).
(* ... and syncs once more, reporting a vector that covers d *)
Definition p11_s3 : srv := fst (fst (push_pull p11_s2 (mkReq p11_M 2 1 [] [(p11_R, 2); (p11_M, 3)] false MPushPull DAttached false))).

Theorem stale_minimum_outruns_the_pull :
  (* handled in one piece, in either state, R's sync leaves nothing behind *)
  undelivered_older p11_s1 p11_R (snd (fst (push_pull p11_s1 p11_qR))) = [] /\
  undelivered_older p11_s3 p11_R (snd (fst (push_pull p11_s3 p11_qR))) = [] /\
  (* pull range from before M's two syncs, minimum from after: X is missing while the vector says
     everybody has seen d *)
  map (fun st => h_actor (st_ch st)) (undelivered_older p11_s3 p11_R (stale_pull p11_s1 p11_s3 p11_qR)) = [p11_M] /\
  p_vv (stale_pull p11_s1 p11_s3 p11_qR) = Some [(p11_R, 2); (p11_M, 0)].
Proof. repeat split; vm_compute; reflexivity. Qed.
