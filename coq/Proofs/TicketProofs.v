(* TicketProofs.v — the ticket order (time.Ticket.Compare) is a strict total order. *)
From YV Require Import Base.Ticket.
From Coq Require Import ZifyBool ZifyN.

Definition tgt (a b : ticket) : Prop :=
  lam a > lam b \/ (lam a = lam b /\ ((act a > act b)%N \/ (act a = act b /\ (dlm a > dlm b)%N))).

Lemma tafter_spec a b : tafter a b = true <-> tgt a b.
Proof.
  unfold tafter, tcmp, tgt.
  destruct (Z.compare_spec (lam a) (lam b));
    [destruct (N.compare_spec (act a) (act b));
      [destruct (N.compare_spec (dlm a) (dlm b))| |]| |];
    (split; [intros X; first [discriminate | lia] | intros X; first [reflexivity | exfalso; lia]]).
Qed.

Lemma teqb_spec a b : teqb a b = true <-> a = b.
Proof.
  unfold teqb. destruct a as [l1 a1 d1], b as [l2 a2 d2]; cbn [lam act dlm]. split.
  - intros H. apply andb_true_iff in H. destruct H as [H H3]. apply andb_true_iff in H. destruct H as [H1 H2].
    f_equal; lia.
  - intros E; inversion E; subst. rewrite Z.eqb_refl, !N.eqb_refl. reflexivity.
Qed.

Lemma teqb_refl a : teqb a a = true.
Proof. now apply teqb_spec. Qed.

Lemma tgt_asym a b : tgt a b -> ~ tgt b a.
Proof. unfold tgt. lia. Qed.

Lemma tgt_trans a b c : tgt a b -> tgt b c -> tgt a c.
Proof. unfold tgt. lia. Qed.

Lemma tgt_total a b : a <> b -> tgt a b \/ tgt b a.
Proof.
  intros H. destruct a as [l1 a1 d1], b as [l2 a2 d2]. unfold tgt; cbn [lam act dlm].
  assert (l1 <> l2 \/ a1 <> a2 \/ d1 <> d2).
  { destruct (Z.eq_dec l1 l2), (N.eq_dec a1 a2), (N.eq_dec d1 d2); subst; auto. }
  lia.
Qed.

Lemma tgt_irrefl a : ~ tgt a a.
Proof. unfold tgt. lia. Qed.

Lemma tafter_false a b : tafter a b = false <-> ~ tgt a b.
Proof. rewrite <- tafter_spec. destruct (tafter a b); split; intros; try discriminate; congruence. Qed.

Lemma teqb_sym a b : teqb a b = teqb b a.
Proof.
  unfold teqb. rewrite (Z.eqb_sym (lam a)), (N.eqb_sym (act a)), (N.eqb_sym (dlm a)). reflexivity.
Qed.

Lemma tafter_total_b a b : a <> b -> tafter a b = true \/ tafter b a = true.
Proof. rewrite !tafter_spec. apply tgt_total. Qed.

Lemma tafter_trans_b a b c : tafter a b = true -> tafter b c = true -> tafter a c = true.
Proof. rewrite !tafter_spec. apply tgt_trans. Qed.
