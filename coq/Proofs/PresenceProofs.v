(* PresenceProofs.v — a presenceless document never stores or returns presence
   (property C12, server side), on the protocol model. *)
From YV Require Import Proto.Server Proofs.ProtoProofs.

Definition no_pres (c : chdr) : Prop := h_pres c = 0%N.

Lemma strip_presence_clean cs : Forall no_pres (strip_presence cs).
Proof.
  induction cs as [|c r IH]; cbn [strip_presence]; [constructor|].
  destruct (N.eqb_spec (h_pres c) 0) as [E|E]; cbn [negb].
  - constructor; [exact E|exact IH].
  - destruct (h_nops c =? 0); [exact IH|]. constructor; [reflexivity|exact IH].
Qed.

Lemma store_changes_chs cs : forall head a b rows h' s' c',
  store_changes head a b cs = (rows, h', s', c') -> map st_ch rows = cs.
Proof. intros. now destruct (store_changes_spec _ _ _ _ _ _ _ _ H) as (_ & B & _). Qed.

Lemma filter_forall {A} (P : A -> Prop) (f : A -> bool) l : Forall P l -> Forall P (filter f l).
Proof. induction 1 as [|x l Hx Hl IH]; cbn [filter]; [constructor|]. destruct (f x); [constructor|]; assumption. Qed.

Ltac destruct_all_matches H :=
  repeat match type of H with
         | context [match ?x with _ => _ end] => destruct x eqn:?
         | context [if ?x then _ else _] => destruct x eqn:?
         end.

(* whatever a client sends to a presenceless document, the rows it adds carry no presence *)
Theorem presenceless_stores_no_presence s q s2 r e :
  s_nopres s = true -> push_pull s q = (s2, r, e) ->
  exists new, s_log s2 = s_log s ++ new /\ Forall (fun st => no_pres (st_ch st)) new.
Proof.
  intros Hnp H. unfold push_pull in H.
  destruct (aget (s_clients s) (q_client q)) as [ci|]; [|inversion H; subst; exists []; rewrite app_nil_r; split; [reflexivity|constructor]].
  destruct (negb (continuity_ok _ _ _)); [inversion H; subst; exists []; rewrite app_nil_r; split; [reflexivity|constructor]|].
  rewrite Hnp in H.
  match type of H with context [store_changes ?a ?b ?c ?d] =>
    remember d as pushables eqn:Hpush; destruct (store_changes a b c pushables) as [[[rows h'] cs'] cc'] eqn:E end.
  assert (Hclean : Forall no_pres pushables).
  { subst pushables. match goal with |- Forall _ (if ?g then [] else ?l) => destruct g; [constructor|] end.
    apply filter_forall. apply strip_presence_clean. }
  pose proof (store_changes_chs _ _ _ _ _ _ _ _ E) as Hmap.
  assert (Hrows : Forall (fun st => no_pres (st_ch st)) rows).
  { rewrite <- Hmap in Hclean. rewrite Forall_forall in *. intros st Hin. apply Hclean. now apply in_map. }
  clear Hpush.
  destruct_all_matches H; inversion H; subst; cbn [s_log];
    try (exists []; rewrite app_nil_r; split; [reflexivity|constructor]);
    try (exists rows; split; [reflexivity|exact Hrows]).
Qed.

(* and nothing it returns carries presence either, even if older rows did *)
Lemma pull_changes_clean s a from to c :
  s_nopres s = true -> Forall (fun st => no_pres (st_ch st)) (pull_changes s a from to c).
Proof.
  intros Hnp. unfold pull_changes. rewrite Hnp.
  match goal with |- Forall _ (flat_map ?f ?l) => generalize l end.
  induction l as [|st l IH]; cbn [flat_map]; [constructor|].
  apply Forall_app. split; [|exact IH].
  destruct (N.eqb_spec (h_pres (st_ch st)) 0) as [E0|E0]; cbn [negb].
  - constructor; [exact E0|constructor].
  - destruct (h_nops (st_ch st) =? 0); [constructor|]. constructor; [reflexivity|constructor].
Qed.

Theorem presenceless_returns_no_presence s q s2 r e :
  s_nopres s = true -> push_pull s q = (s2, r, e) ->
  Forall (fun st => no_pres (st_ch st)) (p_changes r).
Proof.
  intros Hnp H. unfold push_pull in H.
  destruct (aget (s_clients s) (q_client q)) as [ci|]; [|inversion H; subst; constructor].
  destruct (negb (continuity_ok _ _ _)); [inversion H; subst; constructor|].
  match type of H with context [store_changes ?a ?b ?c ?d] =>
    destruct (store_changes a b c d) as [[[rows h'] cs'] cc'] eqn:E end.
  destruct_all_matches H; inversion H; subst; cbn [p_changes]; try constructor;
    repeat match goal with
           | Hq : (match ?x with _ => _ end) = _ |- _ => destruct x eqn:?; try discriminate
           | Hq : (if ?x then _ else _) = _ |- _ => destruct x eqn:?; try discriminate
           | Hq : inl _ = inl _ |- _ => inversion Hq; subst; clear Hq
           end;
    try constructor; try (apply pull_changes_clean; cbn [s_nopres]; exact Hnp).
Qed.
