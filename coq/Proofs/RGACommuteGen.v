(* RGACommuteGen.v — the RGA skip-rule insertion ("longest prefix of larger
   identifiers") commutes for two inserts whose anchors are not each other's
   new node.  Generic over any strict total order (instantiated with tickets
   in Proofs/RGAProofs.v); no invariant on the list is needed. *)
From Coq Require Import List Bool.
Import ListNotations.

Section Gen.
Variable T : Type.
Variable gtb : T -> T -> bool.
Variable eqb : T -> T -> bool.
Hypothesis eqb_spec : forall a b, eqb a b = true <-> a = b.
Hypothesis gt_asym : forall a b, gtb a b = true -> gtb b a = false.
Hypothesis gt_trans : forall a b c, gtb a b = true -> gtb b c = true -> gtb a c = true.
Hypothesis gt_total : forall a b, a <> b -> gtb a b = true \/ gtb b a = true.
Hypothesis gt_irrefl : forall a, gtb a a = false.

Fixpoint place (t : T) (l : list T) : list T :=
  match l with
  | x :: r => if gtb x t then x :: place t r else t :: l
  | [] => [t]
  end.

Fixpoint insert_after (anchor t : T) (l : list T) : option (list T) :=
  match l with
  | [] => None
  | x :: r => if eqb x anchor then Some (x :: place t r)
              else option_map (cons x) (insert_after anchor t r)
  end.

Lemma eqb_refl a : eqb a a = true.
Proof. now apply eqb_spec. Qed.

Lemma eqb_neq a b : a <> b -> eqb a b = false.
Proof. intros H. destruct (eqb a b) eqn:E; [apply eqb_spec in E; contradiction|reflexivity]. Qed.

(* not (x > t) and x <> t  means  t > x *)
Lemma not_gt x t : gtb x t = false -> x <> t -> gtb t x = true.
Proof. intros H N. destruct (gt_total x t N) as [G|G]; [congruence|exact G]. Qed.

Lemma place_place t1 t2 l : t1 <> t2 -> place t1 (place t2 l) = place t2 (place t1 l).
Proof.
  intros Hne. induction l as [|x r IH]; cbn [place].
  - destruct (gt_total t1 t2 Hne) as [G|G].
    + rewrite G, (gt_asym _ _ G). reflexivity.
    + rewrite G, (gt_asym _ _ G). reflexivity.
  - destruct (gtb x t1) eqn:H1; destruct (gtb x t2) eqn:H2; cbn [place]; rewrite ?H1, ?H2.
    + now rewrite IH.
    + (* x > t1, not x > t2 *)
      destruct (gtb t2 t1) eqn:G21; cbn [place]; rewrite ?H1; [reflexivity|].
      exfalso.
      assert (H : gtb t1 t2 = true) by (apply not_gt; [exact G21|congruence]).
      rewrite (gt_trans x t1 t2 H1 H) in H2. discriminate.
    + destruct (gtb t1 t2) eqn:G12; cbn [place]; rewrite ?H2; [reflexivity|].
      exfalso.
      assert (H : gtb t2 t1 = true) by (apply not_gt; [exact G12|congruence]).
      rewrite (gt_trans x t2 t1 H2 H) in H1. discriminate.
    + destruct (gt_total t1 t2 Hne) as [G|G]; pose proof (gt_asym _ _ G) as G';
        cbn [place]; rewrite ?G, ?G'; cbn [place]; rewrite ?H1, ?H2; reflexivity.
Qed.

Lemma place_insert t1 t2 a l :
  t1 <> t2 -> a <> t1 ->
  insert_after a t2 (place t1 l) = option_map (place t1) (insert_after a t2 l).
Proof.
  intros Hne Ha. induction l as [|x r IH]; cbn [place insert_after].
  - rewrite eqb_neq by congruence. reflexivity.
  - destruct (eqb x a) eqn:Exa.
    + apply eqb_spec in Exa. subst x. cbn [option_map].
      destruct (gtb a t1) eqn:G; cbn [insert_after place]; rewrite ?G.
      * rewrite eqb_refl. now rewrite (place_place t1 t2) by assumption.
      * rewrite (eqb_neq t1 a) by congruence. rewrite eqb_refl. reflexivity.
    + destruct (gtb x t1) eqn:G; cbn [insert_after].
      * rewrite Exa, IH. destruct (insert_after a t2 r) as [r2|]; cbn [option_map place]; [|reflexivity].
        now rewrite G.
      * rewrite (eqb_neq t1 a) by congruence. rewrite Exa.
        destruct (insert_after a t2 r) as [r2|]; cbn [option_map place]; [|reflexivity].
        now rewrite G.
Qed.

Definition bind {A B} (o : option A) (f : A -> option B) : option B :=
  match o with Some x => f x | None => None end.

Theorem insert_commute a1 t1 a2 t2 l :
  t1 <> t2 -> a1 <> t2 -> a2 <> t1 ->
  bind (insert_after a1 t1 l) (insert_after a2 t2) =
  bind (insert_after a2 t2 l) (insert_after a1 t1).
Proof.
  intros Hne H12 H21. induction l as [|x r IH]; [reflexivity|].
  cbn [insert_after].
  destruct (eqb x a1) eqn:E1; destruct (eqb x a2) eqn:E2; cbn [bind insert_after].
  - rewrite E1, E2. now rewrite (place_place t1 t2) by assumption.
  - rewrite E2. rewrite place_insert by congruence.
    destruct (insert_after a2 t2 r) as [r2|]; cbn [option_map bind insert_after]; [|reflexivity].
    now rewrite E1.
  - rewrite E1. rewrite place_insert by congruence.
    destruct (insert_after a1 t1 r) as [r1|]; cbn [option_map bind insert_after]; [|reflexivity].
    now rewrite E2.
  - destruct (insert_after a1 t1 r) as [r1|] eqn:I1; destruct (insert_after a2 t2 r) as [r2|] eqn:I2;
      cbn [option_map bind insert_after] in *.
    + rewrite E1, E2. rewrite <- IH. reflexivity.
    + rewrite E2. rewrite IH. reflexivity.
    + rewrite E1. rewrite <- IH. reflexivity.
    + reflexivity.
Qed.

End Gen.
