(* ArrayWitness.v — finding P13 on the array models: after an element has been moved, Set on it
   (RGATreeList.Set: insert the new value after the element's createdAt, then delete the element)
   resolves that createdAt through the position map first, where it still names the element's
   ORIGINAL, now dead, slot: the new value appears where the element used to be. *)
From YV Require Import Base.Ticket Crdt.RGAList Crdt.ArrayKeys Proofs.ArrayProofs.

Definition p13_A := mkT 1 1%N 0%N.
Definition p13_B := mkT 2 1%N 0%N.
(* [10; 20], then 10 is moved behind 20, then the element 10 is set to 99 *)
Definition p13_base := obnd (a_insert empty_arr initial_ticket p13_A 10) (fun a => a_insert a p13_A p13_B 20).
Definition p13_moved := obnd p13_base (fun a => a_move a p13_B p13_A (mkT 3 1%N 0%N)).
Definition p13_set := obnd p13_moved (fun a => a_set a p13_A (mkT 4 1%N 0%N) 99 (mkT 4 1%N 0%N)).

(* the same three calls on the slot model *)
Definition p13_slots :=
  obnd (obnd (obnd (insert_after empty_rga initial_ticket p13_A 10 p13_A) (fun g => insert_after g p13_A p13_B 20 p13_B))
             (fun g => move_after g p13_B p13_A (mkT 3 1%N 0%N)))
       (fun g => set_elem g p13_A (mkT 4 1%N 0%N) 99 (mkT 4 1%N 0%N)).

Theorem set_after_move_lands_at_the_old_slot :
  option_map a_visible p13_moved = Some [20; 10]%Z /\
  option_map a_visible p13_set = Some [99; 20]%Z /\            (* a splice would give [20; 99] *)
  option_map RGAList.visible p13_slots = Some [99; 20]%Z.
Proof. repeat split; vm_compute; reflexivity. Qed.
