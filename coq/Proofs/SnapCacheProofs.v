(* Proofs/SnapCacheProofs.v — the snapshot cache of BuildInternalDocForServerSeq is transparent. *)
From YV Require Import Cache.SnapCache.

Section Proofs.
  Variables doc chg : Type.
  Variable apply : doc -> chg -> doc.
  Variable init : doc.

  Notation replay := (replay doc chg apply init).
  Notation entry := (entry doc).

  Definition entry_ok (log : list chg) (e : entry) : Prop :=
    eseq e <= length log /\ edoc e = replay log (eseq e).

  Definition cache_ok (log : list chg) (c : option entry) : Prop :=
    match c with None => True | Some e => entry_ok log e end.

  Lemma firstn_split : forall (l : list chg) k n, k <= n ->
    firstn n l = firstn k l ++ firstn (n - k) (skipn k l).
  Proof.
    induction l as [|x l IH]; intros k n Hkn.
    - rewrite skipn_nil, !firstn_nil. reflexivity.
    - destruct k as [|k].
      + rewrite Nat.sub_0_r. reflexivity.
      + destruct n as [|n]; [lia|].
        rewrite !firstn_cons, skipn_cons. cbn [app Nat.sub]. f_equal. apply IH. lia.
  Qed.

  Lemma build_from_ok : forall log b n, entry_ok log b -> eseq b <= n ->
    edoc (build_from doc chg apply log b n) = replay log n.
  Proof.
    intros log b n [Hlen Hd] Hbn. unfold build_from, rows, SnapCache.replay. cbn [edoc].
    rewrite (firstn_split log (eseq b) n Hbn), fold_left_app.
    rewrite Hd. reflexivity.
  Qed.

  Lemma zero_ok : forall log, entry_ok log (zero doc init).
  Proof. intros log. split; cbn; [lia|reflexivity]. Qed.

  Lemma closest_ok : forall log snaps n best,
    Forall (entry_ok log) snaps -> entry_ok log best -> eseq best <= n ->
    entry_ok log (closest doc snaps n best) /\ eseq (closest doc snaps n best) <= n.
  Proof.
    intros log snaps n. induction snaps as [|e r IH]; intros best Hs Hb Hbn; cbn [closest].
    - split; assumption.
    - inversion Hs as [|? ? He Hr]; subst.
      destruct ((eseq e <=? n) && (eseq best <=? eseq e)) eqn:E.
      + apply andb_true_iff in E. destruct E as [E1 _]. apply Nat.leb_le in E1.
        apply IH; assumption.
      + apply IH; assumption.
  Qed.

  (* the greatest stored snapshot not after n: no stored snapshot lies strictly between *)
  Lemma closest_greatest : forall snaps n best e,
    In e snaps -> eseq e <= n -> eseq e <= eseq (closest doc snaps n best).
  Proof.
    assert (Hmono : forall snaps n best, eseq best <= eseq (closest doc snaps n best)).
    { induction snaps as [|x r IH]; intros n best; cbn [closest]; [lia|].
      destruct ((eseq x <=? n) && (eseq best <=? eseq x)) eqn:E.
      - apply andb_true_iff in E. destruct E as [_ E2]. apply Nat.leb_le in E2.
        specialize (IH n x). lia.
      - apply IH. }
    induction snaps as [|x r IH]; intros n best e Hin Hen; [contradiction|].
    cbn [closest]. destruct Hin as [->|Hin].
    - destruct ((eseq e <=? n) && (eseq best <=? eseq e)) eqn:E.
      + apply Hmono.
      + apply andb_false_iff in E. destruct E as [E|E].
        * apply Nat.leb_gt in E. lia.
        * apply Nat.leb_gt in E. specialize (Hmono r n best). lia.
    - destruct ((eseq x <=? n) && (eseq best <=? eseq x)); apply IH; assumption.
  Qed.

  Lemma base_ok : forall log snaps cache n,
    Forall (entry_ok log) snaps -> cache_ok log cache ->
    entry_ok log (base doc init snaps cache n) /\ eseq (base doc init snaps cache n) <= n.
  Proof.
    intros log snaps cache n Hs Hc. unfold base.
    destruct cache as [e|].
    - destruct (n <? eseq e) eqn:E.
      + apply closest_ok; [assumption|apply zero_ok|cbn; lia].
      + apply Nat.ltb_ge in E. split; [exact Hc|exact E].
    - apply closest_ok; [assumption|apply zero_ok|cbn; lia].
  Qed.

  (* one rebuild: the caller gets the replay, and the cache is left correct *)
  Lemma build_transparent : forall log snaps cache n r c,
    Forall (entry_ok log) snaps -> cache_ok log cache -> n <= length log ->
    build doc chg apply init log snaps cache n = (r, c) ->
    eseq r = n /\ edoc r = replay log n /\ cache_ok log c.
  Proof.
    intros log snaps cache n r c Hs Hc Hn Hb. unfold build in Hb.
    destruct (base_ok log snaps cache n Hs Hc) as [Hbok Hble].
    assert (Hr : r = build_from doc chg apply log (base doc init snaps cache n) n) by congruence.
    assert (Hcc : c = cache_after doc (length log) cache n r) by congruence.
    subst r. split; [reflexivity|]. split.
    - apply build_from_ok; assumption.
    - subst c. unfold cache_after. destruct (length log <=? n); [|exact Hc].
      cbn [cache_ok]. split; [cbn; exact Hn|].
      cbn [eseq]. apply build_from_ok; assumption.
  Qed.

  (* the storage layer is asked only for rows after the base, never for rows the base covers *)
  Lemma plan_range : forall log snaps cache n,
    Forall (entry_ok log) snaps -> cache_ok log cache ->
    let '(lk, from, to) := plan doc init snaps cache n in
    to = n /\ 1 <= from <= S n /\
    (lk = false -> exists e, cache = Some e /\ from = S (eseq e) /\ eseq e <= n).
  Proof.
    intros log snaps cache n Hs Hc. unfold plan.
    destruct (base_ok log snaps cache n Hs Hc) as [_ Hle].
    split; [reflexivity|]. split; [lia|].
    intros Hlk. unfold needs_lookup in Hlk. destruct cache as [e|]; [|discriminate].
    exists e. split; [reflexivity|]. unfold base. rewrite Hlk.
    apply Nat.ltb_ge in Hlk. split; [reflexivity|exact Hlk].
  Qed.

  (* ---- every reachable state ---- *)
  Definition SInv (s : sys doc chg) : Prop :=
    Forall (entry_ok (s_log _ _ s)) (s_snaps _ _ s) /\
    cache_ok (s_log _ _ s) (s_cache _ _ s) /\
    Forall (fun nd => fst nd <= length (s_log _ _ s) /\ snd nd = replay (s_log _ _ s) (fst nd))
           (s_out _ _ s).

  Lemma replay_push : forall log c n, n <= length log -> replay (log ++ [c]) n = replay log n.
  Proof.
    intros log c n Hn. unfold SnapCache.replay. rewrite firstn_app.
    replace (n - length log) with 0 by lia. cbn [firstn]. rewrite app_nil_r. reflexivity.
  Qed.

  Lemma entry_ok_push : forall log c e, entry_ok log e -> entry_ok (log ++ [c]) e.
  Proof.
    intros log c e [Hl Hd]. split.
    - rewrite app_length. cbn. lia.
    - rewrite replay_push; assumption.
  Qed.

  Lemma sstep_inv : forall s o, SInv s -> SInv (sstep doc chg apply init s o).
  Proof.
    intros s o (Hs & Hc & Ho). destruct o as [c|n| |n]; cbn [sstep].
    - (* push *)
      repeat split; cbn [s_log s_snaps s_cache s_out].
      + eapply Forall_impl; [|exact Hs]. intros e He. apply entry_ok_push. exact He.
      + destruct (s_cache _ _ s) as [e|]; [apply entry_ok_push; exact Hc|exact I].
      + eapply Forall_impl; [|exact Ho]. intros [k d] [Hk Hd]. cbn [fst snd] in *. split.
        * rewrite app_length. cbn. lia.
        * rewrite replay_push; assumption.
    - (* store snapshot *)
      destruct (n <=? length (s_log _ _ s)) eqn:E; [|repeat split; assumption].
      apply Nat.leb_le in E.
      destruct (build doc chg apply init (s_log _ _ s) (s_snaps _ _ s) (s_cache _ _ s) n) as [r c] eqn:B.
      destruct (build_transparent _ _ _ _ _ _ Hs Hc E B) as (Hn & Hd & Hc').
      repeat split; cbn [s_log s_snaps s_cache s_out]; try assumption.
      constructor; [|exact Hs]. split; [rewrite Hn; exact E|rewrite Hn; exact Hd].
    - repeat split; cbn [s_log s_snaps s_cache s_out]; try assumption.
    - destruct (n <=? length (s_log _ _ s)) eqn:E; [|repeat split; assumption].
      apply Nat.leb_le in E.
      destruct (build doc chg apply init (s_log _ _ s) (s_snaps _ _ s) (s_cache _ _ s) n) as [r c] eqn:B.
      destruct (build_transparent _ _ _ _ _ _ Hs Hc E B) as (Hn & Hd & Hc').
      repeat split; cbn [s_log s_snaps s_cache s_out]; try assumption.
      constructor; [|exact Ho]. cbn [fst snd]. split; assumption.
  Qed.

  Lemma sys0_inv : SInv (sys0 doc chg).
  Proof. repeat split; cbn; constructor. Qed.

  Lemma snap_run_inv : forall ops s0, SInv s0 -> SInv (fold_left (sstep doc chg apply init) ops s0).
  Proof.
    induction ops as [|o r IH]; intros s0 H0; cbn [fold_left].
    - exact H0.
    - apply IH. apply sstep_inv. exact H0.
  Qed.

  Theorem snapshot_cache_transparent : forall ops,
    let s := fold_left (sstep doc chg apply init) ops (sys0 doc chg) in
    forall n d, In (n, d) (s_out _ _ s) -> d = replay (s_log _ _ s) n.
  Proof.
    intros ops s n d Hin.
    destruct (snap_run_inv ops _ sys0_inv) as (_ & _ & Ho). rewrite Forall_forall in Ho.
    destruct (Ho _ Hin) as [_ Hd]. exact Hd.
  Qed.
End Proofs.

(* ---- the guard is needed: without `serverSeq < cached.ServerSeq` a rebuild at an older
   sequence returns the newer cached document ---- *)
Definition snoc (d : list nat) (c : nat) : list nat := d ++ [c].

Lemma unguarded_refuted :
  exists (log : list nat) (n : nat) (cache : option (entry (list nat))),
    cache_ok (list nat) nat snoc [] log cache /\ n <= length log /\
    edoc (fst (build_unguarded (list nat) nat snoc [] log [] cache n))
      <> replay (list nat) nat snoc [] log n.
Proof.
  exists [7; 8], 1, (Some (mkEntry 2 [7; 8])).
  split; [split; [cbn; lia|reflexivity]|]. split; [cbn; lia|].
  cbv. discriminate.
Qed.

Example guarded_on_the_witness :
  edoc (fst (build (list nat) nat snoc [] [7; 8] [] (Some (mkEntry 2 [7; 8])) 1)) = [7].
Proof. reflexivity. Qed.
