(* GCWitness.v — finding P4 on the RGAList model: purging a tombstone whose removal
   every client has seen is NOT always unobservable.  A tombstone acts as a stopper
   for the skip rule of later inserts that are concurrent with its right
   neighbours; once it is purged such an insert lands further right. *)
From YV Require Import Base.Ticket Crdt.TextRGA Crdt.RGAList.
Open Scope Z_scope.

Definition tk (l : Z) (a : N) := mkT l a 0%N.
Definition obind {A B} (o : option A) (f : A -> option B) := match o with Some x => f x | None => None end.

(* [100; 200; 300] written by actor 1 *)
Definition p4_base :=
  obind (insert_after empty_rga initial_ticket (tk 1 1) 100 (tk 1 1)) (fun g =>
  obind (insert_after g (tk 1 1) (tk 2 1) 200 (tk 2 1)) (fun g =>
  insert_after g (tk 2 1) (tk 3 1) 300 (tk 3 1))).

(* X inserts 250 after 200 with lamport 10; A deletes 200 at lamport 5; everybody has seen both *)
Definition p4_shared :=
  obind p4_base (fun g => obind (insert_after g (tk 2 1) (tk 10 9) 250 (tk 10 9)) (fun g => delete_by_created g (tk 2 1) (tk 5 7))).

(* M saw the delete but not yet 250 and inserts 150 after 100 at lamport 6; the insert arrives at
   a replica that still has the tombstone of 200, and at one that has purged it *)
Definition p4_without_purge := option_map visible (obind p4_shared (fun g => insert_after g (tk 1 1) (tk 6 8) 150 (tk 6 8))).
Definition p4_with_purge := option_map visible (obind p4_shared (fun g => obind (purge_elem g (tk 2 1)) (fun g => insert_after g (tk 1 1) (tk 6 8) 150 (tk 6 8)))).

Theorem purged_stopper_changes_order :
  p4_without_purge = Some [100; 150; 250; 300] /\ p4_with_purge = Some [100; 250; 150; 300].
Proof. split; vm_compute; reflexivity. Qed.

(* ------------------------------------------------------------------ *)
(* finding P42 (repaired): the position a LOSING move creates.  Two clients move the same element
   concurrently; the replica that sees the newer move (W) first creates the older move's (L's)
   position dead on arrival.  L's author, who has not seen W yet, holds that position live and may
   anchor its next operation on it; so the position may only be purged once everybody has seen W
   (it carries W's ticket), not once everybody has seen L (it used to carry L's own ticket). *)
Definition mv_base :=
  obind (insert_after empty_rga initial_ticket (tk 1 1) 10 (tk 1 1)) (fun g =>
  insert_after g (tk 1 1) (tk 2 1) 20 (tk 2 1)).
Definition mv_L := tk 5 1.      (* actor 1 moves 10 behind 20 *)
Definition mv_W := tk 6 2.      (* actor 2 does the same, later ticket *)
Definition mv_WL := obind mv_base (fun g => obind (move_after g (tk 2 1) (tk 1 1) mv_W) (fun g => move_after g (tk 2 1) (tk 1 1) mv_L)).
Definition mv_LW := obind mv_base (fun g => obind (move_after g (tk 2 1) (tk 1 1) mv_L) (fun g => move_after g (tk 2 1) (tk 1 1) mv_W)).

Definition removed_of (g : option rga) (p : ticket) : option (option ticket) :=
  obind g (fun g => option_map sl_removed (find (fun s => teqb (sl_pos s) p) (slots g))).

(* actor 1's next operation: insert 30 after the position its own move created *)
Definition mv_next (g : rga) := insert_after g mv_L (tk 6 1) 30 (tk 6 1).

Theorem losing_move_position_carries_winner :
  removed_of mv_WL mv_L = Some (Some mv_W) /\ removed_of mv_LW mv_L = Some (Some mv_W) /\
  option_map visible (obind mv_WL mv_next) = Some [20; 10; 30] /\
  option_map visible (obind mv_LW mv_next) = Some [20; 10; 30] /\
  (* had the position been purged when everybody had seen L only: *)
  obind mv_WL (fun g => mv_next (purge_slot g mv_L)) = None.
Proof. repeat split; vm_compute; reflexivity. Qed.

(* ------------------------------------------------------------------ *)
(* finding P4 on the text model (the same skip rule, rga_tree_split.go findNodeWithSplit):
   "abc" typed as three runs by actor 1; X types "x" after "b" (lamport 10); A deletes "b"
   (lamport 5); M, who saw the deletion but not "x", types "m" after "a" (lamport 6). *)
Definition tx_a := tk 1 1. Definition tx_b := tk 2 1. Definition tx_c := tk 3 1.
Definition tx_base : option (list tch) :=
  obind (edit PHead PHead [97%N] tx_a None []) (fun l =>
  obind (edit (PAfter tx_a 0) (PAfter tx_a 0) [98%N] tx_b None l) (fun l =>
  edit (PAfter tx_b 0) (PAfter tx_b 0) [99%N] tx_c None l)).
Definition tx_X l := edit (PAfter tx_b 0) (PAfter tx_b 0) [120%N] (tk 10 9) (Some [(1%N, 3); (9%N, 10)]) l.
Definition tx_A l := edit (PAfter tx_a 0) (PAfter tx_b 0) [] (tk 5 7) (Some [(1%N, 3); (7%N, 5)]) l.
Definition tx_M l := edit (PAfter tx_a 0) (PAfter tx_a 0) [109%N] (tk 6 8) (Some [(1%N, 3); (7%N, 5); (8%N, 6)]) l.
Definition tx_shared := obind (obind tx_base tx_X) tx_A.
Definition tx_without_purge := option_map TextRGA.visible (obind tx_shared tx_M).
Definition tx_with_purge := option_map TextRGA.visible (obind tx_shared (fun l => tx_M (purge_run tx_b 0 1 l))).

Theorem text_purged_stopper_changes_order :
  tx_without_purge = Some [97; 109; 120; 99]%N /\ tx_with_purge = Some [97; 120; 109; 99]%N.
Proof. split; vm_compute; reflexivity. Qed.
