(* VVProofs.v — lemmas about Base/VV.v, all through [vget]. *)
From YV Require Import Base.VV.

Lemma vget_vset_same v a x : vget (vset v a x) a = Some x.
Proof.
  induction v as [|[k y] r IH]; cbn [vset vget].
  - now rewrite N.eqb_refl.
  - destruct (N.eqb k a) eqn:E.
    + cbn [vget]. now rewrite N.eqb_refl.
    + destruct (N.ltb a k); cbn [vget].
      * now rewrite N.eqb_refl.
      * now rewrite E.
Qed.

Lemma vget_vset_other v a x b : a <> b -> vget (vset v a x) b = vget v b.
Proof.
  intros Hab. induction v as [|[k y] r IH]; cbn [vset vget].
  - destruct (N.eqb_spec a b); [contradiction|reflexivity].
  - destruct (N.eqb_spec k a) as [->|Hka].
    + cbn [vget]. destruct (N.eqb_spec a b); [contradiction|reflexivity].
    + destruct (N.ltb a k); cbn [vget].
      * destruct (N.eqb_spec a b); [contradiction|reflexivity].
      * destruct (N.eqb k b); [reflexivity|exact IH].
Qed.

Lemma vget_vset v a x b :
  vget (vset v a x) b = if N.eqb a b then Some x else vget v b.
Proof.
  destruct (N.eqb_spec a b) as [->|H].
  - apply vget_vset_same.
  - now apply vget_vset_other.
Qed.

Lemma vget0_vset v a x b :
  vget0 (vset v a x) b = if N.eqb a b then x else vget0 v b.
Proof. unfold vget0. rewrite vget_vset. now destruct (N.eqb a b). Qed.

Lemma vget_in v a x : vget v a = Some x -> In (a, x) v.
Proof.
  induction v as [|[k y] r IH]; cbn [vget]; [discriminate|].
  destruct (N.eqb_spec k a) as [->|H]; intros E.
  - inversion E; subst. now left.
  - right. auto.
Qed.

Lemma in_vget v a x : In (a, x) v -> exists y, vget v a = Some y.
Proof.
  induction v as [|[k y] r IH]; cbn [vget]; [contradiction|].
  intros [E|H].
  - inversion E; subst. rewrite N.eqb_refl. eauto.
  - destruct (N.eqb k a); eauto.
Qed.

(* ---- vmax --------------------------------------------------------------- *)

Definition vmax_step (acc : vv) (kx : actor * Z) : vv :=
  match vget acc (fst kx) with
  | Some y => vset acc (fst kx) (Z.max y (snd kx))
  | None => vset acc (fst kx) (snd kx)
  end.

Lemma vmax_unfold v w : vmax v w = fold_left vmax_step w v.
Proof. reflexivity. Qed.

Lemma vmax_step_ge acc kx b x :
  vget acc b = Some x -> exists y, vget (vmax_step acc kx) b = Some y /\ x <= y.
Proof.
  intros H. unfold vmax_step. destruct kx as [k z]; cbn [fst snd].
  destruct (vget acc k) as [y0|] eqn:E; rewrite vget_vset;
    destruct (N.eqb_spec k b) as [->|Hn].
  - rewrite H in E. inversion E; subst. eexists; split; [reflexivity|lia].
  - exists x; split; [assumption|lia].
  - congruence.
  - exists x; split; [assumption|lia].
Qed.

Lemma vmax_fold_ge w : forall acc b x,
  vget acc b = Some x -> exists y, vget (fold_left vmax_step w acc) b = Some y /\ x <= y.
Proof.
  induction w as [|kx w IH]; cbn [fold_left]; intros acc b x H.
  - exists x; split; [assumption|lia].
  - destruct (vmax_step_ge acc kx b x H) as (y & Hy & Hle).
    destruct (IH _ _ _ Hy) as (z & Hz & Hle2). exists z; split; [assumption|lia].
Qed.

Lemma vmax_ge_left v w b x :
  vget v b = Some x -> exists y, vget (vmax v w) b = Some y /\ x <= y.
Proof. rewrite vmax_unfold. apply vmax_fold_ge. Qed.

Lemma vmax_step_in acc k z :
  exists y, vget (vmax_step acc (k, z)) k = Some y /\ z <= y.
Proof.
  unfold vmax_step; cbn [fst snd]. destruct (vget acc k) as [y0|];
    rewrite vget_vset_same; eexists; split; try reflexivity; lia.
Qed.

Lemma vmax_ge_right v w b x :
  In (b, x) w -> exists y, vget (vmax v w) b = Some y /\ x <= y.
Proof.
  rewrite vmax_unfold. revert v.
  induction w as [|kx w IH]; cbn [fold_left]; intros v Hin; [contradiction|].
  destruct Hin as [->|Hin].
  - destruct (vmax_step_in v b x) as (y & Hy & Hle).
    destruct (vmax_fold_ge w _ _ _ Hy) as (z & Hz & Hle2).
    exists z; split; [assumption|lia].
  - now apply IH.
Qed.

Lemma vmax_ge0_left v w b : vv_nonneg v -> vget0 v b <= vget0 (vmax v w) b \/ vget v b = None.
Proof.
  intros _. unfold vget0 at 1. destruct (vget v b) as [x|] eqn:E; [left|now right].
  destruct (vmax_ge_left v w b x E) as (y & Hy & Hle). unfold vget0. now rewrite Hy.
Qed.

(* keys never disappear and new bindings come from one of the two sides *)
Lemma vmax_step_source acc kx b y :
  vget (vmax_step acc kx) b = Some y ->
  (exists x, vget acc b = Some x /\ x <= y) \/ (b = fst kx /\ snd kx <= y).
Proof.
  unfold vmax_step. destruct kx as [k z]; cbn [fst snd].
  destruct (vget acc k) as [y0|] eqn:E; rewrite vget_vset;
    destruct (N.eqb_spec k b) as [->|Hn]; intros H.
  - inversion H; subst. left. exists y0. split; [assumption|lia].
  - left. exists y. split; [assumption|lia].
  - inversion H; subst. right. split; [reflexivity|lia].
  - left. exists y. split; [assumption|lia].
Qed.

Lemma vmax_nonneg v w :
  vv_nonneg v -> (forall k x, In (k, x) w -> 0 <= x) -> vv_nonneg (vmax v w).
Proof.
  rewrite vmax_unfold. revert v.
  induction w as [|[k z] w IH]; cbn [fold_left]; intros v Hv Hw; [exact Hv|].
  apply IH.
  - intros b y H. destruct (vmax_step_source _ _ _ _ H) as [(x & Hx & Hle)|[-> Hle]].
    + specialize (Hv _ _ Hx). lia.
    + cbn [snd] in Hle. specialize (Hw k z (or_introl eq_refl)). lia.
  - intros k' x' Hin. apply (Hw k' x'). now right.
Qed.

Lemma vset_nonneg v a x : vv_nonneg v -> 0 <= x -> vv_nonneg (vset v a x).
Proof.
  intros Hv Hx b y. rewrite vget_vset. destruct (N.eqb a b); intros H.
  - inversion H; subst; assumption.
  - eapply Hv; eassumption.
Qed.

Lemma vv_nonneg_in v : vv_nonneg v -> forall k x, vget v k = Some x -> 0 <= x.
Proof. auto. Qed.

(* ---- min_vv ------------------------------------------------------------- *)

Lemma min_for_key_le_acc vs k : forall acc, 0 <= acc -> (forall v, In v vs -> vv_nonneg v) ->
  0 <= min_for_key vs k acc <= acc.
Proof.
  induction vs as [|v r IH]; cbn [min_for_key]; intros acc Hacc Hnn; [lia|].
  destruct (vget v k) as [x|] eqn:E; [|lia].
  assert (0 <= x) by (eapply (Hnn v); [now left|eassumption]).
  specialize (IH (Z.min acc x)). 
  assert (0 <= Z.min acc x) by lia.
  specialize (IH H0 (fun v' Hv' => Hnn v' (or_intror Hv'))). lia.
Qed.

Lemma min_for_key_le_member vs k : forall acc r, 0 <= acc ->
  (forall v, In v vs -> vv_nonneg v) -> In r vs ->
  min_for_key vs k acc <= vget0 r k.
Proof.
  induction vs as [|v rest IH]; cbn [min_for_key]; intros acc r Hacc Hnn Hin; [contradiction|].
  destruct (vget v k) as [x|] eqn:E.
  - assert (Hx : 0 <= x) by (eapply (Hnn v); [now left|eassumption]).
    destruct Hin as [->|Hin].
    + unfold vget0. rewrite E.
      pose proof (min_for_key_le_acc rest k (Z.min acc x) ltac:(lia)
                    (fun v' Hv' => Hnn v' (or_intror Hv'))). lia.
    + apply IH; [lia| |assumption]. intros v' Hv'. apply Hnn. now right.
  - (* some vector lacks the key: result 0 *)
    unfold vget0. destruct (vget r k) as [y|] eqn:Er; [|lia].
    assert (vv_nonneg r) by (apply Hnn; assumption). specialize (H _ _ Er). lia.
Qed.

Lemma fold_vset_get (f : actor -> Z) ks : forall acc b,
  vget (fold_left (fun acc k => vset acc k (f k)) ks acc) b =
  if existsb (N.eqb b) ks then Some (f b) else vget acc b.
Proof.
  induction ks as [|k ks IH]; cbn [fold_left existsb]; intros acc b; [reflexivity|].
  rewrite IH. destruct (existsb (N.eqb b) ks) eqn:Ex.
  - now rewrite orb_true_r.
  - rewrite orb_false_r. rewrite vget_vset. rewrite (N.eqb_sym b k).
    destruct (N.eqb_spec k b) as [->|]; reflexivity.
Qed.

Lemma min_vv_get vs b :
  vget (min_vv vs) b =
  if existsb (N.eqb b) (all_keys vs) then Some (min_for_key vs b max_int64) else None.
Proof. unfold min_vv. rewrite fold_vset_get. reflexivity. Qed.

(* The property-level statement: the minimum handed out never exceeds what
   any of the vectors it was computed from says (absent = 0). *)
Lemma min_vv_never_overstates vs r a :
  (forall v, In v vs -> vv_nonneg v) -> In r vs -> vget0 (min_vv vs) a <= vget0 r a.
Proof.
  intros Hnn Hin. unfold vget0 at 1. rewrite min_vv_get.
  destruct (existsb (N.eqb a) (all_keys vs)).
  - apply min_for_key_le_member; [unfold max_int64; lia|assumption|assumption].
  - unfold vget0. destruct (vget r a) as [y|] eqn:E; [|lia].
    apply (Hnn r Hin) in E. lia.
Qed.

Lemma min_vv_nonneg vs : (forall v, In v vs -> vv_nonneg v) -> vv_nonneg (min_vv vs).
Proof.
  intros Hnn b x. rewrite min_vv_get. destruct (existsb _ _); [|discriminate].
  intros E; inversion E; subst.
  pose proof (min_for_key_le_acc vs b max_int64 ltac:(unfold max_int64; lia) Hnn). lia.
Qed.

(* a purge decision taken with the minimum is justified by every member *)
Lemma min_vv_covers_all vs t r :
  (forall v, In v vs -> vv_nonneg v) -> In r vs -> 0 < lam t ->
  vcovers (min_vv vs) t = true -> vcovers r t = true.
Proof.
  intros Hnn Hin Hpos. unfold vcovers.
  destruct (vget (min_vv vs) (act t)) as [x|] eqn:E; [|discriminate].
  intros Hle. apply Z.leb_le in Hle.
  pose proof (min_vv_never_overstates vs r (act t) Hnn Hin) as H.
  unfold vget0 in H. rewrite E in H.
  destruct (vget r (act t)) as [y|]; [apply Z.leb_le; lia|lia].
Qed.
