(* ERHTDecode.v — rebuilding an object from a snapshot.  The encoder lists the members
   (tombstones included) in map order, i.e. in no particular order; the decoder replays
   Set for each.  Theorem: for every table whose linked member is the newest of its key
   (which every table built by Sets is), the rebuilt table has the same members with the
   same tombstones and positions, the same link for every linked key and shows the same
   value under every key — whatever order the members arrive in. *)
From Coq Require Import Permutation.
From YV Require Import Base.Ticket Crdt.ElemRHT Proofs.TicketProofs Proofs.ERHTProofs Proofs.ERHTCommute.

(* equal up to the representation of "never moved" (movedAt absent vs. movedAt = createdAt) *)
Definition neq (m n : rnode) : Prop :=
  rn_key m = rn_key n /\ rn_id m = rn_id n /\ rn_val m = rn_val n /\
  rn_removed m = rn_removed n /\ rn_positioned m = rn_positioned n.

Lemma neq_refl n : neq n n.
Proof. repeat split. Qed.
Lemma neq_sym m n : neq m n -> neq n m.
Proof. intros (A & B & C & D & E). repeat split; congruence. Qed.
Lemma neq_trans a b c : neq a b -> neq b c -> neq a c.
Proof. intros (A & B & C & D & E) (A' & B' & C' & D' & E'). repeat split; congruence. Qed.

(* the newest member of key k in a list *)
Definition bstep (k : N) (acc : option rnode) (n : rnode) : option rnode :=
  if N.eqb (rn_key n) k then
    match acc with
    | None => Some n
    | Some b => if tafter (rn_positioned n) (rn_positioned b) then Some n else Some b
    end
  else acc.
Definition best (l : list rnode) (k : N) : option rnode := fold_left (bstep k) l None.

Lemma best_snoc p n k : best (p ++ [n]) k = bstep k (best p k) n.
Proof. unfold best. now rewrite fold_left_app. Qed.

Lemma fold_bstep_in k l : forall acc b, fold_left (bstep k) l acc = Some b ->
  acc = Some b \/ (In b l /\ rn_key b = k).
Proof.
  induction l as [|n l IH]; intros acc b H; cbn [fold_left] in H; [now left|].
  destruct (IH _ _ H) as [E|[Hin Hk]]; [|right; split; [now right|exact Hk]].
  unfold bstep in E. destruct (N.eqb_spec (rn_key n) k) as [Hk|Hk]; [|now left].
  destruct acc as [b0|].
  - destruct (tafter _ _); [|now left]. injection E as <-. right. split; [now left|exact Hk].
  - injection E as <-. right. split; [now left|exact Hk].
Qed.

Lemma best_in l k b : best l k = Some b -> In b l /\ rn_key b = k.
Proof. intros H. destruct (fold_bstep_in k l None b H) as [E|E]; [discriminate|exact E]. Qed.

Lemma fold_bstep_none k l : forall acc, fold_left (bstep k) l acc = None ->
  acc = None /\ forall n, In n l -> rn_key n <> k.
Proof.
  induction l as [|n l IH]; intros acc H; cbn [fold_left] in H; [split; [exact H|intros ? []]|].
  destruct (IH _ H) as [E Hall]. unfold bstep in E.
  destruct (N.eqb_spec (rn_key n) k) as [Hk|Hk].
  - destruct acc as [b0|]; [destruct (tafter _ _)|]; discriminate.
  - split; [exact E|]. intros n' [<-|Hin]; [exact Hk|now apply Hall].
Qed.

Lemma best_none l k : best l k = None -> forall n, In n l -> rn_key n <> k.
Proof. intros H. now destruct (fold_bstep_none k l None H). Qed.

(* a member that is newer than every other member of its key is the best one *)
Lemma fold_bstep_dom k w l : rn_key w = k ->
  forall acc,
  (forall n, In n l -> rn_key n = k -> n = w \/ tafter (rn_positioned w) (rn_positioned n) = true) ->
  match acc with
  | None => In w l
  | Some b => b = w \/ (In w l /\ tafter (rn_positioned w) (rn_positioned b) = true)
  end ->
  fold_left (bstep k) l acc = Some w.
Proof.
  intros Hkw. induction l as [|n l IH]; intros acc Hdom Hacc; cbn [fold_left].
  - destruct acc as [b|]; [|destruct Hacc]. destruct Hacc as [->|[[] _]]. reflexivity.
  - apply IH; [intros n' Hn'; apply Hdom; now right|].
    assert (Hw_later : tafter (rn_positioned w) (rn_positioned n) = true -> In w (n :: l) -> In w l).
    { intros T [E|Hin]; [|exact Hin]. subst n. rewrite tafter_irrefl' in T. discriminate. }
    unfold bstep. destruct (N.eqb_spec (rn_key n) k) as [Hk|Hk].
    + destruct (Hdom n (or_introl eq_refl) Hk) as [->|T].
      * (* n = w *)
        destruct acc as [b|]; [|now left].
        destruct Hacc as [->|[_ T]]; [rewrite tafter_irrefl'; now left|rewrite T; now left].
      * destruct acc as [b|].
        -- destruct Hacc as [->|[Hin Tb]].
           ++ assert (N0 : tafter (rn_positioned n) (rn_positioned w) = false).
              { apply tafter_false. apply tafter_spec in T. now apply tgt_asym. }
              rewrite N0. now left.
           ++ destruct (tafter (rn_positioned n) (rn_positioned b)); right; (split; [now apply Hw_later|assumption]).
        -- right. split; [now apply Hw_later|exact T].
    + destruct acc as [b|].
      * destruct Hacc as [->|[Hin Tb]]; [now left|]. right. split; [|exact Tb].
        destruct Hin as [E|Hin]; [subst n; contradiction|exact Hin].
      * destruct Hacc as [E|Hin]; [subst n; contradiction|exact Hin].
Qed.

Lemma best_dom l k w : In w l -> rn_key w = k ->
  (forall n, In n l -> rn_key n = k -> n <> w -> tafter (rn_positioned w) (rn_positioned n) = true) ->
  (forall a b : rnode, {a = b} + {a <> b}) ->
  best l k = Some w.
Proof.
  intros Hin Hk Hdom Dec. unfold best. apply fold_bstep_dom; [exact Hk| |exact Hin].
  intros n Hn Hkn. destruct (Dec n w) as [->|Hne]; [now left|right; now apply Hdom].
Qed.

(* ------------------------------------------------------------------ *)
(* lookups in lists without duplicate ids                              *)
Lemma nget_In l id n : nget l id = Some n -> In n l /\ rn_id n = id.
Proof.
  induction l as [|x l IH]; cbn [nget]; [discriminate|].
  destruct (teqb (rn_id x) id) eqn:E.
  - intros [= ->]. apply teqb_spec in E. split; [now left|exact E].
  - intros H. destruct (IH H) as [A B]. split; [now right|exact B].
Qed.

Lemma In_nget l n : NoDup (map rn_id l) -> In n l -> nget l (rn_id n) = Some n.
Proof.
  induction l as [|x l IH]; intros Hnd Hin; [destruct Hin|].
  cbn [map] in Hnd. apply NoDup_cons_iff in Hnd. destruct Hnd as [Hni Hnd]. cbn [nget].
  destruct Hin as [->|Hin]; [now rewrite teqb_refl|].
  destruct (teqb (rn_id x) (rn_id n)) eqn:E; [|now apply IH].
  apply teqb_spec in E. exfalso. apply Hni. rewrite E. now apply in_map.
Qed.

Lemma nodup_id_inj l a b : NoDup (map rn_id l) -> In a l -> In b l -> rn_id a = rn_id b -> a = b.
Proof.
  intros Hnd Ha Hb E. pose proof (In_nget l a Hnd Ha) as A. pose proof (In_nget l b Hnd Hb) as B.
  rewrite E in A. congruence.
Qed.

(* what the encoder may hand over: distinct ids; a member that is not tombstoned is newer than
   every other member of its key *)
Record snap_list (L : list rnode) : Prop := {
  sl_nodup : NoDup (map rn_id L);
  sl_live : forall a b, In a L -> In b L -> rn_key a = rn_key b -> a <> b -> rn_removed a = None ->
            tafter (rn_positioned a) (rn_positioned b) = true
}.

(* the table after the members p have been put back *)
Record J (p : list rnode) (d : erht) : Prop := {
  j_some : forall id m, nget (nodes d) id = Some m -> exists n, In n p /\ rn_id n = id /\ neq m n;
  j_none : forall id, nget (nodes d) id = None -> forall n, In n p -> rn_id n <> id;
  j_link : forall k, kget (by_key d) k = option_map rn_id (best p k)
}.

Lemma J_empty : J [] empty_erht.
Proof. constructor; cbn; intros; try discriminate; auto. Qed.

Lemma J_linked L p d k b : snap_list L -> (forall x, In x p -> In x L) -> J p d -> best p k = Some b ->
  exists m, linked d k = Some m /\ neq m b.
Proof.
  intros [Hnd _] Hsub [Js Jn Jl] Hb. destruct (best_in _ _ _ Hb) as [Hin Hk].
  unfold linked. rewrite Jl, Hb. cbn [option_map].
  destruct (nget (nodes d) (rn_id b)) as [m|] eqn:Em.
  - exists m. split; [reflexivity|]. destruct (Js _ _ Em) as (n & Hn & Hid & Hneq).
    assert (n = b) by (eapply nodup_id_inj; eauto). now subst n.
  - exfalso. eapply Jn; eauto.
Qed.

Lemma J_step L p n d : snap_list L -> (forall x, In x (p ++ [n]) -> In x L) -> NoDup (map rn_id (p ++ [n])) ->
  J p d -> J (p ++ [n]) (decode_step d n).
Proof.
  intros HL Hsub Hnd HJ.
  assert (HsubP : forall x, In x p -> In x L) by (intros x Hx; apply Hsub, in_or_app; now left).
  assert (HnL : In n L) by (apply Hsub, in_or_app; right; now left).
  assert (Hn_new : forall x, In x p -> rn_id x <> rn_id n).
  { rewrite map_app in Hnd. cbn [map] in Hnd. apply NoDup_remove_2 in Hnd. rewrite app_nil_r in Hnd.
    intros x Hx E. apply Hnd. rewrite <- E. now apply in_map. }
  pose proof HJ as [Js Jn Jl].
  set (won := mkRN (rn_key n) (rn_id n) (rn_val n) (Some (rn_positioned n)) (rn_removed n)).
  assert (Hwon : neq won n) by (repeat split).
  (* the three shapes of the result *)
  assert (Shape_new : forall nodes' bk' x,
            neq x n -> rn_id x = rn_id n ->
            (forall id, nget nodes' id = if teqb (rn_id n) id then Some x else nget (nodes d) id) ->
            (forall k, kget bk' k = option_map rn_id (best (p ++ [n]) k)) ->
            J (p ++ [n]) (mkERHT bk' nodes')).
  { intros nodes' bk' x Hx Hxid Hget Hk. constructor; cbn [nodes by_key].
    - intros id m Hm. rewrite Hget in Hm. destruct (teqb (rn_id n) id) eqn:E.
      + apply teqb_spec in E. injection Hm as <-. exists n. split; [apply in_or_app; right; now left|]. split; [exact E|exact Hx].
      + destruct (Js _ _ Hm) as (n0 & H0 & H1 & H2). exists n0. split; [apply in_or_app; now left|]. split; assumption.
    - intros id Hm n0 Hn0. rewrite Hget in Hm. destruct (teqb (rn_id n) id) eqn:E; [discriminate|].
      apply in_app_or in Hn0. destruct Hn0 as [Hn0|[<-|[]]].
      + eapply Jn; eauto.
      + intros F. rewrite F, teqb_refl in E. discriminate.
    - exact Hk. }
  unfold decode_step. fold won.
  destruct (best p (rn_key n)) as [b|] eqn:Hb.
  - destruct (J_linked L p d _ b HL HsubP HJ Hb) as (old & Hold & Holdb). rewrite Hold.
    destruct (best_in _ _ _ Hb) as [Hbin Hbk].
    assert (Hbn : b <> n) by (intros ->; eapply Hn_new; eauto).
    destruct Holdb as (Ok & Oid & Ov & Or & Op).
    destruct (tafter (rn_positioned n) (rn_positioned old)) eqn:Hwin.
    + (* the member wins against what is linked: that one is a tombstone already *)
      assert (Hrm : rn_removed old <> None).
      { intros Hlive. rewrite Or in Hlive.
        pose proof (sl_live L HL b n (HsubP _ Hbin) HnL Hbk Hbn Hlive) as T.
        rewrite Op in Hwin. apply tafter_spec in T. apply tafter_spec in Hwin. exact (tgt_asym _ _ T Hwin). }
      destruct (rn_removed old) as [r|] eqn:Er; [|congruence].
      assert (Hgetold : nget (nodes d) (rn_id old) = Some old).
      { unfold linked in Hold. rewrite Jl, Hb in Hold. cbn [option_map] in Hold. now rewrite Oid. }
      apply (Shape_new _ _ won Hwon eq_refl).
      * intros id. rewrite !nget_nset. cbn [rn_id won]. destruct (teqb (rn_id n) id); [reflexivity|].
        destruct (teqb (rn_id old) id) eqn:E; [|reflexivity]. apply teqb_spec in E. now rewrite <- E.
      * intros k. rewrite kget_kset, best_snoc. unfold bstep. destruct (N.eqb_spec (rn_key n) k) as [<-|Hk].
        -- rewrite Hb. rewrite <- Op, Hwin. reflexivity.
        -- apply Jl.
    + (* the member loses: it is a tombstone, and stays as it was *)
      assert (Hrm : rn_removed n <> None).
      { intros Hlive.
        pose proof (sl_live L HL n b HnL (HsubP _ Hbin) (eq_sym Hbk) (not_eq_sym Hbn) Hlive) as T.
        rewrite Op in Hwin. congruence. }
      destruct (rn_removed n) as [r|] eqn:Er; [|congruence].
      apply (Shape_new _ _ n (neq_refl n) eq_refl).
      * intros id. now rewrite nget_nset.
      * intros k. rewrite best_snoc. unfold bstep. destruct (N.eqb_spec (rn_key n) k) as [<-|Hk].
        -- rewrite Hb. rewrite <- Op, Hwin. rewrite Jl, Hb. reflexivity.
        -- apply Jl.
  - (* first member of its key *)
    assert (Hl : linked d (rn_key n) = None) by (unfold linked; now rewrite Jl, Hb).
    rewrite Hl. apply (Shape_new _ _ won Hwon eq_refl).
    + intros id. rewrite nget_nset. reflexivity.
    + intros k. rewrite kget_kset, best_snoc. unfold bstep. destruct (N.eqb_spec (rn_key n) k) as [<-|Hk].
      * now rewrite Hb.
      * apply Jl.
Qed.

Lemma NoDup_app_l {A} (a b : list A) : NoDup (a ++ b) -> NoDup a.
Proof.
  induction a as [|x a IH]; cbn; intros H; [constructor|].
  apply NoDup_cons_iff in H. destruct H as [Hni H]. constructor; [|now apply IH].
  intros Hin. apply Hni, in_or_app. now left.
Qed.

Lemma J_fold L : snap_list L -> forall rest p d,
  (forall x, In x (p ++ rest) -> In x L) -> NoDup (map rn_id (p ++ rest)) -> J p d ->
  J (p ++ rest) (fold_left decode_step rest d).
Proof.
  intros HL. induction rest as [|n rest IH]; intros p d Hsub Hnd HJ; cbn [fold_left].
  - now rewrite app_nil_r.
  - replace (p ++ n :: rest) with ((p ++ [n]) ++ rest) in * by (rewrite <- app_assoc; reflexivity).
    apply IH; [exact Hsub|exact Hnd|].
    apply (J_step L); [exact HL| | |exact HJ].
    + intros x Hx. apply Hsub, in_or_app. now left.
    + rewrite map_app in Hnd. now apply NoDup_app_l in Hnd.
Qed.

(* ------------------------------------------------------------------ *)
(* the table a snapshot is taken from                                  *)
Lemma ticket_dec (a b : ticket) : {a = b} + {a <> b}.
Proof. decide equality; [apply N.eq_dec|apply N.eq_dec|apply Z.eq_dec]. Qed.
Lemma rnode_dec (a b : rnode) : {a = b} + {a <> b}.
Proof.
  decide equality; try (decide equality; apply ticket_dec); try apply ticket_dec; try apply Z.eq_dec; apply N.eq_dec.
Qed.

(* the linked member of a key is newer than every other member of that key *)
Record snap_inv (h : erht) : Prop := {
  si_nodup : NoDup (map rn_id (nodes h));
  si_newest : forall k w, linked h k = Some w -> forall n, In n (nodes h) -> rn_key n = k -> n <> w ->
              tafter (rn_positioned w) (rn_positioned n) = true
}.

Lemma linked_of_live h n : rht_wf h -> NoDup (map rn_id (nodes h)) -> In n (nodes h) -> rn_removed n = None ->
  linked h (rn_key n) = Some n.
Proof.
  intros [_ Hv _ _] Hnd Hin Hlive. pose proof (In_nget _ _ Hnd Hin) as G.
  unfold linked. now rewrite (Hv _ _ G Hlive).
Qed.

Lemma snap_list_of h : rht_wf h -> snap_inv h -> snap_list (nodes h).
Proof.
  intros Hwf [Hnd Hnew]. constructor; [exact Hnd|].
  intros a b Ha Hb Hk Hab Hlive. eapply Hnew; [now apply linked_of_live| exact Hb | now symmetry | now apply not_eq_sym].
Qed.

Lemma snap_list_perm L L' : Permutation L L' -> snap_list L -> snap_list L'.
Proof.
  intros HP [Hnd Hl]. constructor.
  - eapply Permutation_NoDup; [apply Permutation_map; exact HP|exact Hnd].
  - intros a b Ha Hb. apply Hl; eapply Permutation_in; try (symmetry; exact HP); assumption.
Qed.

Definition same_node (a b : option rnode) : Prop :=
  match a, b with Some m, Some n => neq m n | None, None => True | _, _ => False end.

(* THE ROUND TRIP: members, links of linked keys and everything a reader sees survive, for every
   order in which the encoder may list the members *)
Theorem decode_roundtrip h l : rht_wf h -> snap_inv h -> Permutation l (nodes h) ->
  let d := rht_decode l in
  (forall id, same_node (nget (nodes d) id) (nget (nodes h) id)) /\
  (forall k w, linked h k = Some w -> exists m, linked d k = Some m /\ neq m w) /\
  (forall k, view d k = view h k).
Proof.
  intros Hwf Hinv HP d.
  pose proof (snap_list_of h Hwf Hinv) as HLh.
  assert (HL : snap_list l) by (eapply snap_list_perm; [symmetry; exact HP|exact HLh]).
  assert (HJ : J l d).
  { unfold d, rht_decode. change l with ([] ++ l) at 1. apply (J_fold l HL); [now intros x Hx|apply (sl_nodup l HL)|apply J_empty]. }
  pose proof HJ as [Js Jn Jl]. destruct Hinv as [Hnd Hnew]. pose proof Hwf as [Wl Wv Wm Wi].
  assert (In_l : forall x, In x l <-> In x (nodes h)).
  { intros x. split; intros Hx; eapply Permutation_in; try exact Hx; [exact HP|symmetry; exact HP]. }
  assert (Nodes : forall id, same_node (nget (nodes d) id) (nget (nodes h) id)).
  { intros id. destruct (nget (nodes h) id) as [n|] eqn:Eh.
    - destruct (nget_In _ _ _ Eh) as [Hin Hid]. destruct (nget (nodes d) id) as [m|] eqn:Ed.
      + destruct (Js _ _ Ed) as (n' & Hn' & Hid' & Hneq). cbn.
        assert (n' = n) by (eapply (nodup_id_inj (nodes h)); eauto; [now apply In_l|congruence]). now subst n'.
      + exfalso. eapply Jn; eauto. now apply In_l.
    - destruct (nget (nodes d) id) as [m|] eqn:Ed; [|exact I].
      destruct (Js _ _ Ed) as (n' & Hn' & Hid' & _). apply In_l in Hn'.
      pose proof (In_nget _ _ Hnd Hn') as G. rewrite Hid' in G. congruence. }
  assert (Links : forall k w, linked h k = Some w -> exists m, linked d k = Some m /\ neq m w).
  { intros k w Hw.
    assert (Hwin : In w (nodes h) /\ rn_key w = k).
    { unfold linked in Hw. destruct (kget (by_key h) k) as [id|] eqn:Ek; [|discriminate].
      destruct (Wl _ _ Ek) as (n0 & G & Hk0). rewrite G in Hw. injection Hw as <-.
      split; [now destruct (nget_In _ _ _ G)|exact Hk0]. }
    destruct Hwin as [Hwin Hwk].
    assert (Hb : best l k = Some w).
    { apply best_dom; [now apply In_l|exact Hwk| |exact rnode_dec].
      intros n Hn Hkn Hne. eapply Hnew; eauto. now apply In_l. }
    eapply (J_linked l); eauto. }
  split; [exact Nodes|]. split; [exact Links|].
  intros k. unfold view at 2. destruct (linked h k) as [w|] eqn:Hw.
  - destruct (Links _ _ Hw) as (m & Hm & (_ & _ & Hv & Hr & _)). unfold view. now rewrite Hm, Hr, Hv.
  - unfold view. destruct (linked d k) as [m|] eqn:Hm; [|reflexivity].
    (* a key that is not linked in h has tombstones only *)
    unfold linked in Hm. rewrite Jl in Hm. destruct (best l k) as [b|] eqn:Hb; [|discriminate].
    cbn [option_map] in Hm. destruct (Js _ _ Hm) as (n' & Hn' & Hid' & (_ & _ & _ & Hr & _)).
    destruct (best_in _ _ _ Hb) as [Hbin Hbk].
    assert (n' = b) by (eapply (nodup_id_inj l); eauto; apply (sl_nodup l HL)). subst n'.
    rewrite Hr. destruct (rn_removed b) eqn:Er; [reflexivity|].
    apply In_l in Hbin. pose proof (linked_of_live h b Hwf Hnd Hbin Er) as F. rewrite Hbk in F. congruence.
Qed.

(* in particular the encoder's order does not matter *)
Corollary decode_order_independent h l1 l2 : rht_wf h -> snap_inv h ->
  Permutation l1 (nodes h) -> Permutation l2 (nodes h) ->
  (forall id, same_node (nget (nodes (rht_decode l1)) id) (nget (nodes (rht_decode l2)) id)) /\
  (forall k, view (rht_decode l1) k = view (rht_decode l2) k).
Proof.
  intros Hwf Hinv H1 H2.
  destruct (decode_roundtrip h l1 Hwf Hinv H1) as (N1 & _ & V1).
  destruct (decode_roundtrip h l2 Hwf Hinv H2) as (N2 & _ & V2).
  split.
  - intros id. specialize (N1 id). specialize (N2 id). unfold same_node in *.
    destruct (nget (nodes (rht_decode l1)) id), (nget (nodes (rht_decode l2)) id), (nget (nodes h) id); try tauto.
    eapply neq_trans; [exact N1|apply neq_sym; exact N2].
  - intros k. now rewrite V1, V2.
Qed.

(* ------------------------------------------------------------------ *)
(* the hypothesis is met by every table built by Sets                  *)
Lemma nset_ids_in l n i : In i (map rn_id (nset l n)) -> i = rn_id n \/ In i (map rn_id l).
Proof.
  induction l as [|x l IH]; cbn [nset map].
  - intros [<-|[]]. now left.
  - destruct (teqb (rn_id x) (rn_id n)) eqn:E; cbn [map].
    + intros [<-|H]; [now left|right; now right].
    + intros [<-|H]; [right; now left|]. destruct (IH H) as [->|H']; [now left|right; now right].
Qed.

Lemma nset_nodup l n : NoDup (map rn_id l) -> NoDup (map rn_id (nset l n)).
Proof.
  induction l as [|x l IH]; cbn [nset map]; intros Hnd.
  - constructor; [intros []|constructor].
  - apply NoDup_cons_iff in Hnd. destruct Hnd as [Hni Hnd].
    destruct (teqb (rn_id x) (rn_id n)) eqn:E; cbn [map].
    + apply teqb_spec in E. rewrite <- E. now constructor.
    + constructor; [|now apply IH]. intros Hin. destruct (nset_ids_in _ _ _ Hin) as [F|F]; [|contradiction].
      rewrite F, teqb_refl in E. discriminate.
Qed.

Lemma In_iff_nget l n : NoDup (map rn_id l) -> (In n l <-> nget l (rn_id n) = Some n).
Proof. intros Hnd. split; [now apply In_nget|intros H; now destruct (nget_In _ _ _ H)]. Qed.

Record built_inv (h : erht) : Prop := {
  bi_snap : snap_inv h;
  bi_linked : forall n, In n (nodes h) -> linked h (rn_key n) <> None
}.

Lemma built_empty : built_inv empty_erht.
Proof. constructor; [constructor; [constructor|intros k w H; discriminate]|intros n []]. Qed.

Lemma pos_remove n t : rn_positioned (fst (rn_remove n t)) = rn_positioned n.
Proof. unfold rn_positioned. destruct (rn_remove_same n t) as (_ & -> & _). destruct (rn_remove_same n t) as (-> & _). reflexivity. Qed.

Theorem pset_built h k id v : rht_wf h -> built_inv h -> fresh h id -> built_inv (pset h k id v).
Proof.
  intros Hwf [[Hnd Hnew] Hlk] Hf. pose proof Hwf as [Wl Wv Wm Wi]. pose proof Hf as [Hf1 Hf2].
  assert (Hnd' : NoDup (map rn_id (nodes (pset h k id v)))).
  { unfold pset, rht_set. destruct (linked h k) as [old|]; [destruct (tafter id (rn_positioned old))|]; cbn [nodes];
      repeat apply nset_nodup; exact Hnd. }
  (* every member of the new table: the new one, the touched old one, or an untouched one *)
  assert (Hlinks : forall k', linked (pset h k id v) k' =
            if N.eqb k k' then
              match linked h k with
              | None => Some (mkRN k id v (Some id) None)
              | Some old => if tafter id (rn_positioned old) then Some (mkRN k id v (Some id) None) else Some old
              end
            else linked h k').
  { intros k'. destruct (N.eqb_spec k k') as [<-|Hne]; [now apply linked_same|now apply linked_other]. }
  assert (Hmem : forall n, In n (nodes (pset h k id v)) ->
            (rn_id n = id /\ rn_key n = k /\ rn_positioned n = id) \/
            (exists n0, In n0 (nodes h) /\ rn_id n = rn_id n0 /\ rn_key n = rn_key n0 /\ rn_positioned n = rn_positioned n0)).
  { intros n Hin. apply (In_iff_nget _ _ Hnd') in Hin. revert Hin. unfold pset, rht_set.
    destruct (linked h k) as [old|] eqn:El.
    - assert (Hold : In old (nodes h)).
      { unfold linked in El. destruct (kget (by_key h) k); [|discriminate]. now destruct (nget_In _ _ _ El). }
      destruct (tafter id (rn_positioned old)) eqn:Hwin; cbn [nodes].
      + rewrite !nget_nset. cbn [rn_id].
        destruct (teqb id (rn_id n)) eqn:E1.
        * intros [= <-]. left. cbn. auto.
        * set (old' := match rn_removed old with None => fst (rn_remove old id) | Some _ => old end).
          assert (Ho : rn_id old' = rn_id old /\ rn_key old' = rn_key old /\ rn_positioned old' = rn_positioned old).
          { unfold old'. destruct (rn_removed old); [auto|]. destruct (rn_remove_same old id) as (A & _ & C).
            split; [exact A|]. split; [exact C|apply pos_remove]. }
          destruct Ho as (A & B & C). destruct (teqb (rn_id old') (rn_id n)) eqn:E2.
          -- intros [= <-]. right. exists old. auto.
          -- intros G. right. exists n. destruct (nget_In _ _ _ G). auto.
      + rewrite nget_nset.
        set (loser := fst (rn_remove (mkRN k id v None None) (rn_positioned old))).
        assert (Hl : rn_id loser = id /\ rn_key loser = k /\ rn_positioned loser = id).
        { unfold loser. destruct (rn_remove_same (mkRN k id v None None) (rn_positioned old)) as (A & _ & C).
          split; [exact A|]. split; [exact C|]. rewrite pos_remove. reflexivity. }
        destruct (teqb (rn_id loser) (rn_id n)) eqn:E1.
        * intros [= <-]. now left.
        * intros G. right. exists n. destruct (nget_In _ _ _ G). auto.
    - cbn [nodes]. rewrite nget_nset. cbn [rn_id]. destruct (teqb id (rn_id n)) eqn:E1.
      + intros [= <-]. left. cbn. auto.
      + intros G. right. exists n. destruct (nget_In _ _ _ G). auto. }
  assert (Hwin_total : forall old, linked h k = Some old -> tafter id (rn_positioned old) = false ->
            tafter (rn_positioned old) id = true).
  { intros old El Hlose.
    assert (Hne : rn_positioned old <> id).
    { unfold linked in El. destruct (kget (by_key h) k) as [lid|]; [|discriminate]. eapply Hf2; eauto. }
    destruct (tafter_total_b _ _ Hne) as [T|T]; [exact T|congruence]. }
  assert (Hlinked_in : forall k' w, linked (pset h k id v) k' = Some w -> In w (nodes (pset h k id v))).
  { intros k' w Hw. unfold linked in Hw. destruct (kget (by_key (pset h k id v)) k'); [|discriminate].
    now destruct (nget_In _ _ _ Hw). }
  constructor; [constructor; [exact Hnd'|]|].
  - intros k' w Hw n Hn Hkn Hne. rewrite Hlinks in Hw.
    destruct (Hmem n Hn) as [(Nid & Nk & Np)|(n0 & Hn0 & Nid & Nk & Np)].
    + (* n is the new member *)
      destruct (N.eqb_spec k k') as [<-|Hkk]; [|congruence].
      destruct (linked h k) as [old|] eqn:El.
      * destruct (tafter id (rn_positioned old)) eqn:Hwin.
        -- (* w is the new member as well: two members with one id *)
           injection Hw as <-. exfalso. apply Hne.
           apply (nodup_id_inj _ _ _ Hnd' Hn); [|now cbn].
           apply (Hlinked_in k). rewrite Hlinks, N.eqb_refl; rewrite ?El; rewrite ?Hwin; reflexivity.
        -- injection Hw as <-. rewrite Np. now apply Hwin_total.
      * injection Hw as <-. exfalso. apply Hne.
        apply (nodup_id_inj _ _ _ Hnd' Hn); [|now cbn].
        apply (Hlinked_in k). rewrite Hlinks, N.eqb_refl; rewrite ?El; reflexivity.
    + (* n stands for the member n0 of h *)
      rewrite Np. rewrite Nk in Hkn.
      destruct (N.eqb_spec k k') as [<-|Hkk].
      * destruct (linked h k) as [old|] eqn:El.
        -- assert (Hdom : n0 = old \/ tafter (rn_positioned old) (rn_positioned n0) = true).
           { destruct (rnode_dec n0 old) as [->|Hd]; [now left|right; eapply Hnew; eauto]. }
           destruct (tafter id (rn_positioned old)) eqn:Hwin; injection Hw as <-.
           ++ cbn [rn_positioned rn_moved]. destruct Hdom as [->|T]; [exact Hwin|eapply tafter_trans_b; eauto].
           ++ destruct Hdom as [->|T]; [|exact T].
              (* n has the id of the linked member, and is in the new table: it is that member *)
              exfalso. apply Hne. apply (nodup_id_inj _ _ _ Hnd' Hn); [|exact Nid].
              apply (Hlinked_in k). rewrite Hlinks, N.eqb_refl; rewrite ?El; rewrite ?Hwin; reflexivity.
        -- exfalso. apply (Hlk n0 Hn0). now rewrite Hkn.
      * (* another key: its link and its members are untouched *)
        assert (Hn_same : n = n0).
        { (* members of other keys are not rewritten *)
          apply (In_iff_nget _ _ Hnd') in Hn. revert Hn. unfold pset, rht_set.
          assert (Hkn0 : rn_key n0 <> k) by congruence.
          destruct (linked h k) as [old|] eqn:El.
          - assert (Hok : rn_key old = k).
            { unfold linked in El. destruct (kget (by_key h) k) as [lid|] eqn:Ek; [|discriminate].
              destruct (Wl _ _ Ek) as (x & G & Hx). congruence. }
            destruct (tafter id (rn_positioned old)); cbn [nodes].
            + set (old' := match rn_removed old with None => fst (rn_remove old id) | Some _ => old end).
              assert (Hok' : rn_key old' = k).
              { unfold old'. destruct (rn_removed old); [exact Hok|]. now destruct (rn_remove_same old id) as (_ & _ & ->). }
              rewrite !nget_nset. cbn [rn_id]. destruct (teqb id (rn_id n)) eqn:E1.
              * intros [= E]. exfalso. apply Hkn0. rewrite <- Nk, <- E. reflexivity.
              * destruct (teqb (rn_id old') (rn_id n)) eqn:E2.
                -- intros [= E]. exfalso. apply Hkn0. rewrite <- Nk, <- E. exact Hok'.
                -- intros G. destruct (nget_In _ _ _ G) as [G1 _]. eapply (nodup_id_inj (nodes h)); eauto.
            + set (loser := fst (rn_remove (mkRN k id v None None) (rn_positioned old))).
              assert (Hlk' : rn_key loser = k).
              { unfold loser. now destruct (rn_remove_same (mkRN k id v None None) (rn_positioned old)) as (_ & _ & ->). }
              rewrite nget_nset. destruct (teqb (rn_id loser) (rn_id n)) eqn:E1.
              * intros [= E]. exfalso. apply Hkn0. rewrite <- Nk, <- E. exact Hlk'.
              * intros G. destruct (nget_In _ _ _ G) as [G1 _]. eapply (nodup_id_inj (nodes h)); eauto.
          - cbn [nodes]. rewrite nget_nset. cbn [rn_id]. destruct (teqb id (rn_id n)) eqn:E1.
            + intros [= E]. exfalso. apply Hkn0. rewrite <- Nk, <- E. reflexivity.
            + intros G. destruct (nget_In _ _ _ G) as [G1 _]. eapply (nodup_id_inj (nodes h)); eauto. }
        subst n0. eapply Hnew; eauto.
  - intros n Hn. rewrite Hlinks. destruct (Hmem n Hn) as [(Nid & Nk & Np)|(n0 & Hn0 & Nid & Nk & Np)].
    + rewrite Nk, N.eqb_refl. destruct (linked h k) as [old|]; [destruct (tafter _ _)|]; discriminate.
    + rewrite Nk. destruct (N.eqb_spec k (rn_key n0)) as [E|E]; [|now apply Hlk].
      destruct (linked h k) as [old|]; [destruct (tafter _ _)|]; discriminate.
Qed.

(* ------------------------------------------------------------------ *)
(* snapshot, then later changes                                        *)
Lemma decode_full h l : rht_wf h -> built_inv h -> Permutation l (nodes h) ->
  let d := rht_decode l in
  rht_wf d /\ (forall id, same_node (nget (nodes d) id) (nget (nodes h) id)) /\
  (forall k, same_node (linked d k) (linked h k)).
Proof.
  intros Hwf [Hinv Hlk] HP d.
  destruct (decode_roundtrip h l Hwf Hinv HP) as (Nodes & Links & _). fold d in Nodes, Links.
  pose proof (snap_list_of h Hwf Hinv) as HLh.
  assert (HL : snap_list l) by (eapply snap_list_perm; [symmetry; exact HP|exact HLh]).
  assert (HJ : J l d).
  { unfold d, rht_decode. change l with ([] ++ l) at 1. apply (J_fold l HL); [now intros x Hx|apply (sl_nodup l HL)|apply J_empty]. }
  pose proof HJ as [Js Jn Jl]. pose proof Hinv as [Hnd Hnew]. pose proof Hwf as [Wl Wv Wm Wi].
  assert (In_l : forall x, In x l <-> In x (nodes h)).
  { intros x. split; intros Hx; eapply Permutation_in; try exact Hx; [exact HP|symmetry; exact HP]. }
  assert (Dids : forall id m, nget (nodes d) id = Some m -> rn_id m = id).
  { intros id m Hm. destruct (Js _ _ Hm) as (n & _ & Hid & (_ & E & _)). congruence. }
  assert (LinkAll : forall k, same_node (linked d k) (linked h k)).
  { intros k. destruct (linked h k) as [w|] eqn:Hw.
    - destruct (Links _ _ Hw) as (m & -> & Hm). exact Hm.
    - unfold linked. rewrite Jl. destruct (best l k) as [b|] eqn:Hb; [|exact I].
      destruct (best_in _ _ _ Hb) as [Hbin Hbk]. exfalso. apply (Hlk b); [now apply In_l|]. now rewrite Hbk. }
  split; [|split; [exact Nodes|exact LinkAll]].
  constructor.
  - intros k id Hk. rewrite Jl in Hk. destruct (best l k) as [b|] eqn:Hb; [|discriminate].
    cbn in Hk. injection Hk as <-. destruct (J_linked l l d k b HL (fun x H => H) HJ Hb) as (m & Hm & (Mk & _)).
    exists m. unfold linked in Hm. rewrite Jl, Hb in Hm. cbn in Hm. split; [exact Hm|].
    destruct (best_in _ _ _ Hb) as [_ Hbk]. congruence.
  - intros id m Hm Hlive. destruct (Js _ _ Hm) as (n & Hn & Hid & (Mk & Mid & _ & Mr & _)).
    rewrite Mr in Hlive. apply In_l in Hn.
    pose proof (linked_of_live h n Hwf Hnd Hn Hlive) as Hln.
    destruct (Links _ _ Hln) as (m' & Hm' & (_ & Mid' & _)).
    unfold linked in Hm'. rewrite Mk. destruct (kget (by_key d) (rn_key n)) as [id'|]; [|discriminate].
    pose proof (Dids _ _ Hm') as E. congruence.
  - intros id m mv Hm Hmv. destruct (Js _ _ Hm) as (n & Hn & Hid & (_ & Mid & _ & _ & Mp)).
    apply In_l in Hn. pose proof (In_nget _ _ Hnd Hn) as G.
    unfold rn_positioned in Mp. rewrite Hmv in Mp. rewrite Mid.
    destruct (rn_moved n) as [mv'|] eqn:En.
    + subst mv'. eapply Wm; eauto.
    + subst mv. apply tafter_irrefl'.
  - exact Dids.
Qed.

Definition vw (o : option rnode) : option Z :=
  match o with
  | Some n => match rn_removed n with None => Some (rn_val n) | Some _ => None end
  | None => None
  end.
Lemma view_vw h k : view h k = vw (linked h k).
Proof. reflexivity. Qed.
Lemma vw_same a b : same_node a b -> vw a = vw b.
Proof. destruct a as [m|], b as [n|]; cbn; try tauto. intros (_ & _ & -> & -> & _). reflexivity. Qed.

Lemma lset_same f g o : (forall k, same_node (f k) (g k)) -> forall k, same_node (lset f o k) (lset g o k).
Proof.
  intros H k. unfold lset. destruct (N.eqb (fst (fst o)) k); [|apply H].
  specialize (H (fst (fst o))). destruct (f (fst (fst o))) as [m|], (g (fst (fst o))) as [n|]; cbn in H; try tauto.
  - destruct H as (A & B & C & D & E). rewrite E. destruct (tafter _ _); cbn; [apply neq_refl|repeat split; assumption].
  - apply neq_refl.
Qed.

Lemma fold_lset_same ops : forall f g, (forall k, same_node (f k) (g k)) ->
  forall k, same_node (fold_left lset ops f k) (fold_left lset ops g k).
Proof.
  induction ops as [|o ops IH]; intros f g H k; cbn [fold_left]; [apply H|].
  apply IH. now apply lset_same.
Qed.

(* C02 for objects: a replica that loads the snapshot and then applies the later Sets shows what
   the replica that kept its state and applied the same Sets shows, for every listing order *)
Theorem snapshot_then_sets h l ops : rht_wf h -> built_inv h -> Permutation l (nodes h) ->
  all_fresh h ops -> NoDup (map sop_id ops) ->
  forall k, view (fold_left apply_sop ops (rht_decode l)) k = view (fold_left apply_sop ops h) k.
Proof.
  intros Hwf Hb HP Hf Hnd k.
  destruct (decode_full h l Hwf Hb HP) as (Wd & Nodes & Links).
  assert (Hfd : all_fresh (rht_decode l) ops).
  { intros o Ho. destruct (Hf o Ho) as [F1 F2]. split.
    - specialize (Nodes (sop_id o)). rewrite F1 in Nodes. destruct (nget (nodes (rht_decode l)) (sop_id o)); [destruct Nodes|reflexivity].
    - intros id' m Hm. specialize (Nodes id'). rewrite Hm in Nodes.
      destruct (nget (nodes h) id') as [n|] eqn:En; [|destruct Nodes].
      destruct Nodes as (_ & _ & _ & _ & ->). eapply F2; eauto. }
  destruct (linked_fold ops _ Wd Hfd Hnd) as [_ L1]. destruct (linked_fold ops h Hwf Hf Hnd) as [_ L2].
  rewrite !view_vw. apply vw_same. rewrite L1, L2. now apply fold_lset_same.
Qed.

(* tables built by Sets satisfy every hypothesis above *)
Theorem sets_built ops : forall h, rht_wf h -> built_inv h -> all_fresh h ops -> NoDup (map sop_id ops) ->
  rht_wf (fold_left apply_sop ops h) /\ built_inv (fold_left apply_sop ops h).
Proof.
  induction ops as [|o ops IH]; intros h Hwf Hb Hf Hnd; cbn [fold_left]; [now split|].
  cbn [map] in Hnd. apply NoDup_cons_iff in Hnd. destruct Hnd as [Hni Hnd].
  assert (Fo : fresh h (sop_id o)) by (apply Hf; now left).
  destruct o as [[k id] v]. unfold apply_sop at 2 4. cbn [fst snd sop_id] in *.
  apply IH; [destruct Fo; now apply rht_set_wf|now apply pset_built| |exact Hnd].
  intros o' Ho'. apply fresh_after; [exact Hwf|exact Fo|apply Hf; now right|].
  intros E. apply Hni. rewrite E. apply in_map. exact Ho'.
Qed.

Definition ex_snapshot_base : erht :=
  fold_left apply_sop [ (1%N, mkT 1 1%N 0%N, 10); (1%N, mkT 2 2%N 0%N, 20); (2%N, mkT 2 1%N 0%N, 30); (1%N, mkT 1 2%N 0%N, 15) ] empty_erht.
Example snapshot_premises_hold :
  rht_wf ex_snapshot_base /\ built_inv ex_snapshot_base /\
  List.length (nodes ex_snapshot_base) = 4%nat /\
  view (rht_decode (rev (nodes ex_snapshot_base))) 1%N = Some 20 /\ view ex_snapshot_base 1%N = Some 20.
Proof.
  assert (H : rht_wf ex_snapshot_base /\ built_inv ex_snapshot_base).
  { apply sets_built; [apply rht_wf_empty|apply built_empty|intros o _; apply fresh_empty|].
    cbn [map sop_id fst snd].
    repeat (constructor; [cbn; intros H; repeat (destruct H as [H|H]; [discriminate H|]); exact H|]). constructor. }
  destruct H as [A B]. split; [exact A|]. split; [exact B|]. split; [|split]; vm_compute; reflexivity.
Qed.
