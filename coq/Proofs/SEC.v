(* SEC.v — generic strong-eventual-consistency theorem.  If concurrent operations commute on every state
   satisfying an invariant, any two causal linearisations of the same set of
   operations yield the same state (or both fail). *)
From Coq Require Import List Permutation Lia Bool.
Import ListNotations.

Section SEC.
  Variables (S O : Type).
  Variable apply : S -> O -> option S.
  Variable hb : O -> O -> Prop.              (* happens-before, on operations *)
  Variable Inv : S -> Prop.

  Definition conc (a b : O) := ~ hb a b /\ ~ hb b a.

  Fixpoint run (s : S) (l : list O) : option S :=
    match l with
    | [] => Some s
    | o :: r => match apply s o with Some s' => run s' r | None => None end
    end.

  (* l is causal: nothing later in the list happens-before something earlier *)
  Inductive causal : list O -> Prop :=
  | causal_nil : causal []
  | causal_cons x l : (forall y, In y l -> ~ hb y x) -> causal l -> causal (x :: l).

  Hypothesis inv_step : forall s o s', Inv s -> apply s o = Some s' -> Inv s'.
  (* concurrent operations commute, including failure *)
  Hypothesis commute : forall s a b, Inv s -> conc a b ->
    match apply s a, apply s b with
    | Some sa, Some sb => (match apply sa b, apply sb a with
                           | Some x, Some y => x = y | None, None => True | _, _ => False end)
    | Some sa, None => apply sa b = None
    | None, Some sb => apply sb a = None
    | None, None => True
    end.

  Lemma run_app s l1 l2 : run s (l1 ++ l2) = match run s l1 with Some s' => run s' l2 | None => None end.
  Proof. revert s; induction l1 as [|x l IH]; intros s; cbn; [reflexivity|]. destruct (apply s x); auto. Qed.

  Lemma run_inv s l s' : Inv s -> run s l = Some s' -> Inv s'.
  Proof.
    revert s; induction l as [|x l IH]; intros s Hi H; cbn in H.
    - now injection H as <-.
    - destruct (apply s x) eqn:E; [|discriminate]. eauto.
  Qed.

  (* swap two adjacent concurrent operations *)
  Lemma swap2 s a b r : Inv s -> conc a b -> run s (a :: b :: r) = run s (b :: a :: r).
  Proof.
    intros Hi Hc. pose proof (commute s a b Hi Hc) as C. cbn.
    destruct (apply s a) as [sa|] eqn:Ea; destruct (apply s b) as [sb|] eqn:Eb.
    - destruct (apply sa b) eqn:E1; destruct (apply sb a) eqn:E2; try contradiction; congruence.
    - now rewrite C.
    - now rewrite C.
    - reflexivity.
  Qed.

  (* move x leftwards over a block A of operations all concurrent with x *)
  Lemma bubble s A x B : Inv s -> (forall a, In a A -> conc a x) ->
    run s (A ++ x :: B) = run s (x :: A ++ B).
  Proof.
    revert s. induction A as [|a A IH]; intros s Hi Hc; [reflexivity|].
    change ((a :: A) ++ x :: B) with (a :: (A ++ x :: B)).
    transitivity (run s (a :: x :: A ++ B)).
    - cbn. destruct (apply s a) as [sa|] eqn:Ea; [|reflexivity].
      assert (Inv sa) by eauto.
      rewrite IH; auto. intros; apply Hc; now right.
    - apply swap2; auto. apply Hc; now left.
  Qed.

  Lemma causal_split A x B : causal (A ++ x :: B) ->
    (forall a, In a A -> ~ hb x a) /\ causal (A ++ B).
  Proof.
    induction A as [|a A IH]; cbn; intros H.
    - inversion H; subst. split; [intros ? []|assumption].
    - inversion H as [|? ? Ha Hr]; subst. destruct (IH Hr) as [H1 H2]. split.
      + intros y [<-|Hy]; [apply Ha, in_or_app; right; now left|auto].
      + constructor; [|assumption]. intros y Hy. apply Ha.
        apply in_app_or in Hy. apply in_or_app. destruct Hy; [now left|right; now right].
  Qed.

  Theorem sec : forall l1 l2 s, Inv s -> NoDup l1 -> Permutation l1 l2 -> causal l1 -> causal l2 ->
    run s l1 = run s l2.
  Proof.
    induction l1 as [|x l1 IH]; intros l2 s Hi Hnd Hp Hc1 Hc2.
    - apply Permutation_nil in Hp. now subst.
    - assert (Hin : In x l2) by (eapply Permutation_in; [exact Hp|now left]).
      apply in_split in Hin as (A & B & ->).
      inversion Hc1 as [|? ? Hx Hc1']; subst.
      destruct (causal_split _ _ _ Hc2) as [HxA Hc2'].
      assert (HA : forall a, In a A -> conc a x).
      { intros a Ha. split; [|now apply HxA].
        apply Hx. apply Permutation_cons_app_inv in Hp.
        eapply Permutation_in; [apply Permutation_sym; exact Hp|]. apply in_or_app; now left. }
      rewrite bubble by assumption. cbn.
      destruct (apply s x) as [sx|] eqn:Ex; [|reflexivity].
      apply IH; eauto.
      + now inversion Hnd.
      + now apply Permutation_cons_app_inv in Hp.
  Qed.
End SEC.
