(* OptOutWitness.v — finding P6 on the text model: Document.Update applies an edit to the clone as a
   local edit (no version vector: everything is known) and then executes the resulting change on
   the root with the change's own vector.  For an attachment WithDisableGC that vector has the
   author's entry only, so characters another client typed are "not known" and stay. *)
From YV Require Import Base.Ticket Crdt.TextRGA.

Definition oo_text : list tch := [ mkCh (mkT 1 1%N 0%N) 0 97 None; mkCh (mkT 1 1%N 0%N) 1 98 None ].   (* "ab" typed by actor 1 *)
Definition oo_t : ticket := mkT 2 2%N 0%N.                                                            (* actor 2 deletes "a" *)
Definition oo_on_clone := edit PHead (PAfter (mkT 1 1%N 0%N) 0) [] oo_t None oo_text.
Definition oo_on_root := edit PHead (PAfter (mkT 1 1%N 0%N) 0) [] oo_t (Some [(2%N, 2)]) oo_text.
Definition oo_on_root_with_full_vector := edit PHead (PAfter (mkT 1 1%N 0%N) 0) [] oo_t (Some [(1%N, 1); (2%N, 2)]) oo_text.

Theorem optout_delete_clone_and_root_differ :
  option_map visible oo_on_clone = Some [98%N] /\
  option_map visible oo_on_root = Some [97%N; 98%N] /\
  option_map visible oo_on_root_with_full_vector = Some [98%N].
Proof. repeat split; vm_compute; reflexivity. Qed.
