(* ArrayProofs.v — convergence of concurrent array operations (insert, move, delete) on the
   position-list model Crdt/ArrayKeys.v: the position list is an RGA (every insert and every move
   adds one position with the skip rule: RGACommuteGen), the elements carry last-writer-wins
   registers; the two never interfere.  Set-by-index is excluded (finding P13), and so are
   anchors given as element ids (the JSON layer passes position ids; the element-id fallback is
   where P13 lives). *)
From Coq Require Import Permutation Lia.
From YV Require Import Base.Ticket Crdt.RGAList Crdt.ArrayKeys Proofs.TicketProofs Proofs.RGACommuteGen Proofs.RGAProofs.

(* ---- lookups ---- *)
Lemma hget_hset h k v k' : hget (hset h k v) k' = if teqb k k' then v else hget h k'.
Proof.
  induction h as [|[k0 v0] r IH]; cbn [hset hget]; [reflexivity|].
  destruct (teqb k0 k) eqn:E; cbn [hget].
  - apply teqb_spec in E. subst k0. destruct (teqb k k'); reflexivity.
  - destruct (teqb k0 k') eqn:E2.
    + apply teqb_spec in E2. subst k'. rewrite (teqb_sym k k0), E. reflexivity.
    + exact IH.
Qed.

(* two states are the same when their position lists are equal and their lookups agree *)
Definition aeq (a b : arr) : Prop :=
  akeys a = akeys b /\ (forall id, find_entry (aents a) id = find_entry (aents b) id) /\
  (forall k, hget (aheld a) k = hget (aheld b) k).

Lemma aeq_refl a : aeq a a. Proof. repeat split. Qed.
Lemma aeq_sym a b : aeq a b -> aeq b a. Proof. intros (A & B & C). repeat split; intros; congruence || (symmetry; auto). Qed.
Lemma aeq_trans a b c : aeq a b -> aeq b c -> aeq a c.
Proof. intros (A & B & C) (A' & B' & C'). split; [congruence|]. split; intros; [rewrite B|rewrite C]; auto. Qed.

Definition oaeq (x y : option arr) : Prop :=
  match x, y with Some a, Some b => aeq a b | None, None => True | _, _ => False end.

Lemma oaeq_refl x : oaeq x x. Proof. destruct x; cbn; [apply aeq_refl|exact I]. Qed.

Lemma visible_aeq a b : aeq a b -> a_visible a = a_visible b.
Proof.
  intros (A & B & C). unfold a_visible. rewrite A. apply flat_map_ext. intros k.
  unfold a_live. rewrite C. destruct (hget (aheld b) k); [|reflexivity]. now rewrite B.
Qed.

Lemma is_key_aeq a b p : aeq a b -> is_key a p = is_key b p.
Proof. intros (A & _). unfold is_key. now rewrite A. Qed.

(* ---- the operations look at the state through lookups only ---- *)
Lemma a_insert_aeq a b prev id val : aeq a b -> oaeq (a_insert a prev id val) (a_insert b prev id val).
Proof.
  intros H. pose proof H as (A & B & C). unfold a_insert, a_anchor. rewrite (is_key_aeq a b prev H), B, A.
  destruct (if is_key b prev then Some prev else option_map en_pos (find_entry (aents b) prev)) as [p|]; [|exact I].
  destruct (kinsert p id (akeys b)) as [ks|]; cbn [option_map oaeq]; [|exact I].
  split; [reflexivity|]. cbn [aents aheld]. split.
  - intros i. rewrite !find_entry_set. destruct (teqb _ i); auto.
  - intros k. rewrite !hget_hset. destruct (teqb id k); auto.
Qed.

Lemma a_move_aeq a b prev id t : aeq a b -> oaeq (a_move a prev id t) (a_move b prev id t).
Proof.
  intros H. pose proof H as (A & B & C). unfold a_move. rewrite (is_key_aeq a b prev H), (is_key_aeq a b t H), B, A.
  destruct (negb (is_key b prev)); [exact I|].
  destruct (find_entry (aents b) id) as [e|]; [|exact I].
  destruct (match en_moved e with Some m => negb (tafter t m) | None => false end).
  - destruct (is_key b t); [exact H|].
    destruct (kinsert prev t (akeys b)); cbn [option_map oaeq]; [|exact I].
    split; [reflexivity|]. split; [exact B|]. intros k. cbn [aheld]. rewrite !hget_hset. destruct (teqb t k); auto.
  - destruct (kinsert prev t (akeys b)); cbn [option_map oaeq]; [|exact I].
    split; [reflexivity|]. cbn [aents aheld]. split.
    + intros i. rewrite !find_entry_set. destruct (teqb _ i); auto.
    + intros k. rewrite !hget_hset. destruct (teqb t k); [reflexivity|]. destruct (teqb (en_pos e) k); auto.
Qed.

Lemma a_delete_aeq a b id t : aeq a b -> oaeq (a_delete a id t) (a_delete b id t).
Proof.
  intros (A & B & C). unfold a_delete. rewrite B. destruct (find_entry (aents b) id) as [e|]; [|exact I].
  cbn [oaeq]. split; [exact A|]. cbn [aents aheld]. split; [|exact C].
  intros i. rewrite !find_entry_set. destruct (teqb _ i); auto.
Qed.

(* ---- position ids ---- *)
Lemma kplace_g t l : kplace t l = g_place t l.
Proof. induction l as [|x r IH]; cbn [kplace g_place place]; [reflexivity|]. unfold g_place in IH. now rewrite IH. Qed.

Lemma kinsert_g p t l : kinsert p t l = g_insert p t l.
Proof.
  induction l as [|x r IH]; cbn [kinsert g_insert RGACommuteGen.insert_after]; [reflexivity|].
  destruct (teqb x p); [now rewrite kplace_g|]. unfold g_insert in IH. now rewrite IH.
Qed.

Definition obnd {A B} (o : option A) (f : A -> option B) : option B := match o with Some x => f x | None => None end.

Lemma kinsert_commute p1 t1 p2 t2 l : t1 <> t2 -> p1 <> t2 -> p2 <> t1 ->
  obnd (kinsert p1 t1 l) (kinsert p2 t2) = obnd (kinsert p2 t2 l) (kinsert p1 t1).
Proof.
  intros H1 H2 H3.
  pose proof (insert_commute ticket tafter teqb teqb_spec tafter_asym tafter_trans tafter_total p1 t1 p2 t2 l H1 H2 H3) as H.
  unfold bind in H. fold (g_insert p1 t1 l) in H. fold (g_insert p2 t2 l) in H.
  rewrite (kinsert_g p1 t1 l), (kinsert_g p2 t2 l).
  destruct (g_insert p1 t1 l) as [l1|] eqn:E1, (g_insert p2 t2 l) as [l2|] eqn:E2; cbn [obnd];
    rewrite ?(kinsert_g p2 t2 l1), ?(kinsert_g p1 t1 l2); exact H.
Qed.

Lemma in_kplace t l x : In x (kplace t l) <-> x = t \/ In x l.
Proof.
  induction l as [|y r IH]; cbn [kplace]; [cbn; intuition|].
  destruct (tafter y t); cbn [In]; [rewrite IH|]; intuition.
Qed.

Lemma in_kinsert p t l l' x : kinsert p t l = Some l' -> (In x l' <-> x = t \/ In x l).
Proof.
  revert l'. induction l as [|y r IH]; intros l' H; cbn [kinsert] in H; [discriminate|].
  destruct (teqb y p).
  - injection H as <-. cbn [In]. rewrite in_kplace. intuition.
  - destruct (kinsert p t r) as [r'|]; [|discriminate]. injection H as <-. cbn [In]. rewrite (IH r' eq_refl). intuition.
Qed.

Lemma kinsert_some p t l : In p l -> exists l', kinsert p t l = Some l'.
Proof.
  induction l as [|y r IH]; intros H; [destruct H|]. cbn [kinsert].
  destruct (teqb y p) eqn:E; [eexists; reflexivity|].
  destruct H as [->|H]; [rewrite teqb_refl in E; discriminate|]. destruct (IH H) as (r' & ->). eexists; reflexivity.
Qed.

Lemma is_key_in a p : is_key a p = true <-> In p (akeys a).
Proof.
  unfold is_key. rewrite existsb_exists. split.
  - intros (x & Hx & E). apply teqb_spec in E. now subst.
  - intros H. exists p. split; [exact H|apply teqb_refl].
Qed.

Lemma is_key_false a p : is_key a p = false <-> ~ In p (akeys a).
Proof. rewrite <- is_key_in. destruct (is_key a p); split; intros; congruence. Qed.

(* ------------------------------------------------------------------ *)
(* operations = a step on the position list + a step on the registers    *)
Inductive aop := AIns (prev id : ticket) (val : Z) | AMov (prev id t : ticket) | ADel (id t : ticket).

Definition apply_a (a : arr) (o : aop) : option arr :=
  match o with
  | AIns p i v => a_insert a p i v
  | AMov p i t => a_move a p i t
  | ADel i t => a_delete a i t
  end.

Definition op_key (o : aop) : option ticket := match o with AIns _ i _ => Some i | AMov _ _ t => Some t | ADel _ _ => None end.
Definition op_anchor (o : aop) : option ticket := match o with AIns p _ _ => Some p | AMov p _ _ => Some p | ADel _ _ => None end.

Definition key_step (ks : list ticket) (o : aop) : option (list ticket) :=
  match o with
  | AIns p i _ => kinsert p i ks
  | AMov p _ t => kinsert p t ks
  | ADel _ _ => Some ks
  end.

Definition regs := (list entry * list (ticket * option ticket))%type.

Definition mv_loses (e : entry) (t : ticket) : bool := match en_moved e with Some m => negb (tafter t m) | None => false end.

Definition reg_step (r : regs) (o : aop) : option regs :=
  let '(E, H) := r in
  match o with
  | AIns _ i v => Some (set_entry E (mkEnt i v None None i), hset H i (Some i))
  | AMov _ i t =>
      match find_entry E i with
      | None => None
      | Some e => if mv_loses e t then Some (E, hset H t None)
                  else Some (set_entry E (mkEnt i (en_val e) (en_removed e) (Some t) t), hset (hset H (en_pos e) None) t (Some i))
      end
  | ADel i t =>
      match find_entry E i with
      | None => None
      | Some e => Some (set_entry E (elem_remove e t), H)
      end
  end.

(* what an operation needs of the state it is executed on *)
Definition ready (a : arr) (o : aop) : Prop :=
  (forall p, op_anchor o = Some p -> is_key a p = true) /\ (forall k, op_key o = Some k -> is_key a k = false).

Lemma apply_split a o : ready a o ->
  apply_a a o = match key_step (akeys a) o, reg_step (aents a, aheld a) o with
                | Some ks, Some (E, H) => Some (mkArr ks E H)
                | _, _ => None
                end.
Proof.
  intros [Ha Hk]. destruct o as [p i v|p i t|i t]; cbn [apply_a key_step reg_step op_anchor op_key] in *.
  - unfold a_insert, a_anchor. rewrite (Ha p eq_refl). destruct (kinsert p i (akeys a)); reflexivity.
  - unfold a_move. rewrite (Ha p eq_refl). cbn [negb]. rewrite (Hk t eq_refl).
    destruct (find_entry (aents a) i) as [e|]; [|now destruct (kinsert p t (akeys a))].
    fold (mv_loses e t). destruct (mv_loses e t); destruct (kinsert p t (akeys a)); reflexivity.
  - unfold a_delete. destruct (find_entry (aents a) i); reflexivity.
Qed.

(* ---- registers: equality through lookups ---- *)
Definition req (r1 r2 : regs) : Prop :=
  (forall id, find_entry (fst r1) id = find_entry (fst r2) id) /\ (forall k, hget (snd r1) k = hget (snd r2) k).
Definition oreq (x y : option regs) : Prop :=
  match x, y with Some a, Some b => req a b | None, None => True | _, _ => False end.

Lemma req_refl r : req r r. Proof. split; reflexivity. Qed.
Lemma oreq_refl x : oreq x x. Proof. destruct x; cbn; [apply req_refl|exact I]. Qed.

Lemma reg_step_req r1 r2 o : req r1 r2 -> oreq (reg_step r1 o) (reg_step r2 o).
Proof.
  destruct r1 as [E1 H1], r2 as [E2 H2]. intros [HE HH]. cbn [fst snd] in *.
  destruct o as [p i v|p i t|i t]; cbn [reg_step].
  - split; cbn [fst snd]; intros x; [rewrite !find_entry_set|rewrite !hget_hset]; destruct (teqb _ x); auto.
  - rewrite HE. destruct (find_entry E2 i) as [e|]; [|exact I]. destruct (mv_loses e t); cbn [oreq].
    + split; cbn [fst snd]; [exact HE|]. intros x. rewrite !hget_hset. destruct (teqb t x); auto.
    + split; cbn [fst snd]; intros x; [rewrite !find_entry_set; destruct (teqb _ x); auto|].
      rewrite !hget_hset. destruct (teqb t x); [reflexivity|]. destruct (teqb (en_pos e) x); auto.
  - rewrite HE. destruct (find_entry E2 i) as [e|]; [|exact I]. cbn [oreq]. split; cbn [fst snd]; [|exact HH].
    intros x. rewrite !find_entry_set. destruct (teqb _ x); auto.
Qed.

(* ---- the register steps of two independent operations commute ---- *)
Definition key_fresh (E : list entry) (k : ticket) : Prop :=
  find_entry E k = None /\ forall id e, find_entry E id = Some e -> en_pos e <> k.

Definition op_target (o : aop) : option ticket := match o with AIns _ _ _ => None | AMov _ i _ => Some i | ADel i _ => Some i end.
Definition op_newid (o : aop) : option ticket := match o with AIns _ i _ => Some i | _ => None end.

Record compat (E : list entry) (x y : aop) : Prop := {
  cp_keys : forall kx ky, op_key x = Some kx -> op_key y = Some ky -> kx <> ky;
  cp_fx : forall k, op_key x = Some k -> key_fresh E k;
  cp_fy : forall k, op_key y = Some k -> key_fresh E k;
  cp_tx : forall i j, op_newid x = Some i -> op_target y = Some j -> i <> j;
  cp_ty : forall i j, op_newid y = Some i -> op_target x = Some j -> i <> j;
  cp_ids : forall id e, find_entry E id = Some e -> en_id e = id
}.

Ltac teq_cases :=
  repeat match goal with
         | |- context [teqb ?a ?b] => let E := fresh "Eq" in destruct (teqb a b) eqn:E
         end;
  try reflexivity;
  repeat match goal with
         | H : teqb _ _ = true |- _ => apply teqb_spec in H
         end;
  subst; try congruence.

Lemma teqb_false_ne a b : a <> b -> teqb a b = false.
Proof. intros H. destruct (teqb a b) eqn:E; [apply teqb_spec in E; contradiction|reflexivity]. Qed.

Definition ermv (id : ticket) (r : option ticket) (t : ticket) : option ticket :=
  if tafter t id && match r with None => true | Some r0 => tafter t r0 end then Some t else r.

Lemma elem_remove_ermv e t :
  elem_remove e t = mkEnt (en_id e) (en_val e) (ermv (en_id e) (en_removed e) t) (en_moved e) (en_pos e).
Proof. unfold elem_remove, ermv. destruct (_ && _); destruct e; reflexivity. Qed.

Lemma tk_dec (a b : ticket) : {a = b} + {a <> b}.
Proof. decide equality; [apply N.eq_dec|apply N.eq_dec|apply Z.eq_dec]. Qed.

Lemma ermv_comm id r t1 t2 : ermv id (ermv id r t1) t2 = ermv id (ermv id r t2) t1.
Proof.
  destruct (tk_dec t1 t2) as [->|Hne]; [reflexivity|].
  assert (Tot : forall X (a b : X), (if tafter t2 t1 then a else b) = (if tafter t1 t2 then b else a)).
  { intros X a b. destruct (tafter_total_b t1 t2 Hne) as [T|T]; rewrite T.
    - assert (N0 : tafter t2 t1 = false) by (apply tafter_false; apply tafter_spec in T; now apply tgt_asym). now rewrite N0.
    - assert (N0 : tafter t1 t2 = false) by (apply tafter_false; apply tafter_spec in T; now apply tgt_asym). now rewrite N0. }
  unfold ermv. destruct (tafter t1 id) eqn:A1, (tafter t2 id) eqn:A2; cbn [andb]; try reflexivity.
  - destruct r as [r|].
    + destruct (tafter t1 r) eqn:B1, (tafter t2 r) eqn:B2.
      * apply Tot.
      * assert (T : tafter t2 t1 = false).
        { destruct (tafter t2 t1) eqn:E; [|reflexivity]. pose proof (tafter_trans_b _ _ _ E B1) as F. congruence. }
        rewrite T; rewrite ?B1, ?B2; reflexivity.
      * assert (T : tafter t1 t2 = false).
        { destruct (tafter t1 t2) eqn:E; [|reflexivity]. pose proof (tafter_trans_b _ _ _ E B2) as F. congruence. }
        rewrite T; rewrite ?B1, ?B2; reflexivity.
      * rewrite ?B1, ?B2; reflexivity.
    + apply Tot.
Qed.

Definition rbnd (o : option regs) (f : regs -> option regs) : option regs := match o with Some r => f r | None => None end.

Lemma mv_loses_moved e e' t : en_moved e = en_moved e' -> mv_loses e t = mv_loses e' t.
Proof. unfold mv_loses. now intros ->. Qed.

Ltac lk := split; cbn [fst snd]; intros z; rewrite ?find_entry_set, ?hget_hset; cbn [en_id]; teq_cases.

Lemma reg_commute E H x y : compat E x y ->
  oreq (rbnd (reg_step (E, H) x) (fun r => reg_step r y)) (rbnd (reg_step (E, H) y) (fun r => reg_step r x)).
Proof.
  intros [Ck Cfx Cfy Ctx Cty Cid].
  destruct x as [px i v|px i t|i t], y as [py j w|py j u|j u];
    cbn [op_key op_target op_newid reg_step rbnd] in *.
  - (* insert / insert *)
    assert (Hij : i <> j) by (apply (Ck i j); reflexivity). lk.
  - (* insert / move *)
    assert (Hij : i <> j) by (apply (Ctx i j); reflexivity).
    assert (Hiu : i <> u) by (apply (Ck i u); reflexivity).
    rewrite find_entry_set. cbn [en_id]. rewrite (teqb_false_ne i j Hij).
    destruct (find_entry E j) as [e|] eqn:Ej; cbn [rbnd]; [|exact I].
    assert (Hpos : en_pos e <> i) by (destruct (Cfx i eq_refl) as [_ F]; eapply F; eauto).
    destruct (mv_loses e u); cbn [rbnd reg_step oreq]; lk.
  - (* insert / delete *)
    assert (Hij : i <> j) by (apply (Ctx i j); reflexivity).
    rewrite find_entry_set. cbn [en_id]. rewrite (teqb_false_ne i j Hij).
    destruct (find_entry E j) as [e|] eqn:Ej; cbn [rbnd reg_step oreq]; [|exact I].
    pose proof (Cid _ _ Ej) as Hid. rewrite elem_remove_ermv. lk.
  - (* move / insert *)
    assert (Hij : j <> i) by (apply (Cty j i); reflexivity).
    assert (Hjt : t <> j) by (apply (Ck t j); reflexivity).
    rewrite find_entry_set. cbn [en_id]. rewrite (teqb_false_ne j i Hij).
    destruct (find_entry E i) as [e|] eqn:Ei; cbn [rbnd]; [|exact I].
    assert (Hpos : en_pos e <> j) by (destruct (Cfy j eq_refl) as [_ F]; eapply F; eauto).
    destruct (mv_loses e t); cbn [rbnd reg_step oreq]; lk.
  - (* move / move *)
    assert (Htu : t <> u) by (apply (Ck t u); reflexivity).
    destruct (tk_dec i j) as [<-|Hij].
    + (* the same element *)
      destruct (find_entry E i) as [e|] eqn:Ei; cbn [rbnd]; [|exact I].
      pose proof (Cid _ _ Ei) as Hid.
      assert (Hpt : en_pos e <> t) by (destruct (Cfx t eq_refl) as [_ F]; eapply F; eauto).
      assert (Hpu : en_pos e <> u) by (destruct (Cfy u eq_refl) as [_ F]; eapply F; eauto).
      destruct (mv_loses e t) eqn:Lt, (mv_loses e u) eqn:Lu; cbn [rbnd reg_step].
      * rewrite Ei, Lt, Lu. cbn [oreq]. lk.
      * rewrite Ei, Lu. rewrite find_entry_set. cbn [en_id]. rewrite teqb_refl.
        (* t lost against the old position, u beat it: t loses against u *)
        assert (Ltu : mv_loses (mkEnt i (en_val e) (en_removed e) (Some u) u) t = true).
        { unfold mv_loses in *. cbn [en_moved]. destruct (en_moved e) as [m|]; [|discriminate].
          apply negb_true_iff in Lt. apply negb_false_iff in Lu. apply negb_true_iff.
          destruct (tafter t u) eqn:T; [|reflexivity]. pose proof (tafter_trans_b _ _ _ T Lu). congruence. }
        rewrite Ltu. cbn [oreq]. lk.
      * rewrite Ei, Lt. rewrite find_entry_set. cbn [en_id]. rewrite teqb_refl.
        assert (Lut : mv_loses (mkEnt i (en_val e) (en_removed e) (Some t) t) u = true).
        { unfold mv_loses in *. cbn [en_moved]. destruct (en_moved e) as [m|]; [|discriminate].
          apply negb_true_iff in Lu. apply negb_false_iff in Lt. apply negb_true_iff.
          destruct (tafter u t) eqn:T; [|reflexivity]. pose proof (tafter_trans_b _ _ _ T Lt). congruence. }
        rewrite Lut. cbn [oreq]. lk.
      * rewrite !find_entry_set. cbn [en_id]. rewrite !teqb_refl.
        unfold mv_loses at 1 2. cbn [en_moved en_val en_removed en_pos].
        destruct (tafter_total_b t u Htu) as [T|T].
        -- assert (N0 : tafter u t = false) by (apply tafter_false; apply tafter_spec in T; now apply tgt_asym).
           rewrite T, N0. cbn [negb oreq]. lk.
        -- assert (N0 : tafter t u = false) by (apply tafter_false; apply tafter_spec in T; now apply tgt_asym).
           rewrite T, N0. cbn [negb oreq]. lk.
    + (* different elements *)
      destruct (find_entry E i) as [e|] eqn:Ei; cbn [rbnd].
      * pose proof (Cid _ _ Ei) as Hid.
        assert (Hpu : en_pos e <> u) by (destruct (Cfy u eq_refl) as [_ F]; eapply F; eauto).
        destruct (mv_loses e t) eqn:Lt; cbn [rbnd reg_step].
        -- destruct (find_entry E j) as [e'|] eqn:Ej; cbn [rbnd]; [|exact I].
           assert (Hpt : en_pos e' <> t) by (destruct (Cfx t eq_refl) as [_ F]; eapply F; eauto).
           destruct (mv_loses e' u); cbn [rbnd reg_step]; rewrite ?find_entry_set; cbn [en_id];
             rewrite ?(teqb_false_ne j i) by congruence; rewrite ?Ei, ?Lt; cbn [oreq]; lk.
        -- rewrite find_entry_set. cbn [en_id]. rewrite (teqb_false_ne i j Hij).
           destruct (find_entry E j) as [e'|] eqn:Ej; cbn [rbnd]; [|exact I].
           assert (Hpt : en_pos e' <> t) by (destruct (Cfx t eq_refl) as [_ F]; eapply F; eauto).
           destruct (mv_loses e' u); cbn [rbnd reg_step]; rewrite ?find_entry_set; cbn [en_id];
             rewrite ?(teqb_false_ne j i) by congruence; rewrite ?Ei, ?Lt; cbn [oreq]; lk.
      * destruct (find_entry E j) as [e'|] eqn:Ej; cbn [rbnd]; [|exact I].
        destruct (mv_loses e' u); cbn [rbnd reg_step]; rewrite ?find_entry_set; cbn [en_id];
          rewrite ?(teqb_false_ne j i) by congruence; rewrite ?Ei; exact I.
  - (* move / delete *)
    destruct (tk_dec i j) as [<-|Hij].
    + destruct (find_entry E i) as [e|] eqn:Ei; cbn [rbnd]; [|exact I].
      pose proof (Cid _ _ Ei) as Hid.
      destruct (mv_loses e t) eqn:Lt; cbn [rbnd reg_step]; rewrite ?Ei; rewrite ?find_entry_set; cbn [en_id].
      * rewrite elem_remove_ermv. cbn [en_id]. rewrite Hid, teqb_refl.
        rewrite (mv_loses_moved _ e t) by reflexivity. rewrite Lt. cbn [oreq]. lk.
      * rewrite teqb_refl. rewrite (elem_remove_ermv e). cbn [en_id]. rewrite Hid, teqb_refl.
        rewrite (mv_loses_moved _ e t) by reflexivity. rewrite Lt. rewrite elem_remove_ermv.
        cbn [en_id en_val en_removed en_moved en_pos oreq]. lk.
    + destruct (find_entry E i) as [e|] eqn:Ei; cbn [rbnd].
      * pose proof (Cid _ _ Ei) as Hid.
        destruct (mv_loses e t) eqn:Lt; cbn [rbnd reg_step]; rewrite ?find_entry_set; cbn [en_id];
          rewrite ?(teqb_false_ne i j Hij);
          (destruct (find_entry E j) as [e'|] eqn:Ej; cbn [rbnd reg_step]; [|exact I]);
          pose proof (Cid _ _ Ej) as Hid'; rewrite (elem_remove_ermv e'); rewrite ?find_entry_set; cbn [en_id];
          rewrite Hid', ?(teqb_false_ne j i) by congruence; rewrite ?Ei, ?Lt; cbn [oreq]; lk.
      * destruct (find_entry E j) as [e'|] eqn:Ej; cbn [rbnd reg_step]; [|exact I].
        pose proof (Cid _ _ Ej) as Hid'. rewrite (elem_remove_ermv e'), find_entry_set. cbn [en_id].
        rewrite Hid', (teqb_false_ne j i) by congruence. rewrite Ei. exact I.
  - (* delete / insert *)
    assert (Hij : j <> i) by (apply (Cty j i); reflexivity).
    rewrite find_entry_set. cbn [en_id]. rewrite (teqb_false_ne j i Hij).
    destruct (find_entry E i) as [e|] eqn:Ei; cbn [rbnd reg_step oreq]; [|exact I].
    pose proof (Cid _ _ Ei) as Hid. rewrite elem_remove_ermv. lk.
  - (* delete / move *)
    destruct (tk_dec i j) as [<-|Hij].
    + destruct (find_entry E i) as [e|] eqn:Ei; cbn [rbnd reg_step]; [|exact I].
      pose proof (Cid _ _ Ei) as Hid.
      rewrite (elem_remove_ermv e), find_entry_set. cbn [en_id]. rewrite Hid, teqb_refl.
      rewrite (mv_loses_moved _ e u) by reflexivity.
      destruct (mv_loses e u) eqn:Lu; cbn [rbnd reg_step]; rewrite ?Ei; rewrite ?find_entry_set; cbn [en_id]; rewrite ?teqb_refl.
      * rewrite elem_remove_ermv. rewrite Hid. cbn [oreq]. lk.
      * rewrite elem_remove_ermv. cbn [en_id en_val en_removed en_moved en_pos oreq]. lk.
    + destruct (find_entry E i) as [e|] eqn:Ei; cbn [rbnd reg_step].
      * pose proof (Cid _ _ Ei) as Hid. rewrite (elem_remove_ermv e), find_entry_set. cbn [en_id].
        rewrite Hid, (teqb_false_ne i j Hij).
        destruct (find_entry E j) as [e'|] eqn:Ej; cbn [rbnd]; [|exact I].
        destruct (mv_loses e' u); cbn [rbnd reg_step]; rewrite ?find_entry_set; cbn [en_id];
          rewrite ?(teqb_false_ne j i) by congruence; rewrite ?Ei; rewrite ?(elem_remove_ermv e), ?Hid; cbn [oreq]; lk.
      * destruct (find_entry E j) as [e'|] eqn:Ej; cbn [rbnd]; [|exact I].
        destruct (mv_loses e' u); cbn [rbnd reg_step]; rewrite ?find_entry_set; cbn [en_id];
          rewrite ?(teqb_false_ne j i) by congruence; rewrite ?Ei; exact I.
  - (* delete / delete *)
    destruct (tk_dec i j) as [<-|Hij].
    + destruct (find_entry E i) as [e|] eqn:Ei; cbn [rbnd reg_step]; [|exact I].
      pose proof (Cid _ _ Ei) as Hid.
      rewrite !(elem_remove_ermv e), !find_entry_set. cbn [en_id]. rewrite Hid, teqb_refl.
      rewrite !elem_remove_ermv. cbn [en_id en_val en_removed en_moved en_pos oreq].
      rewrite (ermv_comm i (en_removed e) t u). lk.
    + destruct (find_entry E i) as [e|] eqn:Ei; cbn [rbnd reg_step].
      * pose proof (Cid _ _ Ei) as Hid. rewrite (elem_remove_ermv e), find_entry_set. cbn [en_id].
        rewrite Hid, (teqb_false_ne i j Hij).
        destruct (find_entry E j) as [e'|] eqn:Ej; cbn [rbnd reg_step]; [|exact I].
        pose proof (Cid _ _ Ej) as Hid'. rewrite (elem_remove_ermv e'), find_entry_set. cbn [en_id].
        rewrite Hid', (teqb_false_ne j i) by congruence. rewrite Ei. rewrite (elem_remove_ermv e), Hid. cbn [oreq]. lk.
      * destruct (find_entry E j) as [e'|] eqn:Ej; cbn [rbnd reg_step]; [|exact I].
        pose proof (Cid _ _ Ej) as Hid'. rewrite (elem_remove_ermv e'), find_entry_set. cbn [en_id].
        rewrite Hid', (teqb_false_ne j i) by congruence. rewrite Ei. exact I.
Qed.

(* ------------------------------------------------------------------ *)
(* two concurrent operations commute                                    *)
Definition combine_kr (ks : option (list ticket)) (r : option regs) : option arr :=
  match ks, r with Some ks, Some (E, H) => Some (mkArr ks E H) | _, _ => None end.

Definition kready (ks : list ticket) (o : aop) : Prop :=
  (forall p, op_anchor o = Some p -> In p ks) /\ (forall k, op_key o = Some k -> ~ In k ks).

Lemma ready_kready a o : ready a o <-> kready (akeys a) o.
Proof.
  unfold ready, kready. split; intros [A B]; split; intros z Hz.
  - apply is_key_in. now apply A.
  - apply is_key_false. now apply B.
  - apply is_key_in. now apply A.
  - apply is_key_false. now apply B.
Qed.

Lemma apply_split' a o : kready (akeys a) o -> apply_a a o = combine_kr (key_step (akeys a) o) (reg_step (aents a, aheld a) o).
Proof. intros H. apply apply_split. now apply ready_kready. Qed.

Lemma key_step_in ks o ks' x : key_step ks o = Some ks' -> (In x ks' <-> op_key o = Some x \/ In x ks).
Proof.
  destruct o as [p i v|p i t|i t]; cbn [key_step op_key]; intros H.
  - rewrite (in_kinsert _ _ _ _ x H). split; intros [A|A]; auto; left; congruence.
  - rewrite (in_kinsert _ _ _ _ x H). split; intros [A|A]; auto; left; congruence.
  - injection H as <-. split; [auto|intros [A|A]; [discriminate|exact A]].
Qed.

Lemma kready_after ks x y ks' : kready ks y -> key_step ks x = Some ks' ->
  (forall kx ky, op_key x = Some kx -> op_key y = Some ky -> kx <> ky) -> kready ks' y.
Proof.
  intros [A B] Hs Hk. split.
  - intros p Hp. apply (key_step_in _ _ _ p Hs). right. now apply A.
  - intros k Hk' Hin. apply (key_step_in _ _ _ k Hs) in Hin. destruct Hin as [E|Hin]; [|now apply (B k)].
    eapply Hk; eauto.
Qed.

Lemma two_steps a x y : kready (akeys a) x -> kready (akeys a) y ->
  (forall kx ky, op_key x = Some kx -> op_key y = Some ky -> kx <> ky) ->
  obnd (apply_a a x) (fun a' => apply_a a' y) =
  combine_kr (obnd (key_step (akeys a) x) (fun ks => key_step ks y))
             (rbnd (reg_step (aents a, aheld a) x) (fun r => reg_step r y)).
Proof.
  intros Rx Ry Hk. rewrite (apply_split' a x Rx).
  destruct (key_step (akeys a) x) as [K1|] eqn:EK; cbn [combine_kr obnd]; [|reflexivity].
  destruct (reg_step (aents a, aheld a) x) as [[E1 H1]|] eqn:ER; cbn [combine_kr obnd rbnd].
  - rewrite apply_split'; [reflexivity|]. cbn [akeys]. eapply kready_after; eauto.
  - destruct (key_step K1 y); reflexivity.
Qed.

Lemma key_steps_commute ks x y : kready ks x -> kready ks y ->
  (forall kx ky, op_key x = Some kx -> op_key y = Some ky -> kx <> ky) ->
  obnd (key_step ks x) (fun k1 => key_step k1 y) = obnd (key_step ks y) (fun k1 => key_step k1 x).
Proof.
  intros [Ax Bx] [Ay By] Hk.
  assert (Cross : forall p k, In p ks -> ~ In k ks -> p <> k) by (intros p k Hp Hn ->; contradiction).
  destruct x as [px i v|px i t|i t], y as [py j w|py j u|j u]; cbn [key_step obnd op_key op_anchor] in *;
    try (destruct (kinsert _ _ ks); reflexivity); try reflexivity.
  - apply kinsert_commute; [apply (Hk i j); reflexivity|apply Cross; [apply Ax|apply By]; reflexivity|apply Cross; [apply Ay|apply Bx]; reflexivity].
  - apply kinsert_commute; [apply (Hk i u); reflexivity|apply Cross; [apply Ax|apply By]; reflexivity|apply Cross; [apply Ay|apply Bx]; reflexivity].
  - apply kinsert_commute; [apply (Hk t j); reflexivity|apply Cross; [apply Ax|apply By]; reflexivity|apply Cross; [apply Ay|apply Bx]; reflexivity].
  - apply kinsert_commute; [apply (Hk t u); reflexivity|apply Cross; [apply Ax|apply By]; reflexivity|apply Cross; [apply Ay|apply Bx]; reflexivity].
Qed.

Theorem ops_commute a x y : kready (akeys a) x -> kready (akeys a) y -> compat (aents a) x y ->
  oaeq (obnd (apply_a a x) (fun a' => apply_a a' y)) (obnd (apply_a a y) (fun a' => apply_a a' x)).
Proof.
  intros Rx Ry C. pose proof (cp_keys _ _ _ C) as Hk.
  rewrite (two_steps a x y Rx Ry Hk).
  rewrite (two_steps a y x Ry Rx) by (intros kx ky A B E; eapply Hk; eauto).
  rewrite (key_steps_commute _ x y Rx Ry Hk).
  pose proof (reg_commute (aents a) (aheld a) x y C) as HR.
  destruct (obnd (key_step (akeys a) y) (fun k1 => key_step k1 x)) as [K|]; cbn [combine_kr]; [|exact I].
  destruct (rbnd (reg_step (aents a, aheld a) x) (fun r => reg_step r y)) as [[E1 H1]|],
           (rbnd (reg_step (aents a, aheld a) y) (fun r => reg_step r x)) as [[E2 H2]|]; cbn [oreq] in HR; try contradiction; cbn [oaeq]; [|exact I].
  destruct HR as [A B]. split; [reflexivity|]. split; [exact A|exact B].
Qed.

(* ------------------------------------------------------------------ *)
(* any number of concurrent operations, any two execution orders          *)
Fixpoint run_a (ops : list aop) (s : option arr) : option arr :=
  match ops with
  | [] => s
  | o :: r => run_a r (obnd s (fun a => apply_a a o))
  end.

Lemma run_a_none ops : run_a ops None = None.
Proof. induction ops as [|o r IH]; cbn [run_a obnd]; [reflexivity|exact IH]. Qed.

Lemma apply_a_aeq a b o : aeq a b -> oaeq (apply_a a o) (apply_a b o).
Proof. intros H. destruct o; cbn [apply_a]; [now apply a_insert_aeq|now apply a_move_aeq|now apply a_delete_aeq]. Qed.

Lemma run_a_aeq ops : forall a b, aeq a b -> oaeq (run_a ops (Some a)) (run_a ops (Some b)).
Proof.
  induction ops as [|o r IH]; intros a b H; cbn [run_a obnd]; [exact H|].
  pose proof (apply_a_aeq a b o H) as Ho.
  destruct (apply_a a o) as [a'|], (apply_a b o) as [b'|]; cbn [oaeq] in Ho; try contradiction.
  - now apply IH.
  - rewrite !run_a_none. exact I.
Qed.

Lemma oaeq_trans x y z : oaeq x y -> oaeq y z -> oaeq x z.
Proof. destruct x, y, z; cbn; try tauto. apply aeq_trans. Qed.

Definition op_keys (ops : list aop) : list ticket := flat_map (fun o => match op_key o with Some k => [k] | None => [] end) ops.

Record goodA (ops : list aop) (a : arr) : Prop := {
  ga_ready : forall o, In o ops -> kready (akeys a) o;
  ga_keys : NoDup (op_keys ops);
  ga_fresh : forall o k, In o ops -> op_key o = Some k -> key_fresh (aents a) k;
  ga_new : forall x y i j, In x ops -> In y ops -> op_newid x = Some i -> op_target y = Some j -> i <> j;
  ga_ids : forall id e, find_entry (aents a) id = Some e -> en_id e = id
}.

Lemma op_keys_in ops o k : In o ops -> op_key o = Some k -> In k (op_keys ops).
Proof. intros Ho Hk. unfold op_keys. apply in_flat_map. exists o. split; [exact Ho|]. rewrite Hk. now left. Qed.

Lemma goodA_pair x y ops a : goodA (x :: y :: ops) a -> kready (akeys a) x /\ kready (akeys a) y /\ compat (aents a) x y.
Proof.
  intros [Gr Gk Gf Gn Gi]. split; [apply Gr; now left|]. split; [apply Gr; right; now left|].
  constructor.
  - intros kx ky Hx Hy E. subst ky. unfold op_keys in Gk. cbn [flat_map] in Gk. rewrite Hx, Hy in Gk. cbn [app] in Gk.
    apply NoDup_cons_iff in Gk. destruct Gk as [Hni _]. apply Hni. now left.
  - intros k Hk. eapply Gf; eauto. now left.
  - intros k Hk. eapply Gf; eauto. right. now left.
  - intros i j Hi Hj. eapply (Gn x y); eauto; [now left|right; now left].
  - intros i j Hi Hj. eapply (Gn y x); eauto; [right; now left|now left].
  - exact Gi.
Qed.

Lemma goodA_perm ops ops' a : Permutation ops ops' -> goodA ops a -> goodA ops' a.
Proof.
  intros HP [Gr Gk Gf Gn Gi].
  assert (In' : forall o, In o ops' -> In o ops) by (intros o Ho; eapply Permutation_in; [symmetry; exact HP|exact Ho]).
  constructor; auto.
  - eapply Permutation_NoDup; [|exact Gk]. unfold op_keys. now apply Permutation_flat_map.
  - intros o k Ho. apply Gf. auto.
  - intros x y i j Hx Hy. apply Gn; auto.
Qed.

Lemma goodA_step o ops a a' : goodA (o :: ops) a -> apply_a a o = Some a' -> goodA ops a'.
Proof.
  intros [Gr Gk Gf Gn Gi] Ha.
  assert (Ro : kready (akeys a) o) by (apply Gr; now left).
  rewrite (apply_split' a o Ro) in Ha.
  destruct (key_step (akeys a) o) as [K1|] eqn:EK; [|discriminate].
  destruct (reg_step (aents a, aheld a) o) as [[E1 H1]|] eqn:ER; [|discriminate]. injection Ha as <-.
  assert (Hko : forall b k, In b ops -> op_key b = Some k -> forall ko, op_key o = Some ko -> ko <> k).
  { intros b k Hb Hk ko Hko E. subst ko. unfold op_keys in Gk. cbn [flat_map] in Gk. rewrite Hko in Gk. cbn [app] in Gk.
    apply NoDup_cons_iff in Gk. destruct Gk as [Hni _]. apply Hni. eapply op_keys_in; eauto. }
  (* the entries after the step: every entry is an old one, possibly rewritten, or the new one *)
  assert (HE : forall id e, find_entry E1 id = Some e ->
            en_id e = id /\ ((exists e0, find_entry (aents a) id = Some e0 /\ (en_pos e = en_pos e0 \/ op_key o = Some (en_pos e))) \/
                             (op_newid o = Some id /\ op_key o = Some (en_pos e)))).
  { intros id e He. destruct o as [p i v|p i t|i t]; cbn [reg_step] in ER.
    - injection ER as <- <-. rewrite find_entry_set in He. cbn [en_id] in He. destruct (teqb i id) eqn:E.
      + apply teqb_spec in E. subst id. injection He as <-. cbn. split; [reflexivity|]. right. auto.
      + split; [eapply Gi; eauto|]. left. exists e. auto.
    - destruct (find_entry (aents a) i) as [e0|] eqn:E0; [|discriminate].
      destruct (mv_loses e0 t).
      + injection ER as <- <-. split; [eapply Gi; eauto|]. left. exists e. auto.
      + injection ER as <- <-. rewrite find_entry_set in He. cbn [en_id] in He. destruct (teqb i id) eqn:E.
        * apply teqb_spec in E. subst id. injection He as <-. cbn. split; [reflexivity|]. left. exists e0. auto.
        * split; [eapply Gi; eauto|]. left. exists e. auto.
    - destruct (find_entry (aents a) i) as [e0|] eqn:E0; [|discriminate]. injection ER as <- <-.
      rewrite find_entry_set, elem_remove_ermv in He. cbn [en_id] in He. rewrite (Gi _ _ E0) in He.
      destruct (teqb i id) eqn:E.
      + apply teqb_spec in E. subst id. injection He as <-. cbn. split; [reflexivity|]. left. exists e0. auto.
      + split; [eapply Gi; eauto|]. left. exists e. auto. }
  constructor; cbn [akeys aents].
  - intros b Hb. eapply kready_after; [apply Gr; now right|exact EK|].
    intros kx ky Hx Hy. eapply Hko; eauto.
  - unfold op_keys in *. cbn [flat_map] in Gk. clear - Gk. induction (match op_key o with Some k => [k] | None => [] end) as [|z zs IHz]; [exact Gk|].
    cbn [app] in Gk. apply NoDup_cons_iff in Gk. apply IHz. tauto.
  - intros b k Hb Hk. destruct (Gf b k (or_intror Hb) Hk) as [F1 F2]. split.
    + (* no entry under k *)
      destruct (find_entry E1 k) as [e|] eqn:Ek; [|reflexivity]. exfalso.
      destruct (HE _ _ Ek) as [_ [(e0 & H0 & _)|(Hn & Hkk)]]; [congruence|].
      (* k is the id o creates: then it is o's key *)
      destruct o as [p i v|p i t|i t]; cbn [op_newid op_key] in *; try discriminate.
      injection Hn as ->. eapply (Hko b k Hb Hk k); reflexivity.
    + intros id e He Hp. destruct (HE _ _ He) as [_ [(e0 & H0 & [Hs|Hs])|(_ & Hs)]].
      * eapply F2; eauto. congruence.
      * rewrite Hp in Hs. eapply (Hko b k Hb Hk k Hs). reflexivity.
      * rewrite Hp in Hs. eapply (Hko b k Hb Hk k Hs). reflexivity.
  - intros x y i j Hx Hy. apply Gn; now right.
  - intros id e He. now destruct (HE _ _ He).
Qed.

Theorem array_batch_converges ops1 ops2 : Permutation ops1 ops2 -> forall a, goodA ops1 a ->
  oaeq (run_a ops1 (Some a)) (run_a ops2 (Some a)).
Proof.
  induction 1 as [|x ops ops' HP IH|x y ops|ops ops' ops'' HP1 IH1 HP2 IH2]; intros a Hg.
  - apply oaeq_refl.
  - cbn [run_a obnd]. destruct (apply_a a x) as [a'|] eqn:E; [|rewrite !run_a_none; exact I].
    apply IH. eapply goodA_step; eauto.
  - cbn [run_a obnd].
    destruct (goodA_pair y x ops a Hg) as (Ry & Rx & C).
    pose proof (ops_commute a y x Ry Rx C) as Hc.
    assert (Gtail : forall s, obnd (apply_a a y) (fun a' => apply_a a' x) = Some s -> goodA ops s).
    { intros s Hs. destruct (apply_a a y) as [ay|] eqn:Ey; [|discriminate]. cbn [obnd] in Hs.
      eapply (goodA_step x ops ay s); [|exact Hs]. eapply (goodA_step y (x :: ops) a ay); eauto. }
    destruct (obnd (apply_a a y) (fun a' => apply_a a' x)) as [s1|] eqn:E1,
             (obnd (apply_a a x) (fun a' => apply_a a' y)) as [s2|] eqn:E2; cbn [oaeq] in Hc; try contradiction.
    + apply run_a_aeq. exact Hc.
    + rewrite !run_a_none. exact I.
  - eapply oaeq_trans; [apply IH1; exact Hg|]. apply IH2. eapply goodA_perm; eauto.
Qed.

Corollary array_batch_same_content ops1 ops2 a : Permutation ops1 ops2 -> goodA ops1 a ->
  option_map a_visible (run_a ops1 (Some a)) = option_map a_visible (run_a ops2 (Some a)).
Proof.
  intros HP Hg. pose proof (array_batch_converges ops1 ops2 HP a Hg) as H.
  destruct (run_a ops1 (Some a)), (run_a ops2 (Some a)); cbn [oaeq option_map] in *; try contradiction; [|reflexivity].
  f_equal. now apply visible_aeq.
Qed.

(* ---- the premises are met ---- *)
Lemma find_entry_In E id e : find_entry E id = Some e -> In e E.
Proof. induction E as [|x r IH]; cbn [find_entry]; [discriminate|]. destruct (teqb (en_id x) id); [intros [= <-]; now left|right; auto]. Qed.

Definition ex_A := mkT 1 1%N 0%N. Definition ex_B := mkT 2 1%N 0%N.
Definition ex_arr : option arr := obnd (a_insert empty_arr initial_ticket ex_A 10) (fun a => a_insert a ex_A ex_B 20).
Definition ex_aops : list aop :=
  [ AIns ex_B (mkT 5 1%N 0%N) 30; AMov ex_B ex_A (mkT 5 2%N 0%N); AMov initial_ticket ex_A (mkT 6 3%N 0%N); ADel ex_B (mkT 7 1%N 0%N) ].

Example array_premises_hold :
  exists a, ex_arr = Some a /\ goodA ex_aops a /\
            option_map a_visible (run_a ex_aops (Some a)) = Some [10; 30] /\
            option_map a_visible (run_a (rev ex_aops) (Some a)) = Some [10; 30].
Proof.
  eexists. split; [vm_compute; reflexivity|]. split; [|split; vm_compute; reflexivity].
  constructor.
  - intros o [<-|[<-|[<-|[<-|[]]]]]; split; cbn [op_anchor op_key akeys]; intros z [= <-]; cbn; intuition discriminate.
  - cbn. repeat (constructor; [cbn; intros H; repeat (destruct H as [H|H]; [discriminate H|]); exact H|]). constructor.
  - intros o k [<-|[<-|[<-|[<-|[]]]]]; cbn [op_key]; intros [= <-]; (split; [vm_compute; reflexivity|]);
      intros id e He; apply find_entry_In in He; cbn in He; destruct He as [<-|[<-|[]]]; cbn; discriminate.
  - intros x y i j [<-|[<-|[<-|[<-|[]]]]] [<-|[<-|[<-|[<-|[]]]]]; cbn [op_newid op_target]; intros [= <-] [= <-]; discriminate.
  - intros id e He. cbn [aents] in He. cbn [find_entry] in He.
    repeat match type of He with (if teqb ?a ?b then _ else _) = _ => let E := fresh "E" in destruct (teqb a b) eqn:E; [apply teqb_spec in E; injection He as <-; exact E|] end.
    discriminate.
Qed.
