(* TextSplice.v — C07 for text on the character-level model: a local edit given by visible
   indices replaces exactly that part of the visible string; tombstones, wherever they sit, do not
   influence it.  pos_of_index models RGATreeSplit.findNodePos (treeByIndex.FindForText): the
   position right after the i-th visible character, the head for 0. *)
From Coq Require Import Lia.
From YV Require Import Base.Ticket Crdt.TextRGA Proofs.TicketProofs Proofs.TextProofs.

(* distinct characters have distinct ids *)
Definition ids_distinct (l : list tch) : Prop := NoDup (map (fun c => (c_tk c, c_off c)) l).

Lemma visible_app a b : visible (a ++ b) = visible a ++ visible b.
Proof. unfold visible. now rewrite flat_map_app. Qed.

Lemma visible_cons c l : visible (c :: l) = (if live c then [c_val c] else []) ++ visible l.
Proof. unfold visible, live. cbn [flat_map]. destruct (c_rm c); reflexivity. Qed.

Lemma cid_eqb_true c tk off : cid_eqb c tk off = true <-> (c_tk c, c_off c) = (tk, off).
Proof.
  unfold cid_eqb. rewrite andb_true_iff, teqb_spec, N.eqb_eq. split; [intros [-> ->]; reflexivity|intros [= -> ->]; auto].
Qed.

(* the prefix that ends with the i-th visible character *)
Lemma split_at_visible l : ids_distinct l -> forall i p, (1 <= i)%nat -> pos_after_nth l i = Some p ->
  exists a r, l = a ++ r /\ at_end p a /\ visible a = firstn i (visible l) /\ visible r = skipn i (visible l) /\
              length (visible a) = i.
Proof.
  induction l as [|c l IH]; intros Hd i p Hi H; cbn [pos_after_nth] in H; [discriminate|].
  assert (Hd' : ids_distinct l) by (unfold ids_distinct in *; cbn [map] in Hd; now apply NoDup_cons_iff in Hd).
  assert (Hfresh : forall x, In x l -> cid_eqb x (c_tk c) (c_off c) = false).
  { intros x Hx. destruct (cid_eqb x (c_tk c) (c_off c)) eqn:E; [|reflexivity]. apply cid_eqb_true in E.
    unfold ids_distinct in Hd. cbn [map] in Hd. apply NoDup_cons_iff in Hd. destruct Hd as [Hni _].
    exfalso. apply Hni. rewrite <- E. now apply (in_map (fun c => (c_tk c, c_off c))). }
  (* a prefix of l extended by c at the front still ends where it ended, unless it names c *)
  assert (Ext : forall p' a, at_end p' a -> a <> [] -> is_at p' c = false -> at_end p' (c :: a)).
  { intros p' a Ha Hne Hc. destruct p' as [|tk off]; cbn [at_end] in *; [subst; contradiction|].
    destruct Ha as (a' & z & -> & Hz & Hall). exists (c :: a'), z. split; [reflexivity|]. split; [exact Hz|].
    intros x [<-|Hx]; [exact Hc|now apply Hall]. }
  rewrite visible_cons. destruct (live c) eqn:Lc.
  - destruct i as [|[|j]]; [lia| |].
    + injection H as <-. exists [c], l. split; [reflexivity|]. split.
      * exists [], c. split; [reflexivity|]. split; [apply cid_eqb_true; reflexivity|intros ? []].
      * rewrite visible_cons, Lc. cbn. auto.
    + destruct (IH Hd' (S j) p ltac:(lia) H) as (a & r & -> & Ha & Va & Vr & La).
      exists (c :: a), r. split; [reflexivity|]. split.
      * apply Ext; [exact Ha|destruct a; [cbn in La; lia|discriminate]|].
        (* p names a character of l, not c *)
        destruct p as [|tk off]; [reflexivity|]. cbn [at_end] in Ha. destruct Ha as (a' & z & -> & Hz & _).
        rewrite is_at_cid. destruct (cid_eqb c tk off) eqn:E; [|reflexivity].
        apply cid_eqb_true in E. apply cid_eqb_true in Hz. rewrite <- E in Hz.
        assert (Hzin : In z ((a' ++ [z]) ++ r)) by (apply in_or_app; left; apply in_or_app; right; now left).
        pose proof (Hfresh z Hzin) as F. apply cid_eqb_true in Hz. congruence.
      * rewrite !visible_cons, Lc. cbn [app]. rewrite firstn_cons, skipn_cons. cbn [length]. rewrite <- Va, <- Vr, La. auto.
  - destruct (IH Hd' i p Hi H) as (a & r & -> & Ha & Va & Vr & La).
    exists (c :: a), r. split; [reflexivity|]. split.
    + apply Ext; [exact Ha|destruct a; [cbn in La; lia|discriminate]|].
      destruct p as [|tk off]; [reflexivity|]. cbn [at_end] in Ha. destruct Ha as (a' & z & -> & Hz & _).
      rewrite is_at_cid. destruct (cid_eqb c tk off) eqn:E; [|reflexivity].
      apply cid_eqb_true in E. apply cid_eqb_true in Hz. rewrite <- E in Hz.
      assert (Hzin : In z ((a' ++ [z]) ++ r)) by (apply in_or_app; left; apply in_or_app; right; now left).
      pose proof (Hfresh z Hzin) as F. apply cid_eqb_true in Hz. congruence.
    + rewrite !visible_cons, Lc. cbn [app]. auto.
Qed.

Lemma pos_after_nth_some l : forall i, (1 <= i <= length (visible l))%nat -> exists p, pos_after_nth l i = Some p.
Proof.
  induction l as [|c l IH]; intros i Hi; [cbn in Hi; lia|].
  cbn [pos_after_nth]. rewrite visible_cons in Hi. destruct (live c).
  - cbn [app length] in Hi. destruct i as [|[|j]]; [lia|eauto|]. apply IH. lia.
  - cbn [app] in Hi. now apply IH.
Qed.

Lemma split_at_index l i : ids_distinct l -> (i <= length (visible l))%nat ->
  exists p a r, pos_of_index l i = Some p /\ l = a ++ r /\ at_end p a /\
                visible a = firstn i (visible l) /\ visible r = skipn i (visible l) /\ length (visible a) = i.
Proof.
  intros Hd Hi. destruct i as [|i'].
  - exists PHead, [], l. repeat split; reflexivity.
  - destruct (pos_after_nth_some l (S i') ltac:(lia)) as (p & Hp).
    destruct (split_at_visible l Hd (S i') p ltac:(lia) Hp) as (a & r & E & Ha & Va & Vr & La).
    exists p, a, r. cbn [pos_of_index]. repeat (split; [assumption|]). assumption.
Qed.

Lemma place_no_newer t blk X : (forall c, In c X -> tafter (c_tk c) t = false) -> place t blk X = blk ++ X.
Proof. destruct X as [|c X]; intros H; cbn [place]; [now rewrite app_nil_r|]. now rewrite (H c (or_introl eq_refl)). Qed.

Lemma visible_mkblock t off vals : visible (mkblock t off vals) = vals.
Proof. revert off. induction vals as [|x r IH]; intros off; cbn [mkblock]; [reflexivity|]. rewrite visible_cons. cbn. now rewrite IH. Qed.

Lemma visible_local_del t l : visible (map (del_ch t None) l) = [].
Proof.
  induction l as [|c l IH]; cbn [map]; [reflexivity|]. rewrite visible_cons, IH, app_nil_r.
  unfold live, del_ch. cbn [known]. destruct (c_rm c) eqn:E; cbn [andb negb c_rm]; [now rewrite E|reflexivity].
Qed.

(* C07, text: a local edit at visible indices [i, j) is a splice of the visible string *)
Theorem local_edit_splices l i j vals t : ids_distinct l ->
  (forall c, In c l -> tafter (c_tk c) t = false) ->
  (i <= j <= length (visible l))%nat ->
  exists l', local_edit i j vals t l = Some l' /\
             visible l' = firstn i (visible l) ++ vals ++ skipn j (visible l).
Proof.
  intros Hd Hnew [Hij Hj].
  destruct (split_at_index l i Hd ltac:(lia)) as (pf & fa & fr & Ei & Lf & Ef & Vfa & Vfr & Lfa).
  destruct (split_at_index l j Hd Hj) as (pt & ta & tr & Ej & Lt & Et & Vta & Vtr & Lta).
  unfold local_edit. rewrite Ei, Ej.
  assert (Hlen : (length fa <= length ta)%nat).
  { destruct (Nat.le_gt_cases (length fa) (length ta)) as [H|H]; [exact H|]. exfalso.
    assert (Hpre : ta ++ tr = fa ++ fr) by congruence.
    destruct (prefix_split _ _ _ _ Hpre ltac:(lia)) as (m & -> & _).
    rewrite visible_app, app_length in Lfa.
    assert (i = j) by lia. subst j.
    (* fa = ta ++ m ends with the i-th visible character, which is already in ta *)
    destruct m as [|z m]; [rewrite app_nil_r in H; lia|].
    assert (Vm : visible (z :: m) = []) by (destruct (visible (z :: m)); [reflexivity|cbn in Lfa; lia]).
    destruct i as [|i'].
    - cbn [pos_of_index] in Ei. injection Ei as <-. cbn [at_end] in Ef. destruct ta; discriminate.
    - (* the last character of fa is live: it is the one the position names *)
      cbn [pos_of_index] in Ei.
      assert (Hlast : forall l0 k p, pos_after_nth l0 k = Some p -> exists c0, In c0 l0 /\ live c0 = true /\ p = PAfter (c_tk c0) (c_off c0)).
      { induction l0 as [|c0 l0 IHl]; intros k p Hp; cbn [pos_after_nth] in Hp; [discriminate|].
        destruct (live c0) eqn:L0.
        - destruct k as [|[|k']]; [discriminate| |].
          + injection Hp as <-. exists c0. split; [now left|]. auto.
          + destruct (IHl _ _ Hp) as (c1 & H1 & H2 & H3). exists c1. split; [now right|]. auto.
        - destruct (IHl _ _ Hp) as (c1 & H1 & H2 & H3). exists c1. split; [now right|]. auto. }
      destruct (Hlast _ _ _ Ei) as (c0 & Hc0 & Lc0 & ->).
      cbn [at_end] in Ef. destruct Ef as (a' & zz & Ea & Hzz & _).
      (* zz is the last of z :: m, hence not live; but it has c0's id, and ids are distinct, so zz = c0 *)
      assert (Hzz_in : In zz (z :: m)).
      { destruct (snoc_cases (z :: m)) as [F|(m' & y & Em)]; [discriminate|].
        rewrite Em, app_assoc in Ea. apply app_inj_tail in Ea. destruct Ea as [_ <-]. rewrite Em. apply in_or_app. right. now left. }
      assert (Hzz_l : In zz l) by (rewrite Lf; apply in_or_app; left; apply in_or_app; now right).
      assert (zz = c0).
      { apply cid_eqb_true in Hzz.
        assert (G : forall (l0 : list tch) x y, NoDup (map (fun c => (c_tk c, c_off c)) l0) -> In x l0 -> In y l0 ->
                    (c_tk x, c_off x) = (c_tk y, c_off y) -> x = y).
        { induction l0 as [|w l0 IHg]; intros x y Hn Hx Hy Hxy; [destruct Hx|].
          cbn [map] in Hn. apply NoDup_cons_iff in Hn. destruct Hn as [Hni Hn].
          destruct Hx as [<-|Hx], Hy as [<-|Hy]; auto.
          - exfalso. apply Hni. rewrite Hxy. now apply (in_map (fun c => (c_tk c, c_off c))).
          - exfalso. apply Hni. rewrite <- Hxy. now apply (in_map (fun c => (c_tk c, c_off c))). }
        apply (G l); auto. }
      subst zz.
      assert (Hv : In (c_val c0) (visible (z :: m))).
      { clear - Hzz_in Lc0. induction (z :: m) as [|w q IHq]; [destruct Hzz_in|]. rewrite visible_cons.
        destruct Hzz_in as [->|Hq]; [rewrite Lc0; now left|apply in_or_app; right; now apply IHq]. }
      rewrite Vm in Hv. destruct Hv. }
  assert (Hk : forall c, In c l -> tafter (c_tk c) t = true -> known None (c_tk c) = false).
  { intros c Hc Hn. rewrite (Hnew c Hc) in Hn. discriminate. }
  assert (Sf : split_after pf l = Some (fa, fr)) by (rewrite Lf; now apply split_after_of_decomp).
  assert (St : split_after pt l = Some (ta, tr)) by (rewrite Lt; now apply split_after_of_decomp).
  rewrite (edit_decompose pf pt vals t None l fa fr ta tr Sf St Hlen Hk).
  assert (Hpre : fa ++ fr = ta ++ tr) by congruence.
  destruct (prefix_split _ _ _ _ Hpre Hlen) as (mid & -> & ->).
  clear Lt Sf St Hpre. subst l. rewrite (delr_decomp pf pt _ fa mid tr Ef Et). rewrite (ins_decomp pf t _ fa _ Ef).
  eexists. split; [reflexivity|].
  rewrite place_no_newer.
  - rewrite !visible_app in Vfa, Vtr. rewrite !visible_app, visible_mkblock, visible_local_del. cbn [app]. now rewrite <- Vfa, <- Vtr.
  - intros c Hc. apply in_app_or in Hc. destruct Hc as [Hc|Hc].
    + apply in_map_iff in Hc. destruct Hc as (c0 & <- & Hc0). rewrite del_ch_tk. apply Hnew.
      apply in_or_app. right. apply in_or_app. now left.
    + apply Hnew. apply in_or_app. right. apply in_or_app. now right.
Qed.

(* ---- distinct ids are an invariant: every edit brings characters with a new ticket ---- *)
Definition cid (c : tch) := (c_tk c, c_off c).

Lemma mkblock_ids t off vals : forall c, In c (mkblock t off vals) -> c_tk c = t /\ (off <= c_off c)%N.
Proof.
  revert off. induction vals as [|x r IH]; intros off c; cbn [mkblock]; [intros []|].
  intros [<-|H]; [cbn; split; [reflexivity|lia]|]. destruct (IH _ _ H). split; [assumption|lia].
Qed.

Lemma mkblock_nodup t off vals : NoDup (map cid (mkblock t off vals)).
Proof.
  revert off. induction vals as [|x r IH]; intros off; cbn [mkblock map]; [constructor|].
  constructor; [|apply IH]. intros H. apply in_map_iff in H. destruct H as (c & E & Hc).
  destruct (mkblock_ids _ _ _ _ Hc) as [_ Hle]. unfold cid in E. cbn in E. injection E as _ E. lia.
Qed.

Lemma find_pos_app p t l a r : find_pos p t l = Some (a, r) -> l = a ++ r.
Proof.
  unfold find_pos. destruct (split_after p l) as [[a0 r0]|] eqn:S; [|discriminate].
  destruct (split_after_spec _ _ _ _ S) as [-> _].
  pose proof (skip_newer_spec t r0) as K. destruct (skip_newer t r0) as [s r']. destruct K as (-> & _ & _).
  intros [= <- <-]. now rewrite app_assoc.
Qed.

Lemma NoDup_app_r' {A} (a b : list A) : NoDup (a ++ b) -> NoDup b.
Proof. induction a as [|x a IH]; cbn [app]; [auto|]. intros H. apply NoDup_cons_iff in H. now apply IH. Qed.

Lemma NoDup_app_intro' {A} (a b : list A) : NoDup a -> NoDup b -> (forall x, In x a -> ~ In x b) -> NoDup (a ++ b).
Proof.
  induction a as [|x a IH]; cbn [app]; intros Ha Hb Hd; [exact Hb|].
  apply NoDup_cons_iff in Ha. destruct Ha as [Hni Ha]. constructor.
  - intros Hin. apply in_app_or in Hin. destruct Hin as [Hin|Hin]; [contradiction|]. apply (Hd x); [now left|exact Hin].
  - apply IH; auto. intros y Hy. apply Hd. now right.
Qed.

Theorem edit_ids_distinct pf pt vals t v l l' : ids_distinct l -> (forall c, In c l -> c_tk c <> t) ->
  edit pf pt vals t v l = Some l' -> ids_distinct l'.
Proof.
  intros Hd Hfresh He. unfold edit in He.
  destruct (find_pos pt t l) as [[tl tr]|] eqn:Ft; [|discriminate].
  destruct (find_pos pf t l) as [[fl fr]|] eqn:Ff; [|discriminate].
  pose proof (find_pos_app _ _ _ _ _ Ft) as Lt. pose proof (find_pos_app _ _ _ _ _ Ff) as Lf.
  (* in both branches the old characters are all there, in order, possibly tombstoned *)
  assert (Hshape : exists cand rest, fr = cand ++ rest /\ l' = fl ++ mkblock t 0 vals ++ map (del_ch t v) cand ++ rest).
  { destruct (Nat.leb (length fl) (length tl)) eqn:Hle.
    - apply Nat.leb_le in Hle. assert (Hpre : fl ++ fr = tl ++ tr) by congruence.
      destruct (prefix_split _ _ _ _ Hpre Hle) as (m & -> & ->).
      exists m, tr. split; [reflexivity|]. injection He as <-.
      rewrite app_length. replace (length fl + length m - length fl)%nat with (length m) by lia.
      now rewrite firstn_app, firstn_all, Nat.sub_diag, app_nil_r.
    - exists fr, []. split; [now rewrite app_nil_r|]. injection He as <-. reflexivity. }
  destruct Hshape as (cand & rest & -> & ->).
  unfold ids_distinct in *. fold cid in *. clear Ft Ff Lt He. subst l.
  assert (Hmap : map cid (map (del_ch t v) cand) = map cid cand).
  { rewrite map_map. apply map_ext. intros c. unfold cid. now rewrite del_ch_tk, del_ch_off. }
  rewrite !map_app, Hmap. rewrite !map_app in Hd.
  (* fl ++ blk ++ cand ++ rest: insert a duplicate-free list of new ids into a duplicate-free list *)
  assert (Hb : forall x, In x (map cid (mkblock t 0 vals)) -> ~ In x (map cid fl ++ map cid cand ++ map cid rest)).
  { intros x Hx Hin. apply in_map_iff in Hx. destruct Hx as (b & <- & Hbk). destruct (mkblock_ids _ _ _ _ Hbk) as [Hbt _].
    rewrite <- !map_app in Hin. apply in_map_iff in Hin. destruct Hin as (c & Ec & Hc).
    apply (Hfresh c Hc). unfold cid in Ec. congruence. }
  clear Hfresh Hmap.
  induction (map cid fl) as [|x xs IH].
  - cbn [app] in *. apply NoDup_app_intro'; [apply mkblock_nodup|exact Hd|]. intros y Hy. now apply Hb.
  - cbn [app] in *. apply NoDup_cons_iff in Hd. destruct Hd as [Hni Hd]. constructor.
    + intros Hin. apply in_app_or in Hin. destruct Hin as [Hin|Hin]; [apply Hni, in_or_app; now left|].
      apply in_app_or in Hin. destruct Hin as [Hin|Hin]; [apply (Hb x Hin); now left|apply Hni, in_or_app; now right].
    + apply IH; [exact Hd|]. intros y Hy Hin. apply (Hb y Hy). now right.
Qed.
